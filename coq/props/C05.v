(* C05 — leaving a cancel scope leaves no residue in the task or the loop.
   This file contains only statements closed by `exact` and their Print Assumptions.
   reach_ok2 s = s is reached from init by an op list of the generated domain (TreeStep.op_ok, see props/C03.v)
   in which explicit uncancel() is only used while the counter exceeds the debts of the task's own scopes
   (PotentialThms.unc_ok: the floor-free case).  phi s t = ncancel t - sum of _pending_uncancellations of the
   scopes hosted by t. *)
From Coq Require Import ZArith.
From AV Require Import Base Machine ScopeFrames DeliverInv TreeInv DeliverAlive PotentialInv TreeStep KernelInv DeliverThms PotentialThms CycleThms NativeAbsorbed DebtInv HdInv DebtThms.
From AV Require Import ChainWindow ReceiptWalk ReceiptRun NativeHonoured AuditWitness.

(* the three RuntimeError guards of __exit__: otherwise nothing changes *)
Theorem C05_scope_exit_guarded : forall s c t exc,
  ~ (s_active (scopes s c) = true /\ s_host (scopes s c) = Some t /\ k_cur (tasks s t) = Some c) ->
  scope_exit s c t exc = (s, XRaise ERuntime).
Proof. exact scope_exit_guarded. Qed.
Print Assumptions C05_scope_exit_guarded.

(* scope_ptr_restored + no_residual_timer: pointer, parent links, host, flags, timer of the scope *)
Theorem C05_scope_ptr_restored : forall s c t exc,
  s_active (scopes s c) = true -> s_host (scopes s c) = Some t -> k_cur (tasks s t) = Some c ->
  let s' := fst (scope_exit s c t exc) in
  k_cur (tasks s' t) = s_parent (scopes s c) /\
  s_host (scopes s' c) = None /\ s_active (scopes s' c) = false /\ s_timeout (scopes s' c) = None /\
  (forall p, s_parent (scopes s c) = Some p ->
     ~ In c (s_children (scopes s' p)) /\ In t (s_tasks (scopes s' p))) /\
  (s_parent (scopes s c) <> Some c -> ~ In t (s_tasks (scopes s' c))) /\
  (forall tm, s_timeout (scopes s c) = Some tm ->
     (forall x, In x (timers s') -> tm_id x <> tm) /\
     (forall h, In h (ready s') -> is_timer_handle tm h = false)).
Proof. exact scope_ptr_restored. Qed.
Print Assumptions C05_scope_ptr_restored.

(* I5, first half: the counter never falls below the task's own debts; an unhosted scope owes nothing *)
Theorem C05_potential_nonneg : forall s, reach_ok2 s ->
  (forall t, pending_of s t <= k_ncancel (tasks s t)) /\
  (forall c, s_host (scopes s c) = None -> s_pending (scopes s c) = 0).
Proof. exact potential_nonneg. Qed.
Print Assumptions C05_potential_nonneg.

(* I5: own cancellations are compensated.  One op changes phi t only as follows: a native cancel of a live
   task adds 1, an explicit uncancel subtracts 1, every other op can only add requests coming from scopes hosted
   by other tasks (never for a task that is not a group child) *)
Theorem C05_own_cancels_compensated : forall s o t,
  reach_ok2 s -> op_ok s o = true -> unc_ok s o = true -> alloc_t s t ->
  let s' := fst (step s o) in
  match o with
  | ANativeCancel t0 =>
      phi s' t = (if Nat.eqb t t0 then (if k_done (tasks s t0) then phi s t else phi s t + 1) else phi s t)%Z
  | AUncancel t0 =>
      phi s' t = (if Nat.eqb t t0 && idle s t0 then phi s t - 1 else phi s t)%Z
  | _ => (phi s t <= phi s' t)%Z /\ (k_group (tasks s t) = None -> phi s' t = phi s t)
  end.
Proof. exact own_cancels_compensated. Qed.
Print Assumptions C05_own_cancels_compensated.

(* cancelling_restored: along any run, for a task that is not a group child, phi moves only by native cancels
   and explicit uncancels, whatever scopes were entered, cancelled, re-delivered and left in between *)
Theorem C05_cancelling_restored : forall ops s t,
  reach_ok2 s -> ops_ok2 s ops = true -> alloc_t s t -> k_group (tasks s t) = None ->
  phi (final step s ops) t = (phi s t + ext_count s ops t)%Z.
Proof. exact cancelling_restored. Qed.
Print Assumptions C05_cancelling_restored.

Theorem C05_cancelling_restored_counter : forall ops s t,
  reach_ok2 s -> ops_ok2 s ops = true -> alloc_t s t -> k_group (tasks s t) = None ->
  pending_of s t = 0 -> pending_of (final step s ops) t = 0 ->
  Z.of_nat (k_ncancel (tasks (final step s ops) t)) = (Z.of_nat (k_ncancel (tasks s t)) + ext_count s ops t)%Z.
Proof. exact cancelling_restored_counter. Qed.
Print Assumptions C05_cancelling_restored_counter.

(* what __exit__ does with the debt: pending_handover (same-task parent), payment, no_foreign_handover (F6) *)
Theorem C05_exit_debt_settled : forall s c t exc,
  s_active (scopes s c) = true -> s_host (scopes s c) = Some t -> k_cur (tasks s t) = Some c ->
  s_parent (scopes s c) <> Some c ->
  let s5 := restart (exit_struct s c t) (s_parent (scopes s c)) in
  let n := s_pending (scopes s5 c) in
  let sf := fst (scope_exit s c t exc) in
  s_pending (scopes sf c) = 0 /\ s_host (scopes sf c) = None /\
  ((exists p, s_parent (scopes s c) = Some p /\ s_host (scopes s5 p) = Some t /\
              s_pending (scopes sf p) = s_pending (scopes s5 p) + n /\
              k_ncancel (tasks sf t) = k_ncancel (tasks s5 t)) \/
   (k_ncancel (tasks sf t) = k_ncancel (tasks s5 t) - n /\
    forall x, x <> c -> s_pending (scopes sf x) = s_pending (scopes s5 x))) /\
  (forall x, x <> c -> s_host (scopes s5 x) <> Some t -> s_pending (scopes sf x) = s_pending (scopes s5 x)) /\
  (forall t', t' <> t -> k_ncancel (tasks sf t') = k_ncancel (tasks s5 t')).
Proof. exact exit_debt_settled. Qed.
Print Assumptions C05_exit_debt_settled.

(* a delivery callback left in the ready queue after its scope was exited runs once and is gone *)
Theorem C05_leftover_deliver_runs_once : forall s c,
  reach_ok s -> s_active (scopes s c) = false -> In (HDeliver c) (ready s) ->
  let s' := fst (step s (ARun (HDeliver c))) in
  s_chandle (scopes s' c) = false /\ ready s' = remove_first (HDeliver c) (ready s) /\
  tasks s' = tasks s /\ timers s' = timers s /\
  (forall x, x <> c -> scopes s' x = scopes s x).
Proof. exact leftover_deliver_runs_once. Qed.
Print Assumptions C05_leftover_deliver_runs_once.

(* when all tasks are done a delivery callback that runs does not keep itself alive *)
Theorem C05_done_delivery_not_rescheduled : forall s c,
  reach_ok s -> (forall t, k_done (tasks s t) <> None) -> In (HDeliver c) (ready s) ->
  s_chandle (scopes (fst (step s (ARun (HDeliver c)))) c) = false.
Proof. exact loop_goes_idle_partial. Qed.
Print Assumptions C05_done_delivery_not_rescheduled.

(* loop_goes_idle.  run_head s = run the head of the ready queue (step s (ARun h)); identity on an empty queue.
   all_done s = every task record is in control state CDone and every allocated task has its outcome set.
   Once every task is done, running heads empties the ready queue within 3 * length (ready s) runs: a delivery
   callback never re-schedules itself and is dropped, no deadline callback is in the queue (every scope is
   inactive, and an inactive scope has neither a deadline timer nor a fired deadline callback), a task-done callback may schedule up to two wake-ups (the group's exit waiter and the
   handle's waiter; these resume done tasks, which is a no-op), a sleep-timer callback one.  No timer is added
   meanwhile, and every timer left is a sleep timer: no deadline timer of any scope remains.  (That no sleep
   timer of a finished task remains is not claimed: the model has no ownership link from timers to tasks.) *)
Theorem C05_loop_goes_idle : forall s,
  reach_ok s -> all_done s ->
  exists k, k <= 3 * length (ready s) /\
            ready (iter k run_head s) = [] /\
            incl (timers (iter k run_head s)) (timers s) /\
            (forall x, In x (timers (iter k run_head s)) -> exists f, tm_what x = TSleep f).
Proof. exact loop_goes_idle. Qed.
Print Assumptions C05_loop_goes_idle.

(* the premises are satisfiable with a leftover callback: the root task cancels and leaves its deadline scope
   and finishes; the delivery callback of the scope is still scheduled and one head run removes it *)
Theorem C05_loop_goes_idle_nonvacuous :
  let s := final step init
             [ANewRoot; ANewScope 1 (Some 5%Z) false; AEnter 1 1; ACancel 1 1; AExit 1 1 false; AFinish 1 0] in
  reach_ok s /\ all_done s /\ ready s = [HDeliver 1] /\ ready (run_head s) = [] /\ timers (run_head s) = [].
Proof. exact idle2_premises. Qed.
Print Assumptions C05_loop_goes_idle_nonvacuous.

(* ---- known finding F19: the interop clause at full strength is refuted ----
   "Native asyncio constructs used around AnyIO scopes behave as if the scope had never been cancelled" would
   require every native cancellation request to be raised in the task eventually (or to stay pending).  Witness
   (also replayed against the real code from corpus/C05 on every run): a native Task.cancel() that arrives after
   the scope's delivery has cancelled the task's wait is counted (cancelling() = 1) but never raised: the only
   CancelledError that surfaces is the scope's own, which the scope absorbs; afterwards nothing is pending. *)
Theorem C05_native_request_absorbed_refuted :
  let s := final step init f19_ops in
  existsb requests_native f19_ops = true /\
  existsb is_native_result (results init f19_ops) = false /\
  k_ncancel (tasks s 1%nat) = 1%nat /\ k_must (tasks s 1%nat) = false /\ k_held (tasks s 1%nat) = None /\
  k_ctl (tasks s 1%nat) = CIdle /\
  s_caught (scopes s 1%nat) = true /\ s_active (scopes s 1%nat) = false /\ s_pending (scopes s 1%nat) = 0%nat.
Proof. exact native_request_absorbed_witness. Qed.
Print Assumptions C05_native_request_absorbed_refuted.

(* ---- entry-relative restoration of cancelling() (audit C05 items 2 and 3.2/3.3) ----
   anc s y x   = y is x or an ancestor of x along the parent links (shields are ignored)
   clean s t   = no scope on the parent chain of t's current scope is cancelled; it implies that t is not
                 effectively cancelled (C05_clean_not_effectively_cancelled), not conversely (a shield can hide a
                 cancelled ancestor: see the refuted witness below)
   ext_count   = (# native Task.cancel() on t while it is alive) - (# effective explicit uncancel() by t) in the run *)

(* a delivery callback in the ready queue always belongs to a cancelled scope (no stale callback can create a
   debt for a scope that was never cancelled) *)
Theorem C05_delivery_callback_scope_cancelled : forall s c,
  reach_ok s -> In (HDeliver c) (ready s) -> s_cancelled (scopes s c) = true.
Proof. exact deliver_handle_cancelled. Qed.
Print Assumptions C05_delivery_callback_scope_cancelled.

(* where debts can sit, in every reachable state: on hosted scopes only, and only on a scope that is cancelled or
   has a cancelled ancestor (deliveries create debts on their cancelled origin; __exit__ hands a debt to the
   parent only if the scope was not cancelled itself - then the cancelled scope lies further up - or if the
   parent's chain shows a cancelled scope) *)
Theorem C05_debts_only_under_cancelled : forall s,
  reach_ok s ->
  (forall x, s_host (scopes s x) = None -> s_pending (scopes s x) = 0) /\
  (forall x, 0 < s_pending (scopes s x) -> exists y, anc s y x /\ s_cancelled (scopes s y) = true).
Proof. exact debts_only_under_cancelled. Qed.
Print Assumptions C05_debts_only_under_cancelled.

(* hence a task that has no cancelled scope around it owes nothing: every scope it hosts is its current scope or
   an ancestor of it (structural invariant) *)
Theorem C05_no_debt_outside_cancelled : forall s t,
  reach_ok2 s -> alloc_t s t -> clean s t -> pending_of s t = 0.
Proof. exact clean_no_debt. Qed.
Print Assumptions C05_no_debt_outside_cancelled.

Theorem C05_clean_not_effectively_cancelled : forall s t fuel,
  clean s t -> eff_cancelled_from fuel s (k_cur (tasks s t)) = false.
Proof. exact clean_not_effectively_cancelled. Qed.
Print Assumptions C05_clean_not_effectively_cancelled.

(* root tasks (not spawned into a task group), any run of the domain from s: if no scope around the task is
   cancelled at the start and at the end, cancelling() has moved exactly by the native cancels and explicit
   uncancels in between.  Every delivery the task received in between came from a scope it hosts itself and has
   been compensated by the time that scope and its cancelled ancestors have been left - whatever was entered,
   cancelled, shielded, handed over and left meanwhile. *)
Theorem C05_cancelling_back_at_entry : forall ops s t,
  reach_ok2 s -> ops_ok2 s ops = true -> alloc_t s t -> k_group (tasks s t) = None ->
  clean s t -> clean (final step s ops) t ->
  Z.of_nat (k_ncancel (tasks (final step s ops) t)) = (Z.of_nat (k_ncancel (tasks s t)) + ext_count s ops t)%Z.
Proof. exact cancelling_back_at_entry. Qed.
Print Assumptions C05_cancelling_back_at_entry.

(* the instance the property text talks about: from before `with scope:` to after it *)
Theorem C05_cancelling_back_at_entry_scope : forall s t c mid fa,
  reach_ok2 s -> alloc_t s t -> k_group (tasks s t) = None ->
  let ops := AEnter t c :: mid ++ [AExit t c fa] in
  ops_ok2 s ops = true -> clean s t -> clean (final step s ops) t ->
  Z.of_nat (k_ncancel (tasks (final step s ops) t)) = (Z.of_nat (k_ncancel (tasks s t)) + ext_count s ops t)%Z.
Proof. exact cancelling_back_at_entry_scope. Qed.
Print Assumptions C05_cancelling_back_at_entry_scope.

(* every task, group children included: the count is at least that.  A surplus can come from deliveries whose
   origin is hosted by another task (the group scope or a scope above it): _deliver_cancellation raises the
   task's counter but records the debt only `if task is origin._host_task`, so nobody compensates them (by
   design; C05_child_foreign_delivery_refuted shows one such delivery; no theorem counts the surplus).  For root
   tasks the surplus is zero (previous theorem). *)
Theorem C05_cancelling_back_at_entry_lower : forall ops s t,
  reach_ok2 s -> ops_ok2 s ops = true -> alloc_t s t ->
  clean s t -> clean (final step s ops) t ->
  (Z.of_nat (k_ncancel (tasks s t)) + ext_count s ops t <= Z.of_nat (k_ncancel (tasks (final step s ops) t)))%Z.
Proof. exact cancelling_back_at_entry_lower. Qed.
Print Assumptions C05_cancelling_back_at_entry_lower.

(* non-vacuity: task 1 enters scopes 1 > 2 > 3, scopes 1 and 3 are cancelled, the delivery of 3 hits the
   sleeping task, scope 3 hands its debt to scope 2, the task leaves 3, 2 and 1: clean at both ends (no scope
   around), the count is back at its value *)
Theorem C05_cancelling_back_at_entry_nonvacuous :
  let s0 := final step init [ANewRoot] in
  let ops := tl handover_pre ++ handover_mid ++ handover_post in
  ops_ok2 init (ANewRoot :: ops) = true /\
  k_cur (tasks s0 1) = None /\ k_cur (tasks (final step s0 ops) 1) = None /\
  k_group (tasks s0 1) = None /\ ext_count s0 ops 1 = 0%Z /\
  k_ncancel (tasks (final step s0 ops) 1) = k_ncancel (tasks s0 1).
Proof. exact back_at_entry_premises. Qed.
Print Assumptions C05_cancelling_back_at_entry_nonvacuous.

(* audit 3.2 decided.  With "no enclosing scope is EFFECTIVELY cancelled" in place of `clean` the restoration
   clause is refuted: handover_mid = [AEnter 1 3; ACancel 1 1; ACancel 1 3; ASleep 1 None; ARun (HDeliver 1);
   ARun (HDeliver 3); ARun (HWake 1 10); AExit 1 3 false; ASetShield 1 2 true].  After it the task's current
   scope 2 is shielded and not effectively cancelled, cancelling() is 1 (0 when scope 3 was entered, no native
   event), and the debt handed over by scope 3 sits on scope 2.  The debt is paid when the cancelled ancestor is
   left (last line: after leaving 2 and 1 the count is 0), which is what C05_cancelling_back_at_entry states in
   general. *)
Theorem C05_count_elevated_behind_shield_refuted :
  let s0 := final step init handover_pre in
  let s1 := final step s0 handover_mid in
  let s2 := final step s1 handover_post in
  ops_ok2 init (handover_pre ++ handover_mid ++ handover_post) = true /\
  k_ncancel (tasks s0 1) = 0 /\ k_cur (tasks s0 1) = Some 2 /\
  k_ncancel (tasks s1 1) = 1 /\ k_cur (tasks s1 1) = Some 2 /\ idle s1 1 = true /\
  eff_cancelled_from (nscope s1) s1 (k_cur (tasks s1 1)) = false /\
  s_pending (scopes s1 2) = 1 /\ s_shield (scopes s1 2) = true /\ s_cancelled (scopes s1 2) = false /\
  ext_count s0 handover_mid 1 = 0%Z /\
  k_ncancel (tasks s2 1) = 0 /\ k_cur (tasks s2 1) = None.
Proof. exact count_elevated_behind_shield_witness. Qed.
Print Assumptions C05_count_elevated_behind_shield_refuted.

(* audit 3.3: a group child.  child_mid = [AEnter 2 3; ASleep 2 None; ACancel 1 1; ARun (HWake 2 8);
   AExit 2 3 false; ASetShield 2 2 true]: the host cancels the group scope 1 while child 2 sleeps in its own
   scope 3; the delivery raises the child's counter to 1 and records no debt anywhere (pending_of = 0: the
   origin is hosted by task 1); after leaving scope 3 the count is 1, not the 0 of entry, and it stays 1 even when
   the child is no longer effectively cancelled (it shields its own handle scope).  The end state is NOT `clean` (the
   cancelled group scope is on the child's chain), so this is not a strict-gap instance of
   C05_cancelling_back_at_entry_lower; what it refutes is C05_cancelling_restored_counter without its hypothesis
   k_group = None: for a group child the counter is not restored by the time nothing is pending and the child is no
   longer effectively cancelled. *)
Theorem C05_child_foreign_delivery_refuted :
  let s0 := final step init child_pre in
  let s1 := final step s0 child_mid in
  ops_ok2 init (child_pre ++ child_mid) = true /\
  k_group (tasks s0 2) = Some 1 /\ k_ncancel (tasks s0 2) = 0 /\ k_cur (tasks s0 2) = Some 2 /\
  k_ncancel (tasks s1 2) = 1 /\ k_cur (tasks s1 2) = Some 2 /\ pending_of s1 2 = 0 /\ idle s1 2 = true /\
  eff_cancelled_from (nscope s1) s1 (k_cur (tasks s1 2)) = false /\
  s_host (scopes s1 1) = Some 1 /\ s_cancelled (scopes s1 1) = true /\
  ext_count s0 child_mid 2 = 0%Z.
Proof. exact child_foreign_delivery_witness. Qed.
Print Assumptions C05_child_foreign_delivery_refuted.

(* ---------------- a native cancellation request is honoured (audit C05, clause 9 / finding F19) ---------------- *)
(* Notions: NHeld s t -- t holds a NATIVE request that its next step will receive (Task._must_cancel with the empty
   message, or the future it waits on was cancelled natively);  aff a o -- the tasks op o affects directly (actor or
   resumed task, created task, task whose done-callback runs);  unaffected t s ops -- t is in aff of no op of the
   list;  receives_native s h t -- running ready handle h makes t receive a native CancelledError;
   wait_cancelled_by_scope s t -- the future t waits on already carries a scope-tagged cancellation. *)

(* Task.cancel() on an unfinished task records the request *)
Theorem C05_native_request_placed : forall (a : st) (t : tid),
  k_done (tasks a t) = None -> NHeld (fst (step a (ANativeCancel t))) t.
Proof. exact native_request_placed. Qed.
Print Assumptions C05_native_request_placed.

(* it stays recorded across every op_ok op of every reachable state that neither resumes the task nor is performed by
   it nor creates / retires it (~ In t (aff a o)): no delivery, no API call of another task, no callback erases or
   overwrites it *)
Theorem C05_native_request_stays_pending : forall (a : st) (o : op) (t : tid),
  reach_ok a -> op_ok a o = true -> ~ In t (aff a o) -> NHeld a t -> NHeld (fst (step a o)) t.
Proof. exact native_request_stays_pending. Qed.
Print Assumptions C05_native_request_stays_pending.

(* when the task is resumed with the request recorded it receives a native CancelledError, the ONLY exception being
   that the wait it is resumed from already carries a scope-tagged cancellation (F19: asyncio keeps that one) *)
Theorem C05_native_request_received : forall (s : st) (h : handle) (t : tid),
  reach_ok s -> In h (ready s) -> (h = HStep t \/ exists f, h = HWake t f) -> NHeld s t ->
  receives_native s h t \/ (k_must (tasks s t) = true /\ wait_cancelled_by_scope s t = true).
Proof. exact native_request_received. Qed.
Print Assumptions C05_native_request_received.

(* together: a native request made on an unfinished task whose wait has not already been cancelled by a scope's
   delivery (boolean hypothesis on the state at the request) is, after any further op_ok ops none of which affects the
   task (unaffected: the task neither acts nor is resumed), still pending, and whichever ready handle resumes the task
   then raises a native CancelledError in it *)
Theorem C05_native_request_honoured : forall (a : st) (t : tid) (ops : list op),
  reach_ok a -> k_done (tasks a t) = None -> t < ntask a -> wait_cancelled_by_scope a t = false ->
  let a1 := fst (step a (ANativeCancel t)) in
  ops_ok a1 ops = true -> unaffected t a1 ops ->
  let s := final step a1 ops in
  NHeld s t /\
  forall h, In h (ready s) -> (h = HStep t \/ exists f, h = HWake t f) -> receives_native s h t.
Proof. exact native_request_honoured. Qed.
Print Assumptions C05_native_request_honoured.

(* non-vacuity: a root task sleeps, Task.cancel() from outside, its wake-up raises the native CancelledError *)
Theorem C05_native_request_honoured_nonvacuous :
  let a := final step init [ANewRoot; ASleep 1 None] in
  ops_ok init [ANewRoot; ASleep 1 None] = true /\ k_done (tasks a 1) = None /\ 1 < ntask a /\
  wait_cancelled_by_scope a 1 = false /\
  let s := fst (step a (ANativeCancel 1)) in
  In (HWake 1 2) (ready s) /\ snd (step s (ARun (HWake 1 2))) = RExc (ECancel 0).
Proof. exact native_request_honoured_premises. Qed.
Print Assumptions C05_native_request_honoured_nonvacuous.

Theorem C05_native_request_honoured_nonvacuous_instance :
  let a := final step init [ANewRoot; ASleep 1 None] in
  let s := fst (step a (ANativeCancel 1)) in
  NHeld s 1 /\ receives_native s (HWake 1 2) 1.
Proof. exact native_request_honoured_instance. Qed.
Print Assumptions C05_native_request_honoured_nonvacuous_instance.

(* the hypothesis is needed (known finding F19, the history of C05_native_request_absorbed_refuted): in f19_ops the request
   (op 6) is made after the scope's delivery has cancelled the task's wait; no step of the run raises a native
   cancellation *)
Theorem C05_native_request_hypothesis_needed :
  let a := final step init (firstn 6 f19_ops) in
  nth 6 f19_ops ANewRoot = ANativeCancel 1 /\ ops_ok init f19_ops = true /\
  k_done (tasks a 1) = None /\ wait_cancelled_by_scope a 1 = true /\
  existsb is_native_result (results init f19_ops) = false.
Proof. exact native_request_hypothesis_needed. Qed.
Print Assumptions C05_native_request_hypothesis_needed.

(* the same with other tasks acting between the request and the receipt (audit 2, item 15): nat_pre = [ANewRoot;
   ASleep 1 None], then ANativeCancel 1, then nat_ops = [ANewRoot; ANewScope 2 None false; AEnter 2 1; ACancel 2 1;
   ARun (HDeliver 1); ATick 3]: a second root task appears, enters scope 1 and cancels it, the scope's delivery callback
   runs (it cancels task 2's own wait), time passes; task 1's wake-up then raises the native CancelledError *)
Theorem C05_native_request_honoured_nonvacuous_run :
  let a := final step init nat_pre in
  let a1 := fst (step a (ANativeCancel 1)) in
  let s := final step a1 nat_ops in
  ops_ok init nat_pre = true /\ k_done (tasks a 1) = None /\ 1 < ntask a /\ wait_cancelled_by_scope a 1 = false /\
  ops_ok a1 nat_ops = true /\ unaffected 1 a1 nat_ops /\
  ready s = [HWake 1 2; HWake 2 6; HDeliver 1] /\ s_cancelled (scopes s 1) = true /\
  snd (step s (ARun (HWake 1 2))) = RExc (ECancel 0).
Proof. exact native_request_run_premises. Qed.
Print Assumptions C05_native_request_honoured_nonvacuous_run.

Theorem C05_native_request_honoured_nonvacuous_run_instance :
  let a := final step init nat_pre in
  let a1 := fst (step a (ANativeCancel 1)) in
  let s := final step a1 nat_ops in
  NHeld s 1 /\ receives_native s (HWake 1 2) 1.
Proof. exact native_request_run_instance. Qed.
Print Assumptions C05_native_request_honoured_nonvacuous_run_instance.

(* one op of that run for C05_native_request_stays_pending: the delivery callback of scope 1 runs (it cancels the wait
   of task 2 with the scope's message) while task 1 holds the native request in its cancelled wait *)
Theorem C05_native_request_stays_pending_nonvacuous :
  let a := final step (fst (step (final step init nat_pre) (ANativeCancel 1))) (firstn 4 nat_ops) in
  ops_ok init (nat_pre ++ ANativeCancel 1 :: firstn 4 nat_ops) = true /\
  op_ok a (ARun (HDeliver 1)) = true /\ In (HDeliver 1) (ready a) /\ ~ In 1 (aff a (ARun (HDeliver 1))) /\
  k_waiter (tasks a 1) = Some 2 /\ f_st (futs a 2) = FCanc 0 /\
  f_st (futs (fst (step a (ARun (HDeliver 1)))) 2) = FCanc 0 /\
  k_waiter (tasks (fst (step a (ARun (HDeliver 1)))) 2) = Some 6 /\
  f_st (futs (fst (step a (ARun (HDeliver 1)))) 6) = FCanc 2.
Proof. exact native_request_stays_pending_witness. Qed.
Print Assumptions C05_native_request_stays_pending_nonvacuous.

(* ---- entry-relative restoration: instances with every premise stated (audit 2, item 15) ---- *)
(* root task (C05_cancelling_back_at_entry): root_ops = tl handover_pre ++ handover_mid ++ handover_post from the state
   after [ANewRoot]: task 1 enters 1 > 2 > 3, scopes 1 and 3 are cancelled, the delivery of 3 hits the sleeping task,
   scope 3 hands its debt to 2, the task leaves 3, 2 and 1; the count is 1 in between and 0 at both ends *)
Theorem C05_cancelling_back_at_entry_nonvacuous_root :
  let s0 := final step init [ANewRoot] in
  reach_ok2 s0 /\ ops_ok2 s0 root_ops = true /\ alloc_t s0 1 /\ k_group (tasks s0 1) = None /\
  clean s0 1 /\ clean (final step s0 root_ops) 1 /\
  ext_count s0 root_ops 1 = 0%Z /\ k_ncancel (tasks s0 1) = 0 /\ k_ncancel (tasks (final step s0 root_ops) 1) = 0 /\
  k_ncancel (tasks (final step s0 (tl handover_pre ++ handover_mid)) 1) = 1.
Proof. exact back_at_entry_root_instance. Qed.
Print Assumptions C05_cancelling_back_at_entry_nonvacuous_root.

(* a task-group child (C05_cancelling_back_at_entry_lower, the theorem for every task; C05_cancelling_back_at_entry
   itself is about root tasks only): child_pre = [ANewRoot; AGroupNew 1; AGroupEnter 1 1; ASpawn 1 1; ARun (HStep 2);
   ANewScope 2 None false], child_own = [AEnter 2 3; ACancel 2 3; ASleep 2 None; ARun (HDeliver 3); ARun (HWake 2 9);
   AExit 2 3 false]: child 2 cancels its own scope 3, the delivery raises its counter to 1, the scope absorbs the
   cancellation at exit and takes the uncancel back; no scope on the child's chain (handle scope 2, group scope 1) is
   cancelled at either end; the bound is attained *)
Theorem C05_cancelling_back_at_entry_lower_nonvacuous_child :
  let s0 := final step init child_pre in
  let s1 := final step s0 child_own in
  reach_ok2 s0 /\ ops_ok2 s0 child_own = true /\ alloc_t s0 2 /\ k_group (tasks s0 2) = Some 1 /\
  clean s0 2 /\ clean s1 2 /\
  ext_count s0 child_own 2 = 0%Z /\ k_ncancel (tasks s0 2) = 0 /\ k_ncancel (tasks s1 2) = 0 /\
  k_ncancel (tasks (final step s0 (firstn 4 child_own)) 2) = 1.
Proof. exact back_at_entry_child_instance. Qed.
Print Assumptions C05_cancelling_back_at_entry_lower_nonvacuous_child.
