(* C13 — Memory object streams: closing wakes everyone and errors tell the truth.
   This file contains only statements closed by `exact` and their Print Assumptions.
   Model: prims/MemStream.v (shared with C12). *)
From AV Require Import Base MemStream MemStreamProofs MemStreamThms.

(* EndOfStream *)
Theorem C13_eos_iff : forall s o h, recv_attempt s o h -> hclosed s h = false ->
  (snd (step s o) = REndOfStream <-> (open_send s = 0 /\ buffer s = [] /\ senders s = [])).
Proof. exact ms_eos_iff. Qed.
Print Assumptions C13_eos_iff.

Theorem C13_eos_only_if : forall m s o, reach m s -> snd (step s o) = REndOfStream ->
  open_send s = 0 /\ buffer s = [] /\ senders s = [].
Proof. exact ms_eos_only_if. Qed.
Print Assumptions C13_eos_only_if.

Theorem C13_eos_woken : forall m s t e, reach m s ->
  phase_of s t = RecvWait e -> fut s e = FSet -> mustc s t = false ->
  (snd (step s (Resume t)) = REndOfStream <-> slot s e = None) /\
  (slot s e = None -> open_send s = 0 /\ buffer s = [] /\ senders s = []) /\
  (forall x, slot s e = Some x -> snd (step s (Resume t)) = RItem x).
Proof. exact ms_eos_woken. Qed.
Print Assumptions C13_eos_woken.

(* BrokenResourceError *)
Theorem C13_broken_iff : forall s o h, send_attempt s o h -> hclosed s h = false ->
  (snd (step s o) = RBroken <-> open_recv s = 0).
Proof. exact ms_broken_iff. Qed.
Print Assumptions C13_broken_iff.

Theorem C13_broken_only_if : forall m s o, reach m s -> snd (step s o) = RBroken -> open_recv s = 0.
Proof. exact ms_broken_only_if. Qed.
Print Assumptions C13_broken_only_if.

Theorem C13_broken_woken : forall m s t e x, reach m s ->
  phase_of s t = SendWait e x -> fut s e = FSet -> mustc s t = false ->
  (snd (step s (Resume t)) = RBroken <-> has_key e (senders s) = true) /\
  (has_key e (senders s) = true -> open_recv s = 0) /\
  (has_key e (senders s) = false -> snd (step s (Resume t)) = RDone).
Proof. exact ms_broken_woken. Qed.
Print Assumptions C13_broken_woken.

(* ClosedResourceError *)
Theorem C13_closed_iff : forall s o h, uses_handle s o h ->
  (snd (step s o) = RClosed <-> hclosed s h = true).
Proof. exact ms_closed_iff. Qed.
Print Assumptions C13_closed_iff.

Theorem C13_closed_only_if : forall s o,
  snd (step s o) = RClosed -> exists h, uses_handle s o h /\ hclosed s h = true.
Proof. exact ms_closed_only_if. Qed.
Print Assumptions C13_closed_only_if.

(* closing the last clone of a side wakes every task blocked on the other side *)
Theorem C13_close_wakes_all : forall m s, reach m s ->
  (open_send s = 0 -> forall t e, phase_of s t = RecvWait e ->
     fut s e <> FPending /\ snd (step s (Resume t)) <> RRejected /\ snd (step s (Resume t)) <> RBlocked) /\
  (open_recv s = 0 -> forall t e x, phase_of s t = SendWait e x ->
     fut s e <> FPending /\ snd (step s (Resume t)) <> RRejected /\ snd (step s (Resume t)) <> RBlocked) /\
  (receivers s <> [] -> buffer s = [] /\ senders s = []).
Proof. exact ms_close_wakes_all. Qed.
Print Assumptions C13_close_wakes_all.

Theorem C13_last_send_close : forall s h,
  h < nh s -> hclosed s h = false -> hside s h = SSend -> open_send s = 1 ->
  let s' := fst (step s (Close h)) in
  open_send s' = 0 /\ receivers s' = [] /\
  (forall e t, In (e, t) (receivers s) -> fut s' e = ev_set (fut s e)) /\
  buffer s' = buffer s /\ senders s' = senders s.
Proof. exact ms_last_send_close. Qed.
Print Assumptions C13_last_send_close.

Theorem C13_last_recv_close : forall s h,
  h < nh s -> hclosed s h = false -> hside s h = SRecv -> open_recv s = 1 ->
  let s' := fst (step s (Close h)) in
  open_recv s' = 0 /\ senders s' = senders s /\ buffer s' = buffer s /\
  (forall e x, In (e, x) (senders s) -> fut s' e = ev_set (fut s e)).
Proof. exact ms_last_recv_close. Qed.
Print Assumptions C13_last_recv_close.

(* statistics() *)
Theorem C13_counts_true : forall m s, reach m s ->
  open_send s = count_open SSend (hside s) (hclosed s) (nh s) /\
  open_recv s = count_open SRecv (hside s) (hclosed s) (nh s) /\
  NoDup (map fst (senders s)) /\
  (forall e x, In (e, x) (senders s) -> exists t, phase_of s t = SendWait e x) /\
  (forall t e x, phase_of s t = SendWait e x -> fut s e = FPending -> In (e, x) (senders s)) /\
  NoDup (map fst (receivers s)) /\ NoDup (map snd (receivers s)) /\
  (forall e t, In (e, t) (receivers s) -> phase_of s t = RecvWait e) /\
  (forall t e, phase_of s t = RecvWait e -> fut s e = FPending -> In (e, t) (receivers s)) /\
  (forall t1 t2 e, wait_ev (phase_of s t1) = Some e -> wait_ev (phase_of s t2) = Some e -> t1 = t2) /\
  length (entered s) =
    length (returned s) + length (inflight s) + length (lost s) + length (buffer s) + length (senders s) +
    length (withdrawn s).
Proof. exact ms_counts_true. Qed.
Print Assumptions C13_counts_true.

(* ---------- additions after the independent audit (hunt/audit.md C13 4.1 - 4.3) ---------- *)

(* recorded decision (observation O-own-close): a task blocked on a handle that someone else closes is not woken while
   the PEER side is open - every send is refused, and only the close of the send side releases it (EndOfStream) *)
Theorem C13_blocked_on_own_closed_side : exists m ops t e,
  let s := final step (init m) ops in
  open_recv s = 0 /\ phase_of s t = RecvWait e /\ fut s e = FPending /\ open_send s > 0 /\
  In (e, t) (receivers s) /\
  snd (step s (SendNowait 2 0 1)) = RBroken /\ snd (step s (Resume t)) = RRejected /\
  snd (step (fst (step s (Close 0))) (Resume t)) = REndOfStream.
Proof. exact ms_blocked_on_own_closed_side. Qed.
Print Assumptions C13_blocked_on_own_closed_side.

Theorem C13_sender_blocked_on_own_closed_side : exists m ops t e x,
  let s := final step (init m) ops in
  open_send s = 0 /\ phase_of s t = SendWait e x /\ fut s e = FPending /\ open_recv s > 0 /\
  snd (step s (RecvNowait 2 1)) = RItem x /\
  snd (step (fst (step s (RecvNowait 2 1))) (Resume t)) = RDone.
Proof. exact ms_sender_blocked_on_own_closed_side. Qed.
Print Assumptions C13_sender_blocked_on_own_closed_side.

(* exact characterisation of when a receive / a send WAITS (blocks, resp. WouldBlock for the nowait call) *)
Theorem C13_recv_blocks_iff : forall s o h, recv_attempt s o h -> hclosed s h = false ->
  ((snd (step s o) = RBlocked \/ snd (step s o) = RWouldBlock) <->
   (open_send s > 0 /\ buffer s = [] /\ senders s = [])) /\
  (snd (step s o) = RBlocked -> exists t, o = Resume t) /\
  (snd (step s o) = RWouldBlock -> exists t, o = RecvNowait t h).
Proof. exact ms_recv_blocks_iff. Qed.
Print Assumptions C13_recv_blocks_iff.

Theorem C13_send_blocks_iff : forall m s o h, reach m s -> send_attempt s o h -> hclosed s h = false ->
  ((snd (step s o) = RBlocked \/ snd (step s o) = RWouldBlock) <->
   (open_recv s > 0 /\ (forall e t, In (e, t) (receivers s) -> has_pending s t = true) /\
    xlt (length (buffer s)) (maxb s) = false)) /\
  (snd (step s o) = RBlocked -> exists t, o = Resume t) /\
  (snd (step s o) = RWouldBlock -> exists t x, o = SendNowait t h x).
Proof. exact ms_send_blocks_iff. Qed.
Print Assumptions C13_send_blocks_iff.

(* trace level: once the last clone of a side is closed, resuming every blocked peer (once each, any order, any
   superset) leaves nobody in a wait phase on the other side *)
Theorem C13_last_send_close_drains_receivers : forall m s ts, reach m s -> open_send s = 0 ->
  (forall t e, phase_of s t = RecvWait e -> In t ts) ->
  let s' := final step s (map Resume ts) in
  open_send s' = 0 /\ forall t e, phase_of s' t <> RecvWait e.
Proof. exact ms_last_send_close_drains_receivers. Qed.
Print Assumptions C13_last_send_close_drains_receivers.

Theorem C13_last_recv_close_drains_senders : forall m s ts, reach m s -> open_recv s = 0 ->
  (forall t e x, phase_of s t = SendWait e x -> In t ts) ->
  let s' := final step s (map Resume ts) in
  open_recv s' = 0 /\ forall t e x, phase_of s' t <> SendWait e x.
Proof. exact ms_last_recv_close_drains_senders. Qed.
Print Assumptions C13_last_recv_close_drains_senders.

(* ---- tie T (see props/C12.v): clone(), close() with its wake-ups, and the two places where the errors of this
   property are decided in the regenerated code: BrokenResourceError after send_event.wait() returned with the entry
   still queued, EndOfStream when receiver.item was never set (C12_tie_recv_event_resumed). ---- *)
From AV Require Import MemImp MemGen MemGenEq.

Theorem C13_tie_clone : forall s h t,
  Nat.ltb h (nh s) = true -> phase_of s t = Idle ->
  runs s (fst (step s (Clone h))) (snd (step s (Clone h))) h t KPlain
       (match hside s h with SSend => snd_clone_entry | SRecv => rcv_clone_entry end) (loc0 None).
Proof. exact tie_clone. Qed.
Print Assumptions C13_tie_clone.

Theorem C13_tie_close : forall s h t,
  Nat.ltb h (nh s) = true -> phase_of s t = Idle ->
  runs s (fst (step s (Close h))) (snd (step s (Close h))) h t KPlain
       (match hside s h with SSend => snd_close_entry | SRecv => rcv_close_entry end) (loc0 None).
Proof. exact tie_close. Qed.
Print Assumptions C13_tie_close.

Theorem C13_tie_send_event_resumed : forall s t e x,
  phase_of s t = SendWait e x -> fut s e = FSet -> mustc s t = false ->
  forall h, runs (finish s t) (fst (step s (Resume t))) (snd (step s (Resume t))) h t (KSend h x)
       snd_send_event_resumed (loc_resume (Some x) (Some e) false None).
Proof. exact tie_send_event_resumed. Qed.
Print Assumptions C13_tie_send_event_resumed.

Theorem C13_tie_gen_close_wakes_all : forall m s,
  grun mem_prog m s ->
  (open_send s = 0 -> forall t e, phase_of s t = RecvWait e ->
     fut s e <> FPending /\ snd (step s (Resume t)) <> RRejected /\ snd (step s (Resume t)) <> RBlocked) /\
  (open_recv s = 0 -> forall t e x, phase_of s t = SendWait e x ->
     fut s e <> FPending /\ snd (step s (Resume t)) <> RRejected /\ snd (step s (Resume t)) <> RBlocked) /\
  (receivers s <> [] -> buffer s = [] /\ senders s = []).
Proof. exact gen_close_wakes_all. Qed.
Print Assumptions C13_tie_gen_close_wakes_all.

