(* C07 — TaskGroup.start(): readiness handshake is exact and loses nothing.
   This file contains only statements closed by `exact` and their Print Assumptions. *)
From AV Require Import Base Machine GroupInv GroupInv2 GroupThmsPure GroupThms GroupThms6 GroupThms7 GroupThms8 GroupThms10 GroupThms11 GroupThms13 GroupThms14 GroupThms15.
From AV Require TreeStep.

Theorem C07_start_returns_started_value : forall s t g c f h v, reach s -> k_ctl (tasks s t) = CStartWait g c f ->
  (h = HStep t \/ exists f', h = HWake t f') -> snd (step s (ARun h)) = RRet v ->
  f_st (futs s f) = FRes v /\ h = HWake t f.
Proof. exact start_returns_started_value. Qed.
Print Assumptions C07_start_returns_started_value.

Theorem C07_started_sets_value : forall s t v f, reach s -> idle s t = true -> k_startfut (tasks s t) = Some f ->
  f_st (futs s f) = FPend -> f_st (futs (fst (step s (AStarted t v))) f) = FRes v.
Proof. exact started_sets_value. Qed.
Print Assumptions C07_started_sets_value.

(* nothing else can complete a start future: it is not an event waiter, not an on_completed future, not a sleep
   future, and belongs to exactly one child *)
Theorem C07_start_future_exclusive : forall s c f, reach s -> k_startfut (tasks s c) = Some f ->
  (forall e, ~ In f (e_waiters (events s e))) /\ (forall g, g_fut (groups s g) <> Some f) /\
  ~ ((exists tm, In (HSleepDone f tm) (ready s)) \/ (exists x, In x (timers s) /\ tm_what x = TSleep f)) /\
  (forall c', k_startfut (tasks s c') = Some f -> c' = c) /\ f < nfut s.
Proof. exact start_future_exclusive. Qed.
Print Assumptions C07_start_future_exclusive.

Theorem C07_start_pre_started_failure_routed : forall s t g f, reach s -> In (HTaskDone t) (ready s) ->
  k_group (tasks s t) = Some g -> k_startfut (tasks s t) = Some f -> f_st (futs s f) = FPend ->
  f_st (futs (fst (step s (ARun (HTaskDone t)))) f) =
    FExc (match k_done (tasks s t) with Some (OExc e) => e | Some (OCanc e) => e | _ => ERuntime end) /\
  g_excs (groups (fst (step s (ARun (HTaskDone t)))) g) = g_excs (groups s g) /\
  (forall c, s_cancelled (scopes (fst (step s (ARun (HTaskDone t)))) c) = s_cancelled (scopes s c)).
Proof. exact start_pre_started_failure_routed. Qed.
Print Assumptions C07_start_pre_started_failure_routed.

Theorem C07_start_cancel_joins_child : forall s t g c f h, reach s -> k_ctl (tasks s t) = CStartWait g c f ->
  In h (ready s) -> (h = HStep t \/ exists f', h = HWake t f') ->
  snd (step s (ARun h)) = RBlocked ->
  (exists sc e wf, k_ctl (tasks (fst (step s (ARun h))) t) = CStartJoin c sc e wf) /\
  s_cancelled (scopes (fst (step s (ARun h))) (k_hscope (tasks s c))) = true.
Proof. exact start_cancel_joins_child. Qed.
Print Assumptions C07_start_cancel_joins_child.

Theorem C07_start_join_wakeup_means_child_finished : forall s t ch c e f v, reach s ->
  k_ctl (tasks s t) = CStartJoin ch c e (Some f) -> f_st (futs s f) = FRes v ->
  e_set (events s (k_hevent (tasks s ch))) = true /\ k_final (tasks s ch) <> None.
Proof. exact start_join_wakeup_means_child_finished. Qed.
Print Assumptions C07_start_join_wakeup_means_child_finished.

Theorem C07_start_no_error_lost : forall s g t e, reach s -> In t (g_ever (groups s g)) ->
  k_tdran (tasks s t) = true -> k_done (tasks s t) = Some (OExc e) ->
  In e (map snd (g_excs (groups s g))) \/
  exists f, k_startfut (tasks s t) = Some f /\ f_st (futs s f) = FExc e.
Proof. exact start_no_error_lost. Qed.
Print Assumptions C07_start_no_error_lost.

Theorem C07_second_started_result : forall s t v f,
  idle s t = true -> k_startfut (tasks s t) = Some f ->
  snd (step s (AStarted t v)) =
  match f_st (futs s f) with
  | FPend => RRet 0
  | FRes _ | FExc _ => RExc ERuntime
  | FCanc _ => RRet 0
  end.
Proof. exact second_started_result. Qed.
Print Assumptions C07_second_started_result.

Theorem C07_second_started_keeps_future : forall s t v f, reach s -> idle s t = true ->
  k_startfut (tasks s t) = Some f -> f_st (futs s f) <> FPend ->
  f_st (futs (fst (step s (AStarted t v))) f) = f_st (futs s f).
Proof. exact second_started_keeps_future. Qed.
Print Assumptions C07_second_started_keeps_future.

(* the caller waiting in CStartJoin (or any suspended task) keeps its control state until one of its own handles
   is run: acting o is the actor of a puppet op, resp. the task of the handle being run *)
Theorem C07_ctl_changes_only_when_acting : forall s o t, t < ntask s ->
  t <> (match actor o with
        | Some a => a
        | None => match o with ARun (HStep x) | ARun (HWake x _) | ARun (HTaskDone x) => x | _ => 0 end
        end) ->
  k_ctl (tasks (fst (step s o)) t) = k_ctl (tasks s t) /\ k_cur (tasks (fst (step s o)) t) = k_cur (tasks s t).
Proof. exact ctl_changes_only_when_acting. Qed.
Print Assumptions C07_ctl_changes_only_when_acting.

(* a start future (owned by child c) changes to FRes v only in the step `AStarted c v`, performed by c while idle *)
Theorem C07_start_value_origin : forall s o c f v, reach s -> k_startfut (tasks s c) = Some f ->
  f_st (futs s f) <> FRes v -> f_st (futs (fst (step s o)) f) = FRes v ->
  o = AStarted c v /\ idle s c = true /\ f_st (futs s f) = FPend.
Proof. exact start_value_origin. Qed.
Print Assumptions C07_start_value_origin.

(* end to end, over a run: start() returns v only if an earlier op of the run is started(v) by the child, issued
   while the child was idle (not finished) and its start future still pending *)
Theorem C07_start_returns_only_after_started : forall ops t g c f h v,
  k_ctl (tasks (final step init ops) t) = CStartWait g c f ->
  (h = HStep t \/ exists f', h = HWake t f') -> snd (step (final step init ops) (ARun h)) = RRet v ->
  exists pre post, ops = pre ++ AStarted c v :: post /\
    idle (final step init pre) c = true /\ k_done (tasks (final step init pre) c) = None /\
    k_startfut (tasks (final step init pre) c) = Some f /\ f_st (futs (final step init pre) f) = FPend.
Proof. exact start_returns_only_after_started. Qed.
Print Assumptions C07_start_returns_only_after_started.

(* the join future of a caller in CStartJoin gets a value only in the step in which the child's coroutine ends *)
Theorem C07_start_join_event_wakeup : forall s o t ch sc e f v, reach s ->
  k_ctl (tasks s t) = CStartJoin ch sc e (Some f) -> f_st (futs s f) <> FRes v ->
  f_st (futs (fst (step s o)) f) = FRes v ->
  exists x, o = AFinish ch x /\ idle s ch = true /\ v = 1.
Proof. exact start_join_event_wakeup. Qed.
Print Assumptions C07_start_join_event_wakeup.

(* "start() re-raises only after the child's coroutine ended" (AnyIO cancellation).  A caller t of start() that is
   interrupted while waiting for started() begins to join the child ch in the fresh, shielded, private scope
   sc = nscope s.  The prefix of the run lies in the op_ok domain of the C03/C05 development (TreeStep.reach_ok:
   scope ids allocated, no exit of a foreign scope, ...); the continuation ops is arbitrary except for the
   operations excluded by the boolean predicate quietb t sc (native Task.cancel() on the caller; cancel,
   un-shielding or deadline of sc itself; the delivery callback of sc itself; the resumption of the caller, which
   ends the join).  Then no cancellation reaches the caller (its task record is unchanged), its join future is
   pending or holds the value set by the child's finished event, and the only handle that resumes the caller is
   that wake-up: the caller is resumed, and start() re-raises, only after the child's coroutine ended. *)
Theorem C07_start_join_resumed_only_by_finished_event : forall s t g ch f h ops,
  TreeStep.reach_ok s -> TreeStep.op_ok s (ARun h) = true ->
  k_ctl (tasks s t) = CStartWait g ch f -> In h (ready s) -> (h = HStep t \/ exists f', h = HWake t f') ->
  snd (step s (ARun h)) = RBlocked ->
  let s0 := fst (step s (ARun h)) in
  let sc := nscope s in
  exists e wf, k_ctl (tasks s0 t) = CStartJoin ch sc e wf /\
    (wf = None -> k_final (tasks s0 ch) <> None) /\
    forall fj, wf = Some fj -> forallb (quietb t sc) ops = true ->
      let s1 := final step s0 ops in
      tasks s1 t = tasks s0 t /\
      (f_st (futs s1 fj) = FPend \/ exists v, f_st (futs s1 fj) = FRes v) /\
      (forall v, f_st (futs s1 fj) = FRes v ->
         e_set (events s1 (k_hevent (tasks s1 ch))) = true /\ k_final (tasks s1 ch) <> None) /\
      (forall h', In h' (ready s1) -> (h' = HStep t \/ exists f', h' = HWake t f') ->
         h' = HWake t fj /\ (exists v, f_st (futs s1 fj) = FRes v) /\ k_final (tasks s1 ch) <> None).
Proof. exact start_join_resumed_only_by_finished_event. Qed.
Print Assumptions C07_start_join_resumed_only_by_finished_event.

(* the one-step form, for EVERY op sequence: while the join predicate JP holds (the caller tj is a member of its
   private scope scj only; scj is shielded, active, not cancelled, without deadline, hosted by tj; tj waits on fj
   alone; scj is no handle scope and no group scope), a step other than the excluded ones keeps JP and the
   caller's task record, and changes the join future at most by giving it a value *)
Theorem C07_start_join_step : forall tj fj scj ch ej s o, reach s -> jok tj scj o -> JP tj fj scj ch ej s ->
  JP tj fj scj ch ej (fst (step s o)) /\
  (tasks (fst (step s o)) tj = tasks s tj /\
   (f_st (futs (fst (step s o)) fj) = f_st (futs s fj) \/ exists v, f_st (futs (fst (step s o)) fj) = FRes v)).
Proof. exact step_jr. Qed.
Print Assumptions C07_start_join_step.

(* F20. The starter t waits for started() of child c; the child's handle is no longer pending and the start future
   holds the exception e' the child handed over.  Then the step that resumes the starter returns RExc e' - whether or
   not a native cancellation of the starter is pending (k_must): start() raises the child's error. *)
Theorem C07_start_raises_routed_exception : forall s t g c f e' h, reach s ->
  k_ctl (tasks s t) = CStartWait g c f -> handle_pending s c = false -> f_st (futs s f) = FExc e' ->
  In h (ready s) -> (h = HStep t \/ exists f', h = HWake t f') ->
  h = HWake t f /\ snd (step s (ARun h)) = RExc e'.
Proof. exact start_raises_routed_exception. Qed.
Print Assumptions C07_start_raises_routed_exception.

(* F20 before the fix (step_old = the step with the old CStartWait branch, GroupThms15.v): a run in which the child's
   error EErr 7 is in no result, in no group's collected errors, held by no live task and in no future a live task
   waits on; on the fixed machine the same run makes start() and then the task group raise it *)
Theorem C07_start_error_lost_before_fix_refuted :
  exists ops,
    let '(s, outs) := run_ops step_old init ops in
    k_done (tasks s 2) = Some (OExc (EErr 7)) /\ k_tdran (tasks s 2) = true /\
    f_st (futs s 4) = FExc (EErr 7) /\ k_startfut (tasks s 2) = Some 4 /\
    forallb (fun r => negb (res_has_err 7 r)) outs = true /\ err_visible 7 s = false /\
    err_visible 7 (final step_old init (firstn 10 ops)) = false /\
    k_ctl (tasks s 1) = CDone /\ k_ctl (tasks s 2) = CDone /\
    nth 9 (snd (run_ops step init ops)) RNone = RExc (EErr 7) /\
    nth 11 (snd (run_ops step init ops)) RNone = RExc (EGroup [EErr 7]).
Proof. exact start_error_lost_before_fix_refuted. Qed.
Print Assumptions C07_start_error_lost_before_fix_refuted.

(* the pre-fix step differs from the step only where a starter is resumed while its start future holds an exception *)
Theorem C07_step_old_eq : forall s o,
  (forall t g c f e, k_ctl (tasks s t) = CStartWait g c f -> f_st (futs s f) <> FExc e) ->
  step_old s o = step s o.
Proof. exact step_old_eq. Qed.
Print Assumptions C07_step_old_eq.

(* F20. The error e of a finished member t (task_done has run) is among the errors collected by its group, or it
   sits in t's start future - and then every starter still waiting on that future raises exactly e in the step that
   resumes it, whether or not it has been natively cancelled in between *)
Theorem C07_start_no_error_lost_raised : forall s g t e, reach s -> In t (g_ever (groups s g)) ->
  k_tdran (tasks s t) = true -> k_done (tasks s t) = Some (OExc e) ->
  In e (map snd (g_excs (groups s g))) \/
  exists f, k_startfut (tasks s t) = Some f /\ f_st (futs s f) = FExc e /\
    forall t' g' c h, k_ctl (tasks s t') = CStartWait g' c f -> In h (ready s) ->
      (h = HStep t' \/ exists f', h = HWake t' f') ->
      c = t /\ h = HWake t' f /\ snd (step s (ARun h)) = RExc e.
Proof. exact start_no_error_lost_raised. Qed.
Print Assumptions C07_start_no_error_lost_raised.
