(* C07 — TaskGroup.start(): readiness handshake is exact and loses nothing.
   This file contains only statements closed by `exact` and their Print Assumptions. *)
From AV Require Import Base Machine GroupThmsPure.

Theorem C07_second_started_result : forall s t v f,
  idle s t = true -> k_startfut (tasks s t) = Some f ->
  snd (step s (AStarted t v)) =
  match f_st (futs s f) with
  | FPend => RRet 0
  | FRes _ | FExc _ => RExc ERuntime
  | FCanc _ => RRet 0
  end.
Proof. exact second_started_result. Qed.
Print Assumptions C07_second_started_result.
