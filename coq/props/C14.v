(* C14 — to_thread.run_sync: faithful results, bounded threads, cancellation handled (PARTIAL: the OS thread
   is an oracle — ops ThreadStart / ThreadFinish w payload / ThreadReturn w / ThreadCheckCancelled / ThreadRunAsync, and SpawnFail /
   NativeCancel on the caller's side, are chosen by the environment).
   This file contains only statements closed by `exact` and their Print Assumptions.

   Hypotheses to read with the one-line summaries (they are part of the statements below):
   * "token held while running" is about functions with `live s c = true`, i.e. whose call future is not cancelled
     (not abandoned, caller not natively cancelled);
   * "running <= total" holds WHENEVER borrowed <= total at that moment (no sticky "never lowered" guard; the total may
     have been lowered and raised any number of times: C14_no_grant_while_full, C14_running_le_total_after_drain);
   * "a result is dropped only if abandoned and cancelled" carries the disjunct `\/ ncr = true`: or the caller was
     natively cancelled (asyncio Task.cancel()) inside the call scope;
   * "cancellation is deferred when not abandoned" is about AnyIO cancellation and has the hypothesis `ncr = false`
     (no native cancellation of the caller inside the call scope); the whole `ncr = false` /
     `no_native_cancel_while_running` family is the documented scope "AnyIO shields do not stop Task.cancel()", with
     C14_native_cancel_defeats_non_abandon as the refutation without it;
   * "calls back into the loop return the right values": whether an awaiting from_thread.run() is cancelled is a
     theorem (C14_from_thread_run_spec) under `ended s = false` - the loop has not yet run its last iteration; without
     it the call-back hangs for ever: KNOWN FINDING F51, C14_from_thread_landed_after_loop_end_refuted.  The VALUES
     and exceptions carried by the round trips (incl. exceptions with a false truth value, F47) are not in the model;
     they are checked by harness monitors on real threads;
   * "an abandoned thread's from_thread.run() coroutine never spins" is NOT a theorem: the model only says it is not
     cancelled (C14_from_thread_run_spec); not spinning is observed by the harness on real threads (F42 regression).
   Non-vacuity Examples with content are in boundary/ThreadsProofs.v (ex_nonabandon_bound_tight: a non-abandon function
   executing at the end with borrowed = total; ex_no_grant_while_overfull: lowered total, a release, the waiter is not
   let in until the excess has drained). *)
From AV Require Import Base Threads ThreadsProofs.

(* a function that is executing and whose call future is not cancelled (`live s c = true`: not abandoned, caller not
   natively cancelled) runs under a limiter token held by its (still waiting) caller *)
Theorem C14_token_held_while_running : forall tot pr s c,
  reach tot pr s -> In c (exec s) -> live s c = true ->
  In c (lb s) /\ exists w, wk s w = WExec c /\ ph (calls s c) = PAwait w.
Proof. exact rs_token_held_while_running. Qed.
Print Assumptions C14_token_held_while_running.

(* bounded threads: #(executing functions whose caller still waits) <= #borrowed tokens, and <= total whenever
   borrowed <= total at that moment (the limiter is not over-full); see C14_no_grant_while_full for why it can only be
   over-full transiently after total_tokens was lowered below the number of borrowers *)
Theorem C14_running_le_total : forall tot pr s,
  reach tot pr s ->
  length (running_live s) <= length (lb s) /\
  (length (lb s) <= total s -> length (running_live s) <= total s).
Proof. exact rs_running_le_total. Qed.
Print Assumptions C14_running_le_total.

(* the audit's second statement, on its own *)
Theorem C14_running_le_total_after_drain : forall tot pr s, reach tot pr s ->
  length (lb s) <= total s -> length (running_live s) <= total s.
Proof. exact rs_running_le_total_after_drain. Qed.
Print Assumptions C14_running_le_total_after_drain.

(* while the limiter is full no step increases the number of borrowers (a release may hand its token over:
   ex_handover_at_full shows that `incl` does NOT hold at exactly full); while it is OVER-full - total lowered below the
   number of borrowers - no new borrower appears at all, the excess only drains *)
Theorem C14_no_grant_while_full : forall tot pr s o, reach tot pr s ->
  (total (fst (step s o)) <= length (lb s) -> length (lb (fst (step s o))) <= length (lb s)) /\
  (total (fst (step s o)) < length (lb s) -> incl (lb (fst (step s o))) (lb s)).
Proof. exact rs_no_grant_while_full. Qed.
Print Assumptions C14_no_grant_while_full.

(* a token is granted only while one is free: no step (of any state) raises the number of borrowers above
   max(previous number, current total) *)
Theorem C14_grant_only_if_free : forall s o,
  length (lb (fst (step s o))) <= Nat.max (length (lb s)) (total (fst (step s o))).
Proof. exact step_lb_bound. Qed.
Print Assumptions C14_grant_only_if_free.

(* the token is given back on every exit path: borrowers = exactly the calls between acquire and release; a call that
   is over (returned, raised incl. BaseException and the function's own CancelledError, cancelled at the entry checkpoint
   or in the wait queue with/without a grant, natively cancelled in the limiter's shielded checkpoint / in the queue /
   while awaiting the result, abandoned, thread start failed) holds none; when every call is over the limiter is pristine *)
Theorem C14_token_released_all_paths : forall tot pr s,
  reach tot pr s ->
  NoDup (lb s) /\ (forall c, In c (lb s) <-> holds (calls s c) = true) /\
  (forall c, (exists r, ph (calls s c) = PDone r) \/ (exists o, ph (calls s c) = PPostCk o) ->
             ~ In c (lb s) /\ ~ In c (lq s)) /\
  ((forall c, ph (calls s c) = PNone \/ exists r, ph (calls s c) = PDone r) -> lb s = [] /\ lq s = []).
Proof. exact rs_token_released_all_paths. Qed.
Print Assumptions C14_token_released_all_paths.

(* whichever step takes a call out of a token-holding phase (any op, incl. NativeCancel+Resume, SpawnFail) removes it
   from the borrowers in that very step *)
Theorem C14_exit_steps_release : forall tot pr s o c,
  reach tot pr s -> holds (calls s c) = true -> holds (calls (fst (step s o)) c) = false ->
  In c (lb s) /\ ~ In c (lb (fst (step s o))).
Proof. exact rs_exit_steps_release. Qed.
Print Assumptions C14_exit_steps_release.

(* faithful results: what run_sync returns/raises is the payload of the thread's report (StopIteration wrapped in
   RuntimeError - PEP 479, a deliberate deviation from "exactly the exception") or, when no thread could be started,
   the RuntimeError of Thread.start() with nothing run; a finished function's result is dropped only if abandon_on_cancel
   was set and the caller's scope was cancelled, or the caller was cancelled NATIVELY inside the call scope; a report for
   a caller that is neither always resolves the future *)
Theorem C14_result_faithful : forall tot pr s c,
  reach tot pr s ->
  (forall o, (ph (calls s c) = PPostCk o \/ exists b, ph (calls s c) = PDone (DRet o b)) ->
             (exists p, fin (calls s c) = Some p /\ o = wrap p) \/ (o = OSpawn /\ fin (calls s c) = None)) /\
  (forall s' o, step s (Resume c) = (s', RRet o) ->
             (exists p, fin (calls s c) = Some p /\ o = wrap p) /\
             ph (calls s' c) = (match o with OCancelled => PDone (DRet OCancelled false) | _ => PPostCk o end)) /\
  (forall p, ph (calls s c) = PDone DCancelled -> fin (calls s c) = Some p ->
             (abandon (calls s c) = true /\ walk (chain (calls s c)) = true) \/ ncr (calls s c) = true) /\
  (forall w p, wk s w = WExec c -> abandon (calls s c) = false \/ walk (chain (calls s c)) = false ->
             ncr (calls s c) = false ->
             fut (calls (fst (step s (ThreadFinish w p))) c) = FRes (wrap p)).
Proof. exact rs_result_faithful. Qed.
Print Assumptions C14_result_faithful.

(* the recorded payload of a call is written by the ThreadFinish of the worker executing that call, by nothing else *)
Theorem C14_result_written_by_thread_only : forall s o c p,
  fin (calls (fst (step s o)) c) = Some p ->
  fin (calls s c) = Some p \/ exists w, o = ThreadFinish w p /\ wk s w = WExec c.
Proof. exact fin_written_by_finish. Qed.
Print Assumptions C14_result_written_by_thread_only.

(* without abandon_on_cancel and without a native cancellation of the caller inside the call scope (ncr = false; the
   hypothesis is necessary, see C14_native_cancel_defeats_non_abandon): between entering the call scope and the report
   nothing is delivered to the caller, whatever AnyIO scope is cancelled; it then receives the reported result; the
   cancellation is still pending and is raised by its next checkpoint *)
Theorem C14_cancel_deferred : forall tot pr s c w,
  reach tot pr s -> ph (calls s c) = PAwait w -> abandon (calls s c) = false -> ncr (calls s c) = false ->
  fut (calls s c) <> FCancelled /\
  (fut (calls s c) = FPending -> step s (Resume c) = (s, RRejected)) /\
  (forall o, o <> Resume c ->
     ph (calls (fst (step s o)) c) = PAwait w /\ abandon (calls (fst (step s o)) c) = false /\
     (o <> NativeCancel c -> ncr (calls (fst (step s o)) c) = false)) /\
  (forall o, fut (calls s c) = FRes o ->
     let s' := fst (step s (Resume c)) in
     snd (step s (Resume c)) = RRet o /\ (exists p, fin (calls s c) = Some p /\ o = wrap p) /\
     chain (calls s' c) = chain (calls s c) /\
     (o = OCancelled -> ph (calls s' c) = PDone (DRet OCancelled false)) /\
     (o <> OCancelled -> ph (calls s' c) = PPostCk o /\
        snd (step s' (Resume c)) = (if walk (chain (calls s c)) then RCancelled else RDone))).
Proof. exact rs_cancel_deferred. Qed.
Print Assumptions C14_cancel_deferred.

(* the ghost ncr is set by a native cancellation that hits the caller inside the call scope, by nothing else *)
Theorem C14_ncr_set_by_native_only : forall s o c,
  ncr (calls (fst (step s o)) c) = true ->
  ncr (calls s c) = true \/ (o = NativeCancel c /\ inside (calls s c) = true).
Proof. exact ncr_set_by_native. Qed.
Print Assumptions C14_ncr_set_by_native_only.

(* DOCUMENTED SCOPE (DESIGN 11.4: AnyIO shields do not stop native Task.cancel()).  The STRONG bound - functions
   executing on behalf of abandon_on_cancel=False calls, whatever happened to their callers, all hold a token, hence
   are <= total when the limiter is not over-full - holds for every op sequence in which no native cancellation hits a
   caller inside the call scope ... *)
Theorem C14_nonabandon_running_le_total : forall tot pr ops,
  no_native_cancel_while_running (init tot pr) ops = true ->
  let s := final step (init tot pr) ops in
  (forall c, In c (exec s) -> abandon (calls s c) = false -> In c (lb s) /\ exists w, ph (calls s c) = PAwait w) /\
  length (running_nonabandon s) <= length (lb s) /\
  (length (lb s) <= total s -> length (running_nonabandon s) <= total s).
Proof. exact rs_nonabandon_running_le_total. Qed.
Print Assumptions C14_nonabandon_running_le_total.

(* ... and is refuted without that hypothesis: one native cancel of a running NON-abandoned call releases its token while
   its function still executes; a second function starts under total = 1; the first function's result is dropped *)
Theorem C14_native_cancel_defeats_non_abandon :
  exists ops, let s := final step (init 1 false) ops in
    no_native_cancel_while_running (init 1 false) ops = false /\
    total s = 1 /\ lb s = [1] /\ exec s = [1; 0] /\ running_nonabandon s = [1; 0] /\
    abandon (calls s 0) = false /\ ph (calls s 0) = PDone DCancelled /\ ncr (calls s 0) = true /\
    fut (calls (fst (step s (ThreadFinish 0 (PVal 7)))) 0) = FCancelled.
Proof. exact rs_native_cancel_defeats_non_abandon. Qed.
Print Assumptions C14_native_cancel_defeats_non_abandon.

(* check_cancelled() in the thread answers exactly "the caller's enclosing scopes are effectively cancelled",
   for abandon on and off; without abandon the worker is handed the ENCLOSING scope of the shielded call scope *)
Theorem C14_check_cancelled_spec : forall s w c,
  wk s w = WExec c ->
  step s (ThreadCheckCancelled w) = (s, RCC (walk (chain (calls s c)))) /\
  (abandon (calls s c) = false -> chain (calls s c) <> [] -> handed (calls s c) = chain (calls s c)).
Proof. exact check_cancelled_spec. Qed.
Print Assumptions C14_check_cancelled_spec.

(* the walk: true iff some scope has cancel_called and every scope nearer to the task is neither cancelled nor
   shielded (the cancelled scope lies at or before the nearest shield) *)
Theorem C14_walk_spec : forall l,
  walk l = true <->
  exists pre sh post, l = pre ++ (true, sh) :: post /\ forall x, In x pre -> x = (false, false).
Proof. exact walk_spec. Qed.
Print Assumptions C14_walk_spec.

(* had the worker been handed the shielded call scope itself, check_cancelled could never report anything *)
Theorem C14_call_scope_itself_is_blind : forall l, walk ((false, true) :: l) = false.
Proof. exact walk_call_scope_shielded. Qed.
Print Assumptions C14_call_scope_itself_is_blind.

(* (clause 1 is the definition of the op read back; the content is in clauses 2-4 and in the correspondence of
   RunAsyncCall with real threads.  "Never spins" is harness-observed only.)
   from_thread.run(coro) with a coroutine that really waits, called from the thread: its task is cancelled iff the scope
   handed to the worker or one of its VISIBLE ancestors is cancelled.  Caller inside the call scope: same answer as
   check_cancelled (so under a cancelled uninterruptible caller the round trip raises CancelledError instead of
   returning the value).  Abandoned thread whose caller has left (F42 / 1940035): never cancelled, although
   check_cancelled still raises.  Caller torn away natively: only the handed scope's own flag counts. *)
Theorem C14_from_thread_run_spec : forall s w c,
  wk s w = WExec c -> ended s = false ->
  step s (ThreadRunAsync w) = (s, RRT (walk (handed_visible (calls s c)))) /\
  (inside (calls s c) = true -> walk (handed_visible (calls s c)) = walk (chain (calls s c))) /\
  (abandon (calls s c) = true -> inside (calls s c) = false -> walk (handed_visible (calls s c)) = false) /\
  (abandon (calls s c) = false -> inside (calls s c) = false ->
     walk (handed_visible (calls s c)) = match chain (calls s c) with (cc, _) :: _ => cc | [] => false end).
Proof. exact from_thread_run_spec. Qed.
Print Assumptions C14_from_thread_run_spec.

(* KNOWN FINDING F51 (known_findings.json: property C14, predicate from_thread_landed_after_loop_end), the C14 sibling of
   C15's F40.  The hypothesis `ended s = false` of C14_from_thread_run_spec is necessary: after the loop's last iteration
   (op LoopEnd; loop.close() not yet called, is_closed() still False) a thread abandoned by its caller is still executing;
   its from_thread.run()/run_sync() is handed to a loop that never runs it - the thread waits for ever (RHang: no value,
   no RunFinishedError).  The model's ThreadRunAsync stands for both from_thread.run and from_thread.run_sync here (same
   call_soon_threadsafe hand-over). *)
Theorem C14_from_thread_landed_after_loop_end_refuted :
  exists ops, let s := final step (init 1 false) ops in
    no_land_after_loop_end false (ops ++ [ThreadRunAsync 0]) = false /\
    ended s = true /\ wk s 0 = WExec 0 /\ exec s = [0] /\
    abandon (calls s 0) = true /\ ph (calls s 0) = PDone DCancelled /\ lb s = [] /\
    step s (ThreadRunAsync 0) = (s, RHang) /\
    snd (step (final step (init 1 false) ex_abandon) (ThreadRunAsync 0)) = RRT false.
Proof. exact rs_from_thread_landed_after_loop_end_refuted. Qed.
Print Assumptions C14_from_thread_landed_after_loop_end_refuted.

(* ... and under the boolean restriction no_land_after_loop_end (no from_thread call-back is issued after LoopEnd) EVERY
   call-back of the run, at whatever position, is served: it is issued while `ended = false`, its result is not RHang,
   and for an executing function it is the answer of C14_from_thread_run_spec.  The ops after LoopEnd other than
   ThreadRunAsync are not restricted by the model (an over-approximation: the loop-side segments cannot really run any
   more; the safety theorems above hold for all op sequences anyway). *)
Theorem C14_from_thread_run_served : forall pre w post s,
  no_land_after_loop_end (ended s) (pre ++ ThreadRunAsync w :: post) = true ->
  let s' := final step s pre in
  ended s' = false /\
  snd (step s' (ThreadRunAsync w)) <> RHang /\
  (forall c, wk s' w = WExec c ->
     step s' (ThreadRunAsync w) = (s', RRT (walk (handed_visible (calls s' c))))).
Proof. exact rs_from_thread_run_served. Qed.
Print Assumptions C14_from_thread_run_served.

(* worker pool: LIFO reuse, a new worker only when none is idle, a worker is handed a call only when free and only
   by that call's own segment, a call sits on at most one worker *)
Theorem C14_worker_reuse : forall tot pr s,
  reach tot pr s ->
  (forall c, wcanc (calls s c) = false ->
             ph (calls s c) = PLimYield \/ (ph (calls s c) = PWaitLim /\ evset (calls s c) = true) ->
     let s' := fst (step s (Resume c)) in
     let w := hd (nwork s) (idle s) in
     ph (calls s' c) = PAwait w /\ wk s' w = WQueued c /\ wk s w = WFree /\ ~ In w (idle s') /\
     (idle s = [] -> nwork s' = S (nwork s)) /\ (idle s <> [] -> nwork s' = nwork s)) /\
  (forall o w c, wk (fst (step s o)) w = WQueued c -> wk s w <> WQueued c ->
     o = Resume c /\ wk s w = WFree /\ w = hd (nwork s) (idle s)) /\
  (forall w w' c, (wk s w = WQueued c \/ wk s w = WExec c) -> (wk s w' = WQueued c \/ wk s w' = WExec c) -> w = w') /\
  (forall w, In w (idle s) -> wk s w = WFree) /\ NoDup (idle s).
Proof. exact rs_worker_reuse. Qed.
Print Assumptions C14_worker_reuse.

(* HEAD (after fix 952e60b): no worker is ever lost.  Every worker ever created is idle (free AND in the idle deque),
   has an item queued, executes a function, has the payload-less report of a skipped item in flight, or was pruned;
   and each busy state leads back to the idle deque through the thread's own next ops (ThreadStart, then ThreadFinish
   or ThreadReturn), the future of a skipped item staying cancelled *)
Theorem C14_no_worker_lost : forall tot pr s,
  reach tot pr s ->
  (forall w, w < nwork s ->
     (wk s w = WFree /\ In w (idle s)) \/ (exists c, wk s w = WQueued c) \/ (exists c, wk s w = WExec c) \/
     wk s w = WSkip \/ wk s w = WStopped) /\
  (forall w, wk s w <> WLost) /\
  (forall w c, wk s w = WQueued c ->
     wk (fst (step s (ThreadStart w))) w = WExec c \/ wk (fst (step s (ThreadStart w))) w = WSkip) /\
  (forall w c p, wk s w = WExec c ->
     let s' := fst (step s (ThreadFinish w p)) in wk s' w = WFree /\ In w (idle s')) /\
  (forall w, wk s w = WSkip ->
     let s' := fst (step s (ThreadReturn w)) in wk s' w = WFree /\ In w (idle s') /\ calls s' = calls s).
Proof. exact rs_no_worker_lost. Qed.
Print Assumptions C14_no_worker_lost.

(* FINDING F8 (fixed: 952e60b), kept for the PINNED transition system `step_pinned` (a skipped item is not reported):
   there a worker that dequeues an item whose future was cancelled first is lost for good - neither idle, nor
   executing, nor ever reusable *)
Theorem C14_no_worker_leak_refuted_pinned :
  exists ops, let s := final step_pinned (init 1 false) ops in
    ph (calls s 0) = PDone DCancelled /\ lb s = [] /\ exec s = [] /\
    nwork s = 1 /\ wk s 0 = WLost /\ idle s = [] /\
    forall more, wk (final step_pinned s more) 0 = WLost.
Proof. exact rs_no_worker_leak_refuted_pinned. Qed.
Print Assumptions C14_no_worker_leak_refuted_pinned.

(* the states the codec visits (scripted op followed by `settle`) are reachable states of the LTS, so every theorem
   above applies to every state compared with the implementation *)
Theorem C14_codec_states_reachable : forall tot pr fuel n s code a b c,
  reach tot pr s -> reach tot pr (settle fuel n (fst (do_op s code a b c))).
Proof. exact codec_states_reachable. Qed.
Print Assumptions C14_codec_states_reachable.
