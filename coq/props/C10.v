(* C10 — Semaphore and CapacityLimiter: permits are conserved and never over-granted.
   This file contains only statements closed by `exact` and their Print Assumptions.
   Part 1 speaks about the Semaphore machine (prims/Sem.v); after the second Require Import the short names
   (st, step, reach, ...) denote the CapacityLimiter machine (prims/Limiter.v).
   HYPOTHESES that appear in the statements (nothing else is assumed):
   * part 1, every theorem about reachable states: `max_ok iv mx`, i.e. initial_value <= max_value when a
     max_value is given - the check the constructor anyio.Semaphore.__init__ performs itself (ValueError
     otherwise; compared by the harness' constructor checks);
   * part 2, where written: `tainted s = false`, see below;
   * part 1, cancellation at the entry of acquire(): op AcqBeginC = the call is made while a cancelled scope is
     visible to the caller (the check yields), op CkPass = the check returns normally after the yield (the scope was
     cut off meanwhile); what decides between Cancel / spin / CkPass is the scope machine (C03), not this model;
   * C10_lim_never_over_granted: the run never assigns total_tokens a value below the number of tokens
     borrowed at that moment (`never_lowered_below_borrowed`); without it over-capacity states are reachable
     and, by C10_lim_grant_only_if_free / C10_lim_no_borrower_added_when_full, only shrink.
   In part 2 `tainted s = false` excludes exactly the histories in which release_on_behalf_of(b) was called
   before b's acquire call returned (O2); duplicate borrowers among concurrent acquire_on_behalf_of calls are
   inside every statement (F16: the second caller is refused, C10_lim_waiting_borrower_rejected). *)
From AV Require Import Base C10Defs C10Lib Sem SemProofs SemThms PrimImp SemImp SemGen SemGenEq.

(* ===================================== Semaphore ===================================== *)

Theorem C10_sem_conservation : forall fa iv mx s, max_ok iv mx -> reach fa iv mx s ->
  value s + length (held s) + length (infl s) + dropped s = iv + extra s /\
  length (held s) + length (infl s) <= iv + extra s /\
  dropped s <= extra s /\ (mx = None -> dropped s = 0) /\ (forall m, mx = Some m -> value s <= m).
Proof. exact sem_conservation. Qed.
Print Assumptions C10_sem_conservation.

Theorem C10_sem_reserved_meaning : forall fa iv mx s t, max_ok iv mx -> reach fa iv mx s ->
  NoDup (infl s) /\
  (In t (infl s) <-> phase_of s t = FastYield \/ exists f, phase_of s t = Waiting f /\ futs s f = FSet).
Proof. exact sem_reserved_meaning. Qed.
Print Assumptions C10_sem_reserved_meaning.

Theorem C10_sem_held_tracks_returns : forall s o s' r, step s o = (s', r) ->
  match r with
  | RDone =>
      (exists t, (o = AcqBegin t \/ o = AcqNowait t \/ o = Resume t \/ o = CkPass t) /\
                 held s' = t :: held s /\ extra s' = extra s) \/
      (exists t, o = Release t /\
         ((In t (held s) /\ held s' = remove_one t (held s) /\ extra s' = extra s) \/
          (~ In t (held s) /\ held s' = held s /\ extra s' = S (extra s))))
  | _ => held s' = held s /\ extra s' = extra s
  end.
Proof. exact sem_held_tracks_returns. Qed.
Print Assumptions C10_sem_held_tracks_returns.

Theorem C10_sem_value_pos_no_waiters : forall fa iv mx s, max_ok iv mx -> reach fa iv mx s ->
  value s > 0 -> waiters s = [].
Proof. exact sem_value_pos_no_waiters. Qed.
Print Assumptions C10_sem_value_pos_no_waiters.

Theorem C10_sem_fifo_queue_in_arrival_order : forall fa iv mx s, max_ok iv mx -> reach fa iv mx s ->
  subseq (waiters s) (enq s).
Proof. exact sem_queue_in_arrival_order. Qed.
Print Assumptions C10_sem_fifo_queue_in_arrival_order.

Theorem C10_sem_fifo_arrival_log_append_only : forall s o, exists l, enq (fst (step s o)) = enq s ++ l.
Proof. exact sem_arrival_log_append_only. Qed.
Print Assumptions C10_sem_fifo_arrival_log_append_only.

Theorem C10_sem_fifo_handoff_first_live : forall s,
  (exists w pre f, waiters s = pre ++ (w, f) :: waiters (rel_core s) /\ futs s f <> FCancelled /\
      (forall t' f', In (t', f') pre -> futs s f' = FCancelled) /\
      infl (rel_core s) = w :: infl s /\ value (rel_core s) = value s /\ futs (rel_core s) f = FSet) \/
  (waiters (rel_core s) = [] /\ (forall t' f', In (t', f') (waiters s) -> futs s f' = FCancelled) /\
      infl (rel_core s) = infl s /\ value (rel_core s) = S (value s)).
Proof. exact sem_handoff_first_live. Qed.
Print Assumptions C10_sem_fifo_handoff_first_live.

Theorem C10_sem_grant_only_if_free : forall fa iv mx s t o, max_ok iv mx -> reach fa iv mx s ->
  o = AcqBegin t \/ o = AcqNowait t \/ o = CkPass t ->
  length (held (fst (step s o))) + length (infl (fst (step s o))) > length (held s) + length (infl s) ->
  value s = S (value (fst (step s o))) /\ waiters s = [].
Proof. exact sem_grant_only_if_free. Qed.
Print Assumptions C10_sem_grant_only_if_free.

Theorem C10_sem_cancel_no_leak_waiter : forall fa iv mx s t f, max_ok iv mx -> reach fa iv mx s ->
  phase_of s t = Waiting f -> futs s f = FCancelled ->
  let s' := fst (step s (Resume t)) in
  snd (step s (Resume t)) = RCancelled /\ value s' = value s /\ held s' = held s /\ infl s' = infl s /\
  extra s' = extra s /\ dropped s' = dropped s /\
  ~ In t (map fst (waiters s')) /\ phase_of s' t = Idle.
Proof. exact sem_cancelled_waiter_no_leak. Qed.
Print Assumptions C10_sem_cancel_no_leak_waiter.

Theorem C10_sem_cancel_no_leak_grantee : forall fa iv mx s t, max_ok iv mx -> reach fa iv mx s ->
  (phase_of s t = FastYield \/ exists f, phase_of s t = Waiting f /\ futs s f = FSet) ->
  mustc s t = true ->
  let s' := fst (step s (Resume t)) in
  let r := snd (step s (Resume t)) in
  phase_of s' t = Idle /\ held s' = held s /\ extra s' = extra s /\ ~ In t (infl s') /\ Inv s' /\
  ((r = RCancelled /\ maxv s <> Some (value s) /\ dropped s' = dropped s /\
      value s' + length (infl s') = value s + length (infl s)) \/
   (r = RValue /\ maxv s = Some (value s) /\ dropped s' = S (dropped s) /\
      value s' = value s /\ S (length (infl s')) = length (infl s))).
Proof. exact sem_cancelled_grantee_no_leak. Qed.
Print Assumptions C10_sem_cancel_no_leak_grantee.

(* ---- the cancellation check at the start of acquire() (F53, fixed in /repo by c2fb7fb): AcqBeginC = acquire()
   called while a cancelled scope is visible; CkPass = the check returns normally after having yielded ---- *)
Theorem C10_sem_check_yield_noeffect : forall s t, phase_of s t = Idle ->
  step s (AcqBeginC t) = (set_phase s t CkYield, RBlocked) /\
  value (set_phase s t CkYield) = value s /\ waiters (set_phase s t CkYield) = waiters s /\
  futs (set_phase s t CkYield) = futs s /\ held (set_phase s t CkYield) = held s /\
  infl (set_phase s t CkYield) = infl s /\ enq (set_phase s t CkYield) = enq s.
Proof. exact sem_check_yield_noeffect. Qed.
Print Assumptions C10_sem_check_yield_noeffect.

Theorem C10_sem_check_cancelled_noeffect : forall s t, phase_of s t = CkYield -> mustc s t = true ->
  step s (Resume t) = (leave s t, RCancelled) /\ step s (CkPass t) = (leave s t, RCancelled) /\
  value (leave s t) = value s /\ waiters (leave s t) = waiters s /\ futs (leave s t) = futs s /\
  held (leave s t) = held s /\ enq (leave s t) = enq s /\ phase_of (leave s t) t = Idle.
Proof. exact sem_check_cancelled_noeffect. Qed.
Print Assumptions C10_sem_check_cancelled_noeffect.

Theorem C10_sem_check_spin : forall s t,
  phase_of s t = CkYield -> mustc s t = false -> step s (Resume t) = (s, RBlocked).
Proof. exact sem_check_spin. Qed.
Print Assumptions C10_sem_check_spin.

Theorem C10_sem_check_pass_is_fresh_acquire : forall s t, phase_of s t = CkYield -> mustc s t = false ->
  step s (CkPass t) = step (leave s t) (AcqBegin t) /\
  value (leave s t) = value s /\ waiters (leave s t) = waiters s /\ held (leave s t) = held s.
Proof. exact sem_check_pass_is_fresh_acquire. Qed.
Print Assumptions C10_sem_check_pass_is_fresh_acquire.

Theorem C10_sem_check_order_refuted_pinned :
  exists ops, let s := final step_f53_pinned (init false 1 None) ops in
    held s = [1; 2] /\ infl s = [] /\ extra s = 0 /\ dropped s = 0 /\ value s = 0 /\
    length (held s) > 1 + extra s /\
    value s + length (held s) + length (infl s) + dropped s <> 1 + extra s /\
    (forall t, t < 3 -> phase_of s t = Idle).
Proof. exact sem_check_order_refuted_pinned. Qed.
Print Assumptions C10_sem_check_order_refuted_pinned.

Theorem C10_sem_release_beyond_max_rejected : forall s t,
  phase_of s t = Idle -> maxv s = Some (value s) -> step s (Release t) = (s, RValue).
Proof. exact sem_release_beyond_max_rejected. Qed.
Print Assumptions C10_sem_release_beyond_max_rejected.

Theorem C10_sem_release_below_max_accepted : forall s t,
  phase_of s t = Idle -> maxv s <> Some (value s) -> snd (step s (Release t)) = RDone.
Proof. exact sem_release_below_max_accepted. Qed.
Print Assumptions C10_sem_release_below_max_accepted.

Theorem C10_sem_quiescent_initial : forall fa iv mx s, max_ok iv mx -> reach fa iv mx s ->
  (forall t, phase_of s t = Idle) -> held s = [] ->
  waiters s = [] /\ infl s = [] /\ value s + dropped s = iv + extra s /\ (extra s = 0 -> value s = iv).
Proof. exact sem_quiescent_initial. Qed.
Print Assumptions C10_sem_quiescent_initial.

(* ---- tie T (Semaphore): the segments of acquire (cut at its awaits) / acquire_nowait / release / the getters,
   regenerated from /repo's source by tools/translate_prims.py (SemGen.v) and interpreted by PrimImp.exec, ARE the
   model's step, for every state and task.  `lift` (SemImp.v) rebuilds a Sem.st from the interpretation result: the
   fields the code touches come from the heap, the ghost fields from the events of the segment;
   C10_tie_sem_lift_spec spells every field out.  phase_of / mustc are the asyncio Task's state; held / infl / extra /
   dropped / enq are history variables of the observer, not state of the Semaphore object. ---- *)
Theorem C10_tie_sem_acquire_entry : forall s t,
  phase_of s t = Idle ->
  step s (AcqBegin t) = lift s t KAcquire (exec sem_acquire_entry t (loc_entry None None) log0 (core s)).
Proof. exact tie_acquire_entry. Qed.
Print Assumptions C10_tie_sem_acquire_entry.

Theorem C10_tie_sem_acq_body : forall s t,
  acq_body s t = lift s t KAcquire (exec sem_acquire_entry t (loc_entry None None) log0 (core s)).
Proof. exact tie_acq_body. Qed.
Print Assumptions C10_tie_sem_acq_body.

Theorem C10_tie_sem_acquire_check_first :
  exists body, sem_acquire_entry = SSeq SCkIf body /\
    forall t l g k, l_fresh l = true -> l_canc l = false ->
      exec sem_acquire_entry t l g k = exec body t l g k.
Proof. exact tie_acquire_check_first. Qed.
Print Assumptions C10_tie_sem_acquire_check_first.

Theorem C10_tie_sem_acquire_entry_cancelled : forall s t, phase_of s t = Idle ->
  step s (AcqBeginC t) = lift_ck s t (exec sem_acquire_entry t (loc_entry_cancelled None) log0 (core s)).
Proof. exact tie_acquire_entry_cancelled. Qed.
Print Assumptions C10_tie_sem_acquire_entry_cancelled.

Theorem C10_tie_sem_acquire_check_pass : forall s t, phase_of s t = CkYield -> mustc s t = false ->
  step s (CkPass t) =
  lift (leave s t) t KAcquire (exec sem_acquire_entry t (loc_entry None None) log0 (core (leave s t))).
Proof. exact tie_acquire_check_pass. Qed.
Print Assumptions C10_tie_sem_acquire_check_pass.

Theorem C10_tie_sem_acquire_yield_resumed : forall s t,
  phase_of s t = FastYield -> mustc s t = false ->
  step s (Resume t) =
  lift (leave s t) t KAcquire
    (exec sem_acquire_yield_resumed t (loc_resume None None None) log0 (core (leave s t))).
Proof. exact tie_acquire_yield_resumed. Qed.
Print Assumptions C10_tie_sem_acquire_yield_resumed.

Theorem C10_tie_sem_acquire_yield_cancelled : forall s t,
  phase_of s t = FastYield -> mustc s t = true ->
  step s (Resume t) =
  lift (leave s t) t KAcquireC
    (exec sem_acquire_yield_cancelled t (loc_resume None None None) log0 (core (leave s t))).
Proof. exact tie_acquire_yield_cancelled. Qed.
Print Assumptions C10_tie_sem_acquire_yield_cancelled.

Theorem C10_tie_sem_acquire_wait_resumed : forall s t f,
  phase_of s t = Waiting f -> futs s f = FSet -> mustc s t = false ->
  step s (Resume t) =
  lift (leave s t) t KAcquire
    (exec sem_acquire_wait_resumed t (loc_resume (Some f) None None) log0 (core (leave s t))).
Proof. exact tie_acquire_wait_resumed. Qed.
Print Assumptions C10_tie_sem_acquire_wait_resumed.

Theorem C10_tie_sem_acquire_wait_cancelled : forall s t f,
  phase_of s t = Waiting f ->
  futs s f = FCancelled \/ (futs s f = FSet /\ mustc s t = true) ->
  step s (Resume t) =
  lift (leave s t) t KAcquireC
    (exec sem_acquire_wait_cancelled t (loc_resume (Some f) None None) log0 (core (leave s t))).
Proof. exact tie_acquire_wait_cancelled. Qed.
Print Assumptions C10_tie_sem_acquire_wait_cancelled.

Theorem C10_tie_sem_acquire_nowait : forall s t,
  phase_of s t = Idle ->
  step s (AcqNowait t) = lift s t KAcquire (exec sem_acquire_nowait_entry t (loc_entry None None) log0 (core s)).
Proof. exact tie_acquire_nowait. Qed.
Print Assumptions C10_tie_sem_acquire_nowait.

Theorem C10_tie_sem_release : forall s t,
  phase_of s t = Idle ->
  step s (Release t) = lift s t KRelease (exec sem_release_entry t (loc_entry None None) log0 (core s)).
Proof. exact tie_release. Qed.
Print Assumptions C10_tie_sem_release.

Theorem C10_tie_sem_getters : forall s,
  eval_expr sem_value_getter (core s) = VNat (value s) /\
  eval_expr sem_max_value_getter (core s) = match maxv s with Some m => VNat m | None => VNone end /\
  map (fun x => eval_expr x (core s)) sem_statistics_args = [VNat (length (waiters s))].
Proof. exact tie_getters. Qed.
Print Assumptions C10_tie_sem_getters.

Theorem C10_tie_sem_lift_spec : forall s t kd l g k o,
  let s' := fst (lift s t kd (l, g, k, o)) in
  core s' = mkh (h_fast k) (h_maxv k) (h_value k) (h_waiters k) (h_futs k) (h_nfut k) None [] [] (fun _ => false) 0 /\
  snd (lift s t kd (l, g, k, o)) = match res_of o with Some x => x | None => RRejected end /\
  phase_of s' = match o with
                | OSuspend AwYield => upd (phase_of s) t FastYield
                | OSuspend AwFut => match l_fut l with Some f => upd (phase_of s) t (Waiting f) | None => phase_of s end
                | _ => phase_of s
                end /\
  mustc s' = mustc s /\ init0 s' = init0 s /\
  held s' = match kd with
            | KAcquire => if returned o then t :: held s else held s
            | KAcquireC => held s
            | KRelease => if returned o && mem t (held s) then remove_one t (held s) else held s
            end /\
  infl s' = g_woke g ++ match o with OSuspend AwYield => t :: infl s | _ => infl s end /\
  extra s' = match kd with
             | KRelease => if returned o && negb (mem t (held s)) then S (extra s) else extra s
             | _ => extra s
             end /\
  dropped s' = match kd, o with KAcquireC, ORaise EValue => S (dropped s) | _, _ => dropped s end /\
  enq s' = enq s ++ g_enq g.
Proof. exact lift_spec. Qed.
Print Assumptions C10_tie_sem_lift_spec.

Theorem C10_tie_sem_gstep_eq_step : forall s o,
  gstep sem_prog s o = step s o.
Proof. exact gstep_eq_step. Qed.
Print Assumptions C10_tie_sem_gstep_eq_step.

Theorem C10_tie_sem_gen_conservation : forall fa iv mx ops, max_ok iv mx ->
  let s := final (gstep sem_prog) (init fa iv mx) ops in
  value s + length (held s) + length (infl s) + dropped s = iv + extra s /\
  length (held s) + length (infl s) <= iv + extra s /\
  dropped s <= extra s /\ (mx = None -> dropped s = 0) /\ (forall m, mx = Some m -> value s <= m).
Proof. exact gen_conservation. Qed.
Print Assumptions C10_tie_sem_gen_conservation.

Theorem C10_tie_sem_gen_grant_only_if_free : forall fa iv mx ops t o, max_ok iv mx ->
  let s := final (gstep sem_prog) (init fa iv mx) ops in
  o = AcqBegin t \/ o = AcqNowait t \/ o = CkPass t ->
  length (held (fst (gstep sem_prog s o))) + length (infl (fst (gstep sem_prog s o))) >
    length (held s) + length (infl s) ->
  value s = S (value (fst (gstep sem_prog s o))) /\ waiters s = [].
Proof. exact gen_grant_only_if_free. Qed.
Print Assumptions C10_tie_sem_gen_grant_only_if_free.

Theorem C10_tie_sem_gen_fifo : forall fa iv mx ops, max_ok iv mx ->
  let s := final (gstep sem_prog) (init fa iv mx) ops in
  subseq (waiters s) (enq s) /\ (value s > 0 -> waiters s = []).
Proof. exact gen_fifo. Qed.
Print Assumptions C10_tie_sem_gen_fifo.

Theorem C10_tie_sem_gen_release_hands_to_first_live : forall s t, phase_of s t = Idle -> at_max s = false ->
  let s' := fst (gstep sem_prog s (Release t)) in
  snd (gstep sem_prog s (Release t)) = RDone /\
  ((exists w pre f, waiters s = pre ++ (w, f) :: waiters s' /\ futs s f <> FCancelled /\
      (forall t' f', In (t', f') pre -> futs s f' = FCancelled) /\
      infl s' = w :: infl s /\ value s' = value s /\ futs s' f = FSet) \/
   (waiters s' = [] /\ (forall t' f', In (t', f') (waiters s) -> futs s f' = FCancelled) /\
      infl s' = infl s /\ value s' = S (value s))).
Proof. exact gen_release_hands_to_first_live. Qed.
Print Assumptions C10_tie_sem_gen_release_hands_to_first_live.

Theorem C10_tie_sem_gen_release_beyond_max_rejected : forall s t,
  phase_of s t = Idle -> maxv s = Some (value s) -> gstep sem_prog s (Release t) = (s, RValue).
Proof. exact gen_release_beyond_max_rejected. Qed.
Print Assumptions C10_tie_sem_gen_release_beyond_max_rejected.

(* ===================================== CapacityLimiter ===================================== *)
From AV Require Import Limiter LimiterProofs LimiterThms LimiterImp LimiterGen LimiterGenEq.

Theorem C10_lim_grant_only_if_free : forall s o,
  let s' := fst (step s o) in
  (forall b, In b (borrowers s') -> In b (borrowers s)) \/ xle (length (borrowers s')) (total s').
Proof. exact lim_grant_only_if_free. Qed.
Print Assumptions C10_lim_grant_only_if_free.

Theorem C10_lim_direct_grant_needs_free : forall s t b o,
  o = AcqOn t b \/ o = AcqOnNowait t b ->
  In b (borrowers (fst (step s o))) -> ~ In b (borrowers s) ->
  free (borrowers s) (total s) = true /\ queue s = [].
Proof. exact lim_direct_grant_needs_free. Qed.
Print Assumptions C10_lim_direct_grant_needs_free.

Theorem C10_lim_no_borrower_added_when_full : forall v s o, reach v s ->
  total (fst (step s o)) = total s ->
  (forall b, In b (borrowers s) -> In b (borrowers (fst (step s o)))) ->
  (exists b, In b (borrowers (fst (step s o))) /\ ~ In b (borrowers s)) ->
  free (borrowers s) (total s) = true.
Proof. exact lim_no_borrower_added_when_full. Qed.
Print Assumptions C10_lim_no_borrower_added_when_full.

Theorem C10_lim_within_total_preserved : forall v s o, reach v s ->
  xle (length (borrowers s)) (total s) ->
  (forall t x, o = SetTotal t x -> xle (length (borrowers s)) x) ->
  xle (length (borrowers (fst (step s o)))) (total (fst (step s o))).
Proof. exact lim_within_total_preserved. Qed.
Print Assumptions C10_lim_within_total_preserved.

Theorem C10_lim_never_over_granted : forall v ops,
  (fix never_lowered (s : st) (ops : list op) : Prop :=
     match ops with
     | [] => True
     | o :: r => (forall t x, o = SetTotal t x -> xle (length (borrowers s)) x) /\ never_lowered (fst (step s o)) r
     end) (init v) ops ->
  xle (length (borrowers (final step (init v) ops))) (total (final step (init v) ops)).
Proof. exact lim_never_over_granted. Qed.
Print Assumptions C10_lim_never_over_granted.

Theorem C10_lim_grant_only_if_free_refuted_pinned :
  exists ops, let s := final step_pinned (init (Some 2)) ops in
    length (borrowers s) = 4 /\ total s = Some 2 /\ tainted s = false /\
    ~ ((forall b, In b (borrowers s) -> In b (borrowers (final step_pinned (init (Some 2)) (removelast ops)))) \/
       xle (length (borrowers s)) (total s)).
Proof. exact lim_grant_only_if_free_refuted_pinned. Qed.
Print Assumptions C10_lim_grant_only_if_free_refuted_pinned.

Theorem C10_lim_counts_true : forall v s, reach v s -> tainted s = false ->
  NoDup (borrowers s) /\
  (forall b, In b (borrowers s) <-> In b (held s) \/ In b (resv s)) /\
  (forall b, In b (held s) -> ~ In b (resv s)) /\
  length (borrowers s) = length (held s) + length (resv s) /\
  (forall b, In b (resv s) <->
     exists t, phase_of s t = FastYield b \/ exists e, phase_of s t = Waiting b e /\ evset s e = true) /\
  (forall b e, In (b, e) (queue s) <-> (exists t, phase_of s t = Waiting b e) /\ evset s e = false) /\
  NoDup (keys (queue s)) /\
  (forall r, nth 1 (observe s r) 0%Z = nz (length (held s) + length (resv s))) /\
  avail_code s = match total s with
                 | None => inf_code
                 | Some n => (nz n - nz (length (held s) + length (resv s)))%Z
                 end.
Proof. exact lim_counts_true. Qed.
Print Assumptions C10_lim_counts_true.

Theorem C10_lim_held_tracks_returns : forall s o s' r, step s o = (s', r) ->
  match r with
  | RDone =>
      (exists t b, (o = AcqOnNowait t b \/ (o = Resume t /\ inprog s t b)) /\ held s' = b :: held s) \/
      (exists t b, o = RelOn t b /\ In b (borrowers s) /\ held s' = remove_one b (held s)) \/
      (exists t x, o = SetTotal t x /\ held s' = held s)
  | _ => held s' = held s
  end.
Proof. exact lim_held_tracks_returns. Qed.
Print Assumptions C10_lim_held_tracks_returns.

Theorem C10_lim_fifo_queue_in_arrival_order : forall v s, reach v s -> subseq (queue s) (arrivals s).
Proof. exact lim_queue_in_arrival_order. Qed.
Print Assumptions C10_lim_fifo_queue_in_arrival_order.

Theorem C10_lim_fifo_arrival_log_append_only : forall s o, exists l, arrivals (fst (step s o)) = arrivals s ++ l.
Proof. exact lim_arrival_log_append_only. Qed.
Print Assumptions C10_lim_fifo_arrival_log_append_only.

Theorem C10_lim_fifo_notify_serves_head : forall s,
  notify_next s = s \/
  exists b e, queue s = (b, e) :: queue (notify_next s) /\ free (borrowers s) (total s) = true /\
              borrowers (notify_next s) = set_add b (borrowers s) /\
              evset (notify_next s) = upd (evset s) e true /\ resv (notify_next s) = b :: resv s.
Proof. exact lim_notify_serves_head. Qed.
Print Assumptions C10_lim_fifo_notify_serves_head.

Theorem C10_lim_fifo_set_total_serves_prefix : forall s x,
  exists pre, queue s = pre ++ queue (set_total s x) /\ total (set_total s x) = x /\
    (forall b, In b (borrowers (set_total s x)) <-> In b (borrowers s) \/ In b (keys pre)) /\
    (queue (set_total s x) <> [] -> free (borrowers (set_total s x)) x = false).
Proof. exact lim_set_total_serves_prefix. Qed.
Print Assumptions C10_lim_fifo_set_total_serves_prefix.

Theorem C10_lim_no_free_token_with_waiters : forall v s, reach v s ->
  queue s <> [] -> free (borrowers s) (total s) = false.
Proof. exact lim_no_free_token_with_waiters. Qed.
Print Assumptions C10_lim_no_free_token_with_waiters.

Theorem C10_lim_wait_queue_keys_distinct : forall v s, reach v s ->
  NoDup (keys (queue s)) /\
  (forall b, In b (keys (queue s)) -> ~ In b (borrowers s)) /\
  (tainted s = false -> forall t1 t2 b, inprog s t1 b -> inprog s t2 b -> t1 = t2).
Proof. exact lim_wait_queue_keys_distinct. Qed.
Print Assumptions C10_lim_wait_queue_keys_distinct.

Theorem C10_lim_waiting_borrower_rejected : forall s t b,
  phase_of s t = Idle -> In b (keys (queue s)) -> ~ In b (borrowers s) ->
  step s (AcqOn t b) = (s, RRuntime) /\ step s (AcqOnNowait t b) = (s, RWouldBlock).
Proof. exact lim_waiting_borrower_rejected. Qed.
Print Assumptions C10_lim_waiting_borrower_rejected.

Theorem C10_lim_second_waiter_rejected : forall v s t u b e, reach v s -> tainted s = false ->
  phase_of s u = Waiting b e -> evset s e = false -> phase_of s t = Idle ->
  step s (AcqOn t b) = (s, RRuntime).
Proof. exact lim_second_waiter_rejected. Qed.
Print Assumptions C10_lim_second_waiter_rejected.

Theorem C10_lim_no_lost_waiter : forall v s t b e, reach v s -> tainted s = false ->
  phase_of s t = Waiting b e -> evset s e = false ->
  In (b, e) (queue s) /\ free (borrowers s) (total s) = false.
Proof. exact lim_no_lost_waiter. Qed.
Print Assumptions C10_lim_no_lost_waiter.

Theorem C10_lim_duplicate_waiter_refuted_pinned :
  (exists ops, let s := final step_f16_pinned (init (Some 1)) ops in
     tainted s = false /\
     phase_of s 2 = Waiting 11 1 /\ evset s 1 = false /\ fcanc s 2 = false /\ mustc s 2 = false /\
     ~ In (11, 1) (queue s) /\ free (borrowers s) (total s) = true /\
     queue s = [] /\ borrowers s = [] /\ phase_of s 1 = Idle) /\
  (exists ops, let s := final step_f16_pinned (init (Some 1)) ops in
     tainted s = false /\
     inprog s 1 11 /\ inprog s 2 11 /\
     phase_of s 1 = Waiting 11 0 /\ evset s 0 = false /\ fcanc s 1 = false /\ ~ In (11, 0) (queue s) /\
     phase_of s 2 = Waiting 11 1 /\ evset s 1 = true /\
     arrivals s = [(11, 0); (11, 1)] /\ queue s = [] /\ borrowers s = [11]).
Proof. exact lim_duplicate_waiter_refuted_pinned. Qed.
Print Assumptions C10_lim_duplicate_waiter_refuted_pinned.

Theorem C10_lim_cancel_conserves_before_grant : forall v s t b e, reach v s -> tainted s = false ->
  phase_of s t = Waiting b e -> evset s e = false -> fcanc s t = true ->
  let s' := fst (step s (Resume t)) in
  snd (step s (Resume t)) = RCancelled /\ borrowers s' = borrowers s /\ held s' = held s /\
  resv s' = resv s /\ total s' = total s /\ ~ In b (keys (queue s')) /\ subseq (queue s') (queue s) /\
  phase_of s' t = Idle /\ tainted s' = false.
Proof. exact lim_cancel_before_grant. Qed.
Print Assumptions C10_lim_cancel_conserves_before_grant.

Theorem C10_lim_cancel_conserves_after_grant : forall v s t b, reach v s -> tainted s = false ->
  ((exists e, phase_of s t = Waiting b e /\ evset s e = true /\ (fcanc s t = true \/ mustc s t = true)) \/
   (phase_of s t = FastYield b /\ mustc s t = true)) ->
  let s' := fst (step s (Resume t)) in
  snd (step s (Resume t)) = RCancelled /\ ~ In b (borrowers s') /\ ~ In b (held s') /\ ~ In b (resv s') /\
  held s' = held s /\ phase_of s' t = Idle /\ tainted s' = false /\ Inv0 s' /\
  (borrowers s' = remove_one b (borrowers s) \/
   exists b' e', queue s = (b', e') :: queue s' /\ free (remove_one b (borrowers s)) (total s) = true /\
                 borrowers s' = b' :: remove_one b (borrowers s)).
Proof. exact lim_cancel_after_grant. Qed.
Print Assumptions C10_lim_cancel_conserves_after_grant.

Theorem C10_lim_cancel_foreign_fastyield_refuted_pinned :
  exists ops, let s := final step_d1_pinned (init (Some 1)) ops in
    tainted s = false /\ phase_of s 1 = FastYield 11 /\ mustc s 1 = true /\
    snd (step_d1_pinned s (Resume 1)) = RRuntime /\
    let s' := fst (step_d1_pinned s (Resume 1)) in
    phase_of s' 1 = Idle /\ held s' = [] /\ borrowers s' = [11] /\ resv s' = [] /\
    snd (step_d1_pinned s' (AcqOnNowait 2 2)) = RWouldBlock.
Proof. exact lim_cancel_foreign_fastyield_refuted_pinned. Qed.
Print Assumptions C10_lim_cancel_foreign_fastyield_refuted_pinned.

Theorem C10_lim_no_double_borrow : forall s t b,
  phase_of s t = Idle -> In b (borrowers s) ->
  step s (AcqOn t b) = (s, RRuntime) /\ step s (AcqOnNowait t b) = (s, RRuntime).
Proof. exact lim_no_double_borrow. Qed.
Print Assumptions C10_lim_no_double_borrow.

Theorem C10_lim_borrowers_nodup : forall v s, reach v s -> NoDup (borrowers s).
Proof. exact lim_borrowers_nodup. Qed.
Print Assumptions C10_lim_borrowers_nodup.

Theorem C10_lim_release_by_non_borrower_rejected : forall s t b,
  phase_of s t = Idle -> ~ In b (borrowers s) -> step s (RelOn t b) = (s, RRuntime).
Proof. exact lim_release_by_non_borrower_rejected. Qed.
Print Assumptions C10_lim_release_by_non_borrower_rejected.

Theorem C10_lim_bad_total_rejected : forall s t k,
  phase_of s t = Idle ->
  step s (SetTotalBad t k) = (s, match k with 1 | 2 => RValue | _ => RType end).
Proof. exact lim_bad_total_rejected. Qed.
Print Assumptions C10_lim_bad_total_rejected.

Theorem C10_lim_quiescent_initial : forall v s, reach v s -> tainted s = false ->
  (forall t, phase_of s t = Idle) -> held s = [] ->
  borrowers s = [] /\ queue s = [] /\ resv s = [] /\
  avail_code s = match total s with None => inf_code | Some n => nz n end.
Proof. exact lim_quiescent_initial. Qed.
Print Assumptions C10_lim_quiescent_initial.

(* ---- tie T (CapacityLimiter): the segments of acquire_on_behalf_of (cut at its awaits) /
   acquire_on_behalf_of_nowait / release_on_behalf_of / the total_tokens setter / the wrappers / the getters,
   regenerated from /repo's source (LimiterGen.v), ARE the model's step, for every state, task and borrower.
   `lift` (LimiterImp.v) as above; C10_tie_lim_lift_spec spells every field out.  phase_of / fcanc / mustc are
   asyncio's state; held / resv / arrivals / tainted are history variables of the observer. ---- *)
Theorem C10_tie_lim_acquire_entry : forall s t b,
  phase_of s t = Idle ->
  step s (AcqOn t b) =
  lift s t (KAcquire b) (exec lim_acquire_on_behalf_of_entry t (loc_entry (Some b) None) log0 (core s)).
Proof. exact tie_acquire_entry. Qed.
Print Assumptions C10_tie_lim_acquire_entry.

Theorem C10_tie_lim_acquire_yield_resumed : forall s t b,
  phase_of s t = FastYield b -> mustc s t = false ->
  step s (Resume t) =
  lift (woken s t) t (KAcquire b)
    (exec lim_acquire_on_behalf_of_yield_resumed t (loc_resume None (Some b) None) log0 (core (woken s t))).
Proof. exact tie_acquire_yield_resumed. Qed.
Print Assumptions C10_tie_lim_acquire_yield_resumed.

Theorem C10_tie_lim_acquire_yield_cancelled : forall s t b,
  phase_of s t = FastYield b -> mustc s t = true ->
  step s (Resume t) =
  lift (woken s t) t (KAcquire b)
    (exec lim_acquire_on_behalf_of_yield_cancelled t (loc_resume None (Some b) None) log0 (core (woken s t))).
Proof. exact tie_acquire_yield_cancelled. Qed.
Print Assumptions C10_tie_lim_acquire_yield_cancelled.

Theorem C10_tie_lim_acquire_event_resumed : forall s t b e,
  phase_of s t = Waiting b e ->
  evset s e = true -> fcanc s t = false -> mustc s t = false ->
  step s (Resume t) =
  lift (woken s t) t (KAcquire b)
    (exec lim_acquire_on_behalf_of_event_resumed t (loc_resume None (Some b) (Some e)) log0 (core (woken s t))).
Proof. exact tie_acquire_event_resumed. Qed.
Print Assumptions C10_tie_lim_acquire_event_resumed.

Theorem C10_tie_lim_acquire_event_cancelled : forall s t b e,
  phase_of s t = Waiting b e ->
  (evset s e = true \/ fcanc s t = true) -> fcanc s t || mustc s t = true ->
  step s (Resume t) =
  lift (woken s t) t (KAcquire b)
    (exec lim_acquire_on_behalf_of_event_cancelled t (loc_resume None (Some b) (Some e)) log0 (core (woken s t))).
Proof. exact tie_acquire_event_cancelled. Qed.
Print Assumptions C10_tie_lim_acquire_event_cancelled.

Theorem C10_tie_lim_acquire_nowait : forall s t b,
  phase_of s t = Idle ->
  step s (AcqOnNowait t b) =
  lift s t (KAcquire b) (exec lim_acquire_on_behalf_of_nowait_entry t (loc_entry (Some b) None) log0 (core s)).
Proof. exact tie_acquire_nowait. Qed.
Print Assumptions C10_tie_lim_acquire_nowait.

Theorem C10_tie_lim_release : forall s t b,
  phase_of s t = Idle ->
  step s (RelOn t b) =
  lift s t (KRelease b) (exec lim_release_on_behalf_of_entry t (loc_entry (Some b) None) log0 (core s)).
Proof. exact tie_release. Qed.
Print Assumptions C10_tie_lim_release.

Theorem C10_tie_lim_set_total : forall s t v,
  phase_of s t = Idle ->
  step s (SetTotal t v) =
  lift s t KSetter (exec lim_total_tokens_entry t (loc_entry None (Some (tok_of v))) log0 (core s)).
Proof. exact tie_set_total. Qed.
Print Assumptions C10_tie_lim_set_total.

Theorem C10_tie_lim_set_total_bad : forall s t k,
  phase_of s t = Idle ->
  step s (SetTotalBad t k) =
  lift s t KSetter (exec lim_total_tokens_entry t (loc_entry None (Some (bad_tok k))) log0 (core s)).
Proof. exact tie_set_total_bad. Qed.
Print Assumptions C10_tie_lim_set_total_bad.

Theorem C10_tie_lim_wrappers : forall s t,
  phase_of s t = Idle ->
  step s (AcqOnNowait t t) = lift s t (KAcquire t) (exec lim_acquire_nowait_entry t (loc_entry None None) log0 (core s)) /\
  step s (RelOn t t) = lift s t (KRelease t) (exec lim_release_entry t (loc_entry None None) log0 (core s)).
Proof. exact tie_wrappers. Qed.
Print Assumptions C10_tie_lim_wrappers.

Theorem C10_tie_lim_getters : forall s,
  eval_expr lim_total_tokens_getter (core s) = match total s with Some n => VNat n | None => VInf end /\
  eval_expr lim_borrowed_tokens_getter (core s) = VNat (length (borrowers s)) /\
  eval_expr lim_available_tokens_getter (core s) =
    match total s with Some n => VInt (Z.of_nat n - Z.of_nat (length (borrowers s))) | None => VInf end /\
  map (fun x => eval_expr x (core s)) lim_statistics_args =
    [VNat (length (borrowers s)); match total s with Some n => VNat n | None => VInf end;
     VSet (borrowers s); VNat (length (queue s))].
Proof. exact tie_getters. Qed.
Print Assumptions C10_tie_lim_getters.

Theorem C10_tie_lim_lift_spec : forall s t kd l g k o,
  let s' := fst (lift s t kd (l, g, k, o)) in
  core s' = mkh false None 0 [] (fun _ => Sem.FPending) 0 (h_total k) (h_borrowers k) (h_queue k) (h_evset k) (h_nev k) /\
  snd (lift s t kd (l, g, k, o)) = match res_of o with Some x => x | None => RRejected end /\
  phase_of s' = match o, l_bor l, l_ev l with
                | OSuspend AwYield, Some b, _ => upd (phase_of s) t (FastYield b)
                | OSuspend AwEvent, Some b, Some e => upd (phase_of s) t (Waiting b e)
                | _, _, _ => phase_of s
                end /\
  fcanc s' = match o with OSuspend AwEvent => upd (fcanc s) t false | _ => fcanc s end /\
  mustc s' = mustc s /\
  held s' = match kd with
            | KAcquire b => if returned o then b :: held s else held s
            | KRelease b => if returned o then remove_one b (held s) else held s
            | KSetter => held s
            end /\
  resv s' = g_grant g ++ match o, l_bor l with OSuspend AwYield, Some b => b :: resv s | _, _ => resv s end /\
  arrivals s' = arrivals s ++ g_arr g /\
  tainted s' = match kd with
               | KRelease b => if returned o then tainted s || mem b (resv s) else tainted s
               | _ => tainted s
               end.
Proof. exact lift_spec. Qed.
Print Assumptions C10_tie_lim_lift_spec.

Theorem C10_tie_lim_gstep_eq_step : forall s o,
  gstep lim_prog s o = step s o.
Proof. exact gstep_eq_step. Qed.
Print Assumptions C10_tie_lim_gstep_eq_step.

Theorem C10_tie_lim_gen_grant_only_if_free : forall s o,
  let s' := fst (gstep lim_prog s o) in
  (forall b, In b (borrowers s') -> In b (borrowers s)) \/ xle (length (borrowers s')) (total s').
Proof. exact gen_grant_only_if_free. Qed.
Print Assumptions C10_tie_lim_gen_grant_only_if_free.

Theorem C10_tie_lim_gen_conservation : forall v ops,
  let s := final (gstep lim_prog) (init v) ops in
  tainted s = false ->
  NoDup (borrowers s) /\
  (forall b, In b (borrowers s) <-> In b (held s) \/ In b (resv s)) /\
  (forall b, In b (held s) -> ~ In b (resv s)) /\
  length (borrowers s) = length (held s) + length (resv s).
Proof. exact gen_conservation. Qed.
Print Assumptions C10_tie_lim_gen_conservation.

Theorem C10_tie_lim_gen_fifo : forall v ops,
  let s := final (gstep lim_prog) (init v) ops in
  subseq (queue s) (arrivals s) /\ (queue s <> [] -> free (borrowers s) (total s) = false).
Proof. exact gen_fifo. Qed.
Print Assumptions C10_tie_lim_gen_fifo.

Theorem C10_tie_lim_gen_keys_distinct : forall v ops,
  let s := final (gstep lim_prog) (init v) ops in
  NoDup (keys (queue s)) /\ (forall b, In b (keys (queue s)) -> ~ In b (borrowers s)) /\ NoDup (borrowers s).
Proof. exact gen_keys_distinct. Qed.
Print Assumptions C10_tie_lim_gen_keys_distinct.

Theorem C10_tie_lim_gen_waiting_borrower_rejected : forall s t b,
  phase_of s t = Idle -> In b (keys (queue s)) -> ~ In b (borrowers s) ->
  gstep lim_prog s (AcqOn t b) = (s, RRuntime) /\ gstep lim_prog s (AcqOnNowait t b) = (s, RWouldBlock).
Proof. exact gen_waiting_borrower_rejected. Qed.
Print Assumptions C10_tie_lim_gen_waiting_borrower_rejected.


(* ---- the entry check of CapacityLimiter.acquire_on_behalf_of() as a suspension (the limiter sibling of F53 / LockEntry).
   LimiterEntry.estep extends the machine with calls made from an already effectively cancelled scope: the call sits in
   checkpoint_if_cancelled() (spin t = Some borrower) until the cancellation is delivered (SpinCancel; or a native
   Cancel followed by its Resume) or the check returns after its yield because the cancelled scope stopped being visible
   (SpinReturn, F46); other tasks act on the limiter in between.  pinned = false is HEAD; pinned = true is the order
   "test, check, take" that Lock / Semaphore had before F53 (CapacityLimiter never had it; refuted witness only).
   `ereach v s` = s is reachable by LimiterEntry.estep false. ---- *)
From AV Require Import LimiterEntry LimiterEntryThms.

Theorem C10_lim_entry_projects_to_limiter : forall v s, ereach v s -> reach v (lim s).
Proof. exact entry_projects_to_limiter. Qed.
Print Assumptions C10_lim_entry_projects_to_limiter.

Theorem C10_lim_entry_inherits : forall v s, ereach v s ->
  NoDup (borrowers (lim s)) /\
  (queue (lim s) <> [] -> free (borrowers (lim s)) (total (lim s)) = false) /\
  NoDup (keys (queue (lim s))) /\
  (forall b, In b (keys (queue (lim s))) -> ~ In b (borrowers (lim s))) /\
  subseq (queue (lim s)) (arrivals (lim s)).
Proof. exact entry_inherits. Qed.
Print Assumptions C10_lim_entry_inherits.

Theorem C10_lim_entry_cancelled_noeffect : forall s t b,
  spin s t = None -> phase_of (lim s) t = Idle ->
  let s1 := fst (estep false s (EnterCancelled t b)) in
  snd (estep false s (EnterCancelled t b)) = RBlocked /\ lim s1 = lim s /\ spin s1 t = Some b /\
  snd (estep false s1 (SpinCancel t)) = RCancelled /\ lim (fst (estep false s1 (SpinCancel t))) = lim s /\
  spin (fst (estep false s1 (SpinCancel t))) t = None.
Proof. exact entry_cancelled_noeffect. Qed.
Print Assumptions C10_lim_entry_cancelled_noeffect.

Theorem C10_lim_spinner_steps_noeffect : forall s t b o,
  spin s t = Some b -> op_tid o = t ->
  lim (fst (estep false s (L o))) = lim s /\
  (snd (estep false s (L o)) = RCancelled -> ckmust s t = true /\ o = Resume t).
Proof. exact spinner_steps_noeffect. Qed.
Print Assumptions C10_lim_spinner_steps_noeffect.

Theorem C10_lim_no_step_between_test_and_take : forall v s t b,
  ereach v s -> spin s t = Some b -> ckmust s t = false ->
  estep false s (SpinReturn t) =
  (unspin s (fst (Limiter.step (lim s) (AcqOn t b))) t, snd (Limiter.step (lim s) (AcqOn t b))).
Proof. exact no_step_between_test_and_take. Qed.
Print Assumptions C10_lim_no_step_between_test_and_take.

Theorem C10_lim_entry_grant_only_if_free : forall v s t b,
  ereach v s -> spin s t = Some b -> ckmust s t = false ->
  In b (borrowers (lim (fst (estep false s (SpinReturn t))))) -> ~ In b (borrowers (lim s)) ->
  free (borrowers (lim s)) (total (lim s)) = true /\ queue (lim s) = [].
Proof. exact entry_grant_only_if_free. Qed.
Print Assumptions C10_lim_entry_grant_only_if_free.

Theorem C10_lim_check_then_take_across_yield_refuted_pinned :
  let s := final (estep true) (einit (Some 1)) f53_ops in
  borrowers (lim s) = [1; 2] /\ total (lim s) = Some 1 /\
  snd (estep true (final (estep true) (einit (Some 1)) [EnterCancelled 1 1]) (L (AcqOnNowait 2 2))) = RDone /\
  ~ length (borrowers (lim s)) <= 1.
Proof. exact lim_check_then_take_across_yield_refuted_pinned. Qed.
Print Assumptions C10_lim_check_then_take_across_yield_refuted_pinned.

Theorem C10_lim_entry_nonvacuous :
  (let s := final (estep false) (einit (Some 1)) f53_ops in
   borrowers (lim s) = [2] /\ phase_of (lim s) 1 = Waiting 1 0 /\ queue (lim s) = [(1, 0)] /\ ereach (Some 1) s) /\
  (let s := final (estep false) (einit (Some 1)) [L (AcqOnNowait 2 2); EnterCancelled 1 7; L (Cancel 1)] in
   spin s 1 = Some 7 /\ ckmust s 1 = true /\ borrowers (lim s) = [2] /\ ereach (Some 1) s /\
   snd (estep false s (L (Resume 1))) = RCancelled /\ snd (estep false s (SpinReturn 1)) = RCancelled).
Proof. exact (conj f53_head ex_entry_hyp). Qed.
Print Assumptions C10_lim_entry_nonvacuous.

(* ---- tie T for the limiter's entry check (QA audit follow-up): what LimiterEntry.estep does to a call made in an
        already cancelled scope, in terms of the entry segment regenerated from the source ---- *)
From AV Require Import LimiterEntryTie.

Theorem C10_tie_lim_check_first :
  exists body, lim_acquire_on_behalf_of_entry = SSeq SCkIf body /\
    forall t l g k, l_fresh l = true -> l_canc l = false ->
      exec lim_acquire_on_behalf_of_entry t l g k = exec body t l g k.
Proof. exact check_first. Qed.
Print Assumptions C10_tie_lim_check_first.

Theorem C10_tie_lim_entry_cancelled_is_generated : forall s t b,
  spin s t = None -> phase_of (lim s) t = Idle ->
  (exists l, exec lim_acquire_on_behalf_of_entry t (loc_entry_cancelled (Some b)) log0 (core (lim s)) =
             (l, log0, core (lim s), OCancelled)) /\
  lim (fst (estep false (fst (estep false s (EnterCancelled t b))) (SpinCancel t))) = lim s /\
  snd (estep false (fst (estep false s (EnterCancelled t b))) (SpinCancel t)) = RCancelled.
Proof. exact entry_cancelled_is_generated. Qed.
Print Assumptions C10_tie_lim_entry_cancelled_is_generated.

Theorem C10_tie_lim_spin_return_is_generated : forall v s t b,
  ereach v s -> spin s t = Some b -> ckmust s t = false -> phase_of (lim s) t = Idle ->
  estep false s (SpinReturn t) =
  (let x := lift (lim s) t (KAcquire b)
              (exec lim_acquire_on_behalf_of_entry t (loc_entry (Some b) None) log0 (core (lim s))) in
   (unspin s (fst x) t, snd x)).
Proof. exact spin_return_is_generated. Qed.
Print Assumptions C10_tie_lim_spin_return_is_generated.

Theorem C10_tie_lim_spin_return_nonvacuous :
  let s := final (estep false) (einit (Some 1)) [EnterCancelled 1 1; L (AcqOnNowait 2 2)] in
  ereach (Some 1) s /\ spin s 1 = Some 1 /\ ckmust s 1 = false /\ phase_of (lim s) 1 = Idle /\
  snd (estep false s (SpinReturn 1)) = RBlocked /\ queue (lim (fst (estep false s (SpinReturn 1)))) = [(1, 0)].
Proof. exact ex_spin_return_hyp. Qed.
Print Assumptions C10_tie_lim_spin_return_nonvacuous.
