(* C10 — Semaphore and CapacityLimiter: permits are conserved and never over-granted.
   This file contains only statements closed by `exact` and their Print Assumptions.
   Part 1 speaks about the Semaphore machine (prims/Sem.v); after the second Require Import the short names
   (st, step, reach, ...) denote the CapacityLimiter machine (prims/Limiter.v).
   In part 2 `tainted s = false` excludes exactly the histories in which release_on_behalf_of(b) was called
   before b's acquire call returned (O2); duplicate borrowers among concurrent acquire_on_behalf_of calls are
   inside every statement (F16: the second caller is refused, C10_lim_waiting_borrower_rejected). *)
From AV Require Import Base C10Defs C10Lib Sem SemProofs SemThms.

(* ===================================== Semaphore ===================================== *)

Theorem C10_sem_conservation : forall fa iv mx s, max_ok iv mx -> reach fa iv mx s ->
  value s + length (held s) + length (infl s) + dropped s = iv + extra s /\
  length (held s) + length (infl s) <= iv + extra s /\
  dropped s <= extra s /\ (mx = None -> dropped s = 0) /\ (forall m, mx = Some m -> value s <= m).
Proof. exact sem_conservation. Qed.
Print Assumptions C10_sem_conservation.

Theorem C10_sem_reserved_meaning : forall fa iv mx s t, max_ok iv mx -> reach fa iv mx s ->
  NoDup (infl s) /\
  (In t (infl s) <-> phase_of s t = FastYield \/ exists f, phase_of s t = Waiting f /\ futs s f = FSet).
Proof. exact sem_reserved_meaning. Qed.
Print Assumptions C10_sem_reserved_meaning.

Theorem C10_sem_held_tracks_returns : forall s o s' r, step s o = (s', r) ->
  match r with
  | RDone =>
      (exists t, (o = AcqBegin t \/ o = AcqNowait t \/ o = Resume t) /\ held s' = t :: held s /\ extra s' = extra s) \/
      (exists t, o = Release t /\
         ((In t (held s) /\ held s' = remove_one t (held s) /\ extra s' = extra s) \/
          (~ In t (held s) /\ held s' = held s /\ extra s' = S (extra s))))
  | _ => held s' = held s /\ extra s' = extra s
  end.
Proof. exact sem_held_tracks_returns. Qed.
Print Assumptions C10_sem_held_tracks_returns.

Theorem C10_sem_value_pos_no_waiters : forall fa iv mx s, max_ok iv mx -> reach fa iv mx s ->
  value s > 0 -> waiters s = [].
Proof. exact sem_value_pos_no_waiters. Qed.
Print Assumptions C10_sem_value_pos_no_waiters.

Theorem C10_sem_fifo_queue_in_arrival_order : forall fa iv mx s, max_ok iv mx -> reach fa iv mx s ->
  subseq (waiters s) (enq s).
Proof. exact sem_queue_in_arrival_order. Qed.
Print Assumptions C10_sem_fifo_queue_in_arrival_order.

Theorem C10_sem_fifo_arrival_log_append_only : forall s o, exists l, enq (fst (step s o)) = enq s ++ l.
Proof. exact sem_arrival_log_append_only. Qed.
Print Assumptions C10_sem_fifo_arrival_log_append_only.

Theorem C10_sem_fifo_handoff_first_live : forall s,
  (exists w pre f, waiters s = pre ++ (w, f) :: waiters (rel_core s) /\ futs s f <> FCancelled /\
      (forall t' f', In (t', f') pre -> futs s f' = FCancelled) /\
      infl (rel_core s) = w :: infl s /\ value (rel_core s) = value s /\ futs (rel_core s) f = FSet) \/
  (waiters (rel_core s) = [] /\ (forall t' f', In (t', f') (waiters s) -> futs s f' = FCancelled) /\
      infl (rel_core s) = infl s /\ value (rel_core s) = S (value s)).
Proof. exact sem_handoff_first_live. Qed.
Print Assumptions C10_sem_fifo_handoff_first_live.

Theorem C10_sem_grant_only_if_free : forall fa iv mx s t o, max_ok iv mx -> reach fa iv mx s ->
  o = AcqBegin t \/ o = AcqNowait t ->
  length (held (fst (step s o))) + length (infl (fst (step s o))) > length (held s) + length (infl s) ->
  value s = S (value (fst (step s o))) /\ waiters s = [].
Proof. exact sem_grant_only_if_free. Qed.
Print Assumptions C10_sem_grant_only_if_free.

Theorem C10_sem_cancel_no_leak_waiter : forall fa iv mx s t f, max_ok iv mx -> reach fa iv mx s ->
  phase_of s t = Waiting f -> futs s f = FCancelled ->
  let s' := fst (step s (Resume t)) in
  snd (step s (Resume t)) = RCancelled /\ value s' = value s /\ held s' = held s /\ infl s' = infl s /\
  extra s' = extra s /\ dropped s' = dropped s /\
  ~ In t (map fst (waiters s')) /\ phase_of s' t = Idle.
Proof. exact sem_cancelled_waiter_no_leak. Qed.
Print Assumptions C10_sem_cancel_no_leak_waiter.

Theorem C10_sem_cancel_no_leak_grantee : forall fa iv mx s t, max_ok iv mx -> reach fa iv mx s ->
  (phase_of s t = FastYield \/ exists f, phase_of s t = Waiting f /\ futs s f = FSet) ->
  mustc s t = true ->
  let s' := fst (step s (Resume t)) in
  let r := snd (step s (Resume t)) in
  phase_of s' t = Idle /\ held s' = held s /\ extra s' = extra s /\ ~ In t (infl s') /\ Inv s' /\
  ((r = RCancelled /\ maxv s <> Some (value s) /\ dropped s' = dropped s /\
      value s' + length (infl s') = value s + length (infl s)) \/
   (r = RValue /\ maxv s = Some (value s) /\ dropped s' = S (dropped s) /\
      value s' = value s /\ S (length (infl s')) = length (infl s))).
Proof. exact sem_cancelled_grantee_no_leak. Qed.
Print Assumptions C10_sem_cancel_no_leak_grantee.

Theorem C10_sem_release_beyond_max_rejected : forall s t,
  phase_of s t = Idle -> maxv s = Some (value s) -> step s (Release t) = (s, RValue).
Proof. exact sem_release_beyond_max_rejected. Qed.
Print Assumptions C10_sem_release_beyond_max_rejected.

Theorem C10_sem_release_below_max_accepted : forall s t,
  phase_of s t = Idle -> maxv s <> Some (value s) -> snd (step s (Release t)) = RDone.
Proof. exact sem_release_below_max_accepted. Qed.
Print Assumptions C10_sem_release_below_max_accepted.

Theorem C10_sem_quiescent_initial : forall fa iv mx s, max_ok iv mx -> reach fa iv mx s ->
  (forall t, phase_of s t = Idle) -> held s = [] ->
  waiters s = [] /\ infl s = [] /\ value s + dropped s = iv + extra s /\ (extra s = 0 -> value s = iv).
Proof. exact sem_quiescent_initial. Qed.
Print Assumptions C10_sem_quiescent_initial.

(* ===================================== CapacityLimiter ===================================== *)
From AV Require Import Limiter LimiterProofs LimiterThms.

Theorem C10_lim_grant_only_if_free : forall s o,
  let s' := fst (step s o) in
  (forall b, In b (borrowers s') -> In b (borrowers s)) \/ xle (length (borrowers s')) (total s').
Proof. exact lim_grant_only_if_free. Qed.
Print Assumptions C10_lim_grant_only_if_free.

Theorem C10_lim_direct_grant_needs_free : forall s t b o,
  o = AcqOn t b \/ o = AcqOnNowait t b ->
  In b (borrowers (fst (step s o))) -> ~ In b (borrowers s) ->
  free (borrowers s) (total s) = true /\ queue s = [].
Proof. exact lim_direct_grant_needs_free. Qed.
Print Assumptions C10_lim_direct_grant_needs_free.

Theorem C10_lim_never_over_granted : forall v s o, reach v s ->
  xle (length (borrowers s)) (total s) ->
  (forall t x, o = SetTotal t x -> xle (length (borrowers s)) x) ->
  xle (length (borrowers (fst (step s o)))) (total (fst (step s o))).
Proof. exact lim_never_over_granted. Qed.
Print Assumptions C10_lim_never_over_granted.

Theorem C10_lim_grant_only_if_free_refuted_pinned :
  exists ops, let s := final step_pinned (init (Some 2)) ops in
    length (borrowers s) = 4 /\ total s = Some 2 /\ tainted s = false /\
    ~ ((forall b, In b (borrowers s) -> In b (borrowers (final step_pinned (init (Some 2)) (removelast ops)))) \/
       xle (length (borrowers s)) (total s)).
Proof. exact lim_grant_only_if_free_refuted_pinned. Qed.
Print Assumptions C10_lim_grant_only_if_free_refuted_pinned.

Theorem C10_lim_counts_true : forall v s, reach v s -> tainted s = false ->
  NoDup (borrowers s) /\
  (forall b, In b (borrowers s) <-> In b (held s) \/ In b (resv s)) /\
  (forall b, In b (held s) -> ~ In b (resv s)) /\
  length (borrowers s) = length (held s) + length (resv s) /\
  (forall b, In b (resv s) <->
     exists t, phase_of s t = FastYield b \/ exists e, phase_of s t = Waiting b e /\ evset s e = true) /\
  (forall b e, In (b, e) (queue s) <-> (exists t, phase_of s t = Waiting b e) /\ evset s e = false) /\
  NoDup (keys (queue s)) /\
  (forall r, nth 1 (observe s r) 0%Z = nz (length (held s) + length (resv s))) /\
  avail_code s = match total s with
                 | None => inf_code
                 | Some n => (nz n - nz (length (held s) + length (resv s)))%Z
                 end.
Proof. exact lim_counts_true. Qed.
Print Assumptions C10_lim_counts_true.

Theorem C10_lim_held_tracks_returns : forall s o s' r, step s o = (s', r) ->
  match r with
  | RDone =>
      (exists t b, (o = AcqOnNowait t b \/ (o = Resume t /\ inprog s t b)) /\ held s' = b :: held s) \/
      (exists t b, o = RelOn t b /\ In b (borrowers s) /\ held s' = remove_one b (held s)) \/
      (exists t x, o = SetTotal t x /\ held s' = held s)
  | _ => held s' = held s
  end.
Proof. exact lim_held_tracks_returns. Qed.
Print Assumptions C10_lim_held_tracks_returns.

Theorem C10_lim_fifo_queue_in_arrival_order : forall v s, reach v s -> subseq (queue s) (arrivals s).
Proof. exact lim_queue_in_arrival_order. Qed.
Print Assumptions C10_lim_fifo_queue_in_arrival_order.

Theorem C10_lim_fifo_arrival_log_append_only : forall s o, exists l, arrivals (fst (step s o)) = arrivals s ++ l.
Proof. exact lim_arrival_log_append_only. Qed.
Print Assumptions C10_lim_fifo_arrival_log_append_only.

Theorem C10_lim_fifo_notify_serves_head : forall s,
  notify_next s = s \/
  exists b e, queue s = (b, e) :: queue (notify_next s) /\ free (borrowers s) (total s) = true /\
              borrowers (notify_next s) = set_add b (borrowers s) /\
              evset (notify_next s) = upd (evset s) e true /\ resv (notify_next s) = b :: resv s.
Proof. exact lim_notify_serves_head. Qed.
Print Assumptions C10_lim_fifo_notify_serves_head.

Theorem C10_lim_fifo_set_total_serves_prefix : forall s x,
  exists pre, queue s = pre ++ queue (set_total s x) /\ total (set_total s x) = x /\
    (forall b, In b (borrowers (set_total s x)) <-> In b (borrowers s) \/ In b (keys pre)) /\
    (queue (set_total s x) <> [] -> free (borrowers (set_total s x)) x = false).
Proof. exact lim_set_total_serves_prefix. Qed.
Print Assumptions C10_lim_fifo_set_total_serves_prefix.

Theorem C10_lim_no_free_token_with_waiters : forall v s, reach v s ->
  queue s <> [] -> free (borrowers s) (total s) = false.
Proof. exact lim_no_free_token_with_waiters. Qed.
Print Assumptions C10_lim_no_free_token_with_waiters.

Theorem C10_lim_wait_queue_keys_distinct : forall v s, reach v s ->
  NoDup (keys (queue s)) /\
  (forall b, In b (keys (queue s)) -> ~ In b (borrowers s)) /\
  (tainted s = false -> forall t1 t2 b, inprog s t1 b -> inprog s t2 b -> t1 = t2).
Proof. exact lim_wait_queue_keys_distinct. Qed.
Print Assumptions C10_lim_wait_queue_keys_distinct.

Theorem C10_lim_waiting_borrower_rejected : forall s t b,
  phase_of s t = Idle -> In b (keys (queue s)) -> ~ In b (borrowers s) ->
  step s (AcqOn t b) = (s, RRuntime) /\ step s (AcqOnNowait t b) = (s, RWouldBlock).
Proof. exact lim_waiting_borrower_rejected. Qed.
Print Assumptions C10_lim_waiting_borrower_rejected.

Theorem C10_lim_second_waiter_rejected : forall v s t u b e, reach v s -> tainted s = false ->
  phase_of s u = Waiting b e -> evset s e = false -> phase_of s t = Idle ->
  step s (AcqOn t b) = (s, RRuntime).
Proof. exact lim_second_waiter_rejected. Qed.
Print Assumptions C10_lim_second_waiter_rejected.

Theorem C10_lim_no_lost_waiter : forall v s t b e, reach v s -> tainted s = false ->
  phase_of s t = Waiting b e -> evset s e = false ->
  In (b, e) (queue s) /\ free (borrowers s) (total s) = false.
Proof. exact lim_no_lost_waiter. Qed.
Print Assumptions C10_lim_no_lost_waiter.

Theorem C10_lim_duplicate_waiter_refuted_pinned :
  (exists ops, let s := final step_f16_pinned (init (Some 1)) ops in
     phase_of s 2 = Waiting 11 1 /\ evset s 1 = false /\ fcanc s 2 = false /\ mustc s 2 = false /\
     queue s = [] /\ borrowers s = [] /\ free (borrowers s) (total s) = true /\ phase_of s 1 = Idle) /\
  (exists ops, let s := final step_f16_pinned (init (Some 1)) ops in
     phase_of s 1 = Waiting 11 0 /\ evset s 0 = false /\ phase_of s 2 = Waiting 11 1 /\ evset s 1 = true /\
     arrivals s = [(11, 0); (11, 1)] /\ queue s = [] /\ borrowers s = [11]).
Proof. exact lim_duplicate_waiter_refuted_pinned. Qed.
Print Assumptions C10_lim_duplicate_waiter_refuted_pinned.

Theorem C10_lim_cancel_conserves_before_grant : forall v s t b e, reach v s -> tainted s = false ->
  phase_of s t = Waiting b e -> evset s e = false -> fcanc s t = true ->
  let s' := fst (step s (Resume t)) in
  snd (step s (Resume t)) = RCancelled /\ borrowers s' = borrowers s /\ held s' = held s /\
  resv s' = resv s /\ total s' = total s /\ ~ In b (keys (queue s')) /\ subseq (queue s') (queue s) /\
  phase_of s' t = Idle /\ tainted s' = false.
Proof. exact lim_cancel_before_grant. Qed.
Print Assumptions C10_lim_cancel_conserves_before_grant.

Theorem C10_lim_cancel_conserves_after_grant : forall v s t b, reach v s -> tainted s = false ->
  ((exists e, phase_of s t = Waiting b e /\ evset s e = true /\ (fcanc s t = true \/ mustc s t = true)) \/
   (phase_of s t = FastYield b /\ mustc s t = true)) ->
  let s' := fst (step s (Resume t)) in
  snd (step s (Resume t)) = RCancelled /\ ~ In b (borrowers s') /\ ~ In b (held s') /\ ~ In b (resv s') /\
  held s' = held s /\ phase_of s' t = Idle /\ tainted s' = false /\ Inv0 s' /\
  (borrowers s' = remove_one b (borrowers s) \/
   exists b' e', queue s = (b', e') :: queue s' /\ free (remove_one b (borrowers s)) (total s) = true /\
                 borrowers s' = b' :: remove_one b (borrowers s)).
Proof. exact lim_cancel_after_grant. Qed.
Print Assumptions C10_lim_cancel_conserves_after_grant.

Theorem C10_lim_cancel_foreign_fastyield_refuted_pinned :
  exists ops, let s := final step_d1_pinned (init (Some 1)) ops in
    tainted s = false /\ phase_of s 1 = FastYield 11 /\ mustc s 1 = true /\
    snd (step_d1_pinned s (Resume 1)) = RRuntime /\
    let s' := fst (step_d1_pinned s (Resume 1)) in
    phase_of s' 1 = Idle /\ held s' = [] /\ borrowers s' = [11] /\ resv s' = [] /\
    snd (step_d1_pinned s' (AcqOnNowait 2 2)) = RWouldBlock.
Proof. exact lim_cancel_foreign_fastyield_refuted_pinned. Qed.
Print Assumptions C10_lim_cancel_foreign_fastyield_refuted_pinned.

Theorem C10_lim_no_double_borrow : forall s t b,
  phase_of s t = Idle -> In b (borrowers s) ->
  step s (AcqOn t b) = (s, RRuntime) /\ step s (AcqOnNowait t b) = (s, RRuntime).
Proof. exact lim_no_double_borrow. Qed.
Print Assumptions C10_lim_no_double_borrow.

Theorem C10_lim_borrowers_nodup : forall v s, reach v s -> NoDup (borrowers s).
Proof. exact lim_borrowers_nodup. Qed.
Print Assumptions C10_lim_borrowers_nodup.

Theorem C10_lim_release_by_non_borrower_rejected : forall s t b,
  phase_of s t = Idle -> ~ In b (borrowers s) -> step s (RelOn t b) = (s, RRuntime).
Proof. exact lim_release_by_non_borrower_rejected. Qed.
Print Assumptions C10_lim_release_by_non_borrower_rejected.

Theorem C10_lim_bad_total_rejected : forall s t k,
  phase_of s t = Idle ->
  step s (SetTotalBad t k) = (s, match k with 1 | 2 => RValue | _ => RType end).
Proof. exact lim_bad_total_rejected. Qed.
Print Assumptions C10_lim_bad_total_rejected.

Theorem C10_lim_quiescent_initial : forall v s, reach v s -> tainted s = false ->
  (forall t, phase_of s t = Idle) -> held s = [] ->
  borrowers s = [] /\ queue s = [] /\ resv s = [] /\
  avail_code s = match total s with None => inf_code | Some n => nz n end.
Proof. exact lim_quiescent_initial. Qed.
Print Assumptions C10_lim_quiescent_initial.
