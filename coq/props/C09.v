(* C09 — Lock: mutual exclusion, FIFO hand-off, cancel-safe waiters.
   This file contains only statements closed by `exact` and their Print Assumptions. *)
From AV Require Import Base Lock LockProofs LockThms LockImp LockGen LockGenEq LockThms2.

Theorem C09_mutex : forall fa s, reach fa s ->
  (forall t, In t (held s) -> owner s = Some t) /\ length (held s) <= 1.
Proof. exact lock_mutex. Qed.
Print Assumptions C09_mutex.

Theorem C09_acquire_returns_to_owner : forall fa s o t s',
  reach fa s -> acquire_op o t -> step s o = (s', RDone) ->
  owner s' = Some t /\ In t (held s') /\ (forall x, In x (held s') -> x = t).
Proof. exact lock_acquire_returns_to_owner. Qed.
Print Assumptions C09_acquire_returns_to_owner.

Theorem C09_no_barging : forall s t o s' r,
  (o = AcqBegin t \/ o = AcqNowait t) -> step s o = (s', r) ->
  owner s <> Some t -> owner s' = Some t -> owner s = None /\ waiters s = [].
Proof. exact lock_no_barging. Qed.
Print Assumptions C09_no_barging.

Theorem C09_queue_in_arrival_order : forall fa s, reach fa s -> subseq (waiters s) (enq s).
Proof. exact lock_queue_in_arrival_order. Qed.
Print Assumptions C09_queue_in_arrival_order.

Theorem C09_arrival_log_append_only : forall s o, exists l, enq (fst (step s o)) = enq s ++ l.
Proof. exact lock_arrival_log_append_only. Qed.
Print Assumptions C09_arrival_log_append_only.

Theorem C09_handoff_first_live : forall s t,
  match owner (do_release s t) with
  | Some w => exists pre f, waiters s = pre ++ (w, f) :: waiters (do_release s t) /\
                            futs s f <> FCancelled /\
                            (forall t' f', In (t', f') pre -> futs s f' = FCancelled)
  | None => waiters (do_release s t) = [] /\ forall t' f', In (t', f') (waiters s) -> futs s f' = FCancelled
  end.
Proof. exact lock_handoff_first_live. Qed.
Print Assumptions C09_handoff_first_live.

Theorem C09_owner_only_release : forall s t,
  phase_of s t = Idle -> owner s <> Some t -> step s (Release t) = (s, RRuntime).
Proof. exact lock_owner_only_release. Qed.
Print Assumptions C09_owner_only_release.

Theorem C09_reacquire_is_error : forall s t,
  phase_of s t = Idle -> owner s = Some t ->
  step s (AcqBegin t) = (s, RRuntime) /\ step s (AcqNowait t) = (s, RRuntime).
Proof. exact lock_reacquire_is_error. Qed.
Print Assumptions C09_reacquire_is_error.

Theorem C09_cancelled_waiter_never_holds : forall fa s t f,
  reach fa s -> phase_of s t = Waiting f -> futs s f = FCancelled ->
  let s' := fst (step s (Resume t)) in
  snd (step s (Resume t)) = RCancelled /\ ~ In t (held s') /\ owner s' <> Some t /\
  ~ In t (map fst (waiters s')) /\ phase_of s' t = Idle.
Proof. exact lock_cancelled_waiter_never_holds. Qed.
Print Assumptions C09_cancelled_waiter_never_holds.

Theorem C09_handoff_cancel_race : forall fa s t f,
  reach fa s -> phase_of s t = Waiting f -> futs s f = FSet -> mustc s t = true ->
  let s' := fst (step s (Resume t)) in
  snd (step s (Resume t)) = RCancelled /\ ~ In t (held s') /\ owner s' <> Some t /\ Inv s'.
Proof. exact lock_handoff_cancel_race. Qed.
Print Assumptions C09_handoff_cancel_race.

Theorem C09_no_free_with_waiters : forall fa s, reach fa s -> owner s = None -> waiters s = [].
Proof. exact lock_no_free_with_waiters. Qed.
Print Assumptions C09_no_free_with_waiters.

Theorem C09_quiescent : forall fa s,
  reach fa s -> (forall t, phase_of s t = Idle) -> held s = [] -> owner s = None /\ waiters s = [].
Proof. exact lock_quiescent. Qed.
Print Assumptions C09_quiescent.

(* ---- tie T: the segments of Lock.acquire / acquire_nowait / release / locked regenerated from /repo's source by
   tools/translate_lock.py (LockGen.v), interpreted by LockImp.exec, ARE the model's step.  For every state s and
   task t (no reachability hypothesis).  core = the fields the code reads and writes (fast, owner, waiters, futs,
   nfut).  The remaining fields are not state of the Lock object: phase_of / mustc are the asyncio Task's state
   (suspension point, Task._must_cancel), held / enq are history variables of the observer; each is determined by
   the events of the segment (outcome o, e_rel = a nested release() completed, e_enq = items appended). ---- *)
Theorem C09_tie_acquire_entry : forall s t, phase_of s t = Idle ->
  forall e k o, exec acquire_entry t env_entry (core s) = (e, k, o) ->
  let s' := fst (step s (AcqBegin t)) in
  core s' = k /\ Some (snd (step s (AcqBegin t))) = res_of o /\
  phase_of s' = phase_upd (phase_of s) t e o /\ mustc s' = mustc s /\
  held s' = ghost_held (held s) t (e_rel e) (returned o) /\ enq s' = enq s ++ e_enq e.
Proof. exact tie_acquire_entry_spec. Qed.
Print Assumptions C09_tie_acquire_entry.

Theorem C09_tie_acquire_nowait : forall s t, phase_of s t = Idle ->
  forall e k o, exec acquire_nowait_entry t env_entry (core s) = (e, k, o) ->
  let s' := fst (step s (AcqNowait t)) in
  core s' = k /\ Some (snd (step s (AcqNowait t))) = res_of o /\
  phase_of s' = phase_upd (phase_of s) t e o /\ mustc s' = mustc s /\
  held s' = ghost_held (held s) t (e_rel e) (returned o) /\ enq s' = enq s ++ e_enq e.
Proof. exact tie_acquire_nowait_spec. Qed.
Print Assumptions C09_tie_acquire_nowait.

Theorem C09_tie_release : forall s t, phase_of s t = Idle ->
  forall e k o, exec release_entry t env_entry (core s) = (e, k, o) ->
  let s' := fst (step s (Release t)) in
  core s' = k /\ Some (snd (step s (Release t))) = res_of o /\
  phase_of s' = phase_upd (phase_of s) t e o /\ mustc s' = mustc s /\
  held s' = ghost_held (held s) t (orb (e_rel e) (returned o)) false /\ enq s' = enq s ++ e_enq e.
Proof. exact tie_release_spec. Qed.
Print Assumptions C09_tie_release.

Theorem C09_tie_acquire_yield_resumed : forall s t, phase_of s t = FastYield -> mustc s t = false ->
  forall e k o, exec acquire_yield_resumed t (env_resume t None) (core s) = (e, k, o) ->
  let s' := fst (step s (Resume t)) in
  core s' = k /\ Some (snd (step s (Resume t))) = res_of o /\
  phase_of s' = phase_upd (upd (phase_of s) t Idle) t e o /\ mustc s' = upd (mustc s) t false /\
  held s' = ghost_held (held s) t (e_rel e) (returned o) /\ enq s' = enq s ++ e_enq e.
Proof. exact tie_acquire_yield_resumed_spec. Qed.
Print Assumptions C09_tie_acquire_yield_resumed.

Theorem C09_tie_acquire_yield_cancelled : forall s t, phase_of s t = FastYield -> mustc s t = true ->
  forall e k o, exec acquire_yield_cancelled t (env_resume t None) (core s) = (e, k, o) ->
  let s' := fst (step s (Resume t)) in
  core s' = k /\ Some (snd (step s (Resume t))) = res_of o /\
  phase_of s' = phase_upd (upd (phase_of s) t Idle) t e o /\ mustc s' = upd (mustc s) t false /\
  held s' = ghost_held (held s) t (e_rel e) (returned o) /\ enq s' = enq s ++ e_enq e.
Proof. exact tie_acquire_yield_cancelled_spec. Qed.
Print Assumptions C09_tie_acquire_yield_cancelled.

Theorem C09_tie_acquire_wait_resumed : forall s t f,
  phase_of s t = Waiting f -> futs s f = FSet -> mustc s t = false ->
  forall e k o, exec acquire_wait_resumed t (env_resume t (Some f)) (core s) = (e, k, o) ->
  let s' := fst (step s (Resume t)) in
  core s' = k /\ Some (snd (step s (Resume t))) = res_of o /\
  phase_of s' = phase_upd (upd (phase_of s) t Idle) t e o /\ mustc s' = upd (mustc s) t false /\
  held s' = ghost_held (held s) t (e_rel e) (returned o) /\ enq s' = enq s ++ e_enq e.
Proof. exact tie_acquire_wait_resumed_spec. Qed.
Print Assumptions C09_tie_acquire_wait_resumed.

Theorem C09_tie_acquire_wait_cancelled : forall s t f,
  phase_of s t = Waiting f -> futs s f = FCancelled \/ (futs s f = FSet /\ mustc s t = true) ->
  forall e k o, exec acquire_wait_cancelled t (env_resume t (Some f)) (core s) = (e, k, o) ->
  let s' := fst (step s (Resume t)) in
  core s' = k /\ Some (snd (step s (Resume t))) = res_of o /\
  phase_of s' = phase_upd (upd (phase_of s) t Idle) t e o /\ mustc s' = upd (mustc s) t false /\
  held s' = ghost_held (held s) t (e_rel e) (returned o) /\ enq s' = enq s ++ e_enq e.
Proof. exact tie_acquire_wait_cancelled_spec. Qed.
Print Assumptions C09_tie_acquire_wait_cancelled.

Theorem C09_tie_locked : forall s,
  eval_cond locked_cond 0 env_entry (core s) = Some (match owner s with Some _ => true | None => false end).
Proof. exact tie_locked. Qed.
Print Assumptions C09_tie_locked.

(* the machine that runs the generated segments (LockImp.gstep: entry segment on a call, continuation segment chosen
   by the await the task is suspended at and by whether CancelledError is raised there; ghost fields by LockImp.lift)
   is the model, op by op; hence every theorem above holds of runs of the generated code *)
Theorem C09_tie_machine : forall s o, gstep lock_prog s o = step s o.
Proof. exact gstep_eq_step. Qed.
Print Assumptions C09_tie_machine.

Theorem C09_tie_gen_mutex : forall fa ops,
  let s := final (gstep lock_prog) (init fa) ops in
  (forall t, In t (held s) -> owner s = Some t) /\ length (held s) <= 1.
Proof. exact gen_mutex_run. Qed.
Print Assumptions C09_tie_gen_mutex.

Theorem C09_tie_gen_acquire_returns_to_owner : forall fa ops o t s',
  let s := final (gstep lock_prog) (init fa) ops in
  acquire_op o t -> gstep lock_prog s o = (s', RDone) ->
  owner s' = Some t /\ In t (held s') /\ (forall x, In x (held s') -> x = t).
Proof. exact gen_acquire_returns_to_owner_run. Qed.
Print Assumptions C09_tie_gen_acquire_returns_to_owner.

Theorem C09_tie_gen_handoff_first_live : forall s t, phase_of s t = Idle -> owner s = Some t ->
  let s' := fst (gstep lock_prog s (Release t)) in
  snd (gstep lock_prog s (Release t)) = RDone /\
  match owner s' with
  | Some w => exists pre f, waiters s = pre ++ (w, f) :: waiters s' /\ futs s f <> FCancelled /\
                            (forall t' f', In (t', f') pre -> futs s f' = FCancelled)
  | None => waiters s' = [] /\ forall t' f', In (t', f') (waiters s) -> futs s f' = FCancelled
  end.
Proof. exact gen_handoff_first_live. Qed.
Print Assumptions C09_tie_gen_handoff_first_live.

Theorem C09_tie_gen_errors : forall s t, phase_of s t = Idle ->
  (owner s <> Some t -> gstep lock_prog s (Release t) = (s, RRuntime)) /\
  (owner s = Some t ->
   gstep lock_prog s (AcqBegin t) = (s, RRuntime) /\ gstep lock_prog s (AcqNowait t) = (s, RRuntime)).
Proof. exact gen_errors. Qed.
Print Assumptions C09_tie_gen_errors.

Theorem C09_tie_gen_cancelled_waiter_never_holds : forall fa ops t f,
  let s := final (gstep lock_prog) (init fa) ops in
  phase_of s t = Waiting f -> futs s f = FCancelled ->
  let s' := fst (gstep lock_prog s (Resume t)) in
  snd (gstep lock_prog s (Resume t)) = RCancelled /\ ~ In t (held s') /\ owner s' <> Some t /\
  ~ In t (map fst (waiters s')) /\ phase_of s' t = Idle.
Proof. exact gen_cancelled_waiter_never_holds_run. Qed.
Print Assumptions C09_tie_gen_cancelled_waiter_never_holds.

Theorem C09_tie_gen_no_free_with_waiters : forall fa ops,
  let s := final (gstep lock_prog) (init fa) ops in owner s = None -> waiters s = [].
Proof. exact gen_no_free_with_waiters_run. Qed.
Print Assumptions C09_tie_gen_no_free_with_waiters.

(* ---- trace-level FIFO (audit): grants follow the arrival order ----
   When the owner releases, the new owner w is an entry of the arrival log enq, its wait was not cancelled, its
   wake-up is now set, and EVERY task that started waiting before w is no longer waiting afterwards; those of them
   that were still queued had a cancelled wait (they are skipped, not overtaken).  If nobody is granted, every
   queued wait was cancelled. *)
Theorem C09_grant_in_arrival_order : forall fa s t, reach fa s -> owner s = Some t -> phase_of s t = Idle ->
  let s' := do_release s t in
  match owner s' with
  | Some w =>
      exists f pre post, enq s = pre ++ (w, f) :: post /\ futs s f <> FCancelled /\ futs s' f = FSet /\
        (forall x, In x pre -> ~ In x (waiters s')) /\
        (forall t' f', In (t', f') pre -> In (t', f') (waiters s) -> futs s f' = FCancelled)
  | None => forall t' f', In (t', f') (waiters s) -> futs s f' = FCancelled
  end.
Proof. exact lock_grant_in_arrival_order. Qed.
Print Assumptions C09_grant_in_arrival_order.

(* the arrival log is duplicate-free: an entry identifies one wait *)
Theorem C09_arrival_log_unique : forall fa s, reach fa s -> NoDup (map snd (enq s)).
Proof. exact lock_arrival_log_unique. Qed.
Print Assumptions C09_arrival_log_unique.

(* ---- no lost hand-off (audit): the recorded owner holds the lock or has its wake-up coming ---- *)
Theorem C09_owner_is_live : forall fa s t, reach fa s -> owner s = Some t ->
  In t (held s) \/ phase_of s t = FastYield \/ exists f, phase_of s t = Waiting f /\ futs s f = FSet.
Proof. exact lock_owner_is_live. Qed.
Print Assumptions C09_owner_is_live.

(* ---- F53: the cancellation check of acquire() comes first.  LockEntry.estep extends the machine with acquire() calls
   made from an already effectively cancelled scope: the call sits in checkpoint_if_cancelled() (spin) until the
   cancellation is delivered (SpinCancel) or the check returns after its yield because the cancelled scope stopped being
   visible (SpinReturn, F46); other tasks act in between.  pinned = false is HEAD, pinned = true the order before the
   fix (test, check, take).  `ereach fa s` = s is reachable by LockEntry.estep false. ---- *)
From AV Require Import LockEntry LockEntryThms.

Theorem C09_entry_mutex : forall fa s,
  ereach fa s ->
  (forall t, In t (held (lock s)) -> owner (lock s) = Some t) /\ length (held (lock s)) <= 1.
Proof. exact entry_mutex. Qed.
Print Assumptions C09_entry_mutex.

Theorem C09_entry_cancelled_refused : forall s t,
  spin s t = false -> phase_of (lock s) t = Idle ->
  let s1 := fst (estep false s (EnterCancelled t)) in
  snd (estep false s (EnterCancelled t)) = RBlocked /\ lock s1 = lock s /\ spin s1 t = true /\
  estep false s1 (SpinCancel t) = (unspin s1 (lock s) t, RCancelled).
Proof. exact entry_cancelled_refused. Qed.
Print Assumptions C09_entry_cancelled_refused.

Theorem C09_no_step_between_test_and_take : forall fa s t,
  ereach fa s -> spin s t = true -> ckmust s t = false ->
  estep false s (SpinReturn t) =
  (unspin s (fst (Lock.step (lock s) (AcqBegin t))) t, snd (Lock.step (lock s) (AcqBegin t))).
Proof. exact no_step_between_test_and_take. Qed.
Print Assumptions C09_no_step_between_test_and_take.

Theorem C09_check_then_take_across_yield_refuted_pinned : let s := final (estep true) (einit true) f53_ops in
  held (lock s) = [1; 2] /\ owner (lock s) = Some 1 /\
  snd (estep true (final (estep true) (einit true) [EnterCancelled 1]) (L (AcqNowait 2))) = RDone /\
  snd (estep true (final (estep true) (einit true) [EnterCancelled 1; L (AcqNowait 2)]) (SpinReturn 1)) = RDone /\
  ~ length (held (lock s)) <= 1.
Proof. exact check_then_take_across_yield_refuted_pinned. Qed.
Print Assumptions C09_check_then_take_across_yield_refuted_pinned.

(* audit 3 #15: C09_entry_mutex is not an island - the extended machine projects to Lock, so every `reach` theorem of
   this file (FIFO hand-over, no barging, cancelled waiters, arrival order, quiescence) holds of its lock component *)
Theorem C09_entry_projects_to_lock : forall fa s, ereach fa s -> reach fa (lock s).
Proof. exact entry_projects_to_lock. Qed.
Print Assumptions C09_entry_projects_to_lock.

Theorem C09_entry_no_free_lock_with_waiters : forall fa s, ereach fa s ->
  (owner (lock s) = None -> waiters (lock s) = []) /\ subseq (waiters (lock s)) (enq (lock s)).
Proof. exact entry_no_free_lock_with_waiters. Qed.
Print Assumptions C09_entry_no_free_lock_with_waiters.

(* on the regenerated code: apart from binding `task`, the check is the first statement of the entry segment and
   occurs nowhere else (LockImp.ckif_first), so the segment that tests and takes is entered only after the one
   possible yield; run from a cancelled scope it ends at the check, for every state *)
Theorem C09_tie_acquire_entry_check_first : ckif_first acquire_entry = true.
Proof. exact acquire_entry_check_first. Qed.
Print Assumptions C09_tie_acquire_entry_check_first.

Theorem C09_tie_cancelled_entry_noeffect : forall s t,
  exists e, exec acquire_entry t env_entry_cancelled (core s) = (e, core s, OCancelled) /\
            e_enq e = [] /\ e_rel e = false.
Proof. exact cancelled_entry_noeffect. Qed.
Print Assumptions C09_tie_cancelled_entry_noeffect.


(* native Task.cancel() of a task that sits in the entry check of acquire() (QA audit: formerly not modelled for Lock):
   whatever is done TO the spinning task, the lock does not move; its step raises only after a native cancel; with a
   native cancel pending the check cannot return normally (`_must_cancel` raises at the sleep(0)) *)
Theorem C09_spinner_steps_noeffect : forall s t o,
  spin s t = true -> op_tid o = t ->
  lock (fst (estep false s (L o))) = lock s /\
  (snd (estep false s (L o)) = RCancelled -> ckmust s t = true /\ o = Resume t).
Proof. exact spinner_steps_noeffect. Qed.
Print Assumptions C09_spinner_steps_noeffect.

Theorem C09_entry_native_cancel_nonvacuous :
  let s := final (estep false) (einit false) [L (AcqNowait 2); EnterCancelled 1; L (Cancel 1)] in
  spin s 1 = true /\ ckmust s 1 = true /\ owner (lock s) = Some 2 /\ ereach false s /\
  snd (estep false s (L (Resume 1))) = RCancelled /\ lock (fst (estep false s (L (Resume 1)))) = lock s /\
  snd (estep false s (SpinReturn 1)) = RCancelled.
Proof. exact ex_entry_native_cancel. Qed.
Print Assumptions C09_entry_native_cancel_nonvacuous.
