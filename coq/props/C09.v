(* C09 — Lock: mutual exclusion, FIFO hand-off, cancel-safe waiters.
   This file contains only statements closed by `exact` and their Print Assumptions. *)
From AV Require Import Base Lock LockProofs LockThms.

Theorem C09_mutex : forall fa s, reach fa s ->
  (forall t, In t (held s) -> owner s = Some t) /\ length (held s) <= 1.
Proof. exact lock_mutex. Qed.
Print Assumptions C09_mutex.

Theorem C09_acquire_returns_to_owner : forall fa s o t s',
  reach fa s -> acquire_op o t -> step s o = (s', RDone) ->
  owner s' = Some t /\ In t (held s') /\ (forall x, In x (held s') -> x = t).
Proof. exact lock_acquire_returns_to_owner. Qed.
Print Assumptions C09_acquire_returns_to_owner.

Theorem C09_no_barging : forall s t o s' r,
  (o = AcqBegin t \/ o = AcqNowait t) -> step s o = (s', r) ->
  owner s <> Some t -> owner s' = Some t -> owner s = None /\ waiters s = [].
Proof. exact lock_no_barging. Qed.
Print Assumptions C09_no_barging.

Theorem C09_queue_in_arrival_order : forall fa s, reach fa s -> subseq (waiters s) (enq s).
Proof. exact lock_queue_in_arrival_order. Qed.
Print Assumptions C09_queue_in_arrival_order.

Theorem C09_arrival_log_append_only : forall s o, exists l, enq (fst (step s o)) = enq s ++ l.
Proof. exact lock_arrival_log_append_only. Qed.
Print Assumptions C09_arrival_log_append_only.

Theorem C09_handoff_first_live : forall s t,
  match owner (do_release s t) with
  | Some w => exists pre f, waiters s = pre ++ (w, f) :: waiters (do_release s t) /\
                            futs s f <> FCancelled /\
                            (forall t' f', In (t', f') pre -> futs s f' = FCancelled)
  | None => waiters (do_release s t) = [] /\ forall t' f', In (t', f') (waiters s) -> futs s f' = FCancelled
  end.
Proof. exact lock_handoff_first_live. Qed.
Print Assumptions C09_handoff_first_live.

Theorem C09_owner_only_release : forall s t,
  phase_of s t = Idle -> owner s <> Some t -> step s (Release t) = (s, RRuntime).
Proof. exact lock_owner_only_release. Qed.
Print Assumptions C09_owner_only_release.

Theorem C09_reacquire_is_error : forall s t,
  phase_of s t = Idle -> owner s = Some t ->
  step s (AcqBegin t) = (s, RRuntime) /\ step s (AcqNowait t) = (s, RRuntime).
Proof. exact lock_reacquire_is_error. Qed.
Print Assumptions C09_reacquire_is_error.

Theorem C09_cancelled_waiter_never_holds : forall fa s t f,
  reach fa s -> phase_of s t = Waiting f -> futs s f = FCancelled ->
  let s' := fst (step s (Resume t)) in
  snd (step s (Resume t)) = RCancelled /\ ~ In t (held s') /\ owner s' <> Some t /\
  ~ In t (map fst (waiters s')) /\ phase_of s' t = Idle.
Proof. exact lock_cancelled_waiter_never_holds. Qed.
Print Assumptions C09_cancelled_waiter_never_holds.

Theorem C09_handoff_cancel_race : forall fa s t f,
  reach fa s -> phase_of s t = Waiting f -> futs s f = FSet -> mustc s t = true ->
  let s' := fst (step s (Resume t)) in
  snd (step s (Resume t)) = RCancelled /\ ~ In t (held s') /\ owner s' <> Some t /\ Inv s'.
Proof. exact lock_handoff_cancel_race. Qed.
Print Assumptions C09_handoff_cancel_race.

Theorem C09_no_free_with_waiters : forall fa s, reach fa s -> owner s = None -> waiters s = [].
Proof. exact lock_no_free_with_waiters. Qed.
Print Assumptions C09_no_free_with_waiters.

Theorem C09_quiescent : forall fa s,
  reach fa s -> (forall t, phase_of s t = Idle) -> held s = [] -> owner s = None /\ waiters s = [].
Proof. exact lock_quiescent. Qed.
Print Assumptions C09_quiescent.
