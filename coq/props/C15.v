(* C15 — BlockingPortal: every cross-thread call is run once, answered and joined (proof, partial: boundary).
   Model: boundary/Portal.v (loop side of from_thread.BlockingPortal + the join of its TaskGroup; foreign threads
   and the callables are environment ops).  `reach f4 fc s`: s is reachable by SOME op list from `init f4 fc fn`
   for SOME fn; the code under test is `init true true true` (repairs 08c4569 = F4, 2158065 = F11 and 56e7f66 = F39
   present); statements with `f4`/`fc` universally quantified (and no `fn_fixed s = true` hypothesis) hold for the
   pinned variants as well.  F40 is a known finding: see section 7.
   Monitor-only clause (no theorem here, on purpose): "the callable runs in the PORTAL's event-loop thread, whatever
   kind of thread issued the call" (plain thread, AnyIO worker of the portal's loop, AnyIO worker of another loop).
   The model has exactly one loop: `ThreadLand k` IS "the marshalled start_soon runs in the portal's loop".  Which loop
   a hand-over is routed to is decided in the caller's thread (from_thread._token_or_error / run_sync's token), i.e. on
   the other side of the boundary, before any op of this LTS; a caller-kind index with a ghost `ran_on_portal_loop`
   would be true by construction and prove nothing about that routing.  It is part of the oracle contract and is
   validated for every caller kind by the end-to-end monitor harness/c15.py e2e_caller_kinds (seeded change C15_f).
   This file contains only statements closed by `exact` and their Print Assumptions. *)
From AV Require Import Base Portal PortalProofs.

(* ---- the invariant behind everything: holds in every reachable state ---- *)
Theorem C15_reachable_inv : forall f4 fc fn ops, Inv (final step (init f4 fc fn) ops).
Proof. exact reachable_inv. Qed.
Print Assumptions C15_reachable_inv.

(* ---- 1. each landed call runs its callable at most once; exactly once when the context has been left ---- *)
Theorem C15_portal_call_once : forall f4 fc s k, reach f4 fc s ->
  c_execs (calls s k) <= 1 /\
  (c_execs (calls s k) = 1 <-> enteredp (c_phase (calls s k)) = true) /\
  (f4 = true -> host s = HLeft -> landedp (c_phase (calls s k)) = true -> c_execs (calls s k) = 1).
Proof. exact portal_call_once. Qed.
Print Assumptions C15_portal_call_once.

Theorem C15_portal_exec_only_in_first_step : forall f4 fc s o k, reach f4 fc s ->
  c_execs (calls (fst (step s o)) k) <> c_execs (calls s k) ->
  c_phase (calls s k) = PLanded /\ (exists sv f, o = TaskStep k WNormal sv f) /\
  c_execs (calls (fst (step s o)) k) = S (c_execs (calls s k)).
Proof. exact portal_exec_only_in_first_step. Qed.
Print Assumptions C15_portal_exec_only_in_first_step.

(* ---- 2. the per-call future is a single-assignment cell carrying exactly the callable's outcome ---- *)
Theorem C15_portal_future_single_assignment : forall f4 fc s k, reach f4 fc s ->
  let c := calls s k in
  c_assigns c <= 1 /\ c_invalid c = false /\
  (forall v, c_fut c = CResult v -> c_outcome c = Some (ORet v)) /\
  (forall e, c_fut c = CExc e -> c_outcome c = Some (ORaise e)) /\
  (c_fut c = CCancelled -> c_fcancel c = true \/ c_outcome c = Some OCancelledOut) /\
  (forall v, c_outcome c = Some (ORet v) -> c_fcancel c = false -> c_fut c = CResult v) /\
  (forall e, c_outcome c = Some (ORaise e) -> c_fcancel c = false -> c_fut c = CExc e) /\
  (c_outcome c = Some OCancelledOut -> c_fut c = CCancelled) /\
  (forall v, c_status c = CResult v <-> c_started c = Some v) /\
  (donep (c_phase c) = true -> c_fut c <> CPending /\ (c_kind c = KStart -> c_status c <> CPending)).
Proof. exact portal_future_single_assignment. Qed.
Print Assumptions C15_portal_future_single_assignment.

Theorem C15_portal_outcome_recorded : forall s k w sv f s', step s (TaskStep k w sv f) = (s', RStepped) ->
  let c' := calls s' k in
  match f with
  | FBlock => c_phase c' = PRunning
  | FReturn v => c_phase c' = PFinished /\ c_outcome c' = Some (ORet v)
  | FRaise e => c_phase c' = PFinished /\ c_outcome c' = Some (ORaise e)
  | FReraise => c_phase c' = PFinished /\ c_outcome c' = Some OCancelledOut /\ w = WInterrupt
  | FCancelOwn => c_phase c' = PFinished /\ c_outcome c' = Some OCancelledOut
  end /\
  (forall v, sv = Some v -> c_started c' = Some v /\ c_status c' = CResult v /\ c_kind c' = KStart).
Proof. exact portal_outcome_recorded. Qed.
Print Assumptions C15_portal_outcome_recorded.

Theorem C15_portal_cell_stable : forall f4 fc s o k, reach f4 fc s ->
  (c_fut (calls s k) <> CPending -> c_fut (calls (fst (step s o)) k) = c_fut (calls s k)) /\
  (c_status (calls s k) <> CPending -> c_status (calls (fst (step s o)) k) = c_status (calls s k)).
Proof. exact portal_cell_stable. Qed.
Print Assumptions C15_portal_cell_stable.

(* ---- 3. cancelling a returned future cancels precisely that task ---- *)
Theorem C15_portal_future_cancel_cancels_that_task_only : forall f4 fc s, reach f4 fc s ->
  (forall k o, o = FutureCancel k \/ o = CancelLand k \/ o = FutureCancelLoop k ->
     (forall j, j <> k -> calls (fst (step s o)) j = calls s j) /\
     group_cancelled (fst (step s o)) = group_cancelled s) /\
  (forall k, c_scope_cancelled (calls s k) = true -> c_fut (calls s k) = CCancelled) /\
  (forall k sv f, snd (step s (TaskStep k WInterrupt sv f)) <> RRejected ->
     c_phase (calls s k) = PRunning /\ (c_scope_cancelled (calls s k) = true \/ group_cancelled s = true)).
Proof. exact portal_future_cancel_cancels_that_task_only. Qed.
Print Assumptions C15_portal_future_cancel_cancels_that_task_only.

Theorem C15_portal_future_cancel_frame : forall s k o, o = FutureCancel k \/ o = CancelLand k \/ o = FutureCancelLoop k ->
  let s' := fst (step s o) in
  (forall j, j <> k -> calls s' j = calls s j) /\ group_cancelled s' = group_cancelled s /\
  members s' = members s /\ host s' = host s /\ woken s' = woken s /\ running s' = running s.
Proof. exact portal_future_cancel_frame. Qed.
Print Assumptions C15_portal_future_cancel_frame.

Theorem C15_portal_future_cancel_reaches_task : forall f4 s k, reach f4 true s ->
  c_phase (calls s k) = PRunning -> c_kind (calls s k) <> KSync -> c_fut (calls s k) = CPending ->
  handed_out (calls s k) = true ->
  let s1 := fst (step s (FutureCancel k)) in
  snd (step s (FutureCancel k)) = RCancelTrue /\ c_fut (calls s1 k) = CCancelled /\
  c_inflight (calls s1 k) = true /\ c_phase (calls s1 k) = PRunning.
Proof. exact portal_future_cancel_reaches_task. Qed.
Print Assumptions C15_portal_future_cancel_reaches_task.

Theorem C15_portal_cancel_inflight_lands : forall f4 fc s k, reach f4 fc s -> c_inflight (calls s k) = true ->
  (forall o, o <> CancelLand k -> c_inflight (calls (fst (step s o)) k) = true) /\
  (loop_ended s = false ->
   let s2 := fst (step s (CancelLand k)) in
   c_scope_cancelled (calls s2 k) = true /\ c_inflight (calls s2 k) = false /\ c_phase (calls s2 k) = c_phase (calls s k) /\
   (c_phase (calls s2 k) = PRunning -> snd (step s2 (TaskStep k WInterrupt None FReraise)) = RStepped)) /\
  (loop_ended s = true -> snd (step s (CancelLand k)) = RLost /\ In k (lost_cancels (fst (step s (CancelLand k))))).
Proof. exact portal_cancel_inflight_lands. Qed.
Print Assumptions C15_portal_cancel_inflight_lands.

(* pinned variant, tree before 2158065 (finding F11): the cancellation of the future is ignored by a call whose
   wrapper started after stop() *)
Theorem C15_portal_future_cancel_after_stop_ignored_pinned :
  let s := final step (init true false true)
             [ThreadIssue 0 KCoro; ThreadLand 0; Stop false; TaskStep 0 WNormal None FBlock; FutureCancel 0] in
  c_phase (calls s 0) = PRunning /\ c_fut (calls s 0) = CCancelled /\ c_fcancel (calls s 0) = true /\
  c_inflight (calls s 0) = false /\ c_scope_cancelled (calls s 0) = false /\
  snd (step s (TaskStep 0 WInterrupt None FReraise)) = RRejected /\ snd (step s (CancelLand 0)) = RRejected.
Proof. exact portal_future_cancel_after_stop_ignored_pinned. Qed.
Print Assumptions C15_portal_future_cancel_after_stop_ignored_pinned.

(* ---- 3b. a call whose OWN outcome is a cancellation not requested through the portal affects only itself ---- *)
Theorem C15_portal_task_step_frame : forall s k w sv f,
  let s' := fst (step s (TaskStep k w sv f)) in
  (forall j, j <> k -> calls s' j = calls s j) /\ group_cancelled s' = group_cancelled s /\
  running s' = running s /\ stop_event s' = stop_event s /\ members s' = members s /\ host s' = host s /\
  woken s' = woken s.
Proof. exact portal_task_step_frame. Qed.
Print Assumptions C15_portal_task_step_frame.

Theorem C15_portal_own_cancellation_is_local : forall f4 fc s k w sv s', reach f4 fc s ->
  step s (TaskStep k w sv FCancelOwn) = (s', RStepped) ->
  (forall j, j <> k -> calls s' j = calls s j) /\ group_cancelled s' = group_cancelled s /\
  running s' = running s /\ members s' = members s /\ host s' = host s /\
  c_phase (calls s' k) = PFinished /\ c_fut (calls s' k) = CCancelled /\
  c_outcome (calls s' k) = Some OCancelledOut /\ c_base_fail (calls s' k) = false /\ c_invalid (calls s' k) = false /\
  (let s'' := fst (step s' (TaskReap k)) in
   snd (step s' (TaskReap k)) = RNone /\ group_cancelled s'' = group_cancelled s /\ running s'' = running s /\
   (forall j, j <> k -> calls s'' j = calls s j) /\ c_phase (calls s'' k) = PReaped /\
   c_fut (calls s'' k) = CCancelled).
Proof. exact portal_own_cancellation_is_local. Qed.
Print Assumptions C15_portal_own_cancellation_is_local.

(* ---- 4. after stop new calls are refused with RuntimeError ---- *)
Theorem C15_portal_stop_clears_running : forall s cr,
  running (fst (step s (Stop cr))) = false /\ stop_event (fst (step s (Stop cr))) = true /\
  group_cancelled (fst (step s (Stop cr))) = orb (group_cancelled s) cr /\
  calls (fst (step s (Stop cr))) = calls s /\ members (fst (step s (Stop cr))) = members s.
Proof. exact portal_stop_clears_running. Qed.
Print Assumptions C15_portal_stop_clears_running.

Theorem C15_portal_host_exit_stops : forall s exc, host s = HBody ->
  snd (step s (HostExit exc)) = RHostBlocked /\ running (fst (step s (HostExit exc))) = false /\
  host (fst (step s (HostExit exc))) <> HBody /\ host (fst (step s (HostExit exc))) <> HLeft.
Proof. exact portal_host_exit_stops. Qed.
Print Assumptions C15_portal_host_exit_stops.

Theorem C15_portal_running_false_forever : forall s ops, running s = false -> running (final step s ops) = false.
Proof. exact portal_running_false_forever. Qed.
Print Assumptions C15_portal_running_false_forever.

Theorem C15_portal_refuses_after_stop : forall s k kd, running s = false -> c_phase (calls s k) = PNone ->
  let s' := fst (step s (ThreadIssue k kd)) in
  snd (step s (ThreadIssue k kd)) = RRefused /\ c_phase (calls s' k) = PRefused /\ c_execs (calls s' k) = 0 /\
  members s' = members s /\ host s' = host s /\ (forall j, j <> k -> calls s' j = calls s j).
Proof. exact portal_refuses_after_stop. Qed.
Print Assumptions C15_portal_refuses_after_stop.

Theorem C15_portal_accepts_while_running : forall s k kd, running s = true -> c_phase (calls s k) = PNone ->
  snd (step s (ThreadIssue k kd)) = RIssued /\ c_phase (calls (fst (step s (ThreadIssue k kd))) k) = PIssued.
Proof. exact portal_accepts_while_running. Qed.
Print Assumptions C15_portal_accepts_while_running.

Theorem C15_portal_land_refused_after_exit : forall s k, host s = HLeft -> loop_ended s = false ->
  c_phase (calls s k) = PIssued ->
  let s' := fst (step s (ThreadLand k)) in
  snd (step s (ThreadLand k)) = RLandRefused /\ c_phase (calls s' k) = PLandRefused /\ members s' = members s /\
  c_execs (calls s' k) = c_execs (calls s k) /\ c_fut (calls s' k) = c_fut (calls s k).
Proof. exact portal_land_refused_after_exit. Qed.
Print Assumptions C15_portal_land_refused_after_exit.

Theorem C15_portal_land_accepted_while_active : forall s k, host s <> HLeft -> c_phase (calls s k) = PIssued ->
  let s' := fst (step s (ThreadLand k)) in
  snd (step s (ThreadLand k)) = RLanded /\ c_phase (calls s' k) = PLanded /\ members s' = members s ++ [k].
Proof. exact portal_land_accepted_while_active. Qed.
Print Assumptions C15_portal_land_accepted_while_active.

Theorem C15_portal_refusal_is_final : forall f4 fc s o k, reach f4 fc s ->
  c_phase (calls s k) = PRefused \/ c_phase (calls s k) = PLandRefused \/ c_phase (calls s k) = PLost ->
  calls (fst (step s o)) k = calls s k /\ c_execs (calls s k) = 0 /\ ~ In k (members s) /\
  c_fut (calls s k) = CPending.
Proof. exact portal_refusal_is_final. Qed.
Print Assumptions C15_portal_refusal_is_final.

Theorem C15_portal_left_forever : forall s ops, host s = HLeft -> host (final step s ops) = HLeft.
Proof. exact portal_left_forever. Qed.
Print Assumptions C15_portal_left_forever.

(* ---- 5. leaving the portal's context joins every task started through it ---- *)
Theorem C15_portal_exit_joins : forall fc s, reach true fc s -> host s = HLeft ->
  members s = [] /\
  forall k, landedp (c_phase (calls s k)) = true ->
    c_phase (calls s k) = PReaped /\ c_execs (calls s k) = 1 /\ c_fut (calls s k) <> CPending /\
    (c_kind (calls s k) = KStart -> c_status (calls s k) <> CPending).
Proof. exact portal_exit_joins. Qed.
Print Assumptions C15_portal_exit_joins.

Theorem C15_portal_no_step_after_exit : forall fc s k w sv f, reach true fc s -> host s = HLeft ->
  snd (step s (TaskStep k w sv f)) = RRejected.
Proof. exact portal_no_step_after_exit. Qed.
Print Assumptions C15_portal_no_step_after_exit.

Theorem C15_portal_left_only_when_empty : forall fc s, reach true fc s -> host s <> HLeft ->
  host (fst (step s ResumeHost)) = HLeft -> members s = [].
Proof. exact portal_left_only_when_empty. Qed.
Print Assumptions C15_portal_left_only_when_empty.

Theorem C15_portal_exit_wakes : forall f4 fc s, reach f4 fc s -> host s = HExitWaiting -> members s = [] ->
  woken s = true /\ snd (step s ResumeHost) = RHostLeft /\ host (fst (step s ResumeHost)) = HLeft.
Proof. exact portal_exit_wakes. Qed.
Print Assumptions C15_portal_exit_wakes.

(* pinned variant, tree before 08c4569 (finding F4): a call landing during the empty-group exit checkpoint is
   orphaned -- the context is left while the call has not even started *)
Theorem C15_portal_exit_joins_refuted_pinned :
  let s := final step (init false true true) [ThreadIssue 0 KCoro; HostExit false; ThreadLand 0; ResumeHost] in
  host s = HLeft /\ c_phase (calls s 0) = PLanded /\ c_execs (calls s 0) = 0 /\ c_fut (calls s 0) = CPending /\
  members s = [0] /\ snd (step s (TaskStep 0 WNormal None FBlock)) = RStepped.
Proof. exact portal_exit_joins_refuted_pinned. Qed.
Print Assumptions C15_portal_exit_joins_refuted_pinned.

(* ---- 6. F39 (repair 56e7f66, switch fn_fixed): a cancelled portal future is reported to wait()/as_completed() ---- *)
Theorem C15_portal_cancelled_future_notified : forall f4 fc s k, reach f4 fc s -> fn_fixed s = true ->
  donep (c_phase (calls s k)) = true -> c_fut (calls s k) = CCancelled ->
  c_notified (calls s k) = true /\ fut_state (calls s k) = SCancelledNotified /\ reported_done (calls s k) = true.
Proof. exact portal_cancelled_future_notified. Qed.
Print Assumptions C15_portal_cancelled_future_notified.

Theorem C15_portal_done_future_reported : forall f4 fc s k, reach f4 fc s -> fn_fixed s = true ->
  donep (c_phase (calls s k)) = true -> reported_done (calls s k) = true.
Proof. exact portal_done_future_reported. Qed.
Print Assumptions C15_portal_done_future_reported.

Theorem C15_portal_notification_sound : forall f4 fc s k, reach f4 fc s ->
  (c_notified (calls s k) = true -> c_fut (calls s k) = CCancelled /\ donep (c_phase (calls s k)) = true) /\
  c_invalid (calls s k) = false /\ fut_state (calls s k) <> SRunning.
Proof. exact portal_notification_sound. Qed.
Print Assumptions C15_portal_notification_sound.

(* pinned variant, tree before 56e7f66: cancelled by the caller => reaped but never notified (coroutine call
   interrupted through its own scope; sync callable cancelled before it ran) *)
Theorem C15_portal_cancelled_future_notified_refuted_pinned :
  (let s := final step (init true true false)
              [ThreadIssue 0 KCoro; ThreadLand 0; TaskStep 0 WNormal None FBlock; FutureCancel 0; CancelLand 0;
               TaskStep 0 WInterrupt None FReraise; TaskReap 0] in
   c_phase (calls s 0) = PReaped /\ c_fut (calls s 0) = CCancelled /\ c_fcancel (calls s 0) = true /\
   c_notified (calls s 0) = false /\ reported_done (calls s 0) = false) /\
  (let s := final step (init true true false)
              [ThreadIssue 0 KSync; ThreadLand 0; FutureCancel 0; TaskStep 0 WNormal None (FReturn 9%Z); TaskReap 0] in
   c_phase (calls s 0) = PReaped /\ c_fut (calls s 0) = CCancelled /\ c_execs (calls s 0) = 1 /\
   c_notified (calls s 0) = false /\ reported_done (calls s 0) = false).
Proof. exact portal_cancelled_future_notified_refuted_pinned. Qed.
Print Assumptions C15_portal_cancelled_future_notified_refuted_pinned.

(* ---- 7. F40 (known finding, predicate landed_after_loop_end): the strong clause, its proof under the
        hypothesis that no hand-over comes after the loop's last iteration, and the refutation without it ---- *)
Definition C15_no_call_left_hanging (ops : list op) : Prop :=
  let s := final step (init true true true) ops in
  lost_cancels s = [] /\
  forall k,
    match c_phase (calls s k) with
    | PLost => False
    | PLanded | PRunning | PFinished | PReaped =>
        host s = HLeft ->
        c_phase (calls s k) = PReaped /\ c_execs (calls s k) = 1 /\ c_fut (calls s k) <> CPending /\
        reported_done (calls s k) = true
    | _ => True
    end.

(* the hypothesis is a predicate on the op list alone (Portal.no_land_after: no ThreadLand k / CancelLand k occurs after
   a LoopEnd in ops); it implies the state-level predicate of the known finding to be false *)
Theorem C15_portal_no_land_after_loop_end_sound : forall ops,
  no_land_after_loop_end ops = true -> landed_after_loop_end ops = false.
Proof. exact portal_no_land_after_loop_end_sound. Qed.
Print Assumptions C15_portal_no_land_after_loop_end_sound.

Theorem C15_portal_no_call_left_hanging : forall ops,
  no_land_after false ops = true -> C15_no_call_left_hanging ops.
Proof. exact portal_no_call_left_hanging. Qed.
Print Assumptions C15_portal_no_call_left_hanging.

Theorem C15_portal_landed_after_loop_end_refuted :
  exists ops, no_land_after_loop_end ops = false /\ landed_after_loop_end ops = true /\ ~ C15_no_call_left_hanging ops /\
    let s := final step (init true true true) ops in
    c_phase (calls s 0) = PLost /\ c_execs (calls s 0) = 0 /\ c_fut (calls s 0) = CPending /\
    forall ops', calls (final step s ops') 0 = calls s 0.
Proof. exact portal_landed_after_loop_end_refuted. Qed.
Print Assumptions C15_portal_landed_after_loop_end_refuted.

(* ---- 8. F47 (repair dbf6f53): the exception delivered does not depend on the exception's truth value.  Exceptions
        are integer codes here (e_falsy = 4 is the distinguished one): C15_portal_future_single_assignment already holds for
        every code; for start_task, a failure before started() reaches start_task's caller as the task's own exception.
        The unwrapping in the caller's thread (Future.result() vs future_outcome()) is outside the model: harness monitors
        "call returned None although the callable raised" / "start_task raised RuntimeError instead of the task's exception" ---- *)
Theorem C15_portal_start_task_failure_propagated : forall f4 fc s k, reach f4 fc s ->
  c_kind (calls s k) = KStart -> donep (c_phase (calls s k)) = true -> c_started (calls s k) = None ->
  c_status (calls s k) = match c_fut (calls s k) with
                         | CExc e => CExc e | CCancelled => CCancelled | _ => CExc e_nostart end /\
  (forall e, c_outcome (calls s k) = Some (ORaise e) -> c_fcancel (calls s k) = false ->
     c_fut (calls s k) = CExc e /\ c_status (calls s k) = CExc e).
Proof. exact portal_start_task_failure_propagated. Qed.
Print Assumptions C15_portal_start_task_failure_propagated.

(* ---- 9. a cancelled future always reaches its task, whichever thread cancelled it (seeded change C15_g) ---- *)
Theorem C15_portal_cancelled_future_reaches_scope : forall f4 s k, reach f4 true s ->
  c_phase (calls s k) = PRunning -> c_kind (calls s k) <> KSync -> c_fut (calls s k) = CCancelled ->
  c_scope_cancelled (calls s k) = true \/ c_inflight (calls s k) = true.
Proof. exact portal_cancelled_future_reaches_scope. Qed.
Print Assumptions C15_portal_cancelled_future_reaches_scope.

Theorem C15_portal_loop_thread_cancel_cancels_scope : forall f4 s k, reach f4 true s ->
  c_phase (calls s k) = PRunning -> c_kind (calls s k) <> KSync -> c_fut (calls s k) = CPending ->
  handed_out (calls s k) = true -> loop_ended s = false ->
  let s1 := fst (step s (FutureCancelLoop k)) in
  snd (step s (FutureCancelLoop k)) = RCancelTrue /\ c_fut (calls s1 k) = CCancelled /\
  c_scope_cancelled (calls s1 k) = true /\ c_inflight (calls s1 k) = c_inflight (calls s k) /\
  c_phase (calls s1 k) = PRunning /\
  snd (step s1 (TaskStep k WInterrupt None FReraise)) = RStepped /\
  (forall j, j <> k -> calls s1 j = calls s j) /\ group_cancelled s1 = group_cancelled s.
Proof. exact portal_loop_thread_cancel_cancels_scope. Qed.
Print Assumptions C15_portal_loop_thread_cancel_cancels_scope.
