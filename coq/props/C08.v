(* C08 — Checkpoint discipline.  Statements closed by `exact` + Print Assumptions only.
   (1) semantics of the three checkpoint functions on the S machine (every reachable or unreachable state);
   (2) the fast-path shape table: cancel-check -> effect -> yield, or checkpoint -> effect;
   (3) the real primitive models take exactly those first segments;
   (4) itertools traversals: props/C08_itertools.v (same cone, imported here). *)
From AV Require Import Base Machine CheckpointFacts CkifPinned FastPath FastPathProofs FastPathModels.
From AV Require TreeStep.
From AV Require C08_itertools.
From AV Require Lock Sem Limiter EventCond MemStream C10Defs.

Theorem C08_ckif_suspends_iff_effectively_cancelled : forall s t,
  idle s t = true ->
  snd (step s (ACkIf t)) =
    if eff_cancelled_from (nscope s) s (k_cur (tasks s t)) then RBlocked else RRet 0.
Proof. exact ckif_suspends_iff_effectively_cancelled. Qed.
Print Assumptions C08_ckif_suspends_iff_effectively_cancelled.

Theorem C08_ckif_spin_resume : forall s t fo,
  k_ctl (tasks s t) = CYield YCkIf ->
  match snd (incoming s t fo) with
  | None => snd (resume s t fo) =
            if ckif_spins (nscope s) s (k_cur (tasks s t)) then RBlocked else RRet 0
  | Some e => snd (resume s t fo) = RExc e
  end.
Proof. exact ckif_spin_resume. Qed.
Print Assumptions C08_ckif_spin_resume.

(* F46: the "suspends iff" statement holds at EVERY re-check of the spin, not only at entry.  When the loop runs the step
   callback of a task that is spinning in checkpoint_if_cancelled and carries no cancellation request, the task yields
   again iff a cancelled scope is (still) visible from its current scope, and returns normally otherwise.  Any state. *)
Theorem C08_ckif_respin_iff_effectively_cancelled : forall s t,
  In (HStep t) (ready s) -> k_ctl (tasks s t) = CYield YCkIf -> k_must (tasks s t) = false ->
  snd (step s (ARun (HStep t))) =
    if eff_cancelled_from (nscope s) s (k_cur (tasks s t)) then RBlocked else RRet 0.
Proof. exact ckif_respin_iff_effectively_cancelled. Qed.
Print Assumptions C08_ckif_respin_iff_effectively_cancelled.

(* Refuted for the loop as it was before F46 (step_pinned = today's step except that a spinning task without a request
   yields again unconditionally: the loop kept the scope it had found at entry).  f46_ops: task 1 sleeps in scope 2
   inside scope 1 and its sleep is over; task 2 cancels scope 1 (the delivery skips task 1, which is about to resume);
   task 1 resumes and calls checkpoint_if_cancelled, which suspends; task 2 sets shield = True on scope 2; the delivery
   callback of scope 1 runs, reaches nobody and is not re-scheduled.  In the state f46_state after that: task 1 is
   alone in the ready queue, spinning, no request recorded; no cancelled scope is visible from its scope 2; scope 1 has
   no delivery callback, there is no timer.  Today's step returns 0 to the task.  The pinned step suspends it again with
   the queue again [HStep 1]. *)
Theorem C08_ckif_respin_refuted_pinned :
  TreeStep.ops_ok init f46_ops = true /\
  nth 11 (snd (run_ops step init f46_ops)) RNone = RBlocked /\
  spinning f46_state 1 /\ k_cur (tasks f46_state 1) = Some 2 /\
  s_cancelled (scopes f46_state 1) = true /\ s_shield (scopes f46_state 2) = true /\
  eff_cancelled f46_state 2 = false /\ s_chandle (scopes f46_state 1) = false /\ timers f46_state = [] /\
  snd (step f46_state (ARun (HStep 1))) = RRet 0 /\
  snd (step_pinned f46_state (ARun (HStep 1))) = RBlocked /\
  ready (fst (step_pinned f46_state (ARun (HStep 1)))) = [HStep 1].
Proof. exact ckif_spin_without_delivery_witness. Qed.
Print Assumptions C08_ckif_respin_refuted_pinned.

Theorem C08_checkpoint_always_suspends : forall s t, idle s t = true -> snd (step s (AYield t)) = RBlocked.
Proof. exact yield_always_suspends. Qed.
Print Assumptions C08_checkpoint_always_suspends.

Theorem C08_shielded_checkpoint_always_suspends : forall s t,
  idle s t = true -> snd (step s (AShieldCk t)) = RBlocked.
Proof. exact shieldck_always_suspends. Qed.
Print Assumptions C08_shielded_checkpoint_always_suspends.

Theorem C08_checkpoint_resume : forall s t fo,
  k_ctl (tasks s t) = CYield YCheckpoint -> snd (resume s t fo) = res_of_inc (snd (incoming s t fo)).
Proof. exact yield_resume. Qed.
Print Assumptions C08_checkpoint_resume.

Theorem C08_shape_cancelled_noeffect : forall l,
  starts_with_check l = true ->
  raised (run_shape true l out0) = true /\ effects (run_shape true l out0) = 0.
Proof. exact shape_cancelled_noeffect. Qed.
Print Assumptions C08_shape_cancelled_noeffect.

Theorem C08_shape_not_cancelled_yields : forall l,
  has_yield l = true ->
  raised (run_shape false l out0) = false /\ effects (run_shape false l out0) = count_effects l /\
  1 <= yields (run_shape false l out0).
Proof. exact shape_not_cancelled_yields. Qed.
Print Assumptions C08_shape_not_cancelled_yields.

Theorem C08_fastpath_table_checkpoints : forall row, In row checked_rows ->
  starts_with_check (row_shape row) = true /\ has_yield (row_shape row) = true /\
  (let o := run_shape true (row_shape row) out0 in raised o = true /\ effects o = 0) /\
  (let o := run_shape false (row_shape row) out0 in
   raised o = false /\ effects o = count_effects (row_shape row) /\ 1 <= yields o).
Proof. exact fastpath_table_checkpoints. Qed.
Print Assumptions C08_fastpath_table_checkpoints.

Theorem C08_cond_wait_cancelled_keeps_lock :
  let o := run_shape true (row_shape 9) out0 in raised o = true /\ effects o = 0.
Proof. exact cond_wait_cancelled_keeps_lock. Qed.
Print Assumptions C08_cond_wait_cancelled_keeps_lock.

Theorem C08_lock_uncontended_acquire_yields : forall s t,
  Lock.phase_of s t = Lock.Idle -> Lock.owner s = None -> Lock.waiters s = [] -> Lock.fast s = false ->
  snd (Lock.step s (Lock.AcqBegin t)) = Lock.RBlocked /\
  Lock.owner (fst (Lock.step s (Lock.AcqBegin t))) = Some t /\
  Lock.phase_of (fst (Lock.step s (Lock.AcqBegin t))) t = Lock.FastYield.
Proof. exact lock_uncontended_acquire_yields. Qed.
Print Assumptions C08_lock_uncontended_acquire_yields.

Theorem C08_sem_uncontended_acquire_yields : forall s t v,
  Sem.phase_of s t = Sem.Idle -> Sem.value s = S v -> Sem.waiters s = [] -> Sem.fast s = false ->
  snd (Sem.step s (Sem.AcqBegin t)) = Sem.RBlocked /\ Sem.value (fst (Sem.step s (Sem.AcqBegin t))) = v.
Proof. exact sem_uncontended_acquire_yields. Qed.
Print Assumptions C08_sem_uncontended_acquire_yields.

Theorem C08_limiter_free_acquire_yields : forall s t b,
  Limiter.phase_of s t = Limiter.Idle -> C10Defs.mem b (Limiter.borrowers s) = false -> Limiter.busy s = false ->
  snd (Limiter.step s (Limiter.AcqOn t b)) = Limiter.RBlocked /\
  Limiter.borrowers (fst (Limiter.step s (Limiter.AcqOn t b))) = b :: Limiter.borrowers s.
Proof. exact limiter_free_acquire_yields. Qed.
Print Assumptions C08_limiter_free_acquire_yields.

Theorem C08_event_wait_on_set_event_yields : forall s t,
  EventCond.e_is_idle (EventCond.ephase_of s t) = true -> EventCond.eflag s = true ->
  snd (EventCond.estep s (EventCond.EvWait t)) = Lock.RBlocked.
Proof. exact event_wait_on_set_event_yields. Qed.
Print Assumptions C08_event_wait_on_set_event_yields.

Theorem C08_memstream_send_checkpoints_first : forall s t h x,
  snd (MemStream.step s (MemStream.Send t h x)) = MemStream.RBlocked \/
  snd (MemStream.step s (MemStream.Send t h x)) = MemStream.RRejected.
Proof. exact memstream_send_checkpoints_first. Qed.
Print Assumptions C08_memstream_send_checkpoints_first.

Theorem C08_memstream_receive_checkpoints_first : forall s t h,
  snd (MemStream.step s (MemStream.Recv t h)) = MemStream.RBlocked \/
  snd (MemStream.step s (MemStream.Recv t h)) = MemStream.RRejected.
Proof. exact memstream_receive_checkpoints_first. Qed.
Print Assumptions C08_memstream_receive_checkpoints_first.

(* tie T: the table rows regenerated from the source on this run (tools/translate_fastpath.py) *)
From AV Require FastPathGen FastPathGenEq.

Theorem C08_generated_shapes_equal_table : forall r,
  In r FastPathGenEq.exact_rows -> FastPathGen.row_shape_gen r = Some (row_shape r).
Proof. exact FastPathGenEq.generated_shapes_equal_table. Qed.
Print Assumptions C08_generated_shapes_equal_table.

Theorem C08_generated_entry_segments_are_prefixes : forall r, In r FastPathGenEq.prefix_rows ->
  exists g rest, FastPathGen.row_shape_gen r = Some g /\ row_shape r = g ++ rest /\ starts_with_check g = true.
Proof. exact FastPathGenEq.generated_entry_segments_are_prefixes. Qed.
Print Assumptions C08_generated_entry_segments_are_prefixes.

Theorem C08_every_translated_row_is_covered : forall r,
  In r FastPathGen.translated_rows -> In r FastPathGenEq.exact_rows \/ In r FastPathGenEq.prefix_rows.
Proof. exact FastPathGenEq.every_translated_row_is_covered. Qed.
Print Assumptions C08_every_translated_row_is_covered.

(* clause (a) on the REGENERATED code (tie T of C09 / C10): rows 5, 6, 7 of the table are the entry segments that
   tools/translate_lock.py / translate_prims.py regenerate from /repo's source on this run; run by the interpreters
   LockImp.exec / PrimImp.exec with "the caller's scope is effectively cancelled at entry" they end at the
   cancellation check with NOTHING changed (owner / value / borrowers / queues / futures / events, nothing enqueued,
   nobody woken).  Since F53 Lock.acquire checks first on BOTH paths: the Lock theorem is for every state.  With the flag off the same segments are the ones C09_tie_* / C10_tie_* equate with the models.
   The interpreters are position-sensitive: a segment that performs its effect before the check is stuck and none of
   these theorems could be proved for it (LockGenEq / SemGenEq / LimiterGenEq: ex_check_after_effect_is_stuck_cancelled). *)
From AV Require LockImp LockGen LockGenEq PrimImp SemImp SemGen SemGenEq LimiterImp LimiterGen LimiterGenEq.

Theorem C08_tie_lock_cancelled_entry_noeffect : forall (s : Lock.st) (t : tid),
  exists e, LockImp.exec LockGen.acquire_entry t LockImp.env_entry_cancelled (LockImp.core s) =
              (e, LockImp.core s, LockImp.OCancelled) /\
            LockImp.e_enq e = [] /\ LockImp.e_rel e = false.
Proof. exact LockGenEq.cancelled_entry_noeffect. Qed.
Print Assumptions C08_tie_lock_cancelled_entry_noeffect.

Theorem C08_tie_sem_cancelled_entry_noeffect : forall (s : Sem.st) (t : tid),
  exists l, PrimImp.exec SemGen.sem_acquire_entry t (PrimImp.loc_entry_cancelled None) PrimImp.log0 (SemImp.core s) =
            (l, PrimImp.log0, SemImp.core s, PrimImp.OCancelled).
Proof. exact SemGenEq.cancelled_entry_noeffect. Qed.
Print Assumptions C08_tie_sem_cancelled_entry_noeffect.

(* since the F53 fix (c2fb7fb) the check is the FIRST statement of Semaphore.acquire(): the statement above holds
   in EVERY state (permit free or not, queue empty or not; the former `..._contended_as_live` is gone - the
   contended path has the check too), and with a live check the regenerated entry segment is its remaining body *)
Theorem C08_tie_sem_cancelled_entry_check_first :
  exists body, SemGen.sem_acquire_entry = PrimImp.SSeq PrimImp.SCkIf body /\
    forall t l g k, PrimImp.l_fresh l = true -> PrimImp.l_canc l = false ->
      PrimImp.exec SemGen.sem_acquire_entry t l g k = PrimImp.exec body t l g k.
Proof. exact SemGenEq.tie_acquire_check_first. Qed.
Print Assumptions C08_tie_sem_cancelled_entry_check_first.

(* CapacityLimiter.acquire() / acquire_on_behalf_of(b): every state and borrower - a token free or not, b already
   holding or already waiting: the cancellation check is the first statement, before both RuntimeError tests *)
Theorem C08_tie_lim_cancelled_entry_noeffect : forall (s : Limiter.st) (t : tid) (b : Limiter.bid),
  exists l, PrimImp.exec LimiterGen.lim_acquire_on_behalf_of_entry t (PrimImp.loc_entry_cancelled (Some b))
              PrimImp.log0 (LimiterImp.core s) =
            (l, PrimImp.log0, LimiterImp.core s, PrimImp.OCancelled).
Proof. exact LimiterGenEq.cancelled_entry_noeffect. Qed.
Print Assumptions C08_tie_lim_cancelled_entry_noeffect.

(* row 9: Condition.wait() called from an effectively cancelled scope raises before the holder test, with the lock
   still held and nothing enqueued (segment regenerated by tools/translate_cond.py, tie T of C11) *)
From AV Require EventCond CondImp CondGen CondGenEq.

Theorem C08_tie_cond_wait_cancelled_entry_noeffect : forall (s : EventCond.cst) (c : EventCond.cid) (t : tid),
  exists l, CondImp.exec CondGen.cond_wait_entry t CondImp.loc_entry_cancelled (CondImp.vis s c) =
            (l, CondImp.vis s c, CondImp.OCancelled).
Proof. exact CondGenEq.cond_wait_cancelled_entry_noeffect. Qed.
Print Assumptions C08_tie_cond_wait_cancelled_entry_noeffect.

(* rows 10-13: memory stream send() / receive() called from an effectively cancelled scope raise the cancellation at
   their first statement - a FULL checkpoint - with nothing changed (segments regenerated by tools/translate_mem.py,
   tie T of C12/C13; MemGenEq.ex_effect_before_checkpoint_is_visible shows that an effect in front of it would show) *)
From AV Require MemImp MemGen MemGenEq.

Theorem C08_tie_mem_cancelled_entry_noeffect : forall (s : MemStream.st) (h : MemStream.hid) (t : tid) (x : MemStream.item),
  (exists l, MemImp.exec MemGen.snd_send_entry t (MemImp.loc_cancelled (Some x)) (MemImp.vis s h) =
             (l, MemImp.vis s h, MemImp.OCancelled)) /\
  (exists l, MemImp.exec MemGen.rcv_receive_entry t (MemImp.loc_cancelled None) (MemImp.vis s h) =
             (l, MemImp.vis s h, MemImp.OCancelled)).
Proof. exact MemGenEq.cancelled_entry_noeffect. Qed.
Print Assumptions C08_tie_mem_cancelled_entry_noeffect.
