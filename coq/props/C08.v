(* C08 — Checkpoint discipline.  Statements closed by `exact` + Print Assumptions only.
   (1) semantics of the three checkpoint functions on the S machine (every reachable or unreachable state);
   (2) the fast-path shape table: cancel-check -> effect -> yield, or checkpoint -> effect;
   (3) the real primitive models take exactly those first segments;
   (4) itertools traversals: props/C08_itertools.v (same cone, imported here). *)
From AV Require Import Base Machine CheckpointFacts FastPath FastPathProofs FastPathModels.
From AV Require C08_itertools.
From AV Require Lock Sem Limiter EventCond MemStream C10Defs.

Theorem C08_ckif_suspends_iff_effectively_cancelled : forall s t,
  idle s t = true ->
  snd (step s (ACkIf t)) =
    if eff_cancelled_from (nscope s) s (k_cur (tasks s t)) then RBlocked else RRet 0.
Proof. exact ckif_suspends_iff_effectively_cancelled. Qed.
Print Assumptions C08_ckif_suspends_iff_effectively_cancelled.

Theorem C08_ckif_spin_resume : forall s t fo,
  k_ctl (tasks s t) = CYield YCkIf ->
  match snd (incoming s t fo) with
  | None => snd (resume s t fo) = RBlocked
  | Some e => snd (resume s t fo) = RExc e
  end.
Proof. exact ckif_spin_resume. Qed.
Print Assumptions C08_ckif_spin_resume.

Theorem C08_checkpoint_always_suspends : forall s t, idle s t = true -> snd (step s (AYield t)) = RBlocked.
Proof. exact yield_always_suspends. Qed.
Print Assumptions C08_checkpoint_always_suspends.

Theorem C08_shielded_checkpoint_always_suspends : forall s t,
  idle s t = true -> snd (step s (AShieldCk t)) = RBlocked.
Proof. exact shieldck_always_suspends. Qed.
Print Assumptions C08_shielded_checkpoint_always_suspends.

Theorem C08_checkpoint_resume : forall s t fo,
  k_ctl (tasks s t) = CYield YCheckpoint -> snd (resume s t fo) = res_of_inc (snd (incoming s t fo)).
Proof. exact yield_resume. Qed.
Print Assumptions C08_checkpoint_resume.

Theorem C08_shape_cancelled_noeffect : forall l,
  starts_with_check l = true ->
  raised (run_shape true l out0) = true /\ effects (run_shape true l out0) = 0.
Proof. exact shape_cancelled_noeffect. Qed.
Print Assumptions C08_shape_cancelled_noeffect.

Theorem C08_shape_not_cancelled_yields : forall l,
  has_yield l = true ->
  raised (run_shape false l out0) = false /\ effects (run_shape false l out0) = count_effects l /\
  1 <= yields (run_shape false l out0).
Proof. exact shape_not_cancelled_yields. Qed.
Print Assumptions C08_shape_not_cancelled_yields.

Theorem C08_fastpath_table_checkpoints : forall row, In row checked_rows ->
  starts_with_check (row_shape row) = true /\ has_yield (row_shape row) = true /\
  (let o := run_shape true (row_shape row) out0 in raised o = true /\ effects o = 0) /\
  (let o := run_shape false (row_shape row) out0 in
   raised o = false /\ effects o = count_effects (row_shape row) /\ 1 <= yields o).
Proof. exact fastpath_table_checkpoints. Qed.
Print Assumptions C08_fastpath_table_checkpoints.

Theorem C08_cond_wait_cancelled_keeps_lock :
  let o := run_shape true (row_shape 9) out0 in raised o = true /\ effects o = 0.
Proof. exact cond_wait_cancelled_keeps_lock. Qed.
Print Assumptions C08_cond_wait_cancelled_keeps_lock.

Theorem C08_lock_uncontended_acquire_yields : forall s t,
  Lock.phase_of s t = Lock.Idle -> Lock.owner s = None -> Lock.waiters s = [] -> Lock.fast s = false ->
  snd (Lock.step s (Lock.AcqBegin t)) = Lock.RBlocked /\
  Lock.owner (fst (Lock.step s (Lock.AcqBegin t))) = Some t /\
  Lock.phase_of (fst (Lock.step s (Lock.AcqBegin t))) t = Lock.FastYield.
Proof. exact lock_uncontended_acquire_yields. Qed.
Print Assumptions C08_lock_uncontended_acquire_yields.

Theorem C08_sem_uncontended_acquire_yields : forall s t v,
  Sem.phase_of s t = Sem.Idle -> Sem.value s = S v -> Sem.waiters s = [] -> Sem.fast s = false ->
  snd (Sem.step s (Sem.AcqBegin t)) = Sem.RBlocked /\ Sem.value (fst (Sem.step s (Sem.AcqBegin t))) = v.
Proof. exact sem_uncontended_acquire_yields. Qed.
Print Assumptions C08_sem_uncontended_acquire_yields.

Theorem C08_limiter_free_acquire_yields : forall s t b,
  Limiter.phase_of s t = Limiter.Idle -> C10Defs.mem b (Limiter.borrowers s) = false -> Limiter.busy s = false ->
  snd (Limiter.step s (Limiter.AcqOn t b)) = Limiter.RBlocked /\
  Limiter.borrowers (fst (Limiter.step s (Limiter.AcqOn t b))) = b :: Limiter.borrowers s.
Proof. exact limiter_free_acquire_yields. Qed.
Print Assumptions C08_limiter_free_acquire_yields.

Theorem C08_event_wait_on_set_event_yields : forall s t,
  EventCond.e_is_idle (EventCond.ephase_of s t) = true -> EventCond.eflag s = true ->
  snd (EventCond.estep s (EventCond.EvWait t)) = Lock.RBlocked.
Proof. exact event_wait_on_set_event_yields. Qed.
Print Assumptions C08_event_wait_on_set_event_yields.

Theorem C08_memstream_send_checkpoints_first : forall s t h x,
  snd (MemStream.step s (MemStream.Send t h x)) = MemStream.RBlocked \/
  snd (MemStream.step s (MemStream.Send t h x)) = MemStream.RRejected.
Proof. exact memstream_send_checkpoints_first. Qed.
Print Assumptions C08_memstream_send_checkpoints_first.

Theorem C08_memstream_receive_checkpoints_first : forall s t h,
  snd (MemStream.step s (MemStream.Recv t h)) = MemStream.RBlocked \/
  snd (MemStream.step s (MemStream.Recv t h)) = MemStream.RRejected.
Proof. exact memstream_receive_checkpoints_first. Qed.
Print Assumptions C08_memstream_receive_checkpoints_first.

(* tie T: the table rows regenerated from the source on this run (tools/translate_fastpath.py) *)
From AV Require FastPathGen FastPathGenEq.

Theorem C08_generated_shapes_equal_table : forall r,
  In r FastPathGenEq.exact_rows -> FastPathGen.row_shape_gen r = Some (row_shape r).
Proof. exact FastPathGenEq.generated_shapes_equal_table. Qed.
Print Assumptions C08_generated_shapes_equal_table.

Theorem C08_generated_entry_segments_are_prefixes : forall r, In r FastPathGenEq.prefix_rows ->
  exists g rest, FastPathGen.row_shape_gen r = Some g /\ row_shape r = g ++ rest /\ starts_with_check g = true.
Proof. exact FastPathGenEq.generated_entry_segments_are_prefixes. Qed.
Print Assumptions C08_generated_entry_segments_are_prefixes.

Theorem C08_every_translated_row_is_covered : forall r,
  In r FastPathGen.translated_rows -> In r FastPathGenEq.exact_rows \/ In r FastPathGenEq.prefix_rows.
Proof. exact FastPathGenEq.every_translated_row_is_covered. Qed.
Print Assumptions C08_every_translated_row_is_covered.
