(* C20 — async lru_cache: right value, single flight, bounded retention.
   This file contains only statements closed by `exact` (one is transported by a rewrite) and their Print Assumptions.
   `run cf ops` is the state of the Lru machine after the op list `ops` under configuration cf = (maxsize, ttl,
   always_checkpoint, typed, number of callers); `dict s` = entries of the running loop, `dicts s g` = the dict of
   generation g (a dict discarded by cache_clear() lives on for the calls that hold it).

   Changed with /repo c2fb7fb (fix of F53): Lock.acquire() awaits checkpoint_if_cancelled() before it looks at the lock,
   so a call issued inside an already cancelled scope (op CallX) suspends at the lock entry and is then cancelled
   WHATEVER the state of the lock; it no longer becomes a queued waiter of a busy lock (before: queued, then cancelled
   by the scope's delivery).  A caller in an already cancelled scope therefore never counts as a waiter for
   evicts_waited (the F8 window shrinks to waiters that really queued); all witnesses and corpus histories of
   F3 / F8 / F30 / F31 / F32 / F41 still reproduce.

   Boolean predicates on the op list (sticky ghost flags of the machine) and what they exclude:
     no_inflight_eviction  = evicts_inflight = false        (F3)  no miss ever pops a placeholder whose lock some caller
                                                                   holds or waits for
     no_waited_eviction    = evicts_waited = false          (F8)  no completed entry is popped / expired while a caller of
                                                                   its key (same dict) is suspended in lock.acquire()
     no_other_loop         = stale_count_other_loop = false (F30) no new loop while currsize <> 0 and NO cache_clear() while
                                                                   any call is in progress
     no_uncounted_eviction = uncounted_placeholder = false  (F31) no call is aborted at the lock entry while its key's
                                                                   placeholder is uncounted (i.e. practically: no miss issued
                                                                   inside a cancelled scope, no native cancel in the
                                                                   always_checkpoint entry checkpoint), and no miss pops an
                                                                   uncounted placeholder
     no_dead_placeholder   = dead_placeholder_counted = false (F41) no execution of the wrapped function through the cache
                                                                   ever fails or is cancelled while its placeholder is
                                                                   still in the dict
     maxsize0_no_single_flight                              (F32) maxsize = 0 and two calls of one key in progress at once
   Hence "cache_clear() at any time / consecutive loops / cancelled scopes" is covered by the UNCONDITIONAL theorems only.

   Hypotheses carried by each theorem:
     none:  C20_key_construction, C20_keys_identify_equal_calls, C20_value_faithful, C20_produced_only_by_wrapped,
            C20_raises_own, C20_reuse_first_result (needs the entry to be a value at that moment),
            C20_distinct_keys_independent, C20_no_lock_error, C20_paths_exclusive, C20_order,
            C20_evicts_oldest_use / C20_stamp_is_last_use (for steps other than Clear / NewLoop), C20_use_refreshes,
            C20_expired_recomputed, C20_reread_serves_fresh, C20_invariant
     no_inflight_eviction, no_waited_eviction:                      C20_no_internal_error, C20_running_is_counted
     no_inflight_eviction, no_waited_eviction, no_other_loop:       C20_single_flight (cached path; maxsize = 0 has no
                                                                    single flight at all: C20_refuted_maxsize0_double_flight)
     no_inflight_eviction, no_waited_eviction, no_uncounted_eviction: C20_bounded
     all five (without maxsize0_...):                               C20_count_exact, C20_evicts_only_when_full

   Witnesses.  Each finding pattern is exhibited by a vm_compute witness on which ONLY its own predicate is true (the
   whole flag set is stated) and which violates one of the conditional clauses:
     F3  C20_refuted_keyerror (no_internal_error), C20_refuted_exceeds (bounded; count_exact: two results, currsize = 1),
         C20_refuted_double_flight (single_flight)
     F8  C20_refuted_keyerror_waited (no_internal_error), C20_refuted_double_flight_waited / _ttl (single_flight)
     F30 C20_refuted_clear_double_flight (single_flight), C20_refuted_other_loop_count (count_exact)
     F31 C20_refuted_uncounted_exceeds (bounded; count_exact: two results, currsize = 1)
     F32 C20_refuted_maxsize0_double_flight
     F41 C20_refuted_dead_placeholder (count_exact, evicts_only_when_full)
   NOT every hypothesis of every theorem has a necessity witness: none is given for no_waited_eviction in C20_bounded /
   C20_count_exact / C20_evicts_only_when_full (it is what the proof of the store step uses; no history is known that
   breaks the bound with evicts_waited alone), for the two hypotheses of C20_running_is_counted, and for
   no_inflight / no_uncounted / no_other_loop in C20_evicts_only_when_full.  C20_refuted_other_loop and
   C20_refuted_clear_in_flight show the CONSEQUENCES of F30 (own placeholder popped, second flight); those histories also
   contain the F3 pattern. *)
From AV Require Import Base Lru LruKey LruLockFacts LruDict LruProofs LruInv LruCount LruStep LruThms LruWitness.
From AV Require Lock LockProofs.
From Coq Require Import Sorting.Sorted.

(* ---- "equal arguments": the key tuple built from (args, kwargs, typed) is the same for two calls iff they have the
        same positional values, the same keyword names and values in the same order and - if typed - the same types of
        positional AND keyword values; the numeric key of the machine (`Call c a` looks up key_of cf a, where a is the
        code of the call in the catalogue call_of) identifies exactly these classes ---- *)
Theorem C20_key_construction : forall ty c1 c2,
  make_key ty c1 = make_key ty c2 <->
  (map av (cpos c1) = map av (cpos c2) /\
   map (fun na => (fst na, av (snd na))) (ckws c1) = map (fun na => (fst na, av (snd na))) (ckws c2) /\
   (ty = true ->
    map aty_of (cpos c1) = map aty_of (cpos c2) /\
    map (fun na => aty_of (snd na)) (ckws c1) = map (fun na => aty_of (snd na)) (ckws c2))).
Proof. exact make_key_spec. Qed.
Print Assumptions C20_key_construction.

Theorem C20_keys_identify_equal_calls : forall cf a b,
  key_of cf a = key_of cf b <-> make_key (typed cf) (call_of a) = make_key (typed cf) (call_of b).
Proof. intros cf a b. rewrite make_key_spec. exact (key_of_spec cf a b). Qed.
Print Assumptions C20_keys_identify_equal_calls.

(* ---- right value (unconditional) ---- *)
Theorem C20_value_faithful : forall cf ops o s' v,
  step cf (run cf ops) o = (s', RRet v) ->
  exists k, call_key cf (run cf ops) o = Some k /\ In (k, v) (produced s').
Proof. exact lru_value_faithful. Qed.
Print Assumptions C20_value_faithful.

Theorem C20_produced_only_by_wrapped : forall cf ops o,
  let s := run cf ops in
  produced (fst (step cf s o)) = produced s \/
  exists c k v, o = Resume c /\ produced (fst (step cf s o)) = (k, v) :: produced s /\
    ((exists l g, phase s c = CInWrapped k l (Some (WRet v)) false g) \/ phase s c = CBypass k (Some (WRet v)) false).
Proof. exact lru_produced_only_by_wrapped. Qed.
Print Assumptions C20_produced_only_by_wrapped.

Theorem C20_raises_own : forall cf ops o e,
  let s := run cf ops in
  snd (step cf s o) = RExc e ->
  exists c k, o = Resume c /\
    ((exists l g, phase s c = CInWrapped k l (Some (WExc e)) false g) \/ phase s c = CBypass k (Some (WExc e)) false).
Proof. exact lru_raises_own. Qed.
Print Assumptions C20_raises_own.

(* ---- single flight: any two callers executing the wrapped function for the same key through the cache (in whatever
        dict) are the same caller; the cached path and the lock-free maxsize = 0 path exclude each other ---- *)
Theorem C20_single_flight : forall cf ops c1 c2 k l1 p1 b1 g1 l2 p2 b2 g2,
  no_inflight_eviction cf ops -> no_waited_eviction cf ops -> no_other_loop cf ops ->
  phase (run cf ops) c1 = CInWrapped k l1 p1 b1 g1 -> phase (run cf ops) c2 = CInWrapped k l2 p2 b2 g2 -> c1 = c2.
Proof. exact lru_single_flight. Qed.
Print Assumptions C20_single_flight.

Theorem C20_paths_exclusive : forall cf ops c,
  (forall k p b, phase (run cf ops) c = CBypass k p b -> is_zero_max cf = true) /\
  (forall k l p b g, phase (run cf ops) c = CInWrapped k l p b g -> is_zero_max cf = false) /\
  (forall k l t0 g, phase (run cf ops) c = CLockWait k l t0 g -> is_zero_max cf = false).
Proof. exact lru_paths_exclusive. Qed.
Print Assumptions C20_paths_exclusive.

Theorem C20_reuse_first_result : forall cf ops c k l t0 g v e,
  phase (run cf ops) c = CLockWait k l t0 g ->
  dget k (dicts (run cf ops) g) = Some (EVal v e) ->
  let r := snd (step cf (run cf ops) (Resume c)) in
  r = RRet v \/ r = RCancelled \/ r = RRejected.
Proof. exact lru_reuse_first_result. Qed.
Print Assumptions C20_reuse_first_result.

(* ---- different keys do not block one another (unconditional) ---- *)
Theorem C20_distinct_keys_independent : forall cf ops c k l t0 g,
  phase (run cf ops) c = CLockWait k l t0 g ->
  lkey (run cf ops) l = k /\
  (forall c', Lock.phase_of (locks (run cf ops) l) c' <> Lock.Idle \/ In c' (Lock.held (locks (run cf ops) l)) ->
     (exists t g', phase (run cf ops) c' = CLockWait k l t g') \/
     (exists p b g', phase (run cf ops) c' = CInWrapped k l p b g')) /\
  (forall c', Lock.owner (locks (run cf ops) l) = Some c' ->
     (exists t g', phase (run cf ops) c' = CLockWait k l t g') \/
     (exists p b g', phase (run cf ops) c' = CInWrapped k l p b g')).
Proof. exact lru_distinct_keys_independent. Qed.
Print Assumptions C20_distinct_keys_independent.

(* ---- no internal error ---- *)
Theorem C20_no_internal_error : forall cf ops o,
  no_inflight_eviction cf (ops ++ [o]) -> no_waited_eviction cf (ops ++ [o]) ->
  snd (step cf (run cf ops) o) <> RKeyError /\ snd (step cf (run cf ops) o) <> RLockErr.
Proof. exact lru_no_internal_error. Qed.
Print Assumptions C20_no_internal_error.

Theorem C20_no_lock_error : forall cf ops o, snd (step cf (run cf ops) o) <> RLockErr.
Proof. exact lru_no_lock_error. Qed.
Print Assumptions C20_no_lock_error.

(* ---- bounded retention: results + counted placeholders of the running loop's dict never exceed maxsize;
        every running computation owns a counted placeholder; without any finding pattern the count is exact and
        an entry is evicted only when the number of counted live entries has reached maxsize ---- *)
Theorem C20_bounded : forall cf ops m,
  no_inflight_eviction cf ops -> no_waited_eviction cf ops -> no_uncounted_eviction cf ops ->
  maxsize cf = Some m ->
  length (filter (fun x => negb (is_place (se x))) (dict (run cf ops))) +
  length (filter (fun x => match se x with EPlace _ true => true | _ => false end) (dict (run cf ops))) <= m.
Proof. exact lru_bounded. Qed.
Print Assumptions C20_bounded.

Theorem C20_running_is_counted : forall cf ops c k l p b g,
  no_inflight_eviction cf ops -> no_waited_eviction cf ops ->
  phase (run cf ops) c = CInWrapped k l p b g -> dget k (dicts (run cf ops) g) = Some (EPlace l true).
Proof. exact lru_running_is_counted. Qed.
Print Assumptions C20_running_is_counted.

Theorem C20_count_exact : forall cf ops,
  no_inflight_eviction cf ops -> no_waited_eviction cf ops -> no_uncounted_eviction cf ops ->
  no_dead_placeholder cf ops -> no_other_loop cf ops ->
  currsize (run cf ops) =
  Z.of_nat (length (filter (fun x => negb (is_place (se x))) (dict (run cf ops))) +
            length (filter (fun x => match se x with EPlace _ true => true | _ => false end) (dict (run cf ops)))).
Proof. exact lru_count_exact. Qed.
Print Assumptions C20_count_exact.

Theorem C20_evicts_only_when_full : forall cf ops o key,
  no_inflight_eviction cf (ops ++ [o]) -> no_waited_eviction cf (ops ++ [o]) ->
  no_uncounted_eviction cf (ops ++ [o]) -> no_dead_placeholder cf (ops ++ [o]) -> no_other_loop cf (ops ++ [o]) ->
  o <> Clear -> o <> NewLoop ->
  In key (map sk (dict (run cf ops))) -> ~ In key (map sk (dict (run cf (ops ++ [o])))) ->
  exists m, maxsize cf = Some m /\
    length (filter (fun x => negb (is_place (se x))) (dict (run cf (ops ++ [o])))) +
    length (filter (fun x => match se x with EPlace _ true => true | _ => false end) (dict (run cf (ops ++ [o])))) = m.
Proof. exact lru_evicts_only_when_full. Qed.
Print Assumptions C20_evicts_only_when_full.

(* ---- least recently used first, ttl included (unconditional).  ss = ghost stamp = logical time of the entry's
        last use (install, hit, reuse after a wait, recomputation after expiry); clk = the logical clock ---- *)
Theorem C20_order : forall cf ops g,
  NoDup (map sk (dicts (run cf ops) g)) /\
  StronglySorted (fun a b => ss a < ss b) (dicts (run cf ops) g) /\
  (forall x, In x (dicts (run cf ops) g) -> ss x < clk (run cf ops)).
Proof. exact lru_order. Qed.
Print Assumptions C20_order.

Theorem C20_evicts_oldest_use : forall cf ops o g x,
  o <> Clear -> o <> NewLoop -> In x (dicts (run cf ops) g) ->
  (forall y, In y (dicts (fst (step cf (run cf ops) o)) g) -> sk y <> sk x) ->
  forall y', In y' (dicts (fst (step cf (run cf ops) o)) g) -> ss x < ss y'.
Proof. exact lru_evicts_oldest_use. Qed.
Print Assumptions C20_evicts_oldest_use.

Theorem C20_stamp_is_last_use : forall cf ops o g y',
  o <> Clear -> o <> NewLoop -> In y' (dicts (fst (step cf (run cf ops) o)) g) ->
  (exists y, In y (dicts (run cf ops) g) /\ sk y = sk y' /\ ss y = ss y') \/
  (call_key cf (run cf ops) o = Some (sk y') /\ clk (run cf ops) <= ss y').
Proof. exact lru_stamp_is_last_use. Qed.
Print Assumptions C20_stamp_is_last_use.

Theorem C20_use_refreshes : forall cf ops o k g,
  ((exists c a, (o = Call c a \/ o = CallX c a) /\ key_of cf a = k /\ g = cur (run cf ops) /\
      snd (step cf (run cf ops) o) <> RRejected /\
      is_zero_max cf = false /\ (forall l b, dget k (dict (run cf ops)) <> Some (EPlace l b))) \/
   (exists c l t0 v, o = Resume c /\ phase (run cf ops) c = CLockWait k l t0 g /\
      snd (step cf (run cf ops) o) = RRet v)) ->
  forall y, In y (dicts (fst (step cf (run cf ops) o)) g) -> sk y = k -> clk (run cf ops) <= ss y.
Proof. exact lru_use_refreshes. Qed.
Print Assumptions C20_use_refreshes.

(* ---- an expired entry is recomputed, not served (unconditional) ---- *)
Theorem C20_expired_recomputed : forall cf ops c a x v,
  let s := run cf ops in
  snd (enter cf s c a x) <> RRejected ->
  (snd (enter cf s c a x) = RRet v \/
   exists b, phase (fst (enter cf s c a x)) c = CHitCk (key_of cf a) v b) ->
  exists y exp, dfind (key_of cf a) (dict s) = Some y /\ se y = EVal v exp /\ expired exp (now s) = false.
Proof. exact lru_expired_recomputed. Qed.
Print Assumptions C20_expired_recomputed.

Theorem C20_reread_serves_fresh : forall cf ops c k l t0 g v,
  phase (run cf ops) c = CLockWait k l t0 g ->
  snd (step cf (run cf ops) (Resume c)) = RRet v ->
  exists exp, dget k (dicts (run cf ops) g) = Some (EVal v exp) /\
              forall e dl, exp = Some e -> ttl cf = Some dl -> t0 + dl <= e.
Proof. exact lru_reread_serves_fresh. Qed.
Print Assumptions C20_reread_serves_fresh.

(* ---- the invariant behind the above, for every op sequence ---- *)
Theorem C20_invariant : forall cf ops, Inv1 cf (run cf ops) /\ Inv2 cf (run cf ops).
Proof. exact reachable_inv. Qed.
Print Assumptions C20_invariant.

(* ---- witnesses.  only_X = the flag set in which X is the only true flag ---- *)
(* F3 *)
Theorem C20_refuted_keyerror :
  exists cf ops o, fl (run cf (ops ++ [o])) = mkfl true false false false false false /\
    snd (step cf (run cf ops) o) = RKeyError.
Proof. exact lru_refuted_keyerror. Qed.
Print Assumptions C20_refuted_keyerror.

Theorem C20_refuted_exceeds :
  exists cf ops m, maxsize cf = Some m /\ fl (run cf ops) = mkfl true false false false false false /\
    m < length (filter (fun x => negb (is_place (se x))) (dict (run cf ops))) /\ currsize (run cf ops) = 1%Z.
Proof. exact lru_refuted_exceeds. Qed.
Print Assumptions C20_refuted_exceeds.

Theorem C20_refuted_double_flight :
  exists cf ops c1 c2 k l1 l2 g, fl (run cf ops) = mkfl true false false false false false /\ c1 <> c2 /\
    phase (run cf ops) c1 = CInWrapped k l1 None false g /\ phase (run cf ops) c2 = CInWrapped k l2 None false g.
Proof. exact lru_refuted_double_flight. Qed.
Print Assumptions C20_refuted_double_flight.

(* F8 *)
Theorem C20_refuted_keyerror_waited :
  exists cf ops o, fl (run cf (ops ++ [o])) = mkfl false true false false false false /\
    snd (step cf (run cf ops) o) = RKeyError.
Proof. exact lru_refuted_keyerror_waited. Qed.
Print Assumptions C20_refuted_keyerror_waited.

Theorem C20_refuted_double_flight_waited :
  exists cf ops c1 c2 k l1 l2 g, fl (run cf ops) = mkfl false true false false false false /\ c1 <> c2 /\
    phase (run cf ops) c1 = CInWrapped k l1 None false g /\ phase (run cf ops) c2 = CInWrapped k l2 None false g.
Proof. exact lru_refuted_double_flight_waited. Qed.
Print Assumptions C20_refuted_double_flight_waited.

Theorem C20_refuted_double_flight_ttl :
  exists cf ops c1 c2 k l1 l2 g, maxsize cf = None /\ fl (run cf ops) = mkfl false true false false false false /\
    c1 <> c2 /\
    phase (run cf ops) c1 = CInWrapped k l1 None false g /\ phase (run cf ops) c2 = CInWrapped k l2 None false g.
Proof. exact lru_refuted_double_flight_ttl. Qed.
Print Assumptions C20_refuted_double_flight_ttl.

(* F30 *)
Theorem C20_refuted_clear_double_flight :
  exists cf ops c1 c2 k l1 l2 g1 g2, fl (run cf ops) = mkfl false false false false true false /\ c1 <> c2 /\
    phase (run cf ops) c1 = CInWrapped k l1 None false g1 /\ phase (run cf ops) c2 = CInWrapped k l2 None false g2.
Proof. exact lru_refuted_clear_double_flight. Qed.
Print Assumptions C20_refuted_clear_double_flight.

Theorem C20_refuted_other_loop_count :
  exists cf ops, fl (run cf ops) = mkfl false false false false true false /\
    dict (run cf ops) = [] /\ currsize (run cf ops) = 1%Z.
Proof. exact lru_refuted_other_loop_count. Qed.
Print Assumptions C20_refuted_other_loop_count.

Theorem C20_refuted_other_loop :
  exists cf ops c1 c2 k, stale_count_other_loop cf ops = true /\ evicts_waited cf ops = false /\
    dead_placeholder_counted cf ops = false /\ uncounted_placeholder cf ops = false /\ c1 <> c2 /\
    executing (run cf ops) c1 k /\ executing (run cf ops) c2 k /\
    fl (run cf (firstn 4 ops)) = mkfl false false false false true false /\
    dict (run cf (firstn 4 ops)) = [] /\ currsize (run cf (firstn 4 ops)) = 1%Z.
Proof. exact lru_refuted_other_loop. Qed.
Print Assumptions C20_refuted_other_loop.

Theorem C20_refuted_clear_in_flight :
  exists cf ops c1 c2 k, stale_count_other_loop cf ops = true /\ evicts_waited cf ops = false /\
    c1 <> c2 /\ executing (run cf ops) c1 k /\ executing (run cf ops) c2 k /\
    dict (run cf (firstn 8 ops)) = [] /\ currsize (run cf (firstn 8 ops)) = 1%Z.
Proof. exact lru_refuted_clear_in_flight. Qed.
Print Assumptions C20_refuted_clear_in_flight.

(* F31 *)
Theorem C20_refuted_uncounted_exceeds :
  exists cf ops m, maxsize cf = Some m /\ fl (run cf ops) = mkfl false false true false false false /\
    m < length (filter (fun x => negb (is_place (se x))) (dict (run cf ops))) /\ currsize (run cf ops) = 1%Z.
Proof. exact lru_refuted_uncounted_exceeds. Qed.
Print Assumptions C20_refuted_uncounted_exceeds.

(* F32 *)
Theorem C20_refuted_maxsize0_double_flight :
  exists cf ops c1 c2 k, is_zero_max cf = true /\ fl (run cf ops) = mkfl false false false false false true /\
    c1 <> c2 /\
    phase (run cf ops) c1 = CBypass k None false /\ phase (run cf ops) c2 = CBypass k None false.
Proof. exact lru_refuted_maxsize0_double_flight. Qed.
Print Assumptions C20_refuted_maxsize0_double_flight.

(* F41 *)
Theorem C20_refuted_dead_placeholder :
  exists cf ops o key m, maxsize cf = Some m /\ fl (run cf (ops ++ [o])) = mkfl false false false true false false /\
    o <> Clear /\ o <> NewLoop /\
    In key (map sk (dict (run cf ops))) /\ ~ In key (map sk (dict (run cf (ops ++ [o])))) /\
    length (filter (fun x => negb (is_place (se x))) (dict (run cf (ops ++ [o])))) +
    length (filter (fun x => match se x with EPlace _ true => true | _ => false end) (dict (run cf (ops ++ [o])))) < m /\
    currsize (run cf (ops ++ [o])) = Z.of_nat m.
Proof. exact lru_refuted_dead_placeholder. Qed.
Print Assumptions C20_refuted_dead_placeholder.

(* ---- F15 (fixed by /repo 21d8dda): the variant of `step` that keeps the position of an expired entry when it is
        recomputed violates C20_evicts_oldest_use on a history without any finding pattern ---- *)
Theorem C20_refuted_old_expiry_order :
  exists cf ops o x y',
    fl (run_old cf (ops ++ [o])) = mkfl false false false false false false /\
    o <> Clear /\ o <> NewLoop /\ In x (dict (run_old cf ops)) /\
    (forall y, In y (dict (fst (old_expiry_step cf (run_old cf ops) o))) -> sk y <> sk x) /\
    In y' (dict (fst (old_expiry_step cf (run_old cf ops) o))) /\ ss y' < ss x.
Proof. exact lru_refuted_old_expiry_order. Qed.
Print Assumptions C20_refuted_old_expiry_order.
