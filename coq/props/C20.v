(* C20 — async lru_cache: right value, single flight, bounded retention.
   This file contains only statements closed by `exact` and their Print Assumptions.
   `run cf ops` is the state of the Lru machine after the op list `ops` (any callers, any schedule, any oracle
   values) under configuration cf = (maxsize, ttl, always_checkpoint, typed, number of callers).
   Hypotheses `no_inflight_eviction` / `no_waited_eviction` exclude the known findings F3 / F8 (boolean predicates
   evicts_inflight / evicts_waited on the op list); the `refuted` theorems show that they cannot be dropped. *)
From AV Require Import Base Lru LruLockFacts LruDict LruProofs LruInv LruStep LruThms.
From AV Require Lock LockProofs.
From Coq Require Import Sorting.Sorted.

(* ---- right value (unconditional) ---- *)
Theorem C20_value_faithful : forall cf ops o s' v,
  step cf (run cf ops) o = (s', RRet v) ->
  exists k, call_key cf (run cf ops) o = Some k /\ In (k, v) (produced s').
Proof. exact lru_value_faithful. Qed.
Print Assumptions C20_value_faithful.

Theorem C20_produced_only_by_wrapped : forall cf s o,
  produced (fst (step cf s o)) = produced s \/
  exists c k v, o = Resume c /\ produced (fst (step cf s o)) = (k, v) :: produced s /\
    ((exists l, phase s c = CInWrapped k l (Some (WRet v)) false) \/ phase s c = CBypass k (Some (WRet v)) false).
Proof. exact lru_produced_only_by_wrapped. Qed.
Print Assumptions C20_produced_only_by_wrapped.

Theorem C20_raises_own : forall cf s o e,
  snd (step cf s o) = RExc e ->
  exists c k, o = Resume c /\
    ((exists l, phase s c = CInWrapped k l (Some (WExc e)) false) \/ phase s c = CBypass k (Some (WExc e)) false).
Proof. exact lru_raises_own. Qed.
Print Assumptions C20_raises_own.

(* ---- single flight (under both hypotheses) ---- *)
Theorem C20_single_flight : forall cf ops c1 c2 k l1 l2 p1 b1 p2 b2,
  no_inflight_eviction cf ops -> no_waited_eviction cf ops ->
  phase (run cf ops) c1 = CInWrapped k l1 p1 b1 ->
  phase (run cf ops) c2 = CInWrapped k l2 p2 b2 ->
  c1 = c2.
Proof. exact lru_single_flight. Qed.
Print Assumptions C20_single_flight.

Theorem C20_reuse_first_result : forall cf ops c k l t0 v e,
  phase (run cf ops) c = CLockWait k l t0 ->
  dget k (dict (run cf ops)) = Some (EVal v e) ->
  let r := snd (step cf (run cf ops) (Resume c)) in
  r = RRet v \/ r = RCancelled \/ r = RRejected.
Proof. exact lru_reuse_first_result. Qed.
Print Assumptions C20_reuse_first_result.

(* ---- different keys do not block one another (unconditional) ---- *)
Theorem C20_distinct_keys_independent : forall cf ops c k l t0,
  phase (run cf ops) c = CLockWait k l t0 ->
  lkey (run cf ops) l = k /\
  (forall c', Lock.phase_of (locks (run cf ops) l) c' <> Lock.Idle \/ In c' (Lock.held (locks (run cf ops) l)) ->
     (exists t, phase (run cf ops) c' = CLockWait k l t) \/
     (exists p b, phase (run cf ops) c' = CInWrapped k l p b)) /\
  (forall c', Lock.owner (locks (run cf ops) l) = Some c' ->
     (exists t, phase (run cf ops) c' = CLockWait k l t) \/
     (exists p b, phase (run cf ops) c' = CInWrapped k l p b)).
Proof. exact lru_distinct_keys_independent. Qed.
Print Assumptions C20_distinct_keys_independent.

(* ---- no internal error (under both hypotheses; the lock part unconditionally) ---- *)
Theorem C20_no_internal_error : forall cf ops o,
  no_inflight_eviction cf (ops ++ [o]) -> no_waited_eviction cf (ops ++ [o]) ->
  snd (step cf (run cf ops) o) <> RKeyError /\ snd (step cf (run cf ops) o) <> RLockErr.
Proof. exact lru_no_internal_error. Qed.
Print Assumptions C20_no_internal_error.

Theorem C20_no_lock_error : forall cf ops o, snd (step cf (run cf ops) o) <> RLockErr.
Proof. exact lru_no_lock_error. Qed.
Print Assumptions C20_no_lock_error.

(* ---- bounded retention (under no_inflight_eviction), least recently used first (unconditional) ---- *)
Theorem C20_bounded : forall cf ops m,
  no_inflight_eviction cf ops -> maxsize cf = Some m ->
  length (filter (fun x => negb (is_place (se x))) (dict (run cf ops))) +
  length (filter (fun c => match phase (run cf ops) c with CInWrapped _ _ _ _ => true | _ => false end)
                 (seq 0 (ncall cf))) <= m.
Proof. exact lru_bounded. Qed.
Print Assumptions C20_bounded.

Theorem C20_order : forall cf ops,
  NoDup (map sk (dict (run cf ops))) /\
  StronglySorted (fun a b => ss a < ss b) (dict (run cf ops)) /\
  (forall x, In x (dict (run cf ops)) -> ss x < clk (run cf ops)).
Proof. exact lru_order. Qed.
Print Assumptions C20_order.

(* LRU eviction at full strength (ttl included).  ss = ghost stamp = logical time of the entry's last use
   (install, hit, reuse after a wait, recomputation after expiry: C20_stamp_is_last_use + C20_use_refreshes);
   clk = the logical clock, larger than every stamp (C20_order).  Unconditional, hence in particular under
   no_inflight_eviction / no_waited_eviction. *)
Theorem C20_evicts_oldest_use : forall cf ops o x,
  o <> Clear -> In x (dict (run cf ops)) ->
  (forall y, In y (dict (fst (step cf (run cf ops) o))) -> sk y <> sk x) ->
  forall y', In y' (dict (fst (step cf (run cf ops) o))) -> ss x < ss y'.
Proof. exact lru_evicts_oldest_use. Qed.
Print Assumptions C20_evicts_oldest_use.

Theorem C20_stamp_is_last_use : forall cf ops o y',
  o <> Clear -> In y' (dict (fst (step cf (run cf ops) o))) ->
  (exists y, In y (dict (run cf ops)) /\ sk y = sk y' /\ ss y = ss y') \/
  (call_key cf (run cf ops) o = Some (sk y') /\ clk (run cf ops) <= ss y').
Proof. exact lru_stamp_is_last_use. Qed.
Print Assumptions C20_stamp_is_last_use.

Theorem C20_use_refreshes : forall cf ops o k,
  ((exists c a, o = Call c a /\ key_of cf a = k /\ snd (step cf (run cf ops) o) <> RRejected /\
      is_zero_max cf = false /\ (forall l, dget k (dict (run cf ops)) <> Some (EPlace l))) \/
   (exists c l t0 v, o = Resume c /\ phase (run cf ops) c = CLockWait k l t0 /\
      snd (step cf (run cf ops) o) = RRet v)) ->
  forall y, In y (dict (fst (step cf (run cf ops) o))) -> sk y = k -> clk (run cf ops) <= ss y.
Proof. exact lru_use_refreshes. Qed.
Print Assumptions C20_use_refreshes.

(* F15 (fixed by /repo 21d8dda): the variant of `step` that keeps the position of an expired entry when it is
   recomputed violates C20_evicts_oldest_use on a history without any F3 / F8 eviction *)
Theorem C20_refuted_old_expiry_order :
  exists cf ops o x y',
    f_inflight (run_old cf (ops ++ [o])) = false /\ f_waited (run_old cf (ops ++ [o])) = false /\
    o <> Clear /\ In x (dict (run_old cf ops)) /\
    (forall y, In y (dict (fst (old_expiry_step cf (run_old cf ops) o))) -> sk y <> sk x) /\
    In y' (dict (fst (old_expiry_step cf (run_old cf ops) o))) /\ ss y' < ss x.
Proof. exact lru_refuted_old_expiry_order. Qed.
Print Assumptions C20_refuted_old_expiry_order.

(* ---- an expired entry is recomputed, not served (unconditional) ---- *)
Theorem C20_expired_recomputed : forall cf s c a v,
  snd (step cf s (Call c a)) <> RRejected ->
  (snd (step cf s (Call c a)) = RRet v \/
   exists b, phase (fst (step cf s (Call c a))) c = CHitCk (key_of cf a) v b) ->
  exists x exp, dfind (key_of cf a) (dict s) = Some x /\ se x = EVal v exp /\ expired exp (now s) = false.
Proof. exact lru_expired_recomputed. Qed.
Print Assumptions C20_expired_recomputed.

Theorem C20_reread_serves_fresh : forall cf ops c k l t0 v,
  phase (run cf ops) c = CLockWait k l t0 ->
  snd (step cf (run cf ops) (Resume c)) = RRet v ->
  exists exp, dget k (dict (run cf ops)) = Some (EVal v exp) /\
              forall e dl, exp = Some e -> ttl cf = Some dl -> t0 + dl <= e.
Proof. exact lru_reread_serves_fresh. Qed.
Print Assumptions C20_reread_serves_fresh.

(* ---- the invariant behind the above, for every op sequence ---- *)
Theorem C20_invariant : forall cf ops, Inv cf (run cf ops).
Proof. exact reachable_inv. Qed.
Print Assumptions C20_invariant.

(* ---- refutations without the hypotheses: finding F3 (a placeholder is evicted) ---- *)
Theorem C20_refuted_keyerror :
  exists cf ops o, evicts_inflight cf (ops ++ [o]) = true /\ snd (step cf (run cf ops) o) = RKeyError.
Proof. exact lru_refuted_keyerror. Qed.
Print Assumptions C20_refuted_keyerror.

Theorem C20_refuted_exceeds :
  exists cf ops m, maxsize cf = Some m /\
    m < length (filter (fun x => negb (is_place (se x))) (dict (run cf ops))).
Proof. exact lru_refuted_exceeds. Qed.
Print Assumptions C20_refuted_exceeds.

Theorem C20_refuted_double_flight :
  exists cf ops c1 c2 k l1 l2, c1 <> c2 /\
    phase (run cf ops) c1 = CInWrapped k l1 None false /\ phase (run cf ops) c2 = CInWrapped k l2 None false.
Proof. exact lru_refuted_double_flight. Qed.
Print Assumptions C20_refuted_double_flight.

(* ---- refutations under no_inflight_eviction alone: finding F8 (a completed entry is evicted / expires while a
        caller is still queued on its lock) ---- *)
Theorem C20_refuted_keyerror_waited :
  exists cf ops o, evicts_inflight cf (ops ++ [o]) = false /\ evicts_waited cf (ops ++ [o]) = true /\
    snd (step cf (run cf ops) o) = RKeyError.
Proof. exact lru_refuted_keyerror_waited. Qed.
Print Assumptions C20_refuted_keyerror_waited.

Theorem C20_refuted_double_flight_waited :
  exists cf ops c1 c2 k l1 l2, evicts_inflight cf ops = false /\ evicts_waited cf ops = true /\ c1 <> c2 /\
    phase (run cf ops) c1 = CInWrapped k l1 None false /\ phase (run cf ops) c2 = CInWrapped k l2 None false.
Proof. exact lru_refuted_double_flight_waited. Qed.
Print Assumptions C20_refuted_double_flight_waited.

Theorem C20_refuted_double_flight_ttl :
  exists cf ops c1 c2 k l1 l2, maxsize cf = None /\ dict (run cf ops) <> [] /\
    evicts_inflight cf ops = false /\ evicts_waited cf ops = true /\ c1 <> c2 /\
    phase (run cf ops) c1 = CInWrapped k l1 None false /\ phase (run cf ops) c2 = CInWrapped k l2 None false.
Proof. exact lru_refuted_double_flight_ttl. Qed.
Print Assumptions C20_refuted_double_flight_ttl.
