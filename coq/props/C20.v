(* C20 — async lru_cache: right value, single flight, bounded retention.
   This file contains only statements closed by `exact` and their Print Assumptions.
   `run cf ops` is the state of the Lru machine after the op list `ops` (any callers, any schedule, any oracle
   values, calls inside cancelled scopes, cache_clear() at any time, consecutive event loops) under configuration
   cf = (maxsize, ttl, always_checkpoint, typed, number of callers); `dict s` = entries of the running loop,
   `dicts s g` = the dict of generation g (a dict discarded by cache_clear() lives on for the calls that hold it).
   The strong clauses are stated under boolean hypotheses on the op list that exclude the known findings:
     no_inflight_eviction  (F3,  predicate evicts_inflight)        no_waited_eviction   (F8,  evicts_waited)
     no_other_loop         (F30, stale_count_other_loop)           no_uncounted_eviction (F31, uncounted_placeholder)
     maxsize_pos           (F32, maxsize0_no_single_flight)        no_dead_placeholder  (F41, dead_placeholder_counted)
   and the `refuted` theorems show by concrete histories that none of them can be dropped. *)
From AV Require Import Base Lru LruKey LruLockFacts LruDict LruProofs LruInv LruCount LruStep LruThms LruWitness.
From AV Require Lock LockProofs.
From Coq Require Import Sorting.Sorted.

(* ---- "equal arguments": the key tuple built from (args, kwargs, typed) is the same for two calls iff they have the
        same positional values, the same keyword names and values in the same order and - if typed - the same types of
        positional AND keyword values; the numeric key of the machine (`Call c a` looks up key_of cf a, where a is the
        code of the call in the catalogue call_of) identifies exactly these classes ---- *)
Theorem C20_key_construction : forall ty c1 c2,
  make_key ty c1 = make_key ty c2 <->
  (map av (cpos c1) = map av (cpos c2) /\
   map (fun na => (fst na, av (snd na))) (ckws c1) = map (fun na => (fst na, av (snd na))) (ckws c2) /\
   (ty = true ->
    map aty_of (cpos c1) = map aty_of (cpos c2) /\
    map (fun na => aty_of (snd na)) (ckws c1) = map (fun na => aty_of (snd na)) (ckws c2))).
Proof. exact make_key_spec. Qed.
Print Assumptions C20_key_construction.

Theorem C20_keys_identify_equal_calls : forall cf a b,
  key_of cf a = key_of cf b <-> make_key (typed cf) (call_of a) = make_key (typed cf) (call_of b).
Proof. intros cf a b. rewrite make_key_spec. exact (key_of_spec cf a b). Qed.
Print Assumptions C20_keys_identify_equal_calls.

(* ---- right value (unconditional) ---- *)
Theorem C20_value_faithful : forall cf ops o s' v,
  step cf (run cf ops) o = (s', RRet v) ->
  exists k, call_key cf (run cf ops) o = Some k /\ In (k, v) (produced s').
Proof. exact lru_value_faithful. Qed.
Print Assumptions C20_value_faithful.

Theorem C20_produced_only_by_wrapped : forall cf ops o,
  let s := run cf ops in
  produced (fst (step cf s o)) = produced s \/
  exists c k v, o = Resume c /\ produced (fst (step cf s o)) = (k, v) :: produced s /\
    ((exists l g, phase s c = CInWrapped k l (Some (WRet v)) false g) \/ phase s c = CBypass k (Some (WRet v)) false).
Proof. exact lru_produced_only_by_wrapped. Qed.
Print Assumptions C20_produced_only_by_wrapped.

Theorem C20_raises_own : forall cf ops o e,
  let s := run cf ops in
  snd (step cf s o) = RExc e ->
  exists c k, o = Resume c /\
    ((exists l g, phase s c = CInWrapped k l (Some (WExc e)) false g) \/ phase s c = CBypass k (Some (WExc e)) false).
Proof. exact lru_raises_own. Qed.
Print Assumptions C20_raises_own.

(* ---- single flight, at full strength: any two callers executing the wrapped function for the same key (through
        the cache or through the maxsize = 0 path, in whatever dict) are the same caller ---- *)
Theorem C20_single_flight : forall cf ops c1 c2 k,
  maxsize_pos cf -> no_inflight_eviction cf ops -> no_waited_eviction cf ops -> no_other_loop cf ops ->
  ((exists l p b g, phase (run cf ops) c1 = CInWrapped k l p b g) \/ (exists p b, phase (run cf ops) c1 = CBypass k p b)) ->
  ((exists l p b g, phase (run cf ops) c2 = CInWrapped k l p b g) \/ (exists p b, phase (run cf ops) c2 = CBypass k p b)) ->
  c1 = c2.
Proof. exact lru_single_flight. Qed.
Print Assumptions C20_single_flight.

Theorem C20_reuse_first_result : forall cf ops c k l t0 g v e,
  phase (run cf ops) c = CLockWait k l t0 g ->
  dget k (dicts (run cf ops) g) = Some (EVal v e) ->
  let r := snd (step cf (run cf ops) (Resume c)) in
  r = RRet v \/ r = RCancelled \/ r = RRejected.
Proof. exact lru_reuse_first_result. Qed.
Print Assumptions C20_reuse_first_result.

(* ---- different keys do not block one another (unconditional) ---- *)
Theorem C20_distinct_keys_independent : forall cf ops c k l t0 g,
  phase (run cf ops) c = CLockWait k l t0 g ->
  lkey (run cf ops) l = k /\
  (forall c', Lock.phase_of (locks (run cf ops) l) c' <> Lock.Idle \/ In c' (Lock.held (locks (run cf ops) l)) ->
     (exists t g', phase (run cf ops) c' = CLockWait k l t g') \/
     (exists p b g', phase (run cf ops) c' = CInWrapped k l p b g')) /\
  (forall c', Lock.owner (locks (run cf ops) l) = Some c' ->
     (exists t g', phase (run cf ops) c' = CLockWait k l t g') \/
     (exists p b g', phase (run cf ops) c' = CInWrapped k l p b g')).
Proof. exact lru_distinct_keys_independent. Qed.
Print Assumptions C20_distinct_keys_independent.

(* ---- no internal error ---- *)
Theorem C20_no_internal_error : forall cf ops o,
  no_inflight_eviction cf (ops ++ [o]) -> no_waited_eviction cf (ops ++ [o]) ->
  snd (step cf (run cf ops) o) <> RKeyError /\ snd (step cf (run cf ops) o) <> RLockErr.
Proof. exact lru_no_internal_error. Qed.
Print Assumptions C20_no_internal_error.

Theorem C20_no_lock_error : forall cf ops o, snd (step cf (run cf ops) o) <> RLockErr.
Proof. exact lru_no_lock_error. Qed.
Print Assumptions C20_no_lock_error.

(* ---- bounded retention: results + counted placeholders of the running loop's dict never exceed maxsize;
        every running computation owns a counted placeholder; without any finding pattern the count is exact and
        an entry is evicted only when the number of counted live entries has reached maxsize ---- *)
Theorem C20_bounded : forall cf ops m,
  no_inflight_eviction cf ops -> no_waited_eviction cf ops -> no_uncounted_eviction cf ops ->
  maxsize cf = Some m ->
  length (filter (fun x => negb (is_place (se x))) (dict (run cf ops))) +
  length (filter (fun x => match se x with EPlace _ true => true | _ => false end) (dict (run cf ops))) <= m.
Proof. exact lru_bounded. Qed.
Print Assumptions C20_bounded.

Theorem C20_running_is_counted : forall cf ops c k l p b g,
  no_inflight_eviction cf ops -> no_waited_eviction cf ops ->
  phase (run cf ops) c = CInWrapped k l p b g -> dget k (dicts (run cf ops) g) = Some (EPlace l true).
Proof. exact lru_running_is_counted. Qed.
Print Assumptions C20_running_is_counted.

Theorem C20_count_exact : forall cf ops,
  no_inflight_eviction cf ops -> no_waited_eviction cf ops -> no_uncounted_eviction cf ops ->
  no_dead_placeholder cf ops -> no_other_loop cf ops ->
  currsize (run cf ops) =
  Z.of_nat (length (filter (fun x => negb (is_place (se x))) (dict (run cf ops))) +
            length (filter (fun x => match se x with EPlace _ true => true | _ => false end) (dict (run cf ops)))).
Proof. exact lru_count_exact. Qed.
Print Assumptions C20_count_exact.

Theorem C20_evicts_only_when_full : forall cf ops o key,
  no_inflight_eviction cf (ops ++ [o]) -> no_waited_eviction cf (ops ++ [o]) ->
  no_uncounted_eviction cf (ops ++ [o]) -> no_dead_placeholder cf (ops ++ [o]) -> no_other_loop cf (ops ++ [o]) ->
  o <> Clear -> o <> NewLoop ->
  In key (map sk (dict (run cf ops))) -> ~ In key (map sk (dict (run cf (ops ++ [o])))) ->
  exists m, maxsize cf = Some m /\
    length (filter (fun x => negb (is_place (se x))) (dict (run cf (ops ++ [o])))) +
    length (filter (fun x => match se x with EPlace _ true => true | _ => false end) (dict (run cf (ops ++ [o])))) = m.
Proof. exact lru_evicts_only_when_full. Qed.
Print Assumptions C20_evicts_only_when_full.

(* ---- least recently used first, ttl included (unconditional).  ss = ghost stamp = logical time of the entry's
        last use (install, hit, reuse after a wait, recomputation after expiry); clk = the logical clock ---- *)
Theorem C20_order : forall cf ops g,
  NoDup (map sk (dicts (run cf ops) g)) /\
  StronglySorted (fun a b => ss a < ss b) (dicts (run cf ops) g) /\
  (forall x, In x (dicts (run cf ops) g) -> ss x < clk (run cf ops)).
Proof. exact lru_order. Qed.
Print Assumptions C20_order.

Theorem C20_evicts_oldest_use : forall cf ops o g x,
  o <> Clear -> o <> NewLoop -> In x (dicts (run cf ops) g) ->
  (forall y, In y (dicts (fst (step cf (run cf ops) o)) g) -> sk y <> sk x) ->
  forall y', In y' (dicts (fst (step cf (run cf ops) o)) g) -> ss x < ss y'.
Proof. exact lru_evicts_oldest_use. Qed.
Print Assumptions C20_evicts_oldest_use.

Theorem C20_stamp_is_last_use : forall cf ops o g y',
  o <> Clear -> o <> NewLoop -> In y' (dicts (fst (step cf (run cf ops) o)) g) ->
  (exists y, In y (dicts (run cf ops) g) /\ sk y = sk y' /\ ss y = ss y') \/
  (call_key cf (run cf ops) o = Some (sk y') /\ clk (run cf ops) <= ss y').
Proof. exact lru_stamp_is_last_use. Qed.
Print Assumptions C20_stamp_is_last_use.

Theorem C20_use_refreshes : forall cf ops o k g,
  ((exists c a, (o = Call c a \/ o = CallX c a) /\ key_of cf a = k /\ g = cur (run cf ops) /\
      snd (step cf (run cf ops) o) <> RRejected /\
      is_zero_max cf = false /\ (forall l b, dget k (dict (run cf ops)) <> Some (EPlace l b))) \/
   (exists c l t0 v, o = Resume c /\ phase (run cf ops) c = CLockWait k l t0 g /\
      snd (step cf (run cf ops) o) = RRet v)) ->
  forall y, In y (dicts (fst (step cf (run cf ops) o)) g) -> sk y = k -> clk (run cf ops) <= ss y.
Proof. exact lru_use_refreshes. Qed.
Print Assumptions C20_use_refreshes.

(* ---- an expired entry is recomputed, not served (unconditional) ---- *)
Theorem C20_expired_recomputed : forall cf ops c a x v,
  let s := run cf ops in
  snd (enter cf s c a x) <> RRejected ->
  (snd (enter cf s c a x) = RRet v \/
   exists b, phase (fst (enter cf s c a x)) c = CHitCk (key_of cf a) v b) ->
  exists y exp, dfind (key_of cf a) (dict s) = Some y /\ se y = EVal v exp /\ expired exp (now s) = false.
Proof. exact lru_expired_recomputed. Qed.
Print Assumptions C20_expired_recomputed.

Theorem C20_reread_serves_fresh : forall cf ops c k l t0 g v,
  phase (run cf ops) c = CLockWait k l t0 g ->
  snd (step cf (run cf ops) (Resume c)) = RRet v ->
  exists exp, dget k (dicts (run cf ops) g) = Some (EVal v exp) /\
              forall e dl, exp = Some e -> ttl cf = Some dl -> t0 + dl <= e.
Proof. exact lru_reread_serves_fresh. Qed.
Print Assumptions C20_reread_serves_fresh.

(* ---- the invariant behind the above, for every op sequence ---- *)
Theorem C20_invariant : forall cf ops, Inv1 cf (run cf ops) /\ Inv2 cf (run cf ops).
Proof. exact reachable_inv. Qed.
Print Assumptions C20_invariant.

(* ---- refutations: F3 (a miss evicts a placeholder whose lock is held or waited on) ---- *)
Theorem C20_refuted_keyerror :
  exists cf ops o, evicts_inflight cf (ops ++ [o]) = true /\ snd (step cf (run cf ops) o) = RKeyError.
Proof. exact lru_refuted_keyerror. Qed.
Print Assumptions C20_refuted_keyerror.

Theorem C20_refuted_exceeds :
  exists cf ops m, maxsize cf = Some m /\ evicts_inflight cf ops = true /\
    m < length (filter (fun x => negb (is_place (se x))) (dict (run cf ops))).
Proof. exact lru_refuted_exceeds. Qed.
Print Assumptions C20_refuted_exceeds.

Theorem C20_refuted_double_flight :
  exists cf ops c1 c2 k, maxsize_pos cf /\ evicts_inflight cf ops = true /\ c1 <> c2 /\
    executing (run cf ops) c1 k /\ executing (run cf ops) c2 k.
Proof. exact lru_refuted_double_flight. Qed.
Print Assumptions C20_refuted_double_flight.

(* ---- F8 (a completed entry is evicted / expires while a caller is queued on its lock) ---- *)
Theorem C20_refuted_keyerror_waited :
  exists cf ops o, evicts_inflight cf (ops ++ [o]) = false /\ evicts_waited cf (ops ++ [o]) = true /\
    snd (step cf (run cf ops) o) = RKeyError.
Proof. exact lru_refuted_keyerror_waited. Qed.
Print Assumptions C20_refuted_keyerror_waited.

Theorem C20_refuted_double_flight_waited :
  exists cf ops c1 c2 k, maxsize_pos cf /\ evicts_inflight cf ops = false /\ evicts_waited cf ops = true /\
    stale_count_other_loop cf ops = false /\ c1 <> c2 /\
    executing (run cf ops) c1 k /\ executing (run cf ops) c2 k.
Proof. exact lru_refuted_double_flight_waited. Qed.
Print Assumptions C20_refuted_double_flight_waited.

Theorem C20_refuted_double_flight_ttl :
  exists cf ops c1 c2 k, maxsize cf = None /\ evicts_inflight cf ops = false /\ evicts_waited cf ops = true /\
    c1 <> c2 /\ executing (run cf ops) c1 k /\ executing (run cf ops) c2 k.
Proof. exact lru_refuted_double_flight_ttl. Qed.
Print Assumptions C20_refuted_double_flight_ttl.

(* ---- F30 (the wrapper-level count outlives the loop's dict / a cache_clear() racing a flight) ---- *)
Theorem C20_refuted_other_loop :
  exists cf ops c1 c2 k, maxsize_pos cf /\ stale_count_other_loop cf ops = true /\ evicts_waited cf ops = false /\
    dead_placeholder_counted cf ops = false /\ uncounted_placeholder cf ops = false /\ c1 <> c2 /\
    executing (run cf ops) c1 k /\ executing (run cf ops) c2 k /\
    dict (run cf (firstn 4 ops)) = [] /\ currsize (run cf (firstn 4 ops)) = 1%Z.
Proof. exact lru_refuted_other_loop. Qed.
Print Assumptions C20_refuted_other_loop.

Theorem C20_refuted_clear_in_flight :
  exists cf ops c1 c2 k, maxsize_pos cf /\ stale_count_other_loop cf ops = true /\ evicts_waited cf ops = false /\
    c1 <> c2 /\ executing (run cf ops) c1 k /\ executing (run cf ops) c2 k /\
    dict (run cf (firstn 8 ops)) = [] /\ currsize (run cf (firstn 8 ops)) = 1%Z.
Proof. exact lru_refuted_clear_in_flight. Qed.
Print Assumptions C20_refuted_clear_in_flight.

(* ---- F31 (a call aborted at the lock entry leaves an uncounted placeholder) ---- *)
Theorem C20_refuted_uncounted_exceeds :
  exists cf ops m, maxsize cf = Some m /\ evicts_inflight cf ops = false /\ evicts_waited cf ops = false /\
    stale_count_other_loop cf ops = false /\ uncounted_placeholder cf ops = true /\
    m < length (filter (fun x => negb (is_place (se x))) (dict (run cf ops))) /\ currsize (run cf ops) = 1%Z.
Proof. exact lru_refuted_uncounted_exceeds. Qed.
Print Assumptions C20_refuted_uncounted_exceeds.

(* ---- F32 (maxsize = 0: no lock, no single flight) ---- *)
Theorem C20_refuted_maxsize0_double_flight :
  exists cf ops c1 c2 k, is_zero_max cf = true /\ maxsize0_no_single_flight cf ops = true /\
    evicts_inflight cf ops = false /\ evicts_waited cf ops = false /\ stale_count_other_loop cf ops = false /\
    c1 <> c2 /\ executing (run cf ops) c1 k /\ executing (run cf ops) c2 k.
Proof. exact lru_refuted_maxsize0_double_flight. Qed.
Print Assumptions C20_refuted_maxsize0_double_flight.

(* ---- F41 (a failed computation leaves its placeholder counted: eviction although the cache is not full) ---- *)
Theorem C20_refuted_dead_placeholder :
  exists cf ops o key m, maxsize cf = Some m /\
    evicts_inflight cf (ops ++ [o]) = false /\ evicts_waited cf (ops ++ [o]) = false /\
    uncounted_placeholder cf (ops ++ [o]) = false /\ stale_count_other_loop cf (ops ++ [o]) = false /\
    dead_placeholder_counted cf (ops ++ [o]) = true /\ o <> Clear /\ o <> NewLoop /\
    In key (map sk (dict (run cf ops))) /\ ~ In key (map sk (dict (run cf (ops ++ [o])))) /\
    length (filter (fun x => negb (is_place (se x))) (dict (run cf (ops ++ [o])))) +
    length (filter (fun x => match se x with EPlace _ true => true | _ => false end) (dict (run cf (ops ++ [o])))) < m /\
    currsize (run cf (ops ++ [o])) = Z.of_nat m.
Proof. exact lru_refuted_dead_placeholder. Qed.
Print Assumptions C20_refuted_dead_placeholder.

(* ---- F15 (fixed by /repo 21d8dda): the variant of `step` that keeps the position of an expired entry when it is
        recomputed violates C20_evicts_oldest_use on a history without any finding pattern ---- *)
Theorem C20_refuted_old_expiry_order :
  exists cf ops o x y',
    fl (run_old cf (ops ++ [o])) = mkfl false false false false false false /\
    o <> Clear /\ o <> NewLoop /\ In x (dict (run_old cf ops)) /\
    (forall y, In y (dict (fst (old_expiry_step cf (run_old cf ops) o))) -> sk y <> sk x) /\
    In y' (dict (fst (old_expiry_step cf (run_old cf ops) o))) /\ ss y' < ss x.
Proof. exact lru_refuted_old_expiry_order. Qed.
Print Assumptions C20_refuted_old_expiry_order.
