(* C18 — socket streams deliver the byte stream intact, with back-pressure and EOF (proof, partial).
   The AnyIO side (StreamProtocol + SocketStream, the UNIXSocketStream loops, the resource guards) is proved for
   every sequence of API, scheduler and transport ops; the asyncio transport and the kernel are the environment
   (arbitrary op sequences / arbitrary oracle scripts; contracts appear as explicit hypotheses).
   This file contains only statements closed by `exact` and their Print Assumptions.

   OBSERVATIONS (outside the clause texts of C18, recorded by the end-to-end harness in evidence `observations`, no theorem):
   - uvloop reports a connection reset by the peer that arrives after partial data, while no receive() is waiting, as a clean
     EndOfStream (libuv short-circuits POLLHUP to EOF); the stock loop reports BrokenResourceError;
   - UNIXSocketStream.send(b"") on a locally closed stream returns normally (the `while view:` loop never touches the socket);
   - UNIXSocketStream.receive(2**40) raises MemoryError (the kernel contract recv(n) allocates n bytes);
   - send_eof() on a locally closed stream raises OSError (UNIX) resp. RuntimeError / nothing (TCP) instead of ClosedResourceError.
   ENVIRONMENT NOTE (no theorem): SockProto never FORCES the transport to answer an abort - ConnectionLost is an environment
   op like any other, so "after transport.abort() the transport calls connection_lost()" is a contract, not a consequence:
   C18_sock_cancelled_close_still_aborts gives `aborted`, C18_sock_connection_lost_wakes_everyone / ..._woken_calls_on_closed_stream
   say what that callback then does.  The contract itself is checked on the real transports only (end-to-end scenarios
   close_both_parked, forceful_close, send_lost: the parked calls must end within 5 s on stock asyncio and uvloop); the fake-transport
   harness delivers ConnectionLost as one of its random env ops and its quiescence step cancels whatever is still parked.
   KNOWN FINDING F48 (no theorem: kernel TCP behaviour is outside the model): closing a TCP stream while inbound data is unread
   makes the kernel reset the connection and destroy data already sent; the directed real-socket scenario reports it as
   KNOWN-FINDING. *)
From AV Require Import Base SockProto SockProtoProofs SockProtoThms SockProtoLive SockProtoFlow UnixLoop UnixLoopProofs UnixLoopCloseProofs.

(* stepv p: p = false is HEAD, p = true the pinned tree before commit ab750b3; r0 = initial reading flag *)

Theorem C18_sock_receive_prefix : forall p r0 ops,
  let '(s, outs) := run_ops (stepv p) (init r0) ops in
  flat_map payload ops = flat_map data_of outs ++ concat (rq s).
Proof. exact sock_receive_prefix. Qed.
Print Assumptions C18_sock_receive_prefix.

Theorem C18_sock_receive_complete_at_eof : forall p r0 ops o,
  let '(s, outs) := run_ops (stepv p) (init r0) ops in
  snd (stepv p s o) = REndOfStream ->
  flat_map payload (ops ++ [o]) = flat_map data_of outs.
Proof. exact sock_receive_complete_at_eof. Qed.
Print Assumptions C18_sock_receive_complete_at_eof.

Theorem C18_sock_chunk_bounds : forall p r0 s o s' c,
  reachv p r0 s -> stepv p s o = (s', RData c) ->
  exists t pw mx hd r,
    o = Resume t pw /\
    (phase_of s t = RecvYield mx \/ phase_of s t = RecvWait mx FSet) /\
    rq s = hd :: r /\ 1 <= length c <= mx /\
    ((length hd <= mx /\ c = hd /\ rq s' = r) \/
     (mx < length hd /\ c = firstn mx hd /\ rq s' = skipn mx hd :: r)).
Proof. exact sock_chunk_bounds. Qed.
Print Assumptions C18_sock_chunk_bounds.

Theorem C18_sock_eof_only_after_eof : forall p r0 s o s',
  reachv p r0 s -> stepv p s o = (s', REndOfStream) ->
  rq s = [] /\ closed s = false /\ exc s = None /\ (eof s = true \/ g_lostclean s = true).
Proof. exact sock_eof_only_after_eof. Qed.
Print Assumptions C18_sock_eof_only_after_eof.

Theorem C18_sock_flags_meaning : forall p r0 ops,
  let s := final (stepv p) (init r0) ops in
  (eof s = true -> In EofReceived ops) /\
  (g_lostclean s = true -> In (ConnectionLost None) ops) /\
  (closed s = true -> exists t, In (Close t) ops).
Proof. exact sock_flags_meaning. Qed.
Print Assumptions C18_sock_flags_meaning.

Theorem C18_sock_closed_is_stable : forall p s o,
  closed s = true -> closed (fst (stepv p s o)) = true.
Proof. exact sock_closed_is_stable. Qed.
Print Assumptions C18_sock_closed_is_stable.

Theorem C18_sock_close_sets_closed : forall p s t,
  phase_of s t = Idle -> closed (fst (stepv p s (Close t))) = true.
Proof. exact sock_close_sets_closed. Qed.
Print Assumptions C18_sock_close_sets_closed.

Theorem C18_sock_send_after_close : forall p r0 s t item,
  reachv p r0 s -> closed s = true -> phase_of s t = Idle -> sguard s = None ->
  let s1 := fst (stepv p s (Send t item)) in
  snd (stepv p s (Send t item)) = RBlocked /\ phase_of s1 t = SendYield item /\
  forall s2 pw, phase_of s2 t = SendYield item -> closed s2 = true -> mustc s2 t = false ->
    snd (stepv p s2 (Resume t pw)) = RClosed /\
    g_written (fst (stepv p s2 (Resume t pw))) = g_written s2.
Proof. exact sock_send_after_close. Qed.
Print Assumptions C18_sock_send_after_close.

Theorem C18_sock_receive_after_close : forall p r0 s t mx,
  reachv p r0 s -> closed s = true -> phase_of s t = Idle -> rguard s = None -> 1 <= mx ->
  let s1 := fst (stepv p s (Receive t mx)) in
  snd (stepv p s (Receive t mx)) = RBlocked /\ phase_of s1 t = RecvYield mx /\
  forall s2 pw, phase_of s2 t = RecvYield mx -> closed s2 = true -> mustc s2 t = false ->
    snd (stepv p s2 (Resume t pw)) =
      match rq s2 with [] => RClosed | hd :: _ => RData (firstn mx hd) end.
Proof. exact sock_receive_after_close. Qed.
Print Assumptions C18_sock_receive_after_close.

Theorem C18_guard_rejects_concurrent : forall p r0 s t t',
  reachv p r0 s -> phase_of s t = Idle ->
  (forall mx, 1 <= mx -> is_recv (phase_of s t') = true -> stepv p s (Receive t mx) = (s, RBusy)) /\
  (forall item, is_send (phase_of s t') = true -> stepv p s (Send t item) = (s, RBusy)).
Proof. exact guard_rejects_concurrent. Qed.
Print Assumptions C18_guard_rejects_concurrent.

Theorem C18_guard_held_iff_in_call : forall p r0 s,
  reachv p r0 s ->
  (forall t, rguard s = Some t <-> is_recv (phase_of s t) = true) /\
  (forall t, sguard s = Some t <-> is_send (phase_of s t) = true).
Proof. exact guard_held_iff_in_call. Qed.
Print Assumptions C18_guard_held_iff_in_call.

Theorem C18_guard_free_when_idle : forall p r0 s,
  reachv p r0 s -> (forall t, phase_of s t = Idle) -> rguard s = None /\ sguard s = None.
Proof. exact guard_free_when_idle. Qed.
Print Assumptions C18_guard_free_when_idle.

Theorem C18_guard_exclusive : forall p r0 s t t',
  reachv p r0 s ->
  (is_recv (phase_of s t) = true -> is_recv (phase_of s t') = true -> t = t') /\
  (is_send (phase_of s t) = true -> is_send (phase_of s t') = true -> t = t').
Proof. exact guard_exclusive. Qed.
Print Assumptions C18_guard_exclusive.

Theorem C18_send_waits_for_write_gate : forall p r0 s t pw s',
  reachv p r0 s ->
  (forall item, phase_of s t = SendYield item ->
     (stepv p s (Resume t pw) = (s', RDone) ->
        wval s' (wev s') = true /\ g_written s' = g_written s ++ item) /\
     (stepv p s (Resume t pw) = (s', RBlocked) ->
        phase_of s' t = SendWait (wev s') FPending /\ wval s' (wev s') = false /\
        (g_written s' = g_written s ++ item \/
         (p = false /\ g_written s' = g_written s /\ prew s' t = Some item)))) /\
  (forall ev f, phase_of s t = SendWait ev f ->
     stepv p s (Resume t pw) = (s', RDone) ->
     f = FSet /\ wval s ev = true /\
     (forall item, prew s t = Some item -> wval s' (wev s') = true /\ g_written s' = g_written s ++ item) /\
     (prew s t = None -> g_written s' = g_written s)).
Proof. exact send_waits_for_write_gate. Qed.
Print Assumptions C18_send_waits_for_write_gate.

Theorem C18_send_gate_opened_only_by_transport : forall p s o ev,
  ev <= wev s -> wval s ev = false -> wval (fst (stepv p s o)) ev = true ->
  o = ResumeWriting \/ exists e, o = ConnectionLost e.
Proof. exact send_gate_opened_only_by_transport. Qed.
Print Assumptions C18_send_gate_opened_only_by_transport.

(* no deadlock of AnyIO's making: whoever is still suspended has nothing to be woken for *)
Theorem C18_sock_no_lost_wakeup : forall p r0 s t,
  reachv p r0 s ->
  (forall mx, phase_of s t = RecvWait mx FPending ->
     rq s = [] /\ rev s = false /\ eof s = false /\ exc s = None /\ g_lostclean s = false) /\
  (forall ev, phase_of s t = SendWait ev FPending -> wval s ev = false).
Proof. exact sock_no_lost_wakeup. Qed.
Print Assumptions C18_sock_no_lost_wakeup.

Theorem C18_sock_queue_implies_event : forall p r0 s,
  reachv p r0 s -> rq s <> [] -> rev s = true.
Proof. exact sock_queue_implies_event. Qed.
Print Assumptions C18_sock_queue_implies_event.

(* HEAD (commit ab750b3): receive-side flow control *)
Theorem C18_sock_reading_paused_unless_waiting : forall s,
  reachv false false s -> reading s = true -> exists t mx f, phase_of s t = RecvWait mx f.
Proof. exact sock_reading_paused_unless_waiting. Qed.
Print Assumptions C18_sock_reading_paused_unless_waiting.

(* the pinned tree violated it (finding F9, fixed): witnesses evaluated by vm_compute *)
Theorem C18_sock_reading_not_paused_refuted_pinned :
  (exists ops, let s := final (stepv true) (init true) ops in
     reading s = true /\ rguard s = None /\ tclosing s = false /\ rq s <> [] /\
     forall t, t < 3 -> phase_of s t = Idle) /\
  (exists ops, let s := final (stepv true) (init false) ops in
     reading s = true /\ rguard s = None /\ tclosing s = false /\
     forall t, t < 3 -> phase_of s t = Idle).
Proof. exact sock_reading_not_paused_refuted_pinned. Qed.
Print Assumptions C18_sock_reading_not_paused_refuted_pinned.

(* UNIX raw-socket loops over a kernel oracle script *)
Theorem C18_unix_send_loop_complete : forall cancel0 busy closing0 item script,
  let o := unix_send cancel0 busy closing0 item script in
  (exists rest, item = u_handed o ++ rest) /\ (u_res o = UDone -> u_handed o = item).
Proof. exact unix_send_loop_complete. Qed.
Print Assumptions C18_unix_send_loop_complete.

Theorem C18_unix_send_terminates_under_contract : forall closing0 item script,
  (forall a, In a script -> exists n, a = SOk n /\ 1 <= n) -> length item <= length script ->
  u_res (unix_send false false closing0 item script) = UDone /\
  u_handed (unix_send false false closing0 item script) = item.
Proof. exact unix_send_terminates_under_contract. Qed.
Print Assumptions C18_unix_send_terminates_under_contract.

Theorem C18_unix_recv_bounds : forall cancel0 busy closing0 mx script,
  let o := unix_recv cancel0 busy closing0 mx script in
  (forall d, u_res o = UData d ->
     1 <= mx /\ 1 <= length d /\ In (KData d) script /\
     ((forall d', In (KData d') script -> length d' <= mx) -> length d <= mx)) /\
  (u_res o = UEof -> In (KData []) script) /\
  u_handed o = [].
Proof. exact unix_recv_bounds. Qed.
Print Assumptions C18_unix_recv_bounds.

Theorem C18_unix_guard_rejects_concurrent : forall closing0 item mx script rscript,
  1 <= mx ->
  let o := unix_send false true closing0 item script in
  let o' := unix_recv false true closing0 mx rscript in
  (u_res o = UBusy /\ u_handed o = [] /\ u_calls o = 0 /\ u_guard o = true) /\
  (u_res o' = UBusy /\ u_calls o' = 0 /\ u_guard o' = true).
Proof. exact unix_guard_rejects_concurrent. Qed.
Print Assumptions C18_unix_guard_rejects_concurrent.

Theorem C18_unix_guard_released : forall cancel0 closing0 item mx script rscript,
  u_guard (unix_send cancel0 false closing0 item script) = false /\
  u_guard (unix_recv cancel0 false closing0 mx rscript) = false.
Proof. exact unix_guard_released. Qed.
Print Assumptions C18_unix_guard_released.

Theorem C18_unix_closed_errors : forall cancel0 busy closing0 item mx script rscript,
  let o := unix_send cancel0 busy closing0 item script in
  let o' := unix_recv cancel0 busy closing0 mx rscript in
  (u_res o = UClosed -> u_closing o = true) /\ (u_res o = UBroken -> u_closing o = false) /\
  (u_res o' = UClosed -> u_closing o' = true) /\ (u_res o' = UBroken -> u_closing o' = false).
Proof. exact unix_closed_errors. Qed.
Print Assumptions C18_unix_closed_errors.

(* same-direction entry points of other tasks while a call is in progress: send(), send_fds() and send_eof() share
   the send guard, receive() and receive_fds() the receive guard; each is refused and changes no state *)
Theorem C18_unix_entry_points_refused :
  (forall rg shut e, e = ESend \/ e = ESendFds \/ e = ESendEof -> intrude true true rg shut e = (UBusy, shut)) /\
  (forall sg shut e, e = EReceive \/ e = EReceiveFds -> intrude true sg true shut e = (UBusy, shut)).
Proof. exact unix_entry_points_refused. Qed.
Print Assumptions C18_unix_entry_points_refused.

Theorem C18_unix_parked_send_untouched : forall cancel0 busy closing0 item script,
  (forall es w e, In (SBlock es w) script -> In e es -> uses_send_guard true e = true) ->
  let o := unix_send cancel0 busy closing0 item script in
  let o' := unix_send cancel0 busy closing0 item (map strip_s script) in
  u_res o = u_res o' /\ u_handed o = u_handed o' /\ u_calls o = u_calls o' /\ u_waits o = u_waits o' /\
  u_closing o = u_closing o' /\ u_guard o = u_guard o' /\ u_shut o = false /\
  Forall (fun r => r = UBusy) (u_intr o).
Proof. exact unix_parked_send_untouched. Qed.
Print Assumptions C18_unix_parked_send_untouched.

Theorem C18_unix_parked_recv_untouched : forall cancel0 busy closing0 mx script,
  (forall es w e, In (KBlock es w) script -> In e es -> uses_recv_guard e = true) ->
  let o := unix_recv cancel0 busy closing0 mx script in
  let o' := unix_recv cancel0 busy closing0 mx (map strip_r script) in
  u_res o = u_res o' /\ u_calls o = u_calls o' /\ u_waits o = u_waits o' /\
  u_closing o = u_closing o' /\ u_guard o = u_guard o' /\ u_shut o = false /\
  Forall (fun r => r = UBusy) (u_intr o).
Proof. exact unix_parked_recv_untouched. Qed.
Print Assumptions C18_unix_parked_recv_untouched.

(* the variant without the guard around send_eof() (seeded change C18/d) is refuted by a vm_compute witness *)
Theorem C18_unix_send_eof_unguarded_refuted :
  exists item script,
    let o := unix_sendv false false false false item script in
    u_intr o = [UAccepted] /\ u_shut o = true /\ u_handed o <> item /\ u_res o = UBroken /\
    let o' := unix_send false false false item script in
    u_intr o' = [UBusy] /\ u_shut o' = false.
Proof. exact unix_send_eof_unguarded_refuted. Qed.
Print Assumptions C18_unix_send_eof_unguarded_refuted.

(* finding F34 (fixed, commit d2d2221): a send() that returns normally was never released by connection_lost *)
Theorem C18_send_returns_ok_only_if_not_lost : forall r0 s t pw s',
  reachv false r0 s -> is_send (phase_of s t) = true -> stepv false s (Resume t pw) = (s', RDone) ->
  closed s = false /\ exc s = None /\
  (forall ev f, phase_of s t = SendWait ev f -> f = FSet /\ wval s ev = true).
Proof. exact send_returns_ok_only_if_not_lost. Qed.
Print Assumptions C18_send_returns_ok_only_if_not_lost.

Theorem C18_send_ok_never_released_by_connection_lost : forall r0 ops t pw,
  let s := final step (init r0) ops in
  is_send (phase_of s t) = true -> snd (step s (Resume t pw)) = RDone ->
  (g_lostclean s = true -> closed s = true) ->
  forall e, ~ In (ConnectionLost e) ops.
Proof. exact send_ok_never_released_by_connection_lost. Qed.
Print Assumptions C18_send_ok_never_released_by_connection_lost.

Theorem C18_send_returns_ok_only_if_not_lost_refuted_pinned :
  (exists ops t, let s := final (stepv true) (init false) ops in
     snd (stepv true s (Resume t false)) = RDone /\ exc s <> None /\
     snd (stepv false (final step (init false) ops) (Resume t false)) = RBroken) /\
  (exists ops t, let s := final (stepv true) (init false) ops in
     snd (stepv true s (Resume t false)) = RDone /\ closed s = true /\
     snd (stepv false (final step (init false) ops) (Resume t false)) = RClosed).
Proof. exact send_returns_ok_only_if_not_lost_refuted_pinned. Qed.
Print Assumptions C18_send_returns_ok_only_if_not_lost_refuted_pinned.

(* finding F33 (fixed, commit e49bd95): aclose() of a UNIX stream while calls are parked; cstep false = HEAD order
   (unregister, then close), defer = uvloop-like deferred close / selector loop *)
Theorem C18_unix_closed_socket_not_registered : forall defer s,
  creach defer s ->
  (c_sclosed s = true -> c_regr s = false /\ c_regw s = false /\ c_fdopen s = false /\ c_nclose s = 1) /\
  c_nclose s <= 1 /\ c_cwr s = false /\ c_errs s = 0 /\ c_closing s = c_sclosed s.
Proof. exact unix_closed_socket_not_registered. Qed.
Print Assumptions C18_unix_closed_socket_not_registered.

Theorem C18_unix_close_ends_parked_calls : forall defer s d a,
  creach defer s -> c_closing s = true ->
  ph s d <> CParked /\
  (ph s d = CRun false -> cb s d = false ->
     snd (cstep false defer s (CStep d a)) = CEnd UClosed /\
     ph (fst (cstep false defer s (CStep d a))) d = CIdle).
Proof. exact unix_close_ends_parked_calls. Qed.
Print Assumptions C18_unix_close_ends_parked_calls.

Theorem C18_unix_close_ends_parked_calls_nonvacuous : forall defer,
  let s := final (cstep false defer) cinit
             [CBegin DR; CStep DR ABlock; CBegin DS; CStep DS ABlock; CClose; CCallback DR; CCallback DS] in
  creach defer s /\ c_closing s = true /\
  ph s DR = CRun false /\ cb s DR = false /\ ph s DS = CRun false /\ cb s DS = false /\
  snd (cstep false defer s (CStep DR ABlock)) = CEnd UClosed /\
  snd (cstep false defer s (CStep DS AOk)) = CEnd UClosed.
Proof. exact unix_close_ends_parked_calls_nonvacuous. Qed.
Print Assumptions C18_unix_close_ends_parked_calls_nonvacuous.

Theorem C18_unix_close_with_both_parked : forall defer s a b,
  creach defer s -> c_phr s = CParked -> c_phs s = CParked ->
  let s1 := final (cstep false defer) s [CClose; CCallback DR; CCallback DS] in
  snd (cstep false defer s1 (CStep DR a)) = CEnd UClosed /\
  snd (cstep false defer (fst (cstep false defer s1 (CStep DR a))) (CStep DS b)) = CEnd UClosed /\
  snd (cstep false defer s1 (CStep DS b)) = CEnd UClosed /\
  c_nclose s1 = 1 /\ c_fdopen s1 = false /\ c_regr s1 = false /\ c_regw s1 = false /\ c_errs s1 = 0.
Proof. exact unix_close_with_both_parked. Qed.
Print Assumptions C18_unix_close_with_both_parked.

Theorem C18_unix_close_while_registered_refuted_pinned :
  (let s := final (cstep true true) cinit
              [CBegin DR; CStep DR ABlock; CBegin DS; CStep DS ABlock; CClose;
               CCallback DR; CStep DR ABlock; CCallback DS; CStep DS ABlock] in
   c_closing s = true /\ c_phr s = CParked /\ c_phs s = CParked /\ c_fdopen s = true /\
   c_cbr s = false /\ c_cbw s = false /\ c_cwr s = true) /\
  (let s := final (cstep true false) cinit
              [CBegin DR; CStep DR ABlock; CBegin DS; CStep DS ABlock; CClose; CCallback DR; CCallback DS] in
   c_cwr s = true /\ c_errs s = 2 /\ c_regr s = true /\ c_regw s = true /\ c_sclosed s = true) /\
  (let s := final (cstep false true) cinit
              [CBegin DR; CStep DR ABlock; CBegin DS; CStep DS ABlock; CClose;
               CCallback DR; CStep DR ABlock; CCallback DS; CStep DS ABlock] in
   c_phr s = CIdle /\ c_phs s = CIdle /\ c_fdopen s = false /\ c_cwr s = false /\ c_errs s = 0).
Proof. exact unix_close_while_registered_refuted_pinned. Qed.
Print Assumptions C18_unix_close_while_registered_refuted_pinned.

(* finding F45 (fixed, commit 58a3fa8): no unbounded buffering after a cancelled send() *)
Theorem C18_send_buffer_holds_at_most_one_send : forall r0 s,
  reachv false r0 s -> g_pending s <= 1.
Proof. exact send_buffer_holds_at_most_one_send. Qed.
Print Assumptions C18_send_buffer_holds_at_most_one_send.

Theorem C18_send_prewait_released_means_drained : forall r0 s t ev,
  reachv false r0 s -> phase_of s t = SendWait ev FSet -> prew s t <> None -> g_pending s = 0.
Proof. exact send_prewait_released_means_drained. Qed.
Print Assumptions C18_send_prewait_released_means_drained.

Theorem C18_send_buffer_holds_at_most_one_send_refuted_pinned :
  let ops := [Send 1 [1]%Z; Resume 1 true; Cancel 1; Resume 1 false;
              Send 1 [2]%Z; Resume 1 false; Cancel 1; Resume 1 false;
              Send 1 [3]%Z; Resume 1 false; Cancel 1; Resume 1 false;
              Send 1 [4]%Z; Resume 1 false] in
  let s := final (stepv true) (init false) ops in
  g_pending s = 4 /\ g_written s = [1; 2; 3; 4]%Z /\ wval s (wev s) = false /\
  (let s' := final (stepv false) (init false) ops in g_pending s' = 1 /\ g_written s' = [1]%Z).
Proof. exact send_buffer_holds_at_most_one_send_refuted_pinned. Qed.
Print Assumptions C18_send_buffer_holds_at_most_one_send_refuted_pinned.

(* finding F44 (fixed, commit a778493): a cancelled aclose() still aborts; the connection_lost owed by the transport wakes
   every parked call, which ends with ClosedResourceError *)
Theorem C18_sock_cancelled_close_still_aborts : forall s t pw,
  phase_of s t = CloseYield ->
  let s' := fst (stepv false s (Resume t pw)) in
  aborted s' = true /\ phase_of s' t = Idle /\ closed s' = closed s /\
  snd (stepv false s (Resume t pw)) = (if mustc s t then RCancelled else RDone).
Proof. exact sock_cancelled_close_still_aborts. Qed.
Print Assumptions C18_sock_cancelled_close_still_aborts.

Theorem C18_sock_connection_lost_wakes_everyone : forall p r0 s e,
  reachv p r0 s ->
  let s' := fst (stepv p s (ConnectionLost e)) in
  (forall t mx, phase_of s' t <> RecvWait mx FPending) /\
  (forall t ev, phase_of s' t = SendWait ev FPending -> ev <> wev s').
Proof. exact sock_connection_lost_wakes_everyone. Qed.
Print Assumptions C18_sock_connection_lost_wakes_everyone.

Theorem C18_sock_woken_calls_on_closed_stream : forall s t pw,
  closed s = true -> mustc s t = false ->
  (forall ev, phase_of s t = SendWait ev FSet -> snd (stepv false s (Resume t pw)) = RClosed) /\
  (forall mx, phase_of s t = RecvWait mx FSet ->
     snd (stepv false s (Resume t pw)) = match rq s with [] => RClosed | hd :: _ => RData (firstn mx hd) end).
Proof. exact sock_woken_calls_on_closed_stream. Qed.
Print Assumptions C18_sock_woken_calls_on_closed_stream.

Theorem C18_sock_cancelled_close_still_aborts_refuted_pinned :
  let ops := [Send 1 [7]%Z; Resume 1 true; Receive 2 4; Close 3; Cancel 3; Resume 3 false] in
  let s := final (stepv true) (init false) ops in
  closed s = true /\ aborted s = false /\ phase_of s 3 = Idle /\
  phase_of s 1 = SendWait 1 FPending /\ phase_of s 2 = RecvWait 4 FPending /\
  (let s' := final (stepv false) (init false) ops in aborted s' = true).
Proof. exact sock_cancelled_close_still_aborts_refuted_pinned. Qed.
Print Assumptions C18_sock_cancelled_close_still_aborts_refuted_pinned.
