(* C01 — Task group join: no child outlives its task group block.
   This file contains only statements closed by `exact` and their Print Assumptions.
   `reach s` = s is the state after some op list run from `init` (every program, every schedule). *)
From AV Require Import Base Machine GroupInv GroupThms GroupThms4 GroupThms5 GroupThms7 GroupThms10 NativeAbsorbed.

(* the step at which __aexit__ of group g returns/raises (ghost flag g_left flips): every task ever spawned into g
   is done and its task_done callback has run — for EVERY op sequence *)
Theorem C01_group_exit_joins_all_step : forall s o g, reach s ->
  g_left (groups s g) = false -> g_left (groups (fst (step s o)) g) = true ->
  g_tasks (groups (fst (step s o)) g) = [] /\
  forall t, In t (g_ever (groups (fst (step s o)) g)) ->
    k_done (tasks (fst (step s o)) t) <> None /\ k_tdran (tasks (fst (step s o)) t) = true.
Proof. exact group_exit_joins_all_step. Qed.
Print Assumptions C01_group_exit_joins_all_step.

Theorem C01_empty_group_all_joined : forall s g, reach s -> g_tasks (groups s g) = [] ->
  forall t, In t (g_ever (groups s g)) -> k_done (tasks s t) <> None /\ k_tdran (tasks s t) = true.
Proof. exact empty_group_all_joined. Qed.
Print Assumptions C01_empty_group_all_joined.

Theorem C01_group_tasks_are_pending_members : forall s g t, reach s ->
  (In t (g_tasks (groups s g)) <-> In t (g_ever (groups s g)) /\ k_tdran (tasks s t) = false).
Proof. exact group_tasks_are_pending_members. Qed.
Print Assumptions C01_group_tasks_are_pending_members.

(* members are added only by an accepted spawn, i.e. while the group is entered and its cancel scope active *)
Theorem C01_group_members_grow_only_by_spawn : forall s o g, reach s ->
  g_ever (groups (fst (step s o)) g) <> g_ever (groups s g) ->
  (exists t, (o = ASpawn t g \/ o = AStart t g) /\ idle s t = true /\ group_active s g = true /\
             g_ever (groups (fst (step s o)) g) = g_ever (groups s g) ++ [ntask s]) \/
  (exists t, o = AGroupNew t /\ g = ngroup s).
Proof. exact group_members_grow_only_by_spawn. Qed.
Print Assumptions C01_group_members_grow_only_by_spawn.

Theorem C01_no_step_after_done : forall s t, reach s -> k_done (tasks s t) <> None ->
  k_ctl (tasks s t) = CDone /\ running s <> Some t /\ idle s t = false /\
  (forall h, In h (ready s) -> h <> HStep t /\ forall f, h <> HWake t f) /\
  (forall o, actor o = Some t -> step s o = (s, RRejected)).
Proof. exact no_step_after_done. Qed.
Print Assumptions C01_no_step_after_done.

(* done / task_done-ran / coroutine outcome are never retracted; group, handle scope, event, start future are fixed *)
Theorem C01_task_facts_stable : forall s o, reach s ->
  (ntask s <= ntask (fst (step s o)) /\ ngroup s <= ngroup (fst (step s o))) /\
  forall t, t < ntask s ->
    k_group (tasks (fst (step s o)) t) = k_group (tasks s t) /\
    k_hscope (tasks (fst (step s o)) t) = k_hscope (tasks s t) /\
    k_hevent (tasks (fst (step s o)) t) = k_hevent (tasks s t) /\
    k_startfut (tasks (fst (step s o)) t) = k_startfut (tasks s t) /\
    (forall x, k_done (tasks s t) = Some x -> k_done (tasks (fst (step s o)) t) = Some x) /\
    (k_tdran (tasks s t) = true -> k_tdran (tasks (fst (step s o)) t) = true) /\
    (forall x, k_final (tasks s t) = Some x -> k_final (tasks (fst (step s o)) t) = Some x).
Proof. exact task_facts_stable. Qed.
Print Assumptions C01_task_facts_stable.

Theorem C01_handle_outcome_faithful : forall s t o, reach s -> k_group (tasks s t) <> None ->
  k_final (tasks s t) = Some o ->
  e_set (events s (k_hevent (tasks s t))) = true /\
  match o with
  | ORet v => k_hret (tasks s t) = Some v /\ k_hexc (tasks s t) = None
  | OExc e => k_hexc (tasks s t) = Some e /\ k_hret (tasks s t) = None
  | OCanc _ => False
  end /\
  handle_status s (tasks s t) =
    match o with ORet _ => 3%Z | OExc e => if is_cancel e then 5%Z else 4%Z | OCanc _ => 5%Z end.
Proof. exact handle_outcome_faithful. Qed.
Print Assumptions C01_handle_outcome_faithful.

(* a done child has its finished event set, except when it was cancelled before its first step *)
Theorem C01_done_child_finished_or_never_started : forall s t, reach s -> k_group (tasks s t) <> None ->
  k_done (tasks s t) <> None ->
  (exists o, k_final (tasks s t) = Some o /\ e_set (events s (k_hevent (tasks s t))) = true) \/
  (k_final (tasks s t) = None /\ exists e, k_done (tasks s t) = Some (OCanc e)).
Proof. exact done_child_finished_or_never_started. Qed.
Print Assumptions C01_done_child_finished_or_never_started.

(* ---- state form, for op sequences that respect the `async with create_task_group()` discipline ----
   disciplined ops = every op satisfies GroupThms10.okop in the state in which it is issued:
   AEnter only on scopes that are not a task group's cancel_scope; AGroupEnter only on existing groups;
   AGroupExit t g only by the host of the group's active scope with that scope on top of t's scope stack.
   Every other op (spawn from anywhere, cancel anything, any schedule, native cancellation) is unrestricted.
   Without the discipline the statement is false: GroupThms7.group_exit_joins_all_refuted_*. *)
Theorem C01_group_exit_joins_all : forall ops g, disciplined ops = true ->
  g_left (groups (final step init ops) g) = true ->
  g_tasks (groups (final step init ops) g) = [] /\
  forall t, In t (g_ever (groups (final step init ops) g)) ->
    k_done (tasks (final step init ops) t) <> None /\ k_tdran (tasks (final step init ops) t) = true.
Proof. exact group_exit_joins_all_ops. Qed.
Print Assumptions C01_group_exit_joins_all.

Theorem C01_no_spawn_after_left : forall ops o g, disciplined ops = true ->
  g_left (groups (final step init ops) g) = true -> okop (final step init ops) o = true ->
  g_ever (groups (fst (step (final step init ops) o)) g) = g_ever (groups (final step init ops) g) /\
  g_left (groups (fst (step (final step init ops) o)) g) = true.
Proof. exact no_spawn_after_left_ops. Qed.
Print Assumptions C01_no_spawn_after_left.

Theorem C01_left_group_is_inactive : forall ops g, disciplined ops = true ->
  g_left (groups (final step init ops) g) = true -> group_active (final step init ops) g = false.
Proof. exact left_group_is_inactive_ops. Qed.
Print Assumptions C01_left_group_is_inactive.

(* ---- known finding F24: "every task handle reports a final status" is refuted for a child that never ran ----
   The join theorems above carry the explicit exception of a child natively cancelled (Task.cancel() by a third
   party) before its first step.  For that child the clause is false of the faithful model and of the code
   (corpus/C01/f24_*.json, replayed against the implementation on every run): TaskHandle._run_coro never starts, so
   after the block has been left the handle's finished event is still unset and no outcome is recorded. *)
Theorem C01_never_ran_handle_pending_refuted :
  let s := final step init f24_ops in
  g_left (groups s 1%nat) = true /\ k_ctl (tasks s 2%nat) = CDone /\
  e_set (events s (k_hevent (tasks s 2%nat))) = false /\ k_hexc (tasks s 2%nat) = None /\ k_hret (tasks s 2%nat) = None.
Proof. exact never_ran_handle_pending_witness. Qed.
Print Assumptions C01_never_ran_handle_pending_refuted.
