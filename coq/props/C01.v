(* C01 — Task group join: no child outlives its task group block.
   This file contains only statements closed by `exact` and their Print Assumptions. *)
From AV Require Import Base Machine GroupInv GroupThms.

Theorem C01_no_step_after_done : forall s t, reach s -> k_done (tasks s t) <> None ->
  k_ctl (tasks s t) = CDone /\ running s <> Some t /\ idle s t = false /\
  (forall h, In h (ready s) -> h <> HStep t /\ forall f, h <> HWake t f) /\
  (forall o, actor o = Some t -> step s o = (s, RRejected)).
Proof. exact no_step_after_done. Qed.
Print Assumptions C01_no_step_after_done.

Theorem C01_empty_group_all_joined : forall s g, reach s -> g_tasks (groups s g) = [] ->
  forall t, In t (g_ever (groups s g)) -> k_done (tasks s t) <> None /\ k_tdran (tasks s t) = true.
Proof. exact empty_group_all_joined. Qed.
Print Assumptions C01_empty_group_all_joined.

Theorem C01_handle_outcome_faithful : forall s t o, reach s -> k_group (tasks s t) <> None ->
  k_final (tasks s t) = Some o ->
  e_set (events s (k_hevent (tasks s t))) = true /\
  match o with
  | ORet v => k_hret (tasks s t) = Some v /\ k_hexc (tasks s t) = None
  | OExc e => k_hexc (tasks s t) = Some e /\ k_hret (tasks s t) = None
  | OCanc _ => False
  end /\
  handle_status s (tasks s t) =
    match o with ORet _ => 3%Z | OExc e => if is_cancel e then 5%Z else 4%Z | OCanc _ => 5%Z end.
Proof. exact handle_outcome_faithful. Qed.
Print Assumptions C01_handle_outcome_faithful.

Theorem C01_done_child_finished_or_never_started : forall s t, reach s -> k_group (tasks s t) <> None ->
  k_done (tasks s t) <> None ->
  (exists o, k_final (tasks s t) = Some o /\ e_set (events s (k_hevent (tasks s t))) = true) \/
  (k_final (tasks s t) = None /\ exists e, k_done (tasks s t) = Some (OCanc e)).
Proof. exact done_child_finished_or_never_started. Qed.
Print Assumptions C01_done_child_finished_or_never_started.
