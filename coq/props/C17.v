(* C17 — TLS streams: faithful transport over any fragmentation, truncation detected (proof, partial).
   Only statements closed by `exact`, each followed by Print Assumptions.
   Theorems 1-6, 12, 15 and 16 are about the pump loop for EVERY SSL-object oracle `ocall` (any stateful function, in
   particular any script), every transport script (fragmentation, cut point, failures) and every operation sequence.
   Exact hypotheses that are easy to overlook:
     * 1 (conservation) has two guards, both sticky ghost flags of the model:
         sendfail s = false  - no transport.send() has raised so far.  A raising send() was handed bytes that the
                               pump had already taken out of the outgoing BIO; they are lost, so after such a failure
                               only the frame conditions remain (the stream is broken anyway);
         late s = false      - the transport has not delivered data AFTER reporting its own EndOfStream (then
                               MemoryBIO.write() refuses the data; no transport obeying the ByteReceiveStream contract
                               does this).
       The third clause (fed = consumed ++ incoming BIO) is unconditional.  Both guards are false on ordinary runs
       (Examples ex_conserved_and_flushed, ex_conservation_guards_false_duplex in TlsPumpProofs.v); what they exclude
       is exhibited by ex_sendfail_excluded / ex_late_excluded.
     * 6 (receive <= max_bytes) is NOT for every oracle: it has the premise that the oracle's read(n) returns at most
       n bytes (a clause of the SSL contract H_ssl; the toy layer satisfies it, 7; the harness observes it on OpenSSL).
       Without that premise only "receive returns exactly what read() returned, and never an empty result" holds (5).
   Theorems 7-11 and 13-14 are about the toy record layer `toy_call`, a concrete SSL object that satisfies the
   record-layer contract H_ssl; OpenSSL itself is not modelled (the harness observes it). *)
From AV Require Import Base TlsPump TlsPumpProofs.

(* 1. ciphertext conservation: while no transport.send() has failed, what the SSL object appended to the outgoing
      BIO is exactly what was sent, in order, plus what is still pending; while the transport delivered no data
      after its own end of stream, what it delivered is exactly what was written to the incoming BIO, in order;
      the incoming BIO holds exactly the fed bytes the SSL object has not consumed yet *)
Theorem C17_pump_ciphertext_conserved :
  forall (O : Type) (ocall : O -> func -> list nat -> bool -> option (O * sslev))
         fuel o0 sc rx tail tx ops,
    let s := snd (fst (run O ocall fuel (o0, init_pst sc rx tail tx) ops)) in
    (sendfail s = false -> produced s = sent_of (trace s) ++ bout s) /\
    (late s = false -> rcvd_of (trace s) = fed s) /\
    fed s = consumed s ++ bin s.
Proof. exact pump_ciphertext_conserved. Qed.
Print Assumptions C17_pump_ciphertext_conserved.

(* 2. a call that returns normally leaves nothing unsent in the outgoing BIO *)
Theorem C17_pump_ok_leaves_nothing_unsent :
  forall (O : Type) (ocall : O -> func -> list nat -> bool -> option (O * sslev)) fuel o f s o' s' v,
    pump O ocall fuel o f s = (o', s', RVal v) -> bout s' = [].
Proof. exact pump_ok_leaves_nothing_unsent. Qed.
Print Assumptions C17_pump_ok_leaves_nothing_unsent.

(* 3. transport.receive() is never awaited while produced ciphertext is still unsent *)
Theorem C17_pump_flushes_before_wait :
  forall (O : Type) (ocall : O -> func -> list nat -> bool -> option (O * sslev))
         fuel o0 sc rx tail tx ops,
    let s := snd (fst (run O ocall fuel (o0, init_pst sc rx tail tx) ops)) in
    forall p r, In (CRecv p r) (trace s) -> p = 0.
Proof. exact pump_flushes_before_wait. Qed.
Print Assumptions C17_pump_flushes_before_wait.

(* 4. standard_compatible: the transport's end of stream reaches the SSL object (write_eof() on the incoming BIO),
      which judges whether the end was legitimate.  (Not standard_compatible: see 13.) *)
Theorem C17_pump_transport_eof_reaches_bio :
  forall (O : Type) (ocall : O -> func -> list nat -> bool -> option (O * sslev))
         fuel o0 rx tail tx ops,
    let s := snd (fst (run O ocall fuel (o0, init_pst true rx tail tx) ops)) in
    forall p, In (CRecv p RxEof) (trace s) -> bin_eof s = true.
Proof. exact pump_transport_eof_reaches_bio. Qed.
Print Assumptions C17_pump_transport_eof_reaches_bio.

(* 5. outcome of receive(n) as a function of the SSL object's LAST answer e to read(n):
      unexpected EOF |-> BrokenResourceError if standard_compatible, EndOfStream otherwise;
      EndOfStream is reported only for an empty read (close_notify, by the contract) or, when not
      standard_compatible, for an unexpected EOF reported by the SSL object or for the transport's own end while the
      SSL object wants to read; hence never for a truncated stream when standard_compatible;
      a value is returned only if read() returned that (non-empty) value *)
Theorem C17_pump_eof_mapping :
  forall (O : Type) (ocall : O -> func -> list nat -> bool -> option (O * sslev))
         fuel o s n o' s' r,
    step O ocall fuel (o, s) (OReceive n) = ((o', s'), r) -> r <> RStuck -> r <> RValueError ->
    exists pre e, olog s' = pre ++ [(FRead n, e)] /\ answered O ocall (FRead n) e /\
      (unexpected_eof e -> r = if std s then RBroken else REndOfStream) /\
      (r = REndOfStream -> (ek e = KOk /\ eval e = []) \/ (std s = false /\ (unexpected_eof e \/ ek e = KWantRead))) /\
      (std s = true -> r = REndOfStream -> ek e = KOk /\ eval e = []) /\
      (forall v, r = RVal v -> ek e = KOk /\ eval e = v /\ v <> []).
Proof. exact pump_eof_mapping. Qed.
Print Assumptions C17_pump_eof_mapping.

(* 6. receive never returns more than max_bytes (nor an empty result) - for every oracle THAT satisfies the contract
      clause "read(n) returns at most n bytes" (first premise) *)
Theorem C17_pump_receive_le_max_bytes :
  forall (O : Type) (ocall : O -> func -> list nat -> bool -> option (O * sslev)),
    (forall o n b be o1 e, ocall o (FRead n) b be = Some (o1, e) -> ek e = KOk -> length (eval e) <= n) ->
    forall fuel o s n o' s' v,
      step O ocall fuel (o, s) (OReceive n) = ((o', s'), RVal v) -> 1 <= length v <= n.
Proof. exact pump_receive_le_max_bytes. Qed.
Print Assumptions C17_pump_receive_le_max_bytes.

(* 7. the toy record layer satisfies that clause of the contract *)
Theorem C17_toy_read_le :
  forall o n b be o1 e, toy_call o (FRead n) b be = Some (o1, e) -> ek e = KOk -> length (eval e) <= n.
Proof. exact toy_read_le. Qed.
Print Assumptions C17_toy_read_le.

Theorem C17_toy_receive_le_max_bytes :
  forall fuel o s n o' s' v, tstep fuel (o, s) (OReceive n) = ((o', s'), RVal v) -> 1 <= length v <= n.
Proof. exact toy_receive_le_max_bytes. Qed.
Print Assumptions C17_toy_receive_le_max_bytes.

(* 8. end-to-end transparency of one endpoint (toy SSL object + pump).  The transport delivers, in ANY chunking
      `chunks`, all but the last D bytes of what the peer put on the wire (handshake, records of the items
      `pitems` of any sizes, close_notify) and then ends; the endpoint handshakes and performs ANY sequence of
      send and receive operations (any receive sizes).  Then: no call blocks; the received plaintext is a prefix
      of the peer's plaintext; an EndOfStream under standard_compatible (or with complete delivery) means
      complete delivery AND all plaintext received; BrokenResourceError only for a truncated stream under
      standard_compatible; the endpoint's own wire output is handshake + records of the accepted items;
      an EndOfStream with at most the close_notify (2 bytes) missing means all plaintext received; when not
      standard_compatible (or with complete delivery) and the peer's hello arrived, EVERY send is accepted -
      also after a ragged end was reported - and nothing is left unsent. *)
Theorem C17_tls_transparent_under_ssl_contract :
  forall m sc pitems chunks D ops fuel,
    forallb sendrecv ops = true ->
    (exists tl, wire m pitems true = concat chunks ++ tl /\ length tl = D) ->
    length chunks + 3 <= fuel ->
    let out := trun fuel (init_tobj m, ep0 sc chunks) (OHandshake :: ops) in
    let rs := snd out in
    let s' := snd (fst out) in
    ~ In RStuck rs /\
    (exists rest, concat pitems = received (OHandshake :: ops) rs ++ rest) /\
    (In REndOfStream rs -> sc = true \/ D = 0 -> D = 0 /\ received (OHandshake :: ops) rs = concat pitems) /\
    (In RBroken rs -> 0 < D /\ sc = true) /\
    produced s' = hello_rec ++ concat (map (records m) (accepted (OHandshake :: ops) rs)) /\
    sent_of (trace s') ++ bout s' = produced s' /\
    (In REndOfStream rs -> D <= 2 -> received (OHandshake :: ops) rs = concat pitems) /\
    (sc = false \/ D = 0 -> 2 <= length (concat chunks) ->
     accepted (OHandshake :: ops) rs = sends_of ops /\ bout s' = []).
Proof. exact tls_endpoint_transparent. Qed.
Print Assumptions C17_tls_transparent_under_ssl_contract.

(* 9. reading to the end: with more receive calls than plaintext bytes the end is reached and reported as
      EndOfStream with everything delivered (complete stream), BrokenResourceError and never EndOfStream
      (truncated, standard_compatible), EndOfStream (truncated, not standard_compatible) *)
Theorem C17_tls_receive_all :
  forall m sc pitems chunks D n k fuel,
    (exists tl, wire m pitems true = concat chunks ++ tl /\ length tl = D) ->
    length chunks + 3 <= fuel -> length (concat pitems) < k ->
    let ops := OHandshake :: repeat (OReceive (S n)) k in
    let rs := snd (trun fuel (init_tobj m, ep0 sc chunks) ops) in
    (D = 0 -> received ops rs = concat pitems /\ In REndOfStream rs /\ ~ In RBroken rs) /\
    (0 < D -> sc = true -> In RBroken rs /\ ~ In REndOfStream rs) /\
    (0 < D -> sc = false -> In REndOfStream rs /\ ~ In RBroken rs) /\
    (D <= 2 -> sc = false -> received ops rs = concat pitems).
Proof. exact tls_receive_all. Qed.
Print Assumptions C17_tls_receive_all.

(* 10. what an endpoint puts on the wire does not depend on what it receives *)
Theorem C17_toy_sender_wire :
  forall m sc rx tail ops fuel,
    forallb sendrecv ops = true -> 1 <= fuel ->
    let out := trun fuel (init_tobj m, init_pst sc rx tail []) (OHandshake :: ops) in
    produced (snd (fst out)) = hello_rec ++ concat (map (records m) (accepted (OHandshake :: ops) (snd out))) /\
    sent_of (trace (snd (fst out))) ++ bout (snd (fst out)) = produced (snd (fst out)).
Proof. exact toy_sender_wire. Qed.
Print Assumptions C17_toy_sender_wire.

(* 11. both directions at once: two endpoints, each fed (in any chunking) a prefix of what the other sent:
       what each receives is a prefix of the plaintext the other one's send() calls accepted *)
Theorem C17_tls_pair_transparent :
  forall m scA scB opsA opsB chunksA chunksB fuel,
    forallb sendrecv opsA = true -> forallb sendrecv opsB = true ->
    length chunksA + 3 <= fuel -> length chunksB + 3 <= fuel ->
    let outA := trun fuel (init_tobj m, ep0 scA chunksA) (OHandshake :: opsA) in
    let outB := trun fuel (init_tobj m, ep0 scB chunksB) (OHandshake :: opsB) in
    prefix (concat chunksA) (sent_of (trace (snd (fst outB)))) ->
    prefix (concat chunksB) (sent_of (trace (snd (fst outA)))) ->
    prefix (received (OHandshake :: opsA) (snd outA)) (concat (accepted (OHandshake :: opsB) (snd outB))) /\
    prefix (received (OHandshake :: opsB) (snd outB)) (concat (accepted (OHandshake :: opsA) (snd outA))).
Proof. exact tls_pair_transparent. Qed.
Print Assumptions C17_tls_pair_transparent.

(* 12. fix c5df3e8, for EVERY SSL-object oracle and transport script: after a receive() that ended with the
       transport's EndOfStream under standard_compatible=False (the SSL object's last answer was "want read"),
       neither BIO is at EOF, nothing is pending, the transport call that ended it was the receive, and a following
       send() IS the SSL object's write on the untouched BIOs, its ciphertext flushed to the transport *)
Theorem C17_pump_ragged_eof_keeps_send_alive :
  forall (O : Type) (ocall : O -> func -> list nat -> bool -> option (O * sslev))
         fuel o s n o1 s1 pre e,
    std s = false ->
    step O ocall fuel (o, s) (OReceive n) = ((o1, s1), REndOfStream) ->
    olog s1 = pre ++ [(FRead n, e)] -> ek e = KWantRead ->
    bin_eof s1 = bin_eof s /\ bout_eof s1 = bout_eof s /\ bout s1 = [] /\
    (exists p tr, trace s1 = tr ++ [CRecv p RxEof]) /\
    forall item o2 e2 fuel2,
      ocall o1 (FWrite item) (bin s1) (bin_eof s) = Some (o2, e2) -> ek e2 = KOk ->
      hd TxOk (txs s1) = TxOk ->
      exists s2, step O ocall (S fuel2) (o1, s1) (OSend item) = ((o2, s2), RVal []) /\
        sent_of (trace s2) = sent_of (trace s1) ++ eemit e2 /\ bout s2 = [] /\
        produced s2 = produced s1 ++ eemit e2 /\
        bin s2 = skipn (econs e2) (bin s1) /\ bin_eof s2 = bin_eof s /\ bout_eof s2 = bout_eof s.
Proof. exact pump_ragged_eof_keeps_send_alive. Qed.
Print Assumptions C17_pump_ragged_eof_keeps_send_alive.

(* 13. closed end-to-end statement (toy record layer, not standard_compatible): the client sends `req` and half-closes
       its transport without close_notify; the server reads to the end (EndOfStream, never BrokenResourceError), THEN
       sends `replies`: all accepted, all on the wire, and the client - fed any chunking of them - receives them
       byte for byte *)
Theorem C17_tls_half_close_reply_delivered :
  forall m req replies chunksS chunksC n k kc fuel,
    concat chunksS = wire m req false ->
    length (concat req) < k -> length (concat replies) < kc ->
    length chunksS + 3 <= fuel -> length chunksC + 3 <= fuel ->
    let opsS := OHandshake :: repeat (OReceive (S n)) k ++ map OSend replies in
    let outS := trun fuel (init_tobj m, ep0 false chunksS) opsS in
    received opsS (snd outS) = concat req /\ In REndOfStream (snd outS) /\ ~ In RBroken (snd outS) /\
    accepted opsS (snd outS) = replies /\
    sent_of (trace (snd (fst outS))) = wire m replies false /\
    (concat chunksC = sent_of (trace (snd (fst outS))) ->
     let opsC := OHandshake :: repeat (OReceive (S n)) kc in
     received opsC (snd (trun fuel (init_tobj m, ep0 false chunksC) opsC)) = concat replies).
Proof. exact tls_half_close_reply_delivered. Qed.
Print Assumptions C17_tls_half_close_reply_delivered.

(* 14. regression witnesses for the tree before c5df3e8 (pump_pinned hands the transport's end to the SSL object also
       when not standard_compatible): 13 is false of it - same toy object, same transport, same operations: the
       reply is refused and never reaches the wire *)
Theorem C17_tls_half_close_reply_delivered_refuted_pinned :
  exists m req replies chunksS n k fuel,
    concat chunksS = wire m req false /\ length (concat req) < k /\ length chunksS + 3 <= fuel /\
    let opsS := OHandshake :: repeat (OReceive (S n)) k ++ map OSend replies in
    let outS := trun_pinned fuel (init_tobj m, ep0 false chunksS) opsS in
    received opsS (snd outS) = concat req /\ In REndOfStream (snd outS) /\
    accepted opsS (snd outS) = [] /\ replies <> [] /\
    sent_of (trace (snd (fst outS))) = wire m [] false /\
    accepted opsS (snd (trun fuel (init_tobj m, ep0 false chunksS) opsS)) = replies /\
    sent_of (trace (snd (fst (trun fuel (init_tobj m, ep0 false chunksS) opsS)))) = wire m replies false.
Proof. exact tls_half_close_reply_delivered_refuted_pinned. Qed.
Print Assumptions C17_tls_half_close_reply_delivered_refuted_pinned.

(* 15. the same statement for both pumps (step_v pinned = step_pinned / step).  ragged_eof_spec pinned says: not
       standard_compatible, receive() ended with EndOfStream and the SSL object's last answer e was NOT its own
       unexpected-EOF verdict (so e is "want read" - the end was the transport's - or an empty read): then both BIOs are
       as before, nothing is pending, and a following send() is the SSL object's write on those BIOs, flushed.
       It is unfolded here: proved for the fixed pump ... *)
Theorem C17_pump_ragged_eof_spec_head :
  forall (O : Type) (ocall : O -> func -> list nat -> bool -> option (O * sslev)) fuel o s n o1 s1 pre e,
    std s = false ->
    step_v false O ocall fuel (o, s) (OReceive n) = ((o1, s1), REndOfStream) ->
    olog s1 = pre ++ [(FRead n, e)] -> ~ unexpected_eof e ->
    bin_eof s1 = bin_eof s /\ bout_eof s1 = bout_eof s /\ bout s1 = [] /\
    forall item o2 e2 fuel2,
      ocall o1 (FWrite item) (bin s1) (bin_eof s) = Some (o2, e2) -> ek e2 = KOk ->
      hd TxOk (txs s1) = TxOk ->
      exists s2, step_v false O ocall (S fuel2) (o1, s1) (OSend item) = ((o2, s2), RVal []) /\
        sent_of (trace s2) = sent_of (trace s1) ++ eemit e2 /\ bout s2 = [] /\
        produced s2 = produced s1 ++ eemit e2 /\
        bin s2 = skipn (econs e2) (bin s1) /\ bin_eof s2 = bin_eof s /\ bout_eof s2 = bout_eof s.
Proof. exact pump_ragged_eof_spec_head. Qed.
Print Assumptions C17_pump_ragged_eof_spec_head.

(* ... and refuted, word for word, for the pinned pump (witness: the transport ends, the pinned pump tells the SSL
   object, which answers with an empty read: EndOfStream is reported with the incoming BIO at EOF) *)
Theorem C17_pump_ragged_eof_spec_refuted_pinned :
  ~ (forall (O : Type) (ocall : O -> func -> list nat -> bool -> option (O * sslev)) fuel o s n o1 s1 pre e,
      std s = false ->
      step_v true O ocall fuel (o, s) (OReceive n) = ((o1, s1), REndOfStream) ->
      olog s1 = pre ++ [(FRead n, e)] -> ~ unexpected_eof e ->
      bin_eof s1 = bin_eof s /\ bout_eof s1 = bout_eof s /\ bout s1 = [] /\
      forall item o2 e2 fuel2,
        ocall o1 (FWrite item) (bin s1) (bin_eof s) = Some (o2, e2) -> ek e2 = KOk ->
        hd TxOk (txs s1) = TxOk ->
        exists s2, step_v true O ocall (S fuel2) (o1, s1) (OSend item) = ((o2, s2), RVal []) /\
          sent_of (trace s2) = sent_of (trace s1) ++ eemit e2 /\ bout s2 = [] /\
          produced s2 = produced s1 ++ eemit e2 /\
          bin s2 = skipn (econs e2) (bin s1) /\ bin_eof s2 = bin_eof s /\ bout_eof s2 = bout_eof s).
Proof. exact pump_ragged_eof_spec_refuted_pinned. Qed.
Print Assumptions C17_pump_ragged_eof_spec_refuted_pinned.

(* 16. behavioural contrast (NOT a refutation of a statement; two scripts chosen to mimic the poisoned and the healthy
       SSL object): with an object that, like OpenSSL 3, keeps reporting the unexpected EOF once it has seen it, the
       pinned pump makes send() raise EndOfStream and write nothing, both BIOs at EOF; the fixed pump never tells the
       object, which performs the write *)
Theorem C17_pump_ragged_eof_pinned_contrast :
  exists (poisoned healthy : list sslev),
    let out := srun_pinned 5 (poisoned, init_pst false [] (Some RxEof) []) [OReceive 10; OSend [1; 2]] in
    snd out = [REndOfStream; REndOfStream] /\ sent_of (trace (snd (fst out))) = [] /\
    bin_eof (snd (fst out)) = true /\ bout_eof (snd (fst out)) = true /\
    let out' := srun 5 (healthy, init_pst false [] (Some RxEof) []) [OReceive 10; OSend [1; 2]] in
    snd out' = [REndOfStream; RVal []] /\ sent_of (trace (snd (fst out'))) = [23; 3; 3; 0; 2; 2; 3] /\
    bin_eof (snd (fst out')) = false /\ bout_eof (snd (fst out')) = false.
Proof. exact pump_ragged_eof_pinned_contrast. Qed.
Print Assumptions C17_pump_ragged_eof_pinned_contrast.
