(* C08, itertools clause — an error-free complete traversal of an anyio.itertools iterator over synchronous
   sources, or one that yields nothing, passes a checkpoint: passes_ck = the trace contains a cancellation check
   (checkpoint / checkpoint_if_cancelled) AND a real yield (checkpoint / cancel_shielded_checkpoint); and no element
   is handed out before the first cancellation check (check_before_first_yield_value).  Infinite iterators: every non-empty prefix.
   reduce (after the F22 fix): cancellation check first, a real yield at the end, at full strength.
   This file contains only statements closed by `exact` and their Print Assumptions. *)
From AV Require Import Base Itertools ItertoolsProofs ItertoolsTee ItertoolsAlias.

Theorem C08_accumulate_checkpoints : forall (f : Z -> Z -> option Z) (initial : option Z) (s : src),
  snd (accumulate_model f initial s) = None ->
  is_sync (fst s) = true \/ yields (fst (accumulate_model f initial s)) = [] ->
  passes_ck (fst (accumulate_model f initial s)) = true /\
  check_before_first_yield_value (fst (accumulate_model f initial s)) = true.
Proof. exact accumulate_checkpoints. Qed.
Print Assumptions C08_accumulate_checkpoints.

Theorem C08_batched_checkpoints : forall (n : Z) (strict : bool) (s : src),
  snd (batched_model n strict s) = None ->
  is_sync (fst s) = true \/ yields (fst (batched_model n strict s)) = [] ->
  passes_ck (fst (batched_model n strict s)) = true /\
  check_before_first_yield_value (fst (batched_model n strict s)) = true.
Proof. exact batched_checkpoints. Qed.
Print Assumptions C08_batched_checkpoints.

Theorem C08_chain_checkpoints : forall (outer : kind) (ss : list src),
  is_sync outer = true \/ yields (fst (chain_model outer ss)) = [] ->
  passes_ck (fst (chain_model outer ss)) = true /\
  check_before_first_yield_value (fst (chain_model outer ss)) = true.
Proof. exact chain_checkpoints. Qed.
Print Assumptions C08_chain_checkpoints.

Theorem C08_combinations_checkpoints : forall (r : Z) (s : src),
  snd (combinations_model r s) = None -> passes_ck (fst (combinations_model r s)) = true /\
  check_before_first_yield_value (fst (combinations_model r s)) = true.
Proof. exact combinations_checkpoints. Qed.
Print Assumptions C08_combinations_checkpoints.

Theorem C08_combinations_with_replacement_checkpoints : forall (r : Z) (s : src),
  snd (cwr_model r s) = None -> passes_ck (fst (cwr_model r s)) = true /\
  check_before_first_yield_value (fst (cwr_model r s)) = true.
Proof. exact combinations_with_replacement_checkpoints. Qed.
Print Assumptions C08_combinations_with_replacement_checkpoints.

Theorem C08_compress_checkpoints : forall (d s : src),
  is_sync (fst d) = true \/ yields (fst (compress_model d s)) = [] ->
  passes_ck (fst (compress_model d s)) = true /\
  check_before_first_yield_value (fst (compress_model d s)) = true.
Proof. exact compress_checkpoints. Qed.
Print Assumptions C08_compress_checkpoints.

Theorem C08_count_checkpoints : forall (start step : Z) (k : nat),
  1 <= k -> passes_ck (fst (count_model start step k)) = true /\
  check_before_first_yield_value (fst (count_model start step k)) = true.
Proof. exact count_checkpoints. Qed.
Print Assumptions C08_count_checkpoints.

Theorem C08_cycle_checkpoints : forall (s : src) (k : nat), 1 <= k ->
  is_sync (fst s) = true \/ yields (fst (cycle_model s k)) = [] ->
  passes_ck (fst (cycle_model s k)) = true /\
  check_before_first_yield_value (fst (cycle_model s k)) = true.
Proof. exact cycle_checkpoints. Qed.
Print Assumptions C08_cycle_checkpoints.

Theorem C08_dropwhile_checkpoints : forall (p : Z -> bool) (s : src),
  is_sync (fst s) = true \/ yields (fst (dropwhile_model p s)) = [] ->
  passes_ck (fst (dropwhile_model p s)) = true /\
  check_before_first_yield_value (fst (dropwhile_model p s)) = true.
Proof. exact dropwhile_checkpoints. Qed.
Print Assumptions C08_dropwhile_checkpoints.

Theorem C08_filterfalse_checkpoints : forall (p : Z -> bool) (s : src),
  is_sync (fst s) = true \/ yields (fst (filterfalse_model p s)) = [] ->
  passes_ck (fst (filterfalse_model p s)) = true /\
  check_before_first_yield_value (fst (filterfalse_model p s)) = true.
Proof. exact filterfalse_checkpoints. Qed.
Print Assumptions C08_filterfalse_checkpoints.

Theorem C08_groupby_checkpoints : forall (same : Z -> Z -> bool) (key : Z -> Z) (s : src),
  is_sync (fst s) = true \/ yields (fst (groupby_model same key s)) = [] ->
  passes_ck (fst (groupby_model same key s)) = true /\
  check_before_first_yield_value (fst (groupby_model same key s)) = true.
Proof. exact groupby_checkpoints. Qed.
Print Assumptions C08_groupby_checkpoints.

Theorem C08_islice_checkpoints : forall (args : list (option Z)) (s : src),
  snd (islice_model args s) = None ->
  is_sync (fst s) = true \/ yields (fst (islice_model args s)) = [] ->
  passes_ck (fst (islice_model args s)) = true /\
  check_before_first_yield_value (fst (islice_model args s)) = true.
Proof. exact islice_checkpoints. Qed.
Print Assumptions C08_islice_checkpoints.

Theorem C08_pairwise_checkpoints : forall (s : src),
  is_sync (fst s) = true \/ yields (fst (pairwise_model s)) = [] ->
  passes_ck (fst (pairwise_model s)) = true /\
  check_before_first_yield_value (fst (pairwise_model s)) = true.
Proof. exact pairwise_checkpoints. Qed.
Print Assumptions C08_pairwise_checkpoints.

Theorem C08_permutations_checkpoints : forall (r : option Z) (s : src),
  snd (permutations_model r s) = None -> passes_ck (fst (permutations_model r s)) = true /\
  check_before_first_yield_value (fst (permutations_model r s)) = true.
Proof. exact permutations_checkpoints. Qed.
Print Assumptions C08_permutations_checkpoints.

Theorem C08_product_checkpoints : forall (rep : Z) (ss : list src),
  snd (product_model rep ss) = None -> passes_ck (fst (product_model rep ss)) = true /\
  check_before_first_yield_value (fst (product_model rep ss)) = true.
Proof. exact product_checkpoints. Qed.
Print Assumptions C08_product_checkpoints.

Theorem C08_repeat_checkpoints : forall (x : Z) (times : option Z) (k : nat),
  (times = None -> 1 <= k) -> passes_ck (fst (repeat_model x times k)) = true /\
  check_before_first_yield_value (fst (repeat_model x times k)) = true.
Proof. exact repeat_checkpoints. Qed.
Print Assumptions C08_repeat_checkpoints.

Theorem C08_starmap_checkpoints : forall (f : list Z -> Z) (outer : kind) (ss : list src),
  is_sync outer = true \/ yields (fst (starmap_model f outer ss)) = [] ->
  passes_ck (fst (starmap_model f outer ss)) = true /\
  check_before_first_yield_value (fst (starmap_model f outer ss)) = true.
Proof. exact starmap_checkpoints. Qed.
Print Assumptions C08_starmap_checkpoints.

Theorem C08_takewhile_checkpoints : forall (p : Z -> bool) (s : src),
  is_sync (fst s) = true \/ yields (fst (takewhile_model p s)) = [] ->
  passes_ck (fst (takewhile_model p s)) = true /\
  check_before_first_yield_value (fst (takewhile_model p s)) = true.
Proof. exact takewhile_checkpoints. Qed.
Print Assumptions C08_takewhile_checkpoints.

Theorem C08_zip_longest_checkpoints : forall (fill : Z) (ss : list src),
  all_sync ss = true \/ yields (fst (zip_longest_model fill ss)) = [] ->
  passes_ck (fst (zip_longest_model fill ss)) = true /\
  check_before_first_yield_value (fst (zip_longest_model fill ss)) = true.
Proof. exact zip_longest_checkpoints. Qed.
Print Assumptions C08_zip_longest_checkpoints.

Theorem C08_tee_next_checkpoints : forall (s : tst) (c : nat) (s' : tst) (r : tres) (ev : list (event Z)),
  tstep s (TNext c) = (s', r, ev) -> r <> TRejected ->
  (r = TBlocked /\ (passes_ck ev = true \/ tphase s' c = TLockYield \/ tphase s' c = TLockWait)) \/
  (r = TStop /\ tyielded s c = true).
Proof. exact tee_next_checkpoints. Qed.
Print Assumptions C08_tee_next_checkpoints.

(* functools.reduce after the F22 fix, at full strength (every callback - also one that never yields -, every
   source kind, every initial value): the cancellation check is the very first event, an error-free call yields
   to the event loop, and in an already cancelled scope nothing is consumed and the callback is not called *)
Theorem C08_reduce_checkpoints : forall (f : Z -> Z -> option Z) (initial : option Z) (s : src),
  hd_error (fst (reduce_model f initial s false)) = Some CkIf /\
  (snd (reduce_model f initial s false) = None ->
   passes_ck (fst (reduce_model f initial s false)) = true /\
   check_before_first_yield_value (fst (reduce_model f initial s false)) = true).
Proof. exact reduce_checkpoints. Qed.
Print Assumptions C08_reduce_checkpoints.

Theorem C08_reduce_cancelled : forall (f : Z -> Z -> option Z) (initial : option Z) (s : src),
  reduce_model f initial s true = ([CkIf], Some Cancelled) /\
  has_next (fst (reduce_model f initial s true)) = false /\ has_call (fst (reduce_model f initial s true)) = false.
Proof. exact reduce_cancelled. Qed.
Print Assumptions C08_reduce_cancelled.

Theorem C08_reduce_pre_F22_refuted_pinned :
  exists f initial s, snd (reduce_model_pre_F22 f initial s) = None /\
                      has_ck (fst (reduce_model_pre_F22 f initial s)) = false /\
                      has_call (fst (reduce_model_pre_F22 f initial s)) = true.
Proof. exact reduce_pre_F22_refuted_pinned. Qed.
Print Assumptions C08_reduce_pre_F22_refuted_pinned.

Theorem C08_zip_longest_alias_checkpoints : forall (fill : Z) (kd : ikinds) (st : istore) (ps : list nat),
  forallb (fun i => is_sync (kd i)) ps = true \/ yields (fst (zip_longest_alias_model fill kd st ps)) = [] ->
  passes_ck (fst (zip_longest_alias_model fill kd st ps)) = true /\
  check_before_first_yield_value (fst (zip_longest_alias_model fill kd st ps)) = true.
Proof. exact zip_longest_alias_checkpoints. Qed.
Print Assumptions C08_zip_longest_alias_checkpoints.

(* tee, per consumer - copies made by tee(it_c, k) at any point included (ops may contain TCopy) *)
Theorem C08_tee_consumer_checkpoints : forall (mode : nat) (source : list Z) (n : nat) (ops : list top) (c : nat),
  let s := trun mode source n ops in
  tstopped s c = true ->
  (tseen s c = [] -> 1 <= tcks s c) /\ 1 <= tcks s c + tlocks s c.
Proof. exact tee_consumer_checkpoints. Qed.
Print Assumptions C08_tee_consumer_checkpoints.

Theorem C08_tee_cks_logged : forall (s : tst) (o : top) (s' : tst) (r : tres) (ev : list (event Z)),
  tstep s o = (s', r, ev) ->
  (forall j, j <> op_consumer o -> match o with TCopy _ _ => True | _ => tcks s' j = tcks s j end) /\
  match o with
  | TCopy _ _ => True
  | _ => tcks s' (op_consumer o) = tcks s (op_consumer o) + count_ck ev
  end.
Proof. exact tee_cks_logged. Qed.
Print Assumptions C08_tee_cks_logged.

Theorem C08_chain_alias_checkpoints : forall (outer : kind) (kd : ikinds) (st : istore) (ps : list nat),
  is_sync outer = true \/ yields (fst (chain_alias_model outer kd st ps)) = [] ->
  passes_ck (fst (chain_alias_model outer kd st ps)) = true /\
  check_before_first_yield_value (fst (chain_alias_model outer kd st ps)) = true.
Proof. exact chain_alias_checkpoints. Qed.
Print Assumptions C08_chain_alias_checkpoints.

Theorem C08_product_alias_checkpoints : forall (rep : Z) (kd : ikinds) (st : istore) (ps : list nat),
  snd (product_alias_model rep kd st ps) = None ->
  passes_ck (fst (product_alias_model rep kd st ps)) = true /\
  check_before_first_yield_value (fst (product_alias_model rep kd st ps)) = true.
Proof. exact product_alias_checkpoints. Qed.
Print Assumptions C08_product_alias_checkpoints.

Theorem C08_starmap_alias_checkpoints : forall (f : list Z -> Z) (outer : kind) (kd : ikinds) (st : istore) (ps : list nat),
  is_sync outer = true \/ yields (fst (starmap_alias_model f outer kd st ps)) = [] ->
  passes_ck (fst (starmap_alias_model f outer kd st ps)) = true /\
  check_before_first_yield_value (fst (starmap_alias_model f outer kd st ps)) = true.
Proof. exact starmap_alias_checkpoints. Qed.
Print Assumptions C08_starmap_alias_checkpoints.

Theorem C08_compress_self_checkpoints : forall (s : src),
  is_sync (fst s) = true \/ yields (fst (compress_self_model s)) = [] ->
  passes_ck (fst (compress_self_model s)) = true /\
  check_before_first_yield_value (fst (compress_self_model s)) = true.
Proof. exact compress_self_checkpoints. Qed.
Print Assumptions C08_compress_self_checkpoints.

(* tee, per consumer, with checks and yields counted separately *)
Theorem C08_tee_consumer_passes_checkpoint : forall (mode : nat) (source : list Z) (n : nat) (ops : list top) (c : nat),
  let s := trun mode source n ops in
  tstopped s c = true ->
  (tseen s c = [] -> 1 <= tchk s c /\ 1 <= tyld s c) /\
  ((1 <= tchk s c /\ 1 <= tyld s c) \/ 1 <= tlocks s c).
Proof. exact tee_consumer_passes_checkpoint. Qed.
Print Assumptions C08_tee_consumer_passes_checkpoint.

Theorem C08_tee_checks_yields_logged : forall (s : tst) (o : top) (s' : tst) (r : tres) (ev : list (event Z)),
  tstep s o = (s', r, ev) ->
  match o with
  | TCopy _ _ => True
  | _ => tchk s' (op_consumer o) = tchk s (op_consumer o) + count_check ev /\
         tyld s' (op_consumer o) = tyld s (op_consumer o) + count_yield ev
  end.
Proof. exact tee_checks_yields_logged. Qed.
Print Assumptions C08_tee_checks_yields_logged.

(* outside the clause (asynchronous source that yields): an element is handed out before any cancellation check -
   by design the asynchronous source is expected to checkpoint itself; pinned so that the boundary stays visible *)
Theorem C08_async_source_value_before_check_pinned :
  has_ck (fst (filterfalse_model (fun _ => false) (KAsync, [1; 2]%Z))) = false /\
  check_before_first_yield_value (fst (filterfalse_model (fun _ => false) (KAsync, [1; 2]%Z))) = false.
Proof. exact async_nonempty_has_no_checkpoint. Qed.
Print Assumptions C08_async_source_value_before_check_pinned.
