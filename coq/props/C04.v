(* C04 — Cancellation containment: shields hold and the right scope absorbs.
   This file contains only statements closed by `exact` and their Print Assumptions.
   Model: scopes/Machine.v (S machine).  Tie T: ChainGen.v is regenerated from the Python source by
   tools/translate_chain.py on every check; the *_gen_eq theorems below are what breaks when a walk changes.
   reach_ok s ("reachable state of the generated domain", TreeStep.v) = s is reached from init by an op list
   satisfying TreeStep.ops_ok, which restricts exactly this: AEnter only on an allocated scope that is neither a task
   group's own scope nor a task handle's scope; AExit on such a scope (or when its three guards reject it anyway);
   AGroupEnter on an allocated group; AFinish only when the task is back at its base scope; ARun (HWake t f) only
   for f = the future t waits on.  Nothing else is restricted: in particular ops_ok admits entering a scope twice and
   cancel / shield / deadline assignments on any scope (the case GENERATOR of the harness is narrower; that is not a
   hypothesis of any theorem here). *)
From AV Require Import Base Machine ChainSpec ChainGen ChainEq ChainFrame ChainThms ChainWalk ChainMono NativeAbsorbed.
From AV Require Import DeliverInv TreeStep ChainReach ChainWindow DeliverAlive ReceiptWalk ReceiptRun AuditWitness ChainWitness.

(* ---------------- tie T: generated code = specification, for all chains ---------------- *)
(* a scope record carries r_hosted = `_host_task is not None` (entered, not yet exited).  Since the F42 fix the walks
   of _effectively_cancelled / checkpoint_if_cancelled / current_effective_deadline go through the property
   _visible_parent_scope, which is None for a shielded OR an exited scope; check_cancelled and _restart_cancellation
   still stop at shields only. *)
Theorem C04_visible_parent_gen_eq : forall x : scope_rec,
  gen_visible_parent_stops x = (r_shield x || negb (r_hosted x)).
Proof. exact visible_parent_gen_eq. Qed.
Print Assumptions C04_visible_parent_gen_eq.

Theorem C04_eff_cancelled_gen_eq : forall l : list scope_rec,
  gen_effectively_cancelled l = eff_cancelled_spec l.
Proof. exact eff_cancelled_gen_eq. Qed.
Print Assumptions C04_eff_cancelled_gen_eq.

Theorem C04_eff_cancelled_spec_meaning : forall l : list scope_rec,
  eff_cancelled_spec l = true <->
  exists pre r post, l = pre ++ r :: post /\
    Forall (fun q => r_cancelled q = false /\ (r_shield q || negb (r_hosted q)) = false) pre /\ r_cancelled r = true.
Proof. exact eff_cancelled_spec_iff. Qed.
Print Assumptions C04_eff_cancelled_spec_meaning.

Theorem C04_parent_visible_gen_eq : forall l : list scope_rec,
  gen_parent_visible l = parent_visible_spec l.
Proof. exact parent_visible_gen_eq. Qed.
Print Assumptions C04_parent_visible_gen_eq.

Theorem C04_parent_visible_spec_meaning : forall l : list scope_rec,
  parent_visible_spec l = true <->
  exists self rest, l = self :: rest /\ r_shield self = false /\
    exists pre r post, rest = pre ++ r :: post /\
      Forall (fun q => r_cancelled q = false /\ (r_shield q || negb (r_hosted q)) = false) pre /\ r_cancelled r = true.
Proof. exact parent_visible_spec_iff. Qed.
Print Assumptions C04_parent_visible_spec_meaning.

Theorem C04_ckif_spins_gen_eq : forall l : list scope_rec, gen_ckif_spins l = eff_cancelled_spec l.
Proof. exact ckif_spins_gen_eq. Qed.
Print Assumptions C04_ckif_spins_gen_eq.

Theorem C04_check_cancelled_gen_eq : forall l : list scope_rec,
  gen_check_cancelled_raises l = sh_cancelled_spec l.
Proof. exact check_cancelled_gen_eq. Qed.
Print Assumptions C04_check_cancelled_gen_eq.

(* sh_cancelled_spec: the walk that stops at shields only (check_cancelled; every walk before the F42 fix) *)
Theorem C04_sh_cancelled_spec_meaning : forall l : list scope_rec,
  sh_cancelled_spec l = true <->
  exists pre r post, l = pre ++ r :: post /\
    Forall (fun q => r_cancelled q = false /\ r_shield q = false) pre /\ r_cancelled r = true.
Proof. exact sh_cancelled_spec_iff. Qed.
Print Assumptions C04_sh_cancelled_spec_meaning.

(* F42: the three walks stop at an exited scope and ignore everything above it ... *)
Theorem C04_chain_walk_stops_at_exited_scope : forall (pre : list scope_rec) (e : scope_rec) (post : list scope_rec),
  r_hosted e = false ->
  eff_cancelled_spec (pre ++ e :: post) = eff_cancelled_spec (pre ++ [e]) /\
  ckif_spins_spec (pre ++ e :: post) = ckif_spins_spec (pre ++ [e]) /\
  eff_deadline_spec (pre ++ e :: post) = eff_deadline_spec (pre ++ [e]).
Proof. exact chain_walk_stops_at_exited_scope. Qed.
Print Assumptions C04_chain_walk_stops_at_exited_scope.

(* ... e.g. a task left in the exited internal scope of run_sync() below a cancelled ancestor: not effectively
   cancelled, checkpoint_if_cancelled does not spin, effective deadline +inf *)
Theorem C04_f42_new_walks :
  let chain := [mkRec false false None false false; mkRec true false (Some 3%Z) true true] in
  eff_cancelled_spec chain = false /\ ckif_spins_spec chain = false /\ eff_deadline_spec chain = XInf.
Proof. exact f42_new_walks. Qed.
Print Assumptions C04_f42_new_walks.

(* the pre-fix walk (shields only) on the same chain says "effectively cancelled" where the fixed walk says no.  This
   pins the two walks on that chain; the spin itself (no delivery path to the task, because delivery is downward
   through _child_scopes and the exited scope is unlinked) is not modelled in S and is not part of the statement. *)
Theorem C04_f42_old_walk_refuted_pinned :
  let chain := [mkRec false false None false false; mkRec true false (Some 3%Z) true true] in
  sh_cancelled_spec chain = true /\ eff_cancelled_spec chain = false.
Proof. exact f42_old_walk_refuted_pinned. Qed.
Print Assumptions C04_f42_old_walk_refuted_pinned.

Theorem C04_restart_target_gen_eq : forall l : list scope_rec,
  gen_restart_target l = restart_target_spec l.
Proof. exact restart_target_gen_eq. Qed.
Print Assumptions C04_restart_target_gen_eq.

Theorem C04_restart_target_spec_meaning : forall (l : list scope_rec) (i : nat),
  restart_target_spec l = Some i <->
  exists pre r post, l = pre ++ r :: post /\ length pre = i /\
    Forall (fun q => r_cancelled q = false /\ r_shield q = false) pre /\
    r_cancelled r = true /\ r_chandle r = false.
Proof. exact restart_target_spec_iff. Qed.
Print Assumptions C04_restart_target_spec_meaning.

Theorem C04_is_anyio_cancellation_gen_eq : forall l : list exc_rec,
  gen_is_anyio_cancellation l = is_anyio_cancellation_spec l.
Proof. exact is_anyio_cancellation_gen_eq. Qed.
Print Assumptions C04_is_anyio_cancellation_gen_eq.

Theorem C04_is_anyio_cancellation_spec_meaning : forall l : list exc_rec,
  is_anyio_cancellation_spec l = true <->
  exists pre e post, l = pre ++ e :: post /\ x_has_scope_tag e = true /\
    Forall (fun x => x_has_scope_tag x = false) pre /\
    Forall (fun x => x_is_cancelled_error x = true) (tl (pre ++ [e])).
Proof. exact is_anyio_cancellation_spec_iff. Qed.
Print Assumptions C04_is_anyio_cancellation_spec_meaning.

(* ---------------- the machine evaluates exactly these functions (through chain_of) ---------------- *)
(* The machine's walks stop at shields only.  They equal the generated walks on chains whose scopes are all still
   entered (the C04_machine_*_is_generated theorems carry that hypothesis; only the restart target is unconditional).
   In every reach_ok state every scope visited by a walk that STARTS AT A TASK'S CURRENT SCOPE
   (C04_reach_walks_see_entered_scopes) or at any ACTIVE scope (the C04_reach_*_is_generated theorems carry
   `s_active (scopes s c) = true`) is still entered; nothing is claimed for walks from other start points. *)
Theorem C04_reach_walks_see_entered_scopes : forall (s : st) (fuel : nat) (t : tid),
  reach_ok s -> Forall (fun r => r_hosted r = true) (chain_of fuel s (k_cur (tasks s t))).
Proof. exact reach_walks_see_entered_scopes. Qed.
Print Assumptions C04_reach_walks_see_entered_scopes.

Theorem C04_reach_walks_coincide : forall (s : st) (fuel : nat) (t : tid),
  reach_ok s ->
  sh_cancelled_spec (chain_of fuel s (k_cur (tasks s t))) = eff_cancelled_spec (chain_of fuel s (k_cur (tasks s t))).
Proof. exact reach_walks_coincide. Qed.
Print Assumptions C04_reach_walks_coincide.

Theorem C04_machine_eff_cancelled_is_generated : forall (s : st) (c : sid),
  Forall (fun r => r_hosted r = true) (chain_of (nscope s) s (Some c)) ->
  eff_cancelled s c = gen_effectively_cancelled (chain_of (nscope s) s (Some c)).
Proof. exact machine_eff_cancelled_eq. Qed.
Print Assumptions C04_machine_eff_cancelled_is_generated.

Theorem C04_reach_eff_cancelled_is_generated : forall (s : st) (c : sid),
  reach_ok s -> s_active (scopes s c) = true ->
  eff_cancelled s c = gen_effectively_cancelled (chain_of (nscope s) s (Some c)).
Proof. exact reach_eff_cancelled_is_generated. Qed.
Print Assumptions C04_reach_eff_cancelled_is_generated.

Theorem C04_machine_parent_visible_is_generated : forall (s : st) (c : sid),
  Forall (fun r => r_hosted r = true) (chain_of (S (nscope s)) s (Some c)) ->
  parent_visible s c = gen_parent_visible (chain_of (S (nscope s)) s (Some c)).
Proof. exact machine_parent_visible_gen. Qed.
Print Assumptions C04_machine_parent_visible_is_generated.

Theorem C04_reach_parent_visible_is_generated : forall (s : st) (c : sid),
  reach_ok s -> s_active (scopes s c) = true ->
  parent_visible s c = gen_parent_visible (chain_of (S (nscope s)) s (Some c)).
Proof. exact reach_parent_visible_is_generated. Qed.
Print Assumptions C04_reach_parent_visible_is_generated.

Theorem C04_machine_ckif_is_generated : forall (fuel : nat) (s : st) (x : option sid),
  Forall (fun r => r_hosted r = true) (chain_of fuel s x) ->
  ckif_spins fuel s x = gen_ckif_spins (chain_of fuel s x).
Proof. exact machine_ckif_spins_gen. Qed.
Print Assumptions C04_machine_ckif_is_generated.

Theorem C04_reach_ckif_is_generated : forall (s : st) (fuel : nat) (t : tid),
  reach_ok s -> ckif_spins fuel s (k_cur (tasks s t)) = gen_ckif_spins (chain_of fuel s (k_cur (tasks s t))).
Proof. exact reach_ckif_is_generated. Qed.
Print Assumptions C04_reach_ckif_is_generated.

(* F46: the re-check after each yield of checkpoint_if_cancelled restarts from the task's own scope
   (gen_ckif_restarts_from_task_scope is emitted by the translator only for the source shape
   `await sleep(0); cancel_scope = <the initial expression>`): in every reachable state the resumption of a spinning
   task without an incoming exception is decided by the generated walk over the task's current chain. *)
Theorem C04_reach_ckif_respin_is_generated : forall (s : st) (t : tid) (fo : option fid),
  reach_ok s -> k_ctl (tasks s t) = CYield YCkIf -> snd (incoming s t fo) = None ->
  snd (resume s t fo) =
    if gen_ckif_restarts_from_task_scope
    then (if gen_ckif_spins (chain_of (nscope s) s (k_cur (tasks s t))) then RBlocked else RRet 0)
    else RBlocked.
Proof. exact reach_ckif_respin_is_generated. Qed.
Print Assumptions C04_reach_ckif_respin_is_generated.

Theorem C04_machine_restart_is_generated : forall (fuel : nat) (s : st) (x : option sid),
  restart_from fuel s x =
  match (match gen_restart_target (chain_of fuel s x) with
         | Some i => nth_error (sids_of fuel s x) i
         | None => None
         end) with
  | Some c => deliver_top s c
  | None => s
  end.
Proof. exact machine_restart_from_gen. Qed.
Print Assumptions C04_machine_restart_is_generated.

(* ---------------- absorption at __exit__ ---------------- *)
(* exit_guards = the three RuntimeError guards pass.  The two tests are evaluated by the code in `exit_mid`
   (after unlinking and after _restart_cancellation_in_parent); C04_exit_tests_frame says that this is the same
   as evaluating them in the state the caller sees. *)
Theorem C04_exit_tests_frame : forall (s : st) (c : sid) (t : tid),
  s_cancelled (scopes (exit_mid s c t) c) = s_cancelled (scopes s c) /\
  parent_visible (exit_mid s c t) c = parent_visible s c /\
  (forall x, eff_cancelled (exit_mid s c t) x = eff_cancelled s x).
Proof. exact exit_tests_frame. Qed.
Print Assumptions C04_exit_tests_frame.

Theorem C04_absorb_iff : forall (s : st) (c : sid) (t : tid) (exc : option exn),
  (s_active (scopes s c) && opt_eqb (s_host (scopes s c)) t && opt_eqb (k_cur (tasks s t)) c) = true ->
  (snd (scope_exit s c t exc) = XTrue <->
   s_cancelled (scopes s c) = true /\ parent_visible s c = false /\
   ((exists e, exc = Some e /\ is_anyio_cancel e = true) \/
    (exists l m, exc = Some (EGroup l) /\ split_exn (EGroup l) = (Some m, None)))).
Proof. exact absorb_iff. Qed.
Print Assumptions C04_absorb_iff.

Theorem C04_absorb_rest_iff : forall (s : st) (c : sid) (t : tid) (exc : option exn) (r : exn),
  (s_active (scopes s c) && opt_eqb (s_host (scopes s c)) t && opt_eqb (k_cur (tasks s t)) c) = true ->
  (snd (scope_exit s c t exc) = XRaise r <->
   s_cancelled (scopes s c) = true /\ parent_visible s c = false /\
   exists l m, exc = Some (EGroup l) /\ split_exn (EGroup l) = (Some m, Some r)).
Proof. exact absorb_rest_iff. Qed.
Print Assumptions C04_absorb_rest_iff.

Theorem C04_absorb_otherwise : forall (s : st) (c : sid) (t : tid) (exc : option exn),
  (s_active (scopes s c) && opt_eqb (s_host (scopes s c)) t && opt_eqb (k_cur (tasks s t)) c) = true ->
  (snd (scope_exit s c t exc) = XFalse <->
   ~ (s_cancelled (scopes s c) = true /\ parent_visible s c = false /\
      (((exists e, exc = Some e /\ is_anyio_cancel e = true) \/
        (exists l m, exc = Some (EGroup l) /\ split_exn (EGroup l) = (Some m, None))) \/
       exists r l m, exc = Some (EGroup l) /\ split_exn (EGroup l) = (Some m, Some r)))).
Proof. exact absorb_otherwise. Qed.
Print Assumptions C04_absorb_otherwise.

Theorem C04_split_leaves : forall e : exn,
  match fst (split_exn e) with Some m => leaves m | None => [] end = filter is_anyio_cancel (leaves e) /\
  match snd (split_exn e) with Some r => leaves r | None => [] end
    = filter (fun x => negb (is_anyio_cancel x)) (leaves e).
Proof. exact split_exn_leaves. Qed.
Print Assumptions C04_split_leaves.

Theorem C04_caught_iff_absorbed : forall (s : st) (c : sid) (t : tid) (exc : option exn),
  (s_active (scopes s c) && opt_eqb (s_host (scopes s c)) t && opt_eqb (k_cur (tasks s t)) c) = true ->
  s_caught (scopes (fst (scope_exit s c t exc)) c) =
    s_caught (scopes s c) || match snd (scope_exit s c t exc) with XFalse => false | _ => true end /\
  (forall x, x <> c -> s_caught (scopes (fst (scope_exit s c t exc)) x) = s_caught (scopes s x)).
Proof. exact caught_iff_absorbed. Qed.
Print Assumptions C04_caught_iff_absorbed.

(* over every op: a flag that is set stays set, a flag that becomes set was set by a scope exit that absorbed *)
Theorem C04_caught_only_by_absorbing_exit : forall (s : st) (o : op) (c : sid),
  c < nscope s ->
  (s_caught (scopes s c) = true -> s_caught (scopes (fst (step s o)) c) = true) /\
  (s_cancelled (scopes s c) = true -> s_cancelled (scopes (fst (step s o)) c) = true) /\
  (s_caught (scopes s c) = false -> s_caught (scopes (fst (step s o)) c) = true ->
   s_cancelled (scopes (fst (step s o)) c) = true).
Proof. exact caught_cancelled_monotone. Qed.
Print Assumptions C04_caught_only_by_absorbing_exit.

Theorem C04_non_cancel_passes_through : forall (s : st) (c : sid) (t : tid) (exc : option exn),
  (s_active (scopes s c) && opt_eqb (s_host (scopes s c)) t && opt_eqb (k_cur (tasks s t)) c) = true ->
  match exc with
  | None => True
  | Some (EGroup l) => fst (split_exn (EGroup l)) = None
  | Some e => is_anyio_cancel e = false
  end ->
  snd (scope_exit s c t exc) = XFalse /\
  s_caught (scopes (fst (scope_exit s c t exc)) c) = s_caught (scopes s c).
Proof. exact non_cancel_passes_through. Qed.
Print Assumptions C04_non_cancel_passes_through.

(* ---------------- delivery stays inside the cancelled, unshielded subtree ---------------- *)
Theorem C04_shielded_never_visited : forall (fuel : nat) (s : st) (self x : sid),
  In x (vlist fuel s self) -> x <> self ->
  s_shield (scopes s x) = false /\ s_cancelled (scopes s x) = false.
Proof. exact shielded_never_visited. Qed.
Print Assumptions C04_shielded_never_visited.

Theorem C04_deliver_touches_only_reach : forall (fuel : nat) (s : st) (self origin : sid) (t : tid),
  tasks (fst (deliver fuel s self origin)) t <> tasks s t ->
  exists x, In x (vlist fuel s self) /\ In t (s_tasks (scopes s x)).
Proof. exact deliver_touches_only_reach. Qed.
Print Assumptions C04_deliver_touches_only_reach.

(* The three theorems about `deliver` around this one hold for any fuel and any state.  This one is about the top-level
   call `deliver_top s c` (fuel S (nscope s)) of a scope with cancel_called; TreeOK (parent/children consistent; t in
   _tasks of x -> x is t's current scope) is a hypothesis, and the conclusion is the walk with fuel S (nscope s)
   (`eff_cancelled_from`), not the machine's `eff_cancelled` -- for that see
   C04_request_only_if_effectively_cancelled_reach. *)
Theorem C04_cancel_only_if_effectively_cancelled : forall (s : st) (c : sid) (t : tid),
  (forall p k, In k (s_children (scopes s p)) -> s_parent (scopes s k) = Some p) ->
  (forall u x, In u (s_tasks (scopes s x)) -> k_cur (tasks s u) = Some x) ->
  s_cancelled (scopes s c) = true ->
  tasks (deliver_top s c) t <> tasks s t ->
  exists x n, k_cur (tasks s t) = Some x /\ vpath s c x n /\ n <= nscope s /\
              (x = c \/ s_shield (scopes s x) = false) /\
              eff_cancelled_from (S (nscope s)) s (k_cur (tasks s t)) = true.
Proof. exact cancel_only_if_effectively_cancelled_flat. Qed.
Print Assumptions C04_cancel_only_if_effectively_cancelled.

Theorem C04_outside_reach_untouched : forall (fuel : nat) (s : st) (self origin : sid) (t : tid),
  (forall x, In x (vlist fuel s self) -> ~ In t (s_tasks (scopes s x))) ->
  tasks (fst (deliver fuel s self origin)) t = tasks s t.
Proof. exact outside_reach_untouched. Qed.
Print Assumptions C04_outside_reach_untouched.

(* ---- known finding F25: "code inside a shielded scope is never interrupted" is refuted for shields raised late ----
   The request-time theorems above say that a cancellation is only ever PLACED on a task that reaches the cancelled
   scope.  The receipt-time clause is false of the faithful model and of the code (corpus/C04/f25_*.json, replayed
   against the implementation on every run): once the request has been placed, raising a shield in between does not
   retract it (asyncio cannot take back Task.cancel()); the task is interrupted although its current scope is
   shielded and not effectively cancelled at that moment. *)
Theorem C04_shield_raised_after_request_refuted :
  let pre := final step init (removelast f25_ops) in
  k_cur (tasks pre 1%nat) = Some 2%nat /\ s_shield (scopes pre 2%nat) = true /\ eff_cancelled pre 2%nat = false /\
  last (results init f25_ops) RNone = RExc (ECancel 2%nat).
Proof. exact shield_raised_after_request_witness. Qed.
Print Assumptions C04_shield_raised_after_request_refuted.

(* ---------------- containment on the generated domain, request time and receipt time ---------------- *)
(* reach_ok: see the header.  The tree hypotheses of C04_cancel_only_if_effectively_cancelled are discharged and the
   conclusion uses the machine's own eff_cancelled (= the generated walk on active scopes,
   C04_reach_eff_cancelled_is_generated).  Non-vacuity: C04_request_reach_witness below. *)
Theorem C04_request_only_if_effectively_cancelled_reach : forall (s : st) (c : sid) (t : tid),
  reach_ok s -> s_cancelled (scopes s c) = true ->
  tasks (deliver_top s c) t <> tasks s t ->
  exists x, k_cur (tasks s t) = Some x /\ eff_cancelled s x = true /\ (x = c \/ s_shield (scopes s x) = false) /\
            exists n, vpath s c x n.
Proof. exact reach_cancel_only_if_effectively_cancelled. Qed.
Print Assumptions C04_request_only_if_effectively_cancelled_reach.

(* the same read upwards: c is the n-th scope above the task's current scope (up s x n follows _parent_scope n times)
   and every scope strictly below it on that chain is neither cancelled nor shielded *)
Theorem C04_reach_request_chain : forall (s : st) (c : sid) (t : tid),
  reach_ok s -> s_cancelled (scopes s c) = true -> tasks (deliver_top s c) t <> tasks s t ->
  exists x n, k_cur (tasks s t) = Some x /\ up s x n = Some c /\
    forall j y, j < n -> up s x j = Some y -> s_cancelled (scopes s y) = false /\ s_shield (scopes s y) = false.
Proof. exact reach_request_chain. Qed.
Print Assumptions C04_reach_request_chain.

(* non-vacuity of the two theorems above: rq_state = final step init [ANewRoot; ANewScope 1 None false; AEnter 1 1;
   ANewScope 1 None false; AEnter 1 2; ANewScope 1 None false; AEnter 1 3; ACancel 1 1; AYield 1] -- task 1 in scope 3
   inside 2 inside 1 cancelled scope 1 itself (the delivery skipped the running task) and yielded; the pending
   HDeliver 1 now cancels it: a reach_ok state, cancelled scope, a task record really changed, two scopes below c *)
Theorem C04_request_reach_witness :
  reach_ok rq_state /\ s_cancelled (scopes rq_state 1) = true /\ In (HDeliver 1) (ready rq_state) /\
  tasks (deliver_top rq_state 1) 1 <> tasks rq_state 1 /\
  k_must (tasks rq_state 1) = false /\ k_must (tasks (deliver_top rq_state 1) 1) = true /\
  k_cur (tasks rq_state 1) = Some 3 /\ eff_cancelled rq_state 3 = true /\ s_shield (scopes rq_state 3) = false /\
  vpath rq_state 1 3 2 /\ up rq_state 3 2 = Some 1 /\
  s_cancelled (scopes rq_state 3) = false /\ s_cancelled (scopes rq_state 2) = false /\
  s_shield (scopes rq_state 2) = false.
Proof. exact request_reach_witness. Qed.
Print Assumptions C04_request_reach_witness.

(* The gap between request time (s0) and receipt time (s1), stated precisely: if the chain above the task's current
   scope is unchanged and the origin is still cancelled (cancel_called is never reset,
   C04_caught_only_by_absorbing_exit), then the walk at receipt time still finds a cancelled scope UNLESS a scope on the
   chain strictly below the origin (the current scope included) had its shield raised in between and is not itself
   cancelled -- the pattern of F25, and nothing else.
   `_partial`: this is the two-state core; its lifting to whole runs (every receipt of every run has such a request
   state, with the chain unchanged in between) is C04_receipt_visible_unless_shield_raised below. *)
Theorem C04_receipt_visible_unless_shield_raised_partial : forall (s0 s1 : st) (n : nat) (x org : sid) (k : nat),
  up s0 x n = Some org ->
  (forall j y, j < n -> up s0 x j = Some y ->
               s_cancelled (scopes s0 y) = false /\ s_shield (scopes s0 y) = false) ->
  s_cancelled (scopes s0 org) = true ->
  (forall j y, j < n -> up s0 x j = Some y -> s_parent (scopes s1 y) = s_parent (scopes s0 y)) ->
  s_cancelled (scopes s1 org) = true ->
  eff_cancelled_from (S n + k) s1 (Some x) = true \/
  exists j y, j < n /\ up s0 x j = Some y /\ s_shield (scopes s0 y) = false /\
              s_shield (scopes s1 y) = true /\ s_cancelled (scopes s1 y) = false.
Proof. exact receipt_visible_unless_shield_raised. Qed.
Print Assumptions C04_receipt_visible_unless_shield_raised_partial.

(* F25 is an instance of that gap: the request is placed by AExtCancel 1 (after 7 ops) while scope 2 is unshielded and
   effectively cancelled; the shield of scope 2 is raised before task 1 runs; at the receipt scope 2 is shielded and not
   effectively cancelled *)
Theorem C04_f25_is_the_gap :
  let s0 := final step init (firstn 7 f25_ops) in
  let s1 := final step init (removelast f25_ops) in
  ops_ok init f25_ops = true /\
  receives s1 (HWake 1 6) 1 1 /\
  k_cur (tasks s0 1) = Some 2 /\ k_cur (tasks s1 1) = Some 2 /\ up s0 2 1 = Some 1 /\
  s_cancelled (scopes s0 1) = true /\ s_cancelled (scopes s0 2) = false /\ s_shield (scopes s0 2) = false /\
  eff_cancelled s0 2 = true /\ requested s0 1 2 /\
  eff_cancelled s1 2 = false /\ s_shield (scopes s1 2) = true.
Proof. exact f25_is_the_gap. Qed.
Print Assumptions C04_f25_is_the_gap.

(* ---------------- audit S4: a scope used for two `with` blocks in sequence ---------------- *)
(* ops_ok admits it (__enter__ only rejects an ACTIVE scope); the case generator of the harness enters every scope
   once, so the correspondence does not exercise it.  The second block starts cancelled and with cancelled_caught
   already true (clause "cancelled_caught is true exactly for the scopes that absorbed one" refuted for re-used
   scopes), and its first checkpoint is cancelled at once. *)
Theorem C04_reused_scope_born_cancelled_refuted :
  let first := [ANewRoot; ANewScope 1 None false; AEnter 1 1; ACancel 1 1; AYield 1; ARun (HDeliver 1);
                ARun (HStep 1); AExit 1 1 false] in
  let s1 := final step init first in
  let s2 := final step init (first ++ [AEnter 1 1]) in
  ops_ok init (first ++ [AEnter 1 1]) = true /\
  s_active (scopes s1 1) = false /\ s_caught (scopes s1 1) = true /\ k_held (tasks s1 1) = None /\
  s_active (scopes s2 1) = true /\ s_cancelled (scopes s2 1) = true /\ s_caught (scopes s2 1) = true /\
  let s3 := final step s2 [AYield 1; ARun (HDeliver 1)] in
  snd (step s3 (ARun (HStep 1))) = RExc (ECancel 2).
Proof. exact reused_scope_born_cancelled_refuted. Qed.
Print Assumptions C04_reused_scope_born_cancelled_refuted.

(* ---------------- the request-to-receipt window for every receipt of every run ---------------- *)
(* Notions (scopes/ReceiptWalk.v): Held s t org -- task t holds a cancellation request tagged with scope org
   (Task._must_cancel with that message, or the future it waits on was cancelled with it);  OC s t org -- org is
   cancelled and the walk from t's current scope reaches it through unshielded, uncancelled scopes;  aff a o -- the
   tasks op o affects directly (its actor or the task it resumes, a task it creates, the task whose done-callback it
   runs);  up s x n -- the n-th scope above x;  receives s h t org -- running ready handle h makes t receive
   CancelledError tagged with org. *)

(* Domain: reach_ok s = s is reached from init by an op list satisfying TreeStep.ops_ok (enter/exit only public scopes
   -- not a group's own or a task-handle scope --, a task finishes only at its base scope, a task is woken only through
   the future it waits on; nothing else is restricted); op_ok a o is the same clause for one op in state a.

   (a) for every op_ok op of every reachable state: a tagged request newly held after the op by a task the op does not
   affect implies that its origin is cancelled and visible from the task's current scope (through unshielded,
   uncancelled scopes) in the state before or in the state after that op.  (The statement does not mention the delivery
   run; in the proof the request comes from a delivery run of the origin inside the op, which runs either before or
   after the one flag change an op makes.) *)
Theorem C04_request_only_by_visible_delivery : forall (a : st) (o : op) (t : tid) (org : sid),
  reach_ok a -> op_ok a o = true -> ~ In t (aff a o) ->
  Held (fst (step a o)) t org -> Held a t org \/ OC a t org \/ OC (fst (step a o)) t org.
Proof. exact request_only_by_visible_delivery. Qed.
Print Assumptions C04_request_only_by_visible_delivery.

(* ... and the affected tasks, if they hold a request after the op and have no outcome (k_done = None): either the op
   was rejected or the resumed task had ended (Same: tasks, scopes, futures unchanged -- at most the ready queue
   changes), or the request is justified in the state after the op; that second disjunct is an upper bound for a task
   the op creates, no run in which a created task holds a request is known (a delivery skips a task that has not
   started).  Hence the acting / resumed task of an accepted op holds no request afterwards.  Hypothesis MP a: a recorded
   request and a pending wait exclude each other; it holds in every reachable state
   (C04_request_excludes_pending_wait). *)
Theorem C04_request_of_affected_task : forall (a : st) (o : op) (t : tid) (org : sid),
  reach_ok a -> op_ok a o = true -> MP a -> In t (aff a o) ->
  Held (fst (step a o)) t org -> k_done (tasks (fst (step a o)) t) = None ->
  Same a (fst (step a o)) \/ OC (fst (step a o)) t org.
Proof. exact request_of_affected_task. Qed.
Print Assumptions C04_request_of_affected_task.

Theorem C04_request_excludes_pending_wait : forall (ops : list op) (t : tid) (f : fid),
  ops_ok init ops = true ->
  k_must (tasks (final step init ops) t) = true -> k_waiter (tasks (final step init ops) t) = Some f ->
  f_st (futs (final step init ops) f) <> FPend.
Proof. exact request_excludes_pending_wait. Qed.
Print Assumptions C04_request_excludes_pending_wait.

(* (b) for every op_ok op of every reachable state: a task the op does not affect keeps its record up to the cancel counter
   and the request flag (tk_core: so its current scope, its wait, its outcome), the parent link of every entered scope
   is unchanged, and no scope is un-cancelled (shields and deadlines may change: F25) *)
Theorem C04_suspended_task_frame : forall (a : st) (o : op) (t : tid),
  reach_ok a -> op_ok a o = true -> t < ntask a -> ~ In t (aff a o) ->
  ScopeFrames.tk_core (tasks (fst (step a o)) t) = ScopeFrames.tk_core (tasks a t) /\
  (forall y, s_active (scopes a y) = true -> s_parent (scopes (fst (step a o)) y) = s_parent (scopes a y)) /\
  (forall y, y < nscope a -> s_cancelled (scopes a y) = true -> s_cancelled (scopes (fst (step a o)) y) = true).
Proof. exact suspended_task_frame. Qed.
Print Assumptions C04_suspended_task_frame.

(* every request held by an unfinished task in every run: there is a prefix of the run (the moment it was placed) at
   which the origin was cancelled and visible from the task's current scope through unshielded, uncancelled scopes; the
   task's current scope is the same now; and now the walk still finds a cancelled scope unless a shield was raised in
   between on a scope strictly below the origin *)
Theorem C04_request_visible_unless_shield_raised : forall (ops : list op) (t : tid) (org : sid),
  ops_ok init ops = true ->
  Held (final step init ops) t org -> k_done (tasks (final step init ops) t) = None ->
  exists pre post x n,
    ops = pre ++ post /\
    let s0 := final step init pre in let s1 := final step init ops in
    k_cur (tasks s0 t) = Some x /\ k_cur (tasks s1 t) = Some x /\ up s0 x n = Some org /\
    s_cancelled (scopes s0 org) = true /\
    (forall j y, j < n -> up s0 x j = Some y -> s_cancelled (scopes s0 y) = false /\ s_shield (scopes s0 y) = false) /\
    (eff_cancelled s1 x = true \/
     exists j y, j < n /\ up s0 x j = Some y /\ s_shield (scopes s0 y) = false /\ s_shield (scopes s1 y) = true).
Proof. exact request_window. Qed.
Print Assumptions C04_request_visible_unless_shield_raised.

(* what a receipt is: a request held by the (unfinished) task, or an exception read from the future it waited on *)
Theorem C04_receipt_is_request_or_future : forall (s : st) (h : handle) (t : tid) (org : sid),
  reach_ok s -> receives s h t org ->
  (Held s t org /\ k_done (tasks s t) = None) \/
  (exists f, h = HWake t f /\ f_st (futs s f) = FExc (ECancel (S org))).
Proof. exact receipt_is_request_or_future. Qed.
Print Assumptions C04_receipt_is_request_or_future.

(* EVERY receipt of RExc (ECancel (S org)) in EVERY run of the generated domain: either the exception was read from a
   future completed with an exception -- in the model only the future of TaskGroup.start() is, by the child's task_done
   with the child's own exception: C07's routing ("if the child ends before calling started(), start() raises the
   child's exception", DESIGN 11.9), not a request -- or org was cancelled and visible from the task's current scope when
   the request was placed, and at receipt it still is unless a shield was raised in between on a scope strictly below
   org (F25's pattern and nothing else) *)
Theorem C04_receipt_visible_unless_shield_raised : forall (ops : list op) (h : handle) (t : tid) (org : sid),
  ops_ok init ops = true -> receives (final step init ops) h t org ->
  (exists f, h = HWake t f /\ f_st (futs (final step init ops) f) = FExc (ECancel (S org))) \/
  exists pre post x n,
    ops = pre ++ post /\
    let s0 := final step init pre in let s1 := final step init ops in
    k_cur (tasks s0 t) = Some x /\ k_cur (tasks s1 t) = Some x /\ up s0 x n = Some org /\
    s_cancelled (scopes s0 org) = true /\
    (forall j y, j < n -> up s0 x j = Some y -> s_cancelled (scopes s0 y) = false /\ s_shield (scopes s0 y) = false) /\
    (eff_cancelled s1 x = true \/
     exists j y, j < n /\ up s0 x j = Some y /\ s_shield (scopes s0 y) = false /\ s_shield (scopes s1 y) = true).
Proof. exact receipt_window_run_holds. Qed.
Print Assumptions C04_receipt_visible_unless_shield_raised.

(* the first disjunct is needed: start() re-raises the child's scope-tagged cancellation in a caller whose current
   scope was shielded from its creation (C07 governs this path).  Task 1 sits in the shielded scope 2 inside the group
   scope 1 and calls start(); the child is cancelled through scope 1 before started() and ends with "Cancelled via
   cancel scope 1"; its task_done hands that exception to the start future 6; task 1 reads it from there *)
Theorem C04_start_reraises_child_cancellation_witness :
  let ops := [ANewRoot; AGroupNew 1; AGroupEnter 1 1; ANewScope 1 None true; AEnter 1 2; AStart 1 1; ARun (HStep 2);
              ANewRoot; ACancel 3 1; ARun (HWake 2 7); AFinish 2 0; ARun (HDeliver 1); ARun (HTaskDone 2)] in
  let s := final step init ops in
  ops_ok init ops = true /\
  receives s (HWake 1 6) 1 1 /\ snd (step s (ARun (HWake 1 6))) = RExc (ECancel 2) /\
  k_startfut (tasks s 2) = Some 6 /\ f_st (futs s 6) = FExc (ECancel 2) /\
  k_done (tasks s 2) = Some (OCanc (ECancel 2)) /\
  k_must (tasks s 1) = false /\ k_cur (tasks s 1) = Some 2 /\ s_shield (scopes s 2) = true /\
  eff_cancelled s 2 = false.
Proof. exact start_reraises_child_cancellation_witness. Qed.
Print Assumptions C04_start_reraises_child_cancellation_witness.

(* ... so the statement without that disjunct (ChainWindow.receipt_window_without_future_path, the form in which the
   run-level statement was first written down) is false *)
Theorem C04_receipt_window_without_future_path_refuted :
  ~ (forall ops h t org,
       ops_ok init ops = true -> receives (final step init ops) h t org ->
       exists pre post x n,
         ops = pre ++ post /\
         let s0 := final step init pre in let s1 := final step init ops in
         k_cur (tasks s0 t) = Some x /\ k_cur (tasks s1 t) = Some x /\ up s0 x n = Some org /\
         s_cancelled (scopes s0 org) = true /\
         (forall j y, j < n -> up s0 x j = Some y -> s_cancelled (scopes s0 y) = false /\ s_shield (scopes s0 y) = false) /\
         (eff_cancelled s1 x = true \/
          exists j y, j < n /\ up s0 x j = Some y /\ s_shield (scopes s0 y) = false /\ s_shield (scopes s1 y) = true)).
Proof. exact receipt_window_without_future_path_refuted. Qed.
Print Assumptions C04_receipt_window_without_future_path_refuted.

(* ---------------- non-vacuity of the per-op facts and of the run-level window (audit 2, item 15) ---------------- *)
(* rw_pre = [ANewRoot; ANewScope 1 None false; AEnter 1 1; ANewScope 1 None false; AEnter 1 2; ASleep 1 None]:
   task 1 sleeps (future 6) in scope 2 inside scope 1.  rw_ops = rw_pre ++ [AExtCancel 1; ANewRoot]. *)

(* (a) on the op AExtCancel 1: it does not affect task 1; before it task 1 holds no request and scope 1 is not
   cancelled, after it task 1 holds a request tagged 1 and scope 1 is cancelled and visible from its current scope *)
Theorem C04_request_only_by_visible_delivery_nonvacuous :
  let a := final step init rw_pre in
  let b := fst (step a (AExtCancel 1)) in
  ops_ok init rw_pre = true /\ op_ok a (AExtCancel 1) = true /\ ~ In 1 (aff a (AExtCancel 1)) /\
  Held b 1 1 /\ ~ Held a 1 1 /\ ~ OC a 1 1 /\ OC b 1 1.
Proof. exact request_only_by_visible_delivery_witness. Qed.
Print Assumptions C04_request_only_by_visible_delivery_nonvacuous.

(* (b) on the same op, for task 1 *)
Theorem C04_suspended_task_frame_nonvacuous :
  let a := final step init rw_pre in
  let b := fst (step a (AExtCancel 1)) in
  ops_ok init rw_pre = true /\ op_ok a (AExtCancel 1) = true /\ 1 < ntask a /\ ~ In 1 (aff a (AExtCancel 1)) /\
  k_cur (tasks b 1) = Some 2 /\ k_cur (tasks a 1) = Some 2 /\
  s_active (scopes a 2) = true /\ s_parent (scopes b 2) = Some 1 /\ s_parent (scopes a 2) = Some 1 /\
  s_cancelled (scopes a 1) = false /\ s_cancelled (scopes b 1) = true.
Proof. exact suspended_task_frame_witness. Qed.
Print Assumptions C04_suspended_task_frame_nonvacuous.

(* the affected-task theorem, Same disjunct: task 1, holding the request and not yet run, tries AYield 1; the op is
   rejected and changes nothing *)
Theorem C04_request_of_affected_task_nonvacuous :
  let a := final step init (rw_pre ++ [AExtCancel 1]) in
  ops_ok init (rw_pre ++ [AExtCancel 1]) = true /\ op_ok a (AYield 1) = true /\ MP a /\ In 1 (aff a (AYield 1)) /\
  Held (fst (step a (AYield 1))) 1 1 /\ k_done (tasks (fst (step a (AYield 1))) 1) = None /\
  Same a (fst (step a (AYield 1))).
Proof. exact request_of_affected_task_witness. Qed.
Print Assumptions C04_request_of_affected_task_nonvacuous.

(* _must_cancel set while the task still has a waiter: F19's history up to the native request (7 ops); the future is
   not pending (the scope's delivery cancelled it) *)
Theorem C04_request_excludes_pending_wait_nonvacuous :
  let s := final step init (firstn 7 f19_ops) in
  ops_ok init (firstn 7 f19_ops) = true /\
  k_must (tasks s 1) = true /\ k_waiter (tasks s 1) = Some 4 /\ f_st (futs s 4) = FCanc 2.
Proof. exact request_excludes_pending_wait_witness. Qed.
Print Assumptions C04_request_excludes_pending_wait_nonvacuous.

(* the run-level window on rw_ops: the receipt of task 1 is a request (the future was cancelled, it carries no
   exception: first disjunct false); second disjunct with the non-trivial prefix rw_pre ++ [AExtCancel 1] (7 of 8 ops),
   x = 2, n = 1, org = 1, and the walk at receipt still finds the cancelled scope *)
Theorem C04_receipt_visible_unless_shield_raised_nonvacuous :
  let pre := rw_pre ++ [AExtCancel 1] in let post := [ANewRoot] in
  let s0 := final step init pre in let s1 := final step init rw_ops in
  ops_ok init rw_ops = true /\ receives s1 (HWake 1 6) 1 1 /\
  snd (step s1 (ARun (HWake 1 6))) = RExc (ECancel 2) /\
  f_st (futs s1 6) = FCanc 2 /\
  rw_ops = pre ++ post /\
  k_cur (tasks s0 1) = Some 2 /\ k_cur (tasks s1 1) = Some 2 /\ up s0 2 1 = Some 1 /\
  s_cancelled (scopes s0 1) = true /\
  (forall j y, j < 1 -> up s0 2 j = Some y -> s_cancelled (scopes s0 y) = false /\ s_shield (scopes s0 y) = false) /\
  eff_cancelled s1 2 = true.
Proof. exact receipt_window_witness. Qed.
Print Assumptions C04_receipt_visible_unless_shield_raised_nonvacuous.
