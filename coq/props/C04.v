(* C04 — Cancellation containment: shields hold and the right scope absorbs.
   This file contains only statements closed by `exact` and their Print Assumptions.
   Model: scopes/Machine.v (S machine).  Tie T: ChainGen.v is regenerated from the Python source by
   tools/translate_chain.py on every check; the *_gen_eq theorems below are what breaks when a walk changes. *)
From AV Require Import Base Machine ChainSpec ChainGen ChainEq ChainFrame ChainThms ChainWalk ChainMono NativeAbsorbed.

(* ---------------- tie T: generated code = specification, for all chains ---------------- *)
Theorem C04_eff_cancelled_gen_eq : forall l : list scope_rec,
  gen_effectively_cancelled l = eff_cancelled_spec l.
Proof. exact eff_cancelled_gen_eq. Qed.
Print Assumptions C04_eff_cancelled_gen_eq.

Theorem C04_eff_cancelled_spec_meaning : forall l : list scope_rec,
  eff_cancelled_spec l = true <->
  exists pre r post, l = pre ++ r :: post /\
    Forall (fun q => r_cancelled q = false /\ r_shield q = false) pre /\ r_cancelled r = true.
Proof. exact eff_cancelled_spec_iff. Qed.
Print Assumptions C04_eff_cancelled_spec_meaning.

Theorem C04_parent_visible_gen_eq : forall l : list scope_rec,
  gen_parent_visible l = parent_visible_spec l.
Proof. exact parent_visible_gen_eq. Qed.
Print Assumptions C04_parent_visible_gen_eq.

Theorem C04_parent_visible_spec_meaning : forall l : list scope_rec,
  parent_visible_spec l = true <->
  exists self rest, l = self :: rest /\ r_shield self = false /\
    exists pre r post, rest = pre ++ r :: post /\
      Forall (fun q => r_cancelled q = false /\ r_shield q = false) pre /\ r_cancelled r = true.
Proof. exact parent_visible_spec_iff. Qed.
Print Assumptions C04_parent_visible_spec_meaning.

Theorem C04_ckif_spins_gen_eq : forall l : list scope_rec, gen_ckif_spins l = eff_cancelled_spec l.
Proof. exact ckif_spins_gen_eq. Qed.
Print Assumptions C04_ckif_spins_gen_eq.

Theorem C04_check_cancelled_gen_eq : forall l : list scope_rec,
  gen_check_cancelled_raises l = eff_cancelled_spec l.
Proof. exact check_cancelled_gen_eq. Qed.
Print Assumptions C04_check_cancelled_gen_eq.

Theorem C04_restart_target_gen_eq : forall l : list scope_rec,
  gen_restart_target l = restart_target_spec l.
Proof. exact restart_target_gen_eq. Qed.
Print Assumptions C04_restart_target_gen_eq.

Theorem C04_restart_target_spec_meaning : forall (l : list scope_rec) (i : nat),
  restart_target_spec l = Some i <->
  exists pre r post, l = pre ++ r :: post /\ length pre = i /\
    Forall (fun q => r_cancelled q = false /\ r_shield q = false) pre /\
    r_cancelled r = true /\ r_chandle r = false.
Proof. exact restart_target_spec_iff. Qed.
Print Assumptions C04_restart_target_spec_meaning.

Theorem C04_is_anyio_cancellation_gen_eq : forall l : list exc_rec,
  gen_is_anyio_cancellation l = is_anyio_cancellation_spec l.
Proof. exact is_anyio_cancellation_gen_eq. Qed.
Print Assumptions C04_is_anyio_cancellation_gen_eq.

Theorem C04_is_anyio_cancellation_spec_meaning : forall l : list exc_rec,
  is_anyio_cancellation_spec l = true <->
  exists pre e post, l = pre ++ e :: post /\ x_has_scope_tag e = true /\
    Forall (fun x => x_has_scope_tag x = false) pre /\
    Forall (fun x => x_is_cancelled_error x = true) (tl (pre ++ [e])).
Proof. exact is_anyio_cancellation_spec_iff. Qed.
Print Assumptions C04_is_anyio_cancellation_spec_meaning.

(* ---------------- the machine evaluates exactly these functions (through chain_of) ---------------- *)
Theorem C04_machine_eff_cancelled_is_generated : forall (s : st) (c : sid),
  eff_cancelled s c = gen_effectively_cancelled (chain_of (nscope s) s (Some c)).
Proof. exact machine_eff_cancelled_eq. Qed.
Print Assumptions C04_machine_eff_cancelled_is_generated.

Theorem C04_machine_parent_visible_is_generated : forall (s : st) (c : sid),
  parent_visible s c = gen_parent_visible (chain_of (S (nscope s)) s (Some c)).
Proof. exact machine_parent_visible_gen. Qed.
Print Assumptions C04_machine_parent_visible_is_generated.

Theorem C04_machine_ckif_is_generated : forall (fuel : nat) (s : st) (x : option sid),
  ckif_spins fuel s x = gen_ckif_spins (chain_of fuel s x).
Proof. exact machine_ckif_spins_gen. Qed.
Print Assumptions C04_machine_ckif_is_generated.

Theorem C04_machine_restart_is_generated : forall (fuel : nat) (s : st) (x : option sid),
  restart_from fuel s x =
  match (match gen_restart_target (chain_of fuel s x) with
         | Some i => nth_error (sids_of fuel s x) i
         | None => None
         end) with
  | Some c => deliver_top s c
  | None => s
  end.
Proof. exact machine_restart_from_gen. Qed.
Print Assumptions C04_machine_restart_is_generated.

(* ---------------- absorption at __exit__ ---------------- *)
(* exit_guards = the three RuntimeError guards pass.  The two tests are evaluated by the code in `exit_mid`
   (after unlinking and after _restart_cancellation_in_parent); C04_exit_tests_frame says that this is the same
   as evaluating them in the state the caller sees. *)
Theorem C04_exit_tests_frame : forall (s : st) (c : sid) (t : tid),
  s_cancelled (scopes (exit_mid s c t) c) = s_cancelled (scopes s c) /\
  parent_visible (exit_mid s c t) c = parent_visible s c /\
  (forall x, eff_cancelled (exit_mid s c t) x = eff_cancelled s x).
Proof. exact exit_tests_frame. Qed.
Print Assumptions C04_exit_tests_frame.

Theorem C04_absorb_iff : forall (s : st) (c : sid) (t : tid) (exc : option exn),
  (s_active (scopes s c) && opt_eqb (s_host (scopes s c)) t && opt_eqb (k_cur (tasks s t)) c) = true ->
  (snd (scope_exit s c t exc) = XTrue <->
   s_cancelled (scopes s c) = true /\ parent_visible s c = false /\
   ((exists e, exc = Some e /\ is_anyio_cancel e = true) \/
    (exists l m, exc = Some (EGroup l) /\ split_exn (EGroup l) = (Some m, None)))).
Proof. exact absorb_iff. Qed.
Print Assumptions C04_absorb_iff.

Theorem C04_absorb_rest_iff : forall (s : st) (c : sid) (t : tid) (exc : option exn) (r : exn),
  (s_active (scopes s c) && opt_eqb (s_host (scopes s c)) t && opt_eqb (k_cur (tasks s t)) c) = true ->
  (snd (scope_exit s c t exc) = XRaise r <->
   s_cancelled (scopes s c) = true /\ parent_visible s c = false /\
   exists l m, exc = Some (EGroup l) /\ split_exn (EGroup l) = (Some m, Some r)).
Proof. exact absorb_rest_iff. Qed.
Print Assumptions C04_absorb_rest_iff.

Theorem C04_absorb_otherwise : forall (s : st) (c : sid) (t : tid) (exc : option exn),
  (s_active (scopes s c) && opt_eqb (s_host (scopes s c)) t && opt_eqb (k_cur (tasks s t)) c) = true ->
  (snd (scope_exit s c t exc) = XFalse <->
   ~ (s_cancelled (scopes s c) = true /\ parent_visible s c = false /\
      (((exists e, exc = Some e /\ is_anyio_cancel e = true) \/
        (exists l m, exc = Some (EGroup l) /\ split_exn (EGroup l) = (Some m, None))) \/
       exists r l m, exc = Some (EGroup l) /\ split_exn (EGroup l) = (Some m, Some r)))).
Proof. exact absorb_otherwise. Qed.
Print Assumptions C04_absorb_otherwise.

Theorem C04_split_leaves : forall e : exn,
  match fst (split_exn e) with Some m => leaves m | None => [] end = filter is_anyio_cancel (leaves e) /\
  match snd (split_exn e) with Some r => leaves r | None => [] end
    = filter (fun x => negb (is_anyio_cancel x)) (leaves e).
Proof. exact split_exn_leaves. Qed.
Print Assumptions C04_split_leaves.

Theorem C04_caught_iff_absorbed : forall (s : st) (c : sid) (t : tid) (exc : option exn),
  (s_active (scopes s c) && opt_eqb (s_host (scopes s c)) t && opt_eqb (k_cur (tasks s t)) c) = true ->
  s_caught (scopes (fst (scope_exit s c t exc)) c) =
    s_caught (scopes s c) || match snd (scope_exit s c t exc) with XFalse => false | _ => true end /\
  (forall x, x <> c -> s_caught (scopes (fst (scope_exit s c t exc)) x) = s_caught (scopes s x)).
Proof. exact caught_iff_absorbed. Qed.
Print Assumptions C04_caught_iff_absorbed.

(* over every op: a flag that is set stays set, a flag that becomes set was set by a scope exit that absorbed *)
Theorem C04_caught_only_by_absorbing_exit : forall (s : st) (o : op) (c : sid),
  c < nscope s ->
  (s_caught (scopes s c) = true -> s_caught (scopes (fst (step s o)) c) = true) /\
  (s_cancelled (scopes s c) = true -> s_cancelled (scopes (fst (step s o)) c) = true) /\
  (s_caught (scopes s c) = false -> s_caught (scopes (fst (step s o)) c) = true ->
   s_cancelled (scopes (fst (step s o)) c) = true).
Proof. exact caught_cancelled_monotone. Qed.
Print Assumptions C04_caught_only_by_absorbing_exit.

Theorem C04_non_cancel_passes_through : forall (s : st) (c : sid) (t : tid) (exc : option exn),
  (s_active (scopes s c) && opt_eqb (s_host (scopes s c)) t && opt_eqb (k_cur (tasks s t)) c) = true ->
  match exc with
  | None => True
  | Some (EGroup l) => fst (split_exn (EGroup l)) = None
  | Some e => is_anyio_cancel e = false
  end ->
  snd (scope_exit s c t exc) = XFalse /\
  s_caught (scopes (fst (scope_exit s c t exc)) c) = s_caught (scopes s c).
Proof. exact non_cancel_passes_through. Qed.
Print Assumptions C04_non_cancel_passes_through.

(* ---------------- delivery stays inside the cancelled, unshielded subtree ---------------- *)
Theorem C04_shielded_never_visited : forall (fuel : nat) (s : st) (self x : sid),
  In x (vlist fuel s self) -> x <> self ->
  s_shield (scopes s x) = false /\ s_cancelled (scopes s x) = false.
Proof. exact shielded_never_visited. Qed.
Print Assumptions C04_shielded_never_visited.

Theorem C04_deliver_touches_only_reach : forall (fuel : nat) (s : st) (self origin : sid) (t : tid),
  tasks (fst (deliver fuel s self origin)) t <> tasks s t ->
  exists x, In x (vlist fuel s self) /\ In t (s_tasks (scopes s x)).
Proof. exact deliver_touches_only_reach. Qed.
Print Assumptions C04_deliver_touches_only_reach.

(* TreeOK (parent/children consistent; t in _tasks of x -> x is t's current scope) is a hypothesis here *)
Theorem C04_cancel_only_if_effectively_cancelled : forall (s : st) (c : sid) (t : tid),
  (forall p k, In k (s_children (scopes s p)) -> s_parent (scopes s k) = Some p) ->
  (forall u x, In u (s_tasks (scopes s x)) -> k_cur (tasks s u) = Some x) ->
  s_cancelled (scopes s c) = true ->
  tasks (deliver_top s c) t <> tasks s t ->
  exists x n, k_cur (tasks s t) = Some x /\ vpath s c x n /\ n <= nscope s /\
              (x = c \/ s_shield (scopes s x) = false) /\
              eff_cancelled_from (S (nscope s)) s (k_cur (tasks s t)) = true.
Proof. exact cancel_only_if_effectively_cancelled_flat. Qed.
Print Assumptions C04_cancel_only_if_effectively_cancelled.

Theorem C04_outside_reach_untouched : forall (fuel : nat) (s : st) (self origin : sid) (t : tid),
  (forall x, In x (vlist fuel s self) -> ~ In t (s_tasks (scopes s x))) ->
  tasks (fst (deliver fuel s self origin)) t = tasks s t.
Proof. exact outside_reach_untouched. Qed.
Print Assumptions C04_outside_reach_untouched.

(* ---- known finding F25: "code inside a shielded scope is never interrupted" is refuted for shields raised late ----
   The request-time theorems above say that a cancellation is only ever PLACED on a task that reaches the cancelled
   scope.  The receipt-time clause is false of the faithful model and of the code (corpus/C04/f25_*.json, replayed
   against the implementation on every run): once the request has been placed, raising a shield in between does not
   retract it (asyncio cannot take back Task.cancel()); the task is interrupted although its current scope is
   shielded and not effectively cancelled at that moment. *)
Theorem C04_shield_raised_after_request_refuted :
  let pre := final step init (removelast f25_ops) in
  k_cur (tasks pre 1%nat) = Some 2%nat /\ s_shield (scopes pre 2%nat) = true /\ eff_cancelled pre 2%nat = false /\
  last (results init f25_ops) RNone = RExc (ECancel 2%nat).
Proof. exact shield_raised_after_request_witness. Qed.
Print Assumptions C04_shield_raised_after_request_refuted.
