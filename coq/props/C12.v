(* C12 — Memory object streams: exactly-once, ordered, bounded delivery.
   This file contains only statements closed by `exact` and their Print Assumptions.
   Model: prims/MemStream.v.  Ghost lists of the model: entered (items that entered the stream state, in arrival
   order), handed (items that left it towards a receiver), returned (items returned by receive calls), inflight
   (items in the slot of a receiver that has not resumed yet), lost (items in the slot of a receive that raised),
   withdrawn (items of blocked sends that raised while still queued), acked (items whose send returned normally).

   Outside the model - recorded observation `skip_prediction_averted` (hunt/C12/borderline_shield_toggle.py):
   send_nowait pops and forgets a waiting receiver whose has_pending_cancellation() is true.  In the model that is
   never a mere prediction: op ScopeCancel (cancel() of the scope entered around the blocked call) delivers
   Task.cancel() at once, so for every queued receiver "has_pending" implies that the waiter future is ALREADY
   cancelled (C12_skip_means_future_cancelled) and a popped receiver always ends with CancelledError
   (C12_skipped_receiver_is_cancelled).  In the real code has_pending_cancellation() can also be true through
   CancelScope._effectively_cancelled alone, before any Task.cancel(): a receiver blocked inside a SHIELDED scope inside
   an already cancelled scope whose _deliver_cancellation retry callback is pending; a third party sets shield=False
   (delivery deferred to the pending retry), calls send_nowait (receiver popped, item buffered) and sets shield=True
   again, all inside one loop cycle: the retry skips the receiver, which is then neither cancelled nor ever served.
   No op sequence of this model produces that state: it needs cancel-scope state (nested scopes, the shield flag, the
   retry handle) which the P machine does not have - its only scope op is ScopeCancel, and `disciplined` plays no
   role (it restricts native Cancel ops only).  The scenario is therefore executed on the real code by the harness
   (memstream_common.observe_skip_prediction_averted) and recorded in evidence/C12.json under
   coverage.observations.skip_prediction_averted; it is not counted as a violation (the property quantifies over
   cancellation, not over a third party toggling another task's shield inside one cycle).
   The contract of has_pending_cancellation() - what is proved and what is checked.  In the model `has_pending` is not a
   free oracle: it is the transcription `mustc || waiter-future-cancelled || scopec`, where `scopec` abstracts
   CancelScope._effectively_cancelled for the ONE scope the model knows (entered directly around the call and cancelled
   by op ScopeCancel, which delivers Task.cancel() at once).  On that abstraction the contract "true only for a task
   whose wait is going to end with a cancellation" is a theorem (C12_skip_means_future_cancelled,
   C12_skipped_receiver_is_cancelled).  The real predicate reads the task's whole cancel-scope chain (shields,
   cancelled / expired parent scopes); a scope-chain abstraction inside the P machine was judged not cheap (it changes
   the state, the ops and every invariant lemma), so for real scope structures the contract is CHECKED, on every run,
   by the combined scope+stream family of the harness (memstream_common.SHAPES: calls made inside a shield, inside a
   shield under a cancelled / expired-deadline / live outer scope, nested two deep, plain inside plain; the virtual
   clock is moved past deadlines with the timer callback run or not; outer scopes are cancelled while the task waits):
   after every step has_pending_cancellation() of every task inside a blocking call must equal "a cancellation was
   requested on the task, or its scope is effectively cancelled" as computed by the harness from the structure it built
   (a shield between the task and a cancelled / expired scope means NOT cancelled), and a receiver for which this is
   false is LIVE: it must be served in FIFO order and must never be popped from the queue without an item.  For the
   stream model such structures are plain Send / Recv (codec codes 20..39) and the clock / timer / outer-cancel
   activities are no-ops (codes 10, 11, 14): that they are invisible to the stream is part of the correspondence. *)
From AV Require Import Base MemStream MemStreamProofs MemStreamThms.
From Coq Require Import Permutation.

(* the ghost lists mean what their names say: they are determined by the results of the steps *)
Theorem C12_returned_tracks_results : forall s o,
  returned (fst (step s o)) =
  match snd (step s o) with RItem x => returned s ++ [x] | _ => returned s end.
Proof. exact returned_tracks_results. Qed.
Print Assumptions C12_returned_tracks_results.

Theorem C12_acked_tracks_results : forall s o,
  acked (fst (step s o)) =
  match snd (step s o), send_item s o with RDone, Some x => acked s ++ [x] | _, _ => acked s end.
Proof. exact acked_tracks_results. Qed.
Print Assumptions C12_acked_tracks_results.

Theorem C12_lost_tracks_results : forall s o,
  lost (fst (step s o)) = lost s \/
  exists t e x, o = Resume t /\ phase_of s t = RecvWait e /\ slot s e = Some x /\
                snd (step s o) = RCancelled /\ lost (fst (step s o)) = lost s ++ [x].
Proof. exact lost_tracks_results. Qed.
Print Assumptions C12_lost_tracks_results.

(* conservation: every item that entered the stream is in exactly one place *)
Theorem C12_conservation : forall m s, reach m s ->
  Permutation (entered s)
    (returned s ++ map snd (inflight s) ++ lost s ++ buffer s ++ map snd (senders s) ++ withdrawn s) /\
  NoDup (entered s) /\
  (forall e x, In (e, x) (inflight s) <-> (slot s e = Some x /\ exists t, phase_of s t = RecvWait e)).
Proof. exact ms_conservation. Qed.
Print Assumptions C12_conservation.

Theorem C12_no_dup_no_invention : forall m s, reach m s ->
  NoDup (returned s) /\ (forall x, In x (returned s) -> In x (entered s)).
Proof. exact ms_no_dup_no_invention. Qed.
Print Assumptions C12_no_dup_no_invention.

Theorem C12_acked_accounted : forall m s x, reach m s -> In x (acked s) ->
  In x (returned s ++ map snd (inflight s) ++ lost s ++ buffer s) /\
  ~ In x (map snd (senders s)) /\ ~ In x (withdrawn s).
Proof. exact ms_acked_accounted. Qed.
Print Assumptions C12_acked_accounted.

(* FIFO *)
Theorem C12_fifo : forall m s, reach m s ->
  subseq (handed s ++ buffer s ++ map snd (senders s)) (entered s).
Proof. exact ms_fifo. Qed.
Print Assumptions C12_fifo.

Theorem C12_fifo_pairs : forall m s x y, reach m s ->
  before x y (entered s) -> In x (handed s) -> In y (handed s) -> before x y (handed s).
Proof. exact ms_fifo_pairs. Qed.
Print Assumptions C12_fifo_pairs.

(* waiters are served in the order they started waiting *)
Theorem C12_waiters_served_fifo : forall m s, reach m s ->
  subseq (map fst (senders s)) (senq s) /\ subseq (map fst (receivers s)) (renq s).
Proof. exact ms_waiters_served_fifo. Qed.
Print Assumptions C12_waiters_served_fifo.

Theorem C12_arrival_logs_append_only : forall s o,
  (exists l, senq (fst (step s o)) = senq s ++ l) /\ (exists l, renq (fst (step s o)) = renq s ++ l).
Proof. exact ms_arrival_logs_append_only. Qed.
Print Assumptions C12_arrival_logs_append_only.

Theorem C12_sender_served_is_head : forall s e y r,
  senders s = (e, y) :: r ->
  senders (rn_move s) = r /\ buffer (rn_move s) = buffer s ++ [y] /\ fut (rn_move s) e = ev_set (fut s e).
Proof. exact ms_sender_served_is_head. Qed.
Print Assumptions C12_sender_served_is_head.

Theorem C12_receiver_served_first_live : forall s,
  match pop_live s (receivers s) with
  | (Some (e, t), rest) =>
      exists pre, receivers s = pre ++ (e, t) :: rest /\ has_pending s t = false /\
                  (forall e' t', In (e', t') pre -> has_pending s t' = true)
  | (None, rest) => rest = [] /\ (forall e' t', In (e', t') (receivers s) -> has_pending s t' = true)
  end.
Proof. exact ms_receiver_served_first_live. Qed.
Print Assumptions C12_receiver_served_first_live.

(* buffer bound, at every reachable state; and the exact truth about the inside of receive_nowait *)
Theorem C12_buffer_bound : forall m s, reach m s -> xle (length (buffer s)) m.
Proof. exact ms_buffer_bound. Qed.
Print Assumptions C12_buffer_bound.

Theorem C12_buffer_transient : forall m s, reach m s ->
  xle (length (buffer (rn_move s))) (xsucc m) /\
  (forall h, xle (length (buffer (fst (recv_nowait s h)))) m).
Proof. exact ms_buffer_transient. Qed.
Print Assumptions C12_buffer_transient.

(* cancelling a blocked receive loses nothing, for every op sequence without a NATIVE Task.cancel() on a receiver
   whose slot has been filled (the AnyIO discipline, an explicit premise) *)
Theorem C12_cancel_receive_loses_nothing : forall m ops,
  disciplined (init m) ops ->
  let s := final step (init m) ops in
  lost s = [] /\
  (forall x, In x (acked s) -> In x (returned s ++ map snd (inflight s) ++ buffer s)) /\
  (forall t e, phase_of s t = RecvWait e -> snd (step s (Resume t)) = RCancelled ->
     slot s e = None /\
     let s' := fst (step s (Resume t)) in
     buffer s' = buffer s /\ senders s' = senders s /\ entered s' = entered s /\ handed s' = handed s /\
     returned s' = returned s /\ lost s' = [] /\ acked s' = acked s).
Proof. exact ms_cancel_receive_loses_nothing. Qed.
Print Assumptions C12_cancel_receive_loses_nothing.

Theorem C12_cancelled_receive_removes_nothing : forall s t e,
  phase_of s t = RecvWait e -> slot s e = None -> snd (step s (Resume t)) = RCancelled ->
  let s' := fst (step s (Resume t)) in
  buffer s' = buffer s /\ senders s' = senders s /\ entered s' = entered s /\ handed s' = handed s /\
  returned s' = returned s /\ lost s' = lost s.
Proof. exact ms_cancelled_receive_removes_nothing. Qed.
Print Assumptions C12_cancelled_receive_removes_nothing.

(* definitional (late_native_cancel only matches the native Cancel op): kept as documentation of the premise, the content
   is that the model's scope_cancel never touches a task whose waiter is done - a modelling fact about
   _deliver_cancellation validated by the correspondence runs with Send/scoped, Recv/scoped ops, not a clause *)
Theorem C12_scope_cancel_is_disciplined : forall s t, ~ late_native_cancel s (ScopeCancel t).
Proof. exact ms_scope_cancel_is_disciplined. Qed.
Print Assumptions C12_scope_cancel_is_disciplined.

(* documented scope (not a finding): a native Task.cancel() in the hand-over cycle does lose the item *)
Theorem C12_native_cancel_in_handover_cycle_loses_item :
  let s := final step (init (Fin 0)) ex_native in
  ~ disciplined (init (Fin 0)) ex_native /\
  acked s = [7] /\ lost s = [7] /\ returned s = [] /\ buffer s = [] /\ inflight s = [] /\
  snd (step (final step (init (Fin 0)) [Recv 1 1; Resume 1; SendNowait 2 0 7; Cancel 1]) (Resume 1)) = RCancelled.
Proof. exact ex_native_cancel_in_handover_cycle_loses_item. Qed.
Print Assumptions C12_native_cancel_in_handover_cycle_loses_item.

(* an interrupted send is delivered at most once *)
Theorem C12_interrupted_send_at_most_once : forall m s, reach m s ->
  NoDup (returned s) /\
  (forall x, In x (withdrawn s) ->
     ~ In x (returned s) /\ ~ In x (map snd (inflight s)) /\ ~ In x (buffer s) /\ ~ In x (map snd (senders s))).
Proof. exact ms_interrupted_send_at_most_once. Qed.
Print Assumptions C12_interrupted_send_at_most_once.

Theorem C12_interrupted_send_cases : forall m s t e x, reach m s -> phase_of s t = SendWait e x ->
  In (e, x) (senders s) \/ In x (handed s ++ buffer s).
Proof. exact ms_interrupted_send_cases. Qed.
Print Assumptions C12_interrupted_send_cases.

(* ---------- additions after the independent audit (hunt/audit.md C12 4.1, 4.2) ---------- *)

(* the skip rule of send_nowait is safe: a skipped receiver is (already) cancelled, never a silent hang *)
Theorem C12_skip_means_future_cancelled : forall m s e t, reach m s ->
  In (e, t) (receivers s) -> has_pending s t = true ->
  fut s e = FCancelled /\ snd (step s (Resume t)) = RCancelled.
Proof. exact ms_skip_means_future_cancelled. Qed.
Print Assumptions C12_skip_means_future_cancelled.

Theorem C12_skipped_receiver_is_cancelled : forall m s t e, reach m s ->
  phase_of s t = RecvWait e -> ~ In (e, t) (receivers s) -> slot s e = None -> open_send s > 0 ->
  (fut s e = FCancelled \/ mustc s t = true) /\ fut s e <> FPending /\
  snd (step s (Resume t)) = RCancelled.
Proof. exact ms_skipped_receiver_is_cancelled. Qed.
Print Assumptions C12_skipped_receiver_is_cancelled.

(* trace-level FIFO of the waiting queues, for every op sequence: an entry is served only when every entry that
   started waiting earlier has been served or withdrawn (senders), resp. is gone or is a cancelled entry dropped by
   the same send (receivers); and entries leave the queues in no other way *)
Theorem C12_sender_fifo_trace : forall m s e y r, reach m s ->
  senders s = (e, y) :: r ->
  forall pre post, senq s = pre ++ e :: post ->
  (forall e', In e' pre -> ~ In e' (map fst (senders s))) /\ subseq (map fst r) post.
Proof. exact ms_sender_fifo_trace. Qed.
Print Assumptions C12_sender_fifo_trace.

Theorem C12_sender_entries_leave : forall s o,
  let s' := fst (step s o) in
  senders s' = senders s \/
  (exists e x, senders s' = senders s ++ [(e, x)]) \/
  (exists e y, senders s = (e, y) :: senders s' /\
               ((exists t h, o = RecvNowait t h) \/ (exists t h, o = Resume t /\ phase_of s t = RecvCk h))) \/
  (exists t e x, o = Resume t /\ phase_of s t = SendWait e x /\ senders s' = del_key e (senders s)).
Proof. exact ms_sender_entries_leave. Qed.
Print Assumptions C12_sender_entries_leave.

Theorem C12_receiver_fifo_trace : forall m s e t rest, reach m s ->
  pop_live s (receivers s) = (Some (e, t), rest) ->
  forall pre post, renq s = pre ++ e :: post ->
  subseq (map fst rest) post /\
  forall e', In e' pre ->
    ~ In e' (map fst rest) /\
    (In e' (map fst (receivers s)) ->
       exists t', In (e', t') (receivers s) /\ has_pending s t' = true /\ fut s e' = FCancelled).
Proof. exact ms_receiver_fifo_trace. Qed.
Print Assumptions C12_receiver_fifo_trace.

Theorem C12_receiver_entries_leave : forall m s o, reach m s ->
  let s' := fst (step s o) in
  receivers s' = receivers s \/
  (exists e t, receivers s' = receivers s ++ [(e, t)]) \/
  (((exists t h x, o = SendNowait t h x) \/ (exists t h x, o = Resume t /\ phase_of s t = SendCk h x)) /\
   receivers s' = snd (pop_live s (receivers s))) \/
  (exists t e, o = Resume t /\ phase_of s t = RecvWait e /\ receivers s' = del_key e (receivers s)) \/
  (exists h, o = Close h /\ receivers s' = [] /\ open_send s' = 0).
Proof. exact ms_receiver_entries_leave. Qed.
Print Assumptions C12_receiver_entries_leave.

(* ---- tie T: the methods of MemoryObjectSendStream / MemoryObjectReceiveStream regenerated from /repo's source by
   tools/translate_mem.py (MemGen.v) and interpreted by MemImp.exec ARE what the model does.  `runs s0 s' r h t kd p l0`
   (written out by C12_tie_runs_spec) = interpreting segment p for task t on stream object h from what s0 shows (buffer,
   open-channel counters, the two wait queues, receiver item slots, the waiter futures of the events, this object's
   _closed flag, has_pending_cancellation() as an oracle) yields exactly what s' shows, result r and t's phase; no other
   stream object and no other task's phase is touched.  Function-valued fields are compared pointwise.  send() and
   receive() are cut at `await checkpoint()` (entry) and at `await <event>.wait()`; `finish` is the kernel's side of a
   wake-up.  All other fields of st (nitem, entered, handed, returned, inflight, withdrawn, lost, acked, senq, renq) are
   history variables of the observer and are never read by the interpretation.  The clone/close/Broken/EndOfStream
   segments are exported in props/C13.v. ---- *)
From AV Require Import MemImp MemGen MemGenEq.

Theorem C12_tie_send_nowait : forall s t h x,
  phase_of s t = Idle -> valid_h s h SSend = true -> Nat.ltb x (nitem s) = false ->
  runs s (fst (step s (SendNowait t h x))) (snd (step s (SendNowait t h x))) h t KPlain
       snd_send_nowait_entry (loc0 (Some x)).
Proof. exact tie_send_nowait. Qed.
Print Assumptions C12_tie_send_nowait.

Theorem C12_tie_recv_nowait : forall s t h,
  phase_of s t = Idle -> valid_h s h SRecv = true ->
  runs s (fst (step s (RecvNowait t h))) (snd (step s (RecvNowait t h))) h t KPlain
       rcv_receive_nowait_entry (loc0 None).
Proof. exact tie_recv_nowait. Qed.
Print Assumptions C12_tie_recv_nowait.

Theorem C12_tie_send_entry : forall s t h x,
  phase_of s t = Idle -> valid_h s h SSend = true -> Nat.ltb x (nitem s) = false ->
  runs s (fst (step s (Send t h x))) (snd (step s (Send t h x))) h t (KSend h x) snd_send_entry (loc0 (Some x)).
Proof. exact tie_send_entry. Qed.
Print Assumptions C12_tie_send_entry.

Theorem C12_tie_send_ck_cancelled : forall s t h x,
  phase_of s t = SendCk h x -> mustc s t = true ->
  runs (finish s t) (fst (step s (Resume t))) (snd (step s (Resume t))) h t (KSend h x)
       snd_send_ck_cancelled (loc_resume (Some x) None false (Some ECancelled)).
Proof. exact tie_send_ck_cancelled. Qed.
Print Assumptions C12_tie_send_ck_cancelled.

Theorem C12_tie_send_ck_resumed : forall s t h x,
  phase_of s t = SendCk h x -> mustc s t = false ->
  runs (finish s t) (fst (step s (Resume t))) (snd (step s (Resume t))) h t (KSend h x)
       snd_send_ck_resumed (loc_resume (Some x) None false None).
Proof. exact tie_send_ck_resumed. Qed.
Print Assumptions C12_tie_send_ck_resumed.

Theorem C12_tie_send_event_cancelled : forall s t e x,
  phase_of s t = SendWait e x ->
  fut s e = FCancelled \/ (fut s e = FSet /\ mustc s t = true) ->
  forall h, runs (finish s t) (fst (step s (Resume t))) (snd (step s (Resume t))) h t (KSend h x)
       snd_send_event_cancelled (loc_resume (Some x) (Some e) false (Some ECancelled)).
Proof. exact tie_send_event_cancelled. Qed.
Print Assumptions C12_tie_send_event_cancelled.

Theorem C12_tie_recv_entry : forall s t h,
  phase_of s t = Idle -> valid_h s h SRecv = true ->
  runs s (fst (step s (Recv t h))) (snd (step s (Recv t h))) h t (KRecv h) rcv_receive_entry (loc0 None).
Proof. exact tie_recv_entry. Qed.
Print Assumptions C12_tie_recv_entry.

Theorem C12_tie_recv_ck_cancelled : forall s t h,
  phase_of s t = RecvCk h -> mustc s t = true ->
  runs (finish s t) (fst (step s (Resume t))) (snd (step s (Resume t))) h t (KRecv h)
       rcv_receive_ck_cancelled (loc_resume None None false (Some ECancelled)).
Proof. exact tie_recv_ck_cancelled. Qed.
Print Assumptions C12_tie_recv_ck_cancelled.

Theorem C12_tie_recv_ck_resumed : forall s t h,
  phase_of s t = RecvCk h -> mustc s t = false ->
  runs (finish s t) (fst (step s (Resume t))) (snd (step s (Resume t))) h t (KRecv h)
       rcv_receive_ck_resumed (loc_resume None None false None).
Proof. exact tie_recv_ck_resumed. Qed.
Print Assumptions C12_tie_recv_ck_resumed.

Theorem C12_tie_recv_event_cancelled : forall s t e,
  phase_of s t = RecvWait e ->
  fut s e = FCancelled \/ (fut s e = FSet /\ mustc s t = true) ->
  forall h, runs (finish s t) (fst (step s (Resume t))) (snd (step s (Resume t))) h t (KRecv h)
       rcv_receive_event_cancelled (loc_resume None (Some e) true (Some ECancelled)).
Proof. exact tie_recv_event_cancelled. Qed.
Print Assumptions C12_tie_recv_event_cancelled.

Theorem C12_tie_recv_event_resumed : forall s t e,
  phase_of s t = RecvWait e -> fut s e = FSet -> mustc s t = false ->
  forall h, runs (finish s t) (fst (step s (Resume t))) (snd (step s (Resume t))) h t (KRecv h)
       rcv_receive_event_resumed (loc_resume None (Some e) true None).
Proof. exact tie_recv_event_resumed. Qed.
Print Assumptions C12_tie_recv_event_resumed.

Theorem C12_tie_runs_spec : forall s0 s' r h t kd p l0,
  runs s0 s' r h t kd p l0 <->
  (let '(l, k, o) := exec p t l0 (vis s0 h) in
   (maxb s' = m_maxb k /\ buffer s' = m_buffer k /\ open_send s' = m_osend k /\ open_recv s' = m_orecv k /\
    receivers s' = m_recvs k /\ senders s' = m_sends k /\ (forall e, slot s' e = m_slot k e) /\
    (forall e, fut s' e = m_fut k e) /\ nev s' = m_nev k /\ hclosed s' h = m_closed k /\
    (forall h', h' <> h -> h' <> nh s0 -> hclosed s' h' = hclosed s0 h') /\
    (forall h', h' <> nh s0 -> hside s' h' = hside s0 h')) /\
   res_of s0 o = Some r /\ phase_after kd l o = Some (phase_of s' t) /\
   (forall t', t' <> t -> phase_of s' t' = phase_of s0 t')).
Proof. exact runs_spec. Qed.
Print Assumptions C12_tie_runs_spec.

Theorem C12_tie_step_runs_generated : forall s o s0 h ot kd p l0,
  dispatch mem_prog s o = Some (s0, h, ot, kd, p, l0) ->
  runs_opt s0 (fst (step s o)) (snd (step s o)) h ot kd p l0.
Proof. exact step_runs_generated. Qed.
Print Assumptions C12_tie_step_runs_generated.

Theorem C12_tie_grun_iff_reach : forall m s,
  grun mem_prog m s <-> reach m s.
Proof. exact grun_iff_reach. Qed.
Print Assumptions C12_tie_grun_iff_reach.

Theorem C12_tie_gen_conservation : forall m s,
  grun mem_prog m s ->
  Permutation (entered s)
    (returned s ++ map snd (inflight s) ++ lost s ++ buffer s ++ map snd (senders s) ++ withdrawn s) /\
  NoDup (entered s) /\ NoDup (returned s) /\ (forall x, In x (returned s) -> In x (entered s)).
Proof. exact gen_conservation. Qed.
Print Assumptions C12_tie_gen_conservation.

Theorem C12_tie_gen_fifo : forall m s,
  grun mem_prog m s ->
  subseq (handed s ++ buffer s ++ map snd (senders s)) (entered s) /\ xle (length (buffer s)) m.
Proof. exact gen_fifo. Qed.
Print Assumptions C12_tie_gen_fifo.

Theorem C12_tie_gen_invariant : forall m s,
  grun mem_prog m s -> Inv s.
Proof. exact gen_invariant. Qed.
Print Assumptions C12_tie_gen_invariant.


(* non-vacuity of C12_sender_fifo_trace with a non-empty `pre` (QA audit 2, 2.1): two blocked senders, a receive in
   between; the instance of the theorem's conclusion is stated explicitly *)
Theorem C12_sender_fifo_trace_nonvacuous :
  let s := final step (init (Fin 0)) [Send 1 0 1; Resume 1; Send 2 0 2; Resume 2; RecvNowait 3 1] in
  reach (Fin 0) s /\ senders s = [(1, 2)] /\ senq s = [0] ++ 1 :: [] /\ returned s = [1] /\
  (forall e', In e' [0] -> ~ In e' (map fst (senders s))) /\ subseq (map fst (@nil (eid * item))) (@nil eid).
Proof. exact ex_sender_fifo_trace_nonempty_pre. Qed.
Print Assumptions C12_sender_fifo_trace_nonvacuous.
