(* C06 — Deadlines fire exactly when due; timeout helpers report them faithfully.
   This file contains only statements closed by `exact` and their Print Assumptions.
   Model: scopes/Machine.v (S machine).  "for every op sequence" = for every s with
   `exists ops, wf_run init ops /\ s = final step init ops`; wf_run only demands that AEnter names an allocated
   scope id (C06_invariant_needs_wf shows that the totalised model violates the invariant otherwise).
   live s tm = number of loop entries (timer heap + ready queue) carrying timer id tm. *)
From AV Require Import Base Machine ChainSpec ChainGen ChainEq ChainFrame ChainThms ChainWalk ChainMono TimerInv TimerThms TimerOrder.
From AV Require Import TreeStep ChainReach TimerRun TimerOwn TimerWitness.
From Coq Require Import Sorted.

(* ---------------- I3: one live timer, never missed, no stray timers ---------------- *)
Theorem C06_one_live_timer : forall (s : st) (c : sid) (tm : tmid),
  (exists ops, wf_run init ops /\ s = final step init ops) ->
  s_timeout (scopes s c) = Some tm -> s_cancelled (scopes s c) = false ->
  s_active (scopes s c) = true /\ live s tm = 1 /\
  ((exists d, In (mkTimer tm d (TScope c)) (timers s) /\ s_deadline (scopes s c) = Some d) \/
   (In (HTimeout c tm) (ready s) /\ exists d, s_deadline (scopes s c) = Some d /\ (d <= now s)%Z)).
Proof. exact one_live_timer. Qed.
Print Assumptions C06_one_live_timer.

Theorem C06_never_missed : forall (s : st) (c : sid) (d : Z),
  (exists ops, wf_run init ops /\ s = final step init ops) ->
  s_active (scopes s c) = true -> s_cancelled (scopes s c) = false -> s_deadline (scopes s c) = Some d ->
  exists tm, s_timeout (scopes s c) = Some tm /\ live s tm = 1 /\
             (In (mkTimer tm d (TScope c)) (timers s) \/ (In (HTimeout c tm) (ready s) /\ (d <= now s)%Z)).
Proof. exact never_missed. Qed.
Print Assumptions C06_never_missed.

Theorem C06_no_stray_timers : forall s : st,
  (exists ops, wf_run init ops /\ s = final step init ops) ->
  (forall x c, In x (timers s) -> tm_what x = TScope c ->
               s_timeout (scopes s c) = Some (tm_id x) /\ s_deadline (scopes s c) = Some (tm_when x)) /\
  (forall c tm, In (HTimeout c tm) (ready s) ->
                s_timeout (scopes s c) = Some tm /\ exists d, s_deadline (scopes s c) = Some d /\ (d <= now s)%Z).
Proof. exact no_stray_timers. Qed.
Print Assumptions C06_no_stray_timers.

Theorem C06_no_timer_after_exit : forall (s : st) (c : sid),
  (exists ops, wf_run init ops /\ s = final step init ops) -> s_active (scopes s c) = false ->
  s_timeout (scopes s c) = None /\ (forall x, In x (timers s) -> tm_what x <> TScope c) /\
  (forall tm, ~ In (HTimeout c tm) (ready s)).
Proof. exact no_timer_after_exit. Qed.
Print Assumptions C06_no_timer_after_exit.

Theorem C06_exit_deactivates : forall (s : st) (c : sid) (t : tid) (exc : option exn),
  (s_active (scopes s c) && opt_eqb (s_host (scopes s c)) t && opt_eqb (k_cur (tasks s t)) c) = true ->
  s_active (scopes (fst (scope_exit s c t exc)) c) = false.
Proof. exact exit_deactivates. Qed.
Print Assumptions C06_exit_deactivates.

Theorem C06_timer_ids_unique : forall (s : st) (tm : tmid),
  (exists ops, wf_run init ops /\ s = final step init ops) ->
  live s tm <= 1 /\ (ntimer s <= tm -> live s tm = 0).
Proof. exact timer_ids_unique. Qed.
Print Assumptions C06_timer_ids_unique.

(* never missed, strong form: a due deadline has its callback in the ready queue; running it cancels the scope *)
Theorem C06_due_timeout_is_ready : forall (s : st) (c : sid) (d : Z),
  (exists ops, wf_run init ops /\ s = final step init ops) ->
  s_active (scopes s c) = true -> s_cancelled (scopes s c) = false ->
  s_deadline (scopes s c) = Some d -> (d <= now s)%Z ->
  exists tm, s_timeout (scopes s c) = Some tm /\ In (HTimeout c tm) (ready s) /\ live s tm = 1.
Proof. exact due_timeout_is_ready. Qed.
Print Assumptions C06_due_timeout_is_ready.

Theorem C06_timeout_run_cancels : forall (s : st) (c : sid) (tm : tmid),
  (exists ops, wf_run init ops /\ s = final step init ops) -> In (HTimeout c tm) (ready s) ->
  let s' := fst (step s (ARun (HTimeout c tm))) in
  s_cancelled (scopes s' c) = true /\
  (s_cancelled (scopes s c) = false -> s_bydeadline (scopes s' c) = true) /\
  ~ In (HTimeout c tm) (ready s') /\ now s' = now s.
Proof. exact timeout_run_cancels. Qed.
Print Assumptions C06_timeout_run_cancels.

(* deadline timers still in the heap are strictly in the future -- every op sequence, no side condition *)
Theorem C06_heap_timers_in_future : forall (ops : list op) (x : timer) (c : sid),
  In x (timers (final step init ops)) -> tm_what x = TScope c -> (now (final step init ops) < tm_when x)%Z.
Proof. exact reach_heap_future. Qed.
Print Assumptions C06_heap_timers_in_future.

(* model observation: the machine accepts AEnter on a never-allocated scope id; then a stray timer appears *)
Theorem C06_invariant_needs_wf :
  let ops := [ANewRoot; ASetDeadline 1 2 (Some 100%Z); AEnter 1 2; ANewScope 1 None false; ANewScope 1 None false] in
  let s := final step init ops in
  In (mkTimer 1 100%Z (TScope 2)) (timers s) /\ s_timeout (scopes s 2) = None /\ s_active (scopes s 2) = false /\
  ~ wf_run init ops.
Proof. exact tinv_needs_wf. Qed.
Print Assumptions C06_invariant_needs_wf.

(* ---------------- never early ---------------- *)
(* s_bydeadline is the ghost "cancelled with reason deadline"; for EVERY state and EVERY op, for allocated scopes
   (c < nscope s: an unallocated slot is overwritten by the next new scope) *)
Theorem C06_deadline_cancel_only_when_due : forall (s : st) (o : op) (c : sid),
  c < nscope s ->
  s_bydeadline (scopes s c) = false -> s_bydeadline (scopes (fst (step s o)) c) = true ->
  s_cancelled (scopes s c) = false /\ s_cancelled (scopes (fst (step s o)) c) = true /\
  exists d, s_deadline (scopes (fst (step s o)) c) = Some d /\ (d <= now (fst (step s o)))%Z.
Proof. exact deadline_cancel_only_when_due. Qed.
Print Assumptions C06_deadline_cancel_only_when_due.

(* ... and only via CancelScope._timeout: if the op neither enters a scope with a finite deadline (AEnter, fail_at,
   task group entry, first step of a child whose handle scope was given one), nor assigns a finite deadline, nor
   runs a fired timeout callback, then no scope becomes cancelled-by-deadline in that step *)
Theorem C06_bydeadline_only_by_timeout_ops : forall (s : st) (o : op) (c : sid),
  c < nscope s ->
  match o with
  | AEnter _ x => s_deadline (scopes s x) = None
  | ASetDeadline _ _ d => d = None
  | AFailAt _ d _ => d = None
  | AGroupEnter _ g => s_deadline (scopes s (g_scope (groups s g))) = None
  | ARun (HStep t) | ARun (HWake t _) => s_deadline (scopes s (k_hscope (tasks s t))) = None
  | ARun (HTimeout _ _) => False
  | _ => True
  end ->
  s_bydeadline (scopes s c) = false -> s_bydeadline (scopes (fst (step s o)) c) = false.
Proof. exact bydeadline_only_by_timeout_ops. Qed.
Print Assumptions C06_bydeadline_only_by_timeout_ops.

Theorem C06_timeout_only_when_due : forall (s : st) (c x : sid),
  s_bydeadline (scopes (scope_timeout s c) x) = true -> s_bydeadline (scopes s x) = false ->
  x = c /\ exists d, s_deadline (scopes s c) = Some d /\ (d <= now s)%Z.
Proof. exact scope_timeout_only_when_due. Qed.
Print Assumptions C06_timeout_only_when_due.

(* ---------------- the clock ---------------- *)
Theorem C06_tick_moves_due_timers : forall (s : st) (dt : Z),
  (0 <= dt)%Z ->
  let s' := fst (step s (ATick dt)) in
  now s' = (now s + dt)%Z /\
  (forall x, In x (timers s') <-> In x (timers s) /\ (now s' < tm_when x)%Z) /\
  exists moved, ready s' = ready s ++ map handle_of_timer moved /\
                (forall x, In x moved <-> In x (timers s) /\ (tm_when x <= now s')%Z) /\
                length moved = length (filter (fun x => Z.leb (tm_when x) (now s')) (timers s)) /\
                StronglySorted (fun a b => (tm_when a <= tm_when b)%Z) moved.
Proof. exact tick_moves_due_timers. Qed.
Print Assumptions C06_tick_moves_due_timers.

(* ... and they are appended in (when, id) order -- for EVERY op sequence, no side condition *)
Theorem C06_tick_order : forall (ops : list op) (dt : Z),
  (0 <= dt)%Z ->
  let s := final step init ops in
  let s' := fst (step s (ATick dt)) in
  exists moved, ready s' = ready s ++ map handle_of_timer moved /\
                (forall x, In x moved <-> In x (timers s) /\ (tm_when x <= now s')%Z) /\
                StronglySorted (fun a b => (tm_when a < tm_when b)%Z \/ (tm_when a = tm_when b /\ tm_id a < tm_id b)) moved.
Proof. exact tick_order. Qed.
Print Assumptions C06_tick_order.

(* ---------------- on entry / on deadline assignment ---------------- *)
Theorem C06_past_deadline_cancels_on_enter : forall (s : st) (c : sid) (t : tid) (d : Z),
  s_active (scopes s c) = false -> s_deadline (scopes s c) = Some d -> (d <= now s)%Z ->
  let s' := fst (scope_enter s c t) in
  s_cancelled (scopes s' c) = true /\ s_active (scopes s' c) = true /\
  (s_cancelled (scopes s c) = false -> s_bydeadline (scopes s' c) = true).
Proof. exact past_deadline_cancels_on_enter. Qed.
Print Assumptions C06_past_deadline_cancels_on_enter.

Theorem C06_deadline_assignment_rearms : forall (s : st) (t : tid) (c : sid) (d : option Z),
  (exists ops, wf_run init ops /\ s = final step init ops) -> idle s t = true ->
  let s' := fst (step s (ASetDeadline t c d)) in
  (exists ops, wf_run init ops /\ s' = final step init ops) /\ s_deadline (scopes s' c) = d /\
  (s_active (scopes s' c) = true -> s_cancelled (scopes s' c) = false ->
   match d with
   | Some z => exists tm, s_timeout (scopes s' c) = Some tm /\ In (mkTimer tm z (TScope c)) (timers s') /\ (now s' < z)%Z
   | None => s_timeout (scopes s' c) = None
   end).
Proof. exact deadline_assignment_rearms. Qed.
Print Assumptions C06_deadline_assignment_rearms.

(* ---------------- fail_at / fail_after ---------------- *)
Theorem C06_fail_at_timeout_iff : forall (s : st) (t : tid) (c : sid),
  idle s t = true ->
  let s0 := begin_act s t in
  let exc := k_held (tasks s0 t) in
  (snd (step s (AExit t c true)) = RExc ETimeout <->
   snd (scope_exit s0 c t exc) = XTrue /\ s_caught (scopes (fst (scope_exit s0 c t exc)) c) = true /\
   exists d, s_deadline (scopes s c) = Some d /\ (d <= now s)%Z).
Proof. exact fail_at_timeout_iff. Qed.
Print Assumptions C06_fail_at_timeout_iff.

Theorem C06_fail_at_timeout_iff_caller_state : forall (s : st) (t : tid) (c : sid),
  idle s t = true ->
  let s0 := begin_act s t in
  (snd (step s (AExit t c true)) = RExc ETimeout <->
   (s_active (scopes s0 c) && opt_eqb (s_host (scopes s0 c)) t && opt_eqb (k_cur (tasks s0 t)) c) = true /\
   s_cancelled (scopes s c) = true /\ parent_visible s c = false /\
   ((exists e, k_held (tasks s t) = Some e /\ is_anyio_cancel e = true) \/
    (exists l m, k_held (tasks s t) = Some (EGroup l) /\ split_exn (EGroup l) = (Some m, None))) /\
   exists d, s_deadline (scopes s c) = Some d /\ (d <= now s)%Z).
Proof. exact fail_at_timeout_iff'. Qed.
Print Assumptions C06_fail_at_timeout_iff_caller_state.

(* ---------------- current_effective_deadline (tie T) ---------------- *)
(* generated = spec holds for all chains; machine = generated holds on chains of entered scopes, hence (reach_ok, see
   the header of props/C04.v) for the walk from any task's current scope in every reachable state of the generated
   domain *)
Theorem C06_effective_deadline_gen_eq : forall l : list scope_rec, gen_eff_deadline l = eff_deadline_spec l.
Proof. exact effective_deadline_gen_eq. Qed.
Print Assumptions C06_effective_deadline_gen_eq.

Theorem C06_effective_deadline_neginf_iff_cancelled : forall l : list scope_rec,
  eff_deadline_spec l = XNegInf <-> eff_cancelled_spec l = true.
Proof. exact eff_deadline_spec_neginf. Qed.
Print Assumptions C06_effective_deadline_neginf_iff_cancelled.

(* visible l = the chain up to and including the nearest shielded or exited (F42) scope; xof d = the deadline as an
   extended time *)
Theorem C06_effective_deadline_is_min : forall l : list scope_rec,
  eff_cancelled_spec l = false ->
  (forall r, In r (visible l) -> xle (eff_deadline_spec l) (xof (r_deadline r))) /\
  (eff_deadline_spec l = XInf \/ exists r, In r (visible l) /\ eff_deadline_spec l = xof (r_deadline r)).
Proof. exact eff_deadline_spec_min. Qed.
Print Assumptions C06_effective_deadline_is_min.

(* the machine's walk = the generated one on chains of entered scopes, hence for every task of every reachable state
   of the generated domain (see C04_reach_walks_see_entered_scopes) *)
Theorem C06_machine_eff_deadline_is_generated : forall (fuel : nat) (s : st) (x : option sid),
  Forall (fun r => r_hosted r = true) (chain_of fuel s x) ->
  eff_deadline_from fuel s x XInf = gen_eff_deadline (chain_of fuel s x).
Proof. exact machine_eff_deadline_gen. Qed.
Print Assumptions C06_machine_eff_deadline_is_generated.

Theorem C06_reach_eff_deadline_is_generated : forall (s : st) (fuel : nat) (t : tid),
  reach_ok s ->
  eff_deadline_from fuel s (k_cur (tasks s t)) XInf = gen_eff_deadline (chain_of fuel s (k_cur (tasks s t))).
Proof. exact reach_eff_deadline_is_generated. Qed.
Print Assumptions C06_reach_eff_deadline_is_generated.

(* ---------------- "never missed" with its real hypothesis (audit T4) ---------------- *)
(* whatever the program and the loop do after the deadline of an active, uncancelled scope has become due: the scope
   is cancelled, or it was disarmed (left, or its deadline changed), or its timeout callback is still pending *)
Theorem C06_due_deadline_cancels_unless_disarmed : forall (s : st) (c : sid) (d : Z) (ops : list op),
  (exists ops0, wf_run init ops0 /\ s = final step init ops0) ->
  s_active (scopes s c) = true -> s_cancelled (scopes s c) = false ->
  s_deadline (scopes s c) = Some d -> (d <= now s)%Z ->
  let s' := final step s ops in wf_run s ops ->
  s_cancelled (scopes s' c) = true \/ s_active (scopes s' c) = false \/ s_deadline (scopes s' c) <> Some d \/
  (exists tm, In (HTimeout c tm) (ready s')).
Proof. exact due_deadline_cancels_unless_disarmed. Qed.
Print Assumptions C06_due_deadline_cancels_unless_disarmed.

(* one loop cycle: if ops runs every handle that was ready in s and the scope is neither left nor given another
   deadline meanwhile (at every prefix of ops it is still active with deadline d), the scope is cancelled afterwards *)
Theorem C06_due_deadline_cancelled_after_cycle : forall (s : st) (c : sid) (d : Z) (ops : list op),
  (exists ops0, wf_run init ops0 /\ s = final step init ops0) ->
  s_active (scopes s c) = true -> s_cancelled (scopes s c) = false ->
  s_deadline (scopes s c) = Some d -> (d <= now s)%Z ->
  wf_run s ops ->
  (forall pre post, ops = pre ++ post ->
     s_active (scopes (final step s pre) c) = true /\ s_deadline (scopes (final step s pre) c) = Some d) ->
  (forall h, In h (ready s) -> In (ARun h) ops) ->
  s_cancelled (scopes (final step s ops) c) = true.
Proof. exact due_deadline_cancelled_after_cycle. Qed.
Print Assumptions C06_due_deadline_cancelled_after_cycle.

(* the semantic "left alone" hypothesis cannot be replaced by "ops contains no AExit _ c _ / ASetDeadline _ c _": a
   task group's own scope is left by AGroupExit.  Group scope 1 has deadline 5, the clock is at 5, the callback is
   ready; the host leaves the group first; the scope is never cancelled. *)
Theorem C06_cycle_needs_left_alone :
  let s := final step init [ANewRoot; AGroupNew 1; AGroupEnter 1 1; ASetDeadline 1 1 (Some 5%Z); ATick 5] in
  let cycle := [AGroupExit 1 1; ARun (HStep 1); ARun (HTimeout 1 1)] in
  (exists ops0, wf_run init ops0 /\ s = final step init ops0) /\
  s_active (scopes s 1) = true /\ s_cancelled (scopes s 1) = false /\
  s_deadline (scopes s 1) = Some 5%Z /\ now s = 5%Z /\ ready s = [HTimeout 1 1] /\ wf_run s cycle /\
  (forall h, In h (ready s) -> In (ARun h) cycle) /\
  forallb (fun o => match o with AExit _ 1 _ | ASetDeadline _ 1 _ => false | _ => true end) cycle = true /\
  s_cancelled (scopes (final step s cycle) 1) = false /\ s_active (scopes (final step s cycle) 1) = false.
Proof. exact stays_needed. Qed.
Print Assumptions C06_cycle_needs_left_alone.

(* fired timer callbacks enter the ready queue only through an accepted ATick (every state, every op) *)
Theorem C06_fired_callbacks_only_by_tick : forall (s : st) (o : op) (h : handle),
  (forall dt, o <> ATick dt) ->
  match h with HSleepDone _ _ | HTimeout _ _ => true | _ => false end = true ->
  In h (ready (fst (step s o))) -> In h (ready s).
Proof. exact fired_callbacks_only_by_tick. Qed.
Print Assumptions C06_fired_callbacks_only_by_tick.

(* ---------------- what fail_at / move_on report, with the provisos of the text explicit ---------------- *)
(* c = the scope created and entered by the op `AFailAt t0 d0 sh` (fail_at, fail_after, move_on_at, move_on_after)
   after the history `pre`; `mid` is everything that happens until the block is left.
   no_explicit_cancel c mid : mid contains no ACancel _ c / AExtCancel c            ("not also cancelled explicitly")
   no_redeadline c s2 mid   : no ASetDeadline _ c _ at a point where c is cancelled ("deadline not reassigned after it
                              has fired"), evaluated along the run.
   Hypotheses of both theorems: the whole run is wf_run, the AFailAt op was accepted (idle s1 t0), the two provisos,
   and the exiting task is at a decision point (idle s t).
   C06_timeout_iff_own_deadline: TimeoutError IFF the three exit guards pass /\ cancelled by its OWN deadline /\ no
   enclosing cancellation visible at the exit /\ the block ended with AnyIO cancellations only.
   C06_move_on_caught_iff: cancelled_caught is true after the exit IFF it was ALREADY true before the exit, or (guards
   /\ own deadline /\ no enclosing cancellation visible /\ at least one AnyIO cancellation, alone or in a group whose
   remainder is re-raised).
   The extra conjuncts are real (C06_t1_..., C06_t2_... below) and so are the provisos
   (C06_explicit_cancel_proviso_needed, C06_redeadline_proviso_needed); both sides true: C06_own_deadline_witness. *)
Theorem C06_timeout_iff_own_deadline : forall (pre : list op) (t0 : tid) (d0 : option Z) (sh : bool) (mid : list op),
  let s1 := final step init pre in
  let c := nscope s1 in
  let s2 := fst (step s1 (AFailAt t0 d0 sh)) in
  let s := final step s2 mid in
  wf_run init (pre ++ AFailAt t0 d0 sh :: mid) -> idle s1 t0 = true ->
  no_explicit_cancel c mid = true -> no_redeadline c s2 mid = true ->
  forall t, idle s t = true ->
  (snd (step s (AExit t c true)) = RExc ETimeout <->
   (s_active (scopes (begin_act s t) c) && opt_eqb (s_host (scopes (begin_act s t) c)) t &&
    opt_eqb (k_cur (tasks (begin_act s t) t)) c) = true /\
   s_bydeadline (scopes s c) = true /\ parent_visible s c = false /\
   ((exists e, k_held (tasks s t) = Some e /\ is_anyio_cancel e = true) \/
    (exists l m, k_held (tasks s t) = Some (EGroup l) /\ split_exn (EGroup l) = (Some m, None)))).
Proof. exact timeout_iff_own_deadline. Qed.
Print Assumptions C06_timeout_iff_own_deadline.

Theorem C06_move_on_caught_iff : forall (pre : list op) (t0 : tid) (d0 : option Z) (sh : bool) (mid : list op),
  let s1 := final step init pre in
  let c := nscope s1 in
  let s2 := fst (step s1 (AFailAt t0 d0 sh)) in
  let s := final step s2 mid in
  wf_run init (pre ++ AFailAt t0 d0 sh :: mid) -> idle s1 t0 = true ->
  no_explicit_cancel c mid = true -> no_redeadline c s2 mid = true ->
  forall t fa, idle s t = true ->
  (s_caught (scopes (fst (step s (AExit t c fa))) c) = true <->
   s_caught (scopes s c) = true \/
   ((s_active (scopes (begin_act s t) c) && opt_eqb (s_host (scopes (begin_act s t) c)) t &&
     opt_eqb (k_cur (tasks (begin_act s t) t)) c) = true /\
    s_bydeadline (scopes s c) = true /\ parent_visible s c = false /\
    (((exists e, k_held (tasks s t) = Some e /\ is_anyio_cancel e = true) \/
      (exists l m, k_held (tasks s t) = Some (EGroup l) /\ split_exn (EGroup l) = (Some m, None))) \/
     exists r l m, k_held (tasks s t) = Some (EGroup l) /\ split_exn (EGroup l) = (Some m, Some r)))).
Proof. exact move_on_caught_iff. Qed.
Print Assumptions C06_move_on_caught_iff.

(* under the provisos: cancel_called <-> cancelled by the own deadline, and then the deadline has passed *)
Theorem C06_own_deadline_facts : forall (pre : list op) (t0 : tid) (d0 : option Z) (sh : bool) (mid : list op),
  let s1 := final step init pre in
  let c := nscope s1 in
  let s2 := fst (step s1 (AFailAt t0 d0 sh)) in
  let s := final step s2 mid in
  wf_run init (pre ++ AFailAt t0 d0 sh :: mid) -> idle s1 t0 = true ->
  no_explicit_cancel c mid = true -> no_redeadline c s2 mid = true ->
  (s_cancelled (scopes s c) = true <-> s_bydeadline (scopes s c) = true) /\
  (s_bydeadline (scopes s c) = true -> exists d, s_deadline (scopes s c) = Some d /\ (d <= now s)%Z).
Proof. exact own_deadline_facts. Qed.
Print Assumptions C06_own_deadline_facts.

(* audit T1: own deadline fired and interrupted the block, all provisos hold, but the enclosing scope 1 is cancelled
   before the block is left: no TimeoutError, cancelled_caught of the fail_at scope stays false, the OUTER scope
   absorbs the cancellation carrying the inner scope's tag *)
Theorem C06_t1_enclosing_cancellation_hides_timeout :
  let pre := [ANewRoot; ANewScope 1 None false; AEnter 1 1] in
  let mid := [ASleep 1 None; ATick 5; ARun (HTimeout 2 1); AExtCancel 1] in
  let s := final step init (pre ++ AFailAt 1 (Some 5%Z) false :: mid) in
  let c := nscope (final step init pre) in
  let f := match k_waiter (tasks s 1) with Some f => f | None => 0 end in
  let sa := fst (step s (ARun (HWake 1 f))) in
  c = 2 /\ wf_run init (pre ++ AFailAt 1 (Some 5%Z) false :: mid) /\
  no_explicit_cancel c (mid ++ [ARun (HWake 1 f)]) = true /\
  no_redeadline c (fst (step (final step init pre) (AFailAt 1 (Some 5%Z) false))) (mid ++ [ARun (HWake 1 f)]) = true /\
  snd (step s (ARun (HWake 1 f))) = RExc (ECancel 3) /\
  s_bydeadline (scopes sa 2) = true /\ parent_visible sa 2 = true /\
  snd (step sa (AExit 1 2 true)) = RRet 0 /\
  let sb := fst (step sa (AExit 1 2 true)) in
  s_caught (scopes sb 2) = false /\ k_held (tasks sb 1) = Some (ECancel 3) /\
  snd (step sb (AExit 1 1 false)) = RRet 1 /\
  s_caught (scopes (fst (step sb (AExit 1 1 false))) 1) = true.
Proof. exact t1_enclosing_cancellation_hides_timeout. Qed.
Print Assumptions C06_t1_enclosing_cancellation_hides_timeout.

(* audit T2: the block ends with a group holding the deadline cancellation and another error: cancelled_caught = True
   but the remainder is re-raised instead of TimeoutError *)
Theorem C06_t2_group_remainder_instead_of_timeout :
  (* t2_state = final step init ([ANewRoot] ++ AFailAt 1 (Some 5) false :: [ASleep 1 None; ATick 5; ARun (HTimeout 1 1)]) *)
  let f := match k_waiter (tasks t2_state 1) with Some f => f | None => 0 end in
  let sa := final step t2_state [ARun (HWake 1 f); AWrap 1 7] in
  nscope (final step init [ANewRoot]) = 1 /\
  k_held (tasks sa 1) = Some (EGroup [ECancel 2; EErr 7]) /\ s_bydeadline (scopes sa 1) = true /\
  parent_visible sa 1 = false /\
  snd (step sa (AExit 1 1 true)) = RExc (EGroup [EErr 7]) /\
  s_caught (scopes (fst (step sa (AExit 1 1 true))) 1) = true.
Proof. exact t2_group_remainder_instead_of_timeout. Qed.
Print Assumptions C06_t2_group_remainder_instead_of_timeout.

(* ---------------- non-vacuity witnesses (vm_compute; the op lists are the Definitions named in the comments) ---------------- *)
(* both sides of C06_timeout_iff_own_deadline true, all hypotheses met:
   t2_mid = [ASleep 1 None; ATick 5; ARun (HTimeout 1 1)], t2_state = final step init ([ANewRoot] ++ AFailAt 1 (Some 5) false :: t2_mid) *)
Theorem C06_own_deadline_witness :
  let f := match k_waiter (tasks t2_state 1) with Some f => f | None => 0 end in
  let mid := t2_mid ++ [ARun (HWake 1 f)] in
  wf_run init ([ANewRoot] ++ AFailAt 1 (Some 5%Z) false :: mid) /\
  idle (final step init [ANewRoot]) 1 = true /\
  no_explicit_cancel 1 mid = true /\
  no_redeadline 1 (fst (step (final step init [ANewRoot]) (AFailAt 1 (Some 5%Z) false))) mid = true /\
  let s := final step (fst (step (final step init [ANewRoot]) (AFailAt 1 (Some 5%Z) false))) mid in
  idle s 1 = true /\ snd (step s (AExit 1 1 true)) = RExc ETimeout.
Proof. exact own_deadline_provisos_witness. Qed.
Print Assumptions C06_own_deadline_witness.

(* the proviso "not also cancelled explicitly" is needed: expl_mid = [ASleep 1 None; ANewRoot; ACancel 2 1; ATick 5],
   expl_state = final step init ([ANewRoot] ++ AFailAt 1 (Some 5) false :: expl_mid).  cancel() at time 0 removed the
   timer, the deadline never fires, the block is left at time 5: TimeoutError although s_bydeadline = false *)
Theorem C06_explicit_cancel_proviso_needed :
  let f := match k_waiter (tasks expl_state 1) with Some f => f | None => 0 end in
  let mid := expl_mid ++ [ARun (HWake 1 f)] in
  let s2 := fst (step (final step init [ANewRoot]) (AFailAt 1 (Some 5%Z) false)) in
  let s := final step s2 mid in
  wf_run init ([ANewRoot] ++ AFailAt 1 (Some 5%Z) false :: mid) /\ idle (final step init [ANewRoot]) 1 = true /\
  no_explicit_cancel 1 mid = false /\ no_redeadline 1 s2 mid = true /\ idle s 1 = true /\
  timers s = [] /\ s_bydeadline (scopes s 1) = false /\ s_cancelled (scopes s 1) = true /\
  snd (step s (AExit 1 1 true)) = RExc ETimeout /\
  s_caught (scopes (fst (step s (AExit 1 1 true))) 1) = true.
Proof. exact explicit_cancel_proviso_needed. Qed.
Print Assumptions C06_explicit_cancel_proviso_needed.

(* the proviso "deadline not reassigned after it has fired" is needed: redl_mid = [ASleep 1 None; ATick 5;
   ARun (HTimeout 1 1); ANewRoot; ASetDeadline 2 1 (Some 50)], redl_state likewise.  Own deadline fired, no enclosing
   cancellation, block ended with that cancellation only -- the right-hand side holds -- but no TimeoutError *)
Theorem C06_redeadline_proviso_needed :
  let f := match k_waiter (tasks redl_state 1) with Some f => f | None => 0 end in
  let mid := redl_mid ++ [ARun (HWake 1 f)] in
  let s2 := fst (step (final step init [ANewRoot]) (AFailAt 1 (Some 5%Z) false)) in
  let s := final step s2 mid in
  wf_run init ([ANewRoot] ++ AFailAt 1 (Some 5%Z) false :: mid) /\ idle (final step init [ANewRoot]) 1 = true /\
  no_explicit_cancel 1 mid = true /\ no_redeadline 1 s2 mid = false /\ idle s 1 = true /\
  exit_guards (begin_act s 1) 1 1 = true /\ s_bydeadline (scopes s 1) = true /\ parent_visible s 1 = false /\
  k_held (tasks s 1) = Some (ECancel 2) /\
  snd (step s (AExit 1 1 true)) = RRet 1 /\
  s_caught (scopes (fst (step s (AExit 1 1 true))) 1) = true.
Proof. exact redeadline_proviso_needed. Qed.
Print Assumptions C06_redeadline_proviso_needed.

(* the cycle theorem on a cycle with two ready callbacks, the scope's own one run last:
   cyc2_state = final step init [ANewRoot; AFailAt 1 (Some 5) false; ASleep 1 None; ANewRoot; ASleep 2 (Some 5); ATick 5],
   cyc2_cycle = map ARun (rev (ready cyc2_state)) = [ARun (HSleepDone 5 2); ARun (HTimeout 1 1)] *)
Theorem C06_cycle_witness :
  (exists ops0, wf_run init ops0 /\ cyc2_state = final step init ops0) /\
  length (ready cyc2_state) = 2 /\ In (HTimeout 1 1) (ready cyc2_state) /\
  cyc2_cycle <> [] /\ hd (ATick 0) cyc2_cycle <> ARun (HTimeout 1 1) /\
  s_active (scopes cyc2_state 1) = true /\ s_cancelled (scopes cyc2_state 1) = false /\
  s_deadline (scopes cyc2_state 1) = Some 5%Z /\ (5 <= now cyc2_state)%Z /\
  wf_run cyc2_state cyc2_cycle /\
  (forall pre post, cyc2_cycle = pre ++ post ->
     s_active (scopes (final step cyc2_state pre) 1) = true /\
     s_deadline (scopes (final step cyc2_state pre) 1) = Some 5%Z) /\
  (forall h, In h (ready cyc2_state) -> In (ARun h) cyc2_cycle) /\
  s_cancelled (scopes (final step cyc2_state cyc2_cycle) 1) = true.
Proof. exact cycle_witness2. Qed.
Print Assumptions C06_cycle_witness.

(* each of the four outcomes of C06_due_deadline_cancels_unless_disarmed occurs, from one start state:
   dis_state = final step init [ANewRoot; AFailAt 1 (Some 5) false; ANewRoot; ATick 5] (callback pending, host idle) *)
Theorem C06_disarm_outcomes_witness :
  (exists ops0, wf_run init ops0 /\ dis_state = final step init ops0) /\
  s_active (scopes dis_state 1) = true /\ s_cancelled (scopes dis_state 1) = false /\
  s_deadline (scopes dis_state 1) = Some 5%Z /\ (5 <= now dis_state)%Z /\
  (wf_run dis_state [ARun (HTimeout 1 1)] /\
   s_cancelled (scopes (final step dis_state [ARun (HTimeout 1 1)]) 1) = true) /\
  (wf_run dis_state [AExit 1 1 true] /\
   s_cancelled (scopes (final step dis_state [AExit 1 1 true]) 1) = false /\
   s_active (scopes (final step dis_state [AExit 1 1 true]) 1) = false /\
   snd (step dis_state (AExit 1 1 true)) = RRet 0) /\
  (wf_run dis_state [ASetDeadline 2 1 (Some 9%Z)] /\
   s_cancelled (scopes (final step dis_state [ASetDeadline 2 1 (Some 9%Z)]) 1) = false /\
   s_active (scopes (final step dis_state [ASetDeadline 2 1 (Some 9%Z)]) 1) = true /\
   s_deadline (scopes (final step dis_state [ASetDeadline 2 1 (Some 9%Z)]) 1) = Some 9%Z /\
   ready (final step dis_state [ASetDeadline 2 1 (Some 9%Z)]) = []) /\
  (wf_run dis_state [AYield 2] /\
   s_cancelled (scopes (final step dis_state [AYield 2]) 1) = false /\
   s_active (scopes (final step dis_state [AYield 2]) 1) = true /\
   s_deadline (scopes (final step dis_state [AYield 2]) 1) = Some 5%Z /\
   In (HTimeout 1 1) (ready (final step dis_state [AYield 2]))).
Proof. exact disarm_outcomes_witness. Qed.
Print Assumptions C06_disarm_outcomes_witness.

(* ---- tie T for the timeout helpers: fail_at, fail_after, move_on_at, move_on_after of src/anyio/_core/_tasks.py are
        regenerated on every run by tools/translate_timeouts.py as shapes (scopes/TimeoutGen.v: which deadline the scope
        gets, whether `shield` reaches it, what follows the block; language scopes/TimeoutSpec.v) and proved equal to what
        the S machine assumes of them: AFailAt t d sh creates `new_scope s d sh`, AExit t c true raises TimeoutError iff the
        scope swallowed its cancellation and its deadline has passed, the move_on helpers add nothing after the block.
        Trusted: the translator's grammar (tools/translate_timeouts.py), @contextmanager's protocol. ---- *)
From AV Require Import TimeoutSpec TimeoutGen TimeoutEq.

Theorem C06_tie_timeout_helpers : forall (i : nat) (now : Z) (arg : option Z) (sh : bool), i <= 3 ->
  shape_of gen_table (gen_table i) now arg sh = spec_shape i now arg sh.
Proof. exact tie_timeout_helpers. Qed.
Print Assumptions C06_tie_timeout_helpers.

Theorem C06_tie_fail_after_is_AFailAt : forall (s : st) (now : Z) (delay : option Z) (sh : bool),
  let '(d, sh', p) := shape_of gen_table gen_fail_after now delay sh in
  new_scope s d sh' = new_scope s (option_map (Z.add now) delay) sh /\ p = PTimeoutIfCaughtAndDue.
Proof. exact fail_after_is_AFailAt. Qed.
Print Assumptions C06_tie_fail_after_is_AFailAt.

Theorem C06_tie_fail_at_post_is_machine_condition : forall (sc : scope) (now : Z),
  let '(_, _, p) := shape_of gen_table gen_fail_at now None false in
  post_raises p sc now = (s_caught sc && match s_deadline sc with Some d => Z.leb d now | None => false end).
Proof. exact fail_at_post_is_machine_condition. Qed.
Print Assumptions C06_tie_fail_at_post_is_machine_condition.

Theorem C06_tie_move_on_has_no_post : forall (now : Z) (arg : option Z) (sh : bool) (sc : scope) (t : Z),
  post_raises (snd (shape_of gen_table gen_move_on_at now arg sh)) sc t = false /\
  post_raises (snd (shape_of gen_table gen_move_on_after now arg sh)) sc t = false.
Proof. exact move_on_has_no_post. Qed.
Print Assumptions C06_tie_move_on_has_no_post.
