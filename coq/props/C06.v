(* C06 — Deadlines fire exactly when due; timeout helpers report them faithfully.
   This file contains only statements closed by `exact` and their Print Assumptions.
   Model: scopes/Machine.v (S machine).  "for every op sequence" = for every s with
   `exists ops, wf_run init ops /\ s = final step init ops`; wf_run only demands that AEnter names an allocated
   scope id (C06_invariant_needs_wf shows that the totalised model violates the invariant otherwise).
   live s tm = number of loop entries (timer heap + ready queue) carrying timer id tm. *)
From AV Require Import Base Machine ChainSpec ChainGen ChainEq ChainFrame ChainThms ChainWalk ChainMono TimerInv TimerThms TimerOrder.
From Coq Require Import Sorted.

(* ---------------- I3: one live timer, never missed, no stray timers ---------------- *)
Theorem C06_one_live_timer : forall (s : st) (c : sid) (tm : tmid),
  (exists ops, wf_run init ops /\ s = final step init ops) ->
  s_timeout (scopes s c) = Some tm -> s_cancelled (scopes s c) = false ->
  s_active (scopes s c) = true /\ live s tm = 1 /\
  ((exists d, In (mkTimer tm d (TScope c)) (timers s) /\ s_deadline (scopes s c) = Some d) \/
   (In (HTimeout c tm) (ready s) /\ exists d, s_deadline (scopes s c) = Some d /\ (d <= now s)%Z)).
Proof. exact one_live_timer. Qed.
Print Assumptions C06_one_live_timer.

Theorem C06_never_missed : forall (s : st) (c : sid) (d : Z),
  (exists ops, wf_run init ops /\ s = final step init ops) ->
  s_active (scopes s c) = true -> s_cancelled (scopes s c) = false -> s_deadline (scopes s c) = Some d ->
  exists tm, s_timeout (scopes s c) = Some tm /\ live s tm = 1 /\
             (In (mkTimer tm d (TScope c)) (timers s) \/ (In (HTimeout c tm) (ready s) /\ (d <= now s)%Z)).
Proof. exact never_missed. Qed.
Print Assumptions C06_never_missed.

Theorem C06_no_stray_timers : forall s : st,
  (exists ops, wf_run init ops /\ s = final step init ops) ->
  (forall x c, In x (timers s) -> tm_what x = TScope c ->
               s_timeout (scopes s c) = Some (tm_id x) /\ s_deadline (scopes s c) = Some (tm_when x)) /\
  (forall c tm, In (HTimeout c tm) (ready s) ->
                s_timeout (scopes s c) = Some tm /\ exists d, s_deadline (scopes s c) = Some d /\ (d <= now s)%Z).
Proof. exact no_stray_timers. Qed.
Print Assumptions C06_no_stray_timers.

Theorem C06_no_timer_after_exit : forall (s : st) (c : sid),
  (exists ops, wf_run init ops /\ s = final step init ops) -> s_active (scopes s c) = false ->
  s_timeout (scopes s c) = None /\ (forall x, In x (timers s) -> tm_what x <> TScope c) /\
  (forall tm, ~ In (HTimeout c tm) (ready s)).
Proof. exact no_timer_after_exit. Qed.
Print Assumptions C06_no_timer_after_exit.

Theorem C06_exit_deactivates : forall (s : st) (c : sid) (t : tid) (exc : option exn),
  (s_active (scopes s c) && opt_eqb (s_host (scopes s c)) t && opt_eqb (k_cur (tasks s t)) c) = true ->
  s_active (scopes (fst (scope_exit s c t exc)) c) = false.
Proof. exact exit_deactivates. Qed.
Print Assumptions C06_exit_deactivates.

Theorem C06_timer_ids_unique : forall (s : st) (tm : tmid),
  (exists ops, wf_run init ops /\ s = final step init ops) ->
  live s tm <= 1 /\ (ntimer s <= tm -> live s tm = 0).
Proof. exact timer_ids_unique. Qed.
Print Assumptions C06_timer_ids_unique.

(* never missed, strong form: a due deadline has its callback in the ready queue; running it cancels the scope *)
Theorem C06_due_timeout_is_ready : forall (s : st) (c : sid) (d : Z),
  (exists ops, wf_run init ops /\ s = final step init ops) ->
  s_active (scopes s c) = true -> s_cancelled (scopes s c) = false ->
  s_deadline (scopes s c) = Some d -> (d <= now s)%Z ->
  exists tm, s_timeout (scopes s c) = Some tm /\ In (HTimeout c tm) (ready s) /\ live s tm = 1.
Proof. exact due_timeout_is_ready. Qed.
Print Assumptions C06_due_timeout_is_ready.

Theorem C06_timeout_run_cancels : forall (s : st) (c : sid) (tm : tmid),
  (exists ops, wf_run init ops /\ s = final step init ops) -> In (HTimeout c tm) (ready s) ->
  let s' := fst (step s (ARun (HTimeout c tm))) in
  s_cancelled (scopes s' c) = true /\
  (s_cancelled (scopes s c) = false -> s_bydeadline (scopes s' c) = true) /\
  ~ In (HTimeout c tm) (ready s') /\ now s' = now s.
Proof. exact timeout_run_cancels. Qed.
Print Assumptions C06_timeout_run_cancels.

(* deadline timers still in the heap are strictly in the future -- every op sequence, no side condition *)
Theorem C06_heap_timers_in_future : forall (ops : list op) (x : timer) (c : sid),
  In x (timers (final step init ops)) -> tm_what x = TScope c -> (now (final step init ops) < tm_when x)%Z.
Proof. exact reach_heap_future. Qed.
Print Assumptions C06_heap_timers_in_future.

(* model observation: the machine accepts AEnter on a never-allocated scope id; then a stray timer appears *)
Theorem C06_invariant_needs_wf :
  let ops := [ANewRoot; ASetDeadline 1 2 (Some 100%Z); AEnter 1 2; ANewScope 1 None false; ANewScope 1 None false] in
  let s := final step init ops in
  In (mkTimer 1 100%Z (TScope 2)) (timers s) /\ s_timeout (scopes s 2) = None /\ s_active (scopes s 2) = false /\
  ~ wf_run init ops.
Proof. exact tinv_needs_wf. Qed.
Print Assumptions C06_invariant_needs_wf.

(* ---------------- never early ---------------- *)
(* s_bydeadline is the ghost "cancelled with reason deadline"; for EVERY state and EVERY op *)
Theorem C06_deadline_cancel_only_when_due : forall (s : st) (o : op) (c : sid),
  c < nscope s ->
  s_bydeadline (scopes s c) = false -> s_bydeadline (scopes (fst (step s o)) c) = true ->
  s_cancelled (scopes s c) = false /\ s_cancelled (scopes (fst (step s o)) c) = true /\
  exists d, s_deadline (scopes (fst (step s o)) c) = Some d /\ (d <= now (fst (step s o)))%Z.
Proof. exact deadline_cancel_only_when_due. Qed.
Print Assumptions C06_deadline_cancel_only_when_due.

(* ... and only via CancelScope._timeout: if the op neither enters a scope with a finite deadline (AEnter, fail_at,
   task group entry, first step of a child whose handle scope was given one), nor assigns a finite deadline, nor
   runs a fired timeout callback, then no scope becomes cancelled-by-deadline in that step *)
Theorem C06_bydeadline_only_by_timeout_ops : forall (s : st) (o : op) (c : sid),
  c < nscope s ->
  match o with
  | AEnter _ x => s_deadline (scopes s x) = None
  | ASetDeadline _ _ d => d = None
  | AFailAt _ d _ => d = None
  | AGroupEnter _ g => s_deadline (scopes s (g_scope (groups s g))) = None
  | ARun (HStep t) | ARun (HWake t _) => s_deadline (scopes s (k_hscope (tasks s t))) = None
  | ARun (HTimeout _ _) => False
  | _ => True
  end ->
  s_bydeadline (scopes s c) = false -> s_bydeadline (scopes (fst (step s o)) c) = false.
Proof. exact bydeadline_only_by_timeout_ops. Qed.
Print Assumptions C06_bydeadline_only_by_timeout_ops.

Theorem C06_timeout_only_when_due : forall (s : st) (c x : sid),
  s_bydeadline (scopes (scope_timeout s c) x) = true -> s_bydeadline (scopes s x) = false ->
  x = c /\ exists d, s_deadline (scopes s c) = Some d /\ (d <= now s)%Z.
Proof. exact scope_timeout_only_when_due. Qed.
Print Assumptions C06_timeout_only_when_due.

(* ---------------- the clock ---------------- *)
Theorem C06_tick_moves_due_timers : forall (s : st) (dt : Z),
  (0 <= dt)%Z ->
  let s' := fst (step s (ATick dt)) in
  now s' = (now s + dt)%Z /\
  (forall x, In x (timers s') <-> In x (timers s) /\ (now s' < tm_when x)%Z) /\
  exists moved, ready s' = ready s ++ map handle_of_timer moved /\
                (forall x, In x moved <-> In x (timers s) /\ (tm_when x <= now s')%Z) /\
                length moved = length (filter (fun x => Z.leb (tm_when x) (now s')) (timers s)) /\
                StronglySorted (fun a b => (tm_when a <= tm_when b)%Z) moved.
Proof. exact tick_moves_due_timers. Qed.
Print Assumptions C06_tick_moves_due_timers.

(* ... and they are appended in (when, id) order -- for EVERY op sequence, no side condition *)
Theorem C06_tick_order : forall (ops : list op) (dt : Z),
  (0 <= dt)%Z ->
  let s := final step init ops in
  let s' := fst (step s (ATick dt)) in
  exists moved, ready s' = ready s ++ map handle_of_timer moved /\
                (forall x, In x moved <-> In x (timers s) /\ (tm_when x <= now s')%Z) /\
                StronglySorted (fun a b => (tm_when a < tm_when b)%Z \/ (tm_when a = tm_when b /\ tm_id a < tm_id b)) moved.
Proof. exact tick_order. Qed.
Print Assumptions C06_tick_order.

(* ---------------- on entry / on deadline assignment ---------------- *)
Theorem C06_past_deadline_cancels_on_enter : forall (s : st) (c : sid) (t : tid) (d : Z),
  s_active (scopes s c) = false -> s_deadline (scopes s c) = Some d -> (d <= now s)%Z ->
  let s' := fst (scope_enter s c t) in
  s_cancelled (scopes s' c) = true /\ s_active (scopes s' c) = true /\
  (s_cancelled (scopes s c) = false -> s_bydeadline (scopes s' c) = true).
Proof. exact past_deadline_cancels_on_enter. Qed.
Print Assumptions C06_past_deadline_cancels_on_enter.

Theorem C06_deadline_assignment_rearms : forall (s : st) (t : tid) (c : sid) (d : option Z),
  (exists ops, wf_run init ops /\ s = final step init ops) -> idle s t = true ->
  let s' := fst (step s (ASetDeadline t c d)) in
  (exists ops, wf_run init ops /\ s' = final step init ops) /\ s_deadline (scopes s' c) = d /\
  (s_active (scopes s' c) = true -> s_cancelled (scopes s' c) = false ->
   match d with
   | Some z => exists tm, s_timeout (scopes s' c) = Some tm /\ In (mkTimer tm z (TScope c)) (timers s') /\ (now s' < z)%Z
   | None => s_timeout (scopes s' c) = None
   end).
Proof. exact deadline_assignment_rearms. Qed.
Print Assumptions C06_deadline_assignment_rearms.

(* ---------------- fail_at / fail_after ---------------- *)
Theorem C06_fail_at_timeout_iff : forall (s : st) (t : tid) (c : sid),
  idle s t = true ->
  let s0 := begin_act s t in
  let exc := k_held (tasks s0 t) in
  (snd (step s (AExit t c true)) = RExc ETimeout <->
   snd (scope_exit s0 c t exc) = XTrue /\ s_caught (scopes (fst (scope_exit s0 c t exc)) c) = true /\
   exists d, s_deadline (scopes s c) = Some d /\ (d <= now s)%Z).
Proof. exact fail_at_timeout_iff. Qed.
Print Assumptions C06_fail_at_timeout_iff.

Theorem C06_fail_at_timeout_iff_caller_state : forall (s : st) (t : tid) (c : sid),
  idle s t = true ->
  let s0 := begin_act s t in
  (snd (step s (AExit t c true)) = RExc ETimeout <->
   (s_active (scopes s0 c) && opt_eqb (s_host (scopes s0 c)) t && opt_eqb (k_cur (tasks s0 t)) c) = true /\
   s_cancelled (scopes s c) = true /\ parent_visible s c = false /\
   ((exists e, k_held (tasks s t) = Some e /\ is_anyio_cancel e = true) \/
    (exists l m, k_held (tasks s t) = Some (EGroup l) /\ split_exn (EGroup l) = (Some m, None))) /\
   exists d, s_deadline (scopes s c) = Some d /\ (d <= now s)%Z).
Proof. exact fail_at_timeout_iff'. Qed.
Print Assumptions C06_fail_at_timeout_iff_caller_state.

(* ---------------- current_effective_deadline (tie T) ---------------- *)
Theorem C06_effective_deadline_gen_eq : forall l : list scope_rec, gen_eff_deadline l = eff_deadline_spec l.
Proof. exact effective_deadline_gen_eq. Qed.
Print Assumptions C06_effective_deadline_gen_eq.

Theorem C06_effective_deadline_neginf_iff_cancelled : forall l : list scope_rec,
  eff_deadline_spec l = XNegInf <-> eff_cancelled_spec l = true.
Proof. exact eff_deadline_spec_neginf. Qed.
Print Assumptions C06_effective_deadline_neginf_iff_cancelled.

(* visible l = the chain up to and including the nearest shielded scope; xof d = the deadline as an extended time *)
Theorem C06_effective_deadline_is_min : forall l : list scope_rec,
  eff_cancelled_spec l = false ->
  (forall r, In r (visible l) -> xle (eff_deadline_spec l) (xof (r_deadline r))) /\
  (eff_deadline_spec l = XInf \/ exists r, In r (visible l) /\ eff_deadline_spec l = xof (r_deadline r)).
Proof. exact eff_deadline_spec_min. Qed.
Print Assumptions C06_effective_deadline_is_min.

Theorem C06_machine_eff_deadline_is_generated : forall (fuel : nat) (s : st) (x : option sid),
  eff_deadline_from fuel s x XInf = gen_eff_deadline (chain_of fuel s x).
Proof. exact machine_eff_deadline_gen. Qed.
Print Assumptions C06_machine_eff_deadline_is_generated.
