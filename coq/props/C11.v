(* C11 - Event and Condition: no early, spurious or lost wake-ups.
   This file contains only statements closed by `exact` and their Print Assumptions.
   Vocabulary (prims/EventCond.v): `ereach s` / `creach fa s` = s is reached from the initial state by SOME op
   sequence (all tasks, all interleavings of atomic segments, native and AnyIO cancellations at any point);
   `creach_clean fa s` = additionally no NATIVE Task.cancel() landed inside wait()'s shielded re-acquire
   (documented scope: AnyIO cancellation cannot do that). *)
From AV Require Import Base Lock LockProofs EventCond EventCondProofs EventCondThms.

(* ---------------- Event ---------------- *)
Theorem C11_event_wait_after_set : forall s o t s',
  ereach s -> (o = EvWait t \/ o = EvResume t) -> estep s o = (s', RDone) ->
  o = EvResume t /\ ephase_of s t <> EIdle /\ eflag s = true /\ 0 < esets s.
Proof. exact event_wait_after_set. Qed.
Print Assumptions C11_event_wait_after_set.

Theorem C11_event_set_releases_all_present : forall s u s',
  ereach s -> estep s (EvSet u) = (s', RDone) ->
  eflag s' = true /\
  forall t, ephase_of s t <> EIdle ->
    ephase_of s' t = ephase_of s t /\ emustc s' t = emustc s t /\
    snd (estep s' (EvResume t)) <> RRejected /\
    (emustc s t = false -> (forall f, ephase_of s t = EWaiting f -> efuts s f <> FCancelled) ->
     snd (estep s' (EvResume t)) = RDone).
Proof. exact event_set_releases_all_present. Qed.
Print Assumptions C11_event_set_releases_all_present.

Theorem C11_event_no_waiter_left_behind : forall s t,
  ereach s -> eflag s = true -> ephase_of s t <> EIdle ->
  snd (estep s (EvResume t)) <> RRejected /\
  (emustc s t = false -> (forall f, ephase_of s t = EWaiting f -> efuts s f <> FCancelled) ->
   snd (estep s (EvResume t)) = RDone).
Proof. exact event_no_waiter_left_behind. Qed.
Print Assumptions C11_event_no_waiter_left_behind.

Theorem C11_event_stays_set : forall s ops, eflag s = true -> eflag (final estep s ops) = true.
Proof. exact event_stays_set_forever. Qed.
Print Assumptions C11_event_stays_set.

Theorem C11_event_no_spurious_wakeup : forall s t,
  ereach s -> eflag s = false -> ephase_of s t <> EIdle ->
  snd (estep s (EvResume t)) = RRejected \/ snd (estep s (EvResume t)) = RCancelled.
Proof. exact event_no_spurious_wakeup. Qed.
Print Assumptions C11_event_no_spurious_wakeup.

(* ---------------- Condition ---------------- *)
Theorem C11_cond_wait_returns_notified_and_holding : forall fa s t s',
  creach fa s -> (exists e, cphase_of s t = PWait e \/ exists x, cphase_of s t = PReacq e x) ->
  cstep s (CResume t) = (s', RDone) ->
  (exists e, (cphase_of s t = PWait e \/ cphase_of s t = PReacq e false) /\
             eset s e = true /\ In e (setlog s) /\ In e (inflight s)) /\
  In t (held (lk s')) /\ owner (lk s') = Some t /\ owner_rec s' = Some t /\ cphase_of s' t = PIdle /\
  consumed s' = S (consumed s).
Proof. exact cond_wait_returns_notified_and_holding. Qed.
Print Assumptions C11_cond_wait_returns_notified_and_holding.

Theorem C11_cond_wait_ends_holding_clean : forall fa s t s' res,
  creach_clean fa s -> (exists e, cphase_of s t = PWait e \/ exists x, cphase_of s t = PReacq e x) ->
  cstep s (CResume t) = (s', res) -> res <> RRejected -> res <> RBlocked ->
  (res = RDone \/ res = RCancelled) /\
  In t (held (lk s')) /\ owner (lk s') = Some t /\ owner_rec s' = Some t /\ cphase_of s' t = PIdle /\
  lost s' = lost s.
Proof. exact cond_wait_ends_holding_clean. Qed.
Print Assumptions C11_cond_wait_ends_holding_clean.

Theorem C11_cond_notify_at_most_n_fifo : forall fa s t n s',
  creach fa s -> cstep s (CNotify t n) = (s', RDone) ->
  let k := Nat.min n (length (cwaiters s)) in
  let woken := firstn k (cwaiters s) in
  length woken = k /\ k <= n /\
  cwaiters s = woken ++ cwaiters s' /\ subseq (cwaiters s) (cenq s) /\
  setlog s' = setlog s ++ woken /\
  (forall e, eset s' e = true <-> eset s e = true \/ In e woken) /\
  (forall e, In e woken -> efut s' e = resolved (efut s e)) /\
  (forall e, ~ In e woken -> efut s' e = efut s e) /\
  issued s' = issued s + k /\
  lk s' = lk s /\ owner_rec s' = owner_rec s /\ cphase_of s' = cphase_of s.
Proof. exact cond_notify_at_most_n_fifo. Qed.
Print Assumptions C11_cond_notify_at_most_n_fifo.

Theorem C11_cond_notify_all_wakes_everyone : forall fa s t s',
  creach fa s -> cstep s (CNotifyAll t) = (s', RDone) ->
  cwaiters s' = [] /\ setlog s' = setlog s ++ cwaiters s /\
  (forall e, eset s' e = true <-> eset s e = true \/ In e (cwaiters s)) /\
  (forall e, In e (cwaiters s) -> efut s' e = resolved (efut s e)) /\
  (forall e, ~ In e (cwaiters s) -> efut s' e = efut s e) /\
  issued s' = issued s + length (cwaiters s) /\ lk s' = lk s /\ cphase_of s' = cphase_of s.
Proof. exact cond_notify_all_wakes_everyone. Qed.
Print Assumptions C11_cond_notify_all_wakes_everyone.

Theorem C11_cond_notification_passed_on : forall fa s t e h q s' res,
  creach fa s -> cphase_of s t = PWait e -> eset s e = true ->
  (efut s e = FCancelled \/ mustc (lk s) t = true) ->
  cwaiters s = h :: q ->
  cstep s (CResume t) = (s', res) ->
  res <> RDone /\
  cwaiters s' = q /\ eset s' h = true /\ efut s' h = resolved (efut s h) /\ setlog s' = setlog s ++ [h] /\
  (exists th, th <> t /\ cphase_of s th = PWait h /\ cphase_of s' th = PWait h) /\
  In h (inflight s') /\ ~ In e (inflight s') /\ length (inflight s') = length (inflight s) /\
  issued s' = issued s /\ consumed s' = consumed s /\ dropped s' = dropped s /\ lost s' = lost s.
Proof. exact cond_notification_passed_on. Qed.
Print Assumptions C11_cond_notification_passed_on.

Theorem C11_cond_notification_passed_on_to_nobody : forall fa s t e s' res,
  creach fa s -> cphase_of s t = PWait e -> eset s e = true ->
  (efut s e = FCancelled \/ mustc (lk s) t = true) -> cwaiters s = [] ->
  cstep s (CResume t) = (s', res) ->
  res <> RDone /\ cwaiters s' = [] /\ dropped s' = S (dropped s) /\
  S (length (inflight s')) = length (inflight s) /\
  issued s' = issued s /\ consumed s' = consumed s /\ lost s' = lost s.
Proof. exact cond_notification_passed_on_to_nobody. Qed.
Print Assumptions C11_cond_notification_passed_on_to_nobody.

Theorem C11_cond_notifications_conserved : forall fa s,
  creach fa s -> issued s = consumed s + length (inflight s) + dropped s + lost s.
Proof. exact cond_notifications_conserved. Qed.
Print Assumptions C11_cond_notifications_conserved.

Theorem C11_cond_inflight_characterised : forall fa s e,
  creach fa s ->
  (In e (inflight s) <->
   eset s e = true /\ exists t, cphase_of s t = PWait e \/ cphase_of s t = PReacq e false).
Proof. exact cond_inflight_characterised. Qed.
Print Assumptions C11_cond_inflight_characterised.

Theorem C11_cond_nothing_lost_clean : forall fa s,
  creach_clean fa s -> lost s = 0 /\ issued s = consumed s + length (inflight s) + dropped s.
Proof. exact cond_nothing_lost_clean. Qed.
Print Assumptions C11_cond_nothing_lost_clean.

Theorem C11_cond_queue_has_live_waiters : forall fa s e,
  creach fa s -> In e (cwaiters s) ->
  eset s e = false /\ efut s e <> FSet /\ exists t, cphase_of s t = PWait e.
Proof. exact cond_queue_has_live_waiters. Qed.
Print Assumptions C11_cond_queue_has_live_waiters.

Theorem C11_cond_waiter_runnable_iff_notified_or_cancelled : forall fa s t e,
  creach fa s -> cphase_of s t = PWait e ->
  (eset s e = true -> efut s e <> FPending /\ snd (cstep s (CResume t)) <> RRejected) /\
  (eset s e = false -> In e (cwaiters s) /\
     (efut s e = FPending /\ snd (cstep s (CResume t)) = RRejected \/
      efut s e = FCancelled /\ snd (cstep s (CResume t)) <> RDone)).
Proof. exact cond_waiter_runnable_iff_notified_or_cancelled. Qed.
Print Assumptions C11_cond_waiter_runnable_iff_notified_or_cancelled.

Theorem C11_cond_requires_holder : forall fa s t,
  creach fa s -> cphase_of s t = PIdle -> ~ In t (held (lk s)) ->
  cstep s (CWait t) = (s, RRuntime) /\ (forall n, cstep s (CNotify t n) = (s, RRuntime)) /\
  cstep s (CNotifyAll t) = (s, RRuntime).
Proof. exact cond_requires_holder. Qed.
Print Assumptions C11_cond_requires_holder.

Theorem C11_cond_owner_record_exact : forall fa s t,
  creach fa s -> (owner_rec s = Some t <-> In t (held (lk s))).
Proof. exact cond_owner_record_exact. Qed.
Print Assumptions C11_cond_owner_record_exact.

Theorem C11_cond_holder_accepted : forall fa s t n,
  creach fa s -> In t (held (lk s)) ->
  snd (cstep s (CNotify t n)) = RDone /\ snd (cstep s (CNotifyAll t)) = RDone /\
  snd (cstep s (CWait t)) = RBlocked /\ cwaiters (fst (cstep s (CWait t))) = cwaiters s ++ [nev s] /\
  ~ In t (held (lk (fst (cstep s (CWait t))))).
Proof. exact cond_holder_accepted. Qed.
Print Assumptions C11_cond_holder_accepted.

(* the embedded lock keeps the C09 invariant in every reachable Condition state *)
Theorem C11_cond_invariant : forall fa ops, CInv (final cstep (cinit fa false) ops).
Proof. exact creachable_inv. Qed.
Print Assumptions C11_cond_invariant.

(* F7 on the tree before 826e17f (`pinned := true`): clause `requires_holder` fails and a wake-up is lost *)
Theorem C11_cond_requires_holder_refuted_pinned :
  exists fa ops t,
    let s := final cstep (cinit fa true) ops in
    cphase_of s t = PIdle /\ ~ In t (held (lk s)) /\ owner (lk s) = None /\
    snd (cstep s (CNotify t 1)) = RDone /\ snd (cstep s (CNotifyAll t)) = RDone /\
    snd (cstep s (CWait t)) = RRuntime /\ cwaiters (fst (cstep s (CWait t))) = [0] /\
    exists ops2 w e,
      let s2 := final cstep (fst (cstep s (CWait t))) ops2 in
      cphase_of s2 w = PWait e /\ issued s2 = 1 /\ consumed s2 = 0 /\
      setlog s2 = [0] /\ cphase_of s2 t = PIdle /\
      eset s2 e = false /\ efut s2 e = FPending /\ cwaiters s2 = [e] /\
      snd (cstep s2 (CResume w)) = RRejected.
Proof. exact cond_requires_holder_refuted_pinned. Qed.
Print Assumptions C11_cond_requires_holder_refuted_pinned.
