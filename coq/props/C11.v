(* C11 - Event and Condition: no early, spurious or lost wake-ups.
   This file contains only statements closed by `exact` and their Print Assumptions.
   Vocabulary (prims/EventCond.v):
   `ereach s` / `creach fa s` = s is reached from the initial state by SOME op sequence.  For conditions the
   alphabet is: acquire / acquire_nowait / release / notify n / notify_all / wait on ANY condition `c` built on the
   one shared lock, lock.acquire / acquire_nowait / release directly on that lock, resumptions, native
   Task.cancel() and AnyIO scope cancellation of blocked tasks - all tasks, all interleavings of atomic segments.
   `In t (held (lk s))` = an acquire (any route) returned to t and t has not released (any route) since.
   `creach_clean fa s` = additionally no NATIVE Task.cancel() landed inside wait()'s shielded re-acquire
   (documented scope: AnyIO cancellation cannot do that).
   `no_late_handover s0 ops` = no step of `ops` hands a notification over to a waiter that began to wait after the
   notify call that issued it (known finding F18, refuted without the hypothesis below).
   Quantification: one event loop.  Observation (not a C11 clause): an Event whose wait() was started in one event
   loop cannot be waited on in a second `anyio.run` (the backend asyncio.Event is bound to the first loop). *)
From AV Require Import Base Lock LockProofs EventCond EventCondProofs EventCondThms.

(* ---------------- Event ---------------- *)
Theorem C11_event_wait_after_set : forall s o t s',
  ereach s -> (o = EvWait t \/ o = EvResume t) -> estep s o = (s', RDone) ->
  o = EvResume t /\ ephase_of s t <> EIdle /\ eflag s = true /\ 0 < esets s.
Proof. exact event_wait_after_set. Qed.
Print Assumptions C11_event_wait_after_set.

Theorem C11_event_set_releases_all_present : forall s u s',
  ereach s -> estep s (EvSet u) = (s', RDone) ->
  eflag s' = true /\
  forall t, ephase_of s t <> EIdle ->
    ephase_of s' t = ephase_of s t /\ emustc s' t = emustc s t /\
    snd (estep s' (EvResume t)) <> RRejected /\
    (emustc s t = false -> (forall f, ephase_of s t = EWaiting f -> efuts s f <> FCancelled) ->
     snd (estep s' (EvResume t)) = RDone).
Proof. exact event_set_releases_all_present. Qed.
Print Assumptions C11_event_set_releases_all_present.

Theorem C11_event_no_waiter_left_behind : forall s t,
  ereach s -> eflag s = true -> ephase_of s t <> EIdle ->
  snd (estep s (EvResume t)) <> RRejected /\
  (emustc s t = false -> (forall f, ephase_of s t = EWaiting f -> efuts s f <> FCancelled) ->
   snd (estep s (EvResume t)) = RDone).
Proof. exact event_no_waiter_left_behind. Qed.
Print Assumptions C11_event_no_waiter_left_behind.

Theorem C11_event_stays_set : forall s ops, eflag s = true -> eflag (final estep s ops) = true.
Proof. exact event_stays_set_forever. Qed.
Print Assumptions C11_event_stays_set.

Theorem C11_event_no_spurious_wakeup : forall s t,
  ereach s -> eflag s = false -> ephase_of s t <> EIdle ->
  snd (estep s (EvResume t)) = RRejected \/ snd (estep s (EvResume t)) = RCancelled.
Proof. exact event_no_spurious_wakeup. Qed.
Print Assumptions C11_event_no_spurious_wakeup.

(* ---------------- Conditions on a shared lock ---------------- *)
Theorem C11_cond_wait_returns_notified_and_holding : forall fa s t s',
  creach fa s -> (exists c e, cphase_of s t = PWait c e \/ exists x, cphase_of s t = PReacq c e x) ->
  cstep s (CResume t) = (s', RDone) ->
  (exists c e, (cphase_of s t = PWait c e \/ cphase_of s t = PReacq c e false) /\
               eset s e = true /\ In e (setlog s) /\ In e (inflight s)) /\
  In t (held (lk s')) /\ owner (lk s') = Some t /\ cphase_of s' t = PIdle /\
  consumed s' = S (consumed s).
Proof. exact cond_wait_returns_notified_and_holding. Qed.
Print Assumptions C11_cond_wait_returns_notified_and_holding.

Theorem C11_cond_wait_ends_holding_clean : forall fa s t s' res,
  creach_clean fa s -> (exists c e, cphase_of s t = PWait c e \/ exists x, cphase_of s t = PReacq c e x) ->
  cstep s (CResume t) = (s', res) -> res <> RRejected -> res <> RBlocked ->
  (res = RDone \/ res = RCancelled) /\
  In t (held (lk s')) /\ owner (lk s') = Some t /\ cphase_of s' t = PIdle /\
  lost s' = lost s.
Proof. exact cond_wait_ends_holding_clean. Qed.
Print Assumptions C11_cond_wait_ends_holding_clean.

Theorem C11_cond_notify_at_most_n_fifo : forall fa s c t n s',
  creach fa s -> cstep s (CNotify c t n) = (s', RDone) ->
  let k := Nat.min n (length (cwaiters s c)) in
  let woken := firstn k (cwaiters s c) in
  length woken = k /\ k <= n /\
  cwaiters s c = woken ++ cwaiters s' c /\ subseq (cwaiters s c) (cenq s) /\
  (forall c', c' <> c -> cwaiters s' c' = cwaiters s c') /\
  setlog s' = setlog s ++ woken /\
  (forall e, eset s' e = true <-> eset s e = true \/ In e woken) /\
  (forall e, In e woken -> efut s' e = resolved (efut s e)) /\
  (forall e, ~ In e woken -> efut s' e = efut s e) /\
  issued s' = issued s + k /\
  lk s' = lk s /\ cphase_of s' = cphase_of s.
Proof. exact cond_notify_at_most_n_fifo. Qed.
Print Assumptions C11_cond_notify_at_most_n_fifo.

Theorem C11_cond_notify_all_wakes_everyone : forall fa s c t s',
  creach fa s -> cstep s (CNotifyAll c t) = (s', RDone) ->
  cwaiters s' c = [] /\ (forall c', c' <> c -> cwaiters s' c' = cwaiters s c') /\
  setlog s' = setlog s ++ cwaiters s c /\
  (forall e, eset s' e = true <-> eset s e = true \/ In e (cwaiters s c)) /\
  (forall e, In e (cwaiters s c) -> efut s' e = resolved (efut s e)) /\
  (forall e, ~ In e (cwaiters s c) -> efut s' e = efut s e) /\
  issued s' = issued s + length (cwaiters s c) /\ lk s' = lk s /\ cphase_of s' = cphase_of s.
Proof. exact cond_notify_all_wakes_everyone. Qed.
Print Assumptions C11_cond_notify_all_wakes_everyone.

Theorem C11_cond_notification_passed_on : forall fa s t c e h q s' res,
  creach fa s -> cphase_of s t = PWait c e -> eset s e = true ->
  (efut s e = FCancelled \/ mustc (lk s) t = true) ->
  cwaiters s c = h :: q ->
  cstep s (CResume t) = (s', res) ->
  res <> RDone /\
  cwaiters s' c = q /\ (forall c', c' <> c -> cwaiters s' c' = cwaiters s c') /\
  eset s' h = true /\ efut s' h = resolved (efut s h) /\ setlog s' = setlog s ++ [h] /\
  horizon s' h = horizon s e /\
  (exists th, th <> t /\ cphase_of s th = PWait c h /\ cphase_of s' th = PWait c h) /\
  In h (inflight s') /\ ~ In e (inflight s') /\ length (inflight s') = length (inflight s) /\
  issued s' = issued s /\ consumed s' = consumed s /\ dropped s' = dropped s /\ lost s' = lost s.
Proof. exact cond_notification_passed_on. Qed.
Print Assumptions C11_cond_notification_passed_on.

Theorem C11_cond_notification_passed_on_to_nobody : forall fa s t c e s' res,
  creach fa s -> cphase_of s t = PWait c e -> eset s e = true ->
  (efut s e = FCancelled \/ mustc (lk s) t = true) -> cwaiters s c = [] ->
  cstep s (CResume t) = (s', res) ->
  res <> RDone /\ cwaiters s' = cwaiters s /\ dropped s' = S (dropped s) /\
  S (length (inflight s')) = length (inflight s) /\
  issued s' = issued s /\ consumed s' = consumed s /\ lost s' = lost s.
Proof. exact cond_notification_passed_on_to_nobody. Qed.
Print Assumptions C11_cond_notification_passed_on_to_nobody.

Theorem C11_cond_notifications_conserved : forall fa s,
  creach fa s -> issued s = consumed s + length (inflight s) + dropped s + lost s.
Proof. exact cond_notifications_conserved. Qed.
Print Assumptions C11_cond_notifications_conserved.

Theorem C11_cond_inflight_characterised : forall fa s e,
  creach fa s ->
  (In e (inflight s) <->
   eset s e = true /\ exists t c, cphase_of s t = PWait c e \/ cphase_of s t = PReacq c e false).
Proof. exact cond_inflight_characterised. Qed.
Print Assumptions C11_cond_inflight_characterised.

Theorem C11_cond_nothing_lost_clean : forall fa s,
  creach_clean fa s -> lost s = 0 /\ issued s = consumed s + length (inflight s) + dropped s.
Proof. exact cond_nothing_lost_clean. Qed.
Print Assumptions C11_cond_nothing_lost_clean.

Theorem C11_cond_queue_has_live_waiters : forall fa s c e,
  creach fa s -> In e (cwaiters s c) ->
  eset s e = false /\ efut s e <> FSet /\ exists t, cphase_of s t = PWait c e.
Proof. exact cond_queue_has_live_waiters. Qed.
Print Assumptions C11_cond_queue_has_live_waiters.

Theorem C11_cond_waiter_runnable_iff_notified_or_cancelled : forall fa s t c e,
  creach fa s -> cphase_of s t = PWait c e ->
  (eset s e = true -> efut s e <> FPending /\ snd (cstep s (CResume t)) <> RRejected) /\
  (eset s e = false -> In e (cwaiters s c) /\
     (efut s e = FPending /\ snd (cstep s (CResume t)) = RRejected \/
      efut s e = FCancelled /\ snd (cstep s (CResume t)) <> RDone)).
Proof. exact cond_waiter_runnable_iff_notified_or_cancelled. Qed.
Print Assumptions C11_cond_waiter_runnable_iff_notified_or_cancelled.

(* ---- holder test: both directions, every condition of the lock, every way of taking / giving up the lock ---- *)
Theorem C11_cond_requires_holder : forall fa s c t,
  creach fa s -> cphase_of s t = PIdle -> ~ In t (held (lk s)) ->
  cstep s (CWait c t) = (s, RRuntime) /\ (forall n, cstep s (CNotify c t n) = (s, RRuntime)) /\
  cstep s (CNotifyAll c t) = (s, RRuntime).
Proof. exact cond_requires_holder. Qed.
Print Assumptions C11_cond_requires_holder.

Theorem C11_cond_holder_accepted : forall fa s c t n,
  creach fa s -> In t (held (lk s)) ->
  snd (cstep s (CNotify c t n)) = RDone /\ snd (cstep s (CNotifyAll c t)) = RDone /\
  snd (cstep s (CWait c t)) = RBlocked /\
  cwaiters (fst (cstep s (CWait c t))) c = cwaiters s c ++ [nev s] /\
  cphase_of (fst (cstep s (CWait c t))) t = PWait c (nev s) /\
  ~ In t (held (lk (fst (cstep s (CWait c t))))).
Proof. exact cond_holder_accepted. Qed.
Print Assumptions C11_cond_holder_accepted.

Theorem C11_cond_refused_iff_not_holder : forall fa s c t n,
  creach fa s -> cphase_of s t = PIdle ->
  (snd (cstep s (CWait c t)) = RRuntime <-> ~ In t (held (lk s))) /\
  (snd (cstep s (CNotify c t n)) = RRuntime <-> ~ In t (held (lk s))) /\
  (snd (cstep s (CNotifyAll c t)) = RRuntime <-> ~ In t (held (lk s))).
Proof. exact cond_refused_iff_not_holder. Qed.
Print Assumptions C11_cond_refused_iff_not_holder.

Theorem C11_cond_holder_is_lock_owner : forall fa s t,
  creach fa s -> cphase_of s t = PIdle -> (In t (held (lk s)) <-> owner (lk s) = Some t).
Proof. exact cond_holder_is_lock_owner. Qed.
Print Assumptions C11_cond_holder_is_lock_owner.

(* the shared lock keeps the C09 invariant in every reachable state of the extended alphabet *)
Theorem C11_cond_invariant : forall fa ops, CInv (final cstep (cinit fa 0) ops).
Proof. exact creachable_inv. Qed.
Print Assumptions C11_cond_invariant.

(* ---- F17 / F7 on the old trees (private owner copy): clause `requires_holder` fails both ways ---- *)
Theorem C11_cond_holder_refused_refuted_pinned :
  exists fa ops t,
    let s := final cstep (cinit fa 1) ops in
    cphase_of s t = PIdle /\ In t (held (lk s)) /\ owner (lk s) = Some t /\
    cstep s (CNotify 0 t 1) = (s, RRuntime) /\ cstep s (CNotifyAll 0 t) = (s, RRuntime) /\
    cstep s (CWait 0 t) = (s, RRuntime) /\
    exists ops', let s1 := final cstep (cinit fa 1) ops' in
      In t (held (lk s1)) /\ snd (cstep s1 (CNotify 1 t 1)) = RDone /\ snd (cstep s1 (CNotify 0 t 1)) = RRuntime.
Proof. exact cond_holder_refused_refuted_pinned. Qed.
Print Assumptions C11_cond_holder_refused_refuted_pinned.

Theorem C11_cond_requires_holder_refuted_pinned :
  (let s := final cstep (cinit false 1) [CAcquire 0 1; CResume 1; LRelease 1] in
   cphase_of s 1 = PIdle /\ ~ In 1 (held (lk s)) /\ owner (lk s) = None /\
   snd (cstep s (CNotify 0 1 1)) = RDone /\ snd (cstep s (CNotifyAll 0 1)) = RDone /\
   snd (cstep s (CWait 0 1)) = RRuntime /\ cwaiters (fst (cstep s (CWait 0 1))) 0 = [0] /\
   let s2 := final cstep (fst (cstep s (CWait 0 1)))
               [CAcquire 0 2; CResume 2; CWait 0 2; CAcquire 0 3; CResume 3; CNotify 0 3 1] in
   cphase_of s2 2 = PWait 0 1 /\ issued s2 = 1 /\ consumed s2 = 0 /\
   setlog s2 = [0] /\ cphase_of s2 1 = PIdle /\
   eset s2 1 = false /\ efut s2 1 = FPending /\ cwaiters s2 0 = [1] /\
   snd (cstep s2 (CResume 2)) = RRejected) /\
  (let s := final cstep (cinit false 2) [CAcquire 0 1; CResume 1; CRelease 0 1] in
   cphase_of s 1 = PIdle /\ ~ In 1 (held (lk s)) /\ owner (lk s) = None /\
   snd (cstep s (CNotify 0 1 1)) = RDone /\ snd (cstep s (CNotifyAll 0 1)) = RDone /\
   snd (cstep s (CWait 0 1)) = RRuntime /\ cwaiters (fst (cstep s (CWait 0 1))) 0 = [0] /\
   let s2 := final cstep (fst (cstep s (CWait 0 1)))
               [CAcquire 0 2; CResume 2; CWait 0 2; CAcquire 0 3; CResume 3; CNotify 0 3 1] in
   cphase_of s2 2 = PWait 0 1 /\ issued s2 = 1 /\ consumed s2 = 0 /\
   setlog s2 = [0] /\ cphase_of s2 1 = PIdle /\
   eset s2 1 = false /\ efut s2 1 = FPending /\ cwaiters s2 0 = [1] /\
   snd (cstep s2 (CResume 2)) = RRejected).
Proof. exact cond_requires_holder_refuted_pinned. Qed.
Print Assumptions C11_cond_requires_holder_refuted_pinned.

(* ---- known finding F18: "wait() returns only if a notify issued at or after its start selected it" ---- *)
(* the strong clause, for one op sequence and for all *)
Definition C11_notified_only_for (fa : bool) (ops : list cop) : Prop :=
  forall t s',
    let s := final cstep (cinit fa 0) ops in
    (exists c e, cphase_of s t = PWait c e \/ exists x, cphase_of s t = PReacq c e x) ->
    cstep s (CResume t) = (s', RDone) ->
    exists c e, (cphase_of s t = PWait c e \/ cphase_of s t = PReacq c e false) /\
                eset s e = true /\ e < horizon s e /\ In (horizon s e) (nlog s).

Definition C11_notified_only_full : Prop := forall fa ops, C11_notified_only_for fa ops.

Theorem C11_notified_only_no_late_handover : forall fa ops,
  no_late_handover (cinit fa 0) ops = true -> C11_notified_only_for fa ops.
Proof. exact cond_notified_only_no_late_handover. Qed.
Print Assumptions C11_notified_only_no_late_handover.

Theorem C11_late_handover_refuted :
  exists fa ops t s',
    let s := final cstep (cinit fa 0) ops in
    no_late_handover (cinit fa 0) ops = false /\ clean_run (cinit fa 0) ops = true /\
    cphase_of s t = PReacq 0 1 false /\ cstep s (CResume t) = (s', RDone) /\
    nlog s = [1] /\ horizon s 1 = 1 /\ In t (held (lk s')) /\ consumed s' = 1.
Proof. exact cond_late_handover_refuted. Qed.
Print Assumptions C11_late_handover_refuted.

Theorem C11_notified_only_full_refuted : ~ C11_notified_only_full.
Proof. exact cond_notified_only_full_refuted. Qed.
Print Assumptions C11_notified_only_full_refuted.

(* ---- tie T: the segments of class Event (asyncio backend) and class Condition regenerated from /repo's source by
   tools/translate_cond.py (CondGen.v) and interpreted by CondImp.eexec / CondImp.exec ARE what the models do.
   Event: exact equality with estep (the inner asyncio.Event is the stdlib model; `ewoken` is asyncio's side of a
   wake-up).  Condition (variant 0 = HEAD): `runs s0 s' r c t p l0` (written out by C11_tie_runs_spec) = interpreting
   segment p for task t as condition c from what s0 shows (the shared Lock machine, this condition's queue, the flags
   and futures of the one-shot events) yields exactly what s' shows, result r and t's phase; other conditions' queues
   and other tasks' phases untouched.  Function-valued fields are compared pointwise.  All other fields of cst
   (cenq, setlog, inflight, horizon, nlog, issued, consumed, dropped, lost, owner_rec) are history variables of the
   observer, not state of the objects, and are never read by the interpretation.  Calls into the shared lock go through
   Lock.step, whose code is tied by C09_tie_*. ---- *)
From AV Require Import CondImp CondGen CondGenEq.

Theorem C11_tie_event_set : forall s t,
  ephase_of s t = EIdle ->
  estep s (EvSet t) = (fst (eexec ev_set_entry t None s), eres (snd (eexec ev_set_entry t None s))).
Proof. exact tie_event_set. Qed.
Print Assumptions C11_tie_event_set.

Theorem C11_tie_event_wait_entry : forall s t,
  ephase_of s t = EIdle ->
  estep s (EvWait t) = (fst (eexec ev_wait_entry t None s), eres (snd (eexec ev_wait_entry t None s))).
Proof. exact tie_event_wait_entry. Qed.
Print Assumptions C11_tie_event_wait_entry.

Theorem C11_tie_event_wait_checkpoint : forall s t,
  ephase_of s t = EYield ->
  estep s (EvResume t) =
  (if emustc s t
   then (fst (eexec ev_wait_checkpoint_cancelled t (Some ECancelled) (ewoken s t)),
         eres (snd (eexec ev_wait_checkpoint_cancelled t (Some ECancelled) (ewoken s t))))
   else (fst (eexec ev_wait_checkpoint_resumed t None (ewoken s t)),
         eres (snd (eexec ev_wait_checkpoint_resumed t None (ewoken s t))))).
Proof. exact tie_event_wait_checkpoint. Qed.
Print Assumptions C11_tie_event_wait_checkpoint.

Theorem C11_tie_event_wait_inner : forall s t f,
  ephase_of s t = EWaiting f -> efuts s f <> FPending ->
  estep s (EvResume t) =
  (if match efuts s f with FSet => emustc s t | _ => true end
   then (fst (eexec ev_wait_inner_cancelled t (Some ECancelled) (ewoken s t)),
         eres (snd (eexec ev_wait_inner_cancelled t (Some ECancelled) (ewoken s t))))
   else (fst (eexec ev_wait_inner_resumed t None (ewoken s t)),
         eres (snd (eexec ev_wait_inner_resumed t None (ewoken s t))))).
Proof. exact tie_event_wait_inner. Qed.
Print Assumptions C11_tie_event_wait_inner.

Theorem C11_tie_event_is_set : forall s,
  eeval ev_is_set_cond s = Some (eflag s).
Proof. exact tie_event_is_set. Qed.
Print Assumptions C11_tie_event_is_set.

Theorem C11_tie_egstep_eq_estep : forall s o,
  egstep event_prog s o = estep s o.
Proof. exact egstep_eq_estep. Qed.
Print Assumptions C11_tie_egstep_eq_estep.

Theorem C11_tie_cond_acquire_entry : forall s c t,
  cphase_of s t = PIdle -> phase_of (lk s) t = Idle ->
  runs s (fst (cstep s (CAcquire c t))) (snd (cstep s (CAcquire c t))) c t cond_acquire_entry (loc_entry 0).
Proof. exact tie_cond_acquire_entry. Qed.
Print Assumptions C11_tie_cond_acquire_entry.

Theorem C11_tie_cond_acquire_resume : forall s c t,
  cphase_of s t = PAcq (Some c) ->
  let r := snd (Lock.step (lk s) (Resume t)) in
  let s0 := with_lk s (fst (Lock.step (lk s) (Resume t))) in
  r <> RRejected ->
  runs s0 (fst (cstep s (CResume t))) (snd (cstep s (CResume t))) c t
       (if match r with RDone => true | _ => false end then cond_acquire_lock_resumed else cond_acquire_lock_cancelled)
       (loc_resume None (exn_of r)).
Proof. exact tie_cond_acquire_resume. Qed.
Print Assumptions C11_tie_cond_acquire_resume.

Theorem C11_tie_cond_acquire_nowait : forall s c t,
  cphase_of s t = PIdle -> phase_of (lk s) t = Idle ->
  runs s (fst (cstep s (CAcqNowait c t))) (snd (cstep s (CAcqNowait c t))) c t cond_acquire_nowait_entry (loc_entry 0).
Proof. exact tie_cond_acquire_nowait. Qed.
Print Assumptions C11_tie_cond_acquire_nowait.

Theorem C11_tie_cond_release : forall s c t,
  cphase_of s t = PIdle -> phase_of (lk s) t = Idle ->
  runs s (fst (cstep s (CRelease c t))) (snd (cstep s (CRelease c t))) c t cond_release_entry (loc_entry 0).
Proof. exact tie_cond_release. Qed.
Print Assumptions C11_tie_cond_release.

Theorem C11_tie_cond_notify : forall s c t n,
  variant s = 0 -> cphase_of s t = PIdle ->
  runs s (fst (cstep s (CNotify c t n))) (snd (cstep s (CNotify c t n))) c t cond_notify_entry (loc_entry n).
Proof. exact tie_cond_notify. Qed.
Print Assumptions C11_tie_cond_notify.

Theorem C11_tie_cond_notify_all : forall s c t,
  variant s = 0 -> cphase_of s t = PIdle ->
  runs s (fst (cstep s (CNotifyAll c t))) (snd (cstep s (CNotifyAll c t))) c t cond_notify_all_entry (loc_entry 0).
Proof. exact tie_cond_notify_all. Qed.
Print Assumptions C11_tie_cond_notify_all.

Theorem C11_tie_cond_wait_entry : forall s c t,
  variant s = 0 -> cphase_of s t = PIdle -> phase_of (lk s) t = Idle ->
  runs s (fst (cstep s (CWait c t))) (snd (cstep s (CWait c t))) c t cond_wait_entry (loc_entry 0).
Proof. exact tie_cond_wait_entry. Qed.
Print Assumptions C11_tie_cond_wait_entry.

Theorem C11_tie_cond_wait_event_resumed : forall s c e t,
  cphase_of s t = PWait c e -> phase_of (lk s) t = Idle ->
  efut s e = FSet -> mustc (lk s) t = false ->
  let s0 := with_lk s (set_mustc (lk s) t false) in
  runs s0 (fst (cstep s (CResume t))) (snd (cstep s (CResume t))) c t cond_wait_event_resumed
       (loc_resume (Some e) None).
Proof. exact tie_cond_wait_event_resumed. Qed.
Print Assumptions C11_tie_cond_wait_event_resumed.

Theorem C11_tie_cond_wait_event_cancelled : forall s c e t,
  cphase_of s t = PWait c e -> phase_of (lk s) t = Idle ->
  efut s e = FCancelled \/ (efut s e = FSet /\ mustc (lk s) t = true) ->
  let s0 := with_lk s (set_mustc (lk s) t false) in
  runs s0 (fst (cstep s (CResume t))) (snd (cstep s (CResume t))) c t cond_wait_event_cancelled
       (loc_resume (Some e) (Some ECancelled)).
Proof. exact tie_cond_wait_event_cancelled. Qed.
Print Assumptions C11_tie_cond_wait_event_cancelled.

Theorem C11_tie_cond_wait_reacq_resume : forall s c e exc t,
  cphase_of s t = PReacq c e exc ->
  let r := snd (Lock.step (lk s) (Resume t)) in
  let s0 := with_lk s (fst (Lock.step (lk s) (Resume t))) in
  r <> RRejected ->
  runs s0 (fst (cstep s (CResume t))) (snd (cstep s (CResume t))) c t
       (match exc, r with
        | false, RDone => cond_wait_reacq_resumed
        | false, _ => cond_wait_reacq_cancelled
        | true, RDone => cond_wait_reacq_exc_resumed
        | true, _ => cond_wait_reacq_exc_cancelled
        end)
       (loc_resume (Some e) (exn_of r)).
Proof. exact tie_cond_wait_reacq_resume. Qed.
Print Assumptions C11_tie_cond_wait_reacq_resume.

Theorem C11_tie_cond_locked : forall s c t,
  eval_cond cond_locked_cond t (loc_entry 0) (vis s c) =
  Some (match owner (lk s) with Some _ => true | None => false end).
Proof. exact tie_cond_locked. Qed.
Print Assumptions C11_tie_cond_locked.

Theorem C11_tie_cond_wait_cancelled_entry_noeffect : forall s c t,
  exists l, exec cond_wait_entry t loc_entry_cancelled (vis s c) = (l, vis s c, OCancelled).
Proof. exact cond_wait_cancelled_entry_noeffect. Qed.
Print Assumptions C11_tie_cond_wait_cancelled_entry_noeffect.

Theorem C11_tie_runs_spec : forall s0 s' r c t p l0,
  runs s0 s' r c t p l0 <->
  (let '(l, k, o) := exec p t l0 (vis s0 c) in
   (lk s' = k_lk k /\ cwaiters s' c = k_cw k /\ (forall e, eset s' e = k_eset k e) /\
    (forall e, efut s' e = k_efut k e) /\ nev s' = k_nev k /\
    (forall c', c' <> c -> cwaiters s' c' = cwaiters s0 c') /\ variant s' = variant s0) /\
   res_of o = Some r /\ phase_after c l o = Some (cphase_of s' t) /\
   (forall t', t' <> t -> cphase_of s' t' = cphase_of s0 t')).
Proof. exact runs_spec. Qed.
Print Assumptions C11_tie_runs_spec.

Theorem C11_tie_cstep_runs_generated : forall s o s0 c t p l0,
  variant s = 0 ->
  (forall t, cphase_of s t = PIdle \/ (exists c e, cphase_of s t = PWait c e) -> phase_of (lk s) t = Idle) ->
  dispatch cond_prog s o = Some (s0, c, t, p, l0) -> snd (cstep s o) <> RRejected ->
  runs s0 (fst (cstep s o)) (snd (cstep s o)) c t p l0.
Proof. exact cstep_runs_generated. Qed.
Print Assumptions C11_tie_cstep_runs_generated.

Theorem C11_tie_grun_iff_creach : forall fa s,
  grun cond_prog fa s <-> creach fa s.
Proof. exact grun_iff_creach. Qed.
Print Assumptions C11_tie_grun_iff_creach.

Theorem C11_tie_gen_notifications_conserved : forall fa s,
  grun cond_prog fa s ->
  issued s = consumed s + length (inflight s) + dropped s + lost s.
Proof. exact gen_notifications_conserved. Qed.
Print Assumptions C11_tie_gen_notifications_conserved.

Theorem C11_tie_gen_queue_has_live_waiters : forall fa s c e,
  grun cond_prog fa s -> In e (cwaiters s c) ->
  eset s e = false /\ efut s e <> FSet /\ exists t, cphase_of s t = PWait c e.
Proof. exact gen_queue_has_live_waiters. Qed.
Print Assumptions C11_tie_gen_queue_has_live_waiters.

Theorem C11_tie_gen_refused_iff_not_holder : forall fa s c t n,
  grun cond_prog fa s -> cphase_of s t = PIdle ->
  (snd (cstep s (CWait c t)) = RRuntime <-> ~ In t (held (lk s))) /\
  (snd (cstep s (CNotify c t n)) = RRuntime <-> ~ In t (held (lk s))) /\
  (snd (cstep s (CNotifyAll c t)) = RRuntime <-> ~ In t (held (lk s))).
Proof. exact gen_refused_iff_not_holder. Qed.
Print Assumptions C11_tie_gen_refused_iff_not_holder.

Theorem C11_tie_gen_waiter_runnable_iff_notified_or_cancelled : forall fa s t c e,
  grun cond_prog fa s -> cphase_of s t = PWait c e ->
  (eset s e = true -> efut s e <> FPending /\ snd (cstep s (CResume t)) <> RRejected) /\
  (eset s e = false -> In e (cwaiters s c) /\
     (efut s e = FPending /\ snd (cstep s (CResume t)) = RRejected \/
      efut s e = FCancelled /\ snd (cstep s (CResume t)) <> RDone)).
Proof. exact gen_waiter_runnable_iff_notified_or_cancelled. Qed.
Print Assumptions C11_tie_gen_waiter_runnable_iff_notified_or_cancelled.

Theorem C11_tie_gen_invariant : forall fa s,
  grun cond_prog fa s -> CInv s.
Proof. exact gen_invariant. Qed.
Print Assumptions C11_tie_gen_invariant.

