(* C16 - Buffered and text stream wrappers are transparent to chunking.
   This file contains only statements closed by `exact` and their Print Assumptions.
   Part 1: pure/Buffered.v (BufferedByteReceiveStream, HEAD = pinned tree + fixes F27 F28 F29 F43);
   part 2: pure/Text.v (TextReceiveStream / TextSendStream).
   `step_log s o = (s', r, lg)`: one call; lg = the bytes that entered the wrapper during it, in order.
   `Until d m fs`: receive_until(d, m) during whose waits other tasks call feed_data(fs_1), feed_data(fs_2), ... *)
From AV Require Import Base Buffered BufferedProofs.

(* ---- 1. conservation: for every state (any buffer, any chunk list incl. empty items, either kind of wrapped stream),
        every op sequence and every feed_data made between OR DURING calls: the bytes handed out plus the delimiters
        consumed, followed by the buffer, are exactly the bytes that arrived, in arrival order ---- *)
Theorem C16_buf_conservation : forall (ops : list op) (s : st),
  buf s ++ arrived_run s ops = consumed_run s ops ++ buf (final step s ops).
Proof. exact buf_conservation. Qed.
Print Assumptions C16_buf_conservation.

Theorem C16_buf_source_order : forall (ops : list op) (s : st),
  exists pulled, pulled ++ concat (src (final step s ops)) = concat (src s).
Proof. exact buf_source_order. Qed.
Print Assumptions C16_buf_source_order.

Theorem C16_buf_conservation_total : forall (ops : list op) (s : st),
  forallb no_feed ops = true ->
  consumed_run s ops ++ buf (final step s ops) ++ concat (src (final step s ops)) = buf s ++ concat (src s).
Proof. exact buf_conservation_total. Qed.
Print Assumptions C16_buf_conservation_total.

(* one call: result (and delimiter) come off the front, everything that arrived goes behind the buffer; the arrival log
   is pinned to the environment: fed data, what left the wrapped stream, or - for receive_until - the interleaving of
   the feeds and chunks of the k fetches it made; the loops of the model never run out of fuel *)
Theorem C16_buf_step_conservation : forall (s : st) (o : op) (s' : st) (r : res) (lg : list Z),
  step_log s o = (s', r, lg) ->
  knd s' = knd s /\ r <> RFuel /\
  (chunks_nonempty (src s) -> chunks_nonempty (src s')) /\
  buf s ++ lg = consumed_of o r ++ buf s' /\
  (exists pulled, concat (src s) = pulled ++ concat (src s')) /\
  match o with
  | Feed d => lg = d /\ src s' = src s
  | Until d m fs | CUntil _ d m fs =>
      exists k, src s' = fetch_rest k (knd s) (src s) /\ lg = fetch_arrivals k (knd s) (src s) fs
  | Receive n fs | CReceive _ n fs =>
      exists item j, lg = item ++ concat (firstn j fs) /\ concat (src s) = item ++ concat (src s')
  | Exactly n fs | CExactly _ n fs =>
      exists pulled, concat (src s) = pulled ++ concat (src s') /\ weave fs pulled lg
  end.
Proof. exact step_conservation. Qed.
Print Assumptions C16_buf_step_conservation.

Theorem C16_buf_never_out_of_fuel : forall (s : st) (o : op), snd (step s o) <> RFuel.
Proof. exact step_never_out_of_fuel. Qed.
Print Assumptions C16_buf_never_out_of_fuel.

(* a byte stream whose next piece fits the requested max_bytes hands it out whole (so chunk lists cover every
   contract-honouring byte stream), and never more than max_bytes *)
Theorem C16_buf_byte_stream_model : forall (n : nat) (c : list Z) (r : list (list Z)),
  (length c <= n -> pull KByte n (c :: r) = Some (c, r)) /\
  (forall p r', pull KByte n (c :: r) = Some (p, r') -> length p <= n).
Proof. exact (fun n c r => conj (pull_byte_fits n c r) (fun p r' => pull_byte_bound n (c :: r) p r')). Qed.
Print Assumptions C16_buf_byte_stream_model.

(* ---- 2. receive(n) with feeds fs during its waits: ValueError for n < 1; otherwise 1..n bytes (from the buffer alone
        when it is not empty) for EVERY chunking of an object stream, empty items included (a byte stream must honour
        its contract of never returning b""); EndOfStream only when nothing was buffered and no byte is left (what
        was fed during the wait is then in the buffer) ---- *)
Theorem C16_buf_receive_spec : forall (s : st) (n : Z) (fs : list (list Z)) (s' : st) (r : res) (lg : list Z),
  step_log s (Receive n fs) = (s', r, lg) ->
  ((n < 1)%Z -> r = RValueError /\ s' = s) /\
  ((1 <= n)%Z -> (knd s = KByte -> chunks_nonempty (src s)) ->
     (exists x, r = RBytes x /\ (1 <= length x <= Z.to_nat n)%nat /\
                (buf s <> [] -> x = firstn (Z.to_nat n) (buf s) /\ src s' = src s /\ lg = [])) \/
     (r = REnd /\ buf s = [] /\ concat (src s) = [] /\ src s' = [] /\ buf s' = lg)).
Proof. exact buf_receive_spec. Qed.
Print Assumptions C16_buf_receive_spec.

(* an item received from the wrapped stream is handed out contiguously: a receive() that was parked on an empty
   buffer returns the head of ONE item, keeps the rest of that item at the FRONT of the buffer, and whatever
   feed_data put into the buffer while it waited follows the complete item.  This is the order in which a parked
   receive() commits the bytes (its arrival log lg = item ++ fed data): the item was requested before the feed. *)
Theorem C16_buf_receive_item_contiguous :
  forall (s : st) (n : Z) (fs : list (list Z)) (s' : st) (x lg : list Z),
  step_log s (Receive n fs) = (s', RBytes x, lg) -> buf s = [] ->
  exists item j,
    concat (src s) = item ++ concat (src s') /\
    x = firstn (Z.to_nat n) item /\
    buf s' = skipn (Z.to_nat n) item ++ concat (firstn j fs) /\
    x ++ buf s' = item ++ concat (firstn j fs) /\
    lg = item ++ concat (firstn j fs).
Proof. exact buf_receive_item_contiguous. Qed.
Print Assumptions C16_buf_receive_item_contiguous.

Theorem C16_buf_chunks_nonempty_invariant : forall (ops : list op) (s : st),
  chunks_nonempty (src s) -> chunks_nonempty (src (final step s ops)).
Proof. exact chunks_nonempty_invariant. Qed.
Print Assumptions C16_buf_chunks_nonempty_invariant.

(* ---- 3. receive_exactly(n): ValueError and nothing touched for n < 0; otherwise exactly n bytes off the front of the
        stream, or IncompleteRead, which happens iff the stream ends first; then everything read is in the buffer ---- *)
Theorem C16_buf_exactly_spec : forall (s : st) (n : Z) (s' : st) (r : res), step s (Exactly n []) = (s', r) ->
  ((n < 0)%Z -> r = RValueError /\ s' = s) /\
  ((0 <= n)%Z ->
   ((exists x, r = RBytes x /\ length x = Z.to_nat n /\
               x ++ buf s' ++ concat (src s') = buf s ++ concat (src s)) \/
    (r = RIncomplete /\ src s' = [] /\ buf s' = buf s ++ concat (src s))) /\
   (r = RIncomplete <-> (Z.of_nat (length (buf s ++ concat (src s))) < n)%Z)).
Proof. exact buf_exactly_spec. Qed.
Print Assumptions C16_buf_exactly_spec.

(* ---- 3b. receive_exactly(n) with feed_data() by other tasks during its waits (fs: one entry per fetch).  `weave fs
        pulled lg`: the arrival log lg is, fetch by fetch, the data fed during the wait followed by the chunk pulled
        (nothing pulled by a fetch that meets the end of the stream).  The call hands out exactly the first n bytes in
        arrival order and leaves the rest of what arrived in the buffer, in order - whatever is fed, however the wrapped
        stream chunks; IncompleteRead only at the end of the wrapped stream, with everything that arrived buffered ---- *)
Theorem C16_buf_exactly_fed_spec : forall (s : st) (n : Z) (fs : list (list Z)) (s' : st) (r : res) (lg : list Z),
  (0 <= n)%Z -> step_log s (Exactly n fs) = (s', r, lg) ->
  (exists pulled, concat (src s) = pulled ++ concat (src s') /\ weave fs pulled lg) /\
  ((exists x, r = RBytes x /\ length x = Z.to_nat n /\ x ++ buf s' = buf s ++ lg) \/
   (r = RIncomplete /\ src s' = [] /\ buf s' = buf s ++ lg /\ (Z.of_nat (length (buf s)) < n)%Z)).
Proof. exact buf_exactly_fed_spec. Qed.
Print Assumptions C16_buf_exactly_fed_spec.

(* non-vacuity: receive_exactly(4) on a byte stream, 1 byte buffered, "XY" fed during the first wait: the fetch asked
   for 3 bytes (computed before the wait) and got "bcd"; the call returns a X Y b and keeps "cd" - 4 bytes, in arrival
   order.  Second conjunct: the feed arrives during a wait that ends in EndOfStream: IncompleteRead although 4 bytes are
   now buffered (the wrapped stream IS at its end); nothing is lost, the next call gets them *)
Theorem C16_buf_exactly_fed_nonvacuous : (
  step_log (mk KByte [97] [[98; 99; 100]]) (Exactly 4 [[88; 89]])
    = (mk KByte [99; 100] [], RBytes [97; 88; 89; 98], [88; 89; 98; 99; 100]) /\
  step_log (mk KByte [97] []) (Exactly 4 [[88; 89; 90]]) = (mk KByte [97; 88; 89; 90] [], RIncomplete, [88; 89; 90]) /\
  step (mk KByte [97; 88; 89; 90] []) (Exactly 4 []) = (mk KByte [] [], RBytes [97; 88; 89; 90]))%Z.
Proof. vm_compute. auto. Qed.
Print Assumptions C16_buf_exactly_fed_nonvacuous.

(* ---- 4. receive_until(d, m) with feeds fs during its waits.  The call makes k fetches; a fetch happens only while
        what has arrived so far holds no delimiter and fewer than m bytes; the call ends with the first buffer that
        contains the delimiter (result = everything before its FIRST occurrence, delimiter removed, rest kept), or has
        >= m bytes (DelimiterNotFound), or when a fetch meets the end of the stream (IncompleteRead; what was fed during
        that last wait stays buffered unsearched) ---- *)
Theorem C16_buf_until_spec : forall (s : st) (d : list Z) (m : Z) (fs : list (list Z)) (s' : st) (r : res) (lg : list Z),
  step_log s (Until d m fs) = (s', r, lg) ->
  exists k,
    src s' = fetch_rest k (knd s) (src s) /\ lg = fetch_arrivals k (knd s) (src s) fs /\
    (forall j, (j < k)%nat ->
       ~ occurs d (buf s ++ fetch_arrivals j (knd s) (src s) fs) /\
       (Z.of_nat (length (buf s ++ fetch_arrivals j (knd s) (src s) fs)) < m)%Z) /\
    (chunks_nonempty (src s) -> chunks_nonempty (src s')) /\
    match r with
    | RBytes x => buf s ++ lg = x ++ d ++ buf s' /\
                  (forall j, (j < length x)%nat -> ~ occurs_at d (buf s ++ lg) j)
    | RNotFound => buf s' = buf s ++ lg /\ ~ occurs d (buf s') /\ (m <= Z.of_nat (length (buf s')))%Z
    | RIncomplete => buf s' = buf s ++ lg /\ src s' = [] /\
                     exists k0, k = S k0 /\
                       lg = fetch_arrivals k0 (knd s) (src s) fs ++ hd [] (skipn k0 fs)
    | RCancelled => buf s' = buf s ++ lg      (* excluded for an uncancelled call by C16_buf_uncancelled_never_cancelled *)
    | _ => False
    end.
Proof. exact buf_until_spec. Qed.
Print Assumptions C16_buf_until_spec.

(* receive_until never includes the delimiter - for ALL feeds interleaved with the call *)
Theorem C16_buf_until_result : forall (s : st) (d : list Z) (m : Z) (fs : list (list Z)) (s' : st) (x lg : list Z),
  step_log s (Until d m fs) = (s', RBytes x, lg) ->
  buf s ++ lg = x ++ d ++ buf s' /\
  (forall j, (j < length x)%nat -> ~ occurs_at d (buf s ++ lg) j) /\
  (d <> [] -> ~ occurs d x).
Proof. exact buf_until_result. Qed.
Print Assumptions C16_buf_until_result.

Theorem C16_buf_until_result_stream : forall (s : st) (d : list Z) (m : Z) (s' : st) (x lg : list Z),
  step_log s (Until d m []) = (s', RBytes x, lg) ->
  buf s ++ concat (src s) = x ++ d ++ buf s' ++ concat (src s') /\
  (forall j, (j < length x)%nat -> ~ occurs_at d (buf s ++ concat (src s)) j).
Proof. exact buf_until_result_stream. Qed.
Print Assumptions C16_buf_until_result_stream.

(* DelimiterNotFound only if no occurrence of the delimiter lies within the first m bytes of the stream *)
Theorem C16_buf_until_notfound : forall (s : st) (d : list Z) (m : Z) (s' : st) (lg : list Z),
  step_log s (Until d m []) = (s', RNotFound, lg) ->
  forall i, occurs_at d (buf s ++ concat (src s)) i -> (m < Z.of_nat (i + length d))%Z.
Proof. exact buf_until_notfound. Qed.
Print Assumptions C16_buf_until_notfound.

Theorem C16_buf_until_notfound_fed : forall (s : st) (d : list Z) (m : Z) (fs : list (list Z)) (s' : st) (lg : list Z),
  step_log s (Until d m fs) = (s', RNotFound, lg) ->
  buf s' = buf s ++ lg /\ ~ occurs d (buf s') /\ (m <= Z.of_nat (length (buf s')))%Z.
Proof. exact buf_until_notfound_fed. Qed.
Print Assumptions C16_buf_until_notfound_fed.

Theorem C16_buf_until_incomplete : forall (s : st) (d : list Z) (m : Z) (s' : st) (lg : list Z),
  step_log s (Until d m []) = (s', RIncomplete, lg) ->
  ~ occurs d (buf s ++ concat (src s)) /\ (Z.of_nat (length (buf s ++ concat (src s))) < m)%Z.
Proof. exact buf_until_incomplete. Qed.
Print Assumptions C16_buf_until_incomplete.

(* the search-offset lemma, and its use: receive_until equals the loop that searches the whole buffer every time,
   whatever is fed while it waits (the offset is taken from the size searched BEFORE the wait) *)
Theorem C16_buf_search_offset : forall (d old data : list Z) (k : nat),
  (forall j, ~ occurs_at d old j) -> (k < length old + 1 - length d)%nat -> ~ occurs_at d (old ++ data) k.
Proof. exact search_offset_complete. Qed.
Print Assumptions C16_buf_search_offset.

Theorem C16_buf_until_offset_sound : forall (s : st) (d : list Z) (m : Z) (fs : list (list Z)),
  step_log s (Until d m fs) = until_naive (fuel_of s) 0 s d m fs.
Proof. exact until_offset_sound. Qed.
Print Assumptions C16_buf_until_offset_sound.

(* ---- 5. a call that fails (EndOfStream, IncompleteRead, DelimiterNotFound, ValueError - also for a negative count or
        a non-positive max_bytes - or CANCELLATION: `failed` includes RCancelled) hands out nothing; what arrived during it is in the buffer, in order; without feeds
        during the call buffer ++ wrapped stream is unchanged ---- *)
Theorem C16_buf_fail_consumes_nothing : forall (s : st) (o : op) (s' : st) (r : res) (lg : list Z),
  step_log s o = (s', r, lg) -> failed r ->
  consumed_of o r = [] /\
  buf s' = buf s ++ lg /\
  (exists pulled, concat (src s) = pulled ++ concat (src s')) /\
  (no_feed o = true -> buf s' ++ concat (src s') = buf s ++ concat (src s)).
Proof. exact buf_fail_consumes_nothing. Qed.
Print Assumptions C16_buf_fail_consumes_nothing.

(* ---- 5b. cancellation.  CReceive/CExactly/CUntil k ...: the call runs in a cancel scope; k = 0: cancelled at entry,
        k >= 1: its k-th fetch from the wrapped stream (the only place where HEAD waits) raises the cancellation.
        For every state reachable by any op sequence: a cancelled call hands out nothing, the chunks it had already
        fetched are in the buffer in order, buffer ++ not-yet-fetched stream is unchanged ---- *)
Theorem C16_buf_cancelled_consumes_nothing : forall (ops : list op) (s0 : st) (o : op) (s' : st) (lg : list Z),
  step_log (final step s0 ops) o = (s', RCancelled, lg) ->
  consumed_of o RCancelled = [] /\
  buf s' = buf (final step s0 ops) ++ lg /\
  (exists pulled, concat (src (final step s0 ops)) = pulled ++ concat (src s')) /\
  (no_feed o = true ->
   buf s' ++ concat (src s') = buf (final step s0 ops) ++ concat (src (final step s0 ops))).
Proof. exact buf_cancelled_consumes_nothing. Qed.
Print Assumptions C16_buf_cancelled_consumes_nothing.

Theorem C16_buf_entry_cancel : forall (s : st) (n : Z) (d : list Z) (m : Z) (fs : list (list Z)),
  step_log s (CReceive 0 n fs) = (s, RCancelled, []) /\
  step_log s (CExactly 0 n fs) = (s, RCancelled, []) /\
  step_log s (CUntil 0 d m fs) = (s, RCancelled, []).
Proof. exact buf_entry_cancel. Qed.
Print Assumptions C16_buf_entry_cancel.

Theorem C16_buf_uncancelled_never_cancelled : forall (s : st) (o : op),
  match o with CReceive _ _ _ | CExactly _ _ _ | CUntil _ _ _ _ => True | _ => snd (step s o) <> RCancelled end.
Proof. exact buf_uncancelled_never_cancelled. Qed.
Print Assumptions C16_buf_uncancelled_never_cancelled.

(* ---- the tree before the fixes violated these clauses (F27, F28, F29, F43: fixed in /repo) ---- *)
Theorem C16_buf_until_feed_refuted_pinned : exists s d m fs s' x lg,
  step_pinned s (Until d m fs) = (s', RBytes x, lg) /\ d <> [] /\ occurs d x.
Proof. exact until_feed_refuted_pinned. Qed.
Print Assumptions C16_buf_until_feed_refuted_pinned.

Theorem C16_buf_receive_empty_refuted_pinned : exists s n s' lg,
  knd s = KObject /\ (1 <= n)%Z /\ step_pinned s (Receive n []) = (s', RBytes [], lg) /\ concat (src s) <> [].
Proof. exact receive_empty_refuted_pinned. Qed.
Print Assumptions C16_buf_receive_empty_refuted_pinned.

Theorem C16_buf_receive_item_split_refuted_pinned : exists s n fs s' x lg item,
  src s = [item] /\ buf s = [] /\ step_pinned s (Receive n fs) = (s', RBytes x, lg) /\
  x ++ buf s' <> item ++ concat fs /\ x ++ buf s' <> concat fs ++ item.
Proof. exact receive_item_split_refuted_pinned. Qed.
Print Assumptions C16_buf_receive_item_split_refuted_pinned.

Theorem C16_buf_exactly_negative_refuted_pinned : exists c1 c2 n x1 x2 s1 s2 l1 l2,
  concat c1 = concat c2 /\ (n < 0)%Z /\
  step_pinned (fst (fst (step_pinned (init KObject c1) (Receive 1%Z [])))) (Exactly n []) = (s1, RBytes x1, l1) /\
  step_pinned (fst (fst (step_pinned (init KObject c2) (Receive 1%Z [])))) (Exactly n []) = (s2, RBytes x2, l2) /\
  x1 <> x2.
Proof. exact exactly_negative_refuted_pinned. Qed.
Print Assumptions C16_buf_exactly_negative_refuted_pinned.

(* ------------------------------------------------------------------------------------------------------------ *)
From AV Require Import Text TextProofs.

(* ---- 6. text: decoding chunk by chunk, for ANY split w of the bytes (also inside a character), succeeds iff decoding
        the concatenation in one piece succeeds, with the same output and the same final decoder state; all eight
        encodings ---- *)
Theorem C16_text_chunking_invariant : forall (e : enc) (d : dst) (w : list (list Z)) (d' : dst) (o : list Z),
  dmode d <> 3%nat ->
  (decode_seq e d w = DOk d' o <-> decode_chunk e d (concat w) = DOk d' o).
Proof. exact text_chunking_invariant. Qed.
Print Assumptions C16_text_chunking_invariant.

Theorem C16_text_receive_nonempty : forall (s s' : tst) (x : list Z), tstep s TRecv = (s', TStr x) -> x <> [].
Proof. exact text_receive_nonempty. Qed.
Print Assumptions C16_text_receive_nonempty.

Theorem C16_text_receive_drains : forall (s : tst) (k : nat) (s' : tst) (outs : list tres),
  run_ops tstep s (repeat TRecv k) = (s', outs) ->
  (forall c, ~ In (TDecErr c) outs) ->
  exists used, wire s = used ++ wire s' /\ tenc s' = tenc s /\
               decode_seq (tenc s) (dec s) used = DOk (dec s') (strs outs) /\
               (In TEnd outs -> wire s' = []).
Proof. exact text_receive_drains. Qed.
Print Assumptions C16_text_receive_drains.

(* TextReceiveStream drained to EndOfStream without a decoding error: the concatenation of the strings it returned is
   the decoding of the whole input *)
Theorem C16_text_stream_transparent : forall (e : enc) (w : list (list Z)) (k : nat) (s' : tst) (outs : list tres),
  run_ops tstep (tinit e w) (repeat TRecv k) = (s', outs) ->
  (forall c, ~ In (TDecErr c) outs) -> In TEnd outs ->
  decode_chunk e (dinit e) (concat w) = DOk (dec s') (strs outs).
Proof. exact text_stream_transparent. Qed.
Print Assumptions C16_text_stream_transparent.

(* ---- 7. round trip.  The utf-8 automaton is the exact inverse of the utf-8 encoder ---- *)
Theorem C16_utf8_roundtrip_bytes : forall (s : list Z), forallb valid_scalar s = true ->
  run_bytes Utf8 (dinit Utf8) (concat (map u8_enc1 s)) = DOk (dinit Utf8) s.
Proof. exact utf8_roundtrip_bytes. Qed.
Print Assumptions C16_utf8_roundtrip_bytes.

Theorem C16_utf8_decode_sound : forall (bs s : list Z), run_bytes Utf8 (dinit Utf8) bs = DOk (dinit Utf8) s ->
  forallb valid_scalar s = true /\ concat (map u8_enc1 s) = bs.
Proof. exact utf8_decode_sound. Qed.
Print Assumptions C16_utf8_decode_sound.

(* strings sent one by one through one TextSendStream, the bytes re-chunked in any way, then decoded: identity *)
Theorem C16_text_roundtrip : forall (e : enc) (ss bs w : list (list Z)), (e = Utf8 \/ e = Latin1) ->
  send_all e false ss = Some bs -> concat w = concat bs ->
  decode_seq e (dinit e) w = DOk (dinit e) (concat ss).
Proof. exact text_roundtrip. Qed.
Print Assumptions C16_text_roundtrip.

(* the same for every encoding of the model (utf-16/utf-32 with BOM, -le, -be), on HEAD where the BOM is written once *)
Theorem C16_text_roundtrip_all : forall (e : enc) (ss bs w : list (list Z)),
  send_all e false ss = Some bs -> concat w = concat bs ->
  exists d', decode_seq e (dinit e) w = DOk d' (concat ss) /\ pend d' = [].
Proof. exact text_roundtrip_all. Qed.
Print Assumptions C16_text_roundtrip_all.

(* through the stream model: TextSendStream.send for every string, then receive() until EndOfStream *)
Theorem C16_text_roundtrip_stream : forall (e : enc) (ss : list (list Z)) (k : nat) (s' : tst) (outs : list tres),
  (forall s, In s ss -> encode_body e s <> None) ->
  run_ops tstep (tinit e []) (map TSend ss ++ repeat TRecv k) = (s', outs) ->
  In TEnd outs -> (forall c, ~ In (TDecErr c) outs) /\ strs outs = concat ss.
Proof. exact text_roundtrip_stream_all. Qed.
Print Assumptions C16_text_roundtrip_stream.

(* F10 (fixed in /repo): with the stateless encoder of the pinned tree (a BOM per send) the round trip fails *)
Theorem C16_text_roundtrip_utf16_refuted_pinned : exists ss bs d' o,
  Forall2 (fun s b => encode_pinned Utf16 s = Some b) ss bs /\
  decode_seq Utf16 (dinit Utf16) bs = DOk d' o /\ o <> concat ss.
Proof. exact text_roundtrip_utf16_refuted_pinned. Qed.
Print Assumptions C16_text_roundtrip_utf16_refuted_pinned.

Theorem C16_text_roundtrip_utf32_refuted_pinned : exists ss bs d' o,
  Forall2 (fun s b => encode_pinned Utf32 s = Some b) ss bs /\
  decode_seq Utf32 (dinit Utf32) bs = DOk d' o /\ o <> concat ss.
Proof. exact text_roundtrip_utf32_refuted_pinned. Qed.
Print Assumptions C16_text_roundtrip_utf32_refuted_pinned.

(* ---- tie T: the three receive methods as tools/translate_buffered.py regenerates them from
        src/anyio/streams/buffered.py on every run (pure/BufGen.v, language and interpreter pure/BufImp.v), interpreted,
        ARE the model: same state, same result, for every state, argument, cancellation point and feed list; hence the
        machine that runs the regenerated code equals Buffered.step op by op, and the conservation clause holds for
        runs of the regenerated code.  (The arrival log is a history variable of the model and is not part of this tie.)
        Trusted here: the translator's tables (Python construct -> BufImp atom, tools/translate_buffered.py), the
        reading of an await of the wrapped stream's receive() as BufImp.fetch (cancellation, data fed by other tasks
        during the wait, Buffered.pull), `self._closed` read as False (aclose() is outside the C16 model). ---- *)
From AV Require Import BufImp BufGen BufGenEq.

Theorem C16_tie_receive : forall (s : st) (n : Z) (c : nat) (f : list (list Z)),
  result (exec (fuel_of s) gen_receive (env0 n [] c f) s) = Some (fst (do_receive false c s n f)).
Proof. exact tie_receive. Qed.
Print Assumptions C16_tie_receive.

Theorem C16_tie_exactly : forall (s : st) (n : Z) (c : nat) (f : list (list Z)),
  result (exec (fuel_of s) gen_exactly (env0 n [] c f) s) = Some (fst (do_exactly false c s n f)).
Proof. exact tie_exactly. Qed.
Print Assumptions C16_tie_exactly.

Theorem C16_tie_until : forall (s : st) (d : list Z) (m : Z) (c : nat) (f : list (list Z)),
  result (exec (fuel_of s) gen_until (env0 m d c f) s) = Some (fst (until_loop false (fuel_of s) c s d m 0 f)).
Proof. exact tie_until. Qed.
Print Assumptions C16_tie_until.

Theorem C16_tie_machine : forall (s : st) (o : op), gstep gen_progs s o = step s o.
Proof. exact gstep_eq_step. Qed.
Print Assumptions C16_tie_machine.

Theorem C16_tie_gen_conservation : forall (ops : list op) (s : st),
  let s' := final (gstep gen_progs) s ops in
  buf s ++ arrived_run s ops = consumed_run s ops ++ buf s'.
Proof. intros ops s. cbv zeta. rewrite grun_eq_run. apply buf_conservation. Qed.
Print Assumptions C16_tie_gen_conservation.

(* the loops of the regenerated code terminate within the model's own bound (one unit of fuel per iteration, fuel =
   1 + number of chunks + number of bytes the wrapped stream still holds): no call of the machine that runs the
   regenerated programs ends with the out-of-fuel result, and none of the three methods falls off its end (result is
   never None: every path returns or raises) *)
Theorem C16_tie_gen_terminates : forall (s : st) (o : op), snd (gstep gen_progs s o) <> RFuel.
Proof. intros s o. rewrite gstep_eq_step. apply step_never_out_of_fuel. Qed.
Print Assumptions C16_tie_gen_terminates.

Theorem C16_tie_gen_methods_return : forall (s : st) (n : Z) (d : list Z) (c : nat) (f : list (list Z)),
  result (exec (fuel_of s) gen_receive (env0 n [] c f) s) <> None /\
  result (exec (fuel_of s) gen_exactly (env0 n [] c f) s) <> None /\
  result (exec (fuel_of s) gen_until (env0 n d c f) s) <> None.
Proof. intros s n d c f. rewrite tie_receive, tie_exactly, tie_until. repeat split; discriminate. Qed.
Print Assumptions C16_tie_gen_methods_return.

(* ---- tie T, text half: TextReceiveStream.receive and TextSendStream.send as tools/translate_text.py regenerates them
        from src/anyio/streams/text.py (pure/TextGen.v; language pure/TextImp.v), interpreted, ARE Text.tstep: same decoder /
        encoder state, same chunks left in the transport, same result - for every encoding, decoder state, chunk list and
        item.  The constructors (ONE incremental decoder / encoder object per stream: F10) and the delegating methods are
        checked literally by the translator.  Trusted: the translator's tables; `codecs` as modelled in Text.v. ---- *)
From AV Require Import TextImp TextGen TextGenEq.

Theorem C16_tie_text_receive : forall (s : tst), g_receive gen_text_receive s = Some (tstep s TRecv).
Proof. exact tie_text_receive. Qed.
Print Assumptions C16_tie_text_receive.

Theorem C16_tie_text_send : forall (s : tst) (x : list Z), g_send gen_text_send s x = Some (tstep s (TSend x)).
Proof. exact tie_text_send. Qed.
Print Assumptions C16_tie_text_send.
