(* C16 - Buffered and text stream wrappers are transparent to chunking.
   This file contains only statements closed by `exact` and their Print Assumptions.
   Part 1: pure/Buffered.v (BufferedByteReceiveStream); part 2: pure/Text.v (TextReceiveStream / TextSendStream). *)
From AV Require Import Base Buffered BufferedProofs.

(* ---- 1. conservation: for every state (any buffer, any chunk list, either kind of wrapped stream) and every op
        sequence, the bytes handed out plus the delimiters consumed, followed by the buffer, are exactly the fed and
        received bytes in arrival order ---- *)
Theorem C16_buf_conservation : forall (ops : list op) (s : st),
  buf s ++ arrived_run s ops = consumed_run s ops ++ buf (final step s ops).
Proof. exact buf_conservation. Qed.
Print Assumptions C16_buf_conservation.

Theorem C16_buf_source_order : forall (ops : list op) (s : st),
  received_run s ops ++ concat (src (final step s ops)) = concat (src s).
Proof. exact buf_source_order. Qed.
Print Assumptions C16_buf_source_order.

Theorem C16_buf_conservation_total : forall (ops : list op) (s : st),
  forallb (fun o => negb (is_feed o)) ops = true ->
  consumed_run s ops ++ buf (final step s ops) ++ concat (src (final step s ops)) = buf s ++ concat (src s).
Proof. exact buf_conservation_total. Qed.
Print Assumptions C16_buf_conservation_total.

(* one call: what it read from the wrapped stream is a prefix of what the stream held; fed ++ read bytes go behind the
   buffer; the result (and delimiter) comes off the front; the loops of the model never run out of fuel *)
Theorem C16_buf_step_conservation : forall (s : st) (o : op) (s' : st) (r : res), step s o = (s', r) ->
  knd s' = knd s /\ r <> RFuel /\
  (chunks_nonempty (src s) -> chunks_nonempty (src s')) /\
  exists pulled,
    concat (src s) = pulled ++ concat (src s') /\
    buf s ++ fed_of o ++ pulled = consumed_of o r ++ buf s'.
Proof. exact step_conservation. Qed.
Print Assumptions C16_buf_step_conservation.

Theorem C16_buf_never_out_of_fuel : forall (s : st) (o : op), snd (step s o) <> RFuel.
Proof. exact step_never_out_of_fuel. Qed.
Print Assumptions C16_buf_never_out_of_fuel.

(* a byte stream whose next piece fits the requested max_bytes hands it out whole (so chunk lists cover every
   contract-honouring byte stream), and never more than max_bytes *)
Theorem C16_buf_byte_stream_model : forall (n : nat) (c : list Z) (r : list (list Z)),
  (length c <= n -> pull KByte n (c :: r) = Some (c, r)) /\
  (forall p r', pull KByte n (c :: r) = Some (p, r') -> length p <= n).
Proof. exact (fun n c r => conj (pull_byte_fits n c r) (fun p r' => pull_byte_bound n (c :: r) p r')). Qed.
Print Assumptions C16_buf_byte_stream_model.

(* ---- 2. receive(n): ValueError for n < 1; otherwise 1..n bytes (from the buffer alone when it is not empty), or
        EndOfStream with nothing buffered and nothing left ---- *)
Theorem C16_buf_receive_spec : forall (s : st) (n : Z) (s' : st) (r : res), step s (Receive n) = (s', r) ->
  ((n < 1)%Z -> r = RValueError /\ s' = s) /\
  ((1 <= n)%Z -> chunks_nonempty (src s) ->
     (exists x, r = RBytes x /\ (1 <= length x <= Z.to_nat n)%nat /\
                (buf s <> [] -> x = firstn (Z.to_nat n) (buf s) /\ src s' = src s)) \/
     (r = REnd /\ buf s = [] /\ src s = [] /\ s' = s)).
Proof. exact buf_receive_spec. Qed.
Print Assumptions C16_buf_receive_spec.

Theorem C16_buf_chunks_nonempty_invariant : forall (ops : list op) (s : st),
  chunks_nonempty (src s) -> chunks_nonempty (src (final step s ops)).
Proof. exact chunks_nonempty_invariant. Qed.
Print Assumptions C16_buf_chunks_nonempty_invariant.

(* ---- 3. receive_exactly(n), n >= 0: exactly n bytes off the front of the stream, or IncompleteRead, which happens
        iff the stream ends first; then everything read is in the buffer ---- *)
Theorem C16_buf_exactly_spec : forall (s : st) (n : Z) (s' : st) (r : res),
  (0 <= n)%Z -> step s (Exactly n) = (s', r) ->
  ((exists x, r = RBytes x /\ length x = Z.to_nat n /\
              x ++ buf s' ++ concat (src s') = buf s ++ concat (src s)) \/
   (r = RIncomplete /\ src s' = [] /\ buf s' = buf s ++ concat (src s))) /\
  (r = RIncomplete <-> (Z.of_nat (length (buf s ++ concat (src s))) < n)%Z).
Proof. exact buf_exactly_spec. Qed.
Print Assumptions C16_buf_exactly_spec.

(* ---- 4. receive_until(d, m).  `pieces` are the reads made by the call: a read happens only while the buffer holds
        no delimiter and fewer than m bytes; the call ends with the first buffer that contains the delimiter (result =
        everything before its FIRST occurrence, delimiter removed, rest kept), or has >= m bytes (DelimiterNotFound),
        or cannot be extended (IncompleteRead) ---- *)
Theorem C16_buf_until_spec : forall (s : st) (d : list Z) (m : Z) (s' : st) (r : res),
  step s (Until d m) = (s', r) ->
  exists pieces,
    concat (src s) = concat pieces ++ concat (src s') /\
    (forall k, (k < length pieces)%nat ->
       ~ occurs d (buf s ++ concat (firstn k pieces)) /\
       (Z.of_nat (length (buf s ++ concat (firstn k pieces))) < m)%Z) /\
    match r with
    | RBytes x => buf s ++ concat pieces = x ++ d ++ buf s' /\
                  (forall j, (j < length x)%nat -> ~ occurs_at d (buf s ++ concat pieces) j)
    | RNotFound => buf s' = buf s ++ concat pieces /\ ~ occurs d (buf s') /\ (m <= Z.of_nat (length (buf s')))%Z
    | RIncomplete => buf s' = buf s ++ concat pieces /\ src s' = [] /\ ~ occurs d (buf s') /\
                     (Z.of_nat (length (buf s')) < m)%Z
    | _ => False
    end.
Proof. exact buf_until_spec. Qed.
Print Assumptions C16_buf_until_spec.

Theorem C16_buf_until_result : forall (s : st) (d : list Z) (m : Z) (s' : st) (x : list Z),
  step s (Until d m) = (s', RBytes x) ->
  buf s ++ concat (src s) = x ++ d ++ buf s' ++ concat (src s') /\
  (forall j, (j < length x)%nat -> ~ occurs_at d (buf s ++ concat (src s)) j) /\
  (d <> [] -> ~ occurs d x).
Proof. exact buf_until_result. Qed.
Print Assumptions C16_buf_until_result.

(* DelimiterNotFound only if no occurrence of the delimiter lies within the first m bytes of the stream *)
Theorem C16_buf_until_notfound : forall (s : st) (d : list Z) (m : Z) (s' : st),
  step s (Until d m) = (s', RNotFound) ->
  forall i, occurs_at d (buf s ++ concat (src s)) i -> (m < Z.of_nat (i + length d))%Z.
Proof. exact buf_until_notfound. Qed.
Print Assumptions C16_buf_until_notfound.

Theorem C16_buf_until_incomplete : forall (s : st) (d : list Z) (m : Z) (s' : st),
  step s (Until d m) = (s', RIncomplete) ->
  ~ occurs d (buf s ++ concat (src s)) /\ (Z.of_nat (length (buf s ++ concat (src s))) < m)%Z.
Proof. exact buf_until_incomplete. Qed.
Print Assumptions C16_buf_until_incomplete.

(* the search-offset lemma, and its use: receive_until equals the loop that searches the whole buffer every time *)
Theorem C16_buf_search_offset : forall (d old data : list Z) (k : nat),
  (forall j, ~ occurs_at d old j) -> (k < length old + 1 - length d)%nat -> ~ occurs_at d (old ++ data) k.
Proof. exact search_offset_complete. Qed.
Print Assumptions C16_buf_search_offset.

Theorem C16_buf_until_offset_sound : forall (s : st) (d : list Z) (m : Z),
  step s (Until d m) = until_naive (fuel_of s) s d m.
Proof. exact until_offset_sound. Qed.
Print Assumptions C16_buf_until_offset_sound.

(* ---- 5. a call that fails (EndOfStream, IncompleteRead, DelimiterNotFound, ValueError) hands out nothing and
        leaves buffer ++ wrapped stream unchanged: what it read stays in the buffer, in order ---- *)
Theorem C16_buf_fail_consumes_nothing : forall (s : st) (o : op) (s' : st) (r : res),
  step s o = (s', r) -> failed r ->
  consumed_of o r = [] /\
  buf s' ++ concat (src s') = buf s ++ concat (src s) /\
  (exists extra, buf s' = buf s ++ extra /\ concat (src s) = extra ++ concat (src s')).
Proof. exact buf_fail_consumes_nothing. Qed.
Print Assumptions C16_buf_fail_consumes_nothing.

(* ------------------------------------------------------------------------------------------------------------ *)
From AV Require Import Text TextProofs.

(* ---- 6. text: decoding chunk by chunk, for ANY split w of the bytes (also inside a character), succeeds iff decoding
        the concatenation in one piece succeeds, with the same output and the same final decoder state; all eight
        encodings ---- *)
Theorem C16_text_chunking_invariant : forall (e : enc) (d : dst) (w : list (list Z)) (d' : dst) (o : list Z),
  dmode d <> 3%nat ->
  (decode_seq e d w = DOk d' o <-> decode_chunk e d (concat w) = DOk d' o).
Proof. exact text_chunking_invariant. Qed.
Print Assumptions C16_text_chunking_invariant.

Theorem C16_text_receive_nonempty : forall (s s' : tst) (x : list Z), tstep s TRecv = (s', TStr x) -> x <> [].
Proof. exact text_receive_nonempty. Qed.
Print Assumptions C16_text_receive_nonempty.

Theorem C16_text_receive_drains : forall (s : tst) (k : nat) (s' : tst) (outs : list tres),
  run_ops tstep s (repeat TRecv k) = (s', outs) ->
  (forall c, ~ In (TDecErr c) outs) ->
  exists used, wire s = used ++ wire s' /\ tenc s' = tenc s /\
               decode_seq (tenc s) (dec s) used = DOk (dec s') (strs outs) /\
               (In TEnd outs -> wire s' = []).
Proof. exact text_receive_drains. Qed.
Print Assumptions C16_text_receive_drains.

(* TextReceiveStream drained to EndOfStream without a decoding error: the concatenation of the strings it returned is
   the decoding of the whole input *)
Theorem C16_text_stream_transparent : forall (e : enc) (w : list (list Z)) (k : nat) (s' : tst) (outs : list tres),
  run_ops tstep (tinit e w) (repeat TRecv k) = (s', outs) ->
  (forall c, ~ In (TDecErr c) outs) -> In TEnd outs ->
  decode_chunk e (dinit e) (concat w) = DOk (dec s') (strs outs).
Proof. exact text_stream_transparent. Qed.
Print Assumptions C16_text_stream_transparent.

(* ---- 7. round trip.  The utf-8 automaton is the exact inverse of the utf-8 encoder ---- *)
Theorem C16_utf8_roundtrip_bytes : forall (s : list Z), forallb valid_scalar s = true ->
  run_bytes Utf8 (dinit Utf8) (concat (map u8_enc1 s)) = DOk (dinit Utf8) s.
Proof. exact utf8_roundtrip_bytes. Qed.
Print Assumptions C16_utf8_roundtrip_bytes.

Theorem C16_utf8_decode_sound : forall (bs s : list Z), run_bytes Utf8 (dinit Utf8) bs = DOk (dinit Utf8) s ->
  forallb valid_scalar s = true /\ concat (map u8_enc1 s) = bs.
Proof. exact utf8_decode_sound. Qed.
Print Assumptions C16_utf8_decode_sound.

(* strings sent one by one through one TextSendStream, the bytes re-chunked in any way, then decoded: identity *)
Theorem C16_text_roundtrip : forall (e : enc) (ss bs w : list (list Z)), (e = Utf8 \/ e = Latin1) ->
  send_all e false ss = Some bs -> concat w = concat bs ->
  decode_seq e (dinit e) w = DOk (dinit e) (concat ss).
Proof. exact text_roundtrip. Qed.
Print Assumptions C16_text_roundtrip.

(* the same for every encoding of the model (utf-16/utf-32 with BOM, -le, -be), on HEAD where the BOM is written once *)
Theorem C16_text_roundtrip_all : forall (e : enc) (ss bs w : list (list Z)),
  send_all e false ss = Some bs -> concat w = concat bs ->
  exists d', decode_seq e (dinit e) w = DOk d' (concat ss) /\ pend d' = [].
Proof. exact text_roundtrip_all. Qed.
Print Assumptions C16_text_roundtrip_all.

(* through the stream model: TextSendStream.send for every string, then receive() until EndOfStream *)
Theorem C16_text_roundtrip_stream : forall (e : enc) (ss : list (list Z)) (k : nat) (s' : tst) (outs : list tres),
  (forall s, In s ss -> encode_body e s <> None) ->
  run_ops tstep (tinit e []) (map TSend ss ++ repeat TRecv k) = (s', outs) ->
  In TEnd outs -> (forall c, ~ In (TDecErr c) outs) /\ strs outs = concat ss.
Proof. exact text_roundtrip_stream_all. Qed.
Print Assumptions C16_text_roundtrip_stream.

(* F10 (fixed in /repo): with the stateless encoder of the pinned tree (a BOM per send) the round trip fails *)
Theorem C16_text_roundtrip_utf16_refuted_pinned : exists ss bs d' o,
  Forall2 (fun s b => encode_pinned Utf16 s = Some b) ss bs /\
  decode_seq Utf16 (dinit Utf16) bs = DOk d' o /\ o <> concat ss.
Proof. exact text_roundtrip_utf16_refuted_pinned. Qed.
Print Assumptions C16_text_roundtrip_utf16_refuted_pinned.

Theorem C16_text_roundtrip_utf32_refuted_pinned : exists ss bs d' o,
  Forall2 (fun s b => encode_pinned Utf32 s = Some b) ss bs /\
  decode_seq Utf32 (dinit Utf32) bs = DOk d' o /\ o <> concat ss.
Proof. exact text_roundtrip_utf32_refuted_pinned. Qed.
Print Assumptions C16_text_roundtrip_utf32_refuted_pinned.
