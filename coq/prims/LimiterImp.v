(* P/LimiterImp: the CapacityLimiter machine whose code transitions are the interpretation (PrimImp.exec) of
   translated segments, and the ghost bookkeeping that turns an interpretation result into a Limiter.st.
   Definitions only. *)
From AV Require Import Base C10Defs PrimImp Limiter.

(* the fields the code of class CapacityLimiter reads and writes; the Semaphore part of the heap is unused *)
Definition core (s : st) : heap :=
  mkh false None 0 [] (fun _ => Sem.FPending) 0 (total s) (borrowers s) (queue s) (evset s) (nev s).

Record prog := mkprog {
  p_acquire_entry : stmt;             (* acquire_on_behalf_of(borrower): up to the first suspension / raise *)
  p_acquire_yield_resumed : stmt;     (* after `await cancel_shielded_checkpoint()` returned *)
  p_acquire_yield_cancelled : stmt;   (* an exception (CancelledError) raised at that await *)
  p_acquire_event_resumed : stmt;     (* after `await event.wait()` returned *)
  p_acquire_event_cancelled : stmt;   (* an exception raised at `await event.wait()` *)
  p_acquire_nowait : stmt;            (* acquire_on_behalf_of_nowait(borrower) *)
  p_release : stmt;                   (* release_on_behalf_of(borrower) *)
  p_set_total : stmt;                 (* total_tokens setter *)
  p_acquire_nowait_self : stmt;       (* acquire_nowait()  = on behalf of current_task() *)
  p_release_self : stmt;              (* release() *)
  p_total_tokens : expr;
  p_borrowed_tokens : expr;
  p_available_tokens : expr;
  p_statistics : list expr            (* arguments of CapacityLimiterStatistics(...) *)
}.

Definition res_of (o : outcome) : option res :=
  match o with
  | ONext | OReturn => Some RDone
  | OSuspend _ => Some RBlocked
  | ORaise ERuntime => Some RRuntime
  | ORaise EWouldBlock => Some RWouldBlock
  | ORaise ECancelled => Some RCancelled
  | ORaise EValue => Some RValue
  | ORaise EType => Some RType
  | OCancelled => Some RCancelled
  | _ => None
  end.

Inductive call_kind :=
| KAcquire (b : bid)      (* acquire_on_behalf_of(b): entry or continuation; acquire_on_behalf_of_nowait(b) *)
| KRelease (b : bid)      (* release_on_behalf_of(b) *)
| KSetter.

(* the argument of the setter for the two model ops *)
Definition tok_of (v : option nat) : tokval := match v with Some n => TNat n | None => TInf end.
Definition bad_tok (k : nat) : tokval :=    (* Limiter.SetTotalBad: 0: 1.5  1: -1  2: -inf  3: nan  other: a str *)
  match k with 0 => TFrac | 1 => TNegInt | 2 => TNegInf | 3 => TNan | _ => TStr end.

(* Ghost bookkeeping.  phase_of / fcanc / mustc are asyncio's state (where the task is suspended, whether the future
   inside Event.wait() was cancelled, Task._must_cancel).  held / resv / arrivals / tainted are history variables:
   held     b is added when an acquire call for b returns; a release_on_behalf_of(b) that returns removes it;
   resv     b owns a token while its acquire call has not returned: b itself when the call suspends in the shielded
            yield, every borrower whose event was set (g_grant);
   arrivals the slots written to _wait_queue (g_arr);
   tainted  O2: release_on_behalf_of(b) returned while b's token was still a reservation. *)
Definition lift (s : st) (t : tid) (kd : call_kind) (r : result) : st * res :=
  let '(l, g, k, o) := r in
  let ret := returned o in
  (mk (h_total k) (h_borrowers k) (h_queue k) (h_evset k) (h_nev k)
      (match o, l_bor l, l_ev l with
       | OSuspend AwYield, Some b, _ => upd (phase_of s) t (FastYield b)
       | OSuspend AwEvent, Some b, Some e => upd (phase_of s) t (Waiting b e)
       | _, _, _ => phase_of s
       end)
      (match o with OSuspend AwEvent => upd (fcanc s) t false | _ => fcanc s end)
      (mustc s)
      (match kd with
       | KAcquire b => if ret then b :: held s else held s
       | KRelease b => if ret then remove_one b (held s) else held s
       | KSetter => held s
       end)
      (g_grant g ++ match o, l_bor l with OSuspend AwYield, Some b => b :: resv s | _, _ => resv s end)
      (ghost_app (arrivals s) (g_arr g))
      (match kd with KRelease b => if ret then tainted s || mem b (resv s) else tainted s | _ => tainted s end),
   match res_of o with Some x => x | None => RRejected end).

(* the kernel side of a wake-up of task t (Limiter.leave): the reservation of b ends if b had one *)
Definition woken (s : st) (t : tid) : st :=
  match phase_of s t with
  | Idle => s
  | FastYield b => leave s t (remove_one b (resv s))
  | Waiting b e => leave s t (if evset s e then remove_one b (resv s) else resv s)
  end.

(* Which segment runs is CPython's await semantics: a wake-up from the shielded yield raises iff Task._must_cancel;
   a wake-up from Event.wait() is possible once the event is set or its future was cancelled, and raises iff the
   future was cancelled or _must_cancel is set.  Cancel is asyncio's Task.cancel(): environment, from the model. *)
Definition gstep (P : prog) (s : st) (o : op) : st * res :=
  match o with
  | AcqOn t b =>
      if negb (is_idle (phase_of s t)) then (s, RRejected) else
      lift s t (KAcquire b) (exec (p_acquire_entry P) t (loc_entry (Some b) None) log0 (core s))
  | AcqOnNowait t b =>
      if negb (is_idle (phase_of s t)) then (s, RRejected) else
      lift s t (KAcquire b) (exec (p_acquire_nowait P) t (loc_entry (Some b) None) log0 (core s))
  | RelOn t b =>
      if negb (is_idle (phase_of s t)) then (s, RRejected) else
      lift s t (KRelease b) (exec (p_release P) t (loc_entry (Some b) None) log0 (core s))
  | SetTotal t v =>
      if negb (is_idle (phase_of s t)) then (s, RRejected) else
      lift s t KSetter (exec (p_set_total P) t (loc_entry None (Some (tok_of v))) log0 (core s))
  | SetTotalBad t k =>
      if negb (is_idle (phase_of s t)) then (s, RRejected) else
      lift s t KSetter (exec (p_set_total P) t (loc_entry None (Some (bad_tok k))) log0 (core s))
  | Cancel t => step s (Cancel t)
  | Resume t =>
      match phase_of s t with
      | Idle => (s, RRejected)
      | FastYield b =>
          lift (woken s t) t (KAcquire b)
            (exec (if mustc s t then p_acquire_yield_cancelled P else p_acquire_yield_resumed P)
                  t (loc_resume None (Some b) None) log0 (core (woken s t)))
      | Waiting b e =>
          if negb (evset s e) && negb (fcanc s t) then (s, RRejected) else
          lift (woken s t) t (KAcquire b)
            (exec (if fcanc s t || mustc s t then p_acquire_event_cancelled P else p_acquire_event_resumed P)
                  t (loc_resume None (Some b) (Some e)) log0 (core (woken s t)))
      end
  end.
