(* Tie T for C12 / C13: interpreting the segments regenerated from /repo's source (MemGen.v) is what the hand-written
   model MemStream.step does to everything the code reads and writes. *)
From Coq Require Import Permutation.
From AV Require Import Base MemStream MemStreamProofs MemStreamThms MemImp MemGen.

Definition sim (s : st) (h : hid) (k : mheap) : Prop :=
  maxb s = m_maxb k /\ buffer s = m_buffer k /\ open_send s = m_osend k /\ open_recv s = m_orecv k /\
  receivers s = m_recvs k /\ senders s = m_sends k /\ (forall e, slot s e = m_slot k e) /\
  (forall e, fut s e = m_fut k e) /\ nev s = m_nev k /\ hclosed s h = m_closed k.

Definition frame (s s' : st) (h : hid) : Prop :=
  (forall h', h' <> h -> h' <> nh s -> hclosed s' h' = hclosed s h') /\
  (forall h', h' <> nh s -> hside s' h' = hside s h').

Lemma shows_iff s s' h k : shows s s' h k <-> sim s' h k /\ frame s s' h.
Proof. unfold shows, sim, frame. tauto. Qed.

Lemma sim_vis s h : sim s h (vis s h).
Proof. repeat split. Qed.

Lemma frame_refl s h : frame s s h.
Proof. split; auto. Qed.

(* setters of fields the code does not see *)
Lemma sim_same s s' h k :
  maxb s' = maxb s -> buffer s' = buffer s -> open_send s' = open_send s -> open_recv s' = open_recv s ->
  receivers s' = receivers s -> senders s' = senders s -> slot s' = slot s -> fut s' = fut s -> nev s' = nev s ->
  hclosed s' = hclosed s -> sim s h k -> sim s' h k.
Proof. unfold sim. intros -> -> -> -> -> -> -> -> -> ->. auto. Qed.

Lemma pl_eqb_refl l : pl_eqb l l = true.
Proof. induction l as [|[a b] r IH]; cbn; [reflexivity|]. now rewrite !Nat.eqb_refl, IH. Qed.

Lemma exec_seq a b t l k :
  exec (SSeq a b) t l k =
  let '(l1, k1, o) := exec a t l k in match o with ONext => exec b t l1 k1 | _ => (l1, k1, o) end.
Proof. reflexivity. Qed.

Lemma del_key_absent {A} e (l : list (eid * A)) : has_key e l = false -> del_key e l = l.
Proof.
  induction l as [|[a b] r IH]; cbn; [reflexivity|].
  destruct (Nat.eqb a e); cbn; [discriminate|]. intros H. now rewrite IH.
Qed.

(* ---- send_nowait: the pop loop is MemStream.pop_live ---- *)
Definition hand_heap (k : mheap) (rest : list (eid * tid)) (e : eid) (x : item) : mheap :=
  mkm (m_maxb k) (m_buffer k) (m_osend k) (m_orecv k) rest (m_sends k) (upd (m_slot k) e (Some x))
      (upd (m_fut k) e (ev_set (m_fut k e))) (m_nev k) (m_closed k) (m_pend k).

Lemma wloop_pop_live (run : mloc -> mheap -> result) (s1 : st) (x : item) :
  (forall l k e w r, m_recvs k = (e, w) :: r -> l_item l = Some x -> exists l', l_item l' = Some x /\
     run l k = if m_pend k w then (l', up_recvs k r, ONext) else (l', hand_heap k r e x, OReturn)) ->
  forall rs l k, m_recvs k = rs -> l_item l = Some x -> (forall w, m_pend k w = has_pending s1 w) ->
  exists l', l_item l' = Some x /\ wloop run rs l k =
    match pop_live s1 rs with
    | (Some (e, _), rest) => (l', hand_heap k rest e x, OReturn)
    | (None, _) => (l', up_recvs k [], ONext)
    end.
Proof.
  intros Hrun. induction rs as [|[e w] r IH]; intros l k Hr Hx Hp.
  - exists l. split; [exact Hx|]. cbn. rewrite Hr. destruct k; cbn in *; subst; reflexivity.
  - cbn [wloop pop_live]. rewrite Hr.
    destruct (Hrun l k e w r Hr Hx) as (l1 & Hx1 & Hrn). rewrite Hrn. rewrite <- (Hp w).
    destruct (m_pend k w) eqn:Epw.
    + cbn [m_recvs up_recvs]. rewrite pl_eqb_refl.
      destruct (IH l1 (up_recvs k r) eq_refl Hx1 Hp) as (l2 & Hx2 & Hex). exists l2. split; [exact Hx2|]. rewrite Hex.
      destruct (pop_live s1 r) as [[[e' w']|] rest]; reflexivity.
    + exists l1. split; [exact Hx1 | reflexivity].
Qed.

Definition sync_res (o : outcome) : res :=
  match o with
  | ONext | OReturn => RDone
  | OReturnV x => RItem x
  | ORaise EWouldBlock => RWouldBlock | ORaise EClosed => RClosed | ORaise EBroken => RBroken
  | ORaise EEnd => REndOfStream | ORaise ECancelled => RCancelled
  | _ => RRejected
  end.

Lemma send_nowait_sim s1 h x k t :
  sim s1 h k -> (forall w, m_pend k w = has_pending s1 w) ->
  exists l' k' o,
    exec snd_send_nowait_entry t (loc0 (Some x)) k = (l', k', o) /\
    sim (fst (send_nowait s1 h x)) h k' /\ sync_res o = snd (send_nowait s1 h x) /\
    (o = ONext \/ o = OReturn \/ exists e, o = ORaise e /\ e <> ECancelled) /\
    frame s1 (fst (send_nowait s1 h x)) h /\ phase_of (fst (send_nowait s1 h x)) = phase_of s1 /\
    nh (fst (send_nowait s1 h x)) = nh s1 /\ m_pend k' = m_pend k.
Proof.
  intros Hs Hp. pose proof Hs as (H1 & H2 & H3 & H4 & H5 & H6 & H7 & H8 & H9 & H10).
  unfold snd_send_nowait_entry, send_nowait.
  match goal with |- context [SWhileRecvs ?b] => remember (SWhileRecvs b) as W eqn:HW end.
  cbn [exec eval_cond negb]. rewrite H10.
  destruct (m_closed k) eqn:Ek.
  { eexists _, _, _. refine (conj eq_refl (conj Hs (conj eq_refl (conj _ (conj (frame_refl _ _) (conj eq_refl (conj eq_refl eq_refl))))))).
    right. right. eexists. split; [reflexivity | discriminate]. }
  cbn [negb]. rewrite H4.
  destruct (Nat.eqb (m_orecv k) 0).
  { cbn [negb]. eexists _, _, _. refine (conj eq_refl (conj Hs (conj eq_refl (conj _ (conj (frame_refl _ _) (conj eq_refl (conj eq_refl eq_refl))))))).
    right. right. eexists. split; [reflexivity | discriminate]. }
  cbn [negb]. subst W. cbn [exec].
  match goal with |- context [wloop ?rn ?fu ?l0 ?k0] =>
    destruct (wloop_pop_live rn s1 x) with (rs := fu) (l := l0) (k := k0) as (l1 & Hx1 & Hex) end.
  - intros l0 k0 e w r Hr Hx. cbn. rewrite Hr. cbn. rewrite Hx. destruct (m_pend k0 w); cbn; eexists; (split; [|reflexivity]); reflexivity.
  - reflexivity.
  - reflexivity.
  - exact Hp.
  - rewrite Hex. rewrite H5.
    destruct (pop_live s1 (m_recvs k)) as [[[e w]|] rest].
    + eexists _, _, _. refine (conj eq_refl (conj _ (conj eq_refl (conj _ (conj (frame_refl _ _) (conj eq_refl (conj eq_refl eq_refl))))))).
      * unfold sim, hand_over, hand_heap. cbn.
        repeat split; auto; intros; unfold upd;
          try match goal with |- context [Nat.eqb ?a e] => destruct (Nat.eqb a e) end; auto; try (now rewrite H8); try congruence.
      * right. now left.
    + cbn [exec eval_cond m_buffer m_maxb up_recvs]. rewrite Hx1, H2, H1.
      destruct (xlt (length (m_buffer k)) (m_maxb k)).
      * eexists _, _, _. refine (conj eq_refl (conj _ (conj eq_refl (conj _ (conj (frame_refl _ _) (conj eq_refl (conj eq_refl eq_refl))))))).
        -- unfold buffer_item. cbn. rewrite H2. repeat split; auto; cbn; congruence.
        -- now left.
      * eexists _, _, _. refine (conj eq_refl (conj _ (conj eq_refl (conj _ (conj (frame_refl _ _) (conj eq_refl (conj eq_refl eq_refl))))))).
        -- cbn. repeat split; auto; cbn; congruence.
        -- right. right. eexists. split; [reflexivity | discriminate].
Qed.

Lemma recv_nowait_sim s1 h k t :
  sim s1 h k ->
  exists l' k' o,
    exec rcv_receive_nowait_entry t (loc0 None) k = (l', k', o) /\
    sim (fst (recv_nowait s1 h)) h k' /\ sync_res o = snd (recv_nowait s1 h) /\
    ((exists x, o = OReturnV x) \/ exists e, o = ORaise e /\ e <> ECancelled) /\
    frame s1 (fst (recv_nowait s1 h)) h /\ phase_of (fst (recv_nowait s1 h)) = phase_of s1 /\
    nh (fst (recv_nowait s1 h)) = nh s1.
Proof.
  intros Hs. pose proof Hs as (H1 & H2 & H3 & H4 & H5 & H6 & H7 & H8 & H9 & H10).
  unfold rcv_receive_nowait_entry, recv_nowait, rn_move, rn_pop. cbn [exec eval_cond negb]. rewrite H10.
  destruct (m_closed k) eqn:Ek.
  { eexists _, _, _. refine (conj eq_refl (conj Hs (conj eq_refl (conj _ (conj (frame_refl _ _) (conj eq_refl eq_refl)))))).
    right. eexists. split; [reflexivity | discriminate]. }
  rewrite H6. destruct (m_sends k) as [|[e y] r] eqn:Es; cbn -[upd].
  - rewrite H2, H3. destruct (m_buffer k) as [|x b] eqn:Eb; cbn -[upd].
    + destruct (Nat.eqb (m_osend k) 0); cbn -[upd];
        eexists _, _, _; (refine (conj eq_refl (conj Hs (conj eq_refl (conj _ (conj (frame_refl _ _) (conj eq_refl eq_refl)))))));
        right; eexists; (split; [reflexivity | discriminate]).
    + eexists _, _, _. refine (conj eq_refl (conj _ (conj eq_refl (conj _ (conj (frame_refl _ _) (conj eq_refl eq_refl)))))).
      * unfold sim. cbn. repeat split; auto; congruence.
      * left. eexists. reflexivity.
  - rewrite H2. destruct (m_buffer k ++ [y]) as [|x b] eqn:Eb; [destruct (m_buffer k); discriminate|]. cbn -[upd].
    eexists _, _, _. refine (conj eq_refl (conj _ (conj eq_refl (conj _ (conj (frame_refl _ _) (conj eq_refl eq_refl)))))).
    + unfold sim. cbn -[upd]. repeat split; auto; try congruence.
      intros e'. unfold upd. destruct (Nat.eqb e' e); auto. now rewrite H8.
    + left. eexists. reflexivity.
Qed.

(* s' differs from s only in ghost fields *)
Definition veq (s s' : st) : Prop :=
  maxb s' = maxb s /\ buffer s' = buffer s /\ open_send s' = open_send s /\ open_recv s' = open_recv s /\
  receivers s' = receivers s /\ senders s' = senders s /\ slot s' = slot s /\ fut s' = fut s /\ nev s' = nev s /\
  hclosed s' = hclosed s /\ hside s' = hside s /\ nh s' = nh s /\ phase_of s' = phase_of s.

Lemma veq_refl s : veq s s.
Proof. repeat split. Qed.

Lemma veq_sim s s' h k : veq s s' -> sim s h k -> sim s' h k.
Proof.
  intros (E1 & E2 & E3 & E4 & E5 & E6 & E7 & E8 & E9 & E10 & _) Hs.
  eapply sim_same; eauto.
Qed.

Lemma veq_frame s0 s s' h : veq s s' -> frame s0 s h -> frame s0 s' h.
Proof.
  intros (_ & _ & _ & _ & _ & _ & _ & _ & _ & E10 & E11 & _) [F1 F2]. split; intros; rewrite ?E10, ?E11; auto.
Qed.

Lemma veq_ack r x s : veq s (ack r x s).
Proof. destruct r; repeat split. Qed.

Lemma res_of_sync s0 o :
  o = ONext \/ o = OReturn \/ (exists x, o = OReturnV x) \/ (exists e, o = ORaise e /\ e <> ECancelled) ->
  res_of s0 o = Some (sync_res o).
Proof.
  intros [-> | [-> | [[x ->] | (e & -> & He)]]]; try reflexivity. destruct e; reflexivity.
Qed.

Lemma idle_after (kd : mkind) l o :
  o = ONext \/ o = OReturn \/ (exists x, o = OReturnV x) \/ (exists e, o = ORaise e) -> phase_after kd l o = Some Idle.
Proof. intros [-> | [-> | [[x ->] | [e ->]]]]; destruct kd; reflexivity. Qed.

(* ---- the synchronous calls ---- *)
Theorem tie_send_nowait s t h x :
  phase_of s t = Idle -> valid_h s h SSend = true -> Nat.ltb x (nitem s) = false ->
  runs s (fst (step s (SendNowait t h x))) (snd (step s (SendNowait t h x))) h t KPlain
       snd_send_nowait_entry (loc0 (Some x)).
Proof.
  intros Hp Hv Hx. cbn [step]. rewrite Hp, Hv, Hx. cbn [is_idle negb orb].
  set (s1 := set_nitem s (S x)).
  destruct (send_nowait_sim s1 h x (vis s h) t (sim_vis s1 h) (fun w => eq_refl))
    as (l' & k' & o & Hex & Hs & Hr & Ho & Hf & Hph & Hnh & _).
  unfold runs. destruct (exec snd_send_nowait_entry t (loc0 (Some x)) (vis s h)) as [[l0 k0] o0] eqn:Eex.
  pose proof (eq_trans (eq_sym Eex) Hex) as Eq. inversion Eq; subst l0 k0 o0. clear Eq.
  destruct (send_nowait s1 h x) as [s2 r] eqn:E. cbn [fst snd] in *.
  refine (conj _ (conj _ (conj _ _))).
  - apply shows_iff. split; [apply (veq_sim s2), Hs; apply veq_ack | apply (veq_frame s s2); [apply veq_ack | exact Hf]].
  - rewrite res_of_sync; [now rewrite Hr|]. destruct Ho as [-> | [-> | (e & -> & He)]]; eauto 6.
  - rewrite idle_after; [|destruct Ho as [-> | [-> | (e & -> & He)]]; eauto 6].
    destruct (veq_ack r x s2) as (_ & _ & _ & _ & _ & _ & _ & _ & _ & _ & _ & _ & E'). rewrite E', Hph. cbn. now rewrite Hp.
  - intros t' _. destruct (veq_ack r x s2) as (_ & _ & _ & _ & _ & _ & _ & _ & _ & _ & _ & _ & E'). now rewrite E', Hph.
Qed.

Theorem tie_recv_nowait s t h :
  phase_of s t = Idle -> valid_h s h SRecv = true ->
  runs s (fst (step s (RecvNowait t h))) (snd (step s (RecvNowait t h))) h t KPlain
       rcv_receive_nowait_entry (loc0 None).
Proof.
  intros Hp Hv. cbn [step]. rewrite Hp, Hv. cbn [is_idle negb orb].
  destruct (recv_nowait_sim s h (vis s h) t (sim_vis s h)) as (l' & k' & o & Hex & Hs & Hr & Ho & Hf & Hph & Hnh).
  unfold runs. destruct (exec rcv_receive_nowait_entry t (loc0 None) (vis s h)) as [[l0 k0] o0] eqn:Eex.
  inversion Hex; subst l0 k0 o0.
  refine (conj _ (conj _ (conj _ _))).
  - apply shows_iff. auto.
  - rewrite res_of_sync; [now rewrite Hr|]. destruct Ho as [[x ->] | (e & -> & He)]; eauto 6.
  - rewrite idle_after; [|destruct Ho as [[x ->] | (e & -> & He)]; eauto 6]. rewrite Hph. now rewrite Hp.
  - intros t' _. now rewrite Hph.
Qed.

(* send() / receive() begin with a full checkpoint: the entry segment is that suspension *)
Theorem tie_send_entry s t h x :
  phase_of s t = Idle -> valid_h s h SSend = true -> Nat.ltb x (nitem s) = false ->
  runs s (fst (step s (Send t h x))) (snd (step s (Send t h x))) h t (KSend h x) snd_send_entry (loc0 (Some x)).
Proof.
  intros Hp Hv Hx. cbn [step]. rewrite Hp, Hv, Hx. cbn [is_idle negb orb].
  unfold runs, snd_send_entry. cbn. repeat split; intros; auto; rewrite ?upd_same; try reflexivity.
  now rewrite upd_other by auto.
Qed.

Theorem tie_recv_entry s t h :
  phase_of s t = Idle -> valid_h s h SRecv = true ->
  runs s (fst (step s (Recv t h))) (snd (step s (Recv t h))) h t (KRecv h) rcv_receive_entry (loc0 None).
Proof.
  intros Hp Hv. cbn [step]. rewrite Hp, Hv. cbn [is_idle negb orb].
  unfold runs, rcv_receive_entry. cbn. repeat split; intros; auto; rewrite ?upd_same; try reflexivity.
  now rewrite upd_other by auto.
Qed.

(* ---- wake-ups ---- *)
Lemma exec_try a x h els t l k :
  exec (STry a x h els) t l k =
  let '(l1, k1, o) := exec a t l k in
  match o with
  | ONext => exec els t l1 k1
  | ORaise y => if exn_eqb y x then exec h t l1 k1 else (l1, k1, o)
  | _ => (l1, k1, o)
  end.
Proof. reflexivity. Qed.

Lemma exec_call b t l k :
  exec (SCall b) t l k =
  let '(_, k1, o) := exec b t (loc0 (l_item l)) k in
  match o with
  | ONext | OReturn => (l, k1, ONext)
  | ORaise x => (l, k1, ORaise x)
  | _ => (l, k1, OStuck)
  end.
Proof. reflexivity. Qed.

Lemma exec_return_call b t l k :
  exec (SReturnCall b) t l k =
  let '(_, k1, o) := exec b t (loc0 (l_item l)) k in
  match o with
  | ONext | OReturn => (l, k1, OReturn)
  | OReturnV x => (l, k1, OReturnV x)
  | ORaise x => (l, k1, ORaise x)
  | _ => (l, k1, OStuck)
  end.
Proof. reflexivity. Qed.

Lemma finish_veq_phase s t : phase_of (finish s t) t = Idle /\ forall t', t' <> t -> phase_of (finish s t) t' = phase_of s t'.
Proof. cbn. split; [apply upd_same | intros; now apply upd_other]. Qed.

(* the checkpoint of send() was interrupted (Task._must_cancel): the exception propagates *)
Theorem tie_send_ck_cancelled s t h x : phase_of s t = SendCk h x -> mustc s t = true ->
  runs (finish s t) (fst (step s (Resume t))) (snd (step s (Resume t))) h t (KSend h x)
       snd_send_ck_cancelled (loc_resume (Some x) None false (Some ECancelled)).
Proof.
  intros Hp Hm. cbn [step]. rewrite Hp, Hm. unfold runs, snd_send_ck_cancelled. cbn [exec loc_resume l_exc fst snd].
  refine (conj _ (conj eq_refl (conj _ _))).
  - apply shows_iff. split; [apply sim_vis | apply frame_refl].
  - cbn. now rewrite upd_same.
  - auto.
Qed.

(* after the checkpoint: send_nowait; on WouldBlock enqueue (event, item) and wait *)
Theorem tie_send_ck_resumed s t h x : phase_of s t = SendCk h x -> mustc s t = false ->
  runs (finish s t) (fst (step s (Resume t))) (snd (step s (Resume t))) h t (KSend h x)
       snd_send_ck_resumed (loc_resume (Some x) None false None).
Proof.
  intros Hp Hm. cbn [step]. rewrite Hp, Hm. set (s0 := finish s t).
  destruct (send_nowait_sim s0 h x (vis s0 h) t (sim_vis s0 h) (fun w => eq_refl))
    as (l' & k' & o & Hex & Hs & Hr & Ho & Hf & Hph & Hnh & Hpe).
  unfold runs, snd_send_ck_resumed. rewrite exec_try, exec_call. cbn [l_item loc_resume].
  destruct (exec snd_send_nowait_entry t (loc0 (Some x)) (vis s0 h)) as [[l1 k1] o1] eqn:Eex.
  assert (Eq : (l1, k1, o1) = (l', k', o)) by (first [exact Hex | exact (eq_trans (eq_sym Eex) Hex)]).
  inversion Eq; subst l1 k1 o1. clear Eq.
  destruct (send_nowait s0 h x) as [s1 r] eqn:E. cbn [fst snd] in *.
  destruct (finish_veq_phase s t) as [Hpt Hpo]. fold s0 in Hpt, Hpo.
  pose proof Hs as (H1 & H2 & H3 & H4 & H5 & H6 & H7 & H8 & H9 & H10).
  destruct Ho as [-> | [-> | (e & -> & He)]]; cbn in Hr; subst r.
  - cbn [exec fst snd]. refine (conj _ (conj eq_refl (conj _ _))).
    + apply shows_iff. split; [apply (veq_sim s1), Hs; apply veq_ack | apply (veq_frame s0 s1); [apply veq_ack | exact Hf]].
    + cbn. rewrite Hph. now rewrite Hpt.
    + intros t' Ht. cbn. now rewrite Hph.
  - cbn [exec fst snd]. refine (conj _ (conj eq_refl (conj _ _))).
    + apply shows_iff. split; [apply (veq_sim s1), Hs; apply veq_ack | apply (veq_frame s0 s1); [apply veq_ack | exact Hf]].
    + cbn. rewrite Hph. now rewrite Hpt.
    + intros t' Ht. cbn. now rewrite Hph.
  - destruct e; try contradiction; cbn [exn_eqb sync_res fst snd].
    + (* WouldBlock: enqueue and wait *)
      cbn -[upd]. rewrite upd_same. cbn -[upd].
      refine (conj _ (conj eq_refl (conj _ _))).
      * apply shows_iff. split.
        -- unfold sim, enq_sender. cbn -[upd]. rewrite <- H9, H6.
           repeat split; auto; intros e'; unfold upd; destruct (Nat.eqb e' (nev s1)); auto.
        -- destruct Hf as [F1 F2]. split; intros; cbn; [apply F1 | apply F2]; auto.
      * cbn -[upd]. rewrite upd_same. now rewrite H9.
      * intros t' Ht. cbn -[upd]. rewrite upd_other by auto. now rewrite Hph.
    + refine (conj _ (conj eq_refl (conj _ _))).
      * apply shows_iff. split; [exact Hs | exact Hf].
      * cbn. rewrite Hph. now rewrite Hpt.
      * intros t' Ht. cbn. now rewrite Hph.
    + refine (conj _ (conj eq_refl (conj _ _))).
      * apply shows_iff. split; [exact Hs | exact Hf].
      * cbn. rewrite Hph. now rewrite Hpt.
      * intros t' Ht. cbn. now rewrite Hph.
    + refine (conj _ (conj eq_refl (conj _ _))).
      * apply shows_iff. split; [exact Hs | exact Hf].
      * cbn. rewrite Hph. now rewrite Hpt.
      * intros t' Ht. cbn. now rewrite Hph.
Qed.

(* send(): send_event.wait() raised (the waiter future was cancelled, or it was resolved and Task._must_cancel is set):
   the own entry is dropped if still there, the exception propagates *)
Theorem tie_send_event_cancelled s t e x : phase_of s t = SendWait e x ->
  fut s e = FCancelled \/ (fut s e = FSet /\ mustc s t = true) ->
  forall h, runs (finish s t) (fst (step s (Resume t))) (snd (step s (Resume t))) h t (KSend h x)
       snd_send_event_cancelled (loc_resume (Some x) (Some e) false (Some ECancelled)).
Proof.
  intros Hp Hc h.
  assert (Hstep : step s (Resume t) = (finish (drop_sender s e x) t, RCancelled)).
  { cbn [step]. rewrite Hp. destruct Hc as [-> | [-> ->]]; reflexivity. }
  rewrite Hstep. unfold runs, snd_send_event_cancelled. cbn -[upd].
  refine (conj _ (conj eq_refl (conj _ _))).
  - apply shows_iff. split; [|split; intros; unfold drop_sender; destruct (has_key e (senders s)); reflexivity].
    unfold sim, drop_sender. destruct (has_key e (senders s)) eqn:Ek; cbn; repeat split; auto.
    now rewrite del_key_absent.
  - cbn. now rewrite upd_same.
  - intros t' Ht. cbn. unfold drop_sender. destruct (has_key e (senders s)); cbn; reflexivity.
Qed.

(* send(): send_event.wait() returned: an entry that is still queued means the event was set by close() of the last
   receive stream -> BrokenResourceError; otherwise a receiver took the item *)
Theorem tie_send_event_resumed s t e x : phase_of s t = SendWait e x -> fut s e = FSet -> mustc s t = false ->
  forall h, runs (finish s t) (fst (step s (Resume t))) (snd (step s (Resume t))) h t (KSend h x)
       snd_send_event_resumed (loc_resume (Some x) (Some e) false None).
Proof.
  intros Hp Hf Hm h. cbn [step]. rewrite Hp, Hf, Hm.
  unfold runs, snd_send_event_resumed, drop_sender. cbn -[upd].
  destruct (has_key e (senders s)) eqn:Ek; cbn -[upd]; rewrite ?Ek; cbn -[upd];
    (refine (conj _ (conj eq_refl (conj _ _)));
     [ apply shows_iff; split; [repeat split | split; intros; reflexivity]
     | cbn; now rewrite upd_same
     | intros t' Ht; reflexivity ]).
Qed.

(* ---- receive() ---- *)
Theorem tie_recv_ck_cancelled s t h : phase_of s t = RecvCk h -> mustc s t = true ->
  runs (finish s t) (fst (step s (Resume t))) (snd (step s (Resume t))) h t (KRecv h)
       rcv_receive_ck_cancelled (loc_resume None None false (Some ECancelled)).
Proof.
  intros Hp Hm. cbn [step]. rewrite Hp, Hm. unfold runs, rcv_receive_ck_cancelled. cbn [exec loc_resume l_exc fst snd].
  refine (conj _ (conj eq_refl (conj _ _))).
  - apply shows_iff. split; [apply sim_vis | apply frame_refl].
  - cbn. now rewrite upd_same.
  - auto.
Qed.

Theorem tie_recv_ck_resumed s t h : phase_of s t = RecvCk h -> mustc s t = false ->
  runs (finish s t) (fst (step s (Resume t))) (snd (step s (Resume t))) h t (KRecv h)
       rcv_receive_ck_resumed (loc_resume None None false None).
Proof.
  intros Hp Hm. cbn [step]. rewrite Hp, Hm. set (s0 := finish s t).
  destruct (recv_nowait_sim s0 h (vis s0 h) t (sim_vis s0 h)) as (l' & k' & o & Hex & Hs & Hr & Ho & Hf & Hph & Hnh).
  unfold runs, rcv_receive_ck_resumed. rewrite exec_try, exec_return_call. cbn [l_item loc_resume].
  destruct (exec rcv_receive_nowait_entry t (loc0 None) (vis s0 h)) as [[l1 k1] o1] eqn:Eex.
  assert (Eq : (l1, k1, o1) = (l', k', o)) by (first [exact Hex | exact (eq_trans (eq_sym Eex) Hex)]).
  inversion Eq; subst l1 k1 o1. clear Eq.
  destruct (recv_nowait s0 h) as [s1 r] eqn:E. cbn [fst snd] in *.
  destruct (finish_veq_phase s t) as [Hpt Hpo]. fold s0 in Hpt, Hpo.
  pose proof Hs as (H1 & H2 & H3 & H4 & H5 & H6 & H7 & H8 & H9 & H10).
  destruct Ho as [[y ->] | (e & -> & He)]; cbn in Hr; subst r.
  - cbn [fst snd]. refine (conj _ (conj eq_refl (conj _ _))).
    + apply shows_iff. split; [exact Hs | exact Hf].
    + cbn. rewrite Hph. now rewrite Hpt.
    + intros t' Ht. now rewrite Hph.
  - destruct e; try contradiction; cbn [exn_eqb sync_res fst snd].
    + cbn -[upd]. rewrite upd_same. cbn -[upd].
      refine (conj _ (conj eq_refl (conj _ _))).
      * apply shows_iff. split.
        -- unfold sim, enq_receiver. cbn -[upd]. rewrite <- H9, H5.
           repeat split; auto; intros e'; unfold upd; destruct (Nat.eqb e' (nev s1)); auto.
        -- destruct Hf as [F1 F2]. split; intros; cbn; [apply F1 | apply F2]; auto.
      * cbn -[upd]. rewrite upd_same. now rewrite H9.
      * intros t' Ht. cbn -[upd]. rewrite upd_other by auto. now rewrite Hph.
    + refine (conj _ (conj eq_refl (conj _ _))).
      * apply shows_iff. split; [exact Hs | exact Hf].
      * cbn. rewrite Hph. now rewrite Hpt.
      * intros t' Ht. cbn. now rewrite Hph.
    + refine (conj _ (conj eq_refl (conj _ _))).
      * apply shows_iff. split; [exact Hs | exact Hf].
      * cbn. rewrite Hph. now rewrite Hpt.
      * intros t' Ht. cbn. now rewrite Hph.
    + refine (conj _ (conj eq_refl (conj _ _))).
      * apply shows_iff. split; [exact Hs | exact Hf].
      * cbn. rewrite Hph. now rewrite Hpt.
      * intros t' Ht. cbn. now rewrite Hph.
Qed.

(* receive(): the finally block drops the own entry; the exception propagates (an item that had been put into the
   receiver is gone with it: ghost `lose`) *)
Theorem tie_recv_event_cancelled s t e : phase_of s t = RecvWait e ->
  fut s e = FCancelled \/ (fut s e = FSet /\ mustc s t = true) ->
  forall h, runs (finish s t) (fst (step s (Resume t))) (snd (step s (Resume t))) h t (KRecv h)
       rcv_receive_event_cancelled (loc_resume None (Some e) true (Some ECancelled)).
Proof.
  intros Hp Hc h.
  assert (Hstep : step s (Resume t) = (finish (lose (pop_receiver s e) e) t, RCancelled)).
  { cbn [step]. rewrite Hp. destruct Hc as [-> | [-> ->]]; reflexivity. }
  rewrite Hstep. unfold runs, rcv_receive_event_cancelled, lose, pop_receiver. cbn -[upd].
  destruct (slot s e); cbn -[upd];
    (refine (conj _ (conj eq_refl (conj _ _)));
     [ apply shows_iff; split; [repeat split | split; intros; reflexivity]
     | cbn; now rewrite upd_same
     | intros t' Ht; reflexivity ]).
Qed.

(* receive(): drops the own entry, returns receiver.item, or EndOfStream when the event was set by close() *)
Theorem tie_recv_event_resumed s t e : phase_of s t = RecvWait e -> fut s e = FSet -> mustc s t = false ->
  forall h, runs (finish s t) (fst (step s (Resume t))) (snd (step s (Resume t))) h t (KRecv h)
       rcv_receive_event_resumed (loc_resume None (Some e) true None).
Proof.
  intros Hp Hf Hm h. cbn [step]. rewrite Hp, Hf, Hm.
  unfold runs, rcv_receive_event_resumed, give, pop_receiver. cbn -[upd].
  destruct (slot s e); cbn -[upd];
    (refine (conj _ (conj eq_refl (conj _ _)));
     [ apply shows_iff; split; [repeat split | split; intros; reflexivity]
     | cbn; now rewrite upd_same
     | intros t' Ht; reflexivity ]).
Qed.

(* ---- clone / close ---- *)
Theorem tie_clone s h t : Nat.ltb h (nh s) = true -> phase_of s t = Idle ->
  runs s (fst (step s (Clone h))) (snd (step s (Clone h))) h t KPlain
       (match hside s h with SSend => snd_clone_entry | SRecv => rcv_clone_entry end) (loc0 None).
Proof.
  intros Hh Hp.
  cbn [step]. rewrite Hh. cbn [negb]. apply Nat.ltb_lt in Hh.
  assert (Hne : h <> nh s) by lia.
  unfold runs, do_clone. destruct (hside s h) eqn:Hsd; unfold snd_clone_entry, rcv_clone_entry; cbn -[upd];
    destruct (hclosed s h) eqn:Hc; cbn -[upd];
    (refine (conj _ (conj eq_refl (conj _ _)));
     [ apply shows_iff; split;
       [ repeat split; cbn -[upd]; auto; rewrite ?upd_other by auto; auto
       | split; intros; cbn -[upd]; rewrite ?upd_other by auto; reflexivity ]
     | cbn; now rewrite Hp
     | intros; reflexivity ]).
Qed.

(* `for event in events: event.set()` sets the events one by one; the model uses MemStream.set_keys *)
Lemma for_keys_set (run : mloc -> mheap -> result) :
  (forall l k e, exists l', run (with_ev l e) k = (l', up_fut k (upd (m_fut k) e (ev_set (m_fut k e))) (m_nev k), ONext)) ->
  forall ks l k, exists l' F,
    for_keys run ks l k = (l', up_fut k F (m_nev k), ONext) /\ forall e, F e = set_keys (m_fut k) ks e.
Proof.
  intros Hrun. induction ks as [|a r IH]; intros l k.
  - exists l, (m_fut k). split; [destruct k; reflexivity | reflexivity].
  - cbn [for_keys]. destruct (Hrun l k a) as (l1 & Hr). rewrite Hr.
    destruct (IH l1 (up_fut k (upd (m_fut k) a (ev_set (m_fut k a))) (m_nev k))) as (l2 & F & Hex & HF).
    exists l2, F. split; [rewrite Hex; reflexivity|].
    intros e. rewrite HF. unfold set_keys. cbn [m_fut up_fut mem existsb].
    unfold upd. rewrite (Nat.eqb_sym e a). destruct (Nat.eqb a e) eqn:Eae; cbn [orb].
    + apply Nat.eqb_eq in Eae. subst a. destruct (mem e r); [destruct (m_fut k e); reflexivity | reflexivity].
    + reflexivity.
Qed.

Theorem tie_close s h t : Nat.ltb h (nh s) = true -> phase_of s t = Idle ->
  runs s (fst (step s (Close h))) (snd (step s (Close h))) h t KPlain
       (match hside s h with SSend => snd_close_entry | SRecv => rcv_close_entry end) (loc0 None).
Proof.
  intros Hh Hp. cbn [step]. rewrite Hh. cbn [negb]. apply Nat.ltb_lt in Hh.
  assert (Hne : h <> nh s) by lia.
  unfold runs, do_close. destruct (hside s h) eqn:Hsd; unfold snd_close_entry, rcv_close_entry.
  - match goal with |- context [SForKeys ?b] => remember (SForKeys b) as W eqn:HW end.
    cbn -[upd set_keys]. destruct (hclosed s h) eqn:Hc; cbn -[upd set_keys].
    { refine (conj _ (conj eq_refl (conj _ _))); [apply shows_iff; split; [repeat split; auto | apply frame_refl] | cbn; now rewrite Hp | auto]. }
    destruct (Nat.eqb (pred (open_send s)) 0) eqn:Ez; cbn -[upd set_keys].
    + subst W. cbn [exec l_keys].
      match goal with |- context [for_keys ?rn ?kk ?l0 ?k0] =>
        destruct (for_keys_set rn) with (ks := kk) (l := l0) (k := k0) as (l1 & F & Hex & HF) end.
      { intros l0 k0 e. cbn. eexists. reflexivity. }
      rewrite Hex. cbn -[upd set_keys].
      refine (conj _ (conj eq_refl (conj _ _))).
      * apply shows_iff. split.
        -- unfold sim. cbn -[upd set_keys]. rewrite upd_same. repeat split; auto; try (intros e; now rewrite HF).
        -- split; intros; cbn -[upd]; rewrite ?upd_other by auto; reflexivity.
      * cbn. now rewrite Hp.
      * auto.
    + refine (conj _ (conj eq_refl (conj _ _))).
      * apply shows_iff. split.
        -- unfold sim. cbn -[upd]. rewrite upd_same. repeat split; auto.
        -- split; intros; cbn -[upd]; rewrite ?upd_other by auto; reflexivity.
      * cbn. now rewrite Hp.
      * auto.
  - match goal with |- context [SForKeys ?b] => remember (SForKeys b) as W eqn:HW end.
    cbn -[upd set_keys]. destruct (hclosed s h) eqn:Hc; cbn -[upd set_keys].
    { refine (conj _ (conj eq_refl (conj _ _))); [apply shows_iff; split; [repeat split; auto | apply frame_refl] | cbn; now rewrite Hp | auto]. }
    destruct (Nat.eqb (pred (open_recv s)) 0) eqn:Ez; cbn -[upd set_keys].
    + subst W. cbn [exec l_keys].
      match goal with |- context [for_keys ?rn ?kk ?l0 ?k0] =>
        destruct (for_keys_set rn) with (ks := kk) (l := l0) (k := k0) as (l1 & F & Hex & HF) end.
      { intros l0 k0 e. cbn. eexists. reflexivity. }
      rewrite Hex. cbn -[upd set_keys].
      refine (conj _ (conj eq_refl (conj _ _))).
      * apply shows_iff. split.
        -- unfold sim. cbn -[upd set_keys]. rewrite upd_same. repeat split; auto; try (intros e; now rewrite HF).
        -- split; intros; cbn -[upd]; rewrite ?upd_other by auto; reflexivity.
      * cbn. now rewrite Hp.
      * auto.
    + refine (conj _ (conj eq_refl (conj _ _))).
      * apply shows_iff. split.
        -- unfold sim. cbn -[upd]. rewrite upd_same. repeat split; auto.
        -- split; intros; cbn -[upd]; rewrite ?upd_other by auto; reflexivity.
      * cbn. now rewrite Hp.
      * auto.
Qed.

(* ---- every transition of the model that runs stream code is the interpretation of the generated segment ---- *)
Theorem step_runs_generated s o s0 h ot kd p l0 :
  dispatch mem_prog s o = Some (s0, h, ot, kd, p, l0) ->
  runs_opt s0 (fst (step s o)) (snd (step s o)) h ot kd p l0.
Proof.
  intros Hd.
  destruct o as [t h' x|t h'|t h' x|t h'|h'|h'|t|t|t|t]; cbn [dispatch mem_prog p_send_nowait p_send_entry
    p_send_ck_resumed p_send_ck_cancelled p_send_event_resumed p_send_event_cancelled p_send_clone p_send_close
    p_recv_nowait p_recv_entry p_recv_ck_resumed p_recv_ck_cancelled p_recv_event_resumed p_recv_event_cancelled
    p_recv_clone p_recv_close] in Hd; try discriminate.
  - destruct (phase_of s t) eqn:Hp; cbn [is_idle negb orb] in Hd; try discriminate.
    destruct (valid_h s h' SSend) eqn:Hv; cbn [negb orb] in Hd; try discriminate.
    destruct (Nat.ltb x (nitem s)) eqn:Hx; try discriminate. inversion Hd; subst. now apply tie_send_nowait.
  - destruct (phase_of s t) eqn:Hp; cbn [is_idle negb orb] in Hd; try discriminate.
    destruct (valid_h s h' SRecv) eqn:Hv; cbn [negb orb] in Hd; try discriminate.
    inversion Hd; subst. now apply tie_recv_nowait.
  - destruct (phase_of s t) eqn:Hp; cbn [is_idle negb orb] in Hd; try discriminate.
    destruct (valid_h s h' SSend) eqn:Hv; cbn [negb orb] in Hd; try discriminate.
    destruct (Nat.ltb x (nitem s)) eqn:Hx; try discriminate. inversion Hd; subst. now apply tie_send_entry.
  - destruct (phase_of s t) eqn:Hp; cbn [is_idle negb orb] in Hd; try discriminate.
    destruct (valid_h s h' SRecv) eqn:Hv; cbn [negb orb] in Hd; try discriminate.
    inversion Hd; subst. now apply tie_recv_entry.
  - destruct (Nat.ltb h' (nh s)) eqn:Hh; cbn [negb] in Hd; try discriminate. inversion Hd; subst.
    intros t Ht. now apply tie_clone.
  - destruct (Nat.ltb h' (nh s)) eqn:Hh; cbn [negb] in Hd; try discriminate. inversion Hd; subst.
    intros t Ht. now apply tie_close.
  - destruct (phase_of s t) as [|hh x|e x|hh|e] eqn:Hp; try discriminate.
    + destruct (mustc s t) eqn:Hm; inversion Hd; subst; [now apply tie_send_ck_cancelled | now apply tie_send_ck_resumed].
    + destruct (fut s e) eqn:Hf; try discriminate; cbn [is_cancelled orb] in Hd.
      * destruct (mustc s t) eqn:Hm; inversion Hd; subst; cbn [runs_opt].
        -- apply tie_send_event_cancelled; auto.
        -- now apply tie_send_event_resumed.
      * inversion Hd; subst. apply tie_send_event_cancelled; auto.
    + destruct (mustc s t) eqn:Hm; inversion Hd; subst; [now apply tie_recv_ck_cancelled | now apply tie_recv_ck_resumed].
    + destruct (fut s e) eqn:Hf; try discriminate; cbn [is_cancelled orb] in Hd.
      * destruct (mustc s t) eqn:Hm; inversion Hd; subst; cbn [runs_opt].
        -- apply tie_recv_event_cancelled; auto.
        -- now apply tie_recv_event_resumed.
      * inversion Hd; subst. apply tie_recv_event_cancelled; auto.
Qed.

Lemma grun_reach m s : grun mem_prog m s -> reach m s.
Proof.
  induction 1 as [|s o s0 h ot kd p l0 _ IH _ _|s o _ IH _].
  - exists []. reflexivity.
  - now apply reach_step.
  - now apply reach_step.
Qed.

(* the whole machine: a state is reachable in the model iff it is reachable by running the generated segments *)
Theorem grun_iff_reach m s : grun mem_prog m s <-> reach m s.
Proof.
  split; [apply grun_reach|].
  intros [ops ->]. induction ops as [|o r IH] using rev_ind.
  - apply grun_init.
  - rewrite final_app. cbn.
    destruct (dispatch mem_prog (final step (init m) r) o) as [[[[[[s0 h] ot] kd] p] l0]|] eqn:Hd.
    + eapply grun_code; [exact IH | exact Hd |]. now apply step_runs_generated.
    + now apply grun_env.
Qed.

(* ---- C08 rows 10-13 on the regenerated code: send() / receive() called from an effectively cancelled scope raise
   the cancellation at their first statement (a full checkpoint) and touch nothing ---- *)
Theorem cancelled_entry_noeffect s h t x :
  (exists l, exec snd_send_entry t (loc_cancelled (Some x)) (vis s h) = (l, vis s h, OCancelled)) /\
  (exists l, exec rcv_receive_entry t (loc_cancelled None) (vis s h) = (l, vis s h, OCancelled)).
Proof. unfold snd_send_entry, rcv_receive_entry. cbn. split; eexists; reflexivity. Qed.

(* ---- the C12 / C13 clauses for runs of the generated code ---- *)
Theorem gen_conservation m s : grun mem_prog m s ->
  Permutation (entered s)
    (returned s ++ map snd (inflight s) ++ lost s ++ buffer s ++ map snd (senders s) ++ withdrawn s) /\
  NoDup (entered s) /\ NoDup (returned s) /\ (forall x, In x (returned s) -> In x (entered s)).
Proof.
  intros R. apply grun_reach in R. destruct (ms_conservation m s R) as (H1 & H2 & _).
  destruct (ms_no_dup_no_invention m s R) as (H3 & H4). auto.
Qed.

Theorem gen_fifo m s : grun mem_prog m s ->
  subseq (handed s ++ buffer s ++ map snd (senders s)) (entered s) /\ xle (length (buffer s)) m.
Proof. intros R. apply grun_reach in R. split; [now apply (ms_fifo m) | now apply ms_buffer_bound]. Qed.

Theorem gen_close_wakes_all m s : grun mem_prog m s ->
  (open_send s = 0 -> forall t e, phase_of s t = RecvWait e ->
     fut s e <> FPending /\ snd (step s (Resume t)) <> RRejected /\ snd (step s (Resume t)) <> RBlocked) /\
  (open_recv s = 0 -> forall t e x, phase_of s t = SendWait e x ->
     fut s e <> FPending /\ snd (step s (Resume t)) <> RRejected /\ snd (step s (Resume t)) <> RBlocked) /\
  (receivers s <> [] -> buffer s = [] /\ senders s = []).
Proof. intros R. apply (ms_close_wakes_all m), grun_reach, R. Qed.

Theorem gen_invariant m s : grun mem_prog m s -> Inv s.
Proof. intros R. apply (reach_inv m), grun_reach, R. Qed.

(* ---- non-vacuity and sensitivity (vm_compute) ---- *)
Definition mfinal (m : xnat) (ops : list op) : st := final step (init m) ops.

Example ex_dispatch_send_wait :
  let s := mfinal (Fin 0) [Send 1 0 0; Resume 1] in
  phase_of s 1 = SendWait 0 0 /\ senders s = [(0, 0)] /\ dispatch mem_prog s (Resume 1) = None.
Proof. vm_compute. repeat split. Qed.
Example ex_dispatch_broken :
  let s := mfinal (Fin 0) [Send 1 0 0; Resume 1; Close 1] in
  fut s 0 = FSet /\ has_key 0 (senders s) = true /\
  match dispatch mem_prog s (Resume 1) with Some (_, _, _, _, p, _) => p = snd_send_event_resumed | None => False end /\
  snd (step s (Resume 1)) = RBroken.
Proof. vm_compute. repeat split. Qed.
Example ex_skip_pending_receiver :
  let s := mfinal (Fin 0) [Recv 1 1; Resume 1; Recv 2 1; Resume 2; Cancel 1; SendNowait 3 0 0] in
  receivers s = [] /\ slot s 1 = Some 0 /\ slot s 0 = None.
Proof. vm_compute. repeat split. Qed.
(* an effect in front of the checkpoint would be performed before the cancellation is raised: the heap changes and
   cancelled_entry_noeffect could not be proved for such a segment *)
Example ex_effect_before_checkpoint_is_visible :
  snd (exec (SSeq SBufAppend (SSuspend AwCheckpoint)) 1 (loc_cancelled (Some 0)) (vis (init (Fin 1)) 0)) = OCancelled /\
  m_buffer (snd (fst (exec (SSeq SBufAppend (SSuspend AwCheckpoint)) 1 (loc_cancelled (Some 0)) (vis (init (Fin 1)) 0)))) = [0].
Proof. vm_compute. split; reflexivity. Qed.

(* `runs` and `shows` written out *)
Theorem runs_spec s0 s' r h t kd p l0 :
  runs s0 s' r h t kd p l0 <->
  (let '(l, k, o) := exec p t l0 (vis s0 h) in
   (maxb s' = m_maxb k /\ buffer s' = m_buffer k /\ open_send s' = m_osend k /\ open_recv s' = m_orecv k /\
    receivers s' = m_recvs k /\ senders s' = m_sends k /\ (forall e, slot s' e = m_slot k e) /\
    (forall e, fut s' e = m_fut k e) /\ nev s' = m_nev k /\ hclosed s' h = m_closed k /\
    (forall h', h' <> h -> h' <> nh s0 -> hclosed s' h' = hclosed s0 h') /\
    (forall h', h' <> nh s0 -> hside s' h' = hside s0 h')) /\
   res_of s0 o = Some r /\ phase_after kd l o = Some (phase_of s' t) /\
   (forall t', t' <> t -> phase_of s' t' = phase_of s0 t')).
Proof. reflexivity. Qed.
