(* translator refused *)
From AV Require Import Base MemImp.
Definition refused : False := "translate_mem REFUSED: rcv_receive: line 118: unsupported await `await checkpoint_if_cancelled()`".
