(* Facts about one step of the Lock machine, in the form the Lru proofs use them:
   what a step by task t does to t's own standing in the lock and that it leaves everybody else alone. *)
From AV Require Import Base.
From AV Require Lock LockProofs.

Definition op_tid (o : Lock.op) : tid :=
  match o with
  | Lock.AcqBegin t | Lock.AcqNowait t | Lock.Release t | Lock.Resume t | Lock.Cancel t => t
  end.

(* c is inside an acquire() of L or holds L *)
Definition engaged (L : Lock.st) (c : tid) : Prop :=
  Lock.phase_of L c <> Lock.Idle \/ In c (Lock.held L).

Lemma phase_of_do_release s t : Lock.phase_of (Lock.do_release s t) = Lock.phase_of s.
Proof. unfold Lock.do_release. destruct (Lock.handoff _ _) as [[? ?] ?]. reflexivity. Qed.

Lemma held_do_release s t : Lock.held (Lock.do_release s t) = Lock.remove_tid t (Lock.held s).
Proof. unfold Lock.do_release. destruct (Lock.handoff _ _) as [[? ?] ?]. reflexivity. Qed.

Ltac lcrunch :=
  repeat match goal with
         | |- context [match ?x with _ => _ end] => destruct x eqn:?
         end.

Ltac lsimp :=
  cbn [fst snd Lock.phase_of Lock.held Lock.set_phase Lock.set_mustc Lock.add_held Lock.owner Lock.waiters
       Lock.futs Lock.nfut Lock.mustc Lock.enq Lock.fast negb] in *;
  rewrite ?phase_of_do_release, ?held_do_release in *;
  cbn [fst snd Lock.phase_of Lock.held Lock.set_phase Lock.set_mustc Lock.add_held Lock.owner Lock.waiters
       Lock.futs Lock.nfut Lock.mustc Lock.enq Lock.fast negb] in *.

(* a step by t does not touch the standing of any other task *)
Lemma lstep_other L o c :
  c <> op_tid o ->
  Lock.phase_of (fst (Lock.step L o)) c = Lock.phase_of L c /\
  (In c (Lock.held (fst (Lock.step L o))) <-> In c (Lock.held L)).
Proof.
  intros Hne. destruct o as [t|t|t|t|t]; cbn [op_tid] in Hne; cbn [Lock.step]; lcrunch; lsimp;
    rewrite ?upd_other by assumption;
    try (split; [reflexivity|]);
    try tauto;
    try (rewrite LockProofs.in_remove_tid; tauto);
    try (cbn; split; [intros [H|H]; [congruence|exact H] | intros H; right; exact H]).
Qed.

Lemma engaged_other L o c : c <> op_tid o -> engaged (fst (Lock.step L o)) c <-> engaged L c.
Proof.
  intros Hne. unfold engaged. destruct (lstep_other L o c Hne) as [-> ->]. tauto.
Qed.

Lemma not_engaged_idle L c : ~ engaged L c -> Lock.phase_of L c = Lock.Idle /\ ~ In c (Lock.held L).
Proof.
  unfold engaged. intros H. split; [|tauto].
  destruct (Lock.phase_of L c) eqn:E; [reflexivity| |]; exfalso; apply H; left; congruence.
Qed.

Lemma not_engaged_not_owner L c : LockProofs.Inv L -> ~ engaged L c -> Lock.owner L <> Some c.
Proof.
  intros I H Ho. apply (LockProofs.I_owner L I) in Ho. apply H. unfold engaged.
  destruct Ho as [Hh|[Hf|(f & Hw & _)]]; [right; exact Hh | left; congruence | left; congruence].
Qed.

Lemma held_owner L c : LockProofs.Inv L -> In c (Lock.held L) ->
  Lock.owner L = Some c /\ Lock.phase_of L c = Lock.Idle.
Proof.
  intros I H. split; [apply (LockProofs.I_owner L I); left; exact H | apply (LockProofs.I_heldidle L I), H].
Qed.

Lemma held_unique L c1 c2 : LockProofs.Inv L -> In c1 (Lock.held L) -> In c2 (Lock.held L) -> c1 = c2.
Proof.
  intros I H1 H2. destruct (held_owner L c1 I H1) as [E1 _]. destruct (held_owner L c2 I H2) as [E2 _]. congruence.
Qed.

(* acquire() begun by a task that is not engaged: either it owns the lock at once or it is suspended inside *)
Lemma acq_begin_cases L c :
  LockProofs.Inv L -> ~ engaged L c ->
  let L' := fst (Lock.step L (Lock.AcqBegin c)) in
  (snd (Lock.step L (Lock.AcqBegin c)) = Lock.RDone /\ In c (Lock.held L')) \/
  (snd (Lock.step L (Lock.AcqBegin c)) = Lock.RBlocked /\ Lock.phase_of L' c <> Lock.Idle).
Proof.
  intros I Hn. pose proof (not_engaged_not_owner L c I Hn) as Hno.
  destruct (not_engaged_idle L c Hn) as [Hp Hh].
  cbn [Lock.step]. rewrite Hp. cbn [Lock.is_idle negb].
  destruct (Lock.owner L) as [ow|] eqn:Eo; destruct (Lock.waiters L) eqn:Ew.
  - destruct (Lock.tid_eqb_opt (Some ow) c) eqn:Et.
    + apply LockProofs.tid_eqb_opt_true in Et. congruence.
    + right. cbn. rewrite upd_same. split; [reflexivity|discriminate].
  - destruct (Lock.tid_eqb_opt (Some ow) c) eqn:Et.
    + apply LockProofs.tid_eqb_opt_true in Et. congruence.
    + right. cbn. rewrite upd_same. split; [reflexivity|discriminate].
  - destruct (Lock.fast L).
    + left. cbn. split; [reflexivity|now left].
    + right. cbn. rewrite upd_same. split; [reflexivity|discriminate].
  - cbn [Lock.tid_eqb_opt]. right. cbn. rewrite upd_same. split; [reflexivity|discriminate].
Qed.

(* the wake-up of a task suspended inside acquire() *)
Lemma resume_cases L c :
  LockProofs.Inv L -> Lock.phase_of L c <> Lock.Idle ->
  let L' := fst (Lock.step L (Lock.Resume c)) in
  let r := snd (Lock.step L (Lock.Resume c)) in
  (r = Lock.RDone /\ In c (Lock.held L')) \/
  (r = Lock.RCancelled /\ ~ engaged L' c) \/
  (r = Lock.RRejected /\ L' = L).
Proof.
  intros I Hp.
  assert (Hnh : ~ In c (Lock.held L)).
  { intros H. apply (LockProofs.I_heldidle L I) in H. contradiction. }
  assert (Hrel : forall L1, Lock.phase_of L1 = upd (Lock.phase_of L) c Lock.Idle -> Lock.held L1 = Lock.held L ->
                            ~ engaged (Lock.do_release L1 c) c).
  { intros L1 E1 E2 [H|H]; rewrite ?phase_of_do_release, ?held_do_release in H.
    - rewrite E1, upd_same in H. congruence.
    - apply LockProofs.in_remove_tid in H. tauto. }
  cbn [Lock.step]. destruct (Lock.phase_of L c) as [| |f] eqn:Ep; [congruence| |].
  - assert (Ho : Lock.owner L = Some c) by (apply (LockProofs.I_owner L I); right; left; exact Ep).
    destruct (Lock.mustc L c).
    + cbn [Lock.set_mustc Lock.set_phase Lock.owner]. rewrite Ho. cbn [Lock.tid_eqb_opt]. rewrite Nat.eqb_refl.
      right. left. cbn [fst snd]. split; [reflexivity|]. apply Hrel; reflexivity.
    + left. cbn. split; [reflexivity|now left].
  - destruct (Lock.futs L f) eqn:Ef.
    + right. right. split; reflexivity.
    + assert (Ho : Lock.owner L = Some c) by (apply (LockProofs.I_owner L I); right; right; eauto).
      destruct (Lock.mustc L c).
      * cbn [Lock.set_mustc Lock.set_phase Lock.owner]. rewrite Ho. cbn [Lock.tid_eqb_opt]. rewrite Nat.eqb_refl.
        right. left. cbn [fst snd]. split; [reflexivity|]. apply Hrel; reflexivity.
      * left. cbn. split; [reflexivity|now left].
    + right. left. cbn. split; [reflexivity|]. intros [H|H]; cbn in H.
      * rewrite upd_same in H. congruence.
      * contradiction.
Qed.

(* release() by a holder succeeds and leaves the holder outside the lock *)
Lemma release_holder L c :
  LockProofs.Inv L -> In c (Lock.held L) ->
  snd (Lock.step L (Lock.Release c)) = Lock.RDone /\ ~ engaged (fst (Lock.step L (Lock.Release c))) c.
Proof.
  intros I H. destruct (held_owner L c I H) as [Ho Hp].
  cbn [Lock.step]. rewrite Hp, Ho. cbn [Lock.is_idle negb Lock.tid_eqb_opt]. rewrite Nat.eqb_refl.
  cbn [fst snd]. split; [reflexivity|].
  intros [H1|H1]; rewrite ?phase_of_do_release, ?held_do_release in H1.
  - congruence.
  - apply LockProofs.in_remove_tid in H1. tauto.
Qed.

Lemma cancel_same L c :
  Lock.phase_of (fst (Lock.step L (Lock.Cancel c))) = Lock.phase_of L /\
  Lock.held (fst (Lock.step L (Lock.Cancel c))) = Lock.held L.
Proof.
  cbn [Lock.step]. destruct (Lock.phase_of L c) as [| |f]; [split; reflexivity|split; reflexivity|].
  destruct (Lock.futs L f); split; reflexivity.
Qed.

Lemma engaged_init fa c : ~ engaged (Lock.init fa) c.
Proof. intros [H|H]; cbn in H; [congruence|contradiction]. Qed.
