(* Lemmas about the ordered-dict operations and the counting functions used by the Lru proofs. *)
From AV Require Import Base Lru.
From Coq Require Import Sorting.Sorted.

Definition dget (k : key) (d : list slot) : option entry := option_map se (dfind k d).
Definition is_val (x : slot) : bool := negb (is_place (se x)).
Definition nval (d : list slot) : nat := length (filter is_val d).
Definition stamp_lt (a b : slot) : Prop := ss a < ss b.

Lemma dfind_some k d x : dfind k d = Some x -> sk x = k /\ In x d.
Proof.
  induction d as [|y r IH]; cbn; [discriminate|].
  destruct (Nat.eqb_spec (sk y) k) as [E|E].
  - intros [= <-]. auto.
  - intros H. destruct (IH H). auto.
Qed.

Lemma dget_some k d e : dget k d = Some e -> exists x, dfind k d = Some x /\ se x = e /\ sk x = k /\ In x d.
Proof.
  unfold dget. destruct (dfind k d) as [x|] eqn:E; cbn; [|discriminate].
  intros [= <-]. destruct (dfind_some k d x E). eauto.
Qed.

Lemma dget_find k d x : dfind k d = Some x -> dget k d = Some (se x).
Proof. unfold dget. now intros ->. Qed.

Lemma dget_none_find k d : dfind k d = None -> dget k d = None.
Proof. unfold dget. now intros ->. Qed.

Lemma dget_cons k x r : dget k (x :: r) = if Nat.eqb (sk x) k then Some (se x) else dget k r.
Proof. unfold dget. cbn. destruct (Nat.eqb (sk x) k); reflexivity. Qed.

Lemma dget_tl k x r : sk x <> k -> dget k r = dget k (x :: r).
Proof. intros H. rewrite dget_cons. destruct (Nat.eqb_spec (sk x) k); [contradiction|reflexivity]. Qed.

Lemma dget_app k' d k e st :
  dget k' (d ++ [mkslot k e st]) =
  match dget k' d with Some y => Some y | None => if Nat.eqb k k' then Some e else None end.
Proof.
  induction d as [|y r IH]; cbn [app].
  - rewrite dget_cons. cbn. destruct (Nat.eqb k k'); reflexivity.
  - rewrite !dget_cons. destruct (Nat.eqb (sk y) k'); [reflexivity|exact IH].
Qed.

Lemma dget_dset_in_same k e d :
  dget k (dset_in k e d) = match dget k d with Some _ => Some e | None => None end.
Proof.
  induction d as [|y r IH]; cbn [dset_in]; [reflexivity|].
  destruct (Nat.eqb (sk y) k) eqn:E.
  - rewrite !dget_cons. cbn [sk se]. rewrite Nat.eqb_refl, E. reflexivity.
  - rewrite !dget_cons, E. exact IH.
Qed.

Lemma dget_dset_in_other k' k e d : k' <> k -> dget k' (dset_in k e d) = dget k' d.
Proof.
  intros N. induction d as [|y r IH]; cbn [dset_in]; [reflexivity|].
  destruct (Nat.eqb_spec (sk y) k) as [E|E].
  - rewrite !dget_cons. cbn [sk se]. rewrite E.
    destruct (Nat.eqb_spec k k'); [congruence|reflexivity].
  - rewrite !dget_cons, IH. reflexivity.
Qed.

Lemma dget_dset_in k' k e d :
  dget k' (dset_in k e d) =
  if Nat.eqb k' k then match dget k d with Some _ => Some e | None => None end else dget k' d.
Proof.
  destruct (Nat.eqb_spec k' k) as [->|N]; [apply dget_dset_in_same|now apply dget_dset_in_other].
Qed.

Lemma dget_dremove k' k d : dget k' (dremove k d) = if Nat.eqb k' k then None else dget k' d.
Proof.
  induction d as [|y r IH]; cbn [dremove filter].
  - destruct (Nat.eqb k' k); reflexivity.
  - fold (dremove k r). destruct (Nat.eqb_spec (sk y) k) as [E|E]; cbn [negb].
    + rewrite IH, dget_cons, E. destruct (Nat.eqb_spec k' k) as [->|N]; [reflexivity|].
      destruct (Nat.eqb_spec k k'); [congruence|reflexivity].
    + rewrite !dget_cons, IH. destruct (Nat.eqb_spec (sk y) k') as [E'|E'].
      * destruct (Nat.eqb_spec k' k); [congruence|reflexivity].
      * reflexivity.
Qed.

Lemma dget_dmove k' k st d : dget k' (dmove k st d) = dget k' d.
Proof.
  unfold dmove. destruct (dfind k d) as [x|] eqn:E; [|reflexivity].
  rewrite dget_app, dget_dremove. destruct (Nat.eqb_spec k' k) as [->|N].
  - rewrite Nat.eqb_refl. symmetry. apply dget_find, E.
  - destruct (dget k' d); [reflexivity|]. destruct (Nat.eqb_spec k k'); [congruence|reflexivity].
Qed.

Lemma dget_dstore k' k e st d : dget k' (dstore k e st d) = if Nat.eqb k' k then Some e else dget k' d.
Proof.
  unfold dstore. destruct (dfind k d) as [x|] eqn:E.
  - rewrite dget_dset_in. destruct (Nat.eqb k' k); [|reflexivity]. now rewrite (dget_find k d x E).
  - rewrite dget_app. destruct (Nat.eqb_spec k' k) as [->|N].
    + rewrite (dget_none_find k d E), Nat.eqb_refl. reflexivity.
    + destruct (dget k' d); [reflexivity|]. destruct (Nat.eqb_spec k k'); [congruence|reflexivity].
Qed.

(* ---- membership ---- *)
Lemma in_dset_in x k e d : In x (dset_in k e d) -> In x d \/ (exists y, In y d /\ sk y = k /\ x = mkslot k e (ss y)).
Proof.
  induction d as [|y r IH]; cbn [dset_in]; [tauto|].
  destruct (Nat.eqb_spec (sk y) k) as [E|E].
  - intros [H|H]; [right; exists y; cbn; auto | left; right; exact H].
  - intros [H|H]; [left; left; exact H|].
    destruct (IH H) as [H1|(z & H1 & H2 & H3)]; [left; right; exact H1|right; exists z; cbn; auto].
Qed.

Lemma in_dremove x k d : In x (dremove k d) -> In x d /\ sk x <> k.
Proof.
  unfold dremove. rewrite filter_In. intros [H1 H2]. split; [exact H1|].
  destruct (Nat.eqb_spec (sk x) k); [discriminate|assumption].
Qed.

Lemma in_dmove x k st d :
  In x (dmove k st d) -> In x d \/ (exists y, In y d /\ sk y = k /\ x = mkslot k (se y) st).
Proof.
  unfold dmove. destruct (dfind k d) as [y|] eqn:E; [|tauto].
  intros H. apply in_app_or in H. destruct H as [H|[H|[]]].
  - left. apply (in_dremove x k d H).
  - right. destruct (dfind_some k d y E). exists y. auto.
Qed.

Lemma in_dstore x k e st d :
  In x (dstore k e st d) -> In x d \/ (sk x = k /\ se x = e /\ (ss x = st \/ exists y, In y d /\ ss x = ss y)).
Proof.
  unfold dstore. destruct (dfind k d) as [y|] eqn:E.
  - intros H. apply in_dset_in in H. destruct H as [H|(z & H1 & H2 & ->)]; [left; exact H|].
    right. cbn. eauto 6.
  - intros H. apply in_app_or in H. destruct H as [H|[<-|[]]]; [left; exact H|]. right. cbn. auto.
Qed.

(* ---- number of completed entries ---- *)
Lemma nval_app d x : nval (d ++ [x]) = nval d + (if is_val x then 1 else 0).
Proof.
  unfold nval. rewrite filter_app, app_length. cbn. destruct (is_val x); reflexivity.
Qed.

Lemma nval_cons x r : nval (x :: r) = (if is_val x then 1 else 0) + nval r.
Proof. unfold nval. cbn. destruct (is_val x); reflexivity. Qed.

Lemma nval_dremove k d : nval (dremove k d) <= nval d.
Proof.
  induction d as [|y r IH]; cbn [dremove filter]; [lia|]. fold (dremove k r).
  destruct (negb (Nat.eqb (sk y) k)); rewrite ?nval_cons; destruct (is_val y); lia.
Qed.

Lemma nval_dremove_found k d x :
  dfind k d = Some x -> nval (dremove k d) + (if is_val x then 1 else 0) <= nval d.
Proof.
  induction d as [|y r IH]; cbn [dfind dremove filter]; [discriminate|]. fold (dremove k r).
  destruct (Nat.eqb_spec (sk y) k) as [E|E]; cbn [negb].
  - intros [= <-]. rewrite nval_cons. pose proof (nval_dremove k r). destruct (is_val y); lia.
  - intros H. specialize (IH H). rewrite !nval_cons. destruct (is_val y); lia.
Qed.

Lemma nval_dmove k st d : nval (dmove k st d) <= nval d.
Proof.
  unfold dmove. destruct (dfind k d) as [x|] eqn:E; [|lia].
  rewrite nval_app. pose proof (nval_dremove_found k d x E). unfold is_val in *. cbn [se]. lia.
Qed.

Lemma nval_dset_in_place k l b d x :
  dfind k d = Some x -> is_val x = true -> nval (dset_in k (EPlace l b) d) + 1 <= nval d.
Proof.
  induction d as [|y r IH]; cbn [dfind dset_in]; [discriminate|].
  destruct (Nat.eqb_spec (sk y) k) as [E|E].
  - intros [= <-] Hv. rewrite !nval_cons, Hv. unfold is_val. cbn. lia.
  - intros H Hv. specialize (IH H Hv). rewrite !nval_cons. lia.
Qed.

Lemma nval_dset_in_val k e d : nval (dset_in k e d) <= nval d + 1.
Proof.
  induction d as [|y r IH]; cbn [dset_in]; [cbn; lia|].
  destruct (Nat.eqb (sk y) k); rewrite !nval_cons.
  - destruct (is_val _), (is_val y); lia.
  - lia.
Qed.

Lemma nval_dstore k e st d : nval (dstore k e st d) <= nval d + 1.
Proof.
  unfold dstore. destruct (dfind k d); [apply nval_dset_in_val|].
  rewrite nval_app. destruct (is_val _); lia.
Qed.

(* ---- stamps ---- *)
Lemma sorted_app_last d x :
  StronglySorted stamp_lt d -> (forall y, In y d -> ss y < ss x) -> StronglySorted stamp_lt (d ++ [x]).
Proof.
  induction 1 as [|y r Hs IH Hf]; intros Hb; cbn.
  - constructor; [constructor|constructor].
  - constructor.
    + apply IH. intros z Hz. apply Hb. now right.
    + rewrite Forall_forall in *. intros z Hz. apply in_app_or in Hz. destruct Hz as [Hz|[<-|[]]].
      * apply Hf, Hz.
      * apply Hb. now left.
Qed.

Lemma sorted_filter f d : StronglySorted stamp_lt d -> StronglySorted stamp_lt (filter f d).
Proof.
  induction 1 as [|y r Hs IH Hf]; cbn; [constructor|].
  destruct (f y); [|exact IH]. constructor; [exact IH|].
  rewrite Forall_forall in *. intros z Hz. apply filter_In in Hz. apply Hf, Hz.
Qed.

Lemma sorted_dset_in k e d : StronglySorted stamp_lt d -> StronglySorted stamp_lt (dset_in k e d).
Proof.
  induction 1 as [|y r Hs IH Hf]; cbn [dset_in]; [constructor|].
  destruct (Nat.eqb (sk y) k).
  - constructor; [exact Hs|]. rewrite Forall_forall in *. intros z Hz. unfold stamp_lt. cbn. apply Hf, Hz.
  - constructor; [exact IH|]. rewrite Forall_forall in *. intros z Hz.
    apply in_dset_in in Hz. destruct Hz as [Hz|(w & Hw & _ & ->)]; [apply Hf, Hz|].
    unfold stamp_lt. cbn. apply Hf, Hw.
Qed.

Lemma sorted_tl d : StronglySorted stamp_lt d -> StronglySorted stamp_lt (tl d).
Proof. destruct 1; cbn; [constructor|assumption]. Qed.

Lemma sorted_head_min x r y : StronglySorted stamp_lt (x :: r) -> In y (x :: r) -> ss x <= ss y.
Proof.
  intros H [<-|Hy]; [lia|]. inversion H as [|a b Hs Hf]; subst.
  rewrite Forall_forall in Hf. specialize (Hf y Hy). unfold stamp_lt in Hf. lia.
Qed.

(* ---- counting callers ---- *)
Definition cnt (f : nat -> bool) (l : list nat) : nat := length (filter f l).

Lemma cnt_ext f g l : (forall x, In x l -> f x = g x) -> cnt f l = cnt g l.
Proof.
  unfold cnt. induction l as [|a r IH]; cbn; [reflexivity|]. intros H.
  rewrite (H a) by now left. destruct (g a); cbn; rewrite IH; auto.
Qed.

Lemma cnt_upd {A} (g : A -> bool) (ph : nat -> A) c p l :
  NoDup l -> In c l ->
  cnt (fun x => g (upd ph c p x)) l + (if g (ph c) then 1 else 0) =
  cnt (fun x => g (ph x)) l + (if g p then 1 else 0).
Proof.
  unfold cnt. induction l as [|a r IH]; intros Hn Hin; [contradiction|].
  inversion Hn as [|a' r' Ha Hr]; subst. cbn [filter].
  destruct (Nat.eq_dec a c) as [->|Hne].
  - rewrite upd_same.
    assert (E : filter (fun x => g (upd ph c p x)) r = filter (fun x => g (ph x)) r).
    { apply filter_ext_in. intros x Hx. rewrite upd_other; [reflexivity|]. intros ->. contradiction. }
    rewrite E. destruct (g p), (g (ph c)); cbn; lia.
  - rewrite upd_other by assumption. destruct Hin as [Hin|Hin]; [contradiction|].
    specialize (IH Hr Hin). destruct (g (ph a)); cbn; lia.
Qed.

Lemma cnt_zero f l : (forall x, In x l -> f x = false) -> cnt f l = 0.
Proof.
  unfold cnt. induction l as [|a r IH]; cbn; [reflexivity|]. intros H.
  rewrite (H a) by now left. apply IH. intros x Hx. apply H. now right.
Qed.

(* ---- keys are unique ---- *)
Definition keys (d : list slot) : list key := map sk d.

Lemma keys_dset_in k e d : keys (dset_in k e d) = keys d.
Proof.
  unfold keys. induction d as [|y r IH]; cbn [dset_in map]; [reflexivity|].
  destruct (Nat.eqb_spec (sk y) k) as [E|E]; cbn [map sk]; [now rewrite E|now rewrite IH].
Qed.

Lemma dfind_none_keys k d : dfind k d = None -> ~ In k (keys d).
Proof.
  unfold keys. induction d as [|y r IH]; cbn; [tauto|].
  destruct (Nat.eqb_spec (sk y) k) as [E|E]; [discriminate|].
  intros H [H1|H1]; [contradiction|]. now apply IH.
Qed.

Lemma in_keys x d : In x d -> In (sk x) (keys d).
Proof. unfold keys. apply in_map. Qed.

Lemma nodup_app_one d k : NoDup (keys d) -> ~ In k (keys d) -> forall e st, NoDup (keys (d ++ [mkslot k e st])).
Proof.
  intros Hn Hk e st. unfold keys in *. rewrite map_app. cbn.
  induction (map sk d) as [|a r IH]; cbn.
  - constructor; [tauto|constructor].
  - inversion Hn as [|a' r' Ha Hr]; subst. constructor.
    + intros H. apply in_app_or in H. destruct H as [H|[H|[]]]; [contradiction|]. subst. apply Hk. now left.
    + apply IH; [exact Hr|]. intros H. apply Hk. now right.
Qed.

Lemma keys_dremove k d : keys (dremove k d) = filter (fun x => negb (Nat.eqb x k)) (keys d).
Proof.
  unfold keys, dremove. induction d as [|y r IH]; cbn; [reflexivity|].
  destruct (negb (Nat.eqb (sk y) k)); cbn; now rewrite IH.
Qed.

Lemma nodup_dmove k st d : NoDup (keys d) -> NoDup (keys (dmove k st d)).
Proof.
  intros Hn. unfold dmove. destruct (dfind k d) as [x|]; [|exact Hn].
  apply nodup_app_one.
  - rewrite keys_dremove. now apply NoDup_filter.
  - rewrite keys_dremove, filter_In. intros [_ H]. now rewrite Nat.eqb_refl in H.
Qed.

Lemma nodup_dstore k e st d : NoDup (keys d) -> NoDup (keys (dstore k e st d)).
Proof.
  intros Hn. unfold dstore. destruct (dfind k d) as [x|] eqn:E.
  - now rewrite keys_dset_in.
  - apply nodup_app_one; [exact Hn|now apply dfind_none_keys].
Qed.

Lemma dget_tl_nodup x r : NoDup (keys (x :: r)) -> dget (sk x) r = None.
Proof.
  intros Hn. inversion Hn as [|a l Ha Hl]; subst.
  destruct (dget (sk x) r) as [e|] eqn:E; [|reflexivity]. exfalso.
  destruct (dget_some _ _ _ E) as (y & _ & _ & Hk & Hin). apply Ha. rewrite <- Hk. apply in_keys, Hin.
Qed.

Lemma dget_tl_cases k x r : NoDup (keys (x :: r)) -> dget k r = dget k (x :: r) \/ dget k r = None.
Proof.
  intros Hn. destruct (Nat.eq_dec (sk x) k) as [<-|N]; [right; now apply dget_tl_nodup|left; now apply dget_tl].
Qed.


(* ---- counted placeholders, the ghost mark ---- *)
Definition is_cnt (x : slot) : bool := match se x with EPlace _ true => true | _ => false end.
Definition ncnt (d : list slot) : nat := length (filter is_cnt d).

Lemma ncnt_cons x r : ncnt (x :: r) = (if is_cnt x then 1 else 0) + ncnt r.
Proof. unfold ncnt. cbn. destruct (is_cnt x); reflexivity. Qed.

Lemma ncnt_app d x : ncnt (d ++ [x]) = ncnt d + (if is_cnt x then 1 else 0).
Proof. unfold ncnt. rewrite filter_app, app_length. cbn. destruct (is_cnt x); reflexivity. Qed.

Lemma ncnt_dremove_found k d x :
  dfind k d = Some x -> ncnt (dremove k d) + (if is_cnt x then 1 else 0) <= ncnt d.
Proof.
  induction d as [|y r IH]; cbn [dfind dremove filter]; [discriminate|]. fold (dremove k r).
  destruct (Nat.eqb_spec (sk y) k) as [E|E]; cbn [negb].
  - intros [= <-]. rewrite ncnt_cons.
    assert (H : ncnt (dremove k r) <= ncnt r).
    { clear. induction r as [|z r IH]; cbn [dremove filter]; [lia|]. fold (dremove k r).
      destruct (negb (Nat.eqb (sk z) k)); rewrite ?ncnt_cons; destruct (is_cnt z); lia. }
    destruct (is_cnt y); lia.
  - intros H. specialize (IH H). rewrite !ncnt_cons. destruct (is_cnt y); lia.
Qed.

Lemma ncnt_dmove k st d : ncnt (dmove k st d) <= ncnt d.
Proof.
  unfold dmove. destruct (dfind k d) as [x|] eqn:E; [|lia].
  rewrite ncnt_app. pose proof (ncnt_dremove_found k d x E). unfold is_cnt in *. cbn [se]. lia.
Qed.

(* replacing the entry of k: counts move by the difference between the old and the new entry *)
Lemma counts_dset_in k e d x :
  dfind k d = Some x ->
  nval (dset_in k e d) + (if is_val x then 1 else 0) = nval d + (if is_val (mkslot k e 0) then 1 else 0) /\
  ncnt (dset_in k e d) + (if is_cnt x then 1 else 0) = ncnt d + (if is_cnt (mkslot k e 0) then 1 else 0).
Proof.
  induction d as [|y r IH]; cbn [dfind dset_in]; [discriminate|].
  destruct (Nat.eqb_spec (sk y) k) as [E|E].
  - intros [= <-]. rewrite !nval_cons, !ncnt_cons. unfold is_val, is_cnt. cbn [se]. split; lia.
  - intros H. destruct (IH H) as [H1 H2]. rewrite !nval_cons, !ncnt_cons. split; lia.
Qed.

Lemma dset_in_absent k e d : dfind k d = None -> dset_in k e d = d.
Proof.
  induction d as [|y r IH]; cbn; [reflexivity|]. destruct (Nat.eqb (sk y) k); [discriminate|].
  intros H. now rewrite IH.
Qed.

Lemma keys_dmark k d : keys (dmark k d) = keys d.
Proof.
  unfold dmark. destruct (dfind k d) as [x|]; [|reflexivity]. destruct (se x); [apply keys_dset_in|reflexivity].
Qed.

Lemma dget_dmark k' k d :
  dget k' (dmark k d) =
  if Nat.eqb k' k then match dget k d with Some (EPlace l _) => Some (EPlace l true) | o => o end else dget k' d.
Proof.
  unfold dmark. destruct (dfind k d) as [x|] eqn:E.
  - rewrite (dget_find k d x E). destruct (se x) as [l b|v e] eqn:Hse.
    + rewrite dget_dset_in, (dget_find k d x E). reflexivity.
    + destruct (Nat.eqb_spec k' k) as [->|N]; [rewrite (dget_find k d x E), Hse|]; reflexivity.
  - rewrite (dget_none_find k d E). destruct (Nat.eqb_spec k' k) as [->|N]; [apply dget_none_find, E|reflexivity].
Qed.

Lemma in_dmark x k d :
  In x (dmark k d) ->
  In x d \/ (exists y z l b, In y d /\ In z d /\ sk z = k /\ se z = EPlace l b /\
                            x = mkslot k (EPlace l true) (ss y)).
Proof.
  unfold dmark. destruct (dfind k d) as [z|] eqn:E; [|tauto]. destruct (se z) as [l b|v e] eqn:Hse; [|tauto].
  intros H. apply in_dset_in in H. destruct H as [H|(y & Hy & Hk & ->)]; [left; exact H|].
  right. destruct (dfind_some k d z E) as [Hz1 Hz2]. exists y, z, l, b. auto 6.
Qed.

Lemma sorted_dmark k d : StronglySorted stamp_lt d -> StronglySorted stamp_lt (dmark k d).
Proof.
  intros H. unfold dmark. destruct (dfind k d) as [x|]; [|exact H]. destruct (se x); [now apply sorted_dset_in|exact H].
Qed.

Lemma nval_dmark k d : nval (dmark k d) = nval d.
Proof.
  unfold dmark. destruct (dfind k d) as [x|] eqn:E; [|reflexivity]. destruct (se x) as [l b|v e] eqn:Hse; [|reflexivity].
  destruct (counts_dset_in k (EPlace l true) d x E) as [H _]. unfold is_val in H. rewrite Hse in H. cbn in H. lia.
Qed.

Lemma ncnt_dmark_le k d : ncnt (dmark k d) <= ncnt d + 1.
Proof.
  unfold dmark. destruct (dfind k d) as [x|] eqn:E; [|lia]. destruct (se x) as [l b|v e] eqn:Hse; [|lia].
  destruct (counts_dset_in k (EPlace l true) d x E) as [_ H]. unfold is_cnt in H. cbn in H. destruct (is_cnt x); lia.
Qed.

Lemma ncnt_dmark_uncounted k d l :
  dget k d = Some (EPlace l false) -> ncnt (dmark k d) = ncnt d + 1.
Proof.
  intros Hg. destruct (dget_some _ _ _ Hg) as (x & E & Hse & _). unfold dmark. rewrite E, Hse.
  destruct (counts_dset_in k (EPlace l true) d x E) as [_ H]. unfold is_cnt in H. rewrite Hse in H. cbn in H. lia.
Qed.

Lemma dremove_absent k d : ~ In k (keys d) -> dremove k d = d.
Proof.
  induction d as [|y r IH]; cbn [dremove filter keys map]; [reflexivity|]. intros H. fold (dremove k r).
  destruct (Nat.eqb_spec (sk y) k) as [E|E]; cbn [negb].
  - exfalso. apply H. now left.
  - f_equal. apply IH. intros H'. apply H. now right.
Qed.

Lemma counts_dremove_nodup k d x :
  NoDup (keys d) -> dfind k d = Some x ->
  nval (dremove k d) + (if is_val x then 1 else 0) = nval d /\
  ncnt (dremove k d) + (if is_cnt x then 1 else 0) = ncnt d.
Proof.
  induction d as [|y r IH]; cbn [dfind]; [discriminate|]. intros Hn. inversion Hn as [|a b Ha Hb]; subst.
  cbn [dremove filter]. fold (dremove k r). destruct (Nat.eqb_spec (sk y) k) as [E|E]; cbn [negb].
  - intros [= <-]. rewrite dremove_absent by (rewrite <- E; exact Ha). rewrite nval_cons, ncnt_cons. split; lia.
  - intros H. destruct (IH Hb H) as [H1 H2]. rewrite !nval_cons, !ncnt_cons. split; lia.
Qed.

Lemma counts_dmove k st d :
  NoDup (keys d) -> nval (dmove k st d) = nval d /\ ncnt (dmove k st d) = ncnt d.
Proof.
  intros Hn. unfold dmove. destruct (dfind k d) as [x|] eqn:E; [|auto].
  destruct (counts_dremove_nodup k d x Hn E) as [H1 H2]. rewrite nval_app, ncnt_app.
  unfold is_val, is_cnt in *. cbn [se]. split; lia.
Qed.
