(* C12 / C13 clauses as theorems over every op sequence of the MemStream machine. *)
From AV Require Import Base MemStream MemStreamProofs.
From Coq Require Import Permutation.

Definition reach (m : xnat) (s : st) : Prop := exists ops, s = final step (init m) ops.

Lemma reach_inv m s : reach m s -> Inv s.
Proof. intros [ops ->]. apply reachable_inv. Qed.

Lemma reach_step m s o : reach m s -> reach m (fst (step s o)).
Proof. intros [ops ->]. exists (ops ++ [o]). rewrite final_app. reflexivity. Qed.

Lemma reach_init m : reach m (init m).
Proof. exists []. reflexivity. Qed.

(* ---------- frame facts of single steps (what a step does to the ghost lists, tied to its result) ---------- *)
Ltac break_step :=
  repeat match goal with
  | |- context [if ?b then _ else _] => destruct b eqn:?
  | |- context [match ?x with _ => _ end] =>
      lazymatch x with
      | snd _ => fail
      | _ => destruct x eqn:?
      end
  end.

Lemma sn_maxb s h x : maxb (fst (send_nowait s h x)) = maxb s.
Proof. unfold send_nowait. break_step; reflexivity. Qed.

Lemma rn_maxb s h : maxb (fst (recv_nowait s h)) = maxb s.
Proof. unfold recv_nowait, rn_pop, rn_move. break_step; reflexivity. Qed.

Lemma step_maxb s o : maxb (fst (step s o)) = maxb s.
Proof.
  destruct o; cbn [step].
  - destruct (_ || _); [reflexivity|]. pose proof (sn_maxb (set_nitem s (S x)) h x) as H.
    destruct (send_nowait (set_nitem s (S x)) h x) as [s1 r]. cbn in *. destruct r; exact H.
  - destruct (_ || _); [reflexivity|]. apply rn_maxb.
  - destruct (_ || _); reflexivity.
  - destruct (_ || _); reflexivity.
  - unfold do_clone. break_step; reflexivity.
  - unfold do_close. break_step; reflexivity.
  - destruct (phase_of s t) eqn:Ep; [reflexivity| | | |].
    + destruct (mustc s t); [reflexivity|]. pose proof (sn_maxb (finish s t) h x) as H.
      destruct (send_nowait (finish s t) h x) as [s1 r]. cbn in *. destruct r; exact H.
    + unfold drop_sender. break_step; reflexivity.
    + destruct (mustc s t); [reflexivity|]. pose proof (rn_maxb (finish s t) h) as H.
      destruct (recv_nowait (finish s t) h) as [s1 r]. cbn in *. destruct r; exact H.
    + unfold lose. cbn. break_step; reflexivity.
  - unfold task_cancel. break_step; reflexivity.
  - unfold scope_cancel, task_cancel. cbn. break_step; reflexivity.
  - reflexivity.
Qed.

Lemma reach_maxb m s : reach m s -> maxb s = m.
Proof.
  intros [ops ->]. unfold final. rewrite <- fold_left_rev_right.
  induction (rev ops) as [|o r IH]; cbn; [reflexivity|]. rewrite step_maxb. exact IH.
Qed.

(* the result of send_nowait / receive_nowait, and what they do to the ghost lists *)
Lemma sn_ghost s h x :
  let s1 := fst (send_nowait s h x) in
  returned s1 = returned s /\ acked s1 = acked s /\ lost s1 = lost s /\ senq s1 = senq s /\ renq s1 = renq s /\
  match snd (send_nowait s h x) with
  | RDone | RWouldBlock | RClosed | RBroken => True
  | _ => False
  end.
Proof.
  unfold send_nowait. cbv zeta. destruct (hclosed s h); [cbn; auto 10|].
  destruct (Nat.eqb (open_recv s) 0); [cbn; auto 10|].
  destruct (pop_live s (receivers s)) as [[[e t]|] rest]; [cbn; auto 10|].
  destruct (xlt (length (buffer s)) (maxb s)); cbn; auto 10.
Qed.

Lemma rn_ghost s h :
  let s1 := fst (recv_nowait s h) in
  acked s1 = acked s /\ lost s1 = lost s /\ senq s1 = senq s /\ renq s1 = renq s /\
  match snd (recv_nowait s h) with
  | RItem x => returned s1 = returned s ++ [x]
  | RWouldBlock | RClosed | REndOfStream => returned s1 = returned s
  | _ => False
  end.
Proof.
  unfold recv_nowait. cbv zeta. destruct (hclosed s h); [cbn; auto 10|].
  unfold rn_move. destruct (senders s) as [|[e y] r].
  - unfold rn_pop. destruct (buffer s); [destruct (Nat.eqb (open_send s) 0)|]; cbn; auto 10.
  - unfold rn_pop. cbn [buffer set_fut set_buffer set_senders].
    destruct (buffer s ++ [y]); [destruct (Nat.eqb _ 0)|]; cbn; auto 10.
Qed.

(* G1: the ghost list `returned` is exactly the sequence of items returned by receive calls *)
Theorem returned_tracks_results s o :
  returned (fst (step s o)) =
  match snd (step s o) with RItem x => returned s ++ [x] | _ => returned s end.
Proof.
  destruct o; cbn [step].
  - destruct (_ || _); [reflexivity|]. pose proof (sn_ghost (set_nitem s (S x)) h x) as H.
    destruct (send_nowait (set_nitem s (S x)) h x) as [s1 r]. cbn in *.
    destruct H as (H & _ & _ & _ & _ & Hr). destruct r; try contradiction; exact H.
  - destruct (_ || _); [reflexivity|]. pose proof (rn_ghost s h) as H.
    destruct (recv_nowait s h) as [s1 r]. cbn in *.
    destruct H as (_ & _ & _ & _ & Hr). destruct r; try contradiction; exact Hr.
  - destruct (_ || _); reflexivity.
  - destruct (_ || _); reflexivity.
  - unfold do_clone. break_step; reflexivity.
  - unfold do_close. break_step; reflexivity.
  - destruct (phase_of s t) eqn:Ep; [reflexivity| | | |].
    + destruct (mustc s t); [reflexivity|]. pose proof (sn_ghost (finish s t) h x) as H.
      destruct (send_nowait (finish s t) h x) as [s1 r]. cbn in *.
      destruct H as (H & _ & _ & _ & _ & Hr). destruct r; try contradiction; exact H.
    + unfold drop_sender. break_step; reflexivity.
    + destruct (mustc s t); [reflexivity|]. pose proof (rn_ghost (finish s t) h) as H.
      destruct (recv_nowait (finish s t) h) as [s1 r]. cbn in *.
      destruct H as (_ & _ & _ & _ & Hr). destruct r; try contradiction; exact Hr.
    + unfold lose. cbn. break_step; reflexivity.
  - unfold task_cancel. break_step; reflexivity.
  - unfold scope_cancel, task_cancel. cbn. break_step; reflexivity.
  - reflexivity.
Qed.

(* G2: the ghost list `acked` is exactly the sequence of items whose send()/send_nowait() returned normally *)
Definition send_item (s : st) (o : op) : option item :=
  match o with
  | SendNowait _ _ x => Some x
  | Resume t => match phase_of s t with SendCk _ x => Some x | SendWait _ x => Some x | _ => None end
  | _ => None
  end.

Theorem acked_tracks_results s o :
  acked (fst (step s o)) =
  match snd (step s o), send_item s o with RDone, Some x => acked s ++ [x] | _, _ => acked s end.
Proof.
  destruct o; cbn [step send_item].
  - destruct (_ || _); [reflexivity|]. pose proof (sn_ghost (set_nitem s (S x)) h x) as H.
    destruct (send_nowait (set_nitem s (S x)) h x) as [s1 r]. cbn in *.
    destruct H as (_ & H & _ & _ & _ & Hr). destruct r; try contradiction; cbn; congruence.
  - destruct (_ || _); [reflexivity|]. pose proof (rn_ghost s h) as H.
    destruct (recv_nowait s h) as [s1 r]. cbn in *.
    destruct H as (H & _ & _ & _ & Hr). destruct r; try contradiction; exact H.
  - destruct (_ || _); reflexivity.
  - destruct (_ || _); reflexivity.
  - unfold do_clone. break_step; reflexivity.
  - unfold do_close. break_step; reflexivity.
  - destruct (phase_of s t) eqn:Ep; [reflexivity| | | |].
    + destruct (mustc s t); [reflexivity|]. pose proof (sn_ghost (finish s t) h x) as H.
      destruct (send_nowait (finish s t) h x) as [s1 r]. cbn in *.
      destruct H as (_ & H & _ & _ & _ & Hr). destruct r; try contradiction; cbn; congruence.
    + unfold drop_sender. break_step; reflexivity.
    + destruct (mustc s t); [reflexivity|]. pose proof (rn_ghost (finish s t) h) as H.
      destruct (recv_nowait (finish s t) h) as [s1 r]. cbn in *.
      destruct H as (H & _ & _ & _ & Hr). destruct r; try contradiction; exact H.
    + unfold lose. cbn. break_step; reflexivity.
  - unfold task_cancel. break_step; reflexivity.
  - unfold scope_cancel, task_cancel. cbn. break_step; reflexivity.
  - reflexivity.
Qed.

(* G3: `lost` grows only when a receive() that had been handed an item raises CancelledError *)
Theorem lost_tracks_results s o :
  lost (fst (step s o)) = lost s \/
  exists t e x, o = Resume t /\ phase_of s t = RecvWait e /\ slot s e = Some x /\
                snd (step s o) = RCancelled /\ lost (fst (step s o)) = lost s ++ [x].
Proof.
  destruct o; cbn [step].
  - left. destruct (_ || _); [reflexivity|]. pose proof (sn_ghost (set_nitem s (S x)) h x) as H.
    destruct (send_nowait (set_nitem s (S x)) h x) as [s1 r]. cbn in *.
    destruct H as (_ & _ & H & _ & _ & Hr). destruct r; try contradiction; exact H.
  - left. destruct (_ || _); [reflexivity|]. pose proof (rn_ghost s h) as H.
    destruct (recv_nowait s h) as [s1 r]. cbn in *. tauto.
  - left. destruct (_ || _); reflexivity.
  - left. destruct (_ || _); reflexivity.
  - left. unfold do_clone. break_step; reflexivity.
  - left. unfold do_close. break_step; reflexivity.
  - destruct (phase_of s t) eqn:Ep; [now left| | | |].
    + left. destruct (mustc s t); [reflexivity|]. pose proof (sn_ghost (finish s t) h x) as H.
      destruct (send_nowait (finish s t) h x) as [s1 r]. cbn in *.
      destruct H as (_ & _ & H & _ & _ & Hr). destruct r; try contradiction; exact H.
    + left. unfold drop_sender. break_step; reflexivity.
    + left. destruct (mustc s t); [reflexivity|]. pose proof (rn_ghost (finish s t) h) as H.
      destruct (recv_nowait (finish s t) h) as [s1 r]. cbn in *.
      destruct H as (_ & H & _ & _ & Hr). destruct r; try contradiction; exact H.
    + destruct (fut s e) eqn:Ef; [now left| |].
      * cbn [is_cancelled orb]. destruct (mustc s t) eqn:Em.
        -- unfold lose. cbn [slot pop_receiver set_receivers]. destruct (slot s e) as [x|] eqn:Es; [|now left].
           right. exists t, e, x. cbn. auto 10.
        -- left. destruct (slot s e); reflexivity.
      * cbn [is_cancelled orb]. unfold lose. cbn [slot pop_receiver set_receivers].
        destruct (slot s e) as [x|] eqn:Es; [|now left].
        right. exists t, e, x. cbn. auto 10.
  - left. unfold task_cancel. break_step; reflexivity.
  - left. unfold scope_cancel, task_cancel. cbn. break_step; reflexivity.
  - now left.
Qed.

(* ======================================================================================== *)
(*                                         C12                                               *)
(* ======================================================================================== *)

Lemma nodup_app_l {A} (a b : list A) : NoDup (a ++ b) -> NoDup a.
Proof.
  induction a as [|x a IH]; cbn; intros H; [constructor|].
  inversion H as [|? ? Hx Hn]; subst. constructor; [|auto].
  intros Hi. apply Hx. apply in_or_app. now left.
Qed.

Lemma nodup_app_disj {A} (a b : list A) x : NoDup (a ++ b) -> In x a -> In x b -> False.
Proof.
  induction a as [|y a IH]; cbn; intros H Ha Hb; [contradiction|].
  inversion H as [|? ? Hy Hn]; subst. destruct Ha as [->|Ha]; [|eauto].
  apply Hy. apply in_or_app. now right.
Qed.

(* 1. conservation.  `entered` = items that entered the stream state (buffered, handed to a waiting receiver, or
      parked in a blocked sender's slot), in arrival order.  Every such item is in exactly one place. *)
Theorem ms_conservation m s : reach m s ->
  Permutation (entered s)
    (returned s ++ map snd (inflight s) ++ lost s ++ buffer s ++ map snd (senders s) ++ withdrawn s) /\
  NoDup (entered s) /\
  (forall e x, In (e, x) (inflight s) <-> (slot s e = Some x /\ exists t, phase_of s t = RecvWait e)).
Proof.
  intros R. pose proof (reach_inv m s R) as I. refine (conj _ (conj (I_nd s I) (I_infl s I))).
  eapply perm_trans; [apply (I_perm1 s I)|].
  replace (returned s ++ map snd (inflight s) ++ lost s ++ buffer s ++ map snd (senders s) ++ withdrawn s)
    with ((returned s ++ map snd (inflight s) ++ lost s) ++ buffer s ++ map snd (senders s) ++ withdrawn s)
    by (rewrite <- !app_assoc; reflexivity).
  apply Permutation_app_tail, (I_perm2 s I).
Qed.

Lemma all_places_nodup m s : reach m s ->
  NoDup (returned s ++ map snd (inflight s) ++ lost s ++ buffer s ++ map snd (senders s) ++ withdrawn s).
Proof.
  intros R. destruct (ms_conservation m s R) as (P & N & _). eapply Permutation_NoDup; eauto.
Qed.

(* nothing is delivered twice, nothing is invented *)
Theorem ms_no_dup_no_invention m s : reach m s ->
  NoDup (returned s) /\ (forall x, In x (returned s) -> In x (entered s)).
Proof.
  intros R. destruct (ms_conservation m s R) as (P & N & _). split.
  - pose proof (all_places_nodup m s R) as H. apply nodup_app_l in H. exact H.
  - intros x H. eapply Permutation_in; [apply Permutation_sym, P|]. apply in_or_app. now left.
Qed.

(* every item whose send()/send_nowait() returned normally is in exactly one of: delivered, handed to a receiver
   that has not resumed yet, the buffer - or `lost`, which is empty under AnyIO cancellation (clause 5) *)
Theorem ms_acked_accounted m s x : reach m s -> In x (acked s) ->
  In x (returned s ++ map snd (inflight s) ++ lost s ++ buffer s) /\
  ~ In x (map snd (senders s)) /\ ~ In x (withdrawn s).
Proof.
  intros R Hx. pose proof (reach_inv m s R) as I. pose proof (I_ack s I x Hx) as H.
  assert (H1 : In x (returned s ++ map snd (inflight s) ++ lost s ++ buffer s)).
  { apply in_app_or in H. destruct H as [H|H].
    - apply (Permutation_in _ (I_perm2 s I)) in H. rewrite !in_app_iff in *. tauto.
    - rewrite !in_app_iff. tauto. }
  split; [exact H1|].
  pose proof (all_places_nodup m s R) as N.
  replace (returned s ++ map snd (inflight s) ++ lost s ++ buffer s ++ map snd (senders s) ++ withdrawn s)
    with ((returned s ++ map snd (inflight s) ++ lost s ++ buffer s) ++ map snd (senders s) ++ withdrawn s) in N
    by (rewrite <- !app_assoc; reflexivity).
  split; intros H2.
  - eapply (nodup_app_disj _ _ x N); [exact H1|]. apply in_or_app. now left.
  - eapply (nodup_app_disj _ _ x N); [exact H1|]. apply in_or_app. now right.
Qed.

(* 2. FIFO.  What has been handed out, then the buffer, then the blocked senders' items - in this order - is an
      order-preserving sublist of the arrival sequence: items leave the stream in the order they entered it
      (in particular the items of one sender, whose sends are sequential, and buffered items before the items
      of blocked senders). *)
Theorem ms_fifo m s : reach m s ->
  subseq (handed s ++ buffer s ++ map snd (senders s)) (entered s).
Proof. intros R. apply (I_sub s (reach_inv m s R)). Qed.

Lemma before_total {A} (x y : A) l : x <> y -> In x l -> In y l -> before x y l \/ before y x l.
Proof.
  intros Hne. induction l as [|z l IH]; cbn; [tauto|]. intros [Hx|Hx] [Hy|Hy].
  - congruence.
  - subst z. left. apply before_here. exact Hy.
  - subst z. right. apply before_here. exact Hx.
  - destruct (IH Hx Hy) as [H|H]; [left|right]; apply before_later; exact H.
Qed.

Lemma before_app_l {A} (x y : A) a b : before x y a -> before x y (a ++ b).
Proof.
  induction 1 as [l H|z l H IH]; cbn; [apply before_here; apply in_or_app; now left|apply before_later, IH].
Qed.

Lemma before_neq {A} (x y : A) l : NoDup l -> before x y l -> x <> y.
Proof.
  intros Hn Hb ->. induction Hb as [l H|z l H IH].
  - inversion Hn; contradiction.
  - inversion Hn; auto.
Qed.

(* pairwise form: two handed-out items were handed out in the order in which they entered *)
Theorem ms_fifo_pairs m s x y : reach m s ->
  before x y (entered s) -> In x (handed s) -> In y (handed s) -> before x y (handed s).
Proof.
  intros R Hb Hx Hy. pose proof (reach_inv m s R) as I.
  assert (Hne : x <> y) by (eapply before_neq; [apply (I_nd s I)|exact Hb]).
  destruct (before_total x y (handed s) Hne Hx Hy) as [H|H]; [exact H|exfalso].
  assert (H' : before y x (entered s)).
  { eapply subseq_before; [apply (ms_fifo m s R)|]. apply before_app_l. exact H. }
  eapply before_nodup_asym; [apply (I_nd s I)|exact Hb|exact H'].
Qed.

(* 3. waiters are served in the order they started waiting *)
Theorem ms_waiters_served_fifo m s : reach m s ->
  subseq (map fst (senders s)) (senq s) /\ subseq (map fst (receivers s)) (renq s).
Proof. intros R. pose proof (reach_inv m s R) as I. split; [apply (I_senq s I)|apply (I_renq s I)]. Qed.

(* receive_nowait serves the HEAD of the sender queue *)
Theorem ms_sender_served_is_head s e y r :
  senders s = (e, y) :: r ->
  senders (rn_move s) = r /\ buffer (rn_move s) = buffer s ++ [y] /\ fut (rn_move s) e = ev_set (fut s e).
Proof. intros H. unfold rn_move. rewrite H. cbn. rewrite upd_same. auto. Qed.

(* send_nowait serves the first waiting receiver that has no pending cancellation; the ones before it are dropped *)
Theorem ms_receiver_served_first_live s :
  match pop_live s (receivers s) with
  | (Some (e, t), rest) =>
      exists pre, receivers s = pre ++ (e, t) :: rest /\ has_pending s t = false /\
                  (forall e' t', In (e', t') pre -> has_pending s t' = true)
  | (None, rest) => rest = [] /\ (forall e' t', In (e', t') (receivers s) -> has_pending s t' = true)
  end.
Proof. apply pop_live_spec. Qed.

(* the arrival logs are append-only *)
Lemma sn_logs s h x : let s1 := fst (send_nowait s h x) in senq s1 = senq s /\ renq s1 = renq s.
Proof. pose proof (sn_ghost s h x) as H. cbv zeta in *. tauto. Qed.

Lemma rn_logs s h : let s1 := fst (recv_nowait s h) in senq s1 = senq s /\ renq s1 = renq s.
Proof. pose proof (rn_ghost s h) as H. cbv zeta in *. tauto. Qed.

Theorem ms_arrival_logs_append_only s o :
  (exists l, senq (fst (step s o)) = senq s ++ l) /\ (exists l, renq (fst (step s o)) = renq s ++ l).
Proof.
  assert (Hsame : forall s', senq s' = senq s -> renq s' = renq s ->
            (exists l, senq s' = senq s ++ l) /\ (exists l, renq s' = renq s ++ l)).
  { intros s' -> ->. split; exists []; now rewrite app_nil_r. }
  destruct o; cbn [step].
  - destruct (_ || _); [now apply Hsame|]. pose proof (sn_logs (set_nitem s (S x)) h x) as H.
    destruct (send_nowait (set_nitem s (S x)) h x) as [s1 r]. cbn in *. destruct H.
    destruct r; apply Hsame; assumption.
  - destruct (_ || _); [now apply Hsame|]. pose proof (rn_logs s h) as H.
    destruct (recv_nowait s h) as [s1 r]. cbn in *. destruct H. apply Hsame; assumption.
  - destruct (_ || _); now apply Hsame.
  - destruct (_ || _); now apply Hsame.
  - unfold do_clone. break_step; now apply Hsame.
  - unfold do_close. break_step; now apply Hsame.
  - destruct (phase_of s t) eqn:Ep; [now apply Hsame| | | |].
    + destruct (mustc s t); [now apply Hsame|]. pose proof (sn_logs (finish s t) h x) as H.
      destruct (send_nowait (finish s t) h x) as [s1 r]. cbn in *. destruct H as [H1 H2].
      destruct r; try (apply Hsame; assumption).
      cbn. rewrite H1, H2. split; [eexists; reflexivity|exists []; now rewrite app_nil_r].
    + unfold drop_sender. break_step; now apply Hsame.
    + destruct (mustc s t); [now apply Hsame|]. pose proof (rn_logs (finish s t) h) as H.
      destruct (recv_nowait (finish s t) h) as [s1 r]. cbn in *. destruct H as [H1 H2].
      destruct r; try (apply Hsame; assumption).
      cbn. rewrite H1, H2. split; [exists []; now rewrite app_nil_r|eexists; reflexivity].
    + unfold lose. cbn. break_step; now apply Hsame.
  - unfold task_cancel. break_step; now apply Hsame.
  - unfold scope_cancel, task_cancel. cbn. break_step; now apply Hsame.
  - now apply Hsame.
Qed.

(* 4. buffer bound: at every reachable state (every point at which another task can observe the stream) the
      buffer holds at most max_buffer_size items.  Inside receive_nowait the deque transiently holds one more
      (rn_move appends a blocked sender's item before rn_pop removes the head); that intermediate value is never
      visible because no suspension point separates the two halves. *)
Theorem ms_buffer_bound m s : reach m s -> xle (length (buffer s)) m.
Proof. intros R. rewrite <- (reach_maxb m s R). apply (I_bound s (reach_inv m s R)). Qed.

Definition xsucc (m : xnat) : xnat := match m with Fin k => Fin (S k) | Inf => Inf end.

Theorem ms_buffer_transient m s : reach m s ->
  xle (length (buffer (rn_move s))) (xsucc m) /\
  (forall h, xle (length (buffer (fst (recv_nowait s h)))) m).
Proof.
  intros R. split.
  - pose proof (ms_buffer_bound m s R) as H. unfold rn_move. destruct (senders s) as [|[e y] r]; cbn.
    + destruct m; cbn in *; [lia|trivial].
    + rewrite app_length. cbn. destruct m; cbn in *; [lia|trivial].
  - intros h. pose proof (reach_inv m s R) as I. pose proof (recv_nowait_inv s h I) as [I1 _].
    pose proof (I_bound _ I1) as Hb. rewrite (rn_maxb s h), (reach_maxb m s R) in Hb. exact Hb.
Qed.

(* 6. an item whose send was interrupted is delivered at most once: nothing is ever delivered twice, and an item
      withdrawn by its interrupted sender (its entry was still in waiting_senders) is never delivered at all *)
Theorem ms_interrupted_send_at_most_once m s : reach m s ->
  NoDup (returned s) /\
  (forall x, In x (withdrawn s) ->
     ~ In x (returned s) /\ ~ In x (map snd (inflight s)) /\ ~ In x (buffer s) /\ ~ In x (map snd (senders s))).
Proof.
  intros R. split; [apply (ms_no_dup_no_invention m s R)|]. intros x Hw.
  pose proof (all_places_nodup m s R) as N.
  assert (D : forall a b c, NoDup (a ++ b ++ c) -> In x c -> ~ In x a /\ NoDup (b ++ c)).
  { intros a b c Hn Hc. split.
    - intros Ha. eapply (nodup_app_disj a (b ++ c) x Hn Ha). apply in_or_app. now right.
    - clear - Hn. induction a; cbn in *; [exact Hn|]. inversion Hn; auto. }
  destruct (D _ _ _ N) as [H1 N1].
  { rewrite !in_app_iff. tauto. }
  destruct (D _ _ _ N1) as [H2 N2].
  { rewrite !in_app_iff. tauto. }
  assert (N3 : NoDup (buffer s ++ map snd (senders s) ++ withdrawn s)).
  { clear - N2. induction (lost s); cbn in *; [exact N2|]. inversion N2; auto. }
  destruct (D _ _ _ N3 Hw) as [H3 N4].
  assert (H4 : ~ In x (map snd (senders s))).
  { intros Ha. eapply (nodup_app_disj _ _ x N4 Ha Hw). }
  auto.
Qed.

(* what a sender's own resumption does: a still-present entry is withdrawn, otherwise the item is already in
   the buffer or handed out *)
Theorem ms_interrupted_send_cases m s t e x : reach m s -> phase_of s t = SendWait e x ->
  In (e, x) (senders s) \/ In x (handed s ++ buffer s).
Proof. intros R. apply (I_sw s (reach_inv m s R)). Qed.

(* 5. cancelling a blocked receive never loses an item - under the AnyIO cancellation discipline.
      AnyIO's delivery (CancelScope._deliver_cancellation) never calls task.cancel() on a task whose waiter future
      is done (op ScopeCancel models exactly that), and send_nowait never hands an item to a receiver with a
      pending cancellation.  The only way to make a receive() raise after it was handed an item is therefore a
      NATIVE Task.cancel() (op Cancel) issued in the hand-over cycle.  The discipline below excludes exactly
      those ops; it is stated explicitly as a premise on the op sequence. *)
Definition filled_receiver (s : st) (t : tid) : Prop :=
  exists e x, phase_of s t = RecvWait e /\ slot s e = Some x.

Definition late_native_cancel (s : st) (o : op) : Prop :=
  match o with Cancel t => filled_receiver s t | _ => False end.

Fixpoint disciplined (s : st) (ops : list op) : Prop :=
  match ops with
  | [] => True
  | o :: r => ~ late_native_cancel s o /\ disciplined (fst (step s o)) r
  end.

Definition DInv (s : st) : Prop :=
  forall t e x, phase_of s t = RecvWait e -> slot s e = Some x -> mustc s t = false.

Lemma D_frame s s' :
  phase_of s' = phase_of s -> slot s' = slot s -> mustc s' = mustc s -> DInv s -> DInv s'.
Proof. intros H1 H2 H3 D t e x. rewrite H1, H2, H3. apply D. Qed.

Lemma sn_D s h x : Inv s -> DInv s -> DInv (fst (send_nowait s h x)).
Proof.
  intros I D. unfold send_nowait. destruct (hclosed s h); [exact D|].
  destruct (Nat.eqb (open_recv s) 0); [exact D|].
  pose proof (pop_live_spec s (receivers s)) as Hpl.
  destruct (pop_live s (receivers s)) as [[[e t]|] rest].
  - destruct Hpl as (pre & Hr & Hnp & _). cbn [fst]. intros t0 e0 x0. cbn. intros H1 H2.
    destruct (Nat.eq_dec e0 e) as [->|Hn].
    + assert (Hin : In (e, t) (receivers s)) by (rewrite Hr; apply in_or_app; right; now left).
      pose proof (I_rk s I e t Hin) as Hp.
      assert (t0 = t) by (eapply (I_inj s I); [rewrite H1|rewrite Hp]; reflexivity). subst t0.
      destruct (has_pending_wait_false s t e) as (Hm & _); [rewrite Hp; reflexivity|exact Hnp|exact Hm].
    + rewrite upd_other in H2 by assumption. eapply D; eauto.
  - destruct (xlt (length (buffer s)) (maxb s)); cbn [fst]; eapply D_frame; eauto.
Qed.

Lemma rn_frame s h :
  let s1 := fst (recv_nowait s h) in phase_of s1 = phase_of s /\ slot s1 = slot s /\ mustc s1 = mustc s.
Proof.
  unfold recv_nowait. cbv zeta. destruct (hclosed s h); [cbn; auto|].
  unfold rn_move. destruct (senders s) as [|[e y] r].
  - unfold rn_pop. destruct (buffer s); [destruct (Nat.eqb (open_send s) 0)|]; cbn; auto.
  - unfold rn_pop. cbn [buffer set_fut set_buffer set_senders].
    destruct (buffer s ++ [y]); [destruct (Nat.eqb _ 0)|]; cbn; auto.
Qed.

Lemma D_finish s t : DInv s -> DInv (finish s t).
Proof.
  intros D t0 e x. cbn. intros H1 H2. destruct (Nat.eq_dec t0 t) as [->|Hn].
  - rewrite upd_same in H1. discriminate.
  - rewrite upd_other in H1 by assumption. rewrite upd_other by assumption. eapply D; eauto.
Qed.

Lemma D_phase s t p : DInv s -> (forall e, p <> RecvWait e) -> DInv (set_phase_of s (upd (phase_of s) t p)).
Proof.
  intros D Hp t0 e x. cbn. intros H1 H2. destruct (Nat.eq_dec t0 t) as [->|Hn].
  - rewrite upd_same in H1. exfalso. eapply Hp; eauto.
  - rewrite upd_other in H1 by assumption. eapply D; eauto.
Qed.

Lemma D_task_cancel s t : DInv s -> ~ filled_receiver s t -> DInv (task_cancel s t).
Proof.
  intros D Hnf. assert (Hm : DInv (set_mustc s (upd (mustc s) t true))).
  { intros t0 e x. cbn. intros H1 H2. destruct (Nat.eq_dec t0 t) as [->|Hn].
    - exfalso. apply Hnf. exists e, x. auto.
    - rewrite upd_other by assumption. eapply D; eauto. }
  unfold task_cancel. destruct (waiter s t) as [e|]; [|exact Hm].
  destruct (fut s e); [|exact Hm|exact Hm]. eapply D_frame; eauto.
Qed.

Lemma step_D s o : Inv s -> DInv s -> ~ late_native_cancel s o -> DInv (fst (step s o)).
Proof.
  intros I D Hl. destruct o; cbn [step].
  - destruct (is_idle (phase_of s t)); cbn [negb orb fst]; [|exact D].
    destruct (valid_h s h SSend); cbn [negb orb fst]; [|exact D].
    destruct (Nat.ltb_spec x (nitem s)) as [Hx|Hx]; cbn [fst]; [exact D|].
    assert (D0 : DInv (set_nitem s (S x))) by (eapply D_frame; eauto).
    assert (Hs : Inv (set_nitem s (S x))) by (apply set_nitem_inv; [exact I|lia]).
    pose proof (sn_D (set_nitem s (S x)) h x Hs D0) as H.
    destruct (send_nowait (set_nitem s (S x)) h x) as [s1 r]. cbn in *.
    destruct r; cbn; try exact H; eapply D_frame; try exact H; reflexivity.
  - destruct (_ || _); [exact D|]. pose proof (rn_frame s h) as (H1 & H2 & H3). eapply D_frame; eauto.
  - destruct (_ || _); [exact D|]. cbn [fst]. apply (D_phase (set_nitem s (S x))); [|discriminate].
    eapply D_frame; eauto.
  - destruct (_ || _); [exact D|]. cbn [fst]. apply D_phase; [exact D|discriminate].
  - destruct (negb _); [exact D|]. destruct (hclosed s h); [exact D|]. cbn [fst].
    unfold do_clone. destruct (hside s h); eapply D_frame; eauto.
  - destruct (negb _); [exact D|]. destruct (hclosed s h); [exact D|]. cbn [fst].
    unfold do_close. destruct (hside s h); [destruct (Nat.eqb _ 0)|destruct (Nat.eqb _ 0)]; eapply D_frame; eauto.
  - destruct (phase_of s t) eqn:Ep; [exact D| | | |].
    + destruct (mustc s t); [apply D_finish, D|].
      assert (If : Inv (finish s t)) by (apply finish_ck_inv; [exact I|rewrite Ep; reflexivity]).
      pose proof (sn_D (finish s t) h x If (D_finish s t D)) as H.
      destruct (send_nowait (finish s t) h x) as [s1 r]. cbn in *.
      destruct r; cbn; try exact H; try (eapply D_frame; try exact H; reflexivity).
      unfold enq_sender. intros t0 e0 x0. cbn. intros H1 H2. destruct (Nat.eq_dec t0 t) as [->|Hn].
      * rewrite upd_same in H1. discriminate.
      * rewrite upd_other in H1 by assumption. eapply H; eauto.
    + assert (Hd : DInv (finish (drop_sender s e x) t)).
      { apply D_finish. unfold drop_sender. destruct (has_key e (senders s)); [|exact D]. eapply D_frame; eauto. }
      destruct (fut s e); [exact D| |exact Hd].
      destruct (mustc s t); [exact Hd|]. destruct (has_key e (senders s)) eqn:Hk; [exact Hd|].
      cbn [fst]. eapply D_frame; [| | |apply (D_finish s t D)]; reflexivity.
    + destruct (mustc s t); [apply D_finish, D|].
      pose proof (rn_frame (finish s t) h) as (H1 & H2 & H3).
      assert (D1 : DInv (fst (recv_nowait (finish s t) h))) by (eapply D_frame; eauto; apply D_finish, D).
      destruct (recv_nowait (finish s t) h) as [s1 r]. cbn in *.
      destruct r; cbn; try exact D1.
      unfold enq_receiver. intros t0 e0 x0. cbn. intros Ha Hb.
      destruct (Nat.eq_dec e0 (nev s1)) as [->|Hne]; [rewrite upd_same in Hb; discriminate|].
      rewrite upd_other in Hb by assumption.
      destruct (Nat.eq_dec t0 t) as [->|Hn].
      * rewrite upd_same in Ha. congruence.
      * rewrite upd_other in Ha by assumption. eapply D1; eauto.
    + destruct (fut s e); [exact D| |].
      * destruct (is_cancelled FSet || mustc s t); cbn [fst].
        -- apply D_finish. unfold lose. cbn. destruct (slot s e); eapply D_frame; eauto.
        -- destruct (slot s e); cbn [fst]; apply D_finish; eapply D_frame; eauto.
      * cbn [is_cancelled orb fst]. apply D_finish. unfold lose. cbn. destruct (slot s e); eapply D_frame; eauto.
  - destruct (is_idle _); [exact D|]. cbn [fst]. apply D_task_cancel; [exact D|exact Hl].
  - destruct (is_idle _); [exact D|]. destruct (scopec s t); [exact D|]. cbn [fst].
    unfold scope_cancel. assert (D1 : DInv (set_scopec s (upd (scopec s) t true))) by (eapply D_frame; eauto).
    destruct (mustc s t) eqn:Em; [exact D1|].
    assert (Hw : forall s1, phase_of s1 = phase_of s -> slot s1 = slot s -> fut s1 = fut s -> mustc s1 = mustc s ->
                 DInv s1 -> forall e, waiter s t = Some e -> fut s e = FPending -> DInv (task_cancel s1 t)).
    { intros s1 E1 E2 E3 E4 Ds1 e Hwt Hf. unfold task_cancel, waiter. rewrite E1, E3.
      unfold waiter in Hwt. rewrite Hwt, Hf. eapply D_frame; [| | |exact Ds1]; reflexivity. }
    destruct (waiter s t) as [e|] eqn:Ew.
    + destruct (fut s e) eqn:Ef; [|exact D1|exact D1]. eapply Hw; eauto.
    + apply D_task_cancel; [exact D1|]. intros (e & x0 & H1 & H2). cbn in H1.
      unfold waiter in Ew. rewrite H1 in Ew. discriminate.
  - exact D.
Qed.

Lemma D_init m : DInv (init m).
Proof. intros t e x H. discriminate. Qed.

(* under the discipline a receive() that raises CancelledError was never handed an item *)
Lemma cancelled_receive_slot_empty s t e :
  Inv s -> DInv s -> phase_of s t = RecvWait e -> snd (step s (Resume t)) = RCancelled -> slot s e = None.
Proof.
  intros I D Hp Hr. destruct (slot s e) as [x|] eqn:Es; [exfalso|reflexivity].
  pose proof (I_filled s I t e x Hp Es) as Hf. pose proof (D t e x Hp Es) as Hm.
  cbn [step] in Hr. rewrite Hp, Hf, Hm, Es in Hr. cbn in Hr. discriminate.
Qed.

Lemma disciplined_run s ops :
  Inv s -> DInv s -> lost s = [] -> disciplined s ops ->
  let s' := final step s ops in Inv s' /\ DInv s' /\ lost s' = [].
Proof.
  revert s. induction ops as [|o r IH]; intros s I D L Hd; cbn; [auto|].
  destruct Hd as [Hl Hr]. apply IH; [apply step_inv, I|apply step_D; assumption| |exact Hr].
  destruct (lost_tracks_results s o) as [H|(t & e & x & -> & Hp & Es & Hres & _)]; [congruence|].
  exfalso. pose proof (cancelled_receive_slot_empty s t e I D Hp Hres). congruence.
Qed.

Theorem ms_cancel_receive_loses_nothing m ops :
  disciplined (init m) ops ->
  let s := final step (init m) ops in
  (* no item was ever lost by a cancelled receive ... *)
  lost s = [] /\
  (* ... so every item whose send succeeded is delivered, on its way to a resumed receiver, or buffered *)
  (forall x, In x (acked s) -> In x (returned s ++ map snd (inflight s) ++ buffer s)) /\
  (* ... and the next cancelled receive removes nothing either *)
  (forall t e, phase_of s t = RecvWait e -> snd (step s (Resume t)) = RCancelled ->
     slot s e = None /\
     let s' := fst (step s (Resume t)) in
     buffer s' = buffer s /\ senders s' = senders s /\ entered s' = entered s /\ handed s' = handed s /\
     returned s' = returned s /\ lost s' = [] /\ acked s' = acked s).
Proof.
  intros Hd. pose proof (disciplined_run (init m) ops (inv_init m) (D_init m) eq_refl Hd) as (I & D & L).
  cbv zeta in *. set (s := final step (init m) ops) in *.
  assert (R : reach m s) by (exists ops; reflexivity).
  refine (conj L (conj _ _)).
  - intros x Hx. destruct (ms_acked_accounted m s x R Hx) as [H _]. rewrite L in H. exact H.
  - intros t e Hp Hr. pose proof (cancelled_receive_slot_empty s t e I D Hp Hr) as Es.
    split; [exact Es|]. cbn [step] in *. rewrite Hp in *.
    destruct (fut s e); [discriminate| |].
    + destruct (is_cancelled FSet || mustc s t); [|rewrite Es in Hr; discriminate].
      unfold lose. cbn. rewrite Es. cbn. auto 10.
    + cbn [is_cancelled orb fst]. unfold lose. cbn. rewrite Es. cbn. auto 10.
Qed.

(* a single step form of the same fact, for any reachable state (no discipline needed once the slot is empty) *)
Theorem ms_cancelled_receive_removes_nothing s t e :
  phase_of s t = RecvWait e -> slot s e = None -> snd (step s (Resume t)) = RCancelled ->
  let s' := fst (step s (Resume t)) in
  buffer s' = buffer s /\ senders s' = senders s /\ entered s' = entered s /\ handed s' = handed s /\
  returned s' = returned s /\ lost s' = lost s.
Proof.
  intros Hp Es Hr. cbn [step] in *. rewrite Hp in *.
  destruct (fut s e); [discriminate| |].
  - destruct (is_cancelled FSet || mustc s t); [|rewrite Es in Hr; discriminate].
    unfold lose. cbn. rewrite Es. cbn. auto 10.
  - cbn [is_cancelled orb fst]. unfold lose. cbn. rewrite Es. cbn. auto 10.
Qed.

(* AnyIO scope cancellation (op ScopeCancel) can never be "late": it is always allowed by the discipline *)
Theorem ms_scope_cancel_is_disciplined s t : ~ late_native_cancel s (ScopeCancel t).
Proof. intros H. exact H. Qed.

(* ---------- non-vacuity and the documented scope ---------- *)
Open Scope nat_scope.

(* receiver 1 blocks, its scope is cancelled (AnyIO), a send_nowait arrives before it resumes:
   the receiver is skipped, the item goes to the buffer and is still there after the cancelled receive *)
Definition ex_skip := [Recv 1 1; Resume 1; ScopeCancel 1; SendNowait 2 0 7; Resume 1].
Example ex_cancelled_receiver_is_skipped :
  let s := final step (init (Fin 1)) ex_skip in
  disciplined (init (Fin 1)) ex_skip /\ buffer s = [7] /\ lost s = [] /\ acked s = [7] /\
  snd (step (final step (init (Fin 1)) [Recv 1 1; Resume 1; ScopeCancel 1; SendNowait 2 0 7]) (Resume 1)) = RCancelled.
Proof. vm_compute. repeat split; intros H; try exact H; try destruct H as (e & x & H1 & H2); discriminate. Qed.

(* hand-over cycle under AnyIO cancellation: the item has been handed over, then the receiver's scope is
   cancelled: delivery skips the task (its waiter is done) and receive() returns the item *)
Definition ex_handover_scope := [Recv 1 1; Resume 1; SendNowait 2 0 7; ScopeCancel 1; Deliver 1].
Example ex_scope_cancel_in_handover_cycle_keeps_item :
  let s := final step (init (Fin 0)) ex_handover_scope in
  disciplined (init (Fin 0)) ex_handover_scope /\ inflight s = [(0, 7)] /\
  snd (step s (Resume 1)) = RItem 7 /\ returned (fst (step s (Resume 1))) = [7].
Proof. vm_compute. repeat split; intros H; try exact H; try destruct H as (e & x & H1 & H2); discriminate. Qed.

(* documented scope, not a finding: a NATIVE Task.cancel() in the hand-over cycle does lose the item *)
Definition ex_native := [Recv 1 1; Resume 1; SendNowait 2 0 7; Cancel 1; Resume 1].
Example ex_native_cancel_in_handover_cycle_loses_item :
  let s := final step (init (Fin 0)) ex_native in
  ~ disciplined (init (Fin 0)) ex_native /\
  acked s = [7] /\ lost s = [7] /\ returned s = [] /\ buffer s = [] /\ inflight s = [] /\
  snd (step (final step (init (Fin 0)) [Recv 1 1; Resume 1; SendNowait 2 0 7; Cancel 1]) (Resume 1)) = RCancelled.
Proof.
  vm_compute. split; [|auto 10]. intros (_ & _ & _ & H & _). apply H. exists 0, 7. auto.
Qed.

(* hypotheses of ms_fifo_pairs / conservation are met with blocked senders, buffer and hand-outs at once *)
Definition ex_flow := [SendNowait 1 0 1; Send 1 0 2; Resume 1; Send 2 0 3; Resume 2; RecvNowait 3 1; Cancel 2; Resume 2].
Example ex_flow_state :
  let s := final step (init (Fin 1)) ex_flow in
  entered s = [1; 2; 3] /\ handed s = [1] /\ buffer s = [2] /\ senders s = [] /\ withdrawn s = [3] /\
  returned s = [1] /\ before 1 2 (entered s).
Proof. vm_compute. repeat split. apply before_here. now left. Qed.

(* the buffer bound is attained, and the transient excess inside receive_nowait is real *)
Example ex_buffer_transient :
  let s := final step (init (Fin 1)) [SendNowait 1 0 1; Send 1 0 2; Resume 1] in
  length (buffer s) = 1 /\ length (buffer (rn_move s)) = 2 /\ length (buffer (fst (recv_nowait s 1))) = 1.
Proof. vm_compute. auto. Qed.

(* an interrupted send whose item had already been taken: delivered exactly once, the send raises *)
Example ex_interrupted_send_delivered_once :
  let s := final step (init (Fin 0)) [Send 1 0 5; Resume 1; Cancel 1; RecvNowait 2 1; Resume 1] in
  returned s = [5] /\ withdrawn s = [] /\ acked s = [] /\
  snd (step (final step (init (Fin 0)) [Send 1 0 5; Resume 1; Cancel 1; RecvNowait 2 1]) (Resume 1)) = RCancelled.
Proof. vm_compute. auto. Qed.

(* ======================================================================================== *)
(*                                         C13                                               *)
(* ======================================================================================== *)

(* results of the two non-blocking cores *)
Lemma sn_result s h x :
  (snd (send_nowait s h x) = RClosed <-> hclosed s h = true) /\
  (snd (send_nowait s h x) = RBroken <-> hclosed s h = false /\ open_recv s = 0) /\
  snd (send_nowait s h x) <> REndOfStream.
Proof.
  unfold send_nowait. destruct (hclosed s h) eqn:Hc.
  - cbn. repeat split; try tauto; try discriminate. intros [H _]. discriminate.
  - destruct (Nat.eqb_spec (open_recv s) 0) as [Ho|Ho].
    + cbn. repeat split; auto; discriminate.
    + destruct (pop_live s (receivers s)) as [[[e t]|] rest]; [|destruct (xlt _ _)]; cbn;
        repeat split; try discriminate; try tauto.
Qed.

Lemma rn_result s h :
  (snd (recv_nowait s h) = RClosed <-> hclosed s h = true) /\
  (snd (recv_nowait s h) = REndOfStream <-> hclosed s h = false /\ finished s) /\
  snd (recv_nowait s h) <> RBroken.
Proof.
  unfold recv_nowait, finished. destruct (hclosed s h) eqn:Hc.
  - cbn. repeat split; try tauto; try discriminate. intros [H _]. discriminate.
  - unfold rn_move. destruct (senders s) as [|[e y] r] eqn:Hs.
    + unfold rn_pop. destruct (buffer s) as [|x b] eqn:Hb.
      * destruct (Nat.eqb_spec (open_send s) 0) as [Ho|Ho]; cbn; repeat split; auto; try discriminate; tauto.
      * cbn. repeat split; try discriminate. intros (_ & _ & H & _). discriminate.
    + unfold rn_pop. cbn [buffer set_fut set_buffer set_senders].
      destruct (buffer s ++ [y]) as [|x b] eqn:Hb; [destruct (buffer s); discriminate|].
      cbn. repeat split; try discriminate. intros (_ & _ & _ & H). discriminate.
Qed.

(* an op that performs the non-blocking attempt of a receive / send on handle h *)
Definition recv_attempt (s : st) (o : op) (h : hid) : Prop :=
  (exists t, o = RecvNowait t h /\ phase_of s t = Idle /\ valid_h s h SRecv = true) \/
  (exists t, o = Resume t /\ phase_of s t = RecvCk h /\ mustc s t = false).

Definition send_attempt (s : st) (o : op) (h : hid) : Prop :=
  (exists t x, o = SendNowait t h x /\ phase_of s t = Idle /\ valid_h s h SSend = true /\ nitem s <= x) \/
  (exists t x, o = Resume t /\ phase_of s t = SendCk h x /\ mustc s t = false).

Lemma finish_same_stream s t h :
  hclosed (finish s t) h = hclosed s h /\ (finished (finish s t) <-> finished s) /\
  open_recv (finish s t) = open_recv s.
Proof. unfold finished. cbn. tauto. Qed.

(* 1. EndOfStream: exactly when every send clone is closed and neither buffered nor pending items remain *)
Theorem ms_eos_iff s o h : recv_attempt s o h -> hclosed s h = false ->
  (snd (step s o) = REndOfStream <-> finished s).
Proof.
  intros [(t & -> & Hp & Hv)|(t & -> & Hp & Hm)] Hc; cbn [step].
  - rewrite Hp, Hv. cbn [is_idle negb orb]. destruct (rn_result s h) as (_ & H & _). rewrite H. tauto.
  - rewrite Hp, Hm. destruct (rn_result (finish s t) h) as (_ & H & _).
    destruct (finish_same_stream s t h) as (E1 & E2 & _). rewrite E1, E2 in H.
    destruct (recv_nowait (finish s t) h) as [s1 r]. cbn [snd] in *.
    destruct H as [H1 H2].
    destruct r; cbn [snd];
      (split; [intros E; try discriminate E; exact (proj2 (H1 eq_refl))
              |intros F; pose proof (H2 (conj Hc F)) as X; try discriminate X; reflexivity]).
Qed.

Theorem ms_eos_only_if m s o : reach m s -> snd (step s o) = REndOfStream -> finished s.
Proof.
  intros R. pose proof (reach_inv m s R) as I. destruct o; cbn [step].
  - destruct (_ || _); [discriminate|]. destruct (sn_result (set_nitem s (S x)) h x) as (_ & _ & H).
    destruct (send_nowait (set_nitem s (S x)) h x) as [s1 r]. cbn in *. intros E. congruence.
  - destruct (_ || _); [discriminate|]. intros E. apply (rn_result s h) in E. tauto.
  - destruct (_ || _); discriminate.
  - destruct (_ || _); discriminate.
  - break_step; discriminate.
  - break_step; discriminate.
  - destruct (phase_of s t) eqn:Ep; [discriminate| | | |].
    + destruct (mustc s t); [discriminate|]. destruct (sn_result (finish s t) h x) as (_ & _ & H).
      destruct (send_nowait (finish s t) h x) as [s1 r]. cbn in *. destruct r; cbn; congruence.
    + break_step; discriminate.
    + destruct (mustc s t); [discriminate|]. destruct (rn_result (finish s t) h) as (_ & H & _).
      destruct (finish_same_stream s t h) as (E1 & E2 & _). rewrite E1, E2 in H.
      destruct (recv_nowait (finish s t) h) as [s1 r]. cbn in *. destruct r; cbn; try discriminate.
      intros _. apply H. reflexivity.
    + destruct (fut s e) eqn:Ef; [discriminate| |].
      * destruct (is_cancelled FSet || mustc s t); [discriminate|].
        destruct (slot s e) eqn:Es; [discriminate|]. intros _. eapply (I_eos s I); eauto.
      * cbn. discriminate.
  - break_step; discriminate.
  - break_step; discriminate.
  - discriminate.
Qed.

(* a receiver that was blocked and is woken without a cancellation: EndOfStream iff it was handed no item,
   and then the stream really is finished *)
Theorem ms_eos_woken m s t e : reach m s ->
  phase_of s t = RecvWait e -> fut s e = FSet -> mustc s t = false ->
  (snd (step s (Resume t)) = REndOfStream <-> slot s e = None) /\
  (slot s e = None -> finished s) /\
  (forall x, slot s e = Some x -> snd (step s (Resume t)) = RItem x).
Proof.
  intros R Hp Hf Hm. pose proof (reach_inv m s R) as I. cbn [step]. rewrite Hp, Hf, Hm. cbn.
  refine (conj _ (conj _ _)).
  - destruct (slot s e); cbn; split; congruence.
  - intros Es. eapply (I_eos s I); eauto.
  - intros x ->. reflexivity.
Qed.

(* 2. BrokenResourceError: exactly when every receive clone is closed *)
Theorem ms_broken_iff s o h : send_attempt s o h -> hclosed s h = false ->
  (snd (step s o) = RBroken <-> open_recv s = 0).
Proof.
  intros [(t & x & -> & Hp & Hv & Hx)|(t & x & -> & Hp & Hm)] Hc; cbn [step].
  - rewrite Hp, Hv. cbn [is_idle negb orb]. destruct (Nat.ltb_spec x (nitem s)) as [Hlt|Hge]; [lia|].
    destruct (sn_result (set_nitem s (S x)) h x) as (_ & H & _). cbn [hclosed open_recv set_nitem] in H.
    destruct (send_nowait (set_nitem s (S x)) h x) as [s1 r]. cbn [snd] in *. rewrite H. tauto.
  - rewrite Hp, Hm. destruct (sn_result (finish s t) h x) as (_ & H & _).
    destruct (finish_same_stream s t h) as (E1 & _ & E3). rewrite E1, E3 in H.
    destruct (send_nowait (finish s t) h x) as [s1 r]. cbn [snd] in *.
    destruct H as [H1 H2].
    destruct r; cbn [snd];
      (split; [intros E; try discriminate E; exact (proj2 (H1 eq_refl))
              |intros F; pose proof (H2 (conj Hc F)) as X; try discriminate X; reflexivity]).
Qed.

Theorem ms_broken_only_if m s o : reach m s -> snd (step s o) = RBroken -> open_recv s = 0.
Proof.
  intros R. pose proof (reach_inv m s R) as I. destruct o; cbn [step].
  - destruct (_ || _); [discriminate|]. destruct (sn_result (set_nitem s (S x)) h x) as (_ & H & _).
    cbn [hclosed open_recv set_nitem] in H.
    destruct (send_nowait (set_nitem s (S x)) h x) as [s1 r]. cbn in *. intros E. apply H in E. tauto.
  - destruct (_ || _); [discriminate|]. intros E. destruct (rn_result s h) as (_ & _ & H). congruence.
  - destruct (_ || _); discriminate.
  - destruct (_ || _); discriminate.
  - break_step; discriminate.
  - break_step; discriminate.
  - destruct (phase_of s t) eqn:Ep; [discriminate| | | |].
    + destruct (mustc s t); [discriminate|]. destruct (sn_result (finish s t) h x) as (_ & H & _).
      destruct (finish_same_stream s t h) as (E1 & _ & E3). rewrite E1, E3 in H.
      destruct (send_nowait (finish s t) h x) as [s1 r]. cbn in *. destruct r; cbn; try discriminate.
      intros _. apply H. reflexivity.
    + destruct (fut s e) eqn:Ef; [discriminate| |discriminate].
      destruct (mustc s t); [discriminate|]. destruct (has_key e (senders s)) eqn:Hk; [|discriminate].
      intros _. apply has_key_in in Hk. apply in_map_iff in Hk. destruct Hk as ([e0 x0] & E & Hin).
      cbn in E. subst e0. eapply (I_brk s I); eauto.
    + destruct (mustc s t); [discriminate|]. destruct (rn_result (finish s t) h) as (_ & _ & H).
      destruct (recv_nowait (finish s t) h) as [s1 r]. cbn in *. destruct r; cbn; congruence.
    + destruct (fut s e) eqn:Ef; [discriminate| |].
      * destruct (is_cancelled FSet || mustc s t); [discriminate|]. destruct (slot s e); discriminate.
      * cbn. discriminate.
  - break_step; discriminate.
  - break_step; discriminate.
  - discriminate.
Qed.

(* a blocked sender woken without a cancellation: BrokenResourceError iff its entry is still queued (nobody took
   the item), and then every receive clone is closed; otherwise the send succeeds *)
Theorem ms_broken_woken m s t e x : reach m s ->
  phase_of s t = SendWait e x -> fut s e = FSet -> mustc s t = false ->
  (snd (step s (Resume t)) = RBroken <-> has_key e (senders s) = true) /\
  (has_key e (senders s) = true -> open_recv s = 0) /\
  (has_key e (senders s) = false -> snd (step s (Resume t)) = RDone).
Proof.
  intros R Hp Hf Hm. pose proof (reach_inv m s R) as I. cbn [step]. rewrite Hp, Hf, Hm.
  refine (conj _ (conj _ _)).
  - destruct (has_key e (senders s)); cbn; split; congruence.
  - intros Hk. apply has_key_in in Hk. apply in_map_iff in Hk. destruct Hk as ([e0 x0] & E & Hin).
    cbn in E. subst e0. eapply (I_brk s I); eauto.
  - intros ->. reflexivity.
Qed.

(* 3. ClosedResourceError: exactly for operations on a handle that has itself been closed *)
Definition uses_handle (s : st) (o : op) (h : hid) : Prop :=
  send_attempt s o h \/ recv_attempt s o h \/ (o = Clone h /\ h < nh s).

Theorem ms_closed_iff s o h : uses_handle s o h ->
  (snd (step s o) = RClosed <-> hclosed s h = true).
Proof.
  intros [[(t & x & -> & Hp & Hv & Hx)|(t & x & -> & Hp & Hm)]|[[(t & -> & Hp & Hv)|(t & -> & Hp & Hm)]|[-> Hh]]];
    cbn [step].
  - rewrite Hp, Hv. cbn [is_idle negb orb]. destruct (Nat.ltb_spec x (nitem s)) as [Hlt|Hge]; [lia|].
    destruct (sn_result (set_nitem s (S x)) h x) as (H & _ & _). cbn [hclosed set_nitem] in H.
    destruct (send_nowait (set_nitem s (S x)) h x) as [s1 r]. cbn [snd] in *. exact H.
  - rewrite Hp, Hm. destruct (sn_result (finish s t) h x) as (H & _ & _).
    destruct (finish_same_stream s t h) as (E1 & _ & _). rewrite E1 in H.
    destruct (send_nowait (finish s t) h x) as [s1 r]. cbn [snd] in *.
    destruct r; cbn [snd]; try exact H. split; [discriminate|]. intros F. apply H in F. discriminate.
  - rewrite Hp, Hv. cbn [is_idle negb orb]. apply (rn_result s h).
  - rewrite Hp, Hm. destruct (rn_result (finish s t) h) as (H & _ & _).
    destruct (finish_same_stream s t h) as (E1 & _ & _). rewrite E1 in H.
    destruct (recv_nowait (finish s t) h) as [s1 r]. cbn [snd] in *.
    destruct r; cbn [snd]; try exact H. split; [discriminate|]. intros F. apply H in F. discriminate.
  - destruct (Nat.ltb_spec h (nh s)); [|lia]. cbn [negb]. destruct (hclosed s h); cbn; split; congruence.
Qed.

Theorem ms_closed_only_if s o : snd (step s o) = RClosed -> exists h, uses_handle s o h /\ hclosed s h = true.
Proof.
  intros Hr. assert (K : forall h, uses_handle s o h -> exists h, uses_handle s o h /\ hclosed s h = true).
  { intros h U. exists h. split; [exact U|]. apply (ms_closed_iff s o h U). exact Hr. }
  destruct o; cbn [step] in Hr.
  - destruct (is_idle (phase_of s t)) eqn:Ei; cbn [negb orb] in Hr; [|discriminate].
    destruct (valid_h s h SSend) eqn:Ev; cbn [negb orb] in Hr; [|discriminate].
    destruct (Nat.ltb_spec x (nitem s)) as [Hx|Hx]; [discriminate|].
    apply (K h). left. left. exists t, x. apply is_idle_true in Ei. auto.
  - destruct (is_idle (phase_of s t)) eqn:Ei; cbn [negb orb] in Hr; [|discriminate].
    destruct (valid_h s h SRecv) eqn:Ev; cbn [negb orb] in Hr; [|discriminate].
    apply (K h). right. left. left. exists t. apply is_idle_true in Ei. auto.
  - destruct (_ || _); discriminate.
  - destruct (_ || _); discriminate.
  - destruct (Nat.ltb_spec h (nh s)); cbn [negb] in Hr; [|discriminate]. apply (K h). right. right. auto.
  - revert Hr. break_step; discriminate.
  - destruct (phase_of s t) eqn:Ep; [discriminate| | | |].
    + destruct (mustc s t) eqn:Em; [discriminate|]. apply (K h). left. right. exists t, x. auto.
    + revert Hr. break_step; discriminate.
    + destruct (mustc s t) eqn:Em; [discriminate|]. apply (K h). right. left. right. exists t. auto.
    + revert Hr. destruct (fut s e); [discriminate| |].
      * destruct (is_cancelled FSet || mustc s t); [discriminate|]. destruct (slot s e); discriminate.
      * cbn. discriminate.
  - revert Hr. break_step; discriminate.
  - revert Hr. break_step; discriminate.
  - discriminate.
Qed.

(* 4. closing the last clone of one side wakes everyone on the other side.
      Invariant form: while a side is fully closed NO task is blocked (waiting on a pending event) on the other
      side, and its wake-up can run; a receiver only ever waits when there is nothing to receive, so the items
      that remain when the send side closes are handed out (in FIFO order, ms_fifo) before any EndOfStream
      (ms_eos_only_if). *)
Theorem ms_close_wakes_all m s : reach m s ->
  (open_send s = 0 -> forall t e, phase_of s t = RecvWait e ->
     fut s e <> FPending /\ snd (step s (Resume t)) <> RRejected /\ snd (step s (Resume t)) <> RBlocked) /\
  (open_recv s = 0 -> forall t e x, phase_of s t = SendWait e x ->
     fut s e <> FPending /\ snd (step s (Resume t)) <> RRejected /\ snd (step s (Resume t)) <> RBlocked) /\
  (receivers s <> [] -> buffer s = [] /\ senders s = []).
Proof.
  intros R. pose proof (reach_inv m s R) as I. refine (conj _ (conj _ (I_j1 s I))).
  - intros Ho t e Hp. pose proof (I_wr s I Ho t e Hp) as Hf. split; [exact Hf|].
    cbn [step]. rewrite Hp. destruct (fut s e); [congruence| |].
    + destruct (is_cancelled FSet || mustc s t); [split; discriminate|]. destruct (slot s e); split; discriminate.
    + cbn. split; discriminate.
  - intros Ho t e x Hp. pose proof (I_ws s I Ho t e x Hp) as Hf. split; [exact Hf|].
    cbn [step]. rewrite Hp. destruct (fut s e); [congruence| |].
    + destruct (mustc s t); [split; discriminate|]. destruct (has_key e (senders s)); split; discriminate.
    + split; discriminate.
Qed.

(* step form: what close() of the LAST clone does (memory.py:150-164, 280-295) *)
Theorem ms_last_send_close s h :
  h < nh s -> hclosed s h = false -> hside s h = SSend -> open_send s = 1 ->
  let s' := fst (step s (Close h)) in
  open_send s' = 0 /\ receivers s' = [] /\
  (forall e t, In (e, t) (receivers s) -> fut s' e = ev_set (fut s e)) /\
  buffer s' = buffer s /\ senders s' = senders s.
Proof.
  intros Hh Hc Hsd Ho. cbn [step]. destruct (Nat.ltb_spec h (nh s)); [|lia]. cbn [negb]. rewrite Hc. cbn [fst].
  unfold do_close. rewrite Hsd, Ho. cbn. refine (conj eq_refl (conj eq_refl (conj _ (conj eq_refl eq_refl)))).
  intros e t Hin. apply set_keys_in. apply in_map_iff. exists (e, t). auto.
Qed.

Theorem ms_last_recv_close s h :
  h < nh s -> hclosed s h = false -> hside s h = SRecv -> open_recv s = 1 ->
  let s' := fst (step s (Close h)) in
  open_recv s' = 0 /\ senders s' = senders s /\ buffer s' = buffer s /\
  (forall e x, In (e, x) (senders s) -> fut s' e = ev_set (fut s e)).
Proof.
  intros Hh Hc Hsd Ho. cbn [step]. destruct (Nat.ltb_spec h (nh s)); [|lia]. cbn [negb]. rewrite Hc. cbn [fst].
  unfold do_close. rewrite Hsd, Ho. cbn. refine (conj eq_refl (conj eq_refl (conj eq_refl _))).
  intros e x Hin. apply set_keys_in. apply in_map_iff. exists (e, x). auto.
Qed.

(* 5. statistics() tells the truth *)
Lemma nodup_values {A} (l : list (eid * A)) (f : A -> option eid) :
  NoDup (map fst l) -> (forall e v, In (e, v) l -> f v = Some e) -> NoDup (map snd l).
Proof.
  induction l as [|[e v] r IH]; cbn; intros Hn Hf; [constructor|].
  inversion Hn as [|? ? Hk Hr]; subst. constructor; [|apply IH; auto].
  intros Hin. apply in_map_iff in Hin. destruct Hin as ([e' v'] & E & Hin). cbn in E. subst v'.
  assert (f v = Some e) by (apply Hf; now left). assert (f v = Some e') by (apply Hf; now right).
  assert (e' = e) by congruence. subst. apply Hk. apply in_map_iff. exists (e, v). auto.
Qed.

Theorem ms_counts_true m s : reach m s ->
  (* open_send_streams / open_receive_streams = number of clones of that side that are not closed *)
  open_send s = count_open SSend (hside s) (hclosed s) (nh s) /\
  open_recv s = count_open SRecv (hside s) (hclosed s) (nh s) /\
  (* tasks_waiting_send = |waiting_senders|: one entry per distinct task that is inside a blocked send(),
     and every task whose wait is still pending has its entry *)
  NoDup (map fst (senders s)) /\
  (forall e x, In (e, x) (senders s) -> exists t, phase_of s t = SendWait e x) /\
  (forall t e x, phase_of s t = SendWait e x -> fut s e = FPending -> In (e, x) (senders s)) /\
  (* tasks_waiting_receive likewise *)
  NoDup (map fst (receivers s)) /\ NoDup (map snd (receivers s)) /\
  (forall e t, In (e, t) (receivers s) -> phase_of s t = RecvWait e) /\
  (forall t e, phase_of s t = RecvWait e -> fut s e = FPending -> In (e, t) (receivers s)) /\
  (* distinct waiting tasks wait on distinct events *)
  (forall t1 t2 e, wait_ev (phase_of s t1) = Some e -> wait_ev (phase_of s t2) = Some e -> t1 = t2) /\
  (* current_buffer_used = |buffer| is what conservation says it must be *)
  length (entered s) =
    length (returned s) + length (inflight s) + length (lost s) + length (buffer s) + length (senders s) +
    length (withdrawn s).
Proof.
  intros R. pose proof (reach_inv m s R) as I.
  refine (conj (I_cs s I) (conj (I_cr s I) (conj (I_snd s I) (conj (I_sk s I) (conj (I_spend s I)
         (conj (I_rnd s I) (conj _ (conj (I_rk s I) (conj (I_rpend s I) (conj (I_inj s I) _)))))))))).
  - apply (nodup_values (receivers s) (fun t => wait_ev (phase_of s t)) (I_rnd s I)).
    intros e t H. rewrite (I_rk s I e t H). reflexivity.
  - destruct (ms_conservation m s R) as (P & _). apply Permutation_length in P.
    rewrite !app_length, !map_length in P. lia.
Qed.

(* ---------- non-vacuity ---------- *)
(* two receivers blocked, one clone of the send side: closing the original does not wake them, closing the
   clone (the last one) does; both then report EndOfStream *)
Definition ex_close_send := [Recv 1 1; Resume 1; Recv 2 1; Resume 2; Clone 0; Close 0].
Example ex_last_send_close_wakes_receivers :
  let s := final step (init (Fin 0)) ex_close_send in
  open_send s = 1 /\ length (receivers s) = 2 /\ hside s 2 = SSend /\ hclosed s 2 = false /\
  let s' := fst (step s (Close 2)) in
  open_send s' = 0 /\ receivers s' = [] /\ phase_of s' 1 = RecvWait 0 /\ fut s' 0 = FSet /\ mustc s' 1 = false /\
  slot s' 0 = None /\ snd (step s' (Resume 1)) = REndOfStream /\
  snd (step (fst (step s' (Resume 1))) (Resume 2)) = REndOfStream.
Proof. vm_compute. auto 20. Qed.

(* two senders blocked; closing the last receive clone wakes both with BrokenResourceError; their items are
   withdrawn *)
Definition ex_close_recv := [Send 1 0 1; Resume 1; Send 2 0 2; Resume 2; Close 1].
Example ex_last_recv_close_wakes_senders :
  let s := final step (init (Fin 0)) ex_close_recv in
  open_recv s = 0 /\ length (senders s) = 2 /\ phase_of s 1 = SendWait 0 1 /\ fut s 0 = FSet /\ mustc s 1 = false /\
  has_key 0 (senders s) = true /\ snd (step s (Resume 1)) = RBroken /\
  snd (step (fst (step s (Resume 1))) (Resume 2)) = RBroken /\
  withdrawn (fst (step (fst (step s (Resume 1))) (Resume 2))) = [1; 2].
Proof. vm_compute. auto 20. Qed.

(* items remain when the send side closes: they are drained in order, then EndOfStream *)
Definition ex_drain := [SendNowait 1 0 1; SendNowait 1 0 2; Close 0].
Example ex_drain_then_eos :
  let s := final step (init (Fin 3)) ex_drain in
  open_send s = 0 /\ buffer s = [1; 2] /\ ~ finished s /\
  recv_attempt s (RecvNowait 2 1) 1 /\ hclosed s 1 = false /\
  snd (step s (RecvNowait 2 1)) = RItem 1 /\
  let s2 := final step s [RecvNowait 2 1; RecvNowait 2 1] in
  returned s2 = [1; 2] /\ finished s2 /\ snd (step s2 (RecvNowait 2 1)) = REndOfStream.
Proof.
  vm_compute. refine (conj eq_refl (conj eq_refl (conj _ _))); [intros (_ & H & _); discriminate|].
  refine (conj _ (conj eq_refl (conj eq_refl _))); [left; exists 2; auto|auto 10].
Qed.

(* a blocked sender whose own handle is closed under it: its item is still delivered before EndOfStream *)
Example ex_pending_sender_item_before_eos :
  let s := final step (init (Fin 0)) [Send 1 0 9; Resume 1; Close 0] in
  open_send s = 0 /\ senders s = [(0, 9)] /\ snd (step s (RecvNowait 2 1)) = RItem 9 /\
  snd (step (fst (step s (RecvNowait 2 1))) (RecvNowait 2 1)) = REndOfStream.
Proof. vm_compute. auto. Qed.

(* operations on a closed handle, while another clone of the same side is open *)
Example ex_closed_handle :
  let s := final step (init (Fin 1)) [Clone 0; Close 0] in
  open_send s = 1 /\ hclosed s 0 = true /\ hclosed s 2 = false /\
  uses_handle s (SendNowait 1 0 1) 0 /\ snd (step s (SendNowait 1 0 1)) = RClosed /\
  snd (step s (Clone 0)) = RClosed /\ snd (step s (SendNowait 1 2 1)) = RDone /\
  send_attempt s (SendNowait 1 2 1) 2.
Proof.
  vm_compute. refine (conj eq_refl (conj eq_refl (conj eq_refl (conj _ (conj eq_refl (conj eq_refl (conj eq_refl _))))))).
  - left. left. exists 1, 1. auto.
  - left. exists 1, 1. auto.
Qed.

(* counts after a clone/close history with waiters present *)
Example ex_counts :
  let s := final step (init (Fin 0)) [Clone 0; Clone 1; Clone 1; Close 3; Recv 1 1; Resume 1; Recv 2 4; Resume 2; Cancel 2] in
  open_send s = 2 /\ open_recv s = 2 /\ length (receivers s) = 2 /\ nh s = 5 /\
  count_open SRecv (hside s) (hclosed s) (nh s) = 2.
Proof. vm_compute. auto. Qed.
(* ======================================================================================== *)
(*            additions after the independent audit (hunt/audit.md, C12 4.1-4.2, C13 4.1-4.3) *)
(* ======================================================================================== *)

(* ---------- C12 4.1: the skip rule of send_nowait is safe ---------- *)
(* While it is still queued, a receiver that send_nowait would skip (has_pending = true) has a waiter future that is
   ALREADY cancelled: the model's ScopeCancel delivers Task.cancel() at once, so "pending cancellation" is never a
   mere prediction in the model (props/C12.v explains which real-code situation this leaves out). *)
Theorem ms_skip_means_future_cancelled m s e t : reach m s ->
  In (e, t) (receivers s) -> has_pending s t = true ->
  fut s e = FCancelled /\ snd (step s (Resume t)) = RCancelled.
Proof.
  intros R Hin Hp. pose proof (reach_inv m s R) as I.
  pose proof (I_rk s I e t Hin) as Ht.
  assert (Hf : fut s e = FCancelled).
  { destruct (fut s e) eqn:Ef; [| |reflexivity].
    - rewrite (has_pending_pending_false s t e I) in Hp; [discriminate|rewrite Ht; reflexivity|exact Ef].
    - exfalso. eapply (I_rfut s I); eauto. }
  split; [exact Hf|]. cbn [step]. rewrite Ht, Hf. reflexivity.
Qed.

(* After the skip: a receiver that is no longer in waiting_receivers, was handed nothing, while send clones remain,
   has a cancelled waiter future: its wake-up is queued and its receive() ends with CancelledError - never a
   silent hang. *)
Theorem ms_skipped_receiver_is_cancelled m s t e : reach m s ->
  phase_of s t = RecvWait e -> ~ In (e, t) (receivers s) -> slot s e = None -> open_send s > 0 ->
  (fut s e = FCancelled \/ mustc s t = true) /\ fut s e <> FPending /\
  snd (step s (Resume t)) = RCancelled.
Proof.
  intros R Hp Hn Hs Ho. pose proof (reach_inv m s R) as I.
  assert (Hf : fut s e = FCancelled).
  { destruct (fut s e) eqn:Ef; [| |reflexivity].
    - exfalso. apply Hn. apply (I_rpend s I); assumption.
    - destruct (I_eos s I t e Hp Ef Hs) as [H _]. lia. }
  refine (conj (or_introl Hf) (conj _ _)); [congruence|].
  cbn [step]. rewrite Hp, Hf. reflexivity.
Qed.

Example ex_skipped_receiver_hyp :
  let s := final step (init (Fin 1)) [Recv 1 1; Resume 1; ScopeCancel 1; SendNowait 2 0 7] in
  phase_of s 1 = RecvWait 0 /\ receivers s = [] /\ slot s 0 = None /\ open_send s = 1 /\ buffer s = [7] /\
  snd (step s (Resume 1)) = RCancelled.
Proof. vm_compute. auto 10. Qed.

(* ---------- C12 4.2: trace-level FIFO of the two waiting queues ---------- *)
Lemma subseq_split {A} (a1 a2 pre post : list A) e :
  NoDup (pre ++ e :: post) -> subseq (a1 ++ e :: a2) (pre ++ e :: post) ->
  subseq a1 pre /\ subseq a2 post.
Proof.
  revert a1. induction pre as [|p pre IH]; intros a1 Hn Hs; cbn in *.
  - inversion Hn as [|? ? He Hn']; subst.
    destruct a1 as [|z a1]; cbn in *.
    + inversion Hs as [|? ? ? H|? ? ? H]; subst.
      * exfalso. apply He. eapply subseq_in; [exact H|]. now left.
      * split; [apply ss_nil|exact H].
    + exfalso. inversion Hs as [|? ? ? H|? ? ? H]; subst.
      * apply He. eapply subseq_in; [exact H|]. right. apply in_or_app. right. now left.
      * apply He. eapply subseq_in; [exact H|]. apply in_or_app. right. now left.
  - inversion Hn as [|? ? Hp Hn']; subst.
    inversion Hs as [|? ? ? H|? ? ? H Ea]; subst.
    + destruct (IH a1 Hn' H) as [H1 H2]. split; [apply ss_skip, H1|exact H2].
    + destruct a1 as [|z a1]; cbn in *.
      * injection Ea as -> ->. exfalso. apply Hp. apply in_or_app. right. now left.
      * injection Ea as -> ->. destruct (IH a1 Hn' H) as [H1 H2]. split; [apply ss_take, H1|exact H2].
Qed.

(* senders: the entry that receive_nowait serves is the head of the queue (ms_sender_served_is_head), and the head
   has no queued predecessor in the arrival log: every entry that started waiting earlier has already been served
   or withdrawn *)
Theorem ms_sender_fifo_trace m s e y r : reach m s ->
  senders s = (e, y) :: r ->
  forall pre post, senq s = pre ++ e :: post ->
  (forall e', In e' pre -> ~ In e' (map fst (senders s))) /\ subseq (map fst r) post.
Proof.
  intros R Hs pre post Hq. pose proof (reach_inv m s R) as I.
  pose proof (I_senq s I) as Hsub. pose proof (I_senqnd s I) as Hnd. rewrite Hs, Hq in *. cbn in Hsub.
  destruct (subseq_split [] (map fst r) pre post e Hnd Hsub) as [_ H2].
  split; [|exact H2]. intros e' Hin [Heq|Hr].
  - subst e'. apply NoDup_remove_2 in Hnd. apply Hnd. apply in_or_app. now left.
  - apply (subseq_in _ _ _ H2) in Hr. apply NoDup_remove_1 in Hnd.
    eapply (nodup_app_disj pre post e'); eauto.
Qed.

(* how entries leave the sender queue: only by being served as the head by a receive, or withdrawn by their own
   task's resumption *)
Lemma sn_senders s h x : senders (fst (send_nowait s h x)) = senders s.
Proof.
  unfold send_nowait. destruct (hclosed s h); [reflexivity|]. destruct (Nat.eqb (open_recv s) 0); [reflexivity|].
  destruct (pop_live s (receivers s)) as [[[e t]|] rest]; [reflexivity|].
  destruct (xlt (length (buffer s)) (maxb s)); reflexivity.
Qed.

Lemma rn_senders s h : senders (fst (recv_nowait s h)) = senders s \/
                       exists e y, senders s = (e, y) :: senders (fst (recv_nowait s h)).
Proof.
  unfold recv_nowait. destruct (hclosed s h); [now left|].
  unfold rn_move. destruct (senders s) as [|[e y] r] eqn:Hs.
  - left. unfold rn_pop. destruct (buffer s); [destruct (Nat.eqb (open_send s) 0)|]; cbn; auto.
  - right. exists e, y. unfold rn_pop. cbn [buffer set_fut set_buffer set_senders].
    destruct (buffer s ++ [y]); [destruct (Nat.eqb _ 0)|]; reflexivity.
Qed.

Theorem ms_sender_entries_leave s o :
  let s' := fst (step s o) in
  senders s' = senders s \/
  (exists e x, senders s' = senders s ++ [(e, x)]) \/
  (exists e y, senders s = (e, y) :: senders s' /\
               ((exists t h, o = RecvNowait t h) \/ (exists t h, o = Resume t /\ phase_of s t = RecvCk h))) \/
  (exists t e x, o = Resume t /\ phase_of s t = SendWait e x /\ senders s' = del_key e (senders s)).
Proof.
  destruct o; cbn [step].
  - left. destruct (_ || _); [reflexivity|]. pose proof (sn_senders (set_nitem s (S x)) h x) as H.
    destruct (send_nowait (set_nitem s (S x)) h x) as [s1 r]. cbn in *. destruct r; exact H.
  - destruct (_ || _); [now left|]. destruct (rn_senders s h) as [H|(e & y & H)]; [now left|].
    right. right. left. exists e, y. split; [exact H|]. left. eauto.
  - left. destruct (_ || _); reflexivity.
  - left. destruct (_ || _); reflexivity.
  - left. unfold do_clone. break_step; reflexivity.
  - left. unfold do_close. break_step; reflexivity.
  - destruct (phase_of s t) eqn:Ep; [now left| | | |].
    + destruct (mustc s t); [now left|]. pose proof (sn_senders (finish s t) h x) as H.
      destruct (send_nowait (finish s t) h x) as [s1 r]. cbn in *.
      destruct r; cbn; try (left; exact H). right. left. rewrite H. eauto.
    + destruct (fut s e) eqn:Ef; [now left| |].
      * destruct (mustc s t); [|destruct (has_key e (senders s)) eqn:Hk].
        -- unfold drop_sender. destruct (has_key e (senders s)) eqn:Hk; cbn; [|now left].
           right. right. right. exists t, e, x. auto.
        -- unfold drop_sender. rewrite Hk. cbn. right. right. right. exists t, e, x. auto.
        -- now left.
      * unfold drop_sender. destruct (has_key e (senders s)) eqn:Hk; cbn; [|now left].
        right. right. right. exists t, e, x. auto.
    + destruct (mustc s t); [now left|].
      destruct (rn_senders (finish s t) h) as [H|(e & y & H)].
      * left. destruct (recv_nowait (finish s t) h) as [s1 r]. cbn in *. destruct r; exact H.
      * right. right. left. exists e, y. cbn in H.
        destruct (recv_nowait (finish s t) h) as [s1 r]. cbn in *.
        split; [|right; eauto]. destruct r; cbn; exact H.
    + left. destruct (fut s e); [reflexivity| |]; unfold lose; cbn; break_step; reflexivity.
  - left. unfold task_cancel. break_step; reflexivity.
  - left. unfold scope_cancel, task_cancel. cbn. break_step; reflexivity.
  - now left.
Qed.

(* receivers: the entry that send_nowait serves is the first queued receiver without a pending cancellation
   (ms_receiver_served_first_live); every entry that started waiting earlier is either no longer queued, or is
   queued with an already cancelled future and is dropped by this very send; nothing older survives in the queue *)
Theorem ms_receiver_fifo_trace m s e t rest : reach m s ->
  pop_live s (receivers s) = (Some (e, t), rest) ->
  forall pre post, renq s = pre ++ e :: post ->
  subseq (map fst rest) post /\
  forall e', In e' pre ->
    ~ In e' (map fst rest) /\
    (In e' (map fst (receivers s)) ->
       exists t', In (e', t') (receivers s) /\ has_pending s t' = true /\ fut s e' = FCancelled).
Proof.
  intros R Hpl pre post Hq. pose proof (reach_inv m s R) as I.
  pose proof (pop_live_spec s (receivers s)) as Hsp. rewrite Hpl in Hsp.
  destruct Hsp as (pre_r & Hr & Hlive & Hpre).
  pose proof (I_renq s I) as Hsub. pose proof (I_renqnd s I) as Hnd.
  rewrite Hr, Hq, map_app in *. cbn [map fst] in Hsub.
  destruct (subseq_split (map fst pre_r) (map fst rest) pre post e Hnd Hsub) as [H1 H2].
  split; [exact H2|]. intros e' Hin.
  assert (Hnotpost : ~ In e' post).
  { intros Hp. apply NoDup_remove_1 in Hnd. eapply (nodup_app_disj pre post e'); eauto. }
  assert (Hne : e' <> e).
  { intros ->. apply NoDup_remove_2 in Hnd. apply Hnd. apply in_or_app. now left. }
  split.
  - intros Hx. apply Hnotpost. eapply subseq_in; eauto.
  - intros Hx. apply in_app_or in Hx. destruct Hx as [Hx|[Hx|Hx]].
    + apply in_map_iff in Hx. destruct Hx as ([e0 t'] & E & Hx). cbn in E. subst e0.
      assert (Hin' : In (e', t') (receivers s)) by (rewrite Hr; apply in_or_app; now left).
      exists t'. rewrite <- Hr. refine (conj Hin' (conj (Hpre _ _ Hx) _)).
      apply (ms_skip_means_future_cancelled m s e' t' R Hin' (Hpre _ _ Hx)).
    + cbn in Hx. congruence.
    + exfalso. apply Hnotpost. eapply subseq_in; eauto.
Qed.

Example ex_receiver_fifo_hyp :
  let s := final step (init (Fin 0)) [Recv 1 1; Resume 1; Recv 2 1; Resume 2; Recv 3 1; Resume 3; Cancel 1] in
  pop_live s (receivers s) = (Some (1, 2), [(2, 3)]) /\ renq s = [0; 1; 2] /\ fut s 0 = FCancelled.
Proof. vm_compute. auto. Qed.

Lemma pop_live_ext s s' rs :
  (forall e t, In (e, t) rs -> has_pending s' t = has_pending s t) -> pop_live s' rs = pop_live s rs.
Proof.
  induction rs as [|[e t] r IH]; cbn; intros H; [reflexivity|].
  rewrite (H e t) by now left. rewrite IH; [reflexivity|]. intros e0 t0 H0. apply (H e0 t0). now right.
Qed.

Lemma has_pending_finish_other s t t' : t' <> t -> has_pending (finish s t) t' = has_pending s t'.
Proof.
  intros Hn. unfold has_pending, waiter. cbn. now rewrite !upd_other by assumption.
Qed.

Lemma sn_receivers s h x :
  receivers (fst (send_nowait s h x)) = receivers s \/
  receivers (fst (send_nowait s h x)) = snd (pop_live s (receivers s)).
Proof.
  unfold send_nowait. destruct (hclosed s h); [now left|]. destruct (Nat.eqb (open_recv s) 0); [now left|].
  pose proof (pop_live_spec s (receivers s)) as Hsp.
  destruct (pop_live s (receivers s)) as [[[e t]|] rest]; [right; reflexivity|].
  destruct Hsp as [-> _]. destruct (xlt (length (buffer s)) (maxb s)); right; reflexivity.
Qed.

Lemma rn_receivers s h : receivers (fst (recv_nowait s h)) = receivers s.
Proof.
  unfold recv_nowait. destruct (hclosed s h); [reflexivity|].
  unfold rn_move. destruct (senders s) as [|[e y] r].
  - unfold rn_pop. destruct (buffer s); [destruct (Nat.eqb (open_send s) 0)|]; reflexivity.
  - unfold rn_pop. cbn [buffer set_fut set_buffer set_senders].
    destruct (buffer s ++ [y]); [destruct (Nat.eqb _ 0)|]; reflexivity.
Qed.

(* how entries leave the receiver queue: served or skipped by a send (pop_live), removed by their own task's
   resumption, or all released at once by the close of the last send clone *)
Theorem ms_receiver_entries_leave m s o : reach m s ->
  let s' := fst (step s o) in
  receivers s' = receivers s \/
  (exists e t, receivers s' = receivers s ++ [(e, t)]) \/
  (((exists t h x, o = SendNowait t h x) \/ (exists t h x, o = Resume t /\ phase_of s t = SendCk h x)) /\
   receivers s' = snd (pop_live s (receivers s))) \/
  (exists t e, o = Resume t /\ phase_of s t = RecvWait e /\ receivers s' = del_key e (receivers s)) \/
  (exists h, o = Close h /\ receivers s' = [] /\ open_send s' = 0).
Proof.
  intros R. pose proof (reach_inv m s R) as I. destruct o; cbn [step].
  - destruct (_ || _); [now left|].
    destruct (sn_receivers (set_nitem s (S x)) h x) as [H|H].
    + left. destruct (send_nowait (set_nitem s (S x)) h x) as [s1 r]. cbn in *. destruct r; exact H.
    + right. right. left. split; [left; eauto|].
      rewrite (pop_live_ext s (set_nitem s (S x))) in H by reflexivity.
      destruct (send_nowait (set_nitem s (S x)) h x) as [s1 r]. cbn in *. destruct r; exact H.
  - left. destruct (_ || _); [reflexivity|]. apply rn_receivers.
  - left. destruct (_ || _); reflexivity.
  - left. destruct (_ || _); reflexivity.
  - left. unfold do_clone. break_step; reflexivity.
  - destruct (negb _); [now left|]. destruct (hclosed s h); [now left|]. cbn [fst].
    unfold do_close. destruct (hside s h); [|left; destruct (Nat.eqb _ 0); reflexivity].
    destruct (Nat.eqb_spec (pred (open_send s)) 0) as [E|E]; [|now left].
    right. right. right. right. exists h. cbn. auto.
  - destruct (phase_of s t) eqn:Ep; [now left| | | |].
    + destruct (mustc s t); [now left|].
      assert (Hpl : pop_live (finish s t) (receivers s) = pop_live s (receivers s)).
      { apply pop_live_ext. intros e0 t0 Hin. apply has_pending_finish_other. intros ->.
        apply (I_rk s I) in Hin. congruence. }
      destruct (sn_receivers (finish s t) h x) as [H|H].
      * destruct (send_nowait (finish s t) h x) as [s1 r]. cbn in *.
        destruct r; cbn; try (left; exact H).
      * cbn [receivers finish set_scopec set_mustc set_phase_of] in H. rewrite Hpl in H.
        right. right. left. split; [right; eauto|].
        destruct (send_nowait (finish s t) h x) as [s1 r]. cbn in *. destruct r; cbn; exact H.
    + left. destruct (fut s e); [reflexivity| |]; unfold drop_sender; break_step; reflexivity.
    + destruct (mustc s t); [now left|]. pose proof (rn_receivers (finish s t) h) as H.
      destruct (recv_nowait (finish s t) h) as [s1 r]. cbn in *.
      destruct r; cbn; try (left; exact H). right. left. rewrite H. eauto.
    + destruct (fut s e) eqn:Ef; [now left| |].
      * right. right. right. left. exists t, e. refine (conj eq_refl (conj Ep _)).
        destruct (is_cancelled FSet || mustc s t); [unfold lose; cbn; destruct (slot s e); reflexivity|].
        destruct (slot s e); reflexivity.
      * right. right. right. left. exists t, e. refine (conj eq_refl (conj Ep _)).
        cbn. unfold lose. cbn. destruct (slot s e); reflexivity.
  - left. unfold task_cancel. break_step; reflexivity.
  - left. unfold scope_cancel, task_cancel. cbn. break_step; reflexivity.
  - now left.
Qed.

(* ======================================================================================== *)
(*                                  C13 audit 4.1 - 4.3                                      *)
(* ======================================================================================== *)

(* ---------- 4.1 recorded decision: blocked on one's OWN side being closed ---------- *)
(* A task blocked in receive() on a handle that another task then closes is NOT woken: close() of the last receive
   clone wakes the senders only (memory.py:150-164).  It stays blocked, with every send refused by
   BrokenResourceError, until the send side closes too (then: EndOfStream).  The property text speaks about the
   PEER side only, so this is recorded as observation O-own-close, not as a violation. *)
Definition ex_own_close := [Recv 1 1; Resume 1; Close 1].
Theorem ms_blocked_on_own_closed_side : exists m ops t e,
  let s := final step (init m) ops in
  open_recv s = 0 /\ phase_of s t = RecvWait e /\ fut s e = FPending /\ open_send s > 0 /\
  In (e, t) (receivers s) /\
  (* every send is refused, the receiver is not served ... *)
  snd (step s (SendNowait 2 0 1)) = RBroken /\ snd (step s (Resume t)) = RRejected /\
  (* ... and only the close of the send side releases it, with EndOfStream on a handle that is itself closed *)
  snd (step (fst (step s (Close 0))) (Resume t)) = REndOfStream.
Proof. exists (Fin 0), ex_own_close, 1, 0. vm_compute. auto 10. Qed.

(* the symmetric case: a sender blocked on a handle that is then closed stays queued and its item is still
   delivered *)
Theorem ms_sender_blocked_on_own_closed_side : exists m ops t e x,
  let s := final step (init m) ops in
  open_send s = 0 /\ phase_of s t = SendWait e x /\ fut s e = FPending /\ open_recv s > 0 /\
  snd (step s (RecvNowait 2 1)) = RItem x /\
  snd (step (fst (step s (RecvNowait 2 1))) (Resume t)) = RDone.
Proof. exists (Fin 0), [Send 1 0 9; Resume 1; Close 0], 1, 0, 9. vm_compute. auto 10. Qed.

(* ---------- 4.2 exact characterisation of when receive / send BLOCK ---------- *)
Lemma rn_wouldblock s h :
  snd (recv_nowait s h) = RWouldBlock <->
  hclosed s h = false /\ open_send s <> 0 /\ buffer s = [] /\ senders s = [].
Proof.
  unfold recv_nowait. destruct (hclosed s h) eqn:Hc.
  - cbn. split; [discriminate|]. intros [H _]. discriminate.
  - unfold rn_move. destruct (senders s) as [|[e y] r] eqn:Hs.
    + unfold rn_pop. destruct (buffer s) as [|x b] eqn:Hb.
      * destruct (Nat.eqb_spec (open_send s) 0) as [Ho|Ho]; cbn; split; auto; try discriminate; tauto.
      * cbn. split; [discriminate|]. intros (_ & _ & H & _). discriminate.
    + unfold rn_pop. cbn [buffer set_fut set_buffer set_senders].
      destruct (buffer s ++ [y]) as [|x b] eqn:Hb; [destruct (buffer s); discriminate|].
      cbn. split; [discriminate|]. intros (_ & _ & _ & H). discriminate.
Qed.

(* a receive attempt on an open handle waits (receive(): blocks; receive_nowait(): WouldBlock) exactly when some send
   clone is open and there is neither a buffered item nor a blocked sender's item *)
Theorem ms_recv_blocks_iff s o h : recv_attempt s o h -> hclosed s h = false ->
  ((snd (step s o) = RBlocked \/ snd (step s o) = RWouldBlock) <->
   (open_send s > 0 /\ buffer s = [] /\ senders s = [])) /\
  (snd (step s o) = RBlocked -> exists t, o = Resume t) /\
  (snd (step s o) = RWouldBlock -> exists t, o = RecvNowait t h).
Proof.
  intros [(t & -> & Hp & Hv)|(t & -> & Hp & Hm)] Hc; cbn [step].
  - rewrite Hp, Hv. cbn [is_idle negb orb]. pose proof (rn_wouldblock s h) as H.
    pose proof (rn_ghost s h) as G. cbv zeta in G.
    assert (Hiff : snd (recv_nowait s h) = RWouldBlock <-> (open_send s > 0 /\ buffer s = [] /\ senders s = [])).
    { rewrite H. split; [intros (_ & A & B & C)|intros (A & B & C)]; repeat split; auto; lia. }
    assert (Hnb : snd (recv_nowait s h) <> RBlocked) by (intros E; rewrite E in G; tauto).
    refine (conj _ (conj _ _)).
    + split; [intros [X|X]; [contradiction|apply Hiff, X]|intros X; right; apply Hiff, X].
    + intros X. contradiction.
    + intros _. eauto.
  - rewrite Hp, Hm. pose proof (rn_wouldblock (finish s t) h) as H.
    pose proof (rn_ghost (finish s t) h) as G. cbv zeta in G.
    destruct (finish_same_stream s t h) as (E1 & _ & _). rewrite E1 in H.
    cbn [open_send buffer senders finish set_scopec set_mustc set_phase_of] in H.
    destruct (recv_nowait (finish s t) h) as [s1 r0]. cbn [snd fst] in *.
    assert (Hiff : r0 = RWouldBlock <-> (open_send s > 0 /\ buffer s = [] /\ senders s = [])).
    { rewrite H. split; [intros (_ & A & B & C)|intros (A & B & C)]; repeat split; auto; lia. }
    destruct r0; cbn [snd]; try (exfalso; tauto);
      (refine (conj _ (conj _ _));
       [split; [intros [X|X]; try discriminate X; apply Hiff; reflexivity
               |intros X; first [left; reflexivity|apply Hiff in X; discriminate X]]
       |intros X; try discriminate X; eauto
       |intros X; try discriminate X; eauto]).
Qed.

Lemma pop_live_none_iff s rs :
  fst (pop_live s rs) = None <-> (forall e t, In (e, t) rs -> has_pending s t = true).
Proof.
  induction rs as [|[e t] r IH]; cbn.
  - split; [intros _ ? ? []|reflexivity].
  - destruct (has_pending s t) eqn:Ep.
    + rewrite IH. split.
      * intros H e0 t0 [E|Hin]; [injection E as <- <-; exact Ep|eauto].
      * intros H e0 t0 Hin. apply (H e0 t0). now right.
    + cbn. split; [discriminate|]. intros H. rewrite (H e t) in Ep; [discriminate|now left].
Qed.

Lemma sn_wouldblock s h x :
  snd (send_nowait s h x) = RWouldBlock <->
  hclosed s h = false /\ open_recv s <> 0 /\ (forall e t, In (e, t) (receivers s) -> has_pending s t = true) /\
  xlt (length (buffer s)) (maxb s) = false.
Proof.
  unfold send_nowait. destruct (hclosed s h) eqn:Hc.
  - cbn. split; [discriminate|]. intros [H _]. discriminate.
  - destruct (Nat.eqb_spec (open_recv s) 0) as [Ho|Ho].
    + cbn. split; [discriminate|]. intros (_ & H & _). contradiction.
    + pose proof (pop_live_none_iff s (receivers s)) as Hn.
      destruct (pop_live s (receivers s)) as [[[e t]|] rest]; cbn [fst] in Hn.
      * cbn. split; [discriminate|]. intros (_ & _ & H & _). apply Hn in H. discriminate.
      * destruct (xlt (length (buffer s)) (maxb s)) eqn:Hx; cbn.
        -- split; [discriminate|]. intros (_ & _ & _ & H). discriminate.
        -- split; [intros _|reflexivity]. refine (conj eq_refl (conj Ho (conj _ eq_refl))). apply Hn. reflexivity.
Qed.

(* a send attempt on an open handle waits (send(): blocks; send_nowait(): WouldBlock) exactly when some receive clone is
   open, every queued receiver has a pending cancellation (none can take the item) and the buffer is full *)
Theorem ms_send_blocks_iff m s o h : reach m s -> send_attempt s o h -> hclosed s h = false ->
  ((snd (step s o) = RBlocked \/ snd (step s o) = RWouldBlock) <->
   (open_recv s > 0 /\ (forall e t, In (e, t) (receivers s) -> has_pending s t = true) /\
    xlt (length (buffer s)) (maxb s) = false)) /\
  (snd (step s o) = RBlocked -> exists t, o = Resume t) /\
  (snd (step s o) = RWouldBlock -> exists t x, o = SendNowait t h x).
Proof.
  intros R [(t & x & -> & Hp & Hv & Hx)|(t & x & -> & Hp & Hm)] Hc; pose proof (reach_inv m s R) as I; cbn [step].
  - rewrite Hp, Hv. cbn [is_idle negb orb]. destruct (Nat.ltb_spec x (nitem s)) as [Hlt|Hge]; [lia|].
    pose proof (sn_wouldblock (set_nitem s (S x)) h x) as H.
    pose proof (sn_ghost (set_nitem s (S x)) h x) as G. cbv zeta in G.
    cbn [hclosed open_recv receivers buffer maxb set_nitem] in H.
    assert (Hsame : forall t', has_pending (set_nitem s (S x)) t' = has_pending s t') by reflexivity.
    destruct (send_nowait (set_nitem s (S x)) h x) as [s1 r0]. cbn [snd fst] in *.
    assert (Hiff : r0 = RWouldBlock <->
              (open_recv s > 0 /\ (forall e t, In (e, t) (receivers s) -> has_pending s t = true) /\
               xlt (length (buffer s)) (maxb s) = false)).
    { rewrite H. split; [intros (_ & A & B & C)|intros (A & B & C)]; repeat split; auto; try lia. }
    destruct r0; cbn [snd]; try (exfalso; tauto);
      (refine (conj _ (conj _ _));
       [split; [intros [X|X]; try discriminate X; apply Hiff; reflexivity
               |intros X; first [right; reflexivity|apply Hiff in X; discriminate X]]
       |intros X; try discriminate X; eauto
       |intros X; try discriminate X; eauto]).
  - rewrite Hp, Hm. pose proof (sn_wouldblock (finish s t) h x) as H.
    pose proof (sn_ghost (finish s t) h x) as G. cbv zeta in G.
    destruct (finish_same_stream s t h) as (E1 & _ & E3). rewrite E1, E3 in H.
    cbn [receivers buffer maxb finish set_scopec set_mustc set_phase_of] in H.
    assert (Hsame : forall e t', In (e, t') (receivers s) -> has_pending (finish s t) t' = has_pending s t').
    { intros e t' Hin. apply has_pending_finish_other. intros ->. apply (I_rk s I) in Hin. congruence. }
    destruct (send_nowait (finish s t) h x) as [s1 r0]. cbn [snd fst] in *.
    assert (Hiff : r0 = RWouldBlock <->
              (open_recv s > 0 /\ (forall e t, In (e, t) (receivers s) -> has_pending s t = true) /\
               xlt (length (buffer s)) (maxb s) = false)).
    { rewrite H. split; [intros (_ & A & B & C)|intros (A & B & C)]; repeat split; auto; try lia.
      - intros e t' Hin. rewrite <- (Hsame e t' Hin). eauto.
      - intros e t' Hin. rewrite (Hsame e t' Hin). eauto. }
    destruct r0; cbn [snd]; try (exfalso; tauto);
      (refine (conj _ (conj _ _));
       [split; [intros [X|X]; try discriminate X; apply Hiff; reflexivity
               |intros X; first [left; reflexivity|apply Hiff in X; discriminate X]]
       |intros X; try discriminate X; eauto
       |intros X; try discriminate X; eauto]).
Qed.

Example ex_send_blocks_hyp :
  let s := final step (init (Fin 0)) [Recv 1 1; Resume 1; Cancel 1; Send 2 0 5] in
  send_attempt s (Resume 2) 0 /\ hclosed s 0 = false /\ receivers s = [(0, 1)] /\ has_pending s 1 = true /\
  snd (step s (Resume 2)) = RBlocked.
Proof. vm_compute. refine (conj _ (conj eq_refl (conj eq_refl (conj eq_refl eq_refl)))). right. exists 2, 5. auto. Qed.

(* ---------- 4.3 trace level: after the last clone of a side closed, resuming every blocked peer once leaves nobody
              in a wait phase on that side ---------- *)
Lemma sn_frame_phase s h x :
  let s1 := fst (send_nowait s h x) in
  phase_of s1 = phase_of s /\ open_send s1 = open_send s /\ open_recv s1 = open_recv s.
Proof.
  unfold send_nowait. cbv zeta. destruct (hclosed s h); [auto|]. destruct (Nat.eqb (open_recv s) 0); [auto|].
  destruct (pop_live s (receivers s)) as [[[e t]|] rest]; [cbn; auto|].
  destruct (xlt (length (buffer s)) (maxb s)); cbn; auto.
Qed.

Lemma rn_frame_phase s h :
  let s1 := fst (recv_nowait s h) in
  phase_of s1 = phase_of s /\ open_send s1 = open_send s /\ open_recv s1 = open_recv s.
Proof.
  unfold recv_nowait. cbv zeta. destruct (hclosed s h); [auto|].
  unfold rn_move. destruct (senders s) as [|[e y] r].
  - unfold rn_pop. destruct (buffer s); [destruct (Nat.eqb (open_send s) 0)|]; cbn; auto.
  - unfold rn_pop. cbn [buffer set_fut set_buffer set_senders].
    destruct (buffer s ++ [y]); [destruct (Nat.eqb _ 0)|]; cbn; auto.
Qed.

(* Resume t touches nobody else's phase and leaves the open counts alone *)
Lemma resume_frame s t :
  let s' := fst (step s (Resume t)) in
  open_send s' = open_send s /\ open_recv s' = open_recv s /\
  (forall t', t' <> t -> phase_of s' t' = phase_of s t').
Proof.
  cbn [step]. destruct (phase_of s t) eqn:Ep; [cbn; auto| | | |].
  - destruct (mustc s t).
    + cbn. refine (conj eq_refl (conj eq_refl _)). intros t' Hn. now rewrite upd_other.
    + pose proof (sn_frame_phase (finish s t) h x) as (H1 & H2 & H3).
      destruct (send_nowait (finish s t) h x) as [s1 r]. cbn [fst] in *.
      assert (Hf : forall t', t' <> t -> phase_of s1 t' = phase_of s t').
      { intros t' Hn. rewrite H1. cbn. now rewrite upd_other. }
      destruct r; cbn; rewrite ?H2, ?H3; refine (conj eq_refl (conj eq_refl _)); try exact Hf.
      intros t' Hn. rewrite upd_other by assumption. apply Hf, Hn.
  - assert (Hd : forall s0 : st, open_send (finish (drop_sender s e x) t) = open_send s /\
                            open_recv (finish (drop_sender s e x) t) = open_recv s /\
                            (forall t', t' <> t -> phase_of (finish (drop_sender s e x) t) t' = phase_of s t')).
    { intros _. unfold drop_sender. destruct (has_key e (senders s)); cbn;
        refine (conj eq_refl (conj eq_refl _)); intros t' Hn; now rewrite upd_other. }
    destruct (fut s e); [cbn; auto| |apply (Hd s)].
    destruct (mustc s t); [apply (Hd s)|]. destruct (has_key e (senders s)) eqn:Hk; [apply (Hd s)|].
    cbn. refine (conj eq_refl (conj eq_refl _)). intros t' Hn. now rewrite upd_other.
  - destruct (mustc s t).
    + cbn. refine (conj eq_refl (conj eq_refl _)). intros t' Hn. now rewrite upd_other.
    + pose proof (rn_frame_phase (finish s t) h) as (H1 & H2 & H3).
      destruct (recv_nowait (finish s t) h) as [s1 r]. cbn [fst] in *.
      assert (Hf : forall t', t' <> t -> phase_of s1 t' = phase_of s t').
      { intros t' Hn. rewrite H1. cbn. now rewrite upd_other. }
      destruct r; cbn; rewrite ?H2, ?H3; refine (conj eq_refl (conj eq_refl _)); try exact Hf.
      intros t' Hn. rewrite upd_other by assumption. apply Hf, Hn.
  - destruct (fut s e); [cbn; auto| |].
    + destruct (is_cancelled FSet || mustc s t).
      * unfold lose. cbn. destruct (slot s e); cbn; refine (conj eq_refl (conj eq_refl _));
          intros t' Hn; now rewrite upd_other.
      * destruct (slot s e); cbn; refine (conj eq_refl (conj eq_refl _)); intros t' Hn; now rewrite upd_other.
    + cbn [is_cancelled orb fst]. unfold lose. cbn. destruct (slot s e); cbn; refine (conj eq_refl (conj eq_refl _));
        intros t' Hn; now rewrite upd_other.
Qed.

(* with the send side fully closed, the resumed task itself is not in a receive-wait afterwards *)
Lemma resume_not_recvwait m s t : reach m s -> open_send s = 0 ->
  forall e, phase_of (fst (step s (Resume t))) t <> RecvWait e.
Proof.
  intros R Ho e'. pose proof (reach_inv m s R) as I. cbn [step].
  destruct (phase_of s t) eqn:Ep.
  - cbn. congruence.
  - destruct (mustc s t); [cbn; rewrite upd_same; discriminate|].
    pose proof (sn_frame_phase (finish s t) h x) as (H1 & _).
    destruct (send_nowait (finish s t) h x) as [s1 r]. cbn [fst] in *.
    destruct r; cbn; rewrite ?H1; cbn; rewrite upd_same; discriminate.
  - destruct (fut s e); [cbn; congruence| |].
    + destruct (mustc s t); [|destruct (has_key e (senders s))]; cbn; rewrite upd_same; discriminate.
    + cbn. rewrite upd_same. discriminate.
  - destruct (mustc s t); [cbn; rewrite upd_same; discriminate|].
    pose proof (rn_frame_phase (finish s t) h) as (H1 & _).
    pose proof (rn_wouldblock (finish s t) h) as Hw.
    destruct (recv_nowait (finish s t) h) as [s1 r]. cbn [fst snd] in *.
    destruct r; cbn; rewrite ?H1; cbn; try (rewrite upd_same; discriminate).
    exfalso. destruct Hw as [Hw _]. destruct (Hw eq_refl) as (_ & A & _). apply A. exact Ho.
  - pose proof (I_wr s I Ho t e Ep) as Hf.
    destruct (fut s e); [congruence| |].
    + destruct (is_cancelled FSet || mustc s t); [|destruct (slot s e)]; cbn; rewrite upd_same; discriminate.
    + cbn. rewrite upd_same. discriminate.
Qed.

Theorem ms_last_send_close_drains_receivers m s ts : reach m s -> open_send s = 0 ->
  (forall t e, phase_of s t = RecvWait e -> In t ts) ->
  let s' := final step s (map Resume ts) in
  open_send s' = 0 /\ forall t e, phase_of s' t <> RecvWait e.
Proof.
  revert s. induction ts as [|t0 r IH]; intros s R Ho Hall.
  - cbn. split; [exact Ho|]. intros t e H. exact (Hall t e H).
  - cbn [map]. change (final step s (Resume t0 :: map Resume r))
      with (final step (fst (step s (Resume t0))) (map Resume r)).
    pose proof (resume_frame s t0) as (H1 & _ & H3). cbv zeta in *.
    apply IH; [apply reach_step, R|congruence|].
    intros t e H. destruct (Nat.eq_dec t t0) as [->|Hn].
    + exfalso. eapply (resume_not_recvwait m s t0 R Ho); eauto.
    + rewrite H3 in H by assumption. destruct (Hall t e H) as [E|Hin]; [congruence|exact Hin].
Qed.

(* dual: with the receive side fully closed, the resumed task is not in a send-wait afterwards *)
Lemma resume_not_sendwait m s t : reach m s -> open_recv s = 0 ->
  forall e x, phase_of (fst (step s (Resume t))) t <> SendWait e x.
Proof.
  intros R Ho e' x'. pose proof (reach_inv m s R) as I. cbn [step].
  destruct (phase_of s t) eqn:Ep.
  - cbn. congruence.
  - destruct (mustc s t); [cbn; rewrite upd_same; discriminate|].
    pose proof (sn_frame_phase (finish s t) h x) as (H1 & _).
    pose proof (sn_wouldblock (finish s t) h x) as Hw.
    destruct (send_nowait (finish s t) h x) as [s1 r]. cbn [fst snd] in *.
    destruct r; cbn; rewrite ?H1; cbn; try (rewrite upd_same; discriminate).
    exfalso. destruct Hw as [Hw _]. destruct (Hw eq_refl) as (_ & A & _). apply A. exact Ho.
  - pose proof (I_ws s I Ho t e x Ep) as Hf.
    destruct (fut s e); [congruence| |].
    + destruct (mustc s t); [|destruct (has_key e (senders s))]; cbn; rewrite upd_same; discriminate.
    + cbn. rewrite upd_same. discriminate.
  - destruct (mustc s t); [cbn; rewrite upd_same; discriminate|].
    pose proof (rn_frame_phase (finish s t) h) as (H1 & _).
    destruct (recv_nowait (finish s t) h) as [s1 r]. cbn [fst] in *.
    destruct r; cbn; rewrite ?H1; cbn; rewrite upd_same; discriminate.
  - destruct (fut s e); [cbn; congruence| |].
    + destruct (is_cancelled FSet || mustc s t); [|destruct (slot s e)]; cbn; rewrite upd_same; discriminate.
    + cbn. rewrite upd_same. discriminate.
Qed.

Theorem ms_last_recv_close_drains_senders m s ts : reach m s -> open_recv s = 0 ->
  (forall t e x, phase_of s t = SendWait e x -> In t ts) ->
  let s' := final step s (map Resume ts) in
  open_recv s' = 0 /\ forall t e x, phase_of s' t <> SendWait e x.
Proof.
  revert s. induction ts as [|t0 r IH]; intros s R Ho Hall.
  - cbn. split; [exact Ho|]. intros t e x H. exact (Hall t e x H).
  - cbn [map]. change (final step s (Resume t0 :: map Resume r))
      with (final step (fst (step s (Resume t0))) (map Resume r)).
    pose proof (resume_frame s t0) as (_ & H2 & H3). cbv zeta in *.
    apply IH; [apply reach_step, R|congruence|].
    intros t e x H. destruct (Nat.eq_dec t t0) as [->|Hn].
    + exfalso. eapply (resume_not_sendwait m s t0 R Ho); eauto.
    + rewrite H3 in H by assumption. destruct (Hall t e x H) as [E|Hin]; [congruence|exact Hin].
Qed.

Example ex_close_drains_hyp :
  let s := final step (init (Fin 0)) [Recv 1 1; Resume 1; Recv 2 1; Resume 2; Close 0] in
  open_send s = 0 /\ phase_of s 1 = RecvWait 0 /\ phase_of s 2 = RecvWait 1 /\
  let s' := final step s (map Resume [2; 1]) in phase_of s' 1 = Idle /\ phase_of s' 2 = Idle.
Proof. vm_compute. auto. Qed.

(* non-vacuity of ms_sender_fifo_trace with a NON-EMPTY prefix of the arrival log: two senders block, a receive serves
   the first; the head of the queue is then the second sender and the earlier log entry (event 0) is no longer queued *)
Example ex_sender_fifo_trace_nonempty_pre :
  let s := final step (init (Fin 0)) [Send 1 0 1; Resume 1; Send 2 0 2; Resume 2; RecvNowait 3 1] in
  reach (Fin 0) s /\ senders s = [(1, 2)] /\ senq s = [0] ++ 1 :: [] /\ returned s = [1] /\
  (forall e', In e' [0] -> ~ In e' (map fst (senders s))) /\ subseq (map fst (@nil (eid * item))) (@nil eid).
Proof.
  split; [eexists; reflexivity|]. vm_compute.
  refine (conj eq_refl (conj eq_refl (conj eq_refl (conj _ (ss_nil))))).
  intros e' [<-|[]] [H|[]]. discriminate.
Qed.
