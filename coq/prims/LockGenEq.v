(* Tie T for C09: interpreting the segments regenerated from /repo's source (LockGen.v) IS the hand-written model's
   step (Lock.v), for every state and task.  A change of the source that alters a segment either is refused by the
   translator (LockGen.v does not compile) or breaks one of the tie_* proofs below. *)
From AV Require Import Base Lock LockProofs LockThms LockImp LockGen.

Lemma wl_eqb_refl l : wl_eqb l l = true.
Proof.
  induction l as [|[t f] r IH]; cbn; [reflexivity|].
  now rewrite !Nat.eqb_refl, IH.
Qed.

Definition do_release_core (k : st_core) : st_core :=
  let '(o, ws, fu) := handoff (c_waiters k) (c_futs k) in mkc (c_fast k) o ws fu (c_nfut k).

Lemma core_do_release s t : core (do_release s t) = do_release_core (core s).
Proof.
  unfold do_release, do_release_core. cbn.
  destruct (handoff (waiters s) (futs s)) as [[o ws] fu]. reflexivity.
Qed.

(* ---- release(): the pop loop is Lock.handoff ---- *)
Lemma poploop_handoff t : forall ws e k, c_waiters k = ws ->
  exists e' o,
    poploop (fun e0 k0 => exec release_loop_body t e0 k0) ws e k =
      (e', match handoff ws (c_futs k) with
           | (Some x, rest, fu) => mkc (c_fast k) (Some x) rest fu (c_nfut k)
           | (None, rest, fu) => mkc (c_fast k) (c_owner k) rest fu (c_nfut k)
           end, o) /\
    o = match handoff ws (c_futs k) with (Some _, _, _) => OReturn | (None, _, _) => ONext end /\
    e_rel e' = e_rel e /\ e_enq e' = e_enq e.
Proof.
  set (run := fun e0 k0 => exec release_loop_body t e0 k0).
  (* all that is used of the loop body: a cancelled entry is skipped (by `continue` or by falling through), a live
     one becomes the owner, its future is resolved and release() returns *)
  assert (Hrun : forall x f rl q cc k, exists oc, (oc = OContinue \/ oc = ONext) /\
    run (mkenv (Some x) (Some f) false rl q cc) k =
    if is_fcancelled (c_futs k f) then (mkenv (Some x) (Some f) false rl q cc, k, oc)
    else (mkenv (Some x) (Some f) false rl q cc,
          mkc (c_fast k) (Some x) (c_waiters k) (upd (c_futs k) f FSet) (c_nfut k), OReturn)).
  { intros x f rl q cc k. unfold run, release_loop_body. cbn.
    destruct (c_futs k f); cbn; first [ exists OContinue; split; [left|]; reflexivity
                                      | exists ONext; split; [right|]; reflexivity ]. }
  clearbody run.
  induction ws as [|[x f] r IH]; intros e k Hw.
  - exists e, ONext. cbn. destruct k; cbn in *; subst. repeat split.
  - cbn [poploop handoff].
    destruct (Hrun x f (e_rel e) (e_enq e) (e_canc e) (set_waiters k r)) as (oc & Hoc & Hr'). rewrite Hr'. clear Hr'.
    unfold set_waiters. cbn [c_futs c_fast c_owner c_nfut c_waiters].
    destruct (c_futs k f) eqn:Ef; cbn [is_fcancelled].
    + eexists _, OReturn. repeat split.
    + eexists _, OReturn. repeat split.
    + destruct (IH (mkenv (Some x) (Some f) false (e_rel e) (e_enq e) (e_canc e))
                   (mkc (c_fast k) (c_owner k) r (c_futs k) (c_nfut k)) eq_refl) as (e' & o & Hex & Ho & Hr & Hq).
      exists e', o. cbn in Hex, Ho, Hr, Hq.
      destruct Hoc as [-> | ->]; rewrite wl_eqb_refl, Hex; repeat split; assumption.
Qed.

Lemma exec_release t e k : exists e' o,
  exec release_entry t e k =
    (if tid_eqb_opt (c_owner k) t then (e', do_release_core k, o) else (e, k, ORaise ERuntime)) /\
  (o = OReturn \/ o = ONext) /\ e_rel e' = e_rel e /\ e_enq e' = e_enq e.
Proof.
  unfold release_entry. cbn [exec eval_cond].
  destruct (tid_eqb_opt (c_owner k) t); cbn [negb].
  - destruct (poploop_handoff t (c_waiters k) e k eq_refl) as (e' & o & Hex & Ho & Hr & Hq).
    rewrite Hex. unfold do_release_core.
    destruct (handoff (c_waiters k) (c_futs k)) as [[[x|] rest] fu] eqn:Eh; subst o.
    + exists e', OReturn. repeat split; auto.
    + assert (rest = []) as ->.
      { clear -Eh. revert Eh. generalize (c_futs k). induction (c_waiters k) as [|[a b] l IH]; intros fu0; cbn.
        - congruence.
        - destruct (fu0 b); try congruence. apply IH. }
      eexists _, ONext. cbn. repeat split; auto.
  - exists e, ONext. repeat split; auto.
Qed.

Lemma exec_call_release t e k :
  exec (SCall release_entry) t e k =
    if tid_eqb_opt (c_owner k) t
    then (mkenv (e_task e) (e_fut e) false true (e_enq e) (e_canc e), do_release_core k, ONext)
    else (mkenv (e_task e) (e_fut e) false (e_rel e) (e_enq e) (e_canc e), k, ORaise ERuntime).
Proof.
  cbn [exec].
  destruct (exec_release t (mkenv None None false (e_rel e) (e_enq e) (e_canc e)) k) as (e' & o & Hex & Ho & Hr & Hq).
  rewrite Hex. destruct (tid_eqb_opt (c_owner k) t).
  - cbn in Hr, Hq. destruct Ho as [-> | ->]; rewrite Hq; reflexivity.
  - reflexivity.
Qed.

Lemma exec_seq a b t e k :
  exec (SSeq a b) t e k =
  let '(e1, k1, o) := exec a t e k in match o with ONext => exec b t e1 k1 | _ => (e1, k1, o) end.
Proof. reflexivity. Qed.

(* ---- one theorem per segment: step = ghost bookkeeping (lift) of the interpretation ---- *)
Theorem tie_release s t : phase_of s t = Idle ->
  step s (Release t) = lift s t KRelease (exec release_entry t env_entry (core s)).
Proof.
  intros Hp. cbn [step]. rewrite Hp. cbn [is_idle negb].
  destruct (exec_release t env_entry (core s)) as (e' & o & Hex & Ho & Hr & Hq).
  rewrite Hex. cbn [core c_owner]. destruct (tid_eqb_opt (owner s) t).
  - unfold lift. cbn in Hr, Hq. rewrite Hr, Hq.
    change (do_release_core (mkc (fast s) (owner s) (waiters s) (futs s) (nfut s))) with (do_release_core (core s)).
    unfold do_release, do_release_core. cbn [core c_waiters c_futs c_fast c_nfut].
    destruct (handoff (waiters s) (futs s)) as [[o' ws'] fu'].
    destruct Ho as [-> | ->]; reflexivity.
  - destruct s; reflexivity.
Qed.

Theorem tie_acquire_nowait s t : phase_of s t = Idle ->
  step s (AcqNowait t) = lift s t KAcquire (exec acquire_nowait_entry t env_entry (core s)).
Proof.
  intros Hp. cbn [step]. rewrite Hp. cbn [is_idle negb].
  unfold acquire_nowait_entry. cbn.
  destruct s as [fa ow ws fu nf ph mc h q]; cbn in *.
  destruct ow as [x|]; cbn.
  - destruct (Nat.eqb x t); reflexivity.
  - destruct ws as [|w r]; reflexivity.
Qed.

Theorem tie_acquire_entry s t : phase_of s t = Idle ->
  step s (AcqBegin t) = lift s t KAcquire (exec acquire_entry t env_entry (core s)).
Proof.
  intros Hp. cbn [step]. rewrite Hp. cbn [is_idle negb].
  unfold acquire_entry. cbn.
  destruct s as [fa ow ws fu nf ph mc h q]; cbn in *.
  destruct ow as [x|]; cbn.
  - destruct (Nat.eqb x t); reflexivity.
  - destruct ws as [|w r]; cbn; [destruct fa; reflexivity | reflexivity].
Qed.

Theorem tie_acquire_yield_resumed s t : phase_of s t = FastYield -> mustc s t = false ->
  step s (Resume t) =
  lift (woken s t) t KAcquire (exec acquire_yield_resumed t (env_resume t None) (core (woken s t))).
Proof.
  intros Hp Hm. cbn [step]. rewrite Hp, Hm. reflexivity.
Qed.

Lemma lift_call_release_cancelled s1 t e :
  e_rel e = false -> e_enq e = [] ->
  (if tid_eqb_opt (owner s1) t then (do_release s1 t, RCancelled) else (s1, RRuntime)) =
  lift s1 t KAcquire (exec (SSeq (SCall release_entry) (SRaise ECancelled)) t e (core s1)).
Proof.
  intros Hr Hq. rewrite exec_seq, exec_call_release. cbn [core c_owner].
  destruct (tid_eqb_opt (owner s1) t).
  - cbn [exec]. unfold lift. cbn [returned res_of e_rel e_enq e_fut phase_upd ghost_held ghost_enq].
    rewrite Hq.
    change (mkc (fast s1) (owner s1) (waiters s1) (futs s1) (nfut s1)) with (core s1).
    rewrite <- core_do_release with (t := t).
    unfold do_release. destruct (handoff (waiters s1) (futs s1)) as [[o' ws'] fu']. reflexivity.
  - unfold lift. cbn. rewrite Hr, Hq. destruct s1; reflexivity.
Qed.

Theorem tie_acquire_yield_cancelled s t : phase_of s t = FastYield -> mustc s t = true ->
  step s (Resume t) =
  lift (woken s t) t KAcquire (exec acquire_yield_cancelled t (env_resume t None) (core (woken s t))).
Proof.
  intros Hp Hm. cbn [step]. rewrite Hp, Hm. unfold acquire_yield_cancelled.
  apply lift_call_release_cancelled; reflexivity.
Qed.

Theorem tie_acquire_wait_resumed s t f : phase_of s t = Waiting f -> futs s f = FSet -> mustc s t = false ->
  step s (Resume t) =
  lift (woken s t) t KAcquire (exec acquire_wait_resumed t (env_resume t (Some f)) (core (woken s t))).
Proof.
  intros Hp Hf Hm. cbn [step]. rewrite Hp, Hf, Hm. reflexivity.
Qed.

(* CancelledError raised at `await fut`: the future was cancelled, or it was resolved (the lock was handed to t)
   and Task._must_cancel is set *)
Theorem tie_acquire_wait_cancelled s t f : phase_of s t = Waiting f ->
  futs s f = FCancelled \/ (futs s f = FSet /\ mustc s t = true) ->
  step s (Resume t) =
  lift (woken s t) t KAcquire (exec acquire_wait_cancelled t (env_resume t (Some f)) (core (woken s t))).
Proof.
  intros Hp [Hf | [Hf Hm]]; cbn [step]; rewrite Hp, Hf.
  - unfold acquire_wait_cancelled. cbn. rewrite Hf. reflexivity.
  - rewrite Hm. unfold acquire_wait_cancelled.
    cbn [exec eval_cond env_resume e_fut core woken set_mustc set_phase futs c_futs].
    rewrite Hf. cbn [is_fcancelled].
    apply (lift_call_release_cancelled (woken s t) t (env_resume t (Some f))); reflexivity.
Qed.

Theorem tie_locked s :
  locked_obs lock_prog s = Some (match owner s with Some _ => true | None => false end).
Proof. unfold locked_obs. cbn. destruct (owner s); reflexivity. Qed.

(* ---- C08 clause (a) on the regenerated code (after F53: on BOTH paths): acquire() called from an effectively
   cancelled scope raises the cancellation at its first statement, for EVERY state - lock free or held, queue empty or
   not, caller already owner or not: owner, queue, futures untouched, nothing enqueued, no release; the 'already held'
   RuntimeError test and the enqueuing come after the check. ---- *)
Lemma ckif_first_cancelled p : ckif_first p = true ->
  forall t k, exists e, exec p t env_entry_cancelled k = (e, k, OCancelled) /\ e_enq e = [] /\ e_rel e = false.
Proof.
  intros H t k. destruct p; try discriminate. destruct p1; try discriminate.
  - destruct p2; try discriminate. destruct p2_1; try discriminate. cbn. eexists. repeat split.
  - cbn. eexists. repeat split.
Qed.

Theorem acquire_entry_check_first : ckif_first acquire_entry = true.
Proof. reflexivity. Qed.

Theorem cancelled_entry_noeffect s t :
  exists e, exec acquire_entry t env_entry_cancelled (core s) = (e, core s, OCancelled) /\
            e_enq e = [] /\ e_rel e = false.
Proof. apply ckif_first_cancelled, acquire_entry_check_first. Qed.

(* ---- the machine built from the generated segments is the model ---- *)
Theorem gstep_eq_step s o : gstep lock_prog s o = step s o.
Proof.
  destruct o as [t|t|t|t|t]; cbn [gstep lock_prog p_acquire_entry p_acquire_nowait p_release
    p_acquire_yield_resumed p_acquire_yield_cancelled p_acquire_wait_resumed p_acquire_wait_cancelled].
  - destruct (phase_of s t) eqn:Hp; cbn [is_idle negb]; [|cbn [step]; rewrite Hp; reflexivity..].
    symmetry. now apply tie_acquire_entry.
  - destruct (phase_of s t) eqn:Hp; cbn [is_idle negb]; [|cbn [step]; rewrite Hp; reflexivity..].
    symmetry. now apply tie_acquire_nowait.
  - destruct (phase_of s t) eqn:Hp; cbn [is_idle negb]; [|cbn [step]; rewrite Hp; reflexivity..].
    symmetry. now apply tie_release.
  - destruct (phase_of s t) as [| |f] eqn:Hp.
    + cbn [step]. rewrite Hp. reflexivity.
    + destruct (mustc s t) eqn:Hm; symmetry.
      * now apply tie_acquire_yield_cancelled.
      * now apply tie_acquire_yield_resumed.
    + destruct (futs s f) eqn:Hf.
      * cbn [step]. rewrite Hp, Hf. reflexivity.
      * destruct (mustc s t) eqn:Hm; symmetry.
        -- apply tie_acquire_wait_cancelled with (f := f); auto.
        -- now apply tie_acquire_wait_resumed.
      * symmetry. apply tie_acquire_wait_cancelled with (f := f); auto.
  - reflexivity.
Qed.

(* ---- what lift does, spelled out: core, result, and each ghost field ---- *)
Lemma lift_spec s t kd e k o :
  let s' := fst (lift s t kd (e, k, o)) in
  core s' = k /\
  snd (lift s t kd (e, k, o)) = match res_of o with Some x => x | None => RRejected end /\
  phase_of s' = phase_upd (phase_of s) t e o /\
  mustc s' = mustc s /\
  held s' = ghost_held (held s) t
              (match kd with KAcquire => e_rel e | KRelease => orb (e_rel e) (returned o) end)
              (match kd with KAcquire => returned o | KRelease => false end) /\
  enq s' = enq s ++ e_enq e.
Proof.
  cbn. destruct k; cbn. refine (conj eq_refl (conj eq_refl (conj eq_refl (conj eq_refl (conj eq_refl _))))).
  unfold ghost_enq. destruct (e_enq e); [now rewrite app_nil_r | reflexivity].
Qed.

(* in the states the tie theorems speak about the model never rejects, so the interpretation is never stuck *)
Lemma idle_not_rejected s t : phase_of s t = Idle ->
  snd (step s (AcqBegin t)) <> RRejected /\ snd (step s (AcqNowait t)) <> RRejected /\
  snd (step s (Release t)) <> RRejected.
Proof.
  intros Hp. cbn [step]. rewrite Hp. cbn [is_idle negb].
  refine (conj _ (conj _ _)).
  - destruct (owner s), (waiters s), (fast s); cbn; try destruct (Nat.eqb _ _); cbn; discriminate.
  - destruct (owner s), (waiters s); cbn; try destruct (Nat.eqb _ _); cbn; discriminate.
  - destruct (tid_eqb_opt (owner s) t); cbn; discriminate.
Qed.

Lemma resume_not_rejected s t :
  phase_of s t = FastYield \/ (exists f, phase_of s t = Waiting f /\ futs s f <> FPending) ->
  snd (step s (Resume t)) <> RRejected.
Proof.
  intros [Hp | (f & Hp & Hf)]; cbn [step]; rewrite Hp.
  - destruct (mustc s t); [destruct (tid_eqb_opt _ t)|]; cbn; discriminate.
  - destruct (futs s f); [contradiction| |]; try (cbn; discriminate).
    destruct (mustc s t); [destruct (tid_eqb_opt _ t)|]; cbn; discriminate.
Qed.

Lemma expand s o t kd s0 e k oc :
  step s o = lift s0 t kd (e, k, oc) -> snd (step s o) <> RRejected ->
  let s' := fst (step s o) in
  core s' = k /\ Some (snd (step s o)) = res_of oc /\
  phase_of s' = phase_upd (phase_of s0) t e oc /\ mustc s' = mustc s0 /\
  held s' = ghost_held (held s0) t
              (match kd with KAcquire => e_rel e | KRelease => orb (e_rel e) (returned oc) end)
              (match kd with KAcquire => returned oc | KRelease => false end) /\
  enq s' = enq s0 ++ e_enq e.
Proof.
  intros H Hn. rewrite H in *.
  destruct (lift_spec s0 t kd e k oc) as (H1 & H2 & H3 & H4 & H5 & H6).
  refine (conj H1 (conj _ (conj H3 (conj H4 (conj H5 H6))))).
  rewrite H2 in *. destruct (res_of oc); [reflexivity | contradiction].
Qed.

(* ---- the same seven theorems with core / result / ghost fields written out ---- *)
Theorem tie_acquire_entry_spec : forall s t, phase_of s t = Idle ->
  forall e k o, exec acquire_entry t env_entry (core s) = (e, k, o) ->
  let s' := fst (step s (AcqBegin t)) in
  core s' = k /\ Some (snd (step s (AcqBegin t))) = res_of o /\
  phase_of s' = phase_upd (phase_of s) t e o /\ mustc s' = mustc s /\
  held s' = ghost_held (held s) t (e_rel e) (returned o) /\ enq s' = enq s ++ e_enq e.
Proof.
  intros s t Hp e k o Hx. pose proof (tie_acquire_entry s t Hp) as H. rewrite Hx in H.
  exact (expand _ _ _ _ _ _ _ _ H (proj1 (idle_not_rejected s t Hp))).
Qed.

Theorem tie_acquire_nowait_spec : forall s t, phase_of s t = Idle ->
  forall e k o, exec acquire_nowait_entry t env_entry (core s) = (e, k, o) ->
  let s' := fst (step s (AcqNowait t)) in
  core s' = k /\ Some (snd (step s (AcqNowait t))) = res_of o /\
  phase_of s' = phase_upd (phase_of s) t e o /\ mustc s' = mustc s /\
  held s' = ghost_held (held s) t (e_rel e) (returned o) /\ enq s' = enq s ++ e_enq e.
Proof.
  intros s t Hp e k o Hx. pose proof (tie_acquire_nowait s t Hp) as H. rewrite Hx in H.
  exact (expand _ _ _ _ _ _ _ _ H (proj1 (proj2 (idle_not_rejected s t Hp)))).
Qed.

Theorem tie_release_spec : forall s t, phase_of s t = Idle ->
  forall e k o, exec release_entry t env_entry (core s) = (e, k, o) ->
  let s' := fst (step s (Release t)) in
  core s' = k /\ Some (snd (step s (Release t))) = res_of o /\
  phase_of s' = phase_upd (phase_of s) t e o /\ mustc s' = mustc s /\
  held s' = ghost_held (held s) t (orb (e_rel e) (returned o)) false /\ enq s' = enq s ++ e_enq e.
Proof.
  intros s t Hp e k o Hx. pose proof (tie_release s t Hp) as H. rewrite Hx in H.
  exact (expand _ _ _ _ _ _ _ _ H (proj2 (proj2 (idle_not_rejected s t Hp)))).
Qed.

Theorem tie_acquire_yield_resumed_spec : forall s t, phase_of s t = FastYield -> mustc s t = false ->
  forall e k o, exec acquire_yield_resumed t (env_resume t None) (core s) = (e, k, o) ->
  let s' := fst (step s (Resume t)) in
  core s' = k /\ Some (snd (step s (Resume t))) = res_of o /\
  phase_of s' = phase_upd (upd (phase_of s) t Idle) t e o /\ mustc s' = upd (mustc s) t false /\
  held s' = ghost_held (held s) t (e_rel e) (returned o) /\ enq s' = enq s ++ e_enq e.
Proof.
  intros s t Hp Hm e k o Hx. pose proof (tie_acquire_yield_resumed s t Hp Hm) as H.
  change (core (woken s t)) with (core s) in H. rewrite Hx in H.
  exact (expand _ _ _ _ _ _ _ _ H (resume_not_rejected s t (or_introl Hp))).
Qed.

Theorem tie_acquire_yield_cancelled_spec : forall s t, phase_of s t = FastYield -> mustc s t = true ->
  forall e k o, exec acquire_yield_cancelled t (env_resume t None) (core s) = (e, k, o) ->
  let s' := fst (step s (Resume t)) in
  core s' = k /\ Some (snd (step s (Resume t))) = res_of o /\
  phase_of s' = phase_upd (upd (phase_of s) t Idle) t e o /\ mustc s' = upd (mustc s) t false /\
  held s' = ghost_held (held s) t (e_rel e) (returned o) /\ enq s' = enq s ++ e_enq e.
Proof.
  intros s t Hp Hm e k o Hx. pose proof (tie_acquire_yield_cancelled s t Hp Hm) as H.
  change (core (woken s t)) with (core s) in H. rewrite Hx in H.
  exact (expand _ _ _ _ _ _ _ _ H (resume_not_rejected s t (or_introl Hp))).
Qed.

Theorem tie_acquire_wait_resumed_spec : forall s t f,
  phase_of s t = Waiting f -> futs s f = FSet -> mustc s t = false ->
  forall e k o, exec acquire_wait_resumed t (env_resume t (Some f)) (core s) = (e, k, o) ->
  let s' := fst (step s (Resume t)) in
  core s' = k /\ Some (snd (step s (Resume t))) = res_of o /\
  phase_of s' = phase_upd (upd (phase_of s) t Idle) t e o /\ mustc s' = upd (mustc s) t false /\
  held s' = ghost_held (held s) t (e_rel e) (returned o) /\ enq s' = enq s ++ e_enq e.
Proof.
  intros s t f Hp Hf Hm e k o Hx. pose proof (tie_acquire_wait_resumed s t f Hp Hf Hm) as H.
  change (core (woken s t)) with (core s) in H. rewrite Hx in H.
  refine (expand _ _ _ _ _ _ _ _ H (resume_not_rejected s t (or_intror (ex_intro _ f (conj Hp _))))).
  rewrite Hf. discriminate.
Qed.

Theorem tie_acquire_wait_cancelled_spec : forall s t f,
  phase_of s t = Waiting f -> futs s f = FCancelled \/ (futs s f = FSet /\ mustc s t = true) ->
  forall e k o, exec acquire_wait_cancelled t (env_resume t (Some f)) (core s) = (e, k, o) ->
  let s' := fst (step s (Resume t)) in
  core s' = k /\ Some (snd (step s (Resume t))) = res_of o /\
  phase_of s' = phase_upd (upd (phase_of s) t Idle) t e o /\ mustc s' = upd (mustc s) t false /\
  held s' = ghost_held (held s) t (e_rel e) (returned o) /\ enq s' = enq s ++ e_enq e.
Proof.
  intros s t f Hp Hc e k o Hx. pose proof (tie_acquire_wait_cancelled s t f Hp Hc) as H.
  change (core (woken s t)) with (core s) in H. rewrite Hx in H.
  refine (expand _ _ _ _ _ _ _ _ H (resume_not_rejected s t (or_intror (ex_intro _ f (conj Hp _))))).
  destruct Hc as [Hf | [Hf _]]; rewrite Hf; discriminate.
Qed.

(* ---- the C09 clauses for runs of the generated segments (by rewriting with gstep_eq_step) ---- *)
Definition greach (fa : bool) (s : st) : Prop := exists ops, s = final (gstep lock_prog) (init fa) ops.

Lemma final_gstep ops : forall s, final (gstep lock_prog) s ops = final step s ops.
Proof.
  induction ops as [|o r IH]; intros s; [reflexivity|].
  cbn. rewrite gstep_eq_step. apply IH.
Qed.

Lemma greach_reach fa s : greach fa s <-> reach fa s.
Proof. split; intros [ops ->]; exists ops; [apply final_gstep | symmetry; apply final_gstep]. Qed.

Theorem gen_mutex fa s : greach fa s ->
  (forall t, In t (held s) -> owner s = Some t) /\ length (held s) <= 1.
Proof. intros R. apply (lock_mutex fa), greach_reach, R. Qed.

Theorem gen_acquire_returns_to_owner fa s o t s' :
  greach fa s -> acquire_op o t -> gstep lock_prog s o = (s', RDone) ->
  owner s' = Some t /\ In t (held s') /\ (forall x, In x (held s') -> x = t).
Proof.
  intros R A H. rewrite gstep_eq_step in H.
  exact (lock_acquire_returns_to_owner fa s o t s' (proj1 (greach_reach fa s) R) A H).
Qed.

Theorem gen_no_barging s t o s' r :
  (o = AcqBegin t \/ o = AcqNowait t) -> gstep lock_prog s o = (s', r) ->
  owner s <> Some t -> owner s' = Some t -> owner s = None /\ waiters s = [].
Proof. intros A H. rewrite gstep_eq_step in H. exact (lock_no_barging s t o s' r A H). Qed.

Theorem gen_queue_in_arrival_order fa s : greach fa s -> subseq (waiters s) (enq s).
Proof. intros R. apply (lock_queue_in_arrival_order fa), greach_reach, R. Qed.

Theorem gen_handoff_first_live s t : phase_of s t = Idle -> owner s = Some t ->
  let s' := fst (gstep lock_prog s (Release t)) in
  snd (gstep lock_prog s (Release t)) = RDone /\
  match owner s' with
  | Some w => exists pre f, waiters s = pre ++ (w, f) :: waiters s' /\ futs s f <> FCancelled /\
                            (forall t' f', In (t', f') pre -> futs s f' = FCancelled)
  | None => waiters s' = [] /\ forall t' f', In (t', f') (waiters s) -> futs s f' = FCancelled
  end.
Proof.
  intros Hp Ho. rewrite gstep_eq_step. cbn [step]. rewrite Hp, Ho. cbn [is_idle negb tid_eqb_opt].
  rewrite Nat.eqb_refl. cbn [fst snd]. split; [reflexivity|]. apply lock_handoff_first_live.
Qed.

Theorem gen_owner_only_release s t :
  phase_of s t = Idle -> owner s <> Some t -> gstep lock_prog s (Release t) = (s, RRuntime).
Proof. intros Hp Ho. rewrite gstep_eq_step. now apply lock_owner_only_release. Qed.

Theorem gen_reacquire_is_error s t : phase_of s t = Idle -> owner s = Some t ->
  gstep lock_prog s (AcqBegin t) = (s, RRuntime) /\ gstep lock_prog s (AcqNowait t) = (s, RRuntime).
Proof. intros Hp Ho. rewrite !gstep_eq_step. now apply lock_reacquire_is_error. Qed.

Theorem gen_cancelled_waiter_never_holds fa s t f :
  greach fa s -> phase_of s t = Waiting f -> futs s f = FCancelled ->
  let s' := fst (gstep lock_prog s (Resume t)) in
  snd (gstep lock_prog s (Resume t)) = RCancelled /\ ~ In t (held s') /\ owner s' <> Some t /\
  ~ In t (map fst (waiters s')) /\ phase_of s' t = Idle.
Proof.
  intros R Hp Hf. rewrite gstep_eq_step.
  exact (lock_cancelled_waiter_never_holds fa s t f (proj1 (greach_reach fa s) R) Hp Hf).
Qed.

Theorem gen_handoff_cancel_race fa s t f :
  greach fa s -> phase_of s t = Waiting f -> futs s f = FSet -> mustc s t = true ->
  let s' := fst (gstep lock_prog s (Resume t)) in
  snd (gstep lock_prog s (Resume t)) = RCancelled /\ ~ In t (held s') /\ owner s' <> Some t /\ Inv s'.
Proof.
  intros R Hp Hf Hm. rewrite gstep_eq_step.
  exact (lock_handoff_cancel_race fa s t f (proj1 (greach_reach fa s) R) Hp Hf Hm).
Qed.

Theorem gen_no_free_with_waiters fa s : greach fa s -> owner s = None -> waiters s = [].
Proof. intros R. apply (lock_no_free_with_waiters fa), greach_reach, R. Qed.

Theorem gen_quiescent fa s :
  greach fa s -> (forall t, phase_of s t = Idle) -> held s = [] -> owner s = None /\ waiters s = [].
Proof. intros R. apply (lock_quiescent fa), greach_reach, R. Qed.

(* the same, stated on runs *)
Lemma greach_run fa ops : greach fa (final (gstep lock_prog) (init fa) ops).
Proof. exists ops. reflexivity. Qed.

Theorem gen_mutex_run : forall fa ops,
  let s := final (gstep lock_prog) (init fa) ops in
  (forall t, In t (held s) -> owner s = Some t) /\ length (held s) <= 1.
Proof. intros fa ops. exact (gen_mutex fa _ (greach_run fa ops)). Qed.

Theorem gen_acquire_returns_to_owner_run : forall fa ops o t s',
  let s := final (gstep lock_prog) (init fa) ops in
  acquire_op o t -> gstep lock_prog s o = (s', RDone) ->
  owner s' = Some t /\ In t (held s') /\ (forall x, In x (held s') -> x = t).
Proof. intros fa ops o t s'. exact (gen_acquire_returns_to_owner fa _ o t s' (greach_run fa ops)). Qed.

Theorem gen_errors : forall s t, phase_of s t = Idle ->
  (owner s <> Some t -> gstep lock_prog s (Release t) = (s, RRuntime)) /\
  (owner s = Some t ->
   gstep lock_prog s (AcqBegin t) = (s, RRuntime) /\ gstep lock_prog s (AcqNowait t) = (s, RRuntime)).
Proof. intros s t Hp. exact (conj (gen_owner_only_release s t Hp) (gen_reacquire_is_error s t Hp)). Qed.

Theorem gen_cancelled_waiter_never_holds_run : forall fa ops t f,
  let s := final (gstep lock_prog) (init fa) ops in
  phase_of s t = Waiting f -> futs s f = FCancelled ->
  let s' := fst (gstep lock_prog s (Resume t)) in
  snd (gstep lock_prog s (Resume t)) = RCancelled /\ ~ In t (held s') /\ owner s' <> Some t /\
  ~ In t (map fst (waiters s')) /\ phase_of s' t = Idle.
Proof. intros fa ops t f. exact (gen_cancelled_waiter_never_holds fa _ t f (greach_run fa ops)). Qed.

Theorem gen_no_free_with_waiters_run : forall fa ops,
  let s := final (gstep lock_prog) (init fa) ops in owner s = None -> waiters s = [].
Proof. intros fa ops. exact (gen_no_free_with_waiters fa _ (greach_run fa ops)). Qed.

(* ---- non-vacuity and sensitivity (vm_compute) ---- *)
Definition gfinal (fa : bool) (ops : list op) : st := final (gstep lock_prog) (init fa) ops.

Example ex_tie_idle : phase_of (gfinal false []) 1 = Idle.
Proof. vm_compute. reflexivity. Qed.
Example ex_tie_yield : let s := gfinal false [AcqBegin 1] in phase_of s 1 = FastYield /\ mustc s 1 = false.
Proof. vm_compute. split; reflexivity. Qed.
Example ex_tie_yield_cancelled :
  let s := gfinal false [AcqBegin 1; Cancel 1] in phase_of s 1 = FastYield /\ mustc s 1 = true.
Proof. vm_compute. split; reflexivity. Qed.
Example ex_tie_wait_resumed :
  let s := gfinal false [AcqBegin 1; Resume 1; AcqBegin 2; Release 1] in
  phase_of s 2 = Waiting 0 /\ futs s 0 = FSet /\ mustc s 2 = false.
Proof. vm_compute. repeat split. Qed.
Example ex_tie_wait_cancelled :
  let s := gfinal false [AcqBegin 1; Resume 1; AcqBegin 2; Cancel 2] in
  phase_of s 2 = Waiting 0 /\ futs s 0 = FCancelled.
Proof. vm_compute. repeat split. Qed.
Example ex_tie_wait_race :
  let s := gfinal false [AcqBegin 1; Resume 1; AcqBegin 2; Release 1; Cancel 2] in
  phase_of s 2 = Waiting 0 /\ futs s 0 = FSet /\ mustc s 2 = true.
Proof. vm_compute. repeat split. Qed.
Example ex_gen_run_hands_over :
  let s := gfinal false [AcqBegin 1; Resume 1; AcqBegin 2; AcqBegin 3; Cancel 2; Release 1] in
  owner s = Some 3 /\ waiters s = [] /\ held s = [].
Proof. vm_compute. repeat split. Qed.

(* the interpreter is sensitive to the position of the cancellation check: an effect before it, or the check in a
   continuation (after a suspension), is outside the model, so no tie theorem could be proved for such a segment *)
Example ex_check_after_effect_is_stuck :
  snd (exec (SSeq SBindTask (SSeq SSetOwnerTask SCkIf)) 1 env_entry (core (init false))) = OStuck.
Proof. vm_compute. reflexivity. Qed.
Example ex_check_after_effect_is_stuck_cancelled :
  snd (exec (SSeq SBindTask (SSeq SSetOwnerTask SCkIf)) 1 env_entry_cancelled (core (init false))) = OStuck.
Proof. vm_compute. reflexivity. Qed.
(* the order before F53 (test, check, take) is not check-first *)
Example ex_old_order_is_not_check_first :
  ckif_first (SSeq SBindTask (SIf (CAnd COwnerNone CNoWaiters) (SSeq SCkIf (SSeq SSetOwnerTask SReturn)) SSkip)) = false.
Proof. reflexivity. Qed.
Example ex_check_in_continuation_is_stuck :
  snd (exec SCkIf 1 (env_resume 1 (Some 0)) (core (init false))) = OStuck.
Proof. vm_compute. reflexivity. Qed.
Example ex_release_skips_cancelled_head :
  (* the generated release() run on a queue whose head was cancelled hands the lock to the next live waiter *)
  let s := gfinal false [AcqBegin 1; Resume 1; AcqBegin 2; AcqBegin 3; Cancel 2] in
  c_owner (snd (fst (exec release_entry 1 env_entry (core s)))) = Some 3.
Proof. vm_compute. reflexivity. Qed.
