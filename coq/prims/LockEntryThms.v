(* C09 / F53: the cancellation check of acquire() comes first.  Theorems over every op sequence of the extended
   machine LockEntry.estep; the pre-fix order kept as a refuted (pinned) witness. *)
From AV Require Import Base Lock LockProofs LockThms LockEntry.

Definition ereach (fa : bool) (s : est) : Prop := exists ops, s = final (estep false) (einit fa) ops.

(* one step of the extended machine: the lock component does not move, or moves by ONE Lock.step *)
Lemma estep_lock s o : (forall t, committed s t = false) ->
  (forall t, committed (fst (estep false s o)) t = false) /\
  (lock (fst (estep false s o)) = lock s \/ exists lo, lock (fst (estep false s o)) = fst (Lock.step (lock s) lo)).
Proof.
  intros C.
  assert (U : forall t u, upd (committed s) t false u = false).
  { intros t u. unfold upd. destruct (Nat.eqb u t); [reflexivity | apply C]. }
  destruct o as [o|t|t|t]; cbn [estep].
  - destruct (spin s (op_tid o)).
    + destruct o as [t|t|t|t|t]; cbn; try (split; [exact C | left; reflexivity]).
      destruct (ckmust s t); cbn; (split; [|left; reflexivity]); [intros u; apply U | exact C].
    + destruct (Lock.step (lock s) o) as [l' r] eqn:E. cbn. split; [exact C|]. right. exists o. now rewrite E.
  - destruct (spin s t || negb (is_idle (phase_of (lock s) t))); cbn; (split; [exact C | left; reflexivity]).
  - destruct (spin s t); cbn; (split; [|left; reflexivity]); [intros u; apply U | exact C].
  - destruct (negb (spin s t)); [split; [exact C | left; reflexivity]|].
    destruct (ckmust s t); [cbn; split; [intros u; apply U | left; reflexivity]|].
    rewrite C. destruct (Lock.step (lock s) (AcqBegin t)) as [l' r] eqn:E. cbn.
    split; [intros u; apply U|]. right. exists (AcqBegin t). now rewrite E.
Qed.

Lemma estep_inv s o : Inv (lock s) /\ (forall t, committed s t = false) ->
  Inv (lock (fst (estep false s o))) /\ (forall t, committed (fst (estep false s o)) t = false).
Proof.
  intros [I C]. destruct (estep_lock s o C) as [C' [E | [lo E]]]; (split; [|exact C']); rewrite E;
    [exact I | apply step_inv; exact I].
Qed.

Lemma ereach_inv fa s : ereach fa s -> Inv (lock s) /\ (forall t, committed s t = false).
Proof.
  intros [ops ->].
  apply (final_inv (estep false) (fun s => Inv (lock s) /\ (forall t, committed s t = false))).
  - intros s o. apply estep_inv.
  - split; [apply inv_init | reflexivity].
Qed.

(* mutual exclusion also with acquire() calls whose cancellation check yields and returns *)
Theorem entry_mutex fa s : ereach fa s ->
  (forall t, In t (held (lock s)) -> owner (lock s) = Some t) /\ length (held (lock s)) <= 1.
Proof.
  intros R. destruct (ereach_inv fa s R) as [I _].
  assert (H1 : forall t, In t (held (lock s)) -> owner (lock s) = Some t).
  { intros t H. apply (I_owner _ I). left. exact H. }
  split; [exact H1|].
  pose proof (I_heldnd _ I) as Hn.
  destruct (held (lock s)) as [|a [|b r]]; cbn; try lia.
  exfalso. assert (Some a = Some b).
  { rewrite <- (H1 a), <- (H1 b); cbn; auto. }
  inversion Hn as [|x l Hx Hl]; subst. apply Hx. left. congruence.
Qed.

(* every reachable state of the extended machine projects to a reachable state of Lock: the lock component moves only
   by Lock.step (an ordinary op, or the AcqBegin that SpinReturn performs) or not at all.  Hence every theorem about
   `reach fa` states of Lock.v (FIFO hand-over, no barging, cancelled waiters, arrival order, quiescence) is inherited by
   the machine with the yielding check. *)
Theorem entry_projects_to_lock fa s : ereach fa s -> reach fa (lock s).
Proof.
  intros [ops ->].
  enough (H : reach fa (lock (final (estep false) (einit fa) ops)) /\
              forall t, committed (final (estep false) (einit fa) ops) t = false) by apply H.
  induction ops as [|o r [IH C]] using rev_ind.
  - split; [exists []; reflexivity | reflexivity].
  - rewrite final_app. cbn [final fold_left]. set (s := final (estep false) (einit fa) r) in *.
    destruct (estep_lock s o C) as [C' [E | [lo E]]]; (split; [|exact C']); rewrite E; [exact IH | now apply reach_step].
Qed.

(* one inherited clause stated directly on the extended machine: a free lock never has waiters, and the queue is in
   arrival order - also across acquire() calls whose check yielded and returned *)
Theorem entry_no_free_lock_with_waiters fa s : ereach fa s ->
  (owner (lock s) = None -> waiters (lock s) = []) /\ subseq (waiters (lock s)) (enq (lock s)).
Proof.
  intros R. apply entry_projects_to_lock in R.
  split; [now apply (lock_no_free_with_waiters fa) | now apply (lock_queue_in_arrival_order fa)].
Qed.

(* an acquire() entered in an already effectively cancelled scope touches nothing - whatever the state of the lock,
   also when it is held, has waiters, or is held by the caller - and ends with the cancellation *)
Theorem entry_cancelled_refused s t : spin s t = false -> phase_of (lock s) t = Idle ->
  let s1 := fst (estep false s (EnterCancelled t)) in
  snd (estep false s (EnterCancelled t)) = RBlocked /\ lock s1 = lock s /\ spin s1 t = true /\
  estep false s1 (SpinCancel t) = (unspin s1 (lock s) t, RCancelled).
Proof.
  intros Hs Hp. cbn [estep]. rewrite Hs, Hp. cbn. rewrite upd_same. repeat split.
Qed.

(* whatever is done TO a task that sits in its entry check (native cancel, its own steps), the lock does not move; such a
   step ends the call only with the cancellation, and only after a native cancel *)
Theorem spinner_steps_noeffect s t o : spin s t = true -> op_tid o = t ->
  lock (fst (estep false s (L o))) = lock s /\
  (snd (estep false s (L o)) = RCancelled -> ckmust s t = true /\ o = Resume t).
Proof.
  intros Hs Ht. cbn [estep]. rewrite Ht, Hs.
  destruct o as [u|u|u|u|u]; cbn in Ht; subst; cbn; try (split; [reflexivity | discriminate]).
  destruct (ckmust s t); cbn; (split; [reflexivity|]); [auto | discriminate].
Qed.

(* HEAD has no step between test and take: when the check returns after its yield, the rest of acquire() - the
   `free?` test, the owner assignment or the enqueuing - is ONE step: exactly an ordinary AcqBegin on the lock as it
   is then *)
Theorem no_step_between_test_and_take fa s t : ereach fa s -> spin s t = true -> ckmust s t = false ->
  estep false s (SpinReturn t) =
  (unspin s (fst (Lock.step (lock s) (AcqBegin t))) t, snd (Lock.step (lock s) (AcqBegin t))).
Proof.
  intros R Hs Hm. destruct (ereach_inv fa s R) as [_ C]. cbn [estep]. rewrite Hs, Hm, C. cbn [negb].
  destruct (Lock.step (lock s) (AcqBegin t)); reflexivity.
Qed.

(* the order before the fix: task 1 finds the lock free, its check yields; task 2 takes the lock; the check returns
   and task 1 takes the lock too *)
Definition f53_ops : list eop := [EnterCancelled 1; L (AcqNowait 2); SpinReturn 1].

Theorem check_then_take_across_yield_refuted_pinned :
  let s := final (estep true) (einit true) f53_ops in
  held (lock s) = [1; 2] /\ owner (lock s) = Some 1 /\
  snd (estep true (final (estep true) (einit true) [EnterCancelled 1]) (L (AcqNowait 2))) = RDone /\
  snd (estep true (final (estep true) (einit true) [EnterCancelled 1; L (AcqNowait 2)]) (SpinReturn 1)) = RDone /\
  ~ length (held (lock s)) <= 1.
Proof. vm_compute. repeat split. lia. Qed.

(* the same history at HEAD: task 1 queues behind task 2 *)
Example f53_head :
  let s := final (estep false) (einit true) f53_ops in
  held (lock s) = [2] /\ owner (lock s) = Some 2 /\ phase_of (lock s) 1 = Waiting 0 /\ waiters (lock s) = [(1, 0)].
Proof. vm_compute. repeat split. Qed.

Example ex_entry_hyp :
  let s := final (estep false) (einit false) [L (AcqBegin 2); L (Resume 2); EnterCancelled 1] in
  spin s 1 = true /\ owner (lock s) = Some 2 /\ ereach false s.
Proof. split; [reflexivity|]. split; [reflexivity|]. eexists. reflexivity. Qed.

(* non-vacuity on the F53 history at HEAD: task 1's check yielded and returned, it queues behind task 2 *)
Example ex_entry_projection_f53 :
  let s := final (estep false) (einit true) f53_ops in
  ereach true s /\ owner (lock s) = Some 2 /\ waiters (lock s) = [(1, 0)] /\ enq (lock s) = [(1, 0)].
Proof. split; [eexists; reflexivity|]. vm_compute. repeat split. Qed.

(* non-vacuity of the native-cancel path: task 1 sits in its entry check while task 2 holds the lock; a native cancel
   reaches it; its next step raises and nothing of the lock has moved; SpinReturn ends the same way *)
Example ex_entry_native_cancel :
  let s := final (estep false) (einit false) [L (AcqNowait 2); EnterCancelled 1; L (Cancel 1)] in
  spin s 1 = true /\ ckmust s 1 = true /\ owner (lock s) = Some 2 /\ ereach false s /\
  snd (estep false s (L (Resume 1))) = RCancelled /\ lock (fst (estep false s (L (Resume 1)))) = lock s /\
  snd (estep false s (SpinReturn 1)) = RCancelled.
Proof. split; [reflexivity|]. split; [reflexivity|]. split; [reflexivity|]. split; [eexists; reflexivity|]. repeat split. Qed.
