(* C09 / F53: the cancellation check of acquire() comes first.  Theorems over every op sequence of the extended
   machine LockEntry.estep; the pre-fix order kept as a refuted (pinned) witness. *)
From AV Require Import Base Lock LockProofs LockThms LockEntry.

Definition ereach (fa : bool) (s : est) : Prop := exists ops, s = final (estep false) (einit fa) ops.

Lemma estep_inv s o : Inv (lock s) /\ (forall t, committed s t = false) ->
  Inv (lock (fst (estep false s o))) /\ (forall t, committed (fst (estep false s o)) t = false).
Proof.
  intros [I C]. destruct o as [o|t|t|t]; cbn [estep].
  - destruct (spin s (op_tid o)); [split; assumption|].
    pose proof (step_inv (lock s) o I) as H. destruct (Lock.step (lock s) o) as [l' r]. split; assumption.
  - destruct (spin s t || negb (is_idle (phase_of (lock s) t))); split; assumption.
  - destruct (spin s t); [|split; assumption]. split; [exact I|].
    intros t'. cbn. unfold upd. destruct (Nat.eqb t' t); [reflexivity | apply C].
  - destruct (negb (spin s t)); [split; assumption|]. rewrite C.
    pose proof (step_inv (lock s) (AcqBegin t) I) as H. destruct (Lock.step (lock s) (AcqBegin t)) as [l' r].
    split; [exact H|]. intros t'. cbn. unfold upd. destruct (Nat.eqb t' t); [reflexivity | apply C].
Qed.

Lemma ereach_inv fa s : ereach fa s -> Inv (lock s) /\ (forall t, committed s t = false).
Proof.
  intros [ops ->].
  apply (final_inv (estep false) (fun s => Inv (lock s) /\ (forall t, committed s t = false))).
  - intros s o. apply estep_inv.
  - split; [apply inv_init | reflexivity].
Qed.

(* mutual exclusion also with acquire() calls whose cancellation check yields and returns *)
Theorem entry_mutex fa s : ereach fa s ->
  (forall t, In t (held (lock s)) -> owner (lock s) = Some t) /\ length (held (lock s)) <= 1.
Proof.
  intros R. destruct (ereach_inv fa s R) as [I _].
  assert (H1 : forall t, In t (held (lock s)) -> owner (lock s) = Some t).
  { intros t H. apply (I_owner _ I). left. exact H. }
  split; [exact H1|].
  pose proof (I_heldnd _ I) as Hn.
  destruct (held (lock s)) as [|a [|b r]]; cbn; try lia.
  exfalso. assert (Some a = Some b).
  { rewrite <- (H1 a), <- (H1 b); cbn; auto. }
  inversion Hn as [|x l Hx Hl]; subst. apply Hx. left. congruence.
Qed.

(* every reachable state of the extended machine projects to a reachable state of Lock: the lock component moves only
   by Lock.step (an ordinary op, or the AcqBegin that SpinReturn performs) or not at all.  Hence every theorem about
   `reach fa` states of Lock.v (FIFO hand-over, no barging, cancelled waiters, arrival order, quiescence) is inherited by
   the machine with the yielding check. *)
Theorem entry_projects_to_lock fa s : ereach fa s -> reach fa (lock s).
Proof.
  intros [ops ->].
  enough (H : reach fa (lock (final (estep false) (einit fa) ops)) /\
              forall t, committed (final (estep false) (einit fa) ops) t = false) by apply H.
  induction ops as [|o r [IH C]] using rev_ind.
  - split; [exists []; reflexivity | reflexivity].
  - rewrite final_app. cbn [final fold_left]. set (s := final (estep false) (einit fa) r) in *.
    destruct o as [o|t|t|t]; cbn [estep].
    + destruct (spin s (op_tid o)); [split; assumption|].
      pose proof (reach_step fa (lock s) o IH) as H. destruct (Lock.step (lock s) o) as [l' r']. split; assumption.
    + destruct (spin s t || negb (is_idle (phase_of (lock s) t))); split; assumption.
    + destruct (spin s t); [|split; assumption]. split; [exact IH|].
      intros t'. cbn. unfold upd. destruct (Nat.eqb t' t); [reflexivity | apply C].
    + destruct (negb (spin s t)); [split; assumption|]. rewrite C.
      pose proof (reach_step fa (lock s) (AcqBegin t) IH) as H. destruct (Lock.step (lock s) (AcqBegin t)) as [l' r'].
      split; [exact H|]. intros t'. cbn. unfold upd. destruct (Nat.eqb t' t); [reflexivity | apply C].
Qed.

(* one inherited clause stated directly on the extended machine: a free lock never has waiters, and the queue is in
   arrival order - also across acquire() calls whose check yielded and returned *)
Theorem entry_no_free_lock_with_waiters fa s : ereach fa s ->
  (owner (lock s) = None -> waiters (lock s) = []) /\ subseq (waiters (lock s)) (enq (lock s)).
Proof.
  intros R. apply entry_projects_to_lock in R.
  split; [now apply (lock_no_free_with_waiters fa) | now apply (lock_queue_in_arrival_order fa)].
Qed.

(* an acquire() entered in an already effectively cancelled scope touches nothing - whatever the state of the lock,
   also when it is held, has waiters, or is held by the caller - and ends with the cancellation *)
Theorem entry_cancelled_refused s t : spin s t = false -> phase_of (lock s) t = Idle ->
  let s1 := fst (estep false s (EnterCancelled t)) in
  snd (estep false s (EnterCancelled t)) = RBlocked /\ lock s1 = lock s /\ spin s1 t = true /\
  estep false s1 (SpinCancel t) = (emk (lock s) (upd (spin s1) t false) (upd (committed s1) t false), RCancelled).
Proof.
  intros Hs Hp. cbn [estep]. rewrite Hs, Hp. cbn. rewrite upd_same. repeat split.
Qed.

(* HEAD has no step between test and take: when the check returns after its yield, the rest of acquire() - the
   `free?` test, the owner assignment or the enqueuing - is ONE step: exactly an ordinary AcqBegin on the lock as it
   is then *)
Theorem no_step_between_test_and_take fa s t : ereach fa s -> spin s t = true ->
  estep false s (SpinReturn t) =
  (emk (fst (Lock.step (lock s) (AcqBegin t))) (upd (spin s) t false) (upd (committed s) t false),
   snd (Lock.step (lock s) (AcqBegin t))).
Proof.
  intros R Hs. destruct (ereach_inv fa s R) as [_ C]. cbn [estep]. rewrite Hs, C. cbn [negb].
  destruct (Lock.step (lock s) (AcqBegin t)); reflexivity.
Qed.

(* the order before the fix: task 1 finds the lock free, its check yields; task 2 takes the lock; the check returns
   and task 1 takes the lock too *)
Definition f53_ops : list eop := [EnterCancelled 1; L (AcqNowait 2); SpinReturn 1].

Theorem check_then_take_across_yield_refuted_pinned :
  let s := final (estep true) (einit true) f53_ops in
  held (lock s) = [1; 2] /\ owner (lock s) = Some 1 /\
  snd (estep true (final (estep true) (einit true) [EnterCancelled 1]) (L (AcqNowait 2))) = RDone /\
  snd (estep true (final (estep true) (einit true) [EnterCancelled 1; L (AcqNowait 2)]) (SpinReturn 1)) = RDone /\
  ~ length (held (lock s)) <= 1.
Proof. vm_compute. repeat split. lia. Qed.

(* the same history at HEAD: task 1 queues behind task 2 *)
Example f53_head :
  let s := final (estep false) (einit true) f53_ops in
  held (lock s) = [2] /\ owner (lock s) = Some 2 /\ phase_of (lock s) 1 = Waiting 0 /\ waiters (lock s) = [(1, 0)].
Proof. vm_compute. repeat split. Qed.

Example ex_entry_hyp :
  let s := final (estep false) (einit false) [L (AcqBegin 2); L (Resume 2); EnterCancelled 1] in
  spin s 1 = true /\ owner (lock s) = Some 2 /\ ereach false s.
Proof. split; [reflexivity|]. split; [reflexivity|]. eexists. reflexivity. Qed.

(* non-vacuity on the F53 history at HEAD: task 1's check yielded and returned, it queues behind task 2 *)
Example ex_entry_projection_f53 :
  let s := final (estep false) (einit true) f53_ops in
  ereach true s /\ owner (lock s) = Some 2 /\ waiters (lock s) = [(1, 0)] /\ enq (lock s) = [(1, 0)].
Proof. split; [eexists; reflexivity|]. vm_compute. repeat split. Qed.
