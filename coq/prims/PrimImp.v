(* P/PrimImp: the imperative language of LockImp.v extended to what `class Semaphore` and `class CapacityLimiter`
   (anyio/_backends/_asyncio.py) need, with one interpreter over a heap that has the fields of both classes.
   tools/translate_prims.py regenerates SemGen.v / LimiterGen.v (terms of this language) from the Python source on
   every run of bin/check C10; SemGenEq.v / LimiterGenEq.v prove that interpreting them is Sem.step / Limiter.step.
   Definitions only.

   Shared with LockImp.v (same design): conditions with short-circuit and/or/not, sequence / if, `SCall` of a
   translated method body, raise / return / continue, awaits are not statements (a segment ends with
   `SSuspend pt`; every await point has a `resumed` and a `cancelled` continuation segment), and the rule for
   `SCkIf` (await checkpoint_if_cancelled(): a no-op only while the call is fresh).
   New: integer fields, a set, an ordered dict, asyncio.Event, `try: <stmt> except X: h else: e`, a general
   `while` whose termination is by recursion on the queue it consumes, conditions that raise, call arguments,
   read-only expressions for the property getters / statistics(). *)
From AV Require Import Base C10Defs.
From AV Require Sem Limiter.

(* Python container semantics are taken from the model files: Sem.remove_fut (deque.remove), C10Defs.remove_one /
   mem (set), Limiter.set_add (set.add), Limiter.queue_set / queue_pop (OrderedDict), Limiter.free
   (len(set) < total with None = math.inf). *)

Record heap := mkh {
  (* Semaphore *)
  h_fast : bool;                       (* self._fast_acquire *)
  h_maxv : option nat;                 (* self._max_value *)
  h_value : nat;                       (* self._value *)
  h_waiters : list (nat * nat);        (* self._waiters: (ghost annotation: waiting task, future) *)
  h_futs : nat -> Sem.fstate;
  h_nfut : nat;
  (* CapacityLimiter *)
  h_total : option nat;                (* self._total_tokens, None = math.inf *)
  h_borrowers : list nat;              (* self._borrowers *)
  h_queue : list (nat * nat);          (* self._wait_queue: (borrower, event) in insertion order *)
  h_evset : nat -> bool;               (* asyncio.Event._value *)
  h_nev : nat
}.

Inductive exn := ERuntime | EWouldBlock | ECancelled | EValue | EType | EKey.
Inductive await_pt :=
| AwYield      (* await AsyncIOBackend.cancel_shielded_checkpoint() *)
| AwFut        (* await fut *)
| AwEvent.     (* await event.wait()   (the event is fresh, so this always suspends) *)

(* the argument of the total_tokens setter *)
Inductive tokval :=
| TNat (n : nat) | TInf
| TFrac          (* a finite non-integral float, e.g. 1.5 *)
| TNegInt | TNegInf | TNan
| TStr.          (* not a number: math.isinf() and `< 0` raise TypeError *)

Inductive cond :=
| CValuePos        (* self._value > 0 *)
| CValueZero       (* self._value == 0 *)
| CNoWaiters       (* not self._waiters *)
| CHasMax          (* self._max_value is not None *)
| CValueIsMax      (* self._value == self._max_value *)
| CFutCancelled    (* fut.cancelled() *)
| CFast            (* self._fast_acquire *)
| CInBorrowers     (* borrower in self._borrowers *)
| CQueueNonEmpty   (* self._wait_queue *)
| CFree            (* len(self._borrowers) < self._total_tokens *)
| CInQueue         (* borrower in self._wait_queue *)
| CEvIsSet         (* event.is_set() *)
| CValIsInt        (* isinstance(value, int) *)
| CValIsInf        (* math.isinf(value) *)
| CValNeg          (* value < 0 *)
| CNot (c : cond)
| CAnd (a b : cond)
| COr (a b : cond).

Inductive qsel := QWaiters | QQueue.
Inductive argx := ArgNone | ArgBorrower | ArgCurrent.   (* f(), f(borrower), f(current_task()) *)

Inductive stmt :=
| SSkip
| SSeq (a b : stmt)
| SIf (c : cond) (a b : stmt)
| STry (a : stmt) (x : exn) (h els : stmt)     (* try: a  except x: h  else: els   (a is await-free) *)
| SWhile (q : qsel) (c : cond) (body : stmt)   (* while c: body, where body pops the head of q once per iteration *)
| SContinue
| SCall (body : stmt) (arg : argx)
| SRaise (e : exn)
| SReturn
| SCkIf
| SSuspend (a : await_pt)
(* Semaphore *)
| SDecValue | SIncValue                        (* self._value -= 1 / += 1 *)
| SNewFut                                      (* fut = asyncio.Future() *)
| SAppendFut                                   (* self._waiters.append(fut) *)
| SRemoveFut                                   (* self._waiters.remove(fut)   (ValueError if absent) *)
| SPopFut                                      (* fut = self._waiters.popleft() *)
| SSetResult                                   (* fut.set_result(None) *)
(* CapacityLimiter *)
| SAddBorrower                                 (* self._borrowers.add(borrower) *)
| SRemoveBorrower                              (* self._borrowers.remove(borrower)   (KeyError if absent) *)
| SDiscardBorrower                             (* self._borrowers.discard(borrower) *)
| SNewEvent                                    (* event = asyncio.Event() *)
| SQueueSet                                    (* self._wait_queue[borrower] = event *)
| SQueuePop                                    (* self._wait_queue.pop(borrower, None) *)
| SPopItem                                     (* borrower, event = self._wait_queue.popitem(last=False) *)
| SEventSet                                    (* event.set() *)
| SStoreTotal.                                 (* self._total_tokens = value *)

Inductive outcome :=
| ONext | OReturn | OContinue
| ORaise (e : exn)
| OSuspend (a : await_pt)
| OCancelled      (* checkpoint_if_cancelled() at the start of the call found the caller's scope cancelled *)
| OStuck.

(* locals of one activation *)
Record loc := mkloc {
  l_fut : option nat;
  l_ann : option nat;        (* ghost: the task annotated to the popped _waiters entry *)
  l_bor : option nat;        (* borrower (parameter or popped key) *)
  l_ev : option nat;         (* event *)
  l_val : option tokval;     (* value (parameter of the setter) *)
  l_fresh : bool;            (* no effect and no suspension since the call began *)
  l_canc : bool              (* the caller's cancel scope is effectively cancelled when the call begins *)
}.

(* events of the segment that the ghost bookkeeping of the models needs *)
Record log := mklog {
  g_woke : list nat;             (* tasks whose future received set_result (latest first) *)
  g_grant : list nat;            (* borrowers whose event was set (latest first) *)
  g_enq : list (nat * nat);      (* entries appended to _waiters *)
  g_arr : list (nat * nat)       (* slots written to _wait_queue *)
}.

Definition log0 : log := mklog [] [] [] [].
Definition loc_entry (b : option nat) (v : option tokval) : loc := mkloc None None b None v true false.
(* the same call made from an effectively cancelled scope (C08 clause (a)) *)
Definition loc_entry_cancelled (b : option nat) : loc := mkloc None None b None None true true.
Definition loc_resume (f : option nat) (b : option nat) (e : option nat) : loc := mkloc f None b e None false false.

Definition touch (l : loc) : loc := mkloc (l_fut l) (l_ann l) (l_bor l) (l_ev l) (l_val l) false (l_canc l).

Definition set_value (k : heap) (v : nat) : heap :=
  mkh (h_fast k) (h_maxv k) v (h_waiters k) (h_futs k) (h_nfut k) (h_total k) (h_borrowers k) (h_queue k)
      (h_evset k) (h_nev k).
Definition set_waiters (k : heap) (ws : list (nat * nat)) : heap :=
  mkh (h_fast k) (h_maxv k) (h_value k) ws (h_futs k) (h_nfut k) (h_total k) (h_borrowers k) (h_queue k)
      (h_evset k) (h_nev k).
Definition set_futs (k : heap) (fu : nat -> Sem.fstate) (n : nat) : heap :=
  mkh (h_fast k) (h_maxv k) (h_value k) (h_waiters k) fu n (h_total k) (h_borrowers k) (h_queue k)
      (h_evset k) (h_nev k).
Definition set_total (k : heap) (v : option nat) : heap :=
  mkh (h_fast k) (h_maxv k) (h_value k) (h_waiters k) (h_futs k) (h_nfut k) v (h_borrowers k) (h_queue k)
      (h_evset k) (h_nev k).
Definition set_borrowers (k : heap) (bs : list nat) : heap :=
  mkh (h_fast k) (h_maxv k) (h_value k) (h_waiters k) (h_futs k) (h_nfut k) (h_total k) bs (h_queue k)
      (h_evset k) (h_nev k).
Definition set_queue (k : heap) (q : list (nat * nat)) : heap :=
  mkh (h_fast k) (h_maxv k) (h_value k) (h_waiters k) (h_futs k) (h_nfut k) (h_total k) (h_borrowers k) q
      (h_evset k) (h_nev k).
Definition set_evs (k : heap) (ev : nat -> bool) (n : nat) : heap :=
  mkh (h_fast k) (h_maxv k) (h_value k) (h_waiters k) (h_futs k) (h_nfut k) (h_total k) (h_borrowers k) (h_queue k)
      ev n.

Definition is_fcancelled (x : Sem.fstate) : bool := match x with Sem.FCancelled => true | _ => false end.
Definition is_nil {A} (l : list A) : bool := match l with [] => true | _ => false end.
Definition fut_in (f : nat) (ws : list (nat * nat)) : bool := mem f (map snd ws).

Fixpoint wl_eqb (a b : list (nat * nat)) : bool :=
  match a, b with
  | [], [] => true
  | (t, f) :: a', (t', f') :: b' => Nat.eqb t t' && Nat.eqb f f' && wl_eqb a' b'
  | _, _ => false
  end.

Definition exn_eqb (a b : exn) : bool :=
  match a, b with
  | ERuntime, ERuntime | EWouldBlock, EWouldBlock | ECancelled, ECancelled
  | EValue, EValue | EType, EType | EKey, EKey => true
  | _, _ => false
  end.

(* a condition evaluates to a boolean, raises, or is outside the model (unbound local) *)
Inductive cres := CB (b : bool) | CX (x : exn) | CStuck.

Definition of_opt {A} (o : option A) (f : A -> cres) : cres := match o with Some a => f a | None => CStuck end.

Fixpoint eval_cond (c : cond) (l : loc) (k : heap) : cres :=
  match c with
  | CValuePos => CB (negb (Nat.eqb (h_value k) 0))
  | CValueZero => CB (Nat.eqb (h_value k) 0)
  | CNoWaiters => CB (is_nil (h_waiters k))
  | CHasMax => CB (match h_maxv k with Some _ => true | None => false end)
  | CValueIsMax => CB (match h_maxv k with Some m => Nat.eqb (h_value k) m | None => false end)
  | CFutCancelled => of_opt (l_fut l) (fun f => CB (is_fcancelled (h_futs k f)))
  | CFast => CB (h_fast k)
  | CInBorrowers => of_opt (l_bor l) (fun b => CB (mem b (h_borrowers k)))
  | CQueueNonEmpty => CB (negb (is_nil (h_queue k)))
  | CFree => CB (Limiter.free (h_borrowers k) (h_total k))
  | CInQueue => of_opt (l_bor l) (fun b => CB (mem b (Limiter.keys (h_queue k))))
  | CEvIsSet => of_opt (l_ev l) (fun e => CB (h_evset k e))
  | CValIsInt => of_opt (l_val l) (fun v => CB (match v with TNat _ | TNegInt => true | _ => false end))
  | CValIsInf => of_opt (l_val l) (fun v => match v with TInf | TNegInf => CB true | TStr => CX EType | _ => CB false end)
  | CValNeg => of_opt (l_val l) (fun v => match v with TNegInt | TNegInf => CB true | TStr => CX EType | _ => CB false end)
  | CNot a => match eval_cond a l k with CB b => CB (negb b) | r => r end
  | CAnd a b => match eval_cond a l k with CB true => eval_cond b l k | r => r end
  | COr a b => match eval_cond a l k with CB false => eval_cond b l k | r => r end
  end.

Definition result := (loc * log * heap * outcome)%type.

Definition qget (q : qsel) (k : heap) : list (nat * nat) :=
  match q with QWaiters => h_waiters k | QQueue => h_queue k end.

(* while c: body.  `fuel` is the queue as it was when the iteration began: every iteration must pop exactly its head
   (anything else is outside the model), so the recursion is structural on it. *)
Fixpoint wloop (evalc : loc -> heap -> cres) (run : loc -> log -> heap -> result) (q : qsel)
               (fuel : list (nat * nat)) (l : loc) (g : log) (k : heap) : result :=
  match evalc l k with
  | CB false => (l, g, k, ONext)
  | CB true =>
      match fuel with
      | [] => (l, g, k, OStuck)
      | _ :: r =>
          let '(l1, g1, k1, o) := run l g k in
          match o with
          | ONext | OContinue => if wl_eqb (qget q k1) r then wloop evalc run q r l1 g1 k1 else (l1, g1, k1, OStuck)
          | _ => (l1, g1, k1, o)
          end
      end
  | CX x => (l, g, k, ORaise x)
  | CStuck => (l, g, k, OStuck)
  end.

(* t = current_task() *)
Fixpoint exec (p : stmt) (t : nat) (l : loc) (g : log) (k : heap) {struct p} : result :=
  match p with
  | SSkip => (l, g, k, ONext)
  | SSeq a b =>
      let '(l1, g1, k1, o) := exec a t l g k in
      match o with ONext => exec b t l1 g1 k1 | _ => (l1, g1, k1, o) end
  | SIf c a b =>
      match eval_cond c l k with
      | CB true => exec a t l g k
      | CB false => exec b t l g k
      | CX x => (l, g, k, ORaise x)
      | CStuck => (l, g, k, OStuck)
      end
  | STry a x h els =>
      let '(l1, g1, k1, o) := exec a t l g k in
      match o with
      | ONext => exec els t l1 g1 k1
      | ORaise y => if exn_eqb y x then exec h t l1 g1 k1 else (l1, g1, k1, o)
      | _ => (l1, g1, k1, o)
      end
  | SWhile q c body =>
      wloop (fun l0 k0 => eval_cond c l0 k0) (fun l0 g0 k0 => exec body t l0 g0 k0) q (qget q k) l g k
  | SContinue => (l, g, k, OContinue)
  | SCall body arg =>
      let b := match arg with ArgNone => None | ArgBorrower => l_bor l | ArgCurrent => Some t end in
      match arg, b with
      | ArgBorrower, None => (l, g, k, OStuck)
      | _, _ =>
          let '(_, g1, k1, o) := exec body t (mkloc None None b None None false false) g k in
          match o with
          | ONext | OReturn => (touch l, g1, k1, ONext)
          | ORaise x => (touch l, g1, k1, ORaise x)
          | _ => (l, g1, k1, OStuck)
          end
      end
  | SRaise x => (l, g, k, ORaise x)
  | SReturn => (l, g, k, OReturn)
  | SCkIf =>
      (* as in LockImp.  Caller's scope not cancelled: neither suspends nor raises.  Caller's scope effectively
         cancelled (l_canc): the call does not get past this point - checkpoint_if_cancelled spins until the delivery
         arrives and the cancellation is raised out of the call (C03_ckif_spin_terminates) - the segment ends with
         OCancelled.  Only before any effect / suspension of this call; anywhere else the marker is outside the model. *)
      if l_fresh l then (if l_canc l then (l, g, k, OCancelled) else (l, g, k, ONext)) else (l, g, k, OStuck)
  | SSuspend a =>
      match a with
      | AwYield => (l, g, k, OSuspend a)
      | AwFut => match l_fut l with Some _ => (l, g, k, OSuspend a) | None => (l, g, k, OStuck) end
      | AwEvent => match l_bor l, l_ev l with Some _, Some _ => (l, g, k, OSuspend a) | _, _ => (l, g, k, OStuck) end
      end
  | SDecValue =>
      match h_value k with
      | S v => (touch l, g, set_value k v, ONext)
      | 0 => (l, g, k, OStuck)                     (* a negative value is outside the model *)
      end
  | SIncValue => (touch l, g, set_value k (S (h_value k)), ONext)
  | SNewFut =>
      let f := h_nfut k in
      (mkloc (Some f) (l_ann l) (l_bor l) (l_ev l) (l_val l) false (l_canc l), g,
       set_futs k (upd (h_futs k) f Sem.FPending) (S f), ONext)
  | SAppendFut =>
      match l_fut l with
      | Some f => (touch l, mklog (g_woke g) (g_grant g) (g_enq g ++ [(t, f)]) (g_arr g),
                   set_waiters k (h_waiters k ++ [(t, f)]), ONext)
      | None => (l, g, k, OStuck)
      end
  | SRemoveFut =>
      match l_fut l with
      | Some f => if fut_in f (h_waiters k)
                  then (touch l, g, set_waiters k (Sem.remove_fut f (h_waiters k)), ONext)
                  else (l, g, k, ORaise EValue)
      | None => (l, g, k, OStuck)
      end
  | SPopFut =>
      match h_waiters k with
      | (w, f) :: r => (mkloc (Some f) (Some w) (l_bor l) (l_ev l) (l_val l) false (l_canc l), g, set_waiters k r, ONext)
      | [] => (l, g, k, OStuck)
      end
  | SSetResult =>
      match l_fut l with
      | Some f =>
          (touch l,
           mklog (match l_ann l with Some w => w :: g_woke g | None => g_woke g end) (g_grant g) (g_enq g) (g_arr g),
           set_futs k (upd (h_futs k) f Sem.FSet) (h_nfut k), ONext)
      | None => (l, g, k, OStuck)
      end
  | SAddBorrower =>
      match l_bor l with
      | Some b => (touch l, g, set_borrowers k (Limiter.set_add b (h_borrowers k)), ONext)
      | None => (l, g, k, OStuck)
      end
  | SRemoveBorrower =>
      match l_bor l with
      | Some b => if mem b (h_borrowers k)
                  then (touch l, g, set_borrowers k (remove_one b (h_borrowers k)), ONext)
                  else (l, g, k, ORaise EKey)
      | None => (l, g, k, OStuck)
      end
  | SDiscardBorrower =>
      match l_bor l with
      | Some b => (touch l, g, set_borrowers k (remove_one b (h_borrowers k)), ONext)
      | None => (l, g, k, OStuck)
      end
  | SNewEvent =>
      let e := h_nev k in
      (mkloc (l_fut l) (l_ann l) (l_bor l) (Some e) (l_val l) false (l_canc l), g,
       set_evs k (upd (h_evset k) e false) (S e), ONext)
  | SQueueSet =>
      match l_bor l, l_ev l with
      | Some b, Some e => (touch l, mklog (g_woke g) (g_grant g) (g_enq g) (g_arr g ++ [(b, e)]),
                           set_queue k (Limiter.queue_set (h_queue k) b e), ONext)
      | _, _ => (l, g, k, OStuck)
      end
  | SQueuePop =>
      match l_bor l with
      | Some b => (touch l, g, set_queue k (Limiter.queue_pop (h_queue k) b), ONext)
      | None => (l, g, k, OStuck)
      end
  | SPopItem =>
      match h_queue k with
      | (b, e) :: r => (mkloc (l_fut l) (l_ann l) (Some b) (Some e) (l_val l) false (l_canc l), g, set_queue k r, ONext)
      | [] => (l, g, k, OStuck)
      end
  | SEventSet =>
      match l_ev l with
      | Some e =>
          (touch l,
           mklog (g_woke g) (match l_bor l with Some b => b :: g_grant g | None => g_grant g end) (g_enq g) (g_arr g),
           set_evs k (upd (h_evset k) e true) (h_nev k), ONext)
      | None => (l, g, k, OStuck)
      end
  | SStoreTotal =>
      match l_val l with
      | Some (TNat n) => (touch l, g, set_total k (Some n), ONext)
      | Some TInf => (touch l, g, set_total k None, ONext)
      | _ => (l, g, k, OStuck)
      end
  end.

Definition returned (o : outcome) : bool := match o with ONext | OReturn => true | _ => false end.

Definition ghost_app {A} (q l : list A) : list A := match l with [] => q | _ => q ++ l end.

(* ---- read-only expressions: property getters and statistics() ---- *)
Inductive expr :=
| XValue | XMaxValue | XLenWaiters                 (* self._value, self._max_value, len(self._waiters) *)
| XTotal | XLenBorrowers | XLenQueue | XBorrowers  (* self._total_tokens, len(self._borrowers), len(self._wait_queue), tuple(self._borrowers) *)
| XSub (a b : expr).

Inductive oval := VNat (n : nat) | VNone | VInf | VInt (z : Z) | VSet (l : list nat) | VBad.

Fixpoint eval_expr (x : expr) (k : heap) : oval :=
  match x with
  | XValue => VNat (h_value k)
  | XMaxValue => match h_maxv k with Some m => VNat m | None => VNone end
  | XLenWaiters => VNat (length (h_waiters k))
  | XTotal => match h_total k with Some n => VNat n | None => VInf end
  | XLenBorrowers => VNat (length (h_borrowers k))
  | XLenQueue => VNat (length (h_queue k))
  | XBorrowers => VSet (h_borrowers k)
  | XSub a b =>
      match eval_expr a k, eval_expr b k with
      | VNat n, VNat m => VInt (Z.of_nat n - Z.of_nat m)
      | VInf, VNat _ => VInf
      | _, _ => VBad
      end
  end.
