(* Proofs about the Semaphore machine: an inductive invariant for every op sequence. *)
From AV Require Import Base C10Defs C10Lib Sem.

(* ---------- queue helpers ---------- *)
Lemma remove_fut_subseq f ws : subseq (remove_fut f ws) ws.
Proof.
  induction ws as [|[t' f'] r IH]; cbn; [apply ss_nil|].
  destruct (Nat.eqb f' f); [apply subseq_tl | apply ss_take, IH].
Qed.

Lemma in_remove_fut_other f ws t' f' : In (t', f') ws -> f' <> f -> In (t', f') (remove_fut f ws).
Proof.
  induction ws as [|[t0 f0] r IH]; cbn; [tauto|]. intros [H|H] Hne.
  - injection H as -> ->. destruct (Nat.eqb_spec f' f); [contradiction|now left].
  - destruct (Nat.eqb f0 f); [exact H|right; apply IH; assumption].
Qed.

Lemma remove_fut_gone t f ws :
  NoDup (map fst ws) -> (forall t' f', In (t', f') ws -> (f' = f <-> t' = t)) ->
  ~ In t (map fst (remove_fut f ws)).
Proof.
  induction ws as [|[t0 f0] r IH]; cbn; intros Hn Hf; [tauto|].
  inversion Hn as [|y l Hy Hl]; subst.
  destruct (Nat.eqb_spec f0 f) as [->|Hne].
  - assert (t0 = t) by (apply (Hf t0 f); [now left|reflexivity]). subst. exact Hy.
  - cbn. intros [H|H].
    + subst t0. apply Hne. apply (Hf t f0); [now left|reflexivity].
    + revert H. apply IH; [exact Hl|]. intros t' f' Hin. apply Hf. now right.
Qed.

(* ---------- characterisation of the hand-off loop ---------- *)
Lemma handoff_spec ws fu :
  match handoff ws fu with
  | (None, ws', fu') => ws' = [] /\ fu' = fu /\ (forall t f, In (t, f) ws -> fu f = FCancelled)
  | (Some w, ws', fu') =>
      exists pre f, ws = pre ++ (w, f) :: ws' /\ fu f <> FCancelled /\ fu' = upd fu f FSet /\
                    (forall t' f', In (t', f') pre -> fu f' = FCancelled)
  end.
Proof.
  induction ws as [|[t f] r IH]; cbn.
  - refine (conj eq_refl (conj eq_refl _)). intros ? ? [].
  - destruct (fu f) eqn:Ef.
    + exists [], f. cbn. refine (conj eq_refl (conj _ (conj eq_refl _))); [congruence|intros ? ? []].
    + exists [], f. cbn. refine (conj eq_refl (conj _ (conj eq_refl _))); [congruence|intros ? ? []].
    + destruct (handoff r fu) as [[o ws'] fu']. destruct o as [w|].
      * destruct IH as (pre & f0 & E & Hf & Hu & Hp). exists ((t, f) :: pre), f0.
        subst r. cbn. refine (conj eq_refl (conj Hf (conj Hu _))).
        intros t' f' [H|H]; [congruence|eauto].
      * destruct IH as (E1 & E2 & Hp). refine (conj E1 (conj E2 _)).
        intros t' f' [H|H]; [congruence|eauto].
Qed.

(* ---------- the invariant ---------- *)
(* a permit is reserved for t although its acquire() has not returned yet *)
Definition resv_phase (s : st) (t : tid) : Prop :=
  phase_of s t = FastYield \/ exists f, phase_of s t = Waiting f /\ futs s f = FSet.

Record Struct (s : st) : Prop := {
  S_pos : value s = 0 \/ waiters s = [];
  S_infl : forall t, In t (infl s) <-> resv_phase s t;
  S_inflnd : NoDup (infl s);
  S_w : forall t f, In (t, f) (waiters s) -> phase_of s t = Waiting f /\ futs s f <> FSet;
  S_pend : forall t f, phase_of s t = Waiting f -> futs s f = FPending -> In (t, f) (waiters s);
  S_fresh : forall t f, phase_of s t = Waiting f -> f < nfut s;
  S_inj : forall t1 t2 f, phase_of s t1 = Waiting f -> phase_of s t2 = Waiting f -> t1 = t2;
  S_nd : NoDup (map fst (waiters s));
  S_fifo : subseq (waiters s) (enq s)
}.

(* k = number of permits "in the hands of the running segment" (0 between steps) *)
Record Arith (k : nat) (s : st) : Prop := {
  A_cons : value s + length (held s) + length (infl s) + dropped s + k = init0 s + extra s;
  A_le : forall m, maxv s = Some m -> value s <= m /\ init0 s <= m;
  A_drop : dropped s <= extra s;
  A_nomax : maxv s = None -> dropped s = 0
}.

Record Inv (s : st) : Prop := {
  I_struct : Struct s;
  I_arith : Arith 0 s
}.

Definition max_ok (iv : nat) (mx : option nat) : Prop :=
  match mx with Some m => iv <= m | None => True end.

Lemma inv_init fa iv mx : max_ok iv mx -> Inv (init fa iv mx).
Proof.
  intros Hm. constructor; constructor; cbn.
  - now right.
  - intros t. split; [intros []|]. intros [H|(f & H & _)]; discriminate.
  - constructor.
  - intros t f [].
  - intros t f H; discriminate.
  - intros t f H; discriminate.
  - intros t1 t2 f H; discriminate.
  - constructor.
  - apply ss_nil.
  - lia.
  - intros m ->. cbn in Hm. lia.
  - lia.
  - reflexivity.
Qed.

Ltac prj := cbn [fast maxv value waiters futs nfut phase_of mustc init0 held infl extra dropped enq
                 leave add_held set_held set_dropped set_extra set_mustc] in *.

Lemma is_idle_true p : is_idle p = true <-> p = Idle.
Proof. destruct p; cbn; split; congruence. Qed.

(* ghost components the structural part does not mention *)
Lemma struct_ghost s mc h e d :
  Struct s ->
  Struct (mk (fast s) (maxv s) (value s) (waiters s) (futs s) (nfut s) (phase_of s) mc
             (init0 s) h (infl s) e d (enq s)).
Proof. intros St. destruct St. constructor; cbn; assumption. Qed.

(* ---------- acquire ---------- *)
Lemma take_S s v h fa :
  Struct s -> waiters s = [] ->
  Struct (mk fa (maxv s) v [] (futs s) (nfut s) (phase_of s) (mustc s)
             (init0 s) h (infl s) (extra s) (dropped s) (enq s)).
Proof.
  intros St Hw. destruct St. constructor; cbn; try assumption.
  - now right.
  - intros ? ? [].
  - intros t f H1 H2. pose proof (S_pend0 t f H1 H2) as H. now rewrite Hw in H.
  - constructor.
  - apply subseq_nil_l.
Qed.

Lemma nowait_S s v h :
  Struct s -> value s = S v ->
  Struct (mk (fast s) (maxv s) v (waiters s) (futs s) (nfut s) (phase_of s) (mustc s)
             (init0 s) h (infl s) (extra s) (dropped s) (enq s)).
Proof.
  intros St Hv. destruct St. constructor; cbn; try assumption.
  destruct S_pos0 as [H|H]; [lia|now right].
Qed.

Lemma take_yield_S s v t fa :
  Struct s -> waiters s = [] -> phase_of s t = Idle ->
  Struct (mk fa (maxv s) v [] (futs s) (nfut s) (upd (phase_of s) t FastYield) (mustc s)
             (init0 s) (held s) (t :: infl s) (extra s) (dropped s) (enq s)).
Proof.
  intros St Hw Hp.
  assert (Hold : forall x, x <> t -> upd (phase_of s) t FastYield x = phase_of s x)
    by (intros; now apply upd_other).
  assert (Hnin : ~ In t (infl s)).
  { intros H. apply (S_infl s St) in H. destruct H as [H|(f & H & _)]; congruence. }
  constructor; cbn.
  - now right.
  - intros x. unfold resv_phase; cbn. destruct (Nat.eq_dec x t) as [->|Hne].
    + rewrite upd_same. split; [intros _; now left|intros _; now left].
    + rewrite Hold by assumption. split.
      * intros [H|H]; [congruence|]. apply (S_infl s St) in H. exact H.
      * intros H. right. apply (S_infl s St). exact H.
  - constructor; [exact Hnin|apply (S_inflnd s St)].
  - intros ? ? [].
  - intros x f H1 H2. destruct (Nat.eq_dec x t) as [->|Hne].
    + rewrite upd_same in H1. discriminate.
    + rewrite Hold in H1 by assumption. pose proof (S_pend s St x f H1 H2) as H. now rewrite Hw in H.
  - intros x f H1. destruct (Nat.eq_dec x t) as [->|Hne].
    + rewrite upd_same in H1. discriminate.
    + rewrite Hold in H1 by assumption. apply (S_fresh s St x f H1).
  - intros x1 x2 f H1 H2.
    destruct (Nat.eq_dec x1 t) as [->|Hne1]; [rewrite upd_same in H1; discriminate|].
    destruct (Nat.eq_dec x2 t) as [->|Hne2]; [rewrite upd_same in H2; discriminate|].
    rewrite Hold in H1, H2 by assumption. eapply (S_inj s St); eauto.
  - constructor.
  - apply subseq_nil_l.
Qed.

Lemma enqueue_S s t :
  Struct s -> phase_of s t = Idle -> value s = 0 ->
  Struct (mk (fast s) (maxv s) (value s) (waiters s ++ [(t, nfut s)]) (upd (futs s) (nfut s) FPending)
             (S (nfut s)) (upd (phase_of s) t (Waiting (nfut s))) (mustc s)
             (init0 s) (held s) (infl s) (extra s) (dropped s) (enq s ++ [(t, nfut s)])).
Proof.
  intros St Hp Hv.
  set (f0 := nfut s).
  assert (Hold : forall x, x <> t -> upd (phase_of s) t (Waiting f0) x = phase_of s x)
    by (intros; now apply upd_other).
  assert (Hfold : forall x f, phase_of s x = Waiting f -> upd (futs s) f0 FPending f = futs s f).
  { intros x f H. apply upd_other. pose proof (S_fresh s St x f H). unfold f0. lia. }
  constructor; cbn.
  - now left.
  - intros x. rewrite (S_infl s St x). unfold resv_phase; cbn.
    destruct (Nat.eq_dec x t) as [->|Hne].
    + rewrite upd_same, Hp. split.
      * intros [H|(f & H1 & H2)]; discriminate.
      * intros [H|(f & H1 & H2)]; [discriminate|].
        injection H1 as <-. rewrite upd_same in H2. discriminate.
    + rewrite Hold by assumption. split.
      * intros [H|(f & H1 & H2)]; auto. right. exists f. split; [exact H1|].
        now rewrite (Hfold x f H1).
      * intros [H|(f & H1 & H2)]; auto. right. exists f. split; [exact H1|].
        now rewrite (Hfold x f H1) in H2.
  - apply (S_inflnd s St).
  - intros x f H. apply in_app_or in H. destruct H as [H|[H|[]]].
    + destruct (S_w s St x f H) as [H1 H2].
      assert (x <> t) by (intros ->; congruence).
      rewrite Hold by assumption. split; [exact H1|]. now rewrite (Hfold x f H1).
    + injection H as <- <-. rewrite !upd_same. split; [reflexivity|discriminate].
  - intros x f H1 H2. apply in_or_app. destruct (Nat.eq_dec x t) as [->|Hne].
    + rewrite upd_same in H1. injection H1 as <-. right. left. reflexivity.
    + rewrite Hold in H1 by assumption. left. rewrite (Hfold x f H1) in H2.
      apply (S_pend s St x f H1 H2).
  - intros x f H1. destruct (Nat.eq_dec x t) as [->|Hne].
    + rewrite upd_same in H1. injection H1 as <-. unfold f0. lia.
    + rewrite Hold in H1 by assumption. pose proof (S_fresh s St x f H1). lia.
  - intros x1 x2 f H1 H2.
    destruct (Nat.eq_dec x1 t) as [->|Hne1]; destruct (Nat.eq_dec x2 t) as [->|Hne2]; auto.
    + rewrite upd_same in H1. injection H1 as <-. rewrite Hold in H2 by assumption.
      pose proof (S_fresh s St x2 f0 H2). unfold f0 in *. lia.
    + rewrite upd_same in H2. injection H2 as <-. rewrite Hold in H1 by assumption.
      pose proof (S_fresh s St x1 f0 H1). unfold f0 in *. lia.
    + rewrite Hold in H1, H2 by assumption. eapply (S_inj s St); eauto.
  - rewrite map_app. cbn. apply NoDup_app_tail1; [apply (S_nd s St)|].
    intros H. apply in_map_iff in H. destruct H as ([x f] & E & H). cbn in E. subst x.
    destruct (S_w s St t f H) as [H1 _]. congruence.
  - apply subseq_app_tail, (S_fifo s St).
Qed.

(* ---------- release ---------- *)
Lemma rel_core_S s : Struct s -> Struct (rel_core s).
Proof.
  intros St. unfold rel_core. pose proof (handoff_spec (waiters s) (futs s)) as HS.
  destruct (handoff (waiters s) (futs s)) as [[o ws'] fu']. destruct o as [w|].
  - destruct HS as (pre & f & Ews & Hfc & Hfu & Hpre). subst fu'.
    assert (Hin : In (w, f) (waiters s)) by (rewrite Ews; apply in_or_app; right; left; reflexivity).
    destruct (S_w s St w f Hin) as [Hpw Hns].
    assert (Hsuf : subseq ws' (waiters s)).
    { rewrite Ews. replace (pre ++ (w, f) :: ws') with ((pre ++ [(w, f)]) ++ ws')
        by (rewrite <- app_assoc; reflexivity). apply subseq_suffix. }
    assert (Hwnot : ~ In w (map fst ws')).
    { pose proof (S_nd s St) as Hn. rewrite Ews, map_app in Hn. cbn in Hn.
      apply NoDup_remove_2 in Hn. intros H. apply Hn. apply in_or_app. right. exact H. }
    assert (Hwni : ~ In w (infl s)).
    { intros H. apply (S_infl s St) in H. destruct H as [H|(f' & H1 & H2)]; [congruence|].
      assert (f' = f) by congruence. subst. contradiction. }
    constructor; cbn.
    + left. destruct (S_pos s St) as [H|H]; [exact H|]. rewrite H in Hin. destruct Hin.
    + intros x. unfold resv_phase; cbn. split.
      * intros [<-|H].
        -- right. exists f. split; [exact Hpw|apply upd_same].
        -- apply (S_infl s St) in H. destruct H as [H|(f' & H1 & H2)]; [now left|].
           right. exists f'. split; [exact H1|]. rewrite upd_other; [exact H2|]. intros ->. contradiction.
      * intros [H|(f' & H1 & H2)].
        -- right. apply (S_infl s St). now left.
        -- destruct (Nat.eq_dec f' f) as [->|Hne].
           ++ left. eapply (S_inj s St); eauto.
           ++ rewrite upd_other in H2 by assumption. right. apply (S_infl s St). right. eauto.
    + constructor; [exact Hwni|apply (S_inflnd s St)].
    + intros x f' Hx. assert (Hx' : In (x, f') (waiters s)) by (eapply subseq_in; eauto).
      destruct (S_w s St x f' Hx') as [H1 H2]. split; [exact H1|].
      destruct (Nat.eq_dec f' f) as [->|Hne].
      * exfalso. assert (x = w) by (eapply (S_inj s St); eauto). subst x.
        apply Hwnot. apply in_map_iff. exists (w, f). split; [reflexivity|exact Hx].
      * now rewrite upd_other by assumption.
    + intros x f' H1 H2. destruct (Nat.eq_dec f' f) as [->|Hne];
        [rewrite upd_same in H2; discriminate|].
      rewrite upd_other in H2 by assumption. pose proof (S_pend s St x f' H1 H2) as Hx.
      rewrite Ews in Hx. apply in_app_or in Hx. destruct Hx as [Hx|[Hx|Hx]].
      * apply Hpre in Hx. congruence.
      * congruence.
      * exact Hx.
    + apply (S_fresh s St).
    + apply (S_inj s St).
    + eapply subseq_nodup; [apply subseq_map, Hsuf|apply (S_nd s St)].
    + eapply subseq_trans; [exact Hsuf|apply (S_fifo s St)].
  - destruct HS as (-> & -> & Hall).
    constructor; cbn.
    + now right.
    + apply (S_infl s St).
    + apply (S_inflnd s St).
    + intros x f' [].
    + intros x f' H1 H2. pose proof (S_pend s St x f' H1 H2) as Hx. apply Hall in Hx. congruence.
    + apply (S_fresh s St).
    + apply (S_inj s St).
    + constructor.
    + apply subseq_nil_l.
Qed.

Lemma at_max_false s : at_max s = false -> forall m, maxv s = Some m -> value s <> m.
Proof.
  unfold at_max. intros H m E. rewrite E in H. intros Hv. rewrite Hv, Nat.eqb_refl in H. discriminate.
Qed.

Lemma at_max_true s : at_max s = true -> maxv s = Some (value s).
Proof.
  unfold at_max. destruct (maxv s) as [m|]; [|discriminate]. intros H. apply Nat.eqb_eq in H. now subst.
Qed.

Lemma rel_core_A s : Arith 1 s -> at_max s = false -> Arith 0 (rel_core s).
Proof.
  intros A Hm. pose proof (at_max_false s Hm) as Hne. destruct A as [Hc Hle Hd Hn].
  unfold rel_core. destruct (handoff (waiters s) (futs s)) as [[o ws'] fu']. destruct o as [w|].
  - constructor; cbn; [lia|exact Hle|exact Hd|exact Hn].
  - constructor; cbn; [lia| |exact Hd|exact Hn].
    intros m E. destruct (Hle m E). specialize (Hne m E). lia.
Qed.

Lemma rel_core_set_held s h : rel_core (set_held s h) = set_held (rel_core s) h.
Proof.
  unfold rel_core, set_held; cbn. destruct (handoff (waiters s) (futs s)) as [[o ws'] fu'].
  destruct o; reflexivity.
Qed.

Lemma rel_core_set_extra s n : rel_core (set_extra s n) = set_extra (rel_core s) n.
Proof.
  unfold rel_core, set_extra; cbn. destruct (handoff (waiters s) (futs s)) as [[o ws'] fu'].
  destruct o; reflexivity.
Qed.

Lemma at_max_set_held s h : at_max (set_held s h) = at_max s.
Proof. reflexivity. Qed.

Lemma at_max_set_extra s n : at_max (set_extra s n) = at_max s.
Proof. reflexivity. Qed.

(* ---------- cancel ---------- *)
Lemma cancel_fut_S s t f :
  Struct s -> phase_of s t = Waiting f -> futs s f = FPending ->
  Struct (mk (fast s) (maxv s) (value s) (waiters s) (upd (futs s) f FCancelled) (nfut s) (phase_of s) (mustc s)
             (init0 s) (held s) (infl s) (extra s) (dropped s) (enq s)).
Proof.
  intros St Hp Hf.
  assert (Hset : forall f', upd (futs s) f FCancelled f' = FSet <-> futs s f' = FSet).
  { intros f'. destruct (Nat.eq_dec f' f) as [->|Hne].
    - rewrite upd_same, Hf. split; discriminate.
    - now rewrite upd_other by assumption. }
  constructor; cbn.
  - apply (S_pos s St).
  - intros x. rewrite (S_infl s St x). unfold resv_phase; cbn. split.
    + intros [H|(f' & H1 & H2)]; auto. right. exists f'. split; [exact H1|now apply Hset].
    + intros [H|(f' & H1 & H2)]; auto. right. exists f'. split; [exact H1|now apply Hset].
  - apply (S_inflnd s St).
  - intros x f' Hx. destruct (S_w s St x f' Hx) as [H1 H2]. split; [exact H1|]. now rewrite Hset.
  - intros x f' H1 H2. destruct (Nat.eq_dec f' f) as [->|Hne];
      [rewrite upd_same in H2; discriminate|].
    rewrite upd_other in H2 by assumption. apply (S_pend s St x f' H1 H2).
  - apply (S_fresh s St).
  - apply (S_inj s St).
  - apply (S_nd s St).
  - apply (S_fifo s St).
Qed.

(* ---------- resume ---------- *)
Lemma resv_not_in_waiters s t : Struct s -> resv_phase s t -> ~ In t (map fst (waiters s)).
Proof.
  intros St Hr H. apply in_map_iff in H. destruct H as ([x f] & E & H). cbn in E. subst x.
  destruct (S_w s St t f H) as [H1 H2]. destruct Hr as [Hr|(f' & Hr1 & Hr2)]; [congruence|].
  assert (f' = f) by congruence. subst. contradiction.
Qed.

Lemma leave_S s t : Struct s -> resv_phase s t -> Struct (leave s t).
Proof.
  intros St Hr.
  assert (Hold : forall x, x <> t -> upd (phase_of s) t Idle x = phase_of s x)
    by (intros; now apply upd_other).
  assert (Hnw : ~ In t (map fst (waiters s))) by (now apply resv_not_in_waiters).
  constructor; cbn.
  - apply (S_pos s St).
  - intros x. rewrite (in_remove_one t x (infl s) (S_inflnd s St)). unfold resv_phase; cbn.
    destruct (Nat.eq_dec x t) as [->|Hne].
    + rewrite upd_same. split; [intros [_ H]; contradiction|].
      intros [H|(f & H & _)]; discriminate.
    + rewrite Hold by assumption. rewrite (S_infl s St x). unfold resv_phase. tauto.
  - apply nodup_remove_one, (S_inflnd s St).
  - intros x f Hx. destruct (S_w s St x f Hx) as [H1 H2].
    assert (x <> t).
    { intros ->. apply Hnw. apply in_map_iff. exists (t, f). split; [reflexivity|exact Hx]. }
    rewrite Hold by assumption. auto.
  - intros x f H1 H2. destruct (Nat.eq_dec x t) as [->|Hne];
      [rewrite upd_same in H1; discriminate|].
    rewrite Hold in H1 by assumption. apply (S_pend s St x f H1 H2).
  - intros x f H1. destruct (Nat.eq_dec x t) as [->|Hne];
      [rewrite upd_same in H1; discriminate|].
    rewrite Hold in H1 by assumption. apply (S_fresh s St x f H1).
  - intros x1 x2 f H1 H2.
    destruct (Nat.eq_dec x1 t) as [->|Hne1]; [rewrite upd_same in H1; discriminate|].
    destruct (Nat.eq_dec x2 t) as [->|Hne2]; [rewrite upd_same in H2; discriminate|].
    rewrite Hold in H1, H2 by assumption. eapply (S_inj s St); eauto.
  - apply (S_nd s St).
  - apply (S_fifo s St).
Qed.


Lemma leave_A s t : Struct s -> Arith 0 s -> resv_phase s t -> Arith 1 (leave s t).
Proof.
  intros St A Hr. destruct A as [Hc Hle Hd Hn].
  assert (Hin : In t (infl s)) by (apply (S_infl s St); exact Hr).
  pose proof (remove_one_length t (infl s) Hin) as Hl.
  constructor; prj; [unfold tid in *; lia|exact Hle|exact Hd|exact Hn].
Qed.

Lemma add_held_S s t : Struct s -> Struct (add_held s t).
Proof. intros St. unfold add_held, set_held. now apply struct_ghost. Qed.

Lemma add_held_A s t : Arith 1 s -> Arith 0 (add_held s t).
Proof. intros [Hc Hle Hd Hn]. constructor; cbn; [lia|exact Hle|exact Hd|exact Hn]. Qed.

Lemma dropped_A s : Arith 1 s -> at_max s = true -> Arith 0 (set_dropped s (S (dropped s))).
Proof.
  intros [Hc Hle Hd Hn] Hm. apply at_max_true in Hm. destruct (Hle _ Hm) as [_ Hi].
  constructor; cbn; [lia|exact Hle|lia|]. intros E. congruence.
Qed.

Lemma cancel_release_inv s : Struct s -> Arith 1 s -> Inv (fst (cancel_release s)).
Proof.
  intros St A. unfold cancel_release. destruct (at_max s) eqn:Em; cbn [fst].
  - constructor; [unfold set_dropped; now apply struct_ghost|now apply dropped_A].
  - constructor; [now apply rel_core_S|now apply rel_core_A].
Qed.

Lemma wake_futcancelled_S s t f :
  Struct s -> phase_of s t = Waiting f -> futs s f = FCancelled ->
  Struct (mk (fast s) (maxv s) (value s) (remove_fut f (waiters s)) (futs s) (nfut s)
             (upd (phase_of s) t Idle) (upd (mustc s) t false)
             (init0 s) (held s) (remove_one t (infl s)) (extra s) (dropped s) (enq s)).
Proof.
  intros St Hp Hf.
  assert (Hold : forall x, x <> t -> upd (phase_of s) t Idle x = phase_of s x)
    by (intros; now apply upd_other).
  assert (Hni : ~ In t (infl s)).
  { intros H. apply (S_infl s St) in H. destruct H as [H|(f' & H1 & H2)]; [congruence|].
    assert (f' = f) by congruence. subst. congruence. }
  rewrite (remove_one_notin t (infl s) Hni).
  assert (Hgone : ~ In t (map fst (remove_fut f (waiters s)))).
  { apply remove_fut_gone; [apply (S_nd s St)|]. intros t' f' H. destruct (S_w s St t' f' H) as [H1 _].
    split; [intros ->; eapply (S_inj s St); eauto|intros ->; congruence]. }
  constructor; cbn.
  - destruct (S_pos s St) as [H|H]; [now left|right; now rewrite H].
  - intros x. rewrite (S_infl s St x). unfold resv_phase; cbn. destruct (Nat.eq_dec x t) as [->|Hne].
    + rewrite upd_same, Hp. split.
      * intros [H|(f' & H1 & H2)]; [discriminate|]. injection H1 as <-. congruence.
      * intros [H|(f' & H1 & _)]; discriminate.
    + rewrite Hold by assumption. tauto.
  - apply (S_inflnd s St).
  - intros x f' Hx.
    assert (x <> t).
    { intros ->. apply Hgone. apply in_map_iff. exists (t, f'). split; [reflexivity|exact Hx]. }
    rewrite Hold by assumption. apply (S_w s St). eapply subseq_in; [apply remove_fut_subseq|exact Hx].
  - intros x f' H1 H2. destruct (Nat.eq_dec x t) as [->|Hne];
      [rewrite upd_same in H1; discriminate|].
    rewrite Hold in H1 by assumption. apply in_remove_fut_other; [apply (S_pend s St x f' H1 H2)|].
    congruence.
  - intros x f' H1. destruct (Nat.eq_dec x t) as [->|Hne];
      [rewrite upd_same in H1; discriminate|].
    rewrite Hold in H1 by assumption. apply (S_fresh s St x f' H1).
  - intros x1 x2 f' H1 H2.
    destruct (Nat.eq_dec x1 t) as [->|Hne1]; [rewrite upd_same in H1; discriminate|].
    destruct (Nat.eq_dec x2 t) as [->|Hne2]; [rewrite upd_same in H2; discriminate|].
    rewrite Hold in H1, H2 by assumption. eapply (S_inj s St); eauto.
  - eapply subseq_nodup; [apply subseq_map, remove_fut_subseq|apply (S_nd s St)].
  - eapply subseq_trans; [apply remove_fut_subseq|apply (S_fifo s St)].
Qed.

Lemma arith_same k s s' :
  Arith k s -> value s' = value s -> length (held s') = length (held s) ->
  length (infl s') = length (infl s) -> dropped s' = dropped s -> extra s' = extra s ->
  init0 s' = init0 s -> maxv s' = maxv s -> Arith k s'.
Proof.
  intros [Hc Hle Hd Hn] E1 E2 E3 E4 E5 E6 E7.
  constructor; rewrite ?E1, ?E2, ?E3, ?E4, ?E5, ?E6, ?E7; assumption.
Qed.

(* ---------- the cancellation check at the start of acquire(): phases Idle / CkYield touch nothing ---------- *)
Definition neutral (p : phase) : Prop := p = Idle \/ p = CkYield.

Lemma neutral_S s t p mc :
  Struct s -> neutral (phase_of s t) -> neutral p ->
  Struct (mk (fast s) (maxv s) (value s) (waiters s) (futs s) (nfut s) (upd (phase_of s) t p) mc
             (init0 s) (held s) (infl s) (extra s) (dropped s) (enq s)).
Proof.
  intros St Hn Hp.
  assert (Hold : forall x, x <> t -> upd (phase_of s) t p x = phase_of s x) by (intros; now apply upd_other).
  assert (Hnw : forall f, phase_of s t <> Waiting f) by (intros f E; destruct Hn as [H|H]; congruence).
  assert (Hnf : phase_of s t <> FastYield) by (intros E; destruct Hn as [H|H]; congruence).
  assert (Hpw : forall f, p <> Waiting f) by (intros f E; destruct Hp as [H|H]; congruence).
  assert (Hpf : p <> FastYield) by (intros E; destruct Hp as [H|H]; congruence).
  constructor; cbn.
  - apply (S_pos s St).
  - intros x. rewrite (S_infl s St x). unfold resv_phase; cbn. destruct (Nat.eq_dec x t) as [->|Hne].
    + rewrite upd_same. split.
      * intros [H|(f & H & _)]; [contradiction|exfalso; eapply Hnw; eauto].
      * intros [H|(f & H & _)]; [contradiction|exfalso; eapply Hpw; eauto].
    + rewrite Hold by assumption. tauto.
  - apply (S_inflnd s St).
  - intros x f Hx. destruct (S_w s St x f Hx) as [H1 H2].
    assert (x <> t) by (intros ->; eapply Hnw; eauto). rewrite Hold by assumption. auto.
  - intros x f H1 H2. destruct (Nat.eq_dec x t) as [->|Hne];
      [rewrite upd_same in H1; exfalso; eapply Hpw; eauto|].
    rewrite Hold in H1 by assumption. apply (S_pend s St x f H1 H2).
  - intros x f H1. destruct (Nat.eq_dec x t) as [->|Hne];
      [rewrite upd_same in H1; exfalso; eapply Hpw; eauto|].
    rewrite Hold in H1 by assumption. apply (S_fresh s St x f H1).
  - intros x1 x2 f H1 H2.
    destruct (Nat.eq_dec x1 t) as [->|Hne1]; [rewrite upd_same in H1; exfalso; eapply Hpw; eauto|].
    destruct (Nat.eq_dec x2 t) as [->|Hne2]; [rewrite upd_same in H2; exfalso; eapply Hpw; eauto|].
    rewrite Hold in H1, H2 by assumption. eapply (S_inj s St); eauto.
  - apply (S_nd s St).
  - apply (S_fifo s St).
Qed.

Lemma neutral_not_infl s t : Struct s -> neutral (phase_of s t) -> ~ In t (infl s).
Proof.
  intros St Hn H. apply (S_infl s St) in H. destruct Hn as [E|E]; destruct H as [H|(f & H & _)]; congruence.
Qed.

Lemma set_phase_neutral_inv s t p : Inv s -> neutral (phase_of s t) -> neutral p -> Inv (set_phase s t p).
Proof.
  intros I Hn Hp. constructor; [unfold set_phase; now apply neutral_S; [apply (I_struct s I)|..]|].
  eapply arith_same; [exact (I_arith s I)|..]; reflexivity.
Qed.

Lemma leave_neutral_inv s t : Inv s -> neutral (phase_of s t) -> Inv (leave s t).
Proof.
  intros I Hn. pose proof (I_struct s I) as St. unfold leave.
  rewrite (remove_one_notin t (infl s) (neutral_not_infl s t St Hn)). constructor.
  - apply neutral_S; [exact St|exact Hn|now left].
  - eapply arith_same; [exact (I_arith s I)|..]; reflexivity.
Qed.

Lemma acq_body_inv s t : Inv s -> phase_of s t = Idle -> Inv (fst (acq_body s t)).
Proof.
  intros I Ei. pose proof (I_struct s I) as St. pose proof (I_arith s I) as A. unfold acq_body.
  destruct (value s) as [|v] eqn:Ev.
  + (* value 0: enqueue *)
    assert (HI : Inv (mk (fast s) (maxv s) (value s) (waiters s ++ [(t, nfut s)])
                         (upd (futs s) (nfut s) FPending) (S (nfut s))
                         (upd (phase_of s) t (Waiting (nfut s))) (mustc s) (init0 s) (held s) (infl s)
                         (extra s) (dropped s) (enq s ++ [(t, nfut s)]))).
    { constructor; [apply enqueue_S; auto|]. eapply arith_same; [exact A|..]; reflexivity. }
    rewrite Ev in HI. destruct (waiters s); exact HI.
  + destruct (waiters s) as [|w0 wr] eqn:Ew.
    * destruct (fast s); cbn [fst].
      -- constructor.
         ++ apply take_S; auto.
         ++ destruct A as [Hc Hle Hd Hn]. constructor; cbn in *; [lia| |exact Hd|exact Hn].
            intros m E. destruct (Hle m E). lia.
      -- constructor.
         ++ apply take_yield_S; auto.
         ++ destruct A as [Hc Hle Hd Hn]. constructor; cbn in *; [lia| |exact Hd|exact Hn].
            intros m E. destruct (Hle m E). lia.
    * exfalso. destruct (S_pos s St) as [H|H]; [lia|congruence].
Qed.

(* ---------- one step, every reachable state ---------- *)
Lemma step_inv s o : Inv s -> Inv (fst (step s o)).
Proof.
  intros I. pose proof (I_struct s I) as St. pose proof (I_arith s I) as A.
  destruct o as [t|t|t|t|t|t|t]; cbn [step].
  - (* AcqBegin *)
    destruct (is_idle (phase_of s t)) eqn:Ei; cbn [negb fst]; [|exact I].
    apply is_idle_true in Ei. now apply acq_body_inv.
  - (* AcqNowait *)
    destruct (is_idle (phase_of s t)) eqn:Ei; cbn [negb fst]; [|exact I].
    destruct (value s) as [|v] eqn:Ev; cbn [fst]; [exact I|].
    constructor.
    + apply nowait_S; auto.
    + destruct A as [Hc Hle Hd Hn]. constructor; cbn in *; [lia| |exact Hd|exact Hn].
      intros m E. destruct (Hle m E). lia.
  - (* Release *)
    destruct (is_idle (phase_of s t)) eqn:Ei; cbn [negb fst]; [|exact I].
    destruct (at_max s) eqn:Em; cbn [fst]; [exact I|].
    destruct (mem t (held s)) eqn:Eh; cbn [fst].
    + apply mem_In in Eh. rewrite <- rel_core_set_held. constructor.
      * apply rel_core_S. unfold set_held. now apply struct_ghost.
      * apply rel_core_A; [|rewrite at_max_set_held; exact Em].
        pose proof (remove_one_length t (held s) Eh) as Hl.
        destruct A as [Hc Hle Hd Hn]. constructor; prj; [unfold tid in *; lia|exact Hle|exact Hd|exact Hn].
    + rewrite <- rel_core_set_extra. constructor.
      * apply rel_core_S. unfold set_extra. now apply struct_ghost.
      * apply rel_core_A; [|rewrite at_max_set_extra; exact Em].
        destruct A as [Hc Hle Hd Hn]. constructor; prj; [unfold tid in *; lia|exact Hle|lia|exact Hn].
  - (* Resume *)
    destruct (phase_of s t) as [| |f|] eqn:Ep; [exact I| | |].
    + assert (Hr : resv_phase s t) by (left; exact Ep).
      destruct (mustc s t).
      * apply cancel_release_inv; [now apply leave_S|now apply leave_A].
      * cbn [fst]. constructor; [apply add_held_S; now apply leave_S|apply add_held_A; now apply leave_A].
    + destruct (futs s f) eqn:Ef; [exact I| |].
      * assert (Hr : resv_phase s t) by (right; eauto).
        destruct (mustc s t).
        -- apply cancel_release_inv; [now apply leave_S|now apply leave_A].
        -- cbn [fst]. constructor; [apply add_held_S; now apply leave_S|apply add_held_A; now apply leave_A].
      * cbn [fst leave fast maxv value waiters futs nfut phase_of mustc init0 held infl extra dropped enq].
        constructor; [now apply wake_futcancelled_S|].
        assert (Hni : ~ In t (infl s)).
        { intros H. apply (S_infl s St) in H. destruct H as [H|(f' & H1 & H2)]; [congruence|].
          assert (f' = f) by congruence. subst. congruence. }
        eapply arith_same; [exact A|..]; cbn; try reflexivity.
        now rewrite (remove_one_notin t (infl s) Hni).
    + destruct (mustc s t); cbn [fst]; [|exact I]. apply leave_neutral_inv; [exact I|right; exact Ep].
  - (* Cancel *)
    destruct (phase_of s t) as [| |f|] eqn:Ep; [exact I| | |].
    + cbn [fst]. constructor; [unfold set_mustc; now apply struct_ghost|].
      eapply arith_same; [exact A|..]; reflexivity.
    + destruct (futs s f) eqn:Ef; cbn [fst].
      * constructor; [now apply (cancel_fut_S s t f)|]. eapply arith_same; [exact A|..]; reflexivity.
      * constructor; [unfold set_mustc; now apply struct_ghost|].
        eapply arith_same; [exact A|..]; reflexivity.
      * constructor; [unfold set_mustc; now apply struct_ghost|].
        eapply arith_same; [exact A|..]; reflexivity.
    + cbn [fst]. constructor; [unfold set_mustc; now apply struct_ghost|].
      eapply arith_same; [exact A|..]; reflexivity.
  - (* AcqBeginC *)
    destruct (is_idle (phase_of s t)) eqn:Ei; cbn [negb fst]; [|exact I].
    apply is_idle_true in Ei. apply set_phase_neutral_inv; [exact I|left; exact Ei|now right].
  - (* CkPass *)
    destruct (phase_of s t) as [| |f|] eqn:Ep; try exact I.
    assert (IL : Inv (leave s t)) by (apply leave_neutral_inv; [exact I|right; exact Ep]).
    destruct (mustc s t); cbn [fst]; [exact IL|].
    apply acq_body_inv; [exact IL|]. cbn. apply upd_same.
Qed.

Theorem reachable_inv fa iv mx ops : max_ok iv mx -> Inv (final step (init fa iv mx) ops).
Proof. intros Hm. apply final_inv; [apply step_inv|now apply inv_init]. Qed.
