(* P/EventCond: executable models of
     - anyio._backends._asyncio.Event (lines 1853-1875) on top of CPython's asyncio.Event (locks.py:155-215),
     - anyio.Condition (_core/_synchronization.py:276-385) on top of the Lock machine of Lock.v.
   Actions are the atomic segments of the API calls plus the kernel actions Resume (the scheduled wake-up /
   step of a blocked task runs) and Cancel (native asyncio Task.cancel() on a blocked task, both while its
   future is pending and after it was resolved).
   Definitions only: proofs live in EventCondProofs.v / EventCondThms.v. *)
From AV Require Import Base Lock.

Definition eid := nat.

Fixpoint remove_first (x : nat) (l : list nat) : list nat :=
  (* deque.remove(x): first occurrence *)
  match l with
  | [] => []
  | y :: r => if Nat.eqb y x then r else y :: remove_first x r
  end.

(* ====================================================================================================== *)
(*  Event                                                                                                 *)
(* ====================================================================================================== *)

Inductive ephase :=
| EIdle                 (* at a decision point of its program *)
| EYield                (* wait() on a set event: suspended in the plain checkpoint sleep(0) *)
| EWaiting (f : fid).   (* wait() on an unset event: suspended on future f inside asyncio.Event.wait *)

Inductive eop :=
| EvWait (t : tid)      (* t calls `await event.wait()` and runs up to its first suspension *)
| EvSet (t : tid)       (* t calls event.set() *)
| EvResume (t : tid)
| EvCancel (t : tid)        (* native Task.cancel() on blocked task t *)
| EvScopeCancel (t : tid).  (* the AnyIO cancel scope around t's wait() call is cancelled *)

Record est := emk {
  eflag : bool;                  (* asyncio.Event._value *)
  ewaiters : list fid;           (* asyncio.Event._waiters *)
  efuts : fid -> fstate;
  enfut : fid;
  ephase_of : tid -> ephase;
  emustc : tid -> bool;          (* Task._must_cancel *)
  esets : nat                    (* ghost: number of set() calls so far *)
}.

Definition einit : est := emk false [] (fun _ => FPending) 0 (fun _ => EIdle) (fun _ => false) 0.

Definition e_is_idle (p : ephase) := match p with EIdle => true | _ => false end.

(* asyncio.Event.set(): `for fut in self._waiters: if not fut.done(): fut.set_result(True)` *)
Fixpoint resolve_all (ws : list fid) (fu : fid -> fstate) : fid -> fstate :=
  match ws with
  | [] => fu
  | f :: r => resolve_all r (match fu f with FPending => upd fu f FSet | _ => fu end)
  end.

Definition estep (s : est) (o : eop) : est * res :=
  match o with
  | EvWait t =>
      if negb (e_is_idle (ephase_of s t)) then (s, RRejected) else
      if eflag s then
        (* anyio Event.wait: `if self.is_set(): await checkpoint()` = sleep(0), not shielded *)
        (emk (eflag s) (ewaiters s) (efuts s) (enfut s) (upd (ephase_of s) t EYield) (emustc s) (esets s),
         RBlocked)
      else
        let f := enfut s in
        (emk (eflag s) (ewaiters s ++ [f]) (upd (efuts s) f FPending) (S f)
             (upd (ephase_of s) t (EWaiting f)) (emustc s) (esets s), RBlocked)
  | EvSet t =>
      if negb (e_is_idle (ephase_of s t)) then (s, RRejected) else
      if eflag s then
        (emk true (ewaiters s) (efuts s) (enfut s) (ephase_of s) (emustc s) (S (esets s)), RDone)
      else
        (emk true (ewaiters s) (resolve_all (ewaiters s) (efuts s)) (enfut s) (ephase_of s) (emustc s)
             (S (esets s)), RDone)
  | EvCancel t =>
      match ephase_of s t with
      | EIdle => (s, RRejected)
      | EYield =>
          (emk (eflag s) (ewaiters s) (efuts s) (enfut s) (ephase_of s) (upd (emustc s) t true) (esets s), RNone)
      | EWaiting f =>
          match efuts s f with
          | FPending =>
              (emk (eflag s) (ewaiters s) (upd (efuts s) f FCancelled) (enfut s) (ephase_of s) (emustc s)
                   (esets s), RNone)
          | _ =>
              (emk (eflag s) (ewaiters s) (efuts s) (enfut s) (ephase_of s) (upd (emustc s) t true) (esets s),
               RNone)
          end
      end
  | EvScopeCancel t =>
      (* CancelScope._deliver_cancellation (:581-629): task.cancel() unless the awaited future is done;
         later retries find the task gone or its future done, so nothing else ever happens *)
      match ephase_of s t with
      | EIdle => (s, RRejected)
      | EYield =>
          (emk (eflag s) (ewaiters s) (efuts s) (enfut s) (ephase_of s) (upd (emustc s) t true) (esets s), RNone)
      | EWaiting f =>
          match efuts s f with
          | FPending =>
              (emk (eflag s) (ewaiters s) (upd (efuts s) f FCancelled) (enfut s) (ephase_of s) (emustc s)
                   (esets s), RNone)
          | _ => (s, RNone)
          end
      end
  | EvResume t =>
      match ephase_of s t with
      | EIdle => (s, RRejected)
      | EYield =>
          (emk (eflag s) (ewaiters s) (efuts s) (enfut s) (upd (ephase_of s) t EIdle) (upd (emustc s) t false)
               (esets s),
           if emustc s t then RCancelled else RDone)
      | EWaiting f =>
          match efuts s f with
          | FPending => (s, RRejected)
          | FSet =>
              (* finally: self._waiters.remove(fut) *)
              (emk (eflag s) (remove_first f (ewaiters s)) (efuts s) (enfut s) (upd (ephase_of s) t EIdle)
                   (upd (emustc s) t false) (esets s),
               if emustc s t then RCancelled else RDone)
          | FCancelled =>
              (emk (eflag s) (remove_first f (ewaiters s)) (efuts s) (enfut s) (upd (ephase_of s) t EIdle)
                   (upd (emustc s) t false) (esets s), RCancelled)
          end
      end
  end.

Definition eobserve (s : est) (r : res) : list Z :=
  [res_code r; bz (eflag s); nz (length (ewaiters s))].

(* ====================================================================================================== *)
(*  Condition(s) on a shared Lock                                                                         *)
(*  One Lock (the machine of Lock.v), any number of Condition objects built on it (`Condition(lock)`),    *)
(*  identified by small numbers, and direct use of the lock (`lock.acquire()/release()`) by any task.     *)
(* ====================================================================================================== *)
Definition cid := nat.

Inductive cphase :=
| PIdle                                   (* at a decision point (may or may not hold the lock) *)
| PAcq (oc : option cid)                  (* suspended inside lock.acquire(); Some c = called through
                                             condition c's acquire() *)
| PWait (c : cid) (e : eid)               (* c.wait(): enqueued event e, released the lock, suspended in e.wait() *)
| PReacq (c : cid) (e : eid) (exc : bool). (* c.wait(): suspended inside the shielded re-acquire; exc = an
                                             exception is pending (the event wait was interrupted) *)

Inductive cop :=
| CAcquire (c : cid) (t : tid)
| CAcqNowait (c : cid) (t : tid)
| CRelease (c : cid) (t : tid)
| CNotify (c : cid) (t : tid) (n : nat)
| CNotifyAll (c : cid) (t : tid)
| CWait (c : cid) (t : tid)
| LAcquire (t : tid)         (* await lock.acquire() directly on the shared lock *)
| LAcqNowait (t : tid)
| LRelease (t : tid)
| CResume (t : tid)
| CCancel (t : tid)          (* native Task.cancel() on blocked task t *)
| CScopeCancel (t : tid).    (* the AnyIO cancel scope around t's acquire()/wait() call is cancelled *)

(* which tree is modelled: 0 = HEAD (the condition asks its lock who the owner is, ba2c76e),
   1 = private owner copy cleared by Condition.release() (826e17f .. ba2c76e~1, finding F17),
   2 = private owner copy never cleared (before 826e17f, finding F7) *)
Record cst := cmk {
  variant : nat;
  lk : Lock.st;                  (* the shared Lock (its FIFO, futures, phases, must-cancel flags) *)
  owner_rec : cid -> option tid; (* Condition._owner_task of the old trees (not read at HEAD) *)
  cwaiters : cid -> list eid;    (* Condition._waiters: FIFO of one-shot events, per condition *)
  eset : eid -> bool;            (* flag of one-shot event e *)
  efut : eid -> fstate;          (* the single waiter future of one-shot event e *)
  nev : eid;
  cphase_of : tid -> cphase;
  (* ghost *)
  cenq : list eid;               (* every event ever enqueued, in arrival order (= increasing id) *)
  setlog : list eid;             (* every event set by notify / notify_all / pass-on, in order *)
  inflight : list eid;           (* events that are set and whose wait() has neither returned nor failed over *)
  horizon : eid -> nat;          (* for a set event: number of wait() calls started before the notify /
                                    notify_all call whose notification it carries (copied on pass-on) *)
  nlog : list nat;               (* that number for every accepted notify / notify_all call *)
  issued : nat;                  (* events set by notify / notify_all *)
  consumed : nat;                (* wait() calls that returned normally *)
  dropped : nat;                 (* pass-on with an empty queue: notification handed to nobody *)
  lost : nat                     (* notified waiter whose re-acquire failed (native cancel inside the shield) *)
}.

Definition cinit (fa : bool) (v : nat) : cst :=
  cmk v (Lock.init fa) (fun _ => None) (fun _ => []) (fun _ => false) (fun _ => FPending) 0 (fun _ => PIdle)
      [] [] [] (fun _ => 0) [] 0 0 0 0.

Definition c_is_idle (p : cphase) := match p with PIdle => true | _ => false end.

(* ---- field setters ---- *)
Definition with_lk (s : cst) (l : Lock.st) : cst :=
  cmk (variant s) l (owner_rec s) (cwaiters s) (eset s) (efut s) (nev s) (cphase_of s)
      (cenq s) (setlog s) (inflight s) (horizon s) (nlog s) (issued s) (consumed s) (dropped s) (lost s).

Definition with_owner (s : cst) (o : cid -> option tid) : cst :=
  cmk (variant s) (lk s) o (cwaiters s) (eset s) (efut s) (nev s) (cphase_of s)
      (cenq s) (setlog s) (inflight s) (horizon s) (nlog s) (issued s) (consumed s) (dropped s) (lost s).

Definition with_cw (s : cst) (c : cid) (w : list eid) : cst :=
  cmk (variant s) (lk s) (owner_rec s) (upd (cwaiters s) c w) (eset s) (efut s) (nev s) (cphase_of s)
      (cenq s) (setlog s) (inflight s) (horizon s) (nlog s) (issued s) (consumed s) (dropped s) (lost s).

Definition with_phase (s : cst) (t : tid) (p : cphase) : cst :=
  cmk (variant s) (lk s) (owner_rec s) (cwaiters s) (eset s) (efut s) (nev s) (upd (cphase_of s) t p)
      (cenq s) (setlog s) (inflight s) (horizon s) (nlog s) (issued s) (consumed s) (dropped s) (lost s).

Definition with_efut (s : cst) (e : eid) (v : fstate) : cst :=
  cmk (variant s) (lk s) (owner_rec s) (cwaiters s) (eset s) (upd (efut s) e v) (nev s) (cphase_of s)
      (cenq s) (setlog s) (inflight s) (horizon s) (nlog s) (issued s) (consumed s) (dropped s) (lost s).

Definition with_inflight (s : cst) (l : list eid) : cst :=
  cmk (variant s) (lk s) (owner_rec s) (cwaiters s) (eset s) (efut s) (nev s) (cphase_of s)
      (cenq s) (setlog s) l (horizon s) (nlog s) (issued s) (consumed s) (dropped s) (lost s).

Definition with_nlog (s : cst) (l : list nat) : cst :=
  cmk (variant s) (lk s) (owner_rec s) (cwaiters s) (eset s) (efut s) (nev s) (cphase_of s)
      (cenq s) (setlog s) (inflight s) (horizon s) l (issued s) (consumed s) (dropped s) (lost s).

Definition with_counts (s : cst) (i c d l : nat) : cst :=
  cmk (variant s) (lk s) (owner_rec s) (cwaiters s) (eset s) (efut s) (nev s) (cphase_of s)
      (cenq s) (setlog s) (inflight s) (horizon s) (nlog s) i c d l.

(* Event.set() on one-shot event e (asyncio.Event.set: no-op when already set; resolves a pending future);
   hz = the horizon of the notification it now carries *)
Definition do_set (s : cst) (e : eid) (hz : nat) : cst :=
  if eset s e then s else
  cmk (variant s) (lk s) (owner_rec s) (cwaiters s) (upd (eset s) e true)
      (match efut s e with FPending => upd (efut s) e FSet | _ => efut s end) (nev s) (cphase_of s)
      (cenq s) (setlog s ++ [e]) (inflight s) (upd (horizon s) e hz) (nlog s)
      (issued s) (consumed s) (dropped s) (lost s).

(* _check_acquired(): HEAD asks the lock (`self._lock.statistics().owner`), the old trees their private copy *)
Definition holder_check (s : cst) (c : cid) (t : tid) : bool :=
  match variant s with
  | 0 => tid_eqb_opt (owner (lk s)) t
  | _ => tid_eqb_opt (owner_rec s c) t
  end.

(* old trees: Condition.acquire()/acquire_nowait() record the caller, Condition.release() clears the record
   (variant 1) or leaves it (variant 2); HEAD has no record, the field is simply carried along *)
Definition rec_acquired (s : cst) (oc : option cid) (t : tid) : cid -> option tid :=
  match oc with Some c => upd (owner_rec s) c (Some t) | None => owner_rec s end.

Definition rec_released (s : cst) (c : cid) : cid -> option tid :=
  match variant s with 2 => owner_rec s | _ => upd (owner_rec s) c None end.

(* notify(n): `for _ in range(n): try: event = self._waiters.popleft() except IndexError: break; event.set()` *)
Fixpoint notify_loop (n : nat) (c : cid) (hz : nat) (s : cst) : cst :=
  match n with
  | 0 => s
  | S k =>
      match cwaiters s c with
      | [] => s
      | e :: r =>
          let s1 := do_set (with_cw s c r) e hz in
          notify_loop k c hz (with_counts (with_inflight s1 (inflight s1 ++ [e]))
                                          (S (issued s1)) (consumed s1) (dropped s1) (lost s1))
      end
  end.

Definition do_notify (s : cst) (c : cid) (n : nat) : cst :=
  notify_loop n c (nev s) (with_nlog s (nlog s ++ [nev s])).

(* lock.acquire() / acquire_nowait() by idle task t, directly (oc = None) or through condition c *)
Definition acquire_begin (s : cst) (oc : option cid) (t : tid) (o : Lock.op) : cst * res :=
  let '(l', r) := Lock.step (lk s) o in
  match r with
  | RDone => (with_owner (with_lk s l') (rec_acquired s oc t), RDone)
  | RBlocked => (with_phase (with_lk s l') t (PAcq oc), RBlocked)
  | _ => (with_lk s l', r)
  end.

(* the end of c.wait(): the shielded `await self.acquire()` produced lock result r for task t.
   exc = an exception from the event wait is pending and is re-raised after the re-acquire. *)
Definition finish_wait (s : cst) (t : tid) (c : cid) (e : eid) (exc : bool) (l' : Lock.st) (r : res)
  : cst * res :=
  match r with
  | RBlocked => (with_phase (with_lk s l') t (PReacq c e exc), RBlocked)
  | RDone =>
      let s1 := with_phase (with_owner (with_lk s l') (rec_acquired s (Some c) t)) t PIdle in
      if exc then (s1, RCancelled)
      else (with_counts (with_inflight s1 (remove_first e (inflight s1)))
                        (issued s1) (S (consumed s1)) (dropped s1) (lost s1), RDone)
  | _ =>
      (* the re-acquire itself raised (CancelledError from a native cancel; RuntimeError cannot happen):
         wait() propagates that exception and the task does not hold the lock *)
      let s1 := with_phase (with_lk s l') t PIdle in
      if exc then (s1, r)
      else (with_counts (with_inflight s1 (remove_first e (inflight s1)))
                        (issued s1) (consumed s1) (dropped s1) (S (lost s1)), r)
  end.

(* `except BaseException:` branch of c.wait() for event e *)
Definition wait_interrupted (s : cst) (c : cid) (e : eid) : cst :=
  if eset s e then
    match cwaiters s c with
    | [] =>
        with_counts (with_inflight s (remove_first e (inflight s)))
                    (issued s) (consumed s) (S (dropped s)) (lost s)
    | h :: r =>
        (* This task was notified but could not act on it, so pass it on to the next task *)
        let s1 := do_set (with_cw s c r) h (horizon s e) in
        with_inflight s1 (remove_first e (inflight s1) ++ [h])
    end
  else with_cw s c (remove_first e (cwaiters s c)).

Definition cstep (s : cst) (o : cop) : cst * res :=
  match o with
  | CAcquire c t =>
      if negb (c_is_idle (cphase_of s t)) then (s, RRejected) else acquire_begin s (Some c) t (AcqBegin t)
  | LAcquire t =>
      if negb (c_is_idle (cphase_of s t)) then (s, RRejected) else acquire_begin s None t (AcqBegin t)
  | CAcqNowait c t =>
      if negb (c_is_idle (cphase_of s t)) then (s, RRejected) else acquire_begin s (Some c) t (AcqNowait t)
  | LAcqNowait t =>
      if negb (c_is_idle (cphase_of s t)) then (s, RRejected) else acquire_begin s None t (AcqNowait t)
  | CRelease c t =>
      if negb (c_is_idle (cphase_of s t)) then (s, RRejected) else
      let '(l', r) := Lock.step (lk s) (Release t) in
      match r with
      | RDone => (with_owner (with_lk s l') (rec_released s c), RDone)
      | _ => (with_lk s l', r)
      end
  | LRelease t =>
      if negb (c_is_idle (cphase_of s t)) then (s, RRejected) else
      let '(l', r) := Lock.step (lk s) (Release t) in (with_lk s l', r)
  | CNotify c t n =>
      if negb (c_is_idle (cphase_of s t)) then (s, RRejected) else
      if holder_check s c t then (do_notify s c n, RDone) else (s, RRuntime)
  | CNotifyAll c t =>
      if negb (c_is_idle (cphase_of s t)) then (s, RRejected) else
      if holder_check s c t then (do_notify s c (length (cwaiters s c)), RDone) else (s, RRuntime)
  | CWait c t =>
      if negb (c_is_idle (cphase_of s t)) then (s, RRejected) else
      (* checkpoint_if_cancelled(): the caller is not in a cancelled scope here (C08 covers that) *)
      if holder_check s c t then
        let e := nev s in
        let s1 := cmk (variant s) (lk s) (owner_rec s) (upd (cwaiters s) c (cwaiters s c ++ [e]))
                      (upd (eset s) e false) (upd (efut s) e FPending) (S e) (cphase_of s)
                      (cenq s ++ [e]) (setlog s) (inflight s) (horizon s) (nlog s)
                      (issued s) (consumed s) (dropped s) (lost s) in
        let '(l', r) := Lock.step (lk s) (Release t) in
        match r with
        | RDone => (with_phase (with_owner (with_lk s1 l') (rec_released s c)) t (PWait c e), RBlocked)
        | _ => (with_lk s1 l', r)    (* release() raised before the try: the event stays enqueued *)
        end
      else (s, RRuntime)
  | CCancel t =>
      match cphase_of s t with
      | PIdle => (s, RRejected)
      | PAcq _ | PReacq _ _ _ =>
          let '(l', r) := Lock.step (lk s) (Cancel t) in (with_lk s l', r)
      | PWait _ e =>
          match efut s e with
          | FPending => (with_efut s e FCancelled, RNone)
          | _ => (with_lk s (set_mustc (lk s) t true), RNone)
          end
      end
  | CScopeCancel t =>
      (* CancelScope._deliver_cancellation (:581-629) calls task.cancel() only if the task is not inside a
         shielded scope and the future it awaits is not done.  Inside acquire()/wait() the only unshielded
         suspension is the first one, so retries of the delivery never find anything to do later. *)
      match cphase_of s t with
      | PIdle => (s, RRejected)
      | PReacq _ _ _ => (s, RNone)         (* with CancelScope(shield=True): await self.acquire() *)
      | PWait _ e =>
          match efut s e with
          | FPending => (with_efut s e FCancelled, RNone)
          | _ => (s, RNone)
          end
      | PAcq _ =>
          match phase_of (lk s) t with
          | Waiting f =>
              match futs (lk s) f with
              | FPending => let '(l', _) := Lock.step (lk s) (Cancel t) in (with_lk s l', RNone)
              | _ => (s, RNone)
              end
          | _ => (s, RNone)              (* cancel_shielded_checkpoint *)
          end
      end
  | CResume t =>
      match cphase_of s t with
      | PIdle => (s, RRejected)
      | PAcq oc =>
          let '(l', r) := Lock.step (lk s) (Resume t) in
          match r with
          | RRejected => (s, RRejected)
          | RDone => (with_phase (with_owner (with_lk s l') (rec_acquired s oc t)) t PIdle, RDone)
          | _ => (with_phase (with_lk s l') t PIdle, r)
          end
      | PReacq c e exc =>
          let '(l', r) := Lock.step (lk s) (Resume t) in
          match r with
          | RRejected => (s, RRejected)
          | _ => finish_wait s t c e exc l' r
          end
      | PWait c e =>
          match efut s e with
          | FPending => (s, RRejected)
          | fs =>
              let interrupted := match fs with FSet => mustc (lk s) t | _ => true end in
              let s0 := with_lk s (set_mustc (lk s) t false) in
              let s1 := if interrupted then wait_interrupted s0 c e else s0 in
              (* finally: with CancelScope(shield=True): await self.acquire() *)
              let '(l', r) := Lock.step (lk s1) (AcqBegin t) in
              finish_wait s1 t c e interrupted l' r
          end
      end
  end.

(* ---- documented scope: native cancellation inside the shielded re-acquire ----
   `native_reacq s o` = op o is a NATIVE Task.cancel() on a task that is inside wait()'s shielded re-acquire.
   AnyIO cancellation (CScopeCancel) cannot do this; the C11 theorems that need it assume `clean_run`. *)
Definition native_reacq (s : cst) (o : cop) : bool :=
  match o with
  | CCancel t => match cphase_of s t with PReacq _ _ _ => true | _ => false end
  | _ => false
  end.

Fixpoint clean_run (s : cst) (ops : list cop) : bool :=
  match ops with
  | [] => true
  | o :: r => negb (native_reacq s o) && clean_run (fst (cstep s o)) r
  end.

(* ---- known finding F18: hand-over to a later arrival ----
   `late_handover s o` = op o resumes a waiter that was notified and interrupted, and the head of its
   condition's queue - which is about to receive the notification - started waiting at or after the notify call
   that issued it (event ids count wait() calls, `horizon` is that count at the notify call). *)
Definition late_handover (s : cst) (o : cop) : bool :=
  match o with
  | CResume t =>
      match cphase_of s t with
      | PWait c e =>
          let interrupted := match efut s e with FPending => false | FSet => mustc (lk s) t | _ => true end in
          if interrupted && eset s e then
            match cwaiters s c with
            | h :: _ => Nat.leb (horizon s e) h
            | [] => false
            end
          else false
      | _ => false
      end
  | _ => false
  end.

Fixpoint no_late_handover (s : cst) (ops : list cop) : bool :=
  match ops with
  | [] => true
  | o :: r => negb (late_handover s o) && no_late_handover (fst (cstep s o)) r
  end.

(* ---- observable output ---- *)
Definition cobserve (s : cst) (r : res) : list Z :=
  [res_code r; nz (length (cwaiters s 0)); nz (length (cwaiters s 1)); nz (length (cwaiters s 2));
   bz (match owner (lk s) with Some _ => true | None => false end);
   match owner (lk s) with Some t => nz t | None => 0%Z end;
   nz (length (waiters (lk s)))].

(* ====================================================================================================== *)
(*  codec (shared with harness/c11.py)                                                                    *)
(*  case = machine :: fast :: variant :: (code, task, a, b)*    machine 0 = Event, 1 = Condition          *)
(* ====================================================================================================== *)
Definition decode_eop (c t : Z) : eop :=
  match c with
  | 0 => EvWait (zn t) | 1 => EvSet (zn t) | 3 => EvResume (zn t) | 4 => EvCancel (zn t)
  | _ => EvScopeCancel (zn t)
  end%Z.

Definition decode_cop (c t a b : Z) : cop :=
  match c with
  | 0 => CAcquire (zn a) (zn t) | 1 => CAcqNowait (zn a) (zn t) | 2 => CRelease (zn a) (zn t)
  | 3 => CResume (zn t) | 4 => CCancel (zn t) | 5 => CNotify (zn a) (zn t) (zn b)
  | 6 => CNotifyAll (zn a) (zn t) | 7 => CWait (zn a) (zn t) | 8 => CScopeCancel (zn t)
  | 9 => LAcquire (zn t) | 10 => LAcqNowait (zn t) | _ => LRelease (zn t)
  end%Z.

Fixpoint decode_eops (l : list Z) : list eop :=
  match l with
  | c :: t :: _ :: _ :: r => decode_eop c t :: decode_eops r
  | _ => []
  end.

Fixpoint decode_cops (l : list Z) : list cop :=
  match l with
  | c :: t :: a :: b :: r => decode_cop c t a b :: decode_cops r
  | _ => []
  end.

Fixpoint erun_obs (s : est) (ops : list eop) : list Z :=
  match ops with
  | [] => []
  | o :: r => let '(s1, out) := estep s o in eobserve s1 out ++ erun_obs s1 r
  end.

Fixpoint crun_obs (s : cst) (ops : list cop) : list Z :=
  match ops with
  | [] => []
  | o :: r =>
      let late := late_handover s o in
      let '(s1, out) := cstep s o in cobserve s1 out ++ [bz late] ++ crun_obs s1 r
  end.

Definition run_case (c : list Z) : list Z :=
  match c with
  | m :: fa :: v :: r =>
      if Z.eqb m 0 then erun_obs einit (decode_eops r)
      else crun_obs (cinit (zb fa) (zn v)) (decode_cops r)
  | _ => []
  end.
