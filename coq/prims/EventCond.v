(* P/EventCond: executable models of
     - anyio._backends._asyncio.Event (lines 1853-1875) on top of CPython's asyncio.Event (locks.py:155-215),
     - anyio.Condition (_core/_synchronization.py:276-385) on top of the Lock machine of Lock.v.
   Actions are the atomic segments of the API calls plus the kernel actions Resume (the scheduled wake-up /
   step of a blocked task runs) and Cancel (native asyncio Task.cancel() on a blocked task, both while its
   future is pending and after it was resolved).
   Definitions only: proofs live in EventCondProofs.v / EventCondThms.v. *)
From AV Require Import Base Lock.

Definition eid := nat.

Fixpoint remove_first (x : nat) (l : list nat) : list nat :=
  (* deque.remove(x): first occurrence *)
  match l with
  | [] => []
  | y :: r => if Nat.eqb y x then r else y :: remove_first x r
  end.

(* ====================================================================================================== *)
(*  Event                                                                                                 *)
(* ====================================================================================================== *)

Inductive ephase :=
| EIdle                 (* at a decision point of its program *)
| EYield                (* wait() on a set event: suspended in the plain checkpoint sleep(0) *)
| EWaiting (f : fid).   (* wait() on an unset event: suspended on future f inside asyncio.Event.wait *)

Inductive eop :=
| EvWait (t : tid)      (* t calls `await event.wait()` and runs up to its first suspension *)
| EvSet (t : tid)       (* t calls event.set() *)
| EvResume (t : tid)
| EvCancel (t : tid)        (* native Task.cancel() on blocked task t *)
| EvScopeCancel (t : tid).  (* the AnyIO cancel scope around t's wait() call is cancelled *)

Record est := emk {
  eflag : bool;                  (* asyncio.Event._value *)
  ewaiters : list fid;           (* asyncio.Event._waiters *)
  efuts : fid -> fstate;
  enfut : fid;
  ephase_of : tid -> ephase;
  emustc : tid -> bool;          (* Task._must_cancel *)
  esets : nat                    (* ghost: number of set() calls so far *)
}.

Definition einit : est := emk false [] (fun _ => FPending) 0 (fun _ => EIdle) (fun _ => false) 0.

Definition e_is_idle (p : ephase) := match p with EIdle => true | _ => false end.

(* asyncio.Event.set(): `for fut in self._waiters: if not fut.done(): fut.set_result(True)` *)
Fixpoint resolve_all (ws : list fid) (fu : fid -> fstate) : fid -> fstate :=
  match ws with
  | [] => fu
  | f :: r => resolve_all r (match fu f with FPending => upd fu f FSet | _ => fu end)
  end.

Definition estep (s : est) (o : eop) : est * res :=
  match o with
  | EvWait t =>
      if negb (e_is_idle (ephase_of s t)) then (s, RRejected) else
      if eflag s then
        (* anyio Event.wait: `if self.is_set(): await checkpoint()` = sleep(0), not shielded *)
        (emk (eflag s) (ewaiters s) (efuts s) (enfut s) (upd (ephase_of s) t EYield) (emustc s) (esets s),
         RBlocked)
      else
        let f := enfut s in
        (emk (eflag s) (ewaiters s ++ [f]) (upd (efuts s) f FPending) (S f)
             (upd (ephase_of s) t (EWaiting f)) (emustc s) (esets s), RBlocked)
  | EvSet t =>
      if negb (e_is_idle (ephase_of s t)) then (s, RRejected) else
      if eflag s then
        (emk true (ewaiters s) (efuts s) (enfut s) (ephase_of s) (emustc s) (S (esets s)), RDone)
      else
        (emk true (ewaiters s) (resolve_all (ewaiters s) (efuts s)) (enfut s) (ephase_of s) (emustc s)
             (S (esets s)), RDone)
  | EvCancel t =>
      match ephase_of s t with
      | EIdle => (s, RRejected)
      | EYield =>
          (emk (eflag s) (ewaiters s) (efuts s) (enfut s) (ephase_of s) (upd (emustc s) t true) (esets s), RNone)
      | EWaiting f =>
          match efuts s f with
          | FPending =>
              (emk (eflag s) (ewaiters s) (upd (efuts s) f FCancelled) (enfut s) (ephase_of s) (emustc s)
                   (esets s), RNone)
          | _ =>
              (emk (eflag s) (ewaiters s) (efuts s) (enfut s) (ephase_of s) (upd (emustc s) t true) (esets s),
               RNone)
          end
      end
  | EvScopeCancel t =>
      (* CancelScope._deliver_cancellation (:581-629): task.cancel() unless the awaited future is done;
         later retries find the task gone or its future done, so nothing else ever happens *)
      match ephase_of s t with
      | EIdle => (s, RRejected)
      | EYield =>
          (emk (eflag s) (ewaiters s) (efuts s) (enfut s) (ephase_of s) (upd (emustc s) t true) (esets s), RNone)
      | EWaiting f =>
          match efuts s f with
          | FPending =>
              (emk (eflag s) (ewaiters s) (upd (efuts s) f FCancelled) (enfut s) (ephase_of s) (emustc s)
                   (esets s), RNone)
          | _ => (s, RNone)
          end
      end
  | EvResume t =>
      match ephase_of s t with
      | EIdle => (s, RRejected)
      | EYield =>
          (emk (eflag s) (ewaiters s) (efuts s) (enfut s) (upd (ephase_of s) t EIdle) (upd (emustc s) t false)
               (esets s),
           if emustc s t then RCancelled else RDone)
      | EWaiting f =>
          match efuts s f with
          | FPending => (s, RRejected)
          | FSet =>
              (* finally: self._waiters.remove(fut) *)
              (emk (eflag s) (remove_first f (ewaiters s)) (efuts s) (enfut s) (upd (ephase_of s) t EIdle)
                   (upd (emustc s) t false) (esets s),
               if emustc s t then RCancelled else RDone)
          | FCancelled =>
              (emk (eflag s) (remove_first f (ewaiters s)) (efuts s) (enfut s) (upd (ephase_of s) t EIdle)
                   (upd (emustc s) t false) (esets s), RCancelled)
          end
      end
  end.

Definition eobserve (s : est) (r : res) : list Z :=
  [res_code r; bz (eflag s); nz (length (ewaiters s))].

(* ====================================================================================================== *)
(*  Condition                                                                                             *)
(* ====================================================================================================== *)

Inductive cphase :=
| PIdle                          (* at a decision point (may or may not hold the lock) *)
| PAcq                           (* suspended inside Condition.acquire(), i.e. inside Lock.acquire() *)
| PWait (e : eid)                (* wait(): enqueued event e, released the lock, suspended in e.wait() *)
| PReacq (e : eid) (exc : bool). (* wait(): suspended inside the shielded re-acquire; exc = an exception is
                                    pending (the event wait was interrupted) *)

Inductive cop :=
| CAcquire (t : tid)
| CAcqNowait (t : tid)
| CRelease (t : tid)
| CNotify (t : tid) (n : nat)
| CNotifyAll (t : tid)
| CWait (t : tid)
| CResume (t : tid)
| CCancel (t : tid)          (* native Task.cancel() on blocked task t *)
| CScopeCancel (t : tid).    (* the AnyIO cancel scope around t's acquire()/wait() call is cancelled *)

Record cst := cmk {
  pinned : bool;                 (* true = tree before 826e17f: release() keeps the recorded owner *)
  lk : Lock.st;                  (* the underlying Lock (its FIFO, futures, phases, must-cancel flags) *)
  owner_rec : option tid;        (* Condition._owner_task *)
  cwaiters : list eid;           (* Condition._waiters: FIFO of one-shot events *)
  eset : eid -> bool;            (* flag of one-shot event e *)
  efut : eid -> fstate;          (* the single waiter future of one-shot event e *)
  nev : eid;
  cphase_of : tid -> cphase;
  (* ghost *)
  cenq : list eid;               (* every event ever enqueued, in arrival order *)
  setlog : list eid;             (* every event set by notify / notify_all / pass-on, in order *)
  inflight : list eid;           (* events that are set and whose wait() has neither returned nor failed over *)
  issued : nat;                  (* events set by notify / notify_all *)
  consumed : nat;                (* wait() calls that returned normally *)
  dropped : nat;                 (* pass-on with an empty queue: notification handed to nobody *)
  lost : nat                     (* notified waiter whose re-acquire failed (native cancel inside the shield) *)
}.

Definition cinit (fa pin : bool) : cst :=
  cmk pin (Lock.init fa) None [] (fun _ => false) (fun _ => FPending) 0 (fun _ => PIdle)
      [] [] [] 0 0 0 0.

Definition c_is_idle (p : cphase) := match p with PIdle => true | _ => false end.

(* ---- field setters ---- *)
Definition with_lk (s : cst) (l : Lock.st) : cst :=
  cmk (pinned s) l (owner_rec s) (cwaiters s) (eset s) (efut s) (nev s) (cphase_of s)
      (cenq s) (setlog s) (inflight s) (issued s) (consumed s) (dropped s) (lost s).

Definition with_owner (s : cst) (o : option tid) : cst :=
  cmk (pinned s) (lk s) o (cwaiters s) (eset s) (efut s) (nev s) (cphase_of s)
      (cenq s) (setlog s) (inflight s) (issued s) (consumed s) (dropped s) (lost s).

Definition with_cw (s : cst) (w : list eid) : cst :=
  cmk (pinned s) (lk s) (owner_rec s) w (eset s) (efut s) (nev s) (cphase_of s)
      (cenq s) (setlog s) (inflight s) (issued s) (consumed s) (dropped s) (lost s).

Definition with_phase (s : cst) (t : tid) (p : cphase) : cst :=
  cmk (pinned s) (lk s) (owner_rec s) (cwaiters s) (eset s) (efut s) (nev s) (upd (cphase_of s) t p)
      (cenq s) (setlog s) (inflight s) (issued s) (consumed s) (dropped s) (lost s).

Definition with_efut (s : cst) (e : eid) (v : fstate) : cst :=
  cmk (pinned s) (lk s) (owner_rec s) (cwaiters s) (eset s) (upd (efut s) e v) (nev s) (cphase_of s)
      (cenq s) (setlog s) (inflight s) (issued s) (consumed s) (dropped s) (lost s).

Definition with_inflight (s : cst) (l : list eid) : cst :=
  cmk (pinned s) (lk s) (owner_rec s) (cwaiters s) (eset s) (efut s) (nev s) (cphase_of s)
      (cenq s) (setlog s) l (issued s) (consumed s) (dropped s) (lost s).

Definition with_counts (s : cst) (i c d l : nat) : cst :=
  cmk (pinned s) (lk s) (owner_rec s) (cwaiters s) (eset s) (efut s) (nev s) (cphase_of s)
      (cenq s) (setlog s) (inflight s) i c d l.

(* Event.set() on one-shot event e (asyncio.Event.set: no-op when already set; resolves a pending future) *)
Definition do_set (s : cst) (e : eid) : cst :=
  if eset s e then s else
  cmk (pinned s) (lk s) (owner_rec s) (cwaiters s) (upd (eset s) e true)
      (match efut s e with FPending => upd (efut s) e FSet | _ => efut s end) (nev s) (cphase_of s)
      (cenq s) (setlog s ++ [e]) (inflight s) (issued s) (consumed s) (dropped s) (lost s).

(* Condition.release(): self._lock.release(); self._owner_task = None  (the second statement only at HEAD) *)
Definition released_owner (s : cst) : option tid := if pinned s then owner_rec s else None.

(* notify(n): `for _ in range(n): try: event = self._waiters.popleft() except IndexError: break; event.set()` *)
Fixpoint notify_loop (n : nat) (s : cst) : cst :=
  match n with
  | 0 => s
  | S k =>
      match cwaiters s with
      | [] => s
      | e :: r =>
          let s1 := do_set (with_cw s r) e in
          notify_loop k (with_counts (with_inflight s1 (inflight s1 ++ [e]))
                                     (S (issued s1)) (consumed s1) (dropped s1) (lost s1))
      end
  end.

(* the end of wait(): the shielded `await self.acquire()` produced lock result r for task t.
   exc = an exception from the event wait is pending and is re-raised after the re-acquire. *)
Definition finish_wait (s : cst) (t : tid) (e : eid) (exc : bool) (l' : Lock.st) (r : res) : cst * res :=
  match r with
  | RBlocked => (with_phase (with_lk s l') t (PReacq e exc), RBlocked)
  | RDone =>
      let s1 := with_phase (with_owner (with_lk s l') (Some t)) t PIdle in
      if exc then (s1, RCancelled)
      else (with_counts (with_inflight s1 (remove_first e (inflight s1)))
                        (issued s1) (S (consumed s1)) (dropped s1) (lost s1), RDone)
  | _ =>
      (* the re-acquire itself raised (CancelledError from a native cancel; RuntimeError cannot happen):
         wait() propagates that exception and the task does not hold the lock *)
      let s1 := with_phase (with_lk s l') t PIdle in
      if exc then (s1, r)
      else (with_counts (with_inflight s1 (remove_first e (inflight s1)))
                        (issued s1) (consumed s1) (dropped s1) (S (lost s1)), r)
  end.

(* `except BaseException:` branch of wait() for event e *)
Definition wait_interrupted (s : cst) (e : eid) : cst :=
  if eset s e then
    match cwaiters s with
    | [] =>
        with_counts (with_inflight s (remove_first e (inflight s)))
                    (issued s) (consumed s) (S (dropped s)) (lost s)
    | h :: r =>
        (* This task was notified but could not act on it, so pass it on to the next task *)
        let s1 := do_set (with_cw s r) h in
        with_inflight s1 (remove_first e (inflight s1) ++ [h])
    end
  else with_cw s (remove_first e (cwaiters s)).

Definition cstep (s : cst) (o : cop) : cst * res :=
  match o with
  | CAcquire t =>
      if negb (c_is_idle (cphase_of s t)) then (s, RRejected) else
      let '(l', r) := Lock.step (lk s) (AcqBegin t) in
      match r with
      | RDone => (with_owner (with_lk s l') (Some t), RDone)
      | RBlocked => (with_phase (with_lk s l') t PAcq, RBlocked)
      | _ => (with_lk s l', r)
      end
  | CAcqNowait t =>
      if negb (c_is_idle (cphase_of s t)) then (s, RRejected) else
      let '(l', r) := Lock.step (lk s) (AcqNowait t) in
      match r with
      | RDone => (with_owner (with_lk s l') (Some t), RDone)
      | _ => (with_lk s l', r)
      end
  | CRelease t =>
      if negb (c_is_idle (cphase_of s t)) then (s, RRejected) else
      let '(l', r) := Lock.step (lk s) (Release t) in
      match r with
      | RDone => (with_owner (with_lk s l') (released_owner s), RDone)
      | _ => (with_lk s l', r)
      end
  | CNotify t n =>
      if negb (c_is_idle (cphase_of s t)) then (s, RRejected) else
      if tid_eqb_opt (owner_rec s) t then (notify_loop n s, RDone) else (s, RRuntime)
  | CNotifyAll t =>
      if negb (c_is_idle (cphase_of s t)) then (s, RRejected) else
      if tid_eqb_opt (owner_rec s) t then (notify_loop (length (cwaiters s)) s, RDone) else (s, RRuntime)
  | CWait t =>
      if negb (c_is_idle (cphase_of s t)) then (s, RRejected) else
      (* checkpoint_if_cancelled(): the caller is not in a cancelled scope here (C08 covers that) *)
      if tid_eqb_opt (owner_rec s) t then
        let e := nev s in
        let s1 := cmk (pinned s) (lk s) (owner_rec s) (cwaiters s ++ [e]) (upd (eset s) e false)
                      (upd (efut s) e FPending) (S e) (cphase_of s)
                      (cenq s ++ [e]) (setlog s) (inflight s) (issued s) (consumed s) (dropped s) (lost s) in
        let '(l', r) := Lock.step (lk s) (Release t) in
        match r with
        | RDone => (with_phase (with_owner (with_lk s1 l') (released_owner s)) t (PWait e), RBlocked)
        | _ => (with_lk s1 l', r)    (* release() raised before the try: the event stays enqueued *)
        end
      else (s, RRuntime)
  | CCancel t =>
      match cphase_of s t with
      | PIdle => (s, RRejected)
      | PAcq | PReacq _ _ =>
          let '(l', r) := Lock.step (lk s) (Cancel t) in (with_lk s l', r)
      | PWait e =>
          match efut s e with
          | FPending => (with_efut s e FCancelled, RNone)
          | _ => (with_lk s (set_mustc (lk s) t true), RNone)
          end
      end
  | CScopeCancel t =>
      (* CancelScope._deliver_cancellation (:581-629) calls task.cancel() only if the task is not inside a
         shielded scope and the future it awaits is not done.  Inside acquire()/wait() the only unshielded
         suspension is the first one, so retries of the delivery never find anything to do later. *)
      match cphase_of s t with
      | PIdle => (s, RRejected)
      | PReacq _ _ => (s, RNone)         (* with CancelScope(shield=True): await self.acquire() *)
      | PWait e =>
          match efut s e with
          | FPending => (with_efut s e FCancelled, RNone)
          | _ => (s, RNone)
          end
      | PAcq =>
          match phase_of (lk s) t with
          | Waiting f =>
              match futs (lk s) f with
              | FPending => let '(l', _) := Lock.step (lk s) (Cancel t) in (with_lk s l', RNone)
              | _ => (s, RNone)
              end
          | _ => (s, RNone)              (* cancel_shielded_checkpoint *)
          end
      end
  | CResume t =>
      match cphase_of s t with
      | PIdle => (s, RRejected)
      | PAcq =>
          let '(l', r) := Lock.step (lk s) (Resume t) in
          match r with
          | RRejected => (s, RRejected)
          | RDone => (with_phase (with_owner (with_lk s l') (Some t)) t PIdle, RDone)
          | _ => (with_phase (with_lk s l') t PIdle, r)
          end
      | PReacq e exc =>
          let '(l', r) := Lock.step (lk s) (Resume t) in
          match r with
          | RRejected => (s, RRejected)
          | _ => finish_wait s t e exc l' r
          end
      | PWait e =>
          match efut s e with
          | FPending => (s, RRejected)
          | fs =>
              let interrupted := match fs with FSet => mustc (lk s) t | _ => true end in
              let s0 := with_lk s (set_mustc (lk s) t false) in
              let s1 := if interrupted then wait_interrupted s0 e else s0 in
              (* finally: with CancelScope(shield=True): await self.acquire() *)
              let '(l', r) := Lock.step (lk s1) (AcqBegin t) in
              finish_wait s1 t e interrupted l' r
          end
      end
  end.

(* ---- documented scope: native cancellation inside the shielded re-acquire ----
   `native_reacq s o` = op o is a NATIVE Task.cancel() on a task that is inside wait()'s shielded re-acquire.
   AnyIO cancellation (CScopeCancel) cannot do this; the C11 theorems that need it assume `clean_run`. *)
Definition native_reacq (s : cst) (o : cop) : bool :=
  match o with
  | CCancel t => match cphase_of s t with PReacq _ _ => true | _ => false end
  | _ => false
  end.

Fixpoint clean_run (s : cst) (ops : list cop) : bool :=
  match ops with
  | [] => true
  | o :: r => negb (native_reacq s o) && clean_run (fst (cstep s o)) r
  end.

(* ---- observable output ---- *)
Definition cobserve (s : cst) (r : res) : list Z :=
  [res_code r; nz (length (cwaiters s));
   bz (match owner (lk s) with Some _ => true | None => false end);
   match owner (lk s) with Some t => nz t | None => 0%Z end;
   nz (length (waiters (lk s)))].

(* ====================================================================================================== *)
(*  codec (shared with harness/c11.py)                                                                    *)
(*  case = machine :: fast :: pinned :: (code, task, n)*       machine 0 = Event, 1 = Condition           *)
(* ====================================================================================================== *)
Definition decode_eop (c t : Z) : eop :=
  match c with
  | 0 => EvWait (zn t) | 1 => EvSet (zn t) | 3 => EvResume (zn t) | 4 => EvCancel (zn t)
  | _ => EvScopeCancel (zn t)
  end%Z.

Definition decode_cop (c t n : Z) : cop :=
  match c with
  | 0 => CAcquire (zn t) | 1 => CAcqNowait (zn t) | 2 => CRelease (zn t) | 3 => CResume (zn t)
  | 4 => CCancel (zn t) | 5 => CNotify (zn t) (zn n) | 6 => CNotifyAll (zn t) | 7 => CWait (zn t)
  | _ => CScopeCancel (zn t)
  end%Z.

Fixpoint decode_eops (l : list Z) : list eop :=
  match l with
  | c :: t :: _ :: r => decode_eop c t :: decode_eops r
  | _ => []
  end.

Fixpoint decode_cops (l : list Z) : list cop :=
  match l with
  | c :: t :: n :: r => decode_cop c t n :: decode_cops r
  | _ => []
  end.

Fixpoint erun_obs (s : est) (ops : list eop) : list Z :=
  match ops with
  | [] => []
  | o :: r => let '(s1, out) := estep s o in eobserve s1 out ++ erun_obs s1 r
  end.

Fixpoint crun_obs (s : cst) (ops : list cop) : list Z :=
  match ops with
  | [] => []
  | o :: r => let '(s1, out) := cstep s o in cobserve s1 out ++ crun_obs s1 r
  end.

Definition run_case (c : list Z) : list Z :=
  match c with
  | m :: fa :: pin :: r =>
      if Z.eqb m 0 then erun_obs einit (decode_eops r)
      else crun_obs (cinit (zb fa) (zb pin)) (decode_cops r)
  | _ => []
  end.
