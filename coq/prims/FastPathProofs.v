From AV Require Import Base FastPath.

Lemma run_cancelled_starts_with_check l acc :
  starts_with_check l = true ->
  raised (run_shape true l acc) = true /\ effects (run_shape true l acc) = effects acc /\
  yields (run_shape true l acc) = S (yields acc).
Proof. destruct l as [|[| | |] r]; cbn; intros H; try discriminate; auto. Qed.

Lemma run_not_cancelled l : forall acc,
  raised (run_shape false l acc) = raised acc /\
  effects (run_shape false l acc) = effects acc + count_effects l /\
  yields acc <= yields (run_shape false l acc) /\
  (has_yield l = true -> yields acc < yields (run_shape false l acc)).
Proof.
  induction l as [|a r IH]; intros acc; cbn.
  - refine (conj eq_refl (conj _ (conj (le_n _) _))); [unfold count_effects; cbn; lia|discriminate].
  - destruct a; cbn.
    + specialize (IH acc). exact IH.
    + specialize (IH (mkOut (raised acc) (effects acc) (S (yields acc)))). cbn in IH.
      destruct IH as (H1 & H2 & H3 & H4). refine (conj H1 (conj H2 (conj _ _))); [lia|intros _; lia].
    + specialize (IH (mkOut (raised acc) (effects acc) (S (yields acc)))). cbn in IH.
      destruct IH as (H1 & H2 & H3 & H4). refine (conj H1 (conj H2 (conj _ _))); [lia|intros _; lia].
    + specialize (IH (mkOut (raised acc) (S (effects acc)) (yields acc))). cbn in IH.
      destruct IH as (H1 & H2 & H3 & H4). unfold count_effects in *. cbn.
      refine (conj H1 (conj _ (conj H3 H4))). lia.
Qed.

(* the two sanctioned forms: cancel-check -> effect -> yield, or checkpoint -> effect *)
Theorem shape_cancelled_noeffect l :
  starts_with_check l = true ->
  raised (run_shape true l out0) = true /\ effects (run_shape true l out0) = 0.
Proof.
  intros H. destruct (run_cancelled_starts_with_check l out0 H) as (H1 & H2 & _). auto.
Qed.

Theorem shape_not_cancelled_yields l :
  has_yield l = true ->
  raised (run_shape false l out0) = false /\ effects (run_shape false l out0) = count_effects l /\
  1 <= yields (run_shape false l out0).
Proof.
  intros H. destruct (run_not_cancelled l out0) as (H1 & H2 & _ & H4). specialize (H4 H). cbn in *.
  repeat split; auto; lia.
Qed.

Theorem fastpath_table_checkpoints : forall row, In row checked_rows ->
  starts_with_check (row_shape row) = true /\ has_yield (row_shape row) = true /\
  (let o := run_shape true (row_shape row) out0 in raised o = true /\ effects o = 0) /\
  (let o := run_shape false (row_shape row) out0 in
   raised o = false /\ effects o = count_effects (row_shape row) /\ 1 <= yields o).
Proof.
  intros row H.
  assert (Hs : forallb (fun r => starts_with_check (row_shape r) && has_yield (row_shape r)) checked_rows = true)
    by (vm_compute; reflexivity).
  rewrite forallb_forall in Hs. specialize (Hs row H). apply andb_true_iff in Hs. destruct Hs as [H1 H2].
  refine (conj H1 (conj H2 (conj _ _))).
  - apply shape_cancelled_noeffect, H1.
  - apply shape_not_cancelled_yields, H2.
Qed.

(* Condition.wait entered in a cancelled scope: raises before releasing the lock or enqueueing *)
Theorem cond_wait_cancelled_keeps_lock :
  let o := run_shape true (row_shape 9) out0 in raised o = true /\ effects o = 0.
Proof. vm_compute. auto. Qed.

(* the documented exemptions really are exemptions: no yield when not cancelled *)
Example exempt_fast_acquire : yields (run_shape false (row_shape 30) out0) = 0.
Proof. reflexivity. Qed.
Example exempt_nowait : yields (run_shape false (row_shape 31) out0) = 0 /\ raised (run_shape true (row_shape 31) out0) = false.
Proof. split; reflexivity. Qed.
