(* List facts shared by the C10 proofs: subsequences (FIFO), membership test, removal of one occurrence. *)
From AV Require Import Base C10Defs.

(* ---------- subsequences ---------- *)
Inductive subseq {A} : list A -> list A -> Prop :=
| ss_nil : subseq [] []
| ss_skip x a b : subseq a b -> subseq a (x :: b)
| ss_take x a b : subseq a b -> subseq (x :: a) (x :: b).

Lemma subseq_refl {A} (l : list A) : subseq l l.
Proof. induction l; [apply ss_nil | apply ss_take; assumption]. Qed.

Lemma subseq_nil_l {A} (l : list A) : subseq [] l.
Proof. induction l; [apply ss_nil | apply ss_skip; assumption]. Qed.

Lemma subseq_trans {A} (a b c : list A) : subseq a b -> subseq b c -> subseq a c.
Proof.
  intros Hab Hbc. revert a Hab. induction Hbc as [|x b c Hbc IH|x b c Hbc IH]; intros a Hab.
  - exact Hab.
  - apply ss_skip. apply IH, Hab.
  - inversion Hab as [|y a' b' H1|y a' b' H1]; subst.
    + apply ss_skip. apply IH. exact H1.
    + apply ss_take. apply IH. exact H1.
Qed.

Lemma subseq_app_tail {A} (a b : list A) x : subseq a b -> subseq (a ++ [x]) (b ++ [x]).
Proof.
  induction 1 as [|y a b H IH|y a b H IH]; cbn.
  - apply ss_take, ss_nil.
  - apply ss_skip, IH.
  - apply ss_take, IH.
Qed.

Lemma subseq_suffix {A} (pre l : list A) : subseq l (pre ++ l).
Proof. induction pre; cbn; [apply subseq_refl|apply ss_skip; assumption]. Qed.

Lemma subseq_in {A} (a b : list A) x : subseq a b -> In x a -> In x b.
Proof.
  induction 1 as [|y a b Hs IH|y a b Hs IH]; cbn; intros Hin; auto.
  destruct Hin as [Hin|Hin]; auto.
Qed.

Lemma subseq_map {A B} (g : A -> B) a b : subseq a b -> subseq (map g a) (map g b).
Proof.
  induction 1 as [|y a b H IH|y a b H IH]; cbn;
    [apply ss_nil | apply ss_skip, IH | apply ss_take, IH].
Qed.

Lemma subseq_nodup {A} (a b : list A) : subseq a b -> NoDup b -> NoDup a.
Proof.
  induction 1 as [|x a b H IH|x a b H IH]; intros Hn; [constructor| |].
  - inversion Hn; auto.
  - inversion Hn as [|y l Hy Hl]; subst. constructor; [|auto].
    intros Hin. apply Hy. eapply subseq_in; eauto.
Qed.

Lemma subseq_tl {A} (x : A) l : subseq l (x :: l).
Proof. apply ss_skip, subseq_refl. Qed.

(* ---------- small list facts ---------- *)
Lemma NoDup_app_tail1 {A} (l : list A) x : NoDup l -> ~ In x l -> NoDup (l ++ [x]).
Proof.
  induction l as [|y l IH]; cbn; intros Hn Hx; [constructor; [tauto|constructor]|].
  inversion Hn as [|z l' Hy Hl]; subst. constructor.
  - intros H. apply in_app_or in H. destruct H as [H|[H|[]]]; [contradiction|]. subst. apply Hx. now left.
  - apply IH; [exact Hl|]. intros H. apply Hx. now right.
Qed.

Lemma mem_In t l : mem t l = true <-> In t l.
Proof.
  unfold mem. rewrite existsb_exists. split.
  - intros (x & Hx & E). apply Nat.eqb_eq in E. now subst.
  - intros H. exists t. split; [exact H|apply Nat.eqb_refl].
Qed.

Lemma mem_false t l : mem t l = false <-> ~ In t l.
Proof.
  rewrite <- mem_In. destruct (mem t l); split; congruence.
Qed.

Lemma remove_one_length t l : In t l -> S (length (remove_one t l)) = length l.
Proof.
  induction l as [|x r IH]; cbn; [tauto|]. intros H.
  destruct (Nat.eqb_spec x t) as [->|Hne]; [reflexivity|]. cbn. f_equal. apply IH.
  destruct H as [H|H]; [contradiction|exact H].
Qed.

Lemma remove_one_notin t l : ~ In t l -> remove_one t l = l.
Proof.
  induction l as [|x r IH]; cbn; [reflexivity|]. intros H.
  destruct (Nat.eqb_spec x t) as [->|Hne]; [exfalso; apply H; now left|].
  f_equal. apply IH. intros H1. apply H. now right.
Qed.

Lemma in_remove_one_incl t x l : In x (remove_one t l) -> In x l.
Proof.
  induction l as [|y r IH]; cbn; [tauto|].
  destruct (Nat.eqb y t); cbn; intros H; [now right|]. destruct H as [H|H]; [now left|right; auto].
Qed.

Lemma in_remove_one_other t x l : In x l -> x <> t -> In x (remove_one t l).
Proof.
  induction l as [|y r IH]; cbn; [tauto|]. intros H Hne.
  destruct (Nat.eqb_spec y t) as [->|Hyt].
  - destruct H as [H|H]; [congruence|exact H].
  - cbn. destruct H as [H|H]; [now left|right; auto].
Qed.

Lemma nodup_remove_one t l : NoDup l -> NoDup (remove_one t l).
Proof.
  induction l as [|y r IH]; cbn; intros Hn; [constructor|].
  inversion Hn as [|z l' Hy Hl]; subst.
  destruct (Nat.eqb y t); [exact Hl|]. constructor; [|auto].
  intros H. apply Hy. eapply in_remove_one_incl; eauto.
Qed.

Lemma remove_one_gone t l : NoDup l -> ~ In t (remove_one t l).
Proof.
  induction l as [|y r IH]; cbn; intros Hn; [tauto|].
  inversion Hn as [|z l' Hy Hl]; subst.
  destruct (Nat.eqb_spec y t) as [->|Hyt]; [exact Hy|].
  cbn. intros [H|H]; [contradiction|]. now apply IH.
Qed.

Lemma in_remove_one t x l : NoDup l -> (In x (remove_one t l) <-> In x l /\ x <> t).
Proof.
  intros Hn. split.
  - intros H. split; [eapply in_remove_one_incl; eauto|]. intros ->. revert H. now apply remove_one_gone.
  - intros [H1 H2]. now apply in_remove_one_other.
Qed.

Lemma remove_one_subseq t l : subseq (remove_one t l) l.
Proof.
  induction l as [|y r IH]; cbn; [apply ss_nil|].
  destruct (Nat.eqb y t); [apply subseq_tl|apply ss_take, IH].
Qed.
