(* Proofs about the Lru machine: an inductive invariant for every op sequence.
   Part 1: the lock discipline (which caller stands where in which entry lock), as a predicate on the
   four state components it mentions, so that it is insensitive to changes of the other components. *)
From AV Require Import Base Lru LruLockFacts LruDict.
From AV Require Lock LockProofs.
From Coq Require Import Sorting.Sorted ZifyBool.

Definition lockref (p : cphase) : option (key * lid) :=
  match p with
  | CLockWait k l _ _ => Some (k, l)
  | CInWrapped k l _ _ _ => Some (k, l)
  | _ => None
  end.

(* the generation of the entries dict the caller works on *)
Definition dictgen (p : cphase) : option nat :=
  match p with
  | CLockWait _ _ _ g => Some g
  | CInWrapped _ _ _ _ g => Some g
  | _ => None
  end.

Definition is_running (p : cphase) : bool :=
  match p with CInWrapped _ _ _ _ _ => true | _ => false end.

Definition nrun (cf : cfg) (ph : cid -> cphase) : nat :=
  cnt (fun c => is_running (ph c)) (seq 0 (ncall cf)).

Record LP (cf : cfg) (lk : lid -> Lock.st) (ph : cid -> cphase) (nl : nat) (lkf : lid -> key) : Prop := {
  L_inv : forall l, LockProofs.Inv (lk l);
  L_eng : forall l c, engaged (lk l) c -> exists k, lockref (ph c) = Some (k, l);
  L_wait : forall c k l t0 g, ph c = CLockWait k l t0 g -> engaged (lk l) c;
  L_run : forall c k l p b g, ph c = CInWrapped k l p b g -> In c (Lock.held (lk l));
  L_ref : forall c k l, lockref (ph c) = Some (k, l) -> l < nl /\ lkf l = k;
  L_ncall : forall c, ph c <> CIdle -> c < ncall cf
}.

Lemma LP_ext cf lk ph ph' nl lkf : (forall c, ph' c = ph c) -> LP cf lk ph nl lkf -> LP cf lk ph' nl lkf.
Proof.
  intros E H. destruct H as [H1 H2 H3 H4 H5 H6]. constructor.
  - exact H1.
  - intros l c. rewrite E. apply H2.
  - intros c k l t0 g. rewrite E. apply H3.
  - intros c k l p b g. rewrite E. apply H4.
  - intros c k l. rewrite E. apply H5.
  - intros c. rewrite E. apply H6.
Qed.

(* caller c performs a lock operation on lock l and moves to phase p' *)
Lemma LP_update cf lk ph nl lkf c l L' p' :
  LP cf lk ph nl lkf ->
  LockProofs.Inv L' ->
  (forall c', c' <> c -> (engaged L' c' <-> engaged (lk l) c') /\
                         (In c' (Lock.held L') <-> In c' (Lock.held (lk l)))) ->
  (forall k0 l0, lockref (ph c) = Some (k0, l0) -> l0 = l) ->
  (engaged L' c -> exists k, lockref p' = Some (k, l)) ->
  (forall k0 l0 t0 g0, p' = CLockWait k0 l0 t0 g0 -> l0 = l /\ engaged L' c) ->
  (forall k0 l0 p b g0, p' = CInWrapped k0 l0 p b g0 -> l0 = l /\ In c (Lock.held L')) ->
  (forall k0 l0, lockref p' = Some (k0, l0) -> l0 < nl /\ lkf l0 = k0) ->
  (p' <> CIdle -> c < ncall cf) ->
  LP cf (upd lk l L') (upd ph c p') nl lkf.
Proof.
  intros H HL Hoth Hown Heng Hw Hr Hrf Hn. constructor.
  - intros l0. destruct (Nat.eq_dec l0 l) as [->|N]; [now rewrite upd_same|rewrite upd_other by assumption; apply (L_inv _ _ _ _ _ H)].
  - intros l0 c0 He. destruct (Nat.eq_dec l0 l) as [->|Nl]; destruct (Nat.eq_dec c0 c) as [->|Nc].
    + rewrite upd_same in He. rewrite upd_same. apply Heng, He.
    + rewrite upd_same in He. rewrite upd_other by assumption. apply (L_eng _ _ _ _ _ H). now apply (Hoth c0 Nc).
    + rewrite upd_other in He by assumption. exfalso.
      destruct (L_eng _ _ _ _ _ H l0 c He) as [k Hk]. apply Nl. eapply Hown; eauto.
    + rewrite upd_other in He by assumption. rewrite upd_other by assumption. apply (L_eng _ _ _ _ _ H), He.
  - intros c0 k l0 t0 g0 Hp. destruct (Nat.eq_dec c0 c) as [->|Nc].
    + rewrite upd_same in Hp. destruct (Hw _ _ _ _ Hp) as [-> He]. now rewrite upd_same.
    + rewrite upd_other in Hp by assumption. pose proof (L_wait _ _ _ _ _ H _ _ _ _ _ Hp) as He.
      destruct (Nat.eq_dec l0 l) as [->|Nl]; [rewrite upd_same; now apply (Hoth c0 Nc)|now rewrite upd_other].
  - intros c0 k l0 p b g0 Hp. destruct (Nat.eq_dec c0 c) as [->|Nc].
    + rewrite upd_same in Hp. destruct (Hr _ _ _ _ _ Hp) as [-> He]. now rewrite upd_same.
    + rewrite upd_other in Hp by assumption. pose proof (L_run _ _ _ _ _ H _ _ _ _ _ _ Hp) as He.
      destruct (Nat.eq_dec l0 l) as [->|Nl]; [rewrite upd_same; now apply (Hoth c0 Nc)|now rewrite upd_other].
  - intros c0 k l0 Hp. destruct (Nat.eq_dec c0 c) as [->|Nc].
    + rewrite upd_same in Hp. auto.
    + rewrite upd_other in Hp by assumption. apply (L_ref _ _ _ _ _ H c0), Hp.
  - intros c0 Hp. destruct (Nat.eq_dec c0 c) as [->|Nc].
    + rewrite upd_same in Hp. auto.
    + rewrite upd_other in Hp by assumption. apply (L_ncall _ _ _ _ _ H c0), Hp.
Qed.

(* only the phase of c changes *)
Lemma LP_phase cf lk ph nl lkf c p' :
  LP cf lk ph nl lkf ->
  (forall l, engaged (lk l) c -> exists k, lockref p' = Some (k, l)) ->
  (forall k0 l0 t0 g0, p' = CLockWait k0 l0 t0 g0 -> engaged (lk l0) c) ->
  (forall k0 l0 p b g0, p' = CInWrapped k0 l0 p b g0 -> In c (Lock.held (lk l0))) ->
  (forall k0 l0, lockref p' = Some (k0, l0) -> l0 < nl /\ lkf l0 = k0) ->
  (p' <> CIdle -> c < ncall cf) ->
  LP cf lk (upd ph c p') nl lkf.
Proof.
  intros H Heng Hw Hr Hrf Hn. constructor.
  - apply (L_inv _ _ _ _ _ H).
  - intros l c0 He. destruct (Nat.eq_dec c0 c) as [->|Nc]; [rewrite upd_same; auto|].
    rewrite upd_other by assumption. apply (L_eng _ _ _ _ _ H), He.
  - intros c0 k l t0 g0 Hp. destruct (Nat.eq_dec c0 c) as [->|Nc]; [rewrite upd_same in Hp; eauto|].
    rewrite upd_other in Hp by assumption. apply (L_wait _ _ _ _ _ H _ _ _ _ _ Hp).
  - intros c0 k l p b g0 Hp. destruct (Nat.eq_dec c0 c) as [->|Nc]; [rewrite upd_same in Hp; eauto|].
    rewrite upd_other in Hp by assumption. apply (L_run _ _ _ _ _ H _ _ _ _ _ _ Hp).
  - intros c0 k l Hp. destruct (Nat.eq_dec c0 c) as [->|Nc]; [rewrite upd_same in Hp; auto|].
    rewrite upd_other in Hp by assumption. apply (L_ref _ _ _ _ _ H c0), Hp.
  - intros c0 Hp. destruct (Nat.eq_dec c0 c) as [->|Nc]; [rewrite upd_same in Hp; auto|].
    rewrite upd_other in Hp by assumption. apply (L_ncall _ _ _ _ _ H c0), Hp.
Qed.

(* a fresh lock for key k *)
Lemma LP_newlock cf lk ph nl lkf fa k :
  LP cf lk ph nl lkf -> LP cf (upd lk nl (Lock.init fa)) ph (S nl) (upd lkf nl k).
Proof.
  intros H.
  assert (Hlt : forall c k0 l0, lockref (ph c) = Some (k0, l0) -> l0 <> nl).
  { intros c k0 l0 Hp. destruct (L_ref _ _ _ _ _ H c k0 l0 Hp). lia. }
  constructor.
  - intros l. destruct (Nat.eq_dec l nl) as [->|N]; [rewrite upd_same; apply LockProofs.inv_init|].
    rewrite upd_other by assumption. apply (L_inv _ _ _ _ _ H).
  - intros l c He. destruct (Nat.eq_dec l nl) as [->|N].
    + rewrite upd_same in He. exfalso. eapply engaged_init; eauto.
    + rewrite upd_other in He by assumption. apply (L_eng _ _ _ _ _ H), He.
  - intros c k0 l t0 g0 Hp. rewrite upd_other; [apply (L_wait _ _ _ _ _ H _ _ _ _ _ Hp)|].
    apply (Hlt c k0). now rewrite Hp.
  - intros c k0 l p b g0 Hp. rewrite upd_other; [apply (L_run _ _ _ _ _ H _ _ _ _ _ _ Hp)|].
    apply (Hlt c k0). now rewrite Hp.
  - intros c k0 l Hp. destruct (L_ref _ _ _ _ _ H c k0 l Hp) as [H1 H2]. split; [lia|].
    rewrite upd_other; [exact H2|lia].
  - apply (L_ncall _ _ _ _ _ H).
Qed.

(* facts derived from the discipline *)
Lemma LP_idle_not_engaged cf lk ph nl lkf c l :
  LP cf lk ph nl lkf -> lockref (ph c) = None -> ~ engaged (lk l) c.
Proof. intros H Hp He. destruct (L_eng _ _ _ _ _ H l c He) as [k Hk]. congruence. Qed.

Lemma LP_step_other cf lk ph nl lkf l o :
  LP cf lk ph nl lkf ->
  forall c', c' <> op_tid o ->
    (engaged (fst (Lock.step (lk l) o)) c' <-> engaged (lk l) c') /\
    (In c' (Lock.held (fst (Lock.step (lk l) o))) <-> In c' (Lock.held (lk l))).
Proof.
  intros H c' N. split; [now apply engaged_other|]. now destruct (lstep_other (lk l) o c' N).
Qed.
