(* translator refused *)
From AV Require Import Base CondImp.
Definition refused : False := "translate_cond REFUSED: cond_wait: line 360: await in a loop, a try body, the handler of an await or a synchronous method `await self.acquire()`".
