(* translator refused *)
From AV Require Import Base FastPath.
Definition refused : False := "translate_fastpath REFUSED: row 12 MemoryObjectReceiveStream.receive: unsupported branch `if self._state.buffer` inside a fast path".
