(* Tie T for C10 / CapacityLimiter: interpreting the segments regenerated from /repo's source (LimiterGen.v) IS the
   hand-written model's step (Limiter.v), for every state, task and borrower. *)
From AV Require Import Base C10Defs C10Lib PrimImp Limiter LimiterProofs LimiterThms LimiterImp LimiterGen.

Lemma wl_eqb_refl l : wl_eqb l l = true.
Proof.
  induction l as [|[t f] r IH]; cbn; [reflexivity|].
  now rewrite !Nat.eqb_refl, IH.
Qed.

Lemma exec_seq a b t l g k :
  exec (SSeq a b) t l g k =
  let '(l1, g1, k1, o) := exec a t l g k in match o with ONext => exec b t l1 g1 k1 | _ => (l1, g1, k1, o) end.
Proof. reflexivity. Qed.

Lemma exec_if c a b t l g k :
  exec (SIf c a b) t l g k =
  match eval_cond c l k with
  | CB true => exec a t l g k | CB false => exec b t l g k
  | CX x => (l, g, k, ORaise x) | CStuck => (l, g, k, OStuck)
  end.
Proof. reflexivity. Qed.

(* ---- the loop of the total_tokens setter is Limiter.wake_free ---- *)
Lemma wake_free_rv tot q : forall bs ev rv,
  wake_free tot q bs ev rv =
  let '(q', bs', ev', rv') := wake_free tot q bs ev (@nil nat) in (q', bs', ev', rv' ++ rv).
Proof.
  induction q as [|[b e] r IH]; intros bs ev rv; cbn; [reflexivity|].
  destruct (free bs tot); [|reflexivity].
  rewrite (IH _ _ (b :: rv)), (IH _ _ [b]).
  destruct (wake_free tot r (set_add b bs) (upd ev e true) (@nil nat)) as [[[q' bs'] ev'] rv'].
  now rewrite <- app_assoc.
Qed.

Lemma wloop_wake (evalc : loc -> heap -> cres) (run : loc -> log -> heap -> result) :
  (forall l k, evalc l k = CB (negb (is_nil (h_queue k)) && free (h_borrowers k) (h_total k))) ->
  (forall l g k b e r, h_queue k = (b, e) :: r -> exists l',
     run l g k =
     (l', mklog (g_woke g) (b :: g_grant g) (g_enq g) (g_arr g),
      mkh (h_fast k) (h_maxv k) (h_value k) (h_waiters k) (h_futs k) (h_nfut k) (h_total k)
          (set_add b (h_borrowers k)) r (upd (h_evset k) e true) (h_nev k), ONext)) ->
  forall q l g k, h_queue k = q ->
  exists l',
    wloop evalc run QQueue q l g k =
    (let '(q', bs', ev', rv') := wake_free (h_total k) q (h_borrowers k) (h_evset k) (g_grant g) in
     (l', mklog (g_woke g) rv' (g_enq g) (g_arr g),
      mkh (h_fast k) (h_maxv k) (h_value k) (h_waiters k) (h_futs k) (h_nfut k) (h_total k) bs' q' ev' (h_nev k),
      ONext)).
Proof.
  intros Hc Hrun. induction q as [|[b e] r IH]; intros l g k Hq.
  - exists l. cbn [wloop wake_free]. rewrite Hc, Hq. cbn. destruct k, g; cbn in *; subst; reflexivity.
  - cbn [wloop wake_free]. rewrite Hc, Hq. cbn [is_nil negb andb].
    destruct (free (h_borrowers k) (h_total k)) eqn:Ef.
    + destruct (Hrun l g k b e r Hq) as (l1 & Hr). rewrite Hr. clear Hr.
      cbn [qget h_queue]. rewrite wl_eqb_refl.
      match goal with |- context [wloop evalc run QQueue r l1 ?g1 ?k1] =>
        destruct (IH l1 g1 k1 eq_refl) as (l2 & Hex) end.
      exists l2. rewrite Hex. cbn. reflexivity.
    + exists l. destruct k, g; cbn in *; subst; reflexivity.
Qed.

(* ---- one theorem per segment: step = ghost bookkeeping (lift) of the interpretation ---- *)
Ltac kcbn := cbn -[mem free set_add queue_set queue_pop remove_one keys].

Theorem tie_acquire_nowait s t b : phase_of s t = Idle ->
  step s (AcqOnNowait t b) =
  lift s t (KAcquire b) (exec lim_acquire_on_behalf_of_nowait_entry t (loc_entry (Some b) None) log0 (core s)).
Proof.
  intros Hp. unfold step. cbn [step_gen]. rewrite Hp. cbn [is_idle negb].
  unfold lim_acquire_on_behalf_of_nowait_entry, busy.
  destruct s as [tot bs q ev ne ph fc mc h rv ar tn]; kcbn.
  destruct (mem b bs) eqn:Em; kcbn; [reflexivity|].
  destruct q as [|[b' e'] r]; kcbn; [|reflexivity].
  destruct (free bs tot); kcbn; [unfold set_add; rewrite Em|]; reflexivity.
Qed.

Theorem tie_acquire_entry s t b : phase_of s t = Idle ->
  step s (AcqOn t b) =
  lift s t (KAcquire b) (exec lim_acquire_on_behalf_of_entry t (loc_entry (Some b) None) log0 (core s)).
Proof.
  intros Hp. unfold step. cbn [step_gen]. rewrite Hp. cbn [is_idle negb].
  unfold lim_acquire_on_behalf_of_entry, lim_acquire_on_behalf_of_nowait_entry, busy, enq_head, enqueue.
  destruct s as [tot bs q ev ne ph fc mc h rv ar tn]; kcbn.
  destruct (mem b bs) eqn:Em; kcbn; [reflexivity|].
  destruct q as [|[b' e'] r]; kcbn.
  - destruct (free bs tot); kcbn; [unfold set_add; rewrite Em; reflexivity|].
    reflexivity.
  - destruct (mem b (keys ((b', e') :: r))); kcbn; reflexivity.
Qed.

Theorem tie_release s t b : phase_of s t = Idle ->
  step s (RelOn t b) =
  lift s t (KRelease b) (exec lim_release_on_behalf_of_entry t (loc_entry (Some b) None) log0 (core s)).
Proof.
  intros Hp. unfold step. cbn [step_gen]. rewrite Hp. cbn [is_idle negb].
  unfold lim_release_on_behalf_of_entry, lim_notify_next_waiter_entry, give_back, notify_next, with_tok.
  destruct s as [tot bs q ev ne ph fc mc h rv ar tn]; kcbn.
  destruct (mem b bs) eqn:Em; kcbn; [|reflexivity].
  destruct q as [|[b' e'] r]; kcbn; [reflexivity|].
  destruct (free (remove_one b bs) tot); kcbn; reflexivity.
Qed.

Theorem tie_set_total_bad s t k : phase_of s t = Idle ->
  step s (SetTotalBad t k) =
  lift s t KSetter (exec lim_total_tokens_entry t (loc_entry None (Some (bad_tok k))) log0 (core s)).
Proof.
  intros Hp. unfold step. cbn [step_gen]. rewrite Hp. cbn [is_idle negb].
  unfold lim_total_tokens_entry.
  destruct k as [|[|[|[|k]]]]; destruct s; reflexivity.
Qed.

Theorem tie_set_total s t v : phase_of s t = Idle ->
  step s (SetTotal t v) =
  lift s t KSetter (exec lim_total_tokens_entry t (loc_entry None (Some (tok_of v))) log0 (core s)).
Proof.
  intros Hp. unfold step. cbn [step_gen]. rewrite Hp. cbn [is_idle negb].
  unfold lim_total_tokens_entry, set_total.
  match goal with |- context [SWhile ?q ?c ?bd] => remember (SWhile q c bd) as W eqn:HW end.
  destruct v as [n|]; cbn -[free set_add wake_free]; subst W; cbn [exec].
  all: match goal with |- context [wloop ?ec ?rn QQueue ?fu ?l0 ?g0 ?k0] =>
         destruct (wloop_wake ec rn) with (q := fu) (l := l0) (g := g0) (k := k0) as (l1 & Hex);
         [ intros l2 k2; cbn -[free]; destruct (h_queue k2); reflexivity
         | intros l2 g2 k2 b2 e2 r2 Hq2; cbn -[free set_add]; rewrite Hq2; cbn -[free set_add];
           eexists; reflexivity
         | reflexivity
         | rewrite Hex ] end.
  all: cbn -[free set_add wake_free].
  all: rewrite (wake_free_rv _ (queue s) (borrowers s) (evset s) (resv s)).
  all: match goal with |- context [wake_free ?a ?b ?c ?d (@nil nat)] =>
         destruct (wake_free a b c d (@nil nat)) as [[[q' bs'] ev'] rv'] end.
  all: reflexivity.
Qed.

Theorem tie_acquire_yield_resumed s t b : phase_of s t = FastYield b -> mustc s t = false ->
  step s (Resume t) =
  lift (woken s t) t (KAcquire b)
    (exec lim_acquire_on_behalf_of_yield_resumed t (loc_resume None (Some b) None) log0 (core (woken s t))).
Proof.
  intros Hp Hm. unfold step, woken. cbn [step_gen]. rewrite Hp, Hm. reflexivity.
Qed.

(* the shielded-checkpoint cancellation path gives the token back on behalf of the BORROWER (F13) *)
Theorem tie_acquire_yield_cancelled s t b : phase_of s t = FastYield b -> mustc s t = true ->
  step s (Resume t) =
  lift (woken s t) t (KAcquire b)
    (exec lim_acquire_on_behalf_of_yield_cancelled t (loc_resume None (Some b) None) log0 (core (woken s t))).
Proof.
  intros Hp Hm. unfold step, woken. cbn [step_gen]. rewrite Hp, Hm.
  unfold lim_acquire_on_behalf_of_yield_cancelled, lim_release_on_behalf_of_entry, lim_notify_next_waiter_entry,
    fy_cancel, give_back, notify_next, with_tok, leave.
  destruct s as [tot bs q ev ne ph fc mc h rv ar tn]; kcbn.
  destruct (mem b bs) eqn:Em; kcbn; [|reflexivity].
  destruct q as [|[b' e'] r]; kcbn; [reflexivity|].
  destruct (free (remove_one b bs) tot); kcbn; reflexivity.
Qed.

Theorem tie_acquire_event_resumed s t b e : phase_of s t = Waiting b e ->
  evset s e = true -> fcanc s t = false -> mustc s t = false ->
  step s (Resume t) =
  lift (woken s t) t (KAcquire b)
    (exec lim_acquire_on_behalf_of_event_resumed t (loc_resume None (Some b) (Some e)) log0 (core (woken s t))).
Proof.
  intros Hp He Hf Hm. unfold step, woken. cbn [step_gen]. rewrite Hp, He, Hf, Hm. reflexivity.
Qed.

(* an exception raised at `await event.wait()`: the inner future was cancelled, or the event is set (the token was
   granted) and Task._must_cancel is set *)
Theorem tie_acquire_event_cancelled s t b e : phase_of s t = Waiting b e ->
  (evset s e = true \/ fcanc s t = true) -> fcanc s t || mustc s t = true ->
  step s (Resume t) =
  lift (woken s t) t (KAcquire b)
    (exec lim_acquire_on_behalf_of_event_cancelled t (loc_resume None (Some b) (Some e)) log0 (core (woken s t))).
Proof.
  intros Hp Hrun Hc. unfold step, woken. cbn [step_gen]. rewrite Hp, Hc.
  assert (Hr : negb (evset s e) && negb (fcanc s t) = false).
  { destruct Hrun as [-> | ->]; [reflexivity | now rewrite andb_false_r]. }
  rewrite Hr.
  unfold lim_acquire_on_behalf_of_event_cancelled, lim_notify_next_waiter_entry,
    give_back, notify_next, with_tok, leave, set_queue.
  destruct s as [tot bs q ev ne ph fc mc h rv ar tn]; kcbn.
  destruct (ev e); kcbn; [|reflexivity].
  destruct (queue_pop q b) as [|[b' e'] r]; kcbn; [reflexivity|].
  destruct (free (remove_one b bs) tot); kcbn; reflexivity.
Qed.

(* the synchronous wrappers: acquire_nowait() / release() act on behalf of current_task() *)
Theorem tie_wrappers s t : phase_of s t = Idle ->
  step s (AcqOnNowait t t) = lift s t (KAcquire t) (exec lim_acquire_nowait_entry t (loc_entry None None) log0 (core s)) /\
  step s (RelOn t t) = lift s t (KRelease t) (exec lim_release_entry t (loc_entry None None) log0 (core s)).
Proof.
  intros Hp. unfold step. cbn [step_gen]. rewrite Hp. cbn [is_idle negb].
  unfold lim_acquire_nowait_entry, lim_acquire_on_behalf_of_nowait_entry, lim_release_entry,
    lim_release_on_behalf_of_entry, lim_notify_next_waiter_entry, busy, give_back, notify_next, with_tok.
  destruct s as [tot bs q ev ne ph fc mc h rv ar tn]; kcbn. split.
  - destruct (mem t bs) eqn:Em; kcbn; [reflexivity|].
    destruct q as [|[b' e'] r]; kcbn; [|reflexivity].
    destruct (free bs tot); kcbn; [unfold set_add; rewrite Em|]; reflexivity.
  - destruct (mem t bs) eqn:Em; kcbn; [|reflexivity].
    destruct q as [|[b' e'] r]; kcbn; [reflexivity|].
    destruct (free (remove_one t bs) tot); kcbn; reflexivity.
Qed.

Theorem tie_getters s :
  eval_expr lim_total_tokens_getter (core s) = match total s with Some n => VNat n | None => VInf end /\
  eval_expr lim_borrowed_tokens_getter (core s) = VNat (length (borrowers s)) /\
  eval_expr lim_available_tokens_getter (core s) =
    match total s with Some n => VInt (Z.of_nat n - Z.of_nat (length (borrowers s))) | None => VInf end /\
  map (fun x => eval_expr x (core s)) lim_statistics_args =
    [VNat (length (borrowers s)); match total s with Some n => VNat n | None => VInf end;
     VSet (borrowers s); VNat (length (queue s))].
Proof. cbn. destruct (total s); repeat split. Qed.

(* ---- C08 clause (a) on the regenerated code: acquire_on_behalf_of(b) (hence acquire()) called from an effectively
   cancelled scope raises the cancellation and touches nothing - for EVERY state and borrower: with a token free,
   with none free, for a borrower that already holds a token or already waits.  In the source the cancellation check
   is the first statement, before acquire_on_behalf_of_nowait and both RuntimeError tests. ---- *)
Theorem cancelled_entry_noeffect s t b :
  exists l, exec lim_acquire_on_behalf_of_entry t (loc_entry_cancelled (Some b)) log0 (core s) =
            (l, log0, core s, OCancelled).
Proof. unfold lim_acquire_on_behalf_of_entry. cbn. eexists. reflexivity. Qed.

(* ---- the machine built from the generated segments is the model ---- *)
Theorem gstep_eq_step s o : gstep lim_prog s o = step s o.
Proof.
  destruct o as [t b|t b|t b|t|t|t v|t k]; cbn [gstep lim_prog p_acquire_entry p_acquire_nowait p_release p_set_total
    p_acquire_yield_resumed p_acquire_yield_cancelled p_acquire_event_resumed p_acquire_event_cancelled].
  - destruct (phase_of s t) eqn:Hp; cbn [is_idle negb];
      [|unfold step; cbn [step_gen]; rewrite Hp; reflexivity..].
    symmetry. now apply tie_acquire_entry.
  - destruct (phase_of s t) eqn:Hp; cbn [is_idle negb];
      [|unfold step; cbn [step_gen]; rewrite Hp; reflexivity..].
    symmetry. now apply tie_acquire_nowait.
  - destruct (phase_of s t) eqn:Hp; cbn [is_idle negb];
      [|unfold step; cbn [step_gen]; rewrite Hp; reflexivity..].
    symmetry. now apply tie_release.
  - destruct (phase_of s t) as [|b|b e] eqn:Hp.
    + unfold step. cbn [step_gen]. rewrite Hp. reflexivity.
    + destruct (mustc s t) eqn:Hm; symmetry.
      * now apply tie_acquire_yield_cancelled.
      * now apply tie_acquire_yield_resumed.
    + destruct (evset s e) eqn:He; destruct (fcanc s t) eqn:Hf; cbn [negb andb orb].
      * symmetry. apply tie_acquire_event_cancelled; auto. now rewrite Hf.
      * destruct (mustc s t) eqn:Hm; symmetry.
        -- apply tie_acquire_event_cancelled; auto. now rewrite Hf, Hm.
        -- now apply tie_acquire_event_resumed.
      * symmetry. apply tie_acquire_event_cancelled; auto. now rewrite Hf.
      * unfold step. cbn [step_gen]. rewrite Hp, He, Hf. reflexivity.
  - reflexivity.
  - destruct (phase_of s t) eqn:Hp; cbn [is_idle negb];
      [|unfold step; cbn [step_gen]; rewrite Hp; reflexivity..].
    symmetry. now apply tie_set_total.
  - destruct (phase_of s t) eqn:Hp; cbn [is_idle negb];
      [|unfold step; cbn [step_gen]; rewrite Hp; reflexivity..].
    symmetry. now apply tie_set_total_bad.
Qed.

(* ---- what lift does, spelled out: the code-visible fields, the result, and every ghost field ---- *)
Theorem lift_spec s t kd l g k o :
  let s' := fst (lift s t kd (l, g, k, o)) in
  core s' = mkh false None 0 [] (fun _ => Sem.FPending) 0 (h_total k) (h_borrowers k) (h_queue k) (h_evset k) (h_nev k) /\
  snd (lift s t kd (l, g, k, o)) = match res_of o with Some x => x | None => RRejected end /\
  phase_of s' = match o, l_bor l, l_ev l with
                | OSuspend AwYield, Some b, _ => upd (phase_of s) t (FastYield b)
                | OSuspend AwEvent, Some b, Some e => upd (phase_of s) t (Waiting b e)
                | _, _, _ => phase_of s
                end /\
  fcanc s' = match o with OSuspend AwEvent => upd (fcanc s) t false | _ => fcanc s end /\
  mustc s' = mustc s /\
  held s' = match kd with
            | KAcquire b => if returned o then b :: held s else held s
            | KRelease b => if returned o then remove_one b (held s) else held s
            | KSetter => held s
            end /\
  resv s' = g_grant g ++ match o, l_bor l with OSuspend AwYield, Some b => b :: resv s | _, _ => resv s end /\
  arrivals s' = arrivals s ++ g_arr g /\
  tainted s' = match kd with
               | KRelease b => if returned o then tainted s || mem b (resv s) else tainted s
               | _ => tainted s
               end.
Proof.
  cbn. repeat split. unfold ghost_app. destruct (g_arr g); [now rewrite app_nil_r | reflexivity].
Qed.

(* ---- the C10 clauses for runs of the generated segments (by rewriting with gstep_eq_step) ---- *)
Lemma final_gstep ops : forall s, final (gstep lim_prog) s ops = final step s ops.
Proof.
  induction ops as [|o r IH]; intros s; [reflexivity|].
  cbn. rewrite gstep_eq_step. apply IH.
Qed.

Lemma greach_run v ops : reach v (final (gstep lim_prog) (init v) ops).
Proof. exists ops. apply final_gstep. Qed.

Theorem gen_grant_only_if_free : forall s o,
  let s' := fst (gstep lim_prog s o) in
  (forall b, In b (borrowers s') -> In b (borrowers s)) \/ xle (length (borrowers s')) (total s').
Proof. intros s o. rewrite gstep_eq_step. apply lim_grant_only_if_free. Qed.

Theorem gen_conservation : forall v ops,
  let s := final (gstep lim_prog) (init v) ops in
  tainted s = false ->
  NoDup (borrowers s) /\
  (forall b, In b (borrowers s) <-> In b (held s) \/ In b (resv s)) /\
  (forall b, In b (held s) -> ~ In b (resv s)) /\
  length (borrowers s) = length (held s) + length (resv s).
Proof.
  intros v ops s Ht.
  destruct (lim_counts_true v s (greach_run v ops) Ht) as (H1 & H2 & H3 & H4 & _).
  exact (conj H1 (conj H2 (conj H3 H4))).
Qed.

Theorem gen_fifo : forall v ops,
  let s := final (gstep lim_prog) (init v) ops in
  subseq (queue s) (arrivals s) /\ (queue s <> [] -> free (borrowers s) (total s) = false).
Proof.
  intros v ops. split.
  - exact (lim_queue_in_arrival_order v _ (greach_run v ops)).
  - exact (lim_no_free_token_with_waiters v _ (greach_run v ops)).
Qed.

Theorem gen_keys_distinct : forall v ops,
  let s := final (gstep lim_prog) (init v) ops in
  NoDup (keys (queue s)) /\ (forall b, In b (keys (queue s)) -> ~ In b (borrowers s)) /\ NoDup (borrowers s).
Proof.
  intros v ops s.
  destruct (lim_wait_queue_keys_distinct v s (greach_run v ops)) as (H1 & H2 & _).
  exact (conj H1 (conj H2 (lim_borrowers_nodup v s (greach_run v ops)))).
Qed.

Theorem gen_waiting_borrower_rejected : forall s t b,
  phase_of s t = Idle -> In b (keys (queue s)) -> ~ In b (borrowers s) ->
  gstep lim_prog s (AcqOn t b) = (s, RRuntime) /\ gstep lim_prog s (AcqOnNowait t b) = (s, RWouldBlock).
Proof. intros s t b Hp Hq Hb. rewrite !gstep_eq_step. now apply lim_waiting_borrower_rejected. Qed.

Theorem gen_set_total_serves_prefix : forall s t x, phase_of s t = Idle ->
  let s' := fst (gstep lim_prog s (SetTotal t x)) in
  s' = set_total s x.
Proof.
  intros s t x Hp. rewrite gstep_eq_step. unfold step. cbn [step_gen]. rewrite Hp. reflexivity.
Qed.

(* ---- non-vacuity and sensitivity (vm_compute) ---- *)
Definition gfinal (v : option nat) (ops : list op) : st := final (gstep lim_prog) (init v) ops.

Example ex_tie_yield_cancelled_foreign :
  let s := gfinal (Some 1) [AcqOn 1 11; Cancel 1] in phase_of s 1 = FastYield 11 /\ mustc s 1 = true.
Proof. vm_compute. split; reflexivity. Qed.
Example ex_f13_token_returned_for_the_borrower :
  let s := gfinal (Some 1) [AcqOn 1 11; Cancel 1; Resume 1] in borrowers s = [] /\ resv s = [].
Proof. vm_compute. split; reflexivity. Qed.
Example ex_tie_event_resumed :
  let s := gfinal (Some 1) [AcqOnNowait 1 1; AcqOn 2 2; RelOn 1 1] in
  phase_of s 2 = Waiting 2 0 /\ evset s 0 = true /\ fcanc s 2 = false /\ mustc s 2 = false.
Proof. vm_compute. repeat split. Qed.
Example ex_tie_event_cancelled :
  let s := gfinal (Some 1) [AcqOnNowait 1 1; AcqOn 2 2; Cancel 2] in
  phase_of s 2 = Waiting 2 0 /\ fcanc s 2 = true.
Proof. vm_compute. repeat split. Qed.
Example ex_tie_event_race :
  let s := gfinal (Some 1) [AcqOnNowait 1 1; AcqOn 2 2; RelOn 1 1; Cancel 2] in
  phase_of s 2 = Waiting 2 0 /\ evset s 0 = true /\ mustc s 2 = true.
Proof. vm_compute. repeat split. Qed.
Example ex_f16_waiting_borrower_rejected :
  let s := gfinal (Some 0) [AcqOn 1 7] in
  snd (gstep lim_prog s (AcqOn 2 7)) = RRuntime /\ fst (gstep lim_prog s (AcqOn 2 7)) = s.
Proof. vm_compute. split; reflexivity. Qed.
Example ex_f1_setter_wakes_while_free :
  let s := gfinal (Some 0) [AcqOn 1 1; AcqOn 2 2; AcqOn 3 3; SetTotal 4 (Some 2)] in
  length (borrowers s) = 2 /\ length (queue s) = 1 /\ resv s = [2; 1].
Proof. vm_compute. repeat split. Qed.
Example ex_check_after_effect_is_stuck_cancelled :
  snd (exec (SSeq SAddBorrower SCkIf) 1 (loc_entry_cancelled (Some 1)) log0 (core (init (Some 1)))) = OStuck.
Proof. vm_compute. reflexivity. Qed.
Example ex_check_after_effect_is_stuck :
  snd (exec (SSeq SAddBorrower SCkIf) 1 (loc_entry (Some 1) None) log0 (core (init (Some 1)))) = OStuck.
Proof. vm_compute. reflexivity. Qed.
