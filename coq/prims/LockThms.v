(* C09 clauses as theorems over every op sequence of the Lock machine. *)
From AV Require Import Base Lock LockProofs.

Definition reach (fa : bool) (s : st) : Prop := exists ops, s = final step (init fa) ops.

Lemma reach_inv fa s : reach fa s -> Inv s.
Proof. intros [ops ->]. apply reachable_inv. Qed.

Lemma reach_step fa s o : reach fa s -> reach fa (fst (step s o)).
Proof.
  intros [ops ->]. exists (ops ++ [o]). rewrite final_app. reflexivity.
Qed.

(* 1. mutual exclusion: the tasks to which acquire() returned and that have not released are at most one,
      and it is the recorded owner *)
Theorem lock_mutex fa s : reach fa s ->
  (forall t, In t (held s) -> owner s = Some t) /\ length (held s) <= 1.
Proof.
  intros R. pose proof (reach_inv fa s R) as I.
  assert (H1 : forall t, In t (held s) -> owner s = Some t).
  { intros t H. apply (I_owner s I). left. exact H. }
  split; [exact H1|].
  pose proof (I_heldnd s I) as Hn.
  destruct (held s) as [|a [|b r]]; cbn; try lia.
  exfalso. assert (Some a = Some b).
  { rewrite <- (H1 a), <- (H1 b); cbn; auto. }
  inversion Hn as [|x l Hx Hl]; subst. apply Hx. left. congruence.
Qed.

(* 2. acquire returns only to the owner *)
Definition acquire_op (o : op) (t : tid) : Prop := o = AcqBegin t \/ o = AcqNowait t \/ o = Resume t.

Ltac split_ifs H :=
  repeat match type of H with context [if ?b then _ else _] => destruct b end.

Lemma done_adds_held s o t s' : acquire_op o t -> step s o = (s', RDone) -> In t (held s').
Proof.
  intros [-> | [-> | ->]]; cbn [step]; intros H.
  - destruct (is_idle (phase_of s t)); cbn [negb] in H; [|discriminate].
    destruct (owner s) as [ow|]; destruct (waiters s); cbn in H; split_ifs H; try discriminate.
    all: injection H as <-; cbn; now left.
  - destruct (is_idle (phase_of s t)); cbn [negb] in H; [|discriminate].
    destruct (owner s) as [ow|]; destruct (waiters s); cbn in H; split_ifs H; try discriminate.
    all: injection H as <-; cbn; now left.
  - destruct (phase_of s t) as [| |f]; [discriminate| |].
    + destruct (mustc s t).
      * destruct (tid_eqb_opt _ t); discriminate.
      * injection H as <-. cbn. now left.
    + destruct (futs s f); [discriminate| |discriminate].
      destruct (mustc s t).
      * destruct (tid_eqb_opt _ t); discriminate.
      * injection H as <-. cbn. now left.
Qed.

Theorem lock_acquire_returns_to_owner fa s o t s' :
  reach fa s -> acquire_op o t -> step s o = (s', RDone) ->
  owner s' = Some t /\ In t (held s') /\ (forall x, In x (held s') -> x = t).
Proof.
  intros R Ha Hs.
  assert (R' : reach fa s') by (replace s' with (fst (step s o)) by (now rewrite Hs); now apply reach_step).
  destruct (lock_mutex fa s' R') as [H1 _].
  pose proof (done_adds_held s o t s' Ha Hs) as Hin.
  pose proof (H1 t Hin) as Ho.
  repeat split; auto. intros x Hx. apply H1 in Hx. congruence.
Qed.

(* 3. no barging: the uncontended path is taken only when the lock is free AND nobody queues *)
Theorem lock_no_barging s t o s' r :
  (o = AcqBegin t \/ o = AcqNowait t) -> step s o = (s', r) ->
  owner s <> Some t -> owner s' = Some t -> owner s = None /\ waiters s = [].
Proof.
  intros [-> | ->]; cbn [step]; intros H Hn Ho;
    (destruct (is_idle (phase_of s t)); cbn [negb] in H; [|injection H as <- _; contradiction]);
    destruct (owner s) as [ow|] eqn:Eo; destruct (waiters s) eqn:Ew; auto; exfalso.
  all: try (destruct (tid_eqb_opt _ t); injection H as <- _; cbn in Ho; congruence).
Qed.

(* 4. FIFO *)
Theorem lock_queue_in_arrival_order fa s : reach fa s -> subseq (waiters s) (enq s).
Proof. intros R. apply (I_fifo s (reach_inv fa s R)). Qed.

Theorem lock_arrival_log_append_only s o : exists l, enq (fst (step s o)) = enq s ++ l.
Proof.
  assert (Hrel : forall s t, enq (do_release s t) = enq s).
  { intros s0 t0. unfold do_release. destruct (handoff _ _) as [[? ?] ?]. reflexivity. }
  destruct o as [t|t|t|t|t]; cbn [step].
  - destruct (is_idle _); cbn [negb]; [|exists []; now rewrite app_nil_r].
    destruct (owner s), (waiters s); cbn;
      repeat match goal with |- context [if ?b then _ else _] => destruct b end; cbn;
      try (exists []; now rewrite app_nil_r); eexists; reflexivity.
  - destruct (is_idle _); cbn [negb]; [|exists []; now rewrite app_nil_r].
    destruct (owner s), (waiters s); cbn;
      repeat match goal with |- context [if ?b then _ else _] => destruct b end; cbn;
      exists []; now rewrite app_nil_r.
  - destruct (is_idle _); cbn [negb]; [|exists []; now rewrite app_nil_r].
    destruct (tid_eqb_opt _ _); cbn [fst]; rewrite ?Hrel; exists []; now rewrite app_nil_r.
  - destruct (phase_of s t) as [| |f]; [exists []; now rewrite app_nil_r| |].
    + destruct (mustc s t); [destruct (tid_eqb_opt _ _)|]; cbn [fst]; rewrite ?Hrel; cbn;
        exists []; now rewrite app_nil_r.
    + destruct (futs s f); [| destruct (mustc s t); [destruct (tid_eqb_opt _ _)|] |]; cbn [fst];
        rewrite ?Hrel; cbn; exists []; now rewrite app_nil_r.
  - destruct (phase_of s t) as [| |f]; [| |destruct (futs s f)]; cbn; exists []; now rewrite app_nil_r.
Qed.

(* release() hands the lock to the first waiter whose future is not cancelled *)
Theorem lock_handoff_first_live s t :
  match owner (do_release s t) with
  | Some w => exists pre f, waiters s = pre ++ (w, f) :: waiters (do_release s t) /\
                            futs s f <> FCancelled /\
                            (forall t' f', In (t', f') pre -> futs s f' = FCancelled)
  | None => waiters (do_release s t) = [] /\ forall t' f', In (t', f') (waiters s) -> futs s f' = FCancelled
  end.
Proof.
  unfold do_release. pose proof (handoff_spec (waiters s) (futs s)) as H.
  destruct (handoff (waiters s) (futs s)) as [[o ws] fu]. destruct o as [w|]; cbn.
  - destruct H as (pre & f & E & Hf & _ & Hp). exists pre, f. auto.
  - destruct H as (E & _ & Hp). auto.
Qed.

(* 5. only the owner releases; re-acquisition by the owner is an error; neither changes anything *)
Theorem lock_owner_only_release s t :
  phase_of s t = Idle -> owner s <> Some t -> step s (Release t) = (s, RRuntime).
Proof.
  intros Hp Ho. cbn [step]. rewrite Hp. cbn.
  destruct (tid_eqb_opt (owner s) t) eqn:E; [|reflexivity].
  apply tid_eqb_opt_true in E. contradiction.
Qed.

Theorem lock_reacquire_is_error s t :
  phase_of s t = Idle -> owner s = Some t ->
  step s (AcqBegin t) = (s, RRuntime) /\ step s (AcqNowait t) = (s, RRuntime).
Proof.
  intros Hp Ho. cbn [step]. rewrite Hp, Ho. cbn. rewrite Nat.eqb_refl.
  destruct (waiters s); auto.
Qed.

(* 6. a cancelled waiter never ends up holding the lock nor clogs the queue *)
Theorem lock_cancelled_waiter_never_holds fa s t f :
  reach fa s -> phase_of s t = Waiting f -> futs s f = FCancelled ->
  let s' := fst (step s (Resume t)) in
  snd (step s (Resume t)) = RCancelled /\ ~ In t (held s') /\ owner s' <> Some t /\
  ~ In t (map fst (waiters s')) /\ phase_of s' t = Idle.
Proof.
  intros R Hp Hf. pose proof (reach_inv fa s R) as I.
  pose proof (wake_futcancelled_inv s t f I Hp Hf) as I'.
  cbn [step]. rewrite Hp, Hf. cbn.
  assert (Hnh : ~ In t (held s)) by (intros H; apply (I_heldidle s I) in H; congruence).
  assert (Hgone : ~ In t (map fst (remove_item t f (waiters s)))).
  { apply remove_item_gone; [apply (I_nd s I)|]. intros f' H. destruct (I_w s I t f' H). congruence. }
  assert (Hno : owner s <> Some t).
  { intros Ho. apply (I_owner s I) in Ho. destruct Ho as [H|[H|(f' & H1 & H2)]]; congruence. }
  refine (conj eq_refl (conj Hnh (conj Hno (conj Hgone _)))). apply upd_same.
Qed.

(* the hand-off / cancellation race: ownership was already transferred when the cancellation lands *)
Theorem lock_handoff_cancel_race fa s t f :
  reach fa s -> phase_of s t = Waiting f -> futs s f = FSet -> mustc s t = true ->
  let s' := fst (step s (Resume t)) in
  snd (step s (Resume t)) = RCancelled /\ ~ In t (held s') /\ owner s' <> Some t /\ Inv s'.
Proof.
  intros R Hp Hf Hm. pose proof (reach_inv fa s R) as I.
  assert (Hr : wake_ready s t) by (right; eauto).
  assert (Ho : owner s = Some t) by (apply (I_owner s I); right; exact Hr).
  pose proof (wake_cancelled_release_inv s t I Hr) as I'.
  cbn [step]. rewrite Hp, Hf, Hm. cbn [set_mustc set_phase owner]. rewrite Ho. cbn [tid_eqb_opt].
  rewrite Nat.eqb_refl. cbn [fst snd].
  set (s1 := do_release _ t) in *.
  assert (Hnh : ~ In t (held s1)).
  { unfold s1, do_release. destruct (handoff _ _) as [[? ?] ?]. cbn. intros H.
    apply in_remove_tid in H. tauto. }
  assert (Hidle : phase_of s1 t = Idle).
  { unfold s1, do_release. destruct (handoff _ _) as [[? ?] ?]. cbn. apply upd_same. }
  assert (Hno : owner s1 <> Some t).
  { intros Ho'. apply (I_owner s1 I') in Ho'. destruct Ho' as [H|[H|(f' & H1 & H2)]]; congruence. }
  exact (conj eq_refl (conj Hnh (conj Hno I'))).
Qed.

(* 7. a free lock with waiting tasks never occurs *)
Theorem lock_no_free_with_waiters fa s : reach fa s -> owner s = None -> waiters s = [].
Proof. intros R. apply (I_free s (reach_inv fa s R)). Qed.

(* 8. once every holder has released and nobody is inside a call, the lock is pristine *)
Theorem lock_quiescent fa s :
  reach fa s -> (forall t, phase_of s t = Idle) -> held s = [] -> owner s = None /\ waiters s = [].
Proof.
  intros R Hall Hh. pose proof (reach_inv fa s R) as I.
  assert (Ho : owner s = None).
  { destruct (owner s) as [t|] eqn:Eo; [|reflexivity]. exfalso.
    apply (I_owner s I) in Eo. destruct Eo as [H|[H|(f & H & _)]].
    - rewrite Hh in H. contradiction.
    - rewrite Hall in H. discriminate.
    - rewrite Hall in H. discriminate. }
  split; [exact Ho|apply (I_free s I Ho)].
Qed.

(* ---------- non-vacuity: concrete reachable states that satisfy the hypotheses ---------- *)
(* tasks 1 holds, 2 and 3 queue, 2 is cancelled, 1 releases: the lock goes to 3 *)
Definition ex_ops := [AcqBegin 1; Resume 1; AcqBegin 2; AcqBegin 3; Cancel 2; Release 1].
Example ex_handoff_skips_cancelled :
  let s := final step (init false) ex_ops in owner s = Some 3 /\ waiters s = [] /\ held s = [].
Proof. vm_compute. auto. Qed.

Example ex_cancelled_waiter_hyp :
  let s := final step (init false) ex_ops in phase_of s 2 = Waiting 0 /\ futs s 0 = FCancelled.
Proof. vm_compute. auto. Qed.

(* the hand-off race: 2 is handed the lock, then natively cancelled before it runs *)
Example ex_race_hyp :
  let s := final step (init false) [AcqBegin 1; Resume 1; AcqBegin 2; Release 1; Cancel 2] in
  phase_of s 2 = Waiting 0 /\ futs s 0 = FSet /\ mustc s 2 = true /\
  owner (fst (step s (Resume 2))) = None.
Proof. vm_compute. auto. Qed.

Example ex_quiescent :
  let s := final step (init false) (ex_ops ++ [Resume 2; Resume 3; Release 3]) in
  (forall t, t < 5 -> phase_of s t = Idle) /\ held s = [] /\ owner s = None.
Proof.
  vm_compute. repeat split.
  intros t Ht. do 5 (destruct t as [|t]; [reflexivity|]). lia.
Qed.
