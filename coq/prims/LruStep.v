(* Proofs about the Lru machine, part 3: every step preserves the invariant, and what a step may return. *)
From AV Require Import Base Lru LruLockFacts LruDict LruProofs LruInv.
From AV Require Lock LockProofs.
From Coq Require Import Sorting.Sorted ZifyBool.

(* what a step of a state satisfying the invariant may return *)
Definition good (s' : st) (r : res) : Prop :=
  r <> RLockErr /\ (f_inflight s' = false -> f_waited s' = false -> r <> RKeyError).

Lemma lock_do_eq s l o :
  lock_do s l o = (set_lock s l (fst (Lock.step (locks s l) o)), snd (Lock.step (locks s l) o)).
Proof. unfold lock_do. destruct (Lock.step (locks s l) o). reflexivity. Qed.

Lemma release_eq s c l :
  release s c l =
  (set_lock s l (fst (Lock.step (locks s l) (Lock.Release c))),
   match snd (Lock.step (locks s l) (Lock.Release c)) with Lock.RDone => true | _ => false end).
Proof. unfold release. rewrite lock_do_eq. reflexivity. Qed.

Lemma good_plain s r : r <> RLockErr -> r <> RKeyError -> good s r.
Proof. intros H1 H2. split; auto. Qed.

(* release by a holder, then idle *)
Lemma leave_ok cf s c k l r :
  Inv cf s -> lockref (phase s c) = Some (k, l) -> In c (Lock.held (locks s l)) ->
  r <> RLockErr ->
  let '(s1, ok) := release s c l in
  Inv cf (fst (finish s1 c ok r)) /\ snd (finish s1 c ok r) = r.
Proof.
  intros I Hp Hh Hr. rewrite release_eq.
  destruct (release_holder (locks s l) c (L_inv _ _ _ _ _ (I_lp _ _ I) l) Hh) as [E Hne].
  rewrite E. cbn [finish fst snd]. split; [|reflexivity].
  apply (inv_out cf s c k l (Lock.Release c) I Hp eq_refl Hne).
Qed.

Lemma body_ok cf s c k l t0 :
  Inv cf s -> phase s c = CLockWait k l t0 -> In c (Lock.held (locks s l)) ->
  Inv cf (fst (body cf s c k l)) /\ good (fst (body cf s c k l)) (snd (body cf s c k l)).
Proof.
  intros I Hp Hh. unfold body. destruct (dfind k (dict s)) as [x|] eqn:Hfind.
  - pose proof (dget_find _ _ _ Hfind) as Hd. destruct (se x) as [l'|v e] eqn:Hse.
    + cbv zeta.
      assert (Efull : full cf (set_counts s (hits s) (S (misses s)) (currsize s)) = full cf s) by reflexivity.
      rewrite Efull. destruct (full cf s) eqn:Hfull.
      * unfold evict. sm. destruct (dict s) as [|x0 r] eqn:Hdict; [discriminate|].
        split; [|apply good_plain; discriminate].
        assert (Hd' : dget k (dict s) = Some (EPlace l')) by (rewrite Hdict; exact Hd).
        exact (inv_miss_evict cf s c k l t0 l' x0 r I Hp Hh Hd' Hdict).
      * split; [|apply good_plain; discriminate].
        exact (inv_miss_noevict cf s c k l t0 l' I Hp Hh Hd Hfull).
    + cbv zeta.
      set (s2 := bump_clk (set_dict (set_counts s (S (hits s)) (misses s) (currsize s))
                                    (dmove k (clk (set_counts s (S (hits s)) (misses s) (currsize s)))
                                           (dict (set_counts s (S (hits s)) (misses s) (currsize s)))))).
      assert (I2 : Inv cf s2) by exact (inv_touch cf s k (S (hits s)) (misses s) I).
      assert (Hp2 : lockref (phase s2 c) = Some (k, l)) by (unfold s2; sm; now rewrite Hp).
      assert (Hh2 : In c (Lock.held (locks s2 l))) by exact Hh.
      pose proof (leave_ok cf s2 c k l (RRet v) I2 Hp2 Hh2 ltac:(discriminate)) as H.
      destruct (release s2 c l) as [s3 ok]. destruct H as [H1 H2]. split; [exact H1|].
      rewrite H2. apply good_plain; discriminate.
  - pose proof (leave_ok cf s c k l RKeyError I ltac:(now rewrite Hp) Hh ltac:(discriminate)) as H.
    pose proof (release_eq s c l) as Er.
    destruct (release s c l) as [s1 ok]. destruct H as [H1 H2]. split; [exact H1|].
    rewrite H2. split; [discriminate|]. intros Hf Hw _.
    injection Er as -> _. cbn [finish fst] in Hf, Hw. sm.
    destruct (I_B _ _ I Hf Hw _ _ _ _ Hp) as [H|(v & e & H)]; rewrite (dget_none_find _ _ Hfind) in H; discriminate.
Qed.

Lemma acquire_ok cf s c k l :
  Inv cf s -> phase s c = CIdle -> c < ncall cf -> dget k (dict s) = Some (EPlace l) ->
  l < nlock s -> lkey s l = k ->
  Inv cf (fst (acquire cf s c k l)) /\ good (fst (acquire cf s c k l)) (snd (acquire cf s c k l)).
Proof.
  intros I Hp Hc Hd Hl Hk. unfold acquire. rewrite lock_do_eq. sm.
  assert (Hne : ~ engaged (locks s l) c).
  { eapply LP_idle_not_engaged; [apply (I_lp _ _ I)|]. now rewrite Hp. }
  destruct (acq_begin_cases (locks s l) c (L_inv _ _ _ _ _ (I_lp _ _ I) l) Hne) as [[E Hh]|[E Hph]]; rewrite E.
  - set (s1 := set_lock (set_phase s c (CLockWait k l (now s))) l (fst (Lock.step (locks s l) (Lock.AcqBegin c)))).
    assert (I1 : Inv cf s1) by (apply inv_mark; auto; right; exact Hh).
    apply (body_ok cf s1 c k l (now s) I1).
    + unfold s1. sm. apply upd_same.
    + unfold s1. sm. rewrite upd_same. exact Hh.
  - cbn [fst snd]. split; [|apply good_plain; discriminate].
    apply inv_mark; auto. left. exact Hph.
Qed.

Ltac rejected I := cbn [fst snd]; split; [exact I|apply good_plain; discriminate].

Lemma step_ok cf s o :
  Inv cf s -> Inv cf (fst (step cf s o)) /\ good (fst (step cf s o)) (snd (step cf s o)).
Proof.
  intros I. destruct o as [c a|c v|c e|c|c| |]; unfold step.
  - (* Call *)
    destruct (Nat.ltb c (ncall cf)) eqn:Hlt; cbn [negb]; [|rejected I]. apply Nat.ltb_lt in Hlt.
    destruct (phase s c) eqn:Hp; cbn [is_cidle negb]; try (rejected I).
    set (k := key_of cf a).
    destruct (is_zero_max cf).
    { cbn [fst snd]. split; [|apply good_plain; discriminate].
      apply inv_phase_noref; auto; [now rewrite Hp|discriminate]. }
    destruct (dfind k (dict s)) as [x|] eqn:Hfind.
    + destruct (dfind_some _ _ _ Hfind) as [Hkx Hin]. destruct (se x) as [l|v exp] eqn:Hse.
      * destruct (I_place _ _ I x l Hin Hse) as [H1 H2].
        apply acquire_ok; [exact I|exact Hp|exact Hlt| |exact H1|congruence].
        rewrite (dget_find _ _ _ Hfind), Hse. reflexivity.
      * destruct (expired exp (now s)) eqn:Hexp.
        -- cbv zeta.
           set (s4 := bump_clk _).
           assert (I4 : Inv cf s4)
             by exact (inv_touch cf _ k (hits s) (misses s) (inv_expire cf s k x v exp I Hfind Hse)).
           apply acquire_ok; [exact I4|exact Hp|exact Hlt| | |].
           ++ unfold s4. sm. rewrite dget_dmove, dget_dset_in_same, (dget_find _ _ _ Hfind). reflexivity.
           ++ unfold s4. sm. lia.
           ++ unfold s4. sm. apply upd_same.
        -- cbv zeta.
           set (s2 := bump_clk _).
           assert (I2 : Inv cf s2) by exact (inv_touch cf s k (S (hits s)) (misses s) I).
           destruct (ackpt cf); cbn [fst snd].
           ++ split; [|apply good_plain; discriminate].
              apply inv_phase_noref; auto; [unfold s2; sm; now rewrite Hp|].
              intros k0 v0 b [= <- <- _]. unfold s2. sm. rewrite <- Hkx. apply (I_vdict _ _ I x v exp Hin Hse).
           ++ split; [exact I2|apply good_plain; discriminate].
    + cbv zeta.
      set (s2 := bump_clk _).
      assert (I2 : Inv cf s2) by exact (inv_install cf s k I Hfind).
      apply acquire_ok; [exact I2|exact Hp|exact Hlt| | |].
      * unfold s2. sm. rewrite dget_app, (dget_none_find _ _ Hfind), Nat.eqb_refl. reflexivity.
      * unfold s2. sm. lia.
      * unfold s2. sm. apply upd_same.
  - (* WrappedReturns *)
    destruct (phase s c) as [|k l t0|k l [w|] [|]|k v0 b|k [w|] [|]] eqn:Hp; try (rejected I);
      cbn [fst snd]; (split; [|apply good_plain; discriminate]).
    + eapply inv_phase_running; eauto.
    + assert (Hc : c < ncall cf) by (apply (L_ncall _ _ _ _ _ (I_lp _ _ I)); congruence).
      apply inv_phase_noref; auto; [now rewrite Hp|discriminate].
  - (* WrappedRaises *)
    destruct (phase s c) as [|k l t0|k l [w|] [|]|k v0 b|k [w|] [|]] eqn:Hp; try (rejected I);
      cbn [fst snd]; (split; [|apply good_plain; discriminate]).
    + eapply inv_phase_running; eauto.
    + assert (Hc : c < ncall cf) by (apply (L_ncall _ _ _ _ _ (I_lp _ _ I)); congruence).
      apply inv_phase_noref; auto; [now rewrite Hp|discriminate].
  - (* CancelCaller *)
    destruct (phase s c) as [|k l t0|k l w b|k v0 b|k w b] eqn:Hp; try (rejected I).
    + rewrite lock_do_eq. cbn [fst snd]. split; [|apply good_plain; discriminate].
      apply (inv_lock_only cf s c k l t0 (Lock.Cancel c) I Hp eq_refl).
      destruct (cancel_same (locks s l) c) as [E1 E2]. unfold engaged. rewrite E1, E2.
      apply (L_wait _ _ _ _ _ (I_lp _ _ I) _ _ _ _ Hp).
    + cbn [fst snd]. split; [|apply good_plain; discriminate]. eapply inv_phase_running; eauto.
    + assert (Hc : c < ncall cf) by (apply (L_ncall _ _ _ _ _ (I_lp _ _ I)); congruence).
      cbn [fst snd]. split; [|apply good_plain; discriminate].
      apply inv_phase_noref; auto; [now rewrite Hp|].
      intros k0 v1 b0 [= <- <- _]. apply (I_vhit _ _ I _ _ _ _ Hp).
    + assert (Hc : c < ncall cf) by (apply (L_ncall _ _ _ _ _ (I_lp _ _ I)); congruence).
      cbn [fst snd]. split; [|apply good_plain; discriminate].
      apply inv_phase_noref; auto; [now rewrite Hp|discriminate].
  - (* Resume *)
    destruct (phase s c) as [|k l t0|k l w b|k v0 b|k w b] eqn:Hp; try (rejected I).
    + (* suspended in lock.acquire() *)
      rewrite lock_do_eq.
      destruct (Lock.phase_of (locks s l) c) eqn:Hlp.
      * assert (E : Lock.step (locks s l) (Lock.Resume c) = (locks s l, Lock.RRejected))
          by (cbn [Lock.step]; now rewrite Hlp).
        rewrite E. rejected I.
      * destruct (resume_cases (locks s l) c (L_inv _ _ _ _ _ (I_lp _ _ I) l) ltac:(congruence))
          as [[E Hh]|[[E Hne]|[E _]]]; rewrite E.
        -- set (s1 := set_lock s l _).
           assert (I1 : Inv cf s1)
             by (apply (inv_lock_only cf s c k l t0 (Lock.Resume c) I Hp eq_refl); right; exact Hh).
           apply (body_ok cf s1 c k l t0 I1); [exact Hp|]. unfold s1. sm. rewrite upd_same. exact Hh.
        -- cbn [fst snd]. split; [|apply good_plain; discriminate].
           apply (inv_out cf s c k l (Lock.Resume c) I); [now rewrite Hp|reflexivity|exact Hne].
        -- rejected I.
      * destruct (resume_cases (locks s l) c (L_inv _ _ _ _ _ (I_lp _ _ I) l) ltac:(congruence))
          as [[E Hh]|[[E Hne]|[E _]]]; rewrite E.
        -- set (s1 := set_lock s l _).
           assert (I1 : Inv cf s1)
             by (apply (inv_lock_only cf s c k l t0 (Lock.Resume c) I Hp eq_refl); right; exact Hh).
           apply (body_ok cf s1 c k l t0 I1); [exact Hp|]. unfold s1. sm. rewrite upd_same. exact Hh.
        -- cbn [fst snd]. split; [|apply good_plain; discriminate].
           apply (inv_out cf s c k l (Lock.Resume c) I); [now rewrite Hp|reflexivity|exact Hne].
        -- rejected I.
    + (* inside the wrapped function *)
      pose proof (L_run _ _ _ _ _ (I_lp _ _ I) _ _ _ _ _ Hp) as Hh.
      assert (Hr : lockref (phase s c) = Some (k, l)) by now rewrite Hp.
      destruct b.
      * pose proof (leave_ok cf s c k l RCancelled I Hr Hh ltac:(discriminate)) as H.
        destruct (release s c l) as [s1 ok]. destruct H as [H1 H2]. split; [exact H1|].
        rewrite H2. apply good_plain; discriminate.
      * destruct w as [[v|e]|]; [| |rejected I].
        -- cbv zeta.
           set (s2 := bump_clk _).
           rewrite (release_eq s2 c l).
           destruct (release_holder (locks s l) c (L_inv _ _ _ _ _ (I_lp _ _ I) l) Hh) as [E Hne].
           change (locks s2 l) with (locks s l). rewrite E. cbn [finish fst snd].
           split; [|apply good_plain; discriminate].
           exact (inv_store_out cf s c k l v I Hp).
        -- pose proof (leave_ok cf s c k l (RExc e) I Hr Hh ltac:(discriminate)) as H.
           destruct (release s c l) as [s1 ok]. destruct H as [H1 H2]. split; [exact H1|].
           rewrite H2. apply good_plain; discriminate.
    + (* hit checkpoint *)
      assert (Hc : c < ncall cf) by (apply (L_ncall _ _ _ _ _ (I_lp _ _ I)); congruence).
      cbn [fst snd]. split; [|apply good_plain; destruct b; discriminate].
      apply inv_phase_noref; auto; [now rewrite Hp|discriminate].
    + (* maxsize = 0 *)
      assert (Hc : c < ncall cf) by (apply (L_ncall _ _ _ _ _ (I_lp _ _ I)); congruence).
      destruct b.
      * cbn [fst snd]. split; [|apply good_plain; discriminate].
        apply inv_phase_noref; auto; [now rewrite Hp|discriminate].
      * destruct w as [[v|e]|]; [| |rejected I]; cbn [fst snd]; (split; [|apply good_plain; discriminate]).
        -- apply inv_phase_noref; auto.
           ++ apply inv_add_produced, inv_counts, I.
           ++ sm. now rewrite Hp.
           ++ discriminate.
        -- apply inv_phase_noref; auto; [now rewrite Hp|discriminate].
  - (* Tick *)
    cbn [fst snd]. split; [apply inv_tick, I|apply good_plain; discriminate].
  - (* Clear *)
    destruct (all_idle cf s) eqn:Hall; cbn [negb]; [|rejected I].
    destruct (is_zero_max cf); [cbn [fst snd]; split; [exact I|apply good_plain; discriminate]|].
    cbn [fst snd]. split; [|apply good_plain; discriminate].
    exact (inv_clear cf s I Hall).
Qed.

Definition reach (cf : cfg) (s : st) : Prop := exists ops, s = run cf ops.

Lemma step_inv cf s o : Inv cf s -> Inv cf (fst (step cf s o)).
Proof. intros I. apply (step_ok cf s o I). Qed.

Theorem reachable_inv cf ops : Inv cf (run cf ops).
Proof. unfold run. apply final_inv; [apply step_inv|apply init_inv]. Qed.

Lemma reach_inv cf s : reach cf s -> Inv cf s.
Proof. intros [ops ->]. apply reachable_inv. Qed.

Lemma reach_step cf s o : reach cf s -> reach cf (fst (step cf s o)).
Proof. intros [ops ->]. exists (ops ++ [o]). unfold run. rewrite final_app. reflexivity. Qed.
