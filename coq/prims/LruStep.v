(* Proofs about the Lru machine, part 3: every step preserves the invariant, and what a step may return. *)
From AV Require Import Base Lru LruLockFacts LruDict LruProofs LruInv LruCount.
From AV Require Lock LockProofs.
From Coq Require Import Sorting.Sorted ZifyBool.

Definition Inv (cf : cfg) (s : st) : Prop := Inv1 cf s /\ Inv2 cf s.

(* what a step of a state satisfying the invariant may return *)
Definition good (s' : st) (r : res) : Prop :=
  r <> RLockErr /\ (f_inflight s' = false -> f_waited s' = false -> r <> RKeyError).

Lemma lock_do_eq s l o :
  lock_do s l o = (set_lock s l (fst (Lock.step (locks s l) o)), snd (Lock.step (locks s l) o)).
Proof. unfold lock_do. destruct (Lock.step (locks s l) o). reflexivity. Qed.

Lemma release_eq s c l :
  release s c l =
  (set_lock s l (fst (Lock.step (locks s l) (Lock.Release c))),
   match snd (Lock.step (locks s l) (Lock.Release c)) with Lock.RDone => true | _ => false end).
Proof. unfold release. rewrite lock_do_eq. reflexivity. Qed.

Lemma good_plain s r : r <> RLockErr -> r <> RKeyError -> good s r.
Proof. intros H1 H2. split; auto. Qed.

Lemma init_inv cf : Inv cf init.
Proof. split; [apply init_inv1|apply init_inv2]. Qed.

(* transport along pointwise-equal components *)
Lemma inv_same cf s s' :
  Inv cf s ->
  (forall g, dicts s' g = dicts s g) -> cur s' = cur s -> currsize s' = currsize s -> locks s' = locks s ->
  nlock s' = nlock s -> (forall c, phase s' c = phase s c) ->
  now s' = now s -> clk s' = clk s -> lkey s' = lkey s -> produced s' = produced s -> fl s' = fl s ->
  Inv cf s'.
Proof.
  intros [I J] E1 E2 E3 E4 E5 E6 E7 E8 E9 E10 E11.
  assert (F : forall f : flagset -> bool, f (fl s') = false -> f (fl s) = false) by (intros f; now rewrite E11).
  split.
  - apply (inv1_same _ _ _ I); auto; apply F.
  - apply (inv2_same _ _ _ J); auto; apply F.
Qed.

(* release by a holder, then idle *)
Lemma leave_ok cf s c k l r :
  Inv cf s -> lockref (phase s c) = Some (k, l) -> In c (Lock.held (locks s l)) ->
  (forall k0 l0 p b g, phase s c = CInWrapped k0 l0 p b g ->
     clean5 s -> g = cur s -> dget k0 (dict s) <> Some (EPlace l0 true)) ->
  r <> RLockErr ->
  let '(s1, ok) := release s c l in
  Inv cf (fst (finish s1 c ok r)) /\ snd (finish s1 c ok r) = r.
Proof.
  intros [I J] Hp Hh Hno Hr. rewrite release_eq.
  destruct (release_holder (locks s l) c (L_inv _ _ _ _ _ (I_lp _ _ I) l) Hh) as [E Hne].
  rewrite E. cbn [finish fst snd]. split; [|reflexivity]. split.
  - apply (inv1_out cf s c k l (Lock.Release c) I Hp eq_refl Hne).
  - apply inv2_phase; [apply inv2_set_lock, J| |sm; apply (I_nodup _ _ I)].
    sm. intros k0 l0 p b g H. right. intros HC Hg. apply (Hno _ _ _ _ _ H); auto.
Qed.

Lemma body_ok cf s c k l t0 g :
  Inv cf s -> phase s c = CLockWait k l t0 g -> In c (Lock.held (locks s l)) ->
  Inv cf (fst (body cf s c k l g)) /\ good (fst (body cf s c k l g)) (snd (body cf s c k l g)).
Proof.
  intros [I J] Hp Hh. unfold body. destruct (dfind k (dicts s g)) as [x|] eqn:Hfind.
  - pose proof (dget_find _ _ _ Hfind) as Hd. destruct (se x) as [l' b'|v e] eqn:Hse.
    + cbv zeta.
      assert (Efull : full cf (set_counts s (hits s) (S (misses s)) (currsize s)) = full cf s) by reflexivity.
      rewrite Efull. destruct (full cf s) eqn:Hfull.
      * unfold evict. sm. destruct (dicts s g) as [|x0 r] eqn:Hdict; [discriminate|].
        split; [|apply good_plain; discriminate].
        assert (Hd' : dget k (dicts s g) = Some (EPlace l' b')) by (rewrite Hdict; exact Hd).
        pose proof (inv1_miss_evict cf s c k l t0 g l' b' x0 r I Hp Hh Hd' Hdict) as I'.
        pose proof (inv2_miss_evict cf s c k l t0 g l' b' x0 r I J Hp Hh Hd' Hdict) as J'.
        split.
        -- apply (inv1_same _ _ _ I'); sm; try reflexivity; try (intros H; exact H).
           intros g0. destruct (Nat.eq_dec g0 g) as [->|N]; [now rewrite !upd_same|now rewrite !upd_other].
        -- apply (inv2_same _ _ _ J'); sm; try reflexivity; try (intros H; exact H).
           intros g0. destruct (Nat.eq_dec g0 g) as [->|N]; [now rewrite !upd_same|now rewrite !upd_other].
      * split; [|apply good_plain; discriminate]. split.
        -- exact (inv1_miss_noevict cf s c k l t0 g l' b' _ I Hp Hh Hd).
        -- exact (inv2_miss_noevict cf s c k l t0 g l' b' I J Hp Hh Hd Hfull).
    + cbv zeta.
      set (s2 := bump_clk (set_dict (set_counts s (S (hits s)) (misses s) (currsize s)) g
                                    (dmove k (clk (set_counts s (S (hits s)) (misses s) (currsize s)))
                                           (dicts (set_counts s (S (hits s)) (misses s) (currsize s)) g)))).
      assert (I2 : Inv cf s2).
      { split; [exact (inv1_touch cf s g k (S (hits s)) (misses s) I)|
                exact (inv2_touch cf s g k (S (hits s)) (misses s) I J)]. }
      assert (Hp2 : lockref (phase s2 c) = Some (k, l)) by (unfold s2; sm; now rewrite Hp).
      assert (Hh2 : In c (Lock.held (locks s2 l))) by exact Hh.
      assert (Hno : forall k0 l0 p b g0, phase s2 c = CInWrapped k0 l0 p b g0 ->
                clean5 s2 -> g0 = cur s2 -> dget k0 (dict s2) <> Some (EPlace l0 true)).
      { intros k0 l0 p b g0 H. unfold s2 in H. sm. congruence. }
      pose proof (leave_ok cf s2 c k l (RRet v) I2 Hp2 Hh2 Hno ltac:(discriminate)) as H.
      destruct (release s2 c l) as [s3 ok]. destruct H as [H1 H2]. split; [exact H1|].
      rewrite H2. apply good_plain; discriminate.
  - assert (Hno : forall k0 l0 p b g0, phase s c = CInWrapped k0 l0 p b g0 ->
              clean5 s -> g0 = cur s -> dget k0 (dict s) <> Some (EPlace l0 true)) by (intros; congruence).
    pose proof (leave_ok cf s c k l RKeyError (conj I J) ltac:(now rewrite Hp) Hh Hno ltac:(discriminate)) as H.
    pose proof (release_eq s c l) as Er.
    destruct (release s c l) as [s1 ok]. destruct H as [H1 H2]. split; [exact H1|].
    rewrite H2. split; [discriminate|]. intros Hf Hw _.
    injection Er as -> _. cbn [finish fst] in Hf, Hw. sm.
    destruct (I_B _ _ I Hf Hw _ _ _ _ _ Hp) as [[b H]|(v & e & H)]; rewrite (dget_none_find _ _ Hfind) in H; discriminate.
Qed.

(* the state after an idle caller was marked and began to acquire the entry's lock *)
Lemma mark_inv cf s c k l b0 :
  Inv cf s -> phase s c = CIdle -> c < ncall cf -> dget k (dict s) = Some (EPlace l b0) ->
  l < nlock s -> lkey s l = k -> is_zero_max cf = false ->
  engaged (fst (Lock.step (locks s l) (Lock.AcqBegin c))) c ->
  Inv cf (set_lock (set_phase s c (CLockWait k l (now s) (cur s))) l
                   (fst (Lock.step (locks s l) (Lock.AcqBegin c)))).
Proof.
  intros [I J] Hp Hc Hd Hl Hk Hz He. split; [apply (inv1_mark cf s c k l b0); auto|].
  apply inv2_set_lock. apply inv2_phase; [exact J| |apply (I_nodup _ _ I)].
  intros k0 l0 p b g H. congruence.
Qed.

Lemma acquire_ok cf s c k l b0 :
  Inv cf s -> phase s c = CIdle -> c < ncall cf -> dget k (dict s) = Some (EPlace l b0) ->
  l < nlock s -> lkey s l = k -> is_zero_max cf = false ->
  Inv cf (fst (acquire cf s c k l)) /\ good (fst (acquire cf s c k l)) (snd (acquire cf s c k l)).
Proof.
  intros IJ Hp Hc Hd Hl Hk Hz. pose proof IJ as [I J]. unfold acquire. cbv zeta. rewrite lock_do_eq. sm.
  assert (Hne : ~ engaged (locks s l) c).
  { eapply LP_idle_not_engaged; [apply (I_lp _ _ I)|]. now rewrite Hp. }
  destruct (acq_begin_cases (locks s l) c (L_inv _ _ _ _ _ (I_lp _ _ I) l) Hne) as [[E Hh]|[E Hph]]; rewrite E.
  - set (s1 := set_lock (set_phase s c (CLockWait k l (now s) (cur s))) l
                        (fst (Lock.step (locks s l) (Lock.AcqBegin c)))).
    assert (I1 : Inv cf s1) by (eapply mark_inv; eauto; right; exact Hh).
    apply (body_ok cf s1 c k l (now s) (cur s) I1).
    + unfold s1. sm. apply upd_same.
    + unfold s1. sm. rewrite upd_same. exact Hh.
  - cbn [fst snd]. split; [|apply good_plain; discriminate].
    eapply mark_inv; eauto. left. exact Hph.
Qed.

Lemma acquire_x_ok cf s c k l b0 :
  Inv cf s -> phase s c = CIdle -> c < ncall cf -> dget k (dict s) = Some (EPlace l b0) ->
  l < nlock s -> lkey s l = k -> is_zero_max cf = false ->
  Inv cf (fst (acquire_x cf s c k l)) /\ good (fst (acquire_x cf s c k l)) (snd (acquire_x cf s c k l)).
Proof.
  intros IJ Hp Hc Hd Hl Hk Hz. pose proof IJ as [I J]. unfold acquire_x. cbn [fst snd].
  split; [|apply good_plain; discriminate].
  assert (I' : Inv1 cf (set_fl s (fl_or_uncounted (fl s) (uncounted_at k (dict s)))))
    by (apply inv1_fl; [exact I| | |]; sm; auto).
  assert (J' : Inv2 cf (set_fl s (fl_or_uncounted (fl s) (uncounted_at k (dict s))))).
  { apply inv2_fl; [exact J| | | | |]; sm; auto. intros H. apply orb_false_elim in H. tauto. }
  split.
  - apply inv1_phase_noref; [exact I'|exact Hc|sm; now rewrite Hp|reflexivity|discriminate|discriminate].
  - apply inv2_phase; [exact J'| |sm; apply (I_nodup _ _ I)]. sm. intros; congruence.
Qed.

Ltac rejected IJ := cbn [fst snd]; split; [exact IJ|apply good_plain; discriminate].

Lemma enter_ok cf s c a x :
  Inv cf s -> Inv cf (fst (enter cf s c a x)) /\ good (fst (enter cf s c a x)) (snd (enter cf s c a x)).
Proof.
  intros IJ. pose proof IJ as [I J]. unfold enter.
  destruct (Nat.ltb c (ncall cf)) eqn:Hlt; cbn [negb]; [|rejected IJ]. apply Nat.ltb_lt in Hlt.
  destruct (phase s c) eqn:Hp; cbn [is_cidle negb]; try (rejected IJ).
  set (k := key_of cf a).
  destruct (is_zero_max cf) eqn:Hz.
  { cbn [fst snd]. split; [|apply good_plain; discriminate]. split.
    - apply inv1_phase_noref; [|exact Hlt| |reflexivity|discriminate|intros _; exact Hz].
      + apply inv1_fl; [exact I| | |]; sm; auto.
      + sm. now rewrite Hp.
    - apply inv2_phase.
      + apply inv2_fl; [exact J| | | | |]; sm; auto.
      + sm. intros; congruence.
      + sm. apply (I_nodup _ _ I). }
  cbv zeta.
  set (s0 := set_has_dict s).
  assert (IJ0 : Inv cf s0) by (split; [apply inv1_has_dict, I|apply inv2_has_dict, J]).
  assert (Hp0 : phase s0 c = CIdle) by exact Hp.
  assert (Hacq : forall s1 l b0, Inv cf s1 -> phase s1 c = CIdle -> dget k (dict s1) = Some (EPlace l b0) ->
            l < nlock s1 -> lkey s1 l = k ->
            Inv cf (fst ((if x then acquire_x else acquire) cf s1 c k l)) /\
            good (fst ((if x then acquire_x else acquire) cf s1 c k l))
                 (snd ((if x then acquire_x else acquire) cf s1 c k l))).
  { intros s1 l b0 I1 H1 H2 H3 H4. destruct x; [eapply acquire_x_ok|eapply acquire_ok]; eauto. }
  clearbody s0. clear IJ I J Hp s. rename s0 into s. pose proof IJ0 as [I J].
  destruct (dfind k (dict s)) as [y|] eqn:Hfind.
  - destruct (dfind_some _ _ _ Hfind) as [Hky Hin]. destruct (se y) as [l b|v exp] eqn:Hse.
    + destruct (I_place _ _ I _ y l b Hin Hse) as [H1 H2].
      eapply Hacq; eauto; [rewrite (dget_find _ _ _ Hfind), Hse; reflexivity|congruence].
    + destruct (expired exp (now s)) eqn:Hexp.
      * set (s4 := bump_clk _).
        set (sm := mk (upd (dicts s) (cur s) (dset_in k (EPlace (nlock s) false) (dict s))) (cur s) (has_dict s)
                      (hits s) (misses s) (currsize s - 1)%Z
                      (upd (locks s) (nlock s) (Lock.init (negb (ackpt cf)))) (S (nlock s)) (phase s) (now s)
                      (clk s) (upd (lkey s) (nlock s) k) (produced s)
                      (fl_or_waited (fl s) (waited cf s k (cur s)))).
        assert (Im : Inv cf sm) by (split; [exact (inv1_expire cf s k y v exp I Hfind Hse)|
                                             exact (inv2_expire cf s k y v exp J Hfind Hse)]).
        assert (I4 : Inv cf s4).
        { destruct Im as [Im1 Im2].
          pose proof (inv1_touch cf sm (cur sm) k (hits s) (misses s) Im1) as T1.
          pose proof (inv2_touch cf sm (cur sm) k (hits s) (misses s) Im1 Im2) as T2.
          split.
          - apply (inv1_same _ _ _ T1); unfold s4, sm; sm; try reflexivity; try (intros H; exact H).
            intros g0. destruct (Nat.eq_dec g0 (cur s)) as [->|N]; [now rewrite !upd_same|now rewrite !upd_other].
          - apply (inv2_same _ _ _ T2); unfold s4, sm; sm; try reflexivity; try (intros H; exact H).
            intros g0. destruct (Nat.eq_dec g0 (cur s)) as [->|N]; [now rewrite !upd_same|now rewrite !upd_other]. }
        apply (Hacq s4 (nlock s) false I4).
        -- exact Hp0.
        -- unfold s4. sm. rewrite upd_same, dget_dmove, dget_dset_in_same, (dget_find _ _ _ Hfind). reflexivity.
        -- unfold s4. sm. lia.
        -- unfold s4. sm. apply upd_same.
      * set (s2 := bump_clk _).
        assert (I2 : Inv cf s2).
        { split; [exact (inv1_touch cf s (cur s) k (S (hits s)) (misses s) I)|
                  exact (inv2_touch cf s (cur s) k (S (hits s)) (misses s) I J)]. }
        destruct (ackpt cf); cbn [fst snd].
        -- split; [|apply good_plain; discriminate]. destruct I2 as [I21 I22]. split.
           ++ apply inv1_phase_noref; [exact I21|exact Hlt|unfold s2; sm; now rewrite Hp0|reflexivity| |discriminate].
              intros k0 v0 b [= <- <- _]. unfold s2. sm. rewrite <- Hky. apply (I_vdict _ _ I _ y v exp Hin Hse).
           ++ apply inv2_phase; [exact I22| |apply (I_nodup _ _ I21)].
              unfold s2. sm. intros; congruence.
        -- split; [exact I2|apply good_plain; discriminate].
  - set (s2 := bump_clk _).
    assert (I2 : Inv cf s2) by (split; [exact (inv1_install cf s k I Hfind)|exact (inv2_install cf s k J)]).
    apply (Hacq s2 (nlock s) false I2).
    + exact Hp0.
    + unfold s2. sm. rewrite upd_same, dget_app, (dget_none_find _ _ Hfind), Nat.eqb_refl. reflexivity.
    + unfold s2. sm. lia.
    + unfold s2. sm. apply upd_same.
Qed.

Lemma phase_only cf s c p' :
  Inv cf s -> c < ncall cf -> lockref (phase s c) = None -> lockref p' = None ->
  (forall k v b, p' = CHitCk k v b -> In (k, v) (produced s)) ->
  (is_bypass p' = true -> is_zero_max cf = true) ->
  Inv cf (set_phase s c p').
Proof.
  intros [I J] Hc H1 H2 H3 H4. split; [now apply inv1_phase_noref|].
  apply inv2_phase; [exact J| |apply (I_nodup _ _ I)].
  intros k l p b g H. rewrite H in H1. discriminate.
Qed.

Lemma running_only cf s c k l p b g p2 b2 :
  Inv cf s -> phase s c = CInWrapped k l p b g -> Inv cf (set_phase s c (CInWrapped k l p2 b2 g)).
Proof.
  intros [I J] Hp. split; [eapply inv1_phase_running; eauto|].
  apply inv2_phase; [exact J| |apply (I_nodup _ _ I)].
  intros k0 l0 p0 b0 g0 H. left. rewrite Hp in H. injection H as <- <- _ _ <-. eauto.
Qed.

Lemma step_ok cf s o :
  Inv cf s -> Inv cf (fst (step cf s o)) /\ good (fst (step cf s o)) (snd (step cf s o)).
Proof.
  intros IJ. pose proof IJ as [I J]. destruct o as [c a|c a|c v|c e|c|c| | |]; unfold step.
  - apply enter_ok, IJ.
  - apply enter_ok, IJ.
  - (* WrappedReturns *)
    destruct (phase s c) as [|k|k l t0 g|k l [w|] [|] g|k v0 b|k [w|] [|]] eqn:Hp; try (rejected IJ);
      cbn [fst snd]; (split; [|apply good_plain; discriminate]).
    + eapply running_only; eauto.
    + assert (Hc : c < ncall cf) by (apply (L_ncall _ _ _ _ _ (I_lp _ _ I)); congruence).
      apply phase_only; [exact IJ|exact Hc|now rewrite Hp|reflexivity|discriminate|].
      intros _. apply (I_byp _ _ I c). now rewrite Hp.
  - (* WrappedRaises *)
    destruct (phase s c) as [|k|k l t0 g|k l [w|] [|] g|k v0 b|k [w|] [|]] eqn:Hp; try (rejected IJ);
      cbn [fst snd]; (split; [|apply good_plain; discriminate]).
    + eapply running_only; eauto.
    + assert (Hc : c < ncall cf) by (apply (L_ncall _ _ _ _ _ (I_lp _ _ I)); congruence).
      apply phase_only; [exact IJ|exact Hc|now rewrite Hp|reflexivity|discriminate|].
      intros _. apply (I_byp _ _ I c). now rewrite Hp.
  - (* CancelCaller *)
    destruct (phase s c) as [|k|k l t0 g|k l w b g|k v0 b|k w b] eqn:Hp; try (rejected IJ).
    + rewrite lock_do_eq. cbn [fst snd]. split; [|apply good_plain; discriminate].
      assert (Heng : engaged (fst (Lock.step (locks s l) (Lock.Cancel c))) c).
      { destruct (cancel_same (locks s l) c) as [E1 E2]. unfold engaged. rewrite E1, E2.
        apply (L_wait _ _ _ _ _ (I_lp _ _ I) _ _ _ _ _ Hp). }
      split; [exact (inv1_lock_only cf s c k l t0 g (Lock.Cancel c) I Hp eq_refl Heng)|apply inv2_set_lock, J].
    + cbn [fst snd]. split; [|apply good_plain; discriminate]. eapply running_only; eauto.
    + assert (Hc : c < ncall cf) by (apply (L_ncall _ _ _ _ _ (I_lp _ _ I)); congruence).
      cbn [fst snd]. split; [|apply good_plain; discriminate].
      apply phase_only; [exact IJ|exact Hc|now rewrite Hp|reflexivity| |discriminate].
      intros k0 v1 b0 [= <- <- _]. apply (I_vhit _ _ I _ _ _ _ Hp).
    + assert (Hc : c < ncall cf) by (apply (L_ncall _ _ _ _ _ (I_lp _ _ I)); congruence).
      cbn [fst snd]. split; [|apply good_plain; discriminate].
      apply phase_only; [exact IJ|exact Hc|now rewrite Hp|reflexivity|discriminate|].
      intros _. apply (I_byp _ _ I c). now rewrite Hp.
  - (* Resume *)
    destruct (phase s c) as [|k|k l t0 g|k l w b g|k v0 b|k w b] eqn:Hp; try (rejected IJ).
    + (* cancelled at the lock entry *)
      assert (Hc : c < ncall cf) by (apply (L_ncall _ _ _ _ _ (I_lp _ _ I)); congruence).
      cbn [fst snd]. split; [|apply good_plain; discriminate].
      apply phase_only; [exact IJ|exact Hc|now rewrite Hp|reflexivity|discriminate|discriminate].
    + (* suspended in lock.acquire() *)
      rewrite lock_do_eq.
      assert (Hcases : Lock.phase_of (locks s l) c = Lock.Idle \/ Lock.phase_of (locks s l) c <> Lock.Idle)
        by (destruct (Lock.phase_of (locks s l) c); [left; reflexivity|right; discriminate|right; discriminate]).
      destruct Hcases as [Hlp|Hlp].
      * assert (E : Lock.step (locks s l) (Lock.Resume c) = (locks s l, Lock.RRejected))
          by (cbn [Lock.step]; now rewrite Hlp).
        rewrite E. rejected IJ.
      * destruct (resume_cases (locks s l) c (L_inv _ _ _ _ _ (I_lp _ _ I) l) Hlp)
          as [[E Hh]|[[E Hne]|[E _]]]; rewrite E.
        -- set (s1 := set_lock s l _).
           assert (I1 : Inv cf s1).
           { split; [|apply inv2_set_lock, J].
             apply (inv1_lock_only cf s c k l t0 g (Lock.Resume c) I Hp eq_refl). right. exact Hh. }
           apply (body_ok cf s1 c k l t0 g I1); [exact Hp|]. unfold s1. sm. rewrite upd_same. exact Hh.
        -- cbn [fst snd]. split; [|apply good_plain; discriminate].
           set (f := fl_or_uncounted _ _).
           assert (I1 : Inv1 cf (set_phase (set_lock s l (fst (Lock.step (locks s l) (Lock.Resume c)))) c CIdle))
             by (apply (inv1_out cf s c k l (Lock.Resume c) I); [now rewrite Hp|reflexivity|exact Hne]).
           assert (J1 : Inv2 cf (set_phase (set_lock s l (fst (Lock.step (locks s l) (Lock.Resume c)))) c CIdle)).
           { apply inv2_phase; [apply inv2_set_lock, J| |sm; apply (I_nodup _ _ I)]. sm. intros; congruence. }
           split.
           ++ refine (inv1_fl cf _ f I1 _ _ _); unfold f; sm; auto.
           ++ refine (inv2_fl cf _ f J1 _ _ _ _ _); unfold f; sm; auto. intros H. apply orb_false_elim in H. tauto.
        -- rejected IJ.
    + (* inside the wrapped function *)
      pose proof (L_run _ _ _ _ _ (I_lp _ _ I) _ _ _ _ _ _ Hp) as Hh.
      set (sd := set_fl s (fl_or_dead (fl s) (dead_left k (dicts s g)))).
      assert (Id : Inv cf sd).
      { split; [apply inv1_fl; [exact I| | |]; sm; auto|].
        apply inv2_fl; [exact J| | | | |]; sm; auto. intros H. apply orb_false_elim in H. tauto. }
      assert (Hrd : lockref (phase sd c) = Some (k, l)) by (unfold sd; sm; now rewrite Hp).
      assert (Hnod : forall k0 l0 p0 b0 g0, phase sd c = CInWrapped k0 l0 p0 b0 g0 ->
                clean5 sd -> g0 = cur sd -> dget k0 (dict sd) <> Some (EPlace l0 true)).
      { intros k0 l0 p0 b0 g0 H (_ & _ & _ & Hdd & _) Hg Hget. unfold sd in *. sm.
        rewrite Hp in H. injection H as <- <- _ _ <-. subst g.
        apply orb_false_elim in Hdd. destruct Hdd as [_ Hdd]. unfold dead_left in Hdd.
        destruct (dget_some _ _ _ Hget) as (y & Ey & Hsy & _). rewrite Ey, Hsy in Hdd. discriminate. }
      destruct b.
      * pose proof (leave_ok cf sd c k l RCancelled Id Hrd Hh Hnod ltac:(discriminate)) as H.
        destruct (release sd c l) as [s1 ok]. destruct H as [H1 H2]. split; [exact H1|].
        rewrite H2. apply good_plain; discriminate.
      * destruct w as [[v|e]|]; [| |rejected IJ].
        -- cbv zeta.
           set (s2 := bump_clk _).
           rewrite (release_eq s2 c l).
           destruct (release_holder (locks s l) c (L_inv _ _ _ _ _ (I_lp _ _ I) l) Hh) as [E Hne].
           change (locks s2 l) with (locks s l). rewrite E. cbn [finish fst snd].
           split; [|apply good_plain; discriminate].
           split; [exact (inv1_store_out cf s c k l v g I Hp)|exact (inv2_store_out cf s c k l v g I J Hp)].
        -- pose proof (leave_ok cf sd c k l (RExc e) Id Hrd Hh Hnod ltac:(discriminate)) as H.
           destruct (release sd c l) as [s1 ok]. destruct H as [H1 H2]. split; [exact H1|].
           rewrite H2. apply good_plain; discriminate.
    + (* hit checkpoint *)
      assert (Hc : c < ncall cf) by (apply (L_ncall _ _ _ _ _ (I_lp _ _ I)); congruence).
      cbn [fst snd]. split; [|apply good_plain; destruct b; discriminate].
      apply phase_only; [exact IJ|exact Hc|now rewrite Hp|reflexivity|discriminate|discriminate].
    + (* maxsize = 0 *)
      assert (Hc : c < ncall cf) by (apply (L_ncall _ _ _ _ _ (I_lp _ _ I)); congruence).
      destruct b.
      * cbn [fst snd]. split; [|apply good_plain; discriminate].
        apply phase_only; [exact IJ|exact Hc|now rewrite Hp|reflexivity|discriminate|discriminate].
      * destruct w as [[v|e]|]; [| |rejected IJ]; cbn [fst snd]; (split; [|apply good_plain; discriminate]).
        -- apply phase_only; [|exact Hc| |reflexivity|discriminate|discriminate].
           ++ split; [apply inv1_add_produced, inv1_counts, I|apply inv2_add_produced, inv2_counts, J].
           ++ sm. now rewrite Hp.
        -- apply phase_only; [exact IJ|exact Hc|now rewrite Hp|reflexivity|discriminate|discriminate].
  - (* Tick *)
    cbn [fst snd]. split; [split; [apply inv1_tick, I|apply inv2_tick, J]|apply good_plain; discriminate].
  - (* Clear *)
    destruct (has_dict s); [|rejected IJ]. cbn [fst snd]. split; [|apply good_plain; discriminate]. split.
    + apply inv1_newgen; [exact I|]. intros H. now destruct (all_idle cf s).
    + apply inv2_clear.
  - (* NewLoop *)
    destruct (all_idle cf s) eqn:Hall; cbn [negb]; [|rejected IJ].
    cbn [fst snd]. split; [|apply good_plain; discriminate]. split.
    + apply inv1_newgen; [exact I|]. intros _. exact Hall.
    + apply inv2_newloop, J.
Qed.

Definition reach (cf : cfg) (s : st) : Prop := exists ops, s = run cf ops.

Lemma step_inv cf s o : Inv cf s -> Inv cf (fst (step cf s o)).
Proof. intros I. apply (step_ok cf s o I). Qed.

Theorem reachable_inv cf ops : Inv cf (run cf ops).
Proof. unfold run. apply final_inv; [apply step_inv|apply init_inv]. Qed.

Lemma reachable_inv1 cf ops : Inv1 cf (run cf ops).
Proof. apply reachable_inv. Qed.

Lemma reachable_inv2 cf ops : Inv2 cf (run cf ops).
Proof. apply reachable_inv. Qed.

Lemma reach_inv cf s : reach cf s -> Inv cf s.
Proof. intros [ops ->]. apply reachable_inv. Qed.

Lemma reach_step cf s o : reach cf s -> reach cf (fst (step cf s o)).
Proof. intros [ops ->]. exists (ops ++ [o]). unfold run. rewrite final_app. reflexivity. Qed.
