(* C10 clauses for the Semaphore machine, over every op sequence. *)
From AV Require Import Base C10Defs C10Lib Sem SemProofs.

Definition reach (fa : bool) (iv : nat) (mx : option nat) (s : st) : Prop :=
  exists ops, s = final step (init fa iv mx) ops.

Lemma reach_inv fa iv mx s : max_ok iv mx -> reach fa iv mx s -> Inv s.
Proof. intros Hm [ops ->]. now apply reachable_inv. Qed.

Lemma reach_step fa iv mx s o : reach fa iv mx s -> reach fa iv mx (fst (step s o)).
Proof. intros [ops ->]. exists (ops ++ [o]). rewrite final_app. reflexivity. Qed.

(* ---------- the constructor parameters never change ---------- *)
Lemma rel_core_params s :
  init0 (rel_core s) = init0 s /\ maxv (rel_core s) = maxv s /\ fast (rel_core s) = fast s /\
  held (rel_core s) = held s /\ extra (rel_core s) = extra s /\ dropped (rel_core s) = dropped s /\
  phase_of (rel_core s) = phase_of s /\ enq (rel_core s) = enq s /\ mustc (rel_core s) = mustc s.
Proof.
  unfold rel_core. destruct (handoff (waiters s) (futs s)) as [[o ws'] fu']. destruct o; cbn; tauto.
Qed.

Lemma cancel_release_params s :
  init0 (fst (cancel_release s)) = init0 s /\ maxv (fst (cancel_release s)) = maxv s /\
  fast (fst (cancel_release s)) = fast s /\ held (fst (cancel_release s)) = held s /\
  extra (fst (cancel_release s)) = extra s /\ phase_of (fst (cancel_release s)) = phase_of s /\
  enq (fst (cancel_release s)) = enq s.
Proof.
  unfold cancel_release. destruct (at_max s); cbn [fst].
  - cbn. tauto.
  - pose proof (rel_core_params s). tauto.
Qed.

Lemma acq_body_params s t :
  init0 (fst (acq_body s t)) = init0 s /\ maxv (fst (acq_body s t)) = maxv s /\ fast (fst (acq_body s t)) = fast s /\
  extra (fst (acq_body s t)) = extra s /\ (exists l, enq (fst (acq_body s t)) = enq s ++ l) /\
  match snd (acq_body s t) with
  | RDone => held (fst (acq_body s t)) = t :: held s
  | RBlocked => held (fst (acq_body s t)) = held s
  | _ => False
  end.
Proof.
  unfold acq_body.
  destruct (value s), (waiters s); try destruct (fast s) eqn:E; cbn; rewrite ?E;
    repeat split; try reflexivity; try (exists []; now rewrite app_nil_r); eexists; reflexivity.
Qed.

Lemma step_params s o :
  init0 (fst (step s o)) = init0 s /\ maxv (fst (step s o)) = maxv s /\ fast (fst (step s o)) = fast s.
Proof.
  destruct o as [t|t|t|t|t|t|t]; cbn [step].
  - destruct (is_idle (phase_of s t)); cbn [negb fst]; [|tauto].
    pose proof (acq_body_params s t). tauto.
  - destruct (is_idle (phase_of s t)); cbn [negb fst]; [|tauto]. destruct (value s); cbn; tauto.
  - destruct (is_idle (phase_of s t)); cbn [negb fst]; [|tauto].
    destruct (at_max s); cbn [fst]; [tauto|]. pose proof (rel_core_params s).
    destruct (mem t (held s)); cbn; tauto.
  - destruct (phase_of s t) as [| |f|]; [cbn; tauto| | |].
    + destruct (mustc s t); [|cbn; tauto]. pose proof (cancel_release_params (leave s t)). cbn in *. tauto.
    + destruct (futs s f); [cbn; tauto| |cbn; tauto].
      destruct (mustc s t); [|cbn; tauto]. pose proof (cancel_release_params (leave s t)). cbn in *. tauto.
    + destruct (mustc s t); cbn; tauto.
  - destruct (phase_of s t) as [| |f|]; [cbn; tauto|cbn; tauto| |cbn; tauto]. destruct (futs s f); cbn; tauto.
  - destruct (is_idle (phase_of s t)); cbn; tauto.
  - destruct (phase_of s t) as [| |f|]; try (cbn; tauto).
    destruct (mustc s t); [cbn; tauto|]. pose proof (acq_body_params (leave s t) t). cbn in *. tauto.
Qed.

Lemma reach_params fa iv mx s : reach fa iv mx s -> init0 s = iv /\ maxv s = mx /\ fast s = fa.
Proof.
  intros [ops ->].
  apply (final_inv step (fun s => init0 s = iv /\ maxv s = mx /\ fast s = fa)); [|cbn; tauto].
  intros s o (H1 & H2 & H3). pose proof (step_params s o) as (E1 & E2 & E3). rewrite E1, E2, E3. tauto.
Qed.

(* ---------- 1. conservation ---------- *)
(* value + permits held by tasks + permits reserved for tasks whose acquire() has not returned yet
   (+ permits destroyed at the max_value cap by the release inside a cancelled acquire)
   = initial value + releases by tasks that held nothing.  Hence holders never exceed the permits that exist. *)
Theorem sem_conservation fa iv mx s : max_ok iv mx -> reach fa iv mx s ->
  value s + length (held s) + length (infl s) + dropped s = iv + extra s /\
  length (held s) + length (infl s) <= iv + extra s /\
  dropped s <= extra s /\ (mx = None -> dropped s = 0) /\ (forall m, mx = Some m -> value s <= m).
Proof.
  intros Hm R. pose proof (reach_inv _ _ _ _ Hm R) as I. destruct (reach_params _ _ _ _ R) as (E1 & E2 & _).
  destruct (I_arith s I) as [Hc Hle Hd Hn]. rewrite E1 in Hc. rewrite E2 in Hle, Hn.
  refine (conj _ (conj _ (conj Hd (conj Hn _)))); [lia|lia|]. intros m E. now destruct (Hle m E).
Qed.

(* the reserved permits are exactly those of tasks in the shielded yield or handed a permit and not yet run *)
Theorem sem_reserved_meaning fa iv mx s t : max_ok iv mx -> reach fa iv mx s ->
  NoDup (infl s) /\
  (In t (infl s) <-> phase_of s t = FastYield \/ exists f, phase_of s t = Waiting f /\ futs s f = FSet).
Proof.
  intros Hm R. pose proof (I_struct s (reach_inv _ _ _ _ Hm R)) as St.
  split; [apply (S_inflnd s St)|apply (S_infl s St)].
Qed.

(* the ghost `held`/`extra` are what they claim: a returned acquire adds one entry for the caller, an accepted
   release by a holder removes one of its entries, an accepted release by a non-holder is an extra release,
   nothing else changes them *)
Definition acquire_op (o : op) (t : tid) : Prop :=
  o = AcqBegin t \/ o = AcqNowait t \/ o = Resume t \/ o = CkPass t.

Theorem sem_held_tracks_returns s o s' r : step s o = (s', r) ->
  match r with
  | RDone =>
      (exists t, acquire_op o t /\ held s' = t :: held s /\ extra s' = extra s) \/
      (exists t, o = Release t /\
         ((In t (held s) /\ held s' = remove_one t (held s) /\ extra s' = extra s) \/
          (~ In t (held s) /\ held s' = held s /\ extra s' = S (extra s))))
  | _ => held s' = held s /\ extra s' = extra s
  end.
Proof.
  destruct o as [t|t|t|t|t|t|t]; cbn [step]; intros H.
  - destruct (is_idle (phase_of s t)); cbn [negb] in H; [|injection H as <- <-; tauto].
    pose proof (acq_body_params s t) as (_ & _ & _ & Ee & _ & Hh). rewrite H in Ee, Hh. cbn [fst snd] in *.
    destruct r; try contradiction; [|tauto]. left. exists t. unfold acquire_op. tauto.
  - destruct (is_idle (phase_of s t)); cbn [negb] in H; [|injection H as <- <-; tauto].
    destruct (value s); injection H as <- <-; cbn; [tauto|]. left. exists t. unfold acquire_op. tauto.
  - destruct (is_idle (phase_of s t)); cbn [negb] in H; [|injection H as <- <-; tauto].
    destruct (at_max s); [injection H as <- <-; tauto|].
    pose proof (rel_core_params s) as (_ & _ & _ & Eh & Ee & _).
    destruct (mem t (held s)) eqn:Em; injection H as <- <-; right; exists t; split; try reflexivity.
    + left. apply mem_In in Em. cbn. rewrite Ee. tauto.
    + right. apply mem_false in Em. cbn. rewrite Eh. tauto.
  - assert (Hcr : forall s0, fst (cancel_release s0) = s' -> snd (cancel_release s0) = r ->
                  match r with RDone => False | _ => held s' = held s0 /\ extra s' = extra s0 end).
    { intros s0 E1 E2. pose proof (cancel_release_params s0) as (_ & _ & _ & Eh & Ee & _).
      rewrite E1 in Eh, Ee. unfold cancel_release in E2. destruct (at_max s0); cbn in E2; subst r; tauto. }
    destruct (phase_of s t) as [| |f|]; [injection H as <- <-; tauto| | |].
    + destruct (mustc s t).
      * specialize (Hcr (leave s t)). rewrite H in Hcr. specialize (Hcr eq_refl eq_refl).
        destruct r; cbn in Hcr; tauto.
      * injection H as <- <-. left. exists t. unfold acquire_op. cbn. tauto.
    + destruct (futs s f); [injection H as <- <-; tauto| |injection H as <- <-; cbn; tauto].
      destruct (mustc s t).
      * specialize (Hcr (leave s t)). rewrite H in Hcr. specialize (Hcr eq_refl eq_refl).
        destruct r; cbn in Hcr; tauto.
      * injection H as <- <-. left. exists t. unfold acquire_op. cbn. tauto.
    + destruct (mustc s t); injection H as <- <-; cbn; tauto.
  - destruct (phase_of s t) as [| |f|]; [| |destruct (futs s f)|]; injection H as <- <-; cbn; tauto.
  - destruct (is_idle (phase_of s t)); cbn [negb] in H; injection H as <- <-; cbn; tauto.
  - destruct (phase_of s t) as [| |f|]; try (injection H as <- <-; tauto).
    destruct (mustc s t); [injection H as <- <-; cbn; tauto|].
    pose proof (acq_body_params (leave s t) t) as (_ & _ & _ & Ee & _ & Hh). rewrite H in Ee, Hh.
    cbn [fst snd leave held extra] in *.
    destruct r; try contradiction; [|tauto]. left. exists t. unfold acquire_op. tauto.
Qed.

(* ---------- 2. a positive value with waiting tasks never occurs ---------- *)
Theorem sem_value_pos_no_waiters fa iv mx s : max_ok iv mx -> reach fa iv mx s ->
  value s > 0 -> waiters s = [].
Proof.
  intros Hm R Hv. destruct (S_pos s (I_struct s (reach_inv _ _ _ _ Hm R))) as [H|H]; [lia|exact H].
Qed.

(* ---------- 3. FIFO ---------- *)
Theorem sem_queue_in_arrival_order fa iv mx s : max_ok iv mx -> reach fa iv mx s ->
  subseq (waiters s) (enq s).
Proof. intros Hm R. apply (S_fifo s (I_struct s (reach_inv _ _ _ _ Hm R))). Qed.

Theorem sem_arrival_log_append_only s o : exists l, enq (fst (step s o)) = enq s ++ l.
Proof.
  assert (Hnil : forall s', enq s' = enq s -> exists l, enq s' = enq s ++ l).
  { intros s' E. exists []. now rewrite app_nil_r. }
  destruct o as [t|t|t|t|t|t|t]; cbn [step].
  - destruct (is_idle _); cbn [negb fst]; [|now apply Hnil].
    pose proof (acq_body_params s t) as (_ & _ & _ & _ & E & _). exact E.
  - destruct (is_idle _); cbn [negb]; [|now apply Hnil]. destruct (value s); now apply Hnil.
  - destruct (is_idle _); cbn [negb]; [|now apply Hnil].
    destruct (at_max s); [now apply Hnil|]. pose proof (rel_core_params s) as (_&_&_&_&_&_&_&E&_).
    destruct (mem t (held s)); apply Hnil; cbn; exact E.
  - destruct (phase_of s t) as [| |f|]; [now apply Hnil| | |].
    + destruct (mustc s t); [|now apply Hnil].
      apply Hnil. pose proof (cancel_release_params (leave s t)) as (_&_&_&_&_&_&E). exact E.
    + destruct (futs s f); [now apply Hnil| |now apply Hnil].
      destruct (mustc s t); [|now apply Hnil].
      apply Hnil. pose proof (cancel_release_params (leave s t)) as (_&_&_&_&_&_&E). exact E.
    + destruct (mustc s t); now apply Hnil.
  - destruct (phase_of s t) as [| |f|]; [| |destruct (futs s f)|]; now apply Hnil.
  - destruct (is_idle _); now apply Hnil.
  - destruct (phase_of s t) as [| |f|]; try now apply Hnil.
    destruct (mustc s t); [now apply Hnil|].
    pose proof (acq_body_params (leave s t) t) as (_ & _ & _ & _ & E & _). exact E.
Qed.

(* release() gives the permit to the first waiter whose future is not cancelled; if there is none, all
   (cancelled) entries are dropped and the value grows by one *)
Theorem sem_handoff_first_live s :
  (exists w pre f, waiters s = pre ++ (w, f) :: waiters (rel_core s) /\ futs s f <> FCancelled /\
      (forall t' f', In (t', f') pre -> futs s f' = FCancelled) /\
      infl (rel_core s) = w :: infl s /\ value (rel_core s) = value s /\ futs (rel_core s) f = FSet) \/
  (waiters (rel_core s) = [] /\ (forall t' f', In (t', f') (waiters s) -> futs s f' = FCancelled) /\
      infl (rel_core s) = infl s /\ value (rel_core s) = S (value s)).
Proof.
  unfold rel_core. pose proof (handoff_spec (waiters s) (futs s)) as H.
  destruct (handoff (waiters s) (futs s)) as [[o ws] fu]. destruct o as [w|]; cbn.
  - left. destruct H as (pre & f & E & Hf & Hu & Hp). exists w, pre, f. subst fu.
    rewrite upd_same. auto 10.
  - right. destruct H as (E & _ & Hp). auto.
Qed.

(* a permit is taken directly only when one is free, and then nobody is waiting (no barging) *)
Lemma acq_body_grant s t : (value s > 0 -> waiters s = []) ->
  length (held (fst (acq_body s t))) + length (infl (fst (acq_body s t))) > length (held s) + length (infl s) ->
  value s = S (value (fst (acq_body s t))) /\ waiters s = [].
Proof.
  intros Hpos. unfold acq_body.
  destruct (value s) as [|v] eqn:Ev; [destruct (waiters s); cbn; lia|].
  rewrite (Hpos ltac:(lia)). destruct (fast s); cbn; auto.
Qed.

(* also for the acquire() that had to sit through a cancellation check that yielded (CkPass): test and
   decrement happen in that one segment, on the state as it is THEN *)
Theorem sem_grant_only_if_free fa iv mx s t o : max_ok iv mx -> reach fa iv mx s ->
  o = AcqBegin t \/ o = AcqNowait t \/ o = CkPass t ->
  length (held (fst (step s o))) + length (infl (fst (step s o))) > length (held s) + length (infl s) ->
  value s = S (value (fst (step s o))) /\ waiters s = [].
Proof.
  intros Hm R Ho. pose proof (sem_value_pos_no_waiters _ _ _ _ Hm R) as Hpos.
  destruct Ho as [-> | [-> | ->]]; cbn [step].
  - destruct (is_idle _); cbn [negb fst]; [|lia]. now apply acq_body_grant.
  - destruct (is_idle _); cbn [negb fst]; [|lia].
    destruct (value s) as [|v] eqn:Ev; cbn; [lia|]. intros _. split; [reflexivity|apply Hpos; lia].
  - destruct (phase_of s t) as [| |f|] eqn:Ep; cbn [fst]; try lia.
    pose proof (I_struct s (reach_inv _ _ _ _ Hm R)) as St.
    assert (Hni : ~ In t (infl s)) by (apply neutral_not_infl; [exact St|right; exact Ep]).
    destruct (mustc s t); cbn [fst].
    + cbn. rewrite (remove_one_notin t (infl s) Hni). lia.
    + intros H. destruct (acq_body_grant (leave s t) t) as [G1 G2]; [exact Hpos| |exact (conj G1 G2)].
      replace (infl (leave s t)) with (infl s) by (cbn; now rewrite remove_one_notin).
      exact H.
Qed.

(* ---------- 4. cancellation neither leaks nor duplicates a permit ---------- *)
(* (a) the wait was cancelled before a permit was handed over *)
Theorem sem_cancelled_waiter_no_leak fa iv mx s t f : max_ok iv mx -> reach fa iv mx s ->
  phase_of s t = Waiting f -> futs s f = FCancelled ->
  let s' := fst (step s (Resume t)) in
  snd (step s (Resume t)) = RCancelled /\ value s' = value s /\ held s' = held s /\ infl s' = infl s /\
  extra s' = extra s /\ dropped s' = dropped s /\
  ~ In t (map fst (waiters s')) /\ phase_of s' t = Idle.
Proof.
  intros Hm R Hp Hf. pose proof (I_struct s (reach_inv _ _ _ _ Hm R)) as St.
  cbn [step]. rewrite Hp, Hf. cbn.
  assert (Hni : ~ In t (infl s)).
  { intros H. apply (S_infl s St) in H. destruct H as [H|(f' & H1 & H2)]; [congruence|].
    assert (f' = f) by congruence. subst. congruence. }
  assert (Hgone : ~ In t (map fst (remove_fut f (waiters s)))).
  { apply remove_fut_gone; [apply (S_nd s St)|]. intros t' f' H. destruct (S_w s St t' f' H) as [H1 _].
    split; [intros ->; eapply (S_inj s St); eauto|intros ->; congruence]. }
  rewrite (remove_one_notin t (infl s) Hni), upd_same. auto 10.
Qed.

(* (b) the task was cancelled (natively) while a permit was already reserved for it - in the shielded yield
   of the uncontended path, or between hand-off and its wake-up: the permit goes back (to the value or to
   the next live waiter); only at value = max_value the internal release() is refused like any other *)
Lemma rel_core_count s :
  value (rel_core s) + length (infl (rel_core s)) = S (value s + length (infl s)).
Proof.
  unfold rel_core. destruct (handoff (waiters s) (futs s)) as [[o ws] fu]. destruct o; cbn; lia.
Qed.

Theorem sem_cancelled_grantee_no_leak fa iv mx s t : max_ok iv mx -> reach fa iv mx s ->
  (phase_of s t = FastYield \/ exists f, phase_of s t = Waiting f /\ futs s f = FSet) ->
  mustc s t = true ->
  let s' := fst (step s (Resume t)) in
  let r := snd (step s (Resume t)) in
  phase_of s' t = Idle /\ held s' = held s /\ extra s' = extra s /\ ~ In t (infl s') /\ Inv s' /\
  ((r = RCancelled /\ maxv s <> Some (value s) /\ dropped s' = dropped s /\
      value s' + length (infl s') = value s + length (infl s)) \/
   (r = RValue /\ maxv s = Some (value s) /\ dropped s' = S (dropped s) /\
      value s' = value s /\ S (length (infl s')) = length (infl s))).
Proof.
  intros Hm R Hr Hc. pose proof (reach_inv _ _ _ _ Hm R) as I. pose proof (I_struct s I) as St.
  assert (E : step s (Resume t) = cancel_release (leave s t)).
  { cbn [step]. destruct Hr as [Hr|(f & Hr1 & Hr2)]; [rewrite Hr, Hc|rewrite Hr1, Hr2, Hc]; reflexivity. }
  assert (I' : Inv (fst (step s (Resume t)))) by (now apply step_inv).
  cbv zeta. rewrite E in *. clear E.
  assert (Hin : In t (infl s)) by (apply (S_infl s St); exact Hr).
  pose proof (remove_one_length t (infl s) Hin) as Hl.
  pose proof (cancel_release_params (leave s t)) as (_ & _ & _ & Eh & Ee & Ep & _).
  assert (Hidle : phase_of (fst (cancel_release (leave s t))) t = Idle) by (rewrite Ep; cbn; apply upd_same).
  assert (Hnin : ~ In t (infl (fst (cancel_release (leave s t))))).
  { intros H. apply (S_infl _ (I_struct _ I')) in H. destruct H as [H|(f & H & _)]; congruence. }
  refine (conj Hidle (conj Eh (conj Ee (conj Hnin (conj I' _))))).
  unfold cancel_release in *. destruct (at_max (leave s t)) eqn:Em; cbn [fst snd] in *.
  - right. apply at_max_true in Em. cbn in Em. cbn. unfold tid in *. repeat split; auto; lia.
  - left. pose proof (at_max_false _ Em) as Hne. pose proof (rel_core_count (leave s t)) as Hcnt.
    pose proof (rel_core_params (leave s t)) as (_&_&_&_&_&Ed&_). cbn in Hne, Hcnt, Ed. unfold tid in *.
    repeat split; auto; try lia. intros E. apply (Hne _ E). reflexivity.
Qed.

(* ---------- 4'. the cancellation check at the start of acquire() (F53) ---------- *)
(* acquire() called while a cancelled scope is visible: the check yields before anything of the semaphore is read
   or written - on the uncontended AND on the contended path, in every state *)
Theorem sem_check_yield_noeffect s t : phase_of s t = Idle ->
  step s (AcqBeginC t) = (set_phase s t CkYield, RBlocked) /\
  value (set_phase s t CkYield) = value s /\ waiters (set_phase s t CkYield) = waiters s /\
  futs (set_phase s t CkYield) = futs s /\ held (set_phase s t CkYield) = held s /\
  infl (set_phase s t CkYield) = infl s /\ enq (set_phase s t CkYield) = enq s.
Proof. intros Hp. cbn [step]. rewrite Hp. cbn. auto 10. Qed.

(* the delivered cancellation is raised out of acquire() with nothing touched (also when the scope was cut off in
   the same cycle: the pending Task.cancel() wins) *)
Theorem sem_check_cancelled_noeffect s t : phase_of s t = CkYield -> mustc s t = true ->
  step s (Resume t) = (leave s t, RCancelled) /\ step s (CkPass t) = (leave s t, RCancelled) /\
  value (leave s t) = value s /\ waiters (leave s t) = waiters s /\ futs (leave s t) = futs s /\
  held (leave s t) = held s /\ enq (leave s t) = enq s /\ phase_of (leave s t) t = Idle.
Proof.
  intros Hp Hm. cbn [step]. rewrite Hp, Hm. cbn. rewrite upd_same. auto 10.
Qed.

(* without a pending cancellation the check spins: a further yield, nothing changes *)
Theorem sem_check_spin s t : phase_of s t = CkYield -> mustc s t = false -> step s (Resume t) = (s, RBlocked).
Proof. intros Hp Hm. cbn [step]. now rewrite Hp, Hm. Qed.

(* the honest HEAD statement: when the check returns normally after having yielded (the cancelled scope was cut
   off meanwhile), acquire() continues EXACTLY like a fresh acquire() issued at that moment - the test
   `value > 0 and not waiters` and the decrement run in this one segment, on the state as it is now; there is no
   yield between test and decrement *)
Theorem sem_check_pass_is_fresh_acquire s t : phase_of s t = CkYield -> mustc s t = false ->
  step s (CkPass t) = step (leave s t) (AcqBegin t) /\
  value (leave s t) = value s /\ waiters (leave s t) = waiters s /\ held (leave s t) = held s.
Proof.
  intros Hp Hm. cbn [step]. rewrite Hp, Hm. cbn [leave phase_of]. rewrite upd_same. cbn. auto.
Qed.

(* F53 (fixed in /repo by c2fb7fb): with the old order - test; check; decrement - a task that takes the permit
   while the check yields is overwritten.  One permit; task 1 calls acquire() under a visible cancelled scope: the
   test passes and the check yields; task 2 takes the permit (acquire_nowait); the scope is cut off, task 1's
   check returns and it decrements without looking again (Python: value == -1): two holders of ONE permit, the
   conservation equation is off by one.  At HEAD task 1 queues instead. *)
Definition f53_ops : list op := [AcqBeginC 1; AcqNowait 2; CkPass 1; Resume 1].

Theorem sem_check_order_refuted_pinned :
  exists ops, let s := final step_f53_pinned (init false 1 None) ops in
    held s = [1; 2] /\ infl s = [] /\ extra s = 0 /\ dropped s = 0 /\ value s = 0 /\
    length (held s) > 1 + extra s /\
    value s + length (held s) + length (infl s) + dropped s <> 1 + extra s /\
    (forall t, t < 3 -> phase_of s t = Idle).
Proof.
  exists f53_ops. vm_compute. repeat split; try lia.
  intros t Ht. do 3 (destruct t as [|t]; [reflexivity|]). lia.
Qed.

Example f53_fixed_at_head :
  let s := final step (init false 1 None) [AcqBeginC 1; AcqNowait 2; CkPass 1] in
  held s = [2] /\ value s = 0 /\ phase_of s 1 = Waiting 0 /\ waiters s = [(1, 0)] /\
  snd (step (final step (init false 1 None) [AcqBeginC 1; AcqNowait 2]) (CkPass 1)) = RBlocked.
Proof. vm_compute. auto 10. Qed.

Example ex_check_hyps :
  let s := final step (init false 1 None) [AcqBeginC 1] in
  phase_of (init false 1 None) 1 = Idle /\ phase_of s 1 = CkYield /\ mustc s 1 = false /\
  mustc (fst (step s (Cancel 1))) 1 = true /\ phase_of (fst (step s (Cancel 1))) 1 = CkYield.
Proof. vm_compute. auto 10. Qed.

(* ---------- 5. releasing beyond max_value is rejected and changes nothing ---------- *)
Theorem sem_release_beyond_max_rejected s t :
  phase_of s t = Idle -> maxv s = Some (value s) -> step s (Release t) = (s, RValue).
Proof.
  intros Hp Hm. cbn [step]. rewrite Hp. cbn [is_idle negb]. unfold at_max. rewrite Hm, Nat.eqb_refl. reflexivity.
Qed.

Theorem sem_release_below_max_accepted s t :
  phase_of s t = Idle -> maxv s <> Some (value s) -> snd (step s (Release t)) = RDone.
Proof.
  intros Hp Hm. cbn [step]. rewrite Hp. cbn [is_idle negb].
  destruct (at_max s) eqn:E; [apply at_max_true in E; contradiction|]. destruct (mem t (held s)); reflexivity.
Qed.

(* ---------- 6. once everybody has released and nobody is inside a call the semaphore is pristine ---------- *)
Theorem sem_quiescent_initial fa iv mx s : max_ok iv mx -> reach fa iv mx s ->
  (forall t, phase_of s t = Idle) -> held s = [] ->
  waiters s = [] /\ infl s = [] /\ value s + dropped s = iv + extra s /\ (extra s = 0 -> value s = iv).
Proof.
  intros Hm R Hall Hh. pose proof (reach_inv _ _ _ _ Hm R) as I. pose proof (I_struct s I) as St.
  assert (Hw : waiters s = []).
  { destruct (waiters s) as [|[t f] r] eqn:E; [reflexivity|]. exfalso.
    destruct (S_w s St t f) as [H _]; [rewrite E; now left|]. rewrite Hall in H. discriminate. }
  assert (Hi : infl s = []).
  { destruct (infl s) as [|t r] eqn:E; [reflexivity|]. exfalso.
    assert (H : In t (infl s)) by (rewrite E; now left). apply (S_infl s St) in H.
    destruct H as [H|(f & H & _)]; rewrite Hall in H; discriminate. }
  destruct (sem_conservation _ _ _ _ Hm R) as (Hc & _ & Hd & _). rewrite Hh, Hi in Hc. cbn in Hc.
  repeat split; auto; lia.
Qed.

(* ---------- non-vacuity: concrete reachable states that satisfy the hypotheses ---------- *)
(* one permit; 1 takes it, 2 and 3 queue, 2 is cancelled, 1 releases: the permit goes to 3 *)
Definition ex_ops := [AcqBegin 1; Resume 1; AcqBegin 2; AcqBegin 3; Cancel 2; Release 1].

Example ex_handoff_skips_cancelled :
  let s := final step (init false 1 (Some 1)) ex_ops in
  value s = 0 /\ waiters s = [] /\ held s = [] /\ infl s = [3].
Proof. vm_compute. auto. Qed.

Example ex_value_pos :
  let s := final step (init false 2 None) [AcqBegin 1; Resume 1] in value s > 0 /\ held s = [1].
Proof. vm_compute. auto. Qed.

Example ex_cancelled_waiter_hyp :
  let s := final step (init false 1 (Some 1)) ex_ops in phase_of s 2 = Waiting 0 /\ futs s 0 = FCancelled.
Proof. vm_compute. auto. Qed.

(* hand-off race: 2 is handed the permit and then cancelled before it runs: the permit returns to the value *)
Example ex_race_hyp :
  let s := final step (init false 1 None) [AcqBegin 1; Resume 1; AcqBegin 2; Release 1; Cancel 2] in
  phase_of s 2 = Waiting 0 /\ futs s 0 = FSet /\ mustc s 2 = true /\ value s = 0 /\
  value (fst (step s (Resume 2))) = 1 /\ snd (step s (Resume 2)) = RCancelled.
Proof. vm_compute. auto 10. Qed.

(* the same race at the cap: an extra release filled the value to max_value meanwhile, the internal release()
   is refused with ValueError (which replaces the CancelledError) and the reserved permit is dropped *)
Example ex_race_at_max :
  let s := final step (init false 1 (Some 1)) [AcqBegin 1; Release 2; Cancel 1] in
  phase_of s 1 = FastYield /\ mustc s 1 = true /\ maxv s = Some (value s) /\ extra s = 1 /\
  snd (step s (Resume 1)) = RValue /\ dropped (fst (step s (Resume 1))) = 1.
Proof. vm_compute. auto 10. Qed.

Example ex_grant_only_if_free_hyp :
  let s := final step (init false 1 None) [] in
  length (held (fst (step s (AcqNowait 1)))) + length (infl (fst (step s (AcqNowait 1))))
  > length (held s) + length (infl s).
Proof. vm_compute. lia. Qed.

Example ex_release_at_max_hyp :
  let s := final step (init false 1 (Some 1)) [] in phase_of s 1 = Idle /\ maxv s = Some (value s).
Proof. vm_compute. auto. Qed.

Example ex_quiescent :
  let s := final step (init false 1 (Some 1)) (ex_ops ++ [Resume 2; Resume 3; Release 3]) in
  (forall t, t < 5 -> phase_of s t = Idle) /\ held s = [] /\ value s = 1 /\ waiters s = [].
Proof.
  vm_compute. repeat split.
  intros t Ht. do 5 (destruct t as [|t]; [reflexivity|]). lia.
Qed.

(* the same hypothesis in a non-initial state (after a wait, a hand-off, an extra release and a cancelled waiter) *)
Example ex_grant_only_if_free_hyp2 :
  let s := final step (init false 1 (Some 2))
             [AcqBegin 1; Resume 1; AcqBegin 2; AcqBegin 3; Cancel 2; Release 1; Resume 2; Resume 3; Release 1] in
  value s = 1 /\ held s = [3] /\
  length (held (fst (step s (AcqBegin 1)))) + length (infl (fst (step s (AcqBegin 1))))
  > length (held s) + length (infl s).
Proof. vm_compute. repeat split; lia. Qed.

Example ex_grant_only_if_free_hyp_ckpass :
  let s := final step (init false 1 None) [AcqBeginC 1] in
  length (held (fst (step s (CkPass 1)))) + length (infl (fst (step s (CkPass 1))))
  > length (held s) + length (infl s).
Proof. vm_compute. lia. Qed.

