(* P/LockImp: a tiny imperative language for the body of `class Lock` (anyio/_backends/_asyncio.py) and its
   interpreter over the non-ghost part of Lock.st.  tools/translate_lock.py regenerates LockGen.v (terms of this
   language) from the Python source on every run of bin/check C09; LockGenEq.v proves that interpreting them is the
   hand-written model Lock.step.  Definitions only.

   Awaits are not statements.  The translator cuts `acquire` at its awaits: a segment is await-free and ends with
   return / raise / falling off the end / `SSuspend a` (the point where the coroutine suspends).  For each await
   point there are two continuation segments: the code that runs when the await returns normally and the code that
   runs when CancelledError is raised at the await (its `except CancelledError` handler, then whatever follows). *)
From AV Require Import Base Lock.

(* ---- the part of Lock.st that the code reads and writes ---- *)
Record st_core := mkc {
  c_fast : bool;                       (* self._fast_acquire *)
  c_owner : option tid;                (* self._owner_task *)
  c_waiters : list (tid * fid);        (* self._waiters *)
  c_futs : fid -> fstate;              (* state of every asyncio.Future created by acquire() *)
  c_nfut : fid                         (* next fresh future id (allocation) *)
}.

Definition core (s : st) : st_core := mkc (fast s) (owner s) (waiters s) (futs s) (nfut s).

(* ---- syntax ---- *)
Inductive exn := ERuntime | EWouldBlock | ECancelled.
Inductive await_pt :=
| AwYield      (* await AsyncIOBackend.cancel_shielded_checkpoint() *)
| AwFut.       (* await fut *)

Inductive cond :=
| COwnerNone            (* self._owner_task is None *)
| CNoWaiters            (* not self._waiters *)
| COwnerIsTask          (* self._owner_task == task / is task   (local variable bound to current_task()) *)
| COwnerIsCurrent       (* self._owner_task == current_task() *)
| CFutCancelled         (* fut.cancelled() *)
| CFast                 (* self._fast_acquire *)
| CNot (c : cond)
| CAnd (a b : cond)     (* short-circuit *)
| COr (a b : cond).

Inductive stmt :=
| SSkip                         (* pass / nothing *)
| SSeq (a b : stmt)
| SIf (c : cond) (a b : stmt)
| SBindTask                     (* task = cast(asyncio.Task, current_task()) *)
| SSetOwnerTask                 (* self._owner_task = task *)
| SSetOwnerNone                 (* self._owner_task = None *)
| SNewFut                       (* fut = asyncio.Future() *)
| SAppendItem                   (* item = task, fut; self._waiters.append(item) *)
| SRemoveItem                   (* try: self._waiters.remove(item)  except ValueError: pass *)
| SSetResult                    (* fut.set_result(None) *)
| SPopLoop (body : stmt)        (* while self._waiters: task, fut = self._waiters.popleft(); body *)
| SContinue
| SCall (body : stmt)           (* self.release(), the callee's translated body *)
| SRaise (e : exn)
| SReturn
| SCkIf                         (* await checkpoint_if_cancelled(): marker, see exec *)
| SSuspend (a : await_pt).      (* the segment ends here: the coroutine suspends at await point a *)

Inductive outcome :=
| ONext                 (* fell off the end *)
| OReturn
| OContinue
| ORaise (e : exn)
| OSuspend (a : await_pt)
| OCancelled            (* checkpoint_if_cancelled() at the start of the call found the caller's scope cancelled *)
| OStuck.               (* outside the modelled behaviour: unbound local, checkpoint after an effect, ... *)

(* ---- locals of one activation + the events of the segment that the ghost bookkeeping needs ---- *)
Record env := mkenv {
  e_task : option tid;             (* local `task` *)
  e_fut : option fid;              (* local `fut` *)
  e_fresh : bool;                  (* no effect and no suspension since the call began *)
  e_rel : bool;                    (* event: a nested self.release() returned normally *)
  e_enq : list (tid * fid);        (* event log: items appended to self._waiters *)
  e_canc : bool                    (* the caller's cancel scope is effectively cancelled when the call begins *)
}.

Definition env_entry : env := mkenv None None true false [] false.
(* the same call made from an effectively cancelled scope (C08 clause (a)) *)
Definition env_entry_cancelled : env := mkenv None None true false [] true.
(* locals persist across an await; the continuation does not start fresh *)
Definition env_resume (t : tid) (f : option fid) : env := mkenv (Some t) f false false [] false.

Definition touch (e : env) : env := mkenv (e_task e) (e_fut e) false (e_rel e) (e_enq e) (e_canc e).

Definition set_owner (k : st_core) (o : option tid) : st_core :=
  mkc (c_fast k) o (c_waiters k) (c_futs k) (c_nfut k).
Definition set_waiters (k : st_core) (ws : list (tid * fid)) : st_core :=
  mkc (c_fast k) (c_owner k) ws (c_futs k) (c_nfut k).
Definition set_futs (k : st_core) (fu : fid -> fstate) : st_core :=
  mkc (c_fast k) (c_owner k) (c_waiters k) fu (c_nfut k).

Definition is_fcancelled (x : fstate) : bool := match x with FCancelled => true | _ => false end.

Fixpoint wl_eqb (a b : list (tid * fid)) : bool :=
  match a, b with
  | [], [] => true
  | (t, f) :: a', (t', f') :: b' => Nat.eqb t t' && Nat.eqb f f' && wl_eqb a' b'
  | _, _ => false
  end.

Fixpoint eval_cond (c : cond) (t : tid) (e : env) (k : st_core) : option bool :=
  match c with
  | COwnerNone => Some (match c_owner k with None => true | Some _ => false end)
  | CNoWaiters => Some (match c_waiters k with [] => true | _ => false end)
  | COwnerIsTask => match e_task e with Some x => Some (tid_eqb_opt (c_owner k) x) | None => None end
  | COwnerIsCurrent => Some (tid_eqb_opt (c_owner k) t)
  | CFutCancelled => match e_fut e with Some f => Some (is_fcancelled (c_futs k f)) | None => None end
  | CFast => Some (c_fast k)
  | CNot a => match eval_cond a t e k with Some b => Some (negb b) | None => None end
  | CAnd a b => match eval_cond a t e k with Some true => eval_cond b t e k | r => r end
  | COr a b => match eval_cond a t e k with Some false => eval_cond b t e k | r => r end
  end.

Definition result := (env * st_core * outcome)%type.

(* the pop loop of release(): recursion on the waiter queue; `run` interprets the loop body *)
Fixpoint poploop (run : env -> st_core -> result) (ws : list (tid * fid)) (e : env) (k : st_core) : result :=
  match ws with
  | [] => (e, k, ONext)
  | (x, f) :: r =>
      (* task, fut = self._waiters.popleft() *)
      let '(e1, k1, o) := run (mkenv (Some x) (Some f) false (e_rel e) (e_enq e) (e_canc e)) (set_waiters k r) in
      match o with
      | ONext | OContinue => if wl_eqb (c_waiters k1) r then poploop run r e1 k1 else (e1, k1, OStuck)
      | _ => (e1, k1, o)
      end
  end.

(* t = current_task() *)
Fixpoint exec (p : stmt) (t : tid) (e : env) (k : st_core) {struct p} : result :=
  match p with
  | SSkip => (e, k, ONext)
  | SSeq a b =>
      let '(e1, k1, o) := exec a t e k in
      match o with ONext => exec b t e1 k1 | _ => (e1, k1, o) end
  | SIf c a b =>
      match eval_cond c t e k with
      | Some true => exec a t e k
      | Some false => exec b t e k
      | None => (e, k, OStuck)
      end
  | SBindTask => (mkenv (Some t) (e_fut e) (e_fresh e) (e_rel e) (e_enq e) (e_canc e), k, ONext)
  | SSetOwnerTask =>
      match e_task e with
      | Some x => (touch e, set_owner k (Some x), ONext)
      | None => (e, k, OStuck)
      end
  | SSetOwnerNone => (touch e, set_owner k None, ONext)
  | SNewFut =>
      let f := c_nfut k in
      (mkenv (e_task e) (Some f) false (e_rel e) (e_enq e) (e_canc e),
       mkc (c_fast k) (c_owner k) (c_waiters k) (upd (c_futs k) f FPending) (S f), ONext)
  | SAppendItem =>
      match e_task e, e_fut e with
      | Some x, Some f =>
          (mkenv (e_task e) (e_fut e) false (e_rel e) (e_enq e ++ [(x, f)]) (e_canc e),
           set_waiters k (c_waiters k ++ [(x, f)]), ONext)
      | _, _ => (e, k, OStuck)
      end
  | SRemoveItem =>
      match e_task e, e_fut e with
      | Some x, Some f => (touch e, set_waiters k (remove_item x f (c_waiters k)), ONext)
      | _, _ => (e, k, OStuck)
      end
  | SSetResult =>
      match e_fut e with
      | Some f => (touch e, set_futs k (upd (c_futs k) f FSet), ONext)
      | None => (e, k, OStuck)
      end
  | SPopLoop body => poploop (fun e0 k0 => exec body t e0 k0) (c_waiters k) e k
  | SContinue => (e, k, OContinue)
  | SCall body =>
      (* the callee has its own locals; its events are reported to the caller's log *)
      let '(e1, k1, o) := exec body t (mkenv None None false (e_rel e) (e_enq e) (e_canc e)) k in
      match o with
      | ONext | OReturn => (mkenv (e_task e) (e_fut e) false true (e_enq e1) (e_canc e), k1, ONext)
      | ORaise x => (mkenv (e_task e) (e_fut e) false (e_rel e1) (e_enq e1) (e_canc e), k1, ORaise x)
      | _ => (e, k1, OStuck)
      end
  | SRaise x => (e, k, ORaise x)
  | SReturn => (e, k, OReturn)
  | SCkIf =>
      (* checkpoint_if_cancelled().  Caller's scope not cancelled: neither suspends nor raises.  Caller's scope
         effectively cancelled: the call does not get past this point - checkpoint_if_cancelled spins on sleep(0)
         until the delivery arrives and the cancellation exception is raised out of the call
         (C03_ckif_spin_terminates; C08_ckif_suspends_iff_effectively_cancelled); the model has no suspension point for
         it, the segment ends with OCancelled.  Both readings are only sound at the very beginning of a call: before
         any effect and before any suspension.  Anywhere else the marker is outside the model. *)
      if e_fresh e then (if e_canc e then (e, k, OCancelled) else (e, k, ONext)) else (e, k, OStuck)
  | SSuspend a =>
      match a, e_fut e with
      | AwFut, None => (e, k, OStuck)
      | _, _ => (e, k, OSuspend a)
      end
  end.

(* ---- the cancellation check comes before anything else (F53) ----
   checkpoint_if_cancelled() may YIELD and then return normally (the cancelled scope stopped being visible during the
   yield: F46).  Whatever the segment read or did before the check would then be stale when it goes on.  `ckif_first p`:
   apart from binding `task`, the check is the first statement of p and occurs nowhere else, so test and take happen
   after the only possible yield, in one await-free stretch. *)
Fixpoint no_ckif (p : stmt) : bool :=
  match p with
  | SCkIf => false
  | SSeq a b | SIf _ a b => no_ckif a && no_ckif b
  | SPopLoop b | SCall b => no_ckif b
  | _ => true
  end.

Definition ckif_first (p : stmt) : bool :=
  match p with
  | SSeq SBindTask (SSeq SCkIf r) | SSeq SCkIf r => no_ckif r
  | _ => false
  end.

(* ---- the table the translator fills ---- *)
Record prog := mkprog {
  p_acquire_entry : stmt;             (* acquire(): from the call to the first suspension / return / raise *)
  p_acquire_yield_resumed : stmt;     (* after `await cancel_shielded_checkpoint()` returned *)
  p_acquire_yield_cancelled : stmt;   (* CancelledError raised at that await *)
  p_acquire_wait_resumed : stmt;      (* after `await fut` returned *)
  p_acquire_wait_cancelled : stmt;    (* CancelledError raised at `await fut` *)
  p_acquire_nowait : stmt;
  p_release : stmt;
  p_locked : cond                     (* locked() returns this *)
}.

(* ---- ghost bookkeeping ----
   phase_of / mustc are the asyncio Task's state (where the coroutine is suspended, Task._must_cancel); held / enq
   are history variables of the observer (to whom did acquire() return, which items were ever queued).  None of
   them is state of the Lock object; they are maintained here from the events of the segment that ran. *)
Definition returned (o : outcome) : bool := match o with ONext | OReturn => true | _ => false end.

Definition res_of (o : outcome) : option res :=
  match o with
  | ONext | OReturn => Some RDone
  | OSuspend _ => Some RBlocked
  | ORaise ERuntime => Some RRuntime
  | ORaise EWouldBlock => Some RWouldBlock
  | ORaise ECancelled | OCancelled => Some RCancelled
  | OContinue | OStuck => None
  end.

Definition phase_upd (ph : tid -> phase) (t : tid) (e : env) (o : outcome) : tid -> phase :=
  match o with
  | OSuspend AwYield => upd ph t FastYield
  | OSuspend AwFut => match e_fut e with Some f => upd ph t (Waiting f) | None => ph end
  | _ => ph
  end.

(* released: a release() by t completed (top-level call or nested); acquired: an acquire call returned to t *)
Definition ghost_held (h : list tid) (t : tid) (released acquired : bool) : list tid :=
  let h1 := if released then remove_tid t h else h in
  if acquired then t :: h1 else h1.

Definition ghost_enq (q l : list (tid * fid)) : list (tid * fid) :=
  match l with [] => q | _ => q ++ l end.

Inductive call_kind := KAcquire | KRelease.

Definition lift (s : st) (t : tid) (kd : call_kind) (r : result) : st * res :=
  let '(e, k, o) := r in
  let acq := match kd with KAcquire => returned o | KRelease => false end in
  let rel := match kd with KAcquire => e_rel e | KRelease => orb (e_rel e) (returned o) end in
  (mk (c_fast k) (c_owner k) (c_waiters k) (c_futs k) (c_nfut k)
      (phase_upd (phase_of s) t e o) (mustc s)
      (ghost_held (held s) t rel acq) (ghost_enq (enq s) (e_enq e)),
   match res_of o with Some x => x | None => RRejected end).

(* the task's wake-up runs: asyncio clears _must_cancel and the coroutine is no longer suspended *)
Definition woken (s : st) (t : tid) : st := set_mustc (set_phase s t Idle) t false.

(* The Lock machine whose code transitions are the interpretation of a translated program.  Which segment runs is
   CPython's await semantics: a call runs the entry segment; a wake-up runs the `resumed` continuation of the await
   the task is suspended at, or the `cancelled` one when the awaited future was cancelled or Task._must_cancel is
   set.  Cancel is asyncio's Task.cancel(): environment, taken from the model as is. *)
Definition gstep (P : prog) (s : st) (o : op) : st * res :=
  match o with
  | AcqBegin t =>
      if negb (is_idle (phase_of s t)) then (s, RRejected) else
      lift s t KAcquire (exec (p_acquire_entry P) t env_entry (core s))
  | AcqNowait t =>
      if negb (is_idle (phase_of s t)) then (s, RRejected) else
      lift s t KAcquire (exec (p_acquire_nowait P) t env_entry (core s))
  | Release t =>
      if negb (is_idle (phase_of s t)) then (s, RRejected) else
      lift s t KRelease (exec (p_release P) t env_entry (core s))
  | Cancel t => step s (Cancel t)
  | Resume t =>
      match phase_of s t with
      | Idle => (s, RRejected)
      | FastYield =>
          let s1 := woken s t in
          lift s1 t KAcquire
            (exec (if mustc s t then p_acquire_yield_cancelled P else p_acquire_yield_resumed P)
                  t (env_resume t None) (core s1))
      | Waiting f =>
          let s1 := woken s t in
          match futs s f with
          | FPending => (s, RRejected)
          | FCancelled =>
              lift s1 t KAcquire (exec (p_acquire_wait_cancelled P) t (env_resume t (Some f)) (core s1))
          | FSet =>
              lift s1 t KAcquire
                (exec (if mustc s t then p_acquire_wait_cancelled P else p_acquire_wait_resumed P)
                      t (env_resume t (Some f)) (core s1))
          end
      end
  end.

Definition locked_obs (P : prog) (s : st) : option bool := eval_cond (p_locked P) 0 env_entry (core s).
