(* Tie T for the entry check of CapacityLimiter.acquire_on_behalf_of (QA audit: LimiterEntry had no source-level tie): the
   three things LimiterEntry.estep does to a call made in an already cancelled scope, in terms of the entry segment that
   tools/translate_prims.py regenerates from the source (LimiterGen.lim_acquire_on_behalf_of_entry, interpreter
   PrimImp.exec).
     1. the check IS the first statement of the regenerated segment; for a fresh call in a live scope the segment is its
        rest (check_first);
     2. interpreted with the caller's scope effectively cancelled the segment ends at the check with nothing touched -
        what EnterCancelled (the call suspends in the check) followed by the delivery (SpinCancel) amounts to
        (entry_cancelled_is_generated);
     3. when the check returns after its yield (SpinReturn), what runs is the interpretation of the SAME segment entered
        afresh in a live scope, on the limiter as it is then (spin_return_is_generated).
   Trusted here: that the yield of checkpoint_if_cancelled() is a suspension during which other tasks run and after which
   the check re-reads the scope chain (C08_ckif_spin_resume on the S machine; PrimImp's SCkIf has no suspension point). *)
From AV Require Import Base C10Defs C10Lib Limiter LimiterProofs LimiterThms PrimImp LimiterImp LimiterGen LimiterGenEq
  LimiterEntry LimiterEntryThms.

Theorem check_first :
  exists body, lim_acquire_on_behalf_of_entry = SSeq SCkIf body /\
    forall t l g k, l_fresh l = true -> l_canc l = false ->
      exec lim_acquire_on_behalf_of_entry t l g k = exec body t l g k.
Proof.
  eexists. split; [reflexivity|]. intros t l g k Hf Hc.
  destruct l as [lf la lb le lv fr cn]. cbn in Hf, Hc. subst. reflexivity.
Qed.

Theorem entry_cancelled_is_generated s t b : spin s t = None -> phase_of (lim s) t = Idle ->
  (exists l, exec lim_acquire_on_behalf_of_entry t (loc_entry_cancelled (Some b)) log0 (core (lim s)) =
             (l, log0, core (lim s), OCancelled)) /\
  lim (fst (estep false (fst (estep false s (EnterCancelled t b))) (SpinCancel t))) = lim s /\
  snd (estep false (fst (estep false s (EnterCancelled t b))) (SpinCancel t)) = RCancelled.
Proof.
  intros Hs Hp. split; [apply cancelled_entry_noeffect|].
  destruct (entry_cancelled_noeffect s t b Hs Hp) as (_ & _ & _ & A & B & _). split; assumption.
Qed.

Theorem spin_return_is_generated v s t b : ereach v s -> spin s t = Some b -> ckmust s t = false ->
  phase_of (lim s) t = Idle ->
  estep false s (SpinReturn t) =
  (let x := lift (lim s) t (KAcquire b)
              (exec lim_acquire_on_behalf_of_entry t (loc_entry (Some b) None) log0 (core (lim s))) in
   (unspin s (fst x) t, snd x)).
Proof.
  intros R Hs Hm Hp. rewrite (no_step_between_test_and_take v s t b R Hs Hm).
  rewrite (tie_acquire_entry (lim s) t b Hp). reflexivity.
Qed.

(* the hypothesis `phase_of (lim s) t = Idle` of spin_return_is_generated: EnterCancelled requires it and no op of a
   spinning task reaches Limiter.step, so it holds whenever t spins; it is kept as a hypothesis (not proved as an
   invariant of ereach here).  Non-vacuity: *)
Example ex_spin_return_hyp :
  let s := final (estep false) (einit (Some 1)) [EnterCancelled 1 1; L (AcqOnNowait 2 2)] in
  ereach (Some 1) s /\ spin s 1 = Some 1 /\ ckmust s 1 = false /\ phase_of (lim s) 1 = Idle /\
  snd (estep false s (SpinReturn 1)) = RBlocked /\ queue (lim (fst (estep false s (SpinReturn 1)))) = [(1, 0)].
Proof. split; [eexists; reflexivity|]. repeat split. Qed.
