(* Proofs about the Lru machine, part 2: the invariant and its preservation by the building blocks of `step`. *)
From AV Require Import Base Lru LruLockFacts LruDict LruProofs.
From AV Require Lock LockProofs.
From Coq Require Import Sorting.Sorted ZifyBool.

Record Inv (cf : cfg) (s : st) : Prop := {
  I_lp : LP cf (locks s) (phase s) (nlock s) (lkey s);
  I_nodup : NoDup (keys (dict s));
  I_sorted : StronglySorted stamp_lt (dict s);
  I_stamp : forall x, In x (dict s) -> ss x < clk s;
  I_place : forall x l, In x (dict s) -> se x = EPlace l -> l < nlock s /\ lkey s l = sk x;
  I_vdict : forall x v e, In x (dict s) -> se x = EVal v e -> In (sk x, v) (produced s);
  I_vhit : forall c k v b, phase s c = CHitCk k v b -> In (k, v) (produced s);
  I_t0 : forall c k l t0, phase s c = CLockWait k l t0 -> t0 <= now s;
  I_fresh : forall c k l t0 v e dl, phase s c = CLockWait k l t0 ->
              dget k (dict s) = Some (EVal v (Some e)) -> ttl cf = Some dl -> t0 + dl <= e;
  I_bound : f_inflight s = false ->
              (Z.of_nat (nval (dict s) + nrun cf (phase s)) <= currsize s)%Z /\
              (forall m, maxsize cf = Some m -> (currsize s <= Z.of_nat m)%Z);
  I_A : f_inflight s = false -> f_waited s = false -> forall c k l p b,
          phase s c = CInWrapped k l p b -> dget k (dict s) = Some (EPlace l);
  I_B : f_inflight s = false -> f_waited s = false -> forall c k l t0,
          phase s c = CLockWait k l t0 ->
          dget k (dict s) = Some (EPlace l) \/ exists v e, dget k (dict s) = Some (EVal v e)
}.

Ltac sm :=
  cbn [dict hits misses currsize locks nlock phase now clk lkey produced f_inflight f_waited
       set_dict set_phase set_lock set_counts bump_clk add_produced set_flags new_lock fst snd] in *.

Ltac updc c0 c Hp :=
  destruct (Nat.eq_dec c0 c) as [->|?]; [rewrite upd_same in Hp | rewrite upd_other in Hp by assumption].

(* ---------- counting running callers ---------- *)
Lemma nrun_upd cf ph c p' :
  c < ncall cf ->
  nrun cf (upd ph c p') + (if is_running (ph c) then 1 else 0) =
  nrun cf ph + (if is_running p' then 1 else 0).
Proof.
  intros Hc. unfold nrun. apply (cnt_upd is_running ph c p').
  - apply seq_NoDup.
  - apply in_seq. lia.
Qed.

Lemma nrun_idle cf ph : (forall c, c < ncall cf -> ph c = CIdle) -> nrun cf ph = 0.
Proof.
  intros H. unfold nrun. apply cnt_zero. intros x Hx. apply in_seq in Hx. rewrite H by lia. reflexivity.
Qed.

Lemma init_inv cf : Inv cf init.
Proof.
  constructor; cbn.
  - constructor; cbn.
    + intros l. apply LockProofs.inv_init.
    + intros l c He. exfalso. eapply engaged_init; eauto.
    + discriminate.
    + discriminate.
    + discriminate.
    + congruence.
  - constructor.
  - constructor.
  - tauto.
  - tauto.
  - tauto.
  - discriminate.
  - discriminate.
  - discriminate.
  - intros _. rewrite nrun_idle by reflexivity. cbn. split; [lia|]. intros m _. lia.
  - discriminate.
  - discriminate.
Qed.

(* ---------- leaf 1: the phase of c changes between phases that do not reference a lock ---------- *)
Lemma inv_phase_noref cf s c p' :
  Inv cf s -> c < ncall cf -> lockref (phase s c) = None -> lockref p' = None ->
  (forall k v b, p' = CHitCk k v b -> In (k, v) (produced s)) ->
  Inv cf (set_phase s c p').
Proof.
  intros I Hc Hold Hnew Hhit.
  assert (Hnr : is_running (phase s c) = false) by (destruct (phase s c); cbn in *; congruence).
  assert (Hnr' : is_running p' = false) by (destruct p'; cbn in *; congruence).
  constructor; sm.
  - apply LP_phase; [apply (I_lp _ _ I)| | | | |].
    + intros l He. exfalso. eapply LP_idle_not_engaged; [apply (I_lp _ _ I)|exact Hold|exact He].
    + intros; subst; discriminate.
    + intros; subst; discriminate.
    + intros k0 l0 H. congruence.
    + auto.
  - apply (I_nodup _ _ I).
  - apply (I_sorted _ _ I).
  - apply (I_stamp _ _ I).
  - apply (I_place _ _ I).
  - apply (I_vdict _ _ I).
  - intros c0 k v b Hp. updc c0 c Hp; [eauto|apply (I_vhit _ _ I _ _ _ _ Hp)].
  - intros c0 k l t0 Hp. updc c0 c Hp; [subst; discriminate|apply (I_t0 _ _ I _ _ _ _ Hp)].
  - intros c0 k l t0 v e dl Hp. updc c0 c Hp; [subst; discriminate|apply (I_fresh _ _ I _ _ _ _ _ _ _ Hp)].
  - intros Hf. destruct (I_bound _ _ I Hf) as [H1 H2]. split; [|exact H2].
    pose proof (nrun_upd cf (phase s) c p' Hc) as E. rewrite Hnr, Hnr' in E. lia.
  - intros Hf Hw c0 k l p b Hp. updc c0 c Hp; [subst; discriminate|apply (I_A _ _ I Hf Hw _ _ _ _ _ Hp)].
  - intros Hf Hw c0 k l t0 Hp. updc c0 c Hp; [subst; discriminate|apply (I_B _ _ I Hf Hw _ _ _ _ Hp)].
Qed.

(* ---------- leaf 2: pend / canc of a running caller change ---------- *)
Lemma inv_phase_running cf s c k l p b p2 b2 :
  Inv cf s -> phase s c = CInWrapped k l p b -> Inv cf (set_phase s c (CInWrapped k l p2 b2)).
Proof.
  intros I Hp0.
  assert (Hc : c < ncall cf) by (apply (L_ncall _ _ _ _ _ (I_lp _ _ I)); congruence).
  constructor; sm.
  - apply LP_phase; [apply (I_lp _ _ I)| | | | |].
    + intros l0 He. destruct (L_eng _ _ _ _ _ (I_lp _ _ I) l0 c He) as [k0 Hk]. rewrite Hp0 in Hk. cbn in *. eauto.
    + discriminate.
    + intros k0 l0 p0 b0 [= -> -> _ _]. apply (L_run _ _ _ _ _ (I_lp _ _ I) _ _ _ _ _ Hp0).
    + intros k0 l0 [= <- <-]. apply (L_ref _ _ _ _ _ (I_lp _ _ I) c). now rewrite Hp0.
    + auto.
  - apply (I_nodup _ _ I).
  - apply (I_sorted _ _ I).
  - apply (I_stamp _ _ I).
  - apply (I_place _ _ I).
  - apply (I_vdict _ _ I).
  - intros c0 k0 v b0 Hp. updc c0 c Hp; [discriminate|apply (I_vhit _ _ I _ _ _ _ Hp)].
  - intros c0 k0 l0 t0 Hp. updc c0 c Hp; [discriminate|apply (I_t0 _ _ I _ _ _ _ Hp)].
  - intros c0 k0 l0 t0 v e dl Hp. updc c0 c Hp; [discriminate|apply (I_fresh _ _ I _ _ _ _ _ _ _ Hp)].
  - intros Hf. destruct (I_bound _ _ I Hf) as [H1 H2]. split; [|exact H2].
    pose proof (nrun_upd cf (phase s) c (CInWrapped k l p2 b2) Hc) as E. rewrite Hp0 in E. cbn in E. lia.
  - intros Hf Hw c0 k0 l0 p0 b0 Hp. updc c0 c Hp.
    + injection Hp as <- <- _ _. apply (I_A _ _ I Hf Hw _ _ _ _ _ Hp0).
    + apply (I_A _ _ I Hf Hw _ _ _ _ _ Hp).
  - intros Hf Hw c0 k0 l0 t0 Hp. updc c0 c Hp; [discriminate|apply (I_B _ _ I Hf Hw _ _ _ _ Hp)].
Qed.

(* ---------- leaf 3: components the invariant does not read, or reads monotonically ---------- *)
Lemma inv_counts cf s h m : Inv cf s -> Inv cf (set_counts s h m (currsize s)).
Proof. intros I. destruct I. constructor; sm; assumption. Qed.

Lemma inv_add_produced cf s k v : Inv cf s -> Inv cf (add_produced s k v).
Proof.
  intros I. destruct I. constructor; sm; try assumption.
  - intros x v0 e Hx He. right. eauto.
  - intros c k0 v0 b Hp. right. eauto.
Qed.

Lemma inv_tick cf s :
  Inv cf s ->
  Inv cf (mk (dict s) (hits s) (misses s) (currsize s) (locks s) (nlock s) (phase s) (S (now s)) (clk s) (lkey s)
             (produced s) (f_inflight s) (f_waited s)).
Proof.
  intros I. destruct I. constructor; sm; try assumption.
  intros c k l t0 Hp. specialize (I_t1 _ _ _ _ Hp). lia.
Qed.

(* ---------- helper facts ---------- *)
Lemma waited_false cf s k c l t0 :
  waited cf s k = false -> c < ncall cf -> phase s c = CLockWait k l t0 -> False.
Proof.
  unfold waited. intros H Hc Hp.
  assert (E : existsb (fun c0 => waits_for k (phase s c0)) (seq 0 (ncall cf)) = true).
  { apply existsb_exists. exists c. split; [apply in_seq; lia|]. rewrite Hp. cbn. apply Nat.eqb_refl. }
  congruence.
Qed.

Lemma sorted_dmove k st d :
  StronglySorted stamp_lt d -> (forall y, In y d -> ss y < st) -> StronglySorted stamp_lt (dmove k st d).
Proof.
  intros Hs Hb. unfold dmove. destruct (dfind k d) as [x|]; [|exact Hs].
  apply sorted_app_last; [now apply sorted_filter|].
  intros y Hy. apply in_dremove in Hy. cbn. apply Hb, Hy.
Qed.

Lemma sorted_dstore k e st d :
  StronglySorted stamp_lt d -> (forall y, In y d -> ss y < st) -> StronglySorted stamp_lt (dstore k e st d).
Proof.
  intros Hs Hb. unfold dstore. destruct (dfind k d) as [x|]; [now apply sorted_dset_in|].
  apply sorted_app_last; [exact Hs|]. intros y Hy. cbn. now apply Hb.
Qed.

(* ---------- leaf 4: a placeholder for a key that is not in the dict ---------- *)
Lemma inv_install cf s k :
  Inv cf s -> dfind k (dict s) = None ->
  Inv cf (mk (dict s ++ [mkslot k (EPlace (nlock s)) (clk s)]) (hits s) (misses s) (currsize s)
             (upd (locks s) (nlock s) (Lock.init (negb (ackpt cf)))) (S (nlock s)) (phase s) (now s)
             (S (clk s)) (upd (lkey s) (nlock s) k) (produced s) (f_inflight s) (f_waited s)).
Proof.
  intros I Hnone. pose proof (dget_none_find _ _ Hnone) as Hg. constructor; sm.
  - apply LP_newlock, (I_lp _ _ I).
  - apply nodup_app_one; [apply (I_nodup _ _ I)|now apply dfind_none_keys].
  - apply sorted_app_last; [apply (I_sorted _ _ I)|]. intros y Hy. cbn. apply (I_stamp _ _ I), Hy.
  - intros x Hx. apply in_app_or in Hx. destruct Hx as [Hx|[<-|[]]]; [|cbn; lia].
    pose proof (I_stamp _ _ I x Hx). lia.
  - intros x l Hx He. apply in_app_or in Hx. destruct Hx as [Hx|[<-|[]]].
    + destruct (I_place _ _ I x l Hx He) as [H1 H2]. split; [lia|]. rewrite upd_other; [exact H2|lia].
    + cbn in *. injection He as <-. split; [lia|apply upd_same].
  - intros x v e Hx He. apply in_app_or in Hx. destruct Hx as [Hx|[<-|[]]]; [|discriminate].
    apply (I_vdict _ _ I x v e Hx He).
  - apply (I_vhit _ _ I).
  - apply (I_t0 _ _ I).
  - intros c k0 l t0 v e dl Hp Hd. rewrite dget_app in Hd.
    destruct (dget k0 (dict s)) eqn:E; [injection Hd as ->; apply (I_fresh _ _ I _ _ _ _ _ _ _ Hp E)|].
    destruct (Nat.eqb k k0); discriminate.
  - intros Hf. destruct (I_bound _ _ I Hf) as [H1 H2]. split; [|exact H2].
    rewrite nval_app. unfold is_val. cbn. lia.
  - intros Hf Hw c k0 l p b Hp. rewrite dget_app, (I_A _ _ I Hf Hw _ _ _ _ _ Hp). reflexivity.
  - intros Hf Hw c k0 l t0 Hp. rewrite dget_app.
    destruct (I_B _ _ I Hf Hw _ _ _ _ Hp) as [H|(v & e & H)]; rewrite H; eauto.
Qed.

(* ---------- leaf 5: an expired value is replaced by a placeholder ---------- *)
Lemma inv_expire cf s k x v exp :
  Inv cf s -> dfind k (dict s) = Some x -> se x = EVal v exp ->
  Inv cf (mk (dset_in k (EPlace (nlock s)) (dict s)) (hits s) (misses s) (currsize s - 1)%Z
             (upd (locks s) (nlock s) (Lock.init (negb (ackpt cf)))) (S (nlock s)) (phase s) (now s)
             (clk s) (upd (lkey s) (nlock s) k) (produced s) (f_inflight s)
             (orb (f_waited s) (waited cf s k))).
Proof.
  intros I Hfind Hse. pose proof (dget_find _ _ _ Hfind) as Hg. rewrite Hse in Hg.
  constructor; sm.
  - apply LP_newlock, (I_lp _ _ I).
  - rewrite keys_dset_in. apply (I_nodup _ _ I).
  - apply sorted_dset_in, (I_sorted _ _ I).
  - intros y Hy. apply in_dset_in in Hy. destruct Hy as [Hy|(z & Hz & _ & ->)]; [apply (I_stamp _ _ I), Hy|].
    cbn. apply (I_stamp _ _ I), Hz.
  - intros y l Hy He. apply in_dset_in in Hy. destruct Hy as [Hy|(z & Hz & Hk & ->)].
    + destruct (I_place _ _ I y l Hy He) as [H1 H2]. split; [lia|]. rewrite upd_other; [exact H2|lia].
    + cbn in *. injection He as <-. split; [lia|apply upd_same].
  - intros y v0 e Hy He. apply in_dset_in in Hy. destruct Hy as [Hy|(z & Hz & Hk & ->)]; [|discriminate].
    apply (I_vdict _ _ I y v0 e Hy He).
  - apply (I_vhit _ _ I).
  - apply (I_t0 _ _ I).
  - intros c k0 l t0 v0 e dl Hp Hd. rewrite dget_dset_in in Hd.
    destruct (Nat.eqb k0 k); [rewrite Hg in Hd; discriminate|]. apply (I_fresh _ _ I _ _ _ _ _ _ _ Hp Hd).
  - intros Hf. destruct (I_bound _ _ I Hf) as [H1 H2]. split.
    + assert (Hv : is_val x = true) by (unfold is_val; now rewrite Hse).
      pose proof (nval_dset_in_place k (nlock s) (dict s) x Hfind Hv). lia.
    + intros m Hm. specialize (H2 m Hm). lia.
  - intros Hf Hw c k0 l p b Hp. apply orb_false_elim in Hw. destruct Hw as [Hw1 Hw2].
    pose proof (I_A _ _ I Hf Hw1 _ _ _ _ _ Hp) as HA. rewrite dget_dset_in.
    destruct (Nat.eqb_spec k0 k) as [->|N]; [congruence|exact HA].
  - intros Hf Hw c k0 l t0 Hp. apply orb_false_elim in Hw. destruct Hw as [Hw1 Hw2].
    rewrite dget_dset_in. destruct (Nat.eqb_spec k0 k) as [->|N].
    + exfalso. eapply waited_false; [exact Hw2| |exact Hp].
      apply (L_ncall _ _ _ _ _ (I_lp _ _ I)). congruence.
    + apply (I_B _ _ I Hf Hw1 _ _ _ _ Hp).
Qed.

(* ---------- leaf 6: move_to_end ---------- *)
Lemma inv_touch cf s k h m :
  Inv cf s ->
  Inv cf (mk (dmove k (clk s) (dict s)) h m (currsize s) (locks s) (nlock s) (phase s) (now s) (S (clk s))
             (lkey s) (produced s) (f_inflight s) (f_waited s)).
Proof.
  intros I. constructor; sm.
  - apply (I_lp _ _ I).
  - apply nodup_dmove, (I_nodup _ _ I).
  - apply sorted_dmove; [apply (I_sorted _ _ I)|apply (I_stamp _ _ I)].
  - intros y Hy. apply in_dmove in Hy. destruct Hy as [Hy|(z & Hz & _ & ->)]; [|cbn; lia].
    pose proof (I_stamp _ _ I y Hy). lia.
  - intros y l Hy He. apply in_dmove in Hy. destruct Hy as [Hy|(z & Hz & Hk & ->)].
    + apply (I_place _ _ I y l Hy He).
    + cbn in *. rewrite <- Hk. apply (I_place _ _ I z l Hz He).
  - intros y v e Hy He. apply in_dmove in Hy. destruct Hy as [Hy|(z & Hz & Hk & ->)].
    + apply (I_vdict _ _ I y v e Hy He).
    + cbn in *. rewrite <- Hk. apply (I_vdict _ _ I z v e Hz He).
  - apply (I_vhit _ _ I).
  - apply (I_t0 _ _ I).
  - intros c k0 l t0 v e dl Hp Hd. rewrite dget_dmove in Hd. apply (I_fresh _ _ I _ _ _ _ _ _ _ Hp Hd).
  - intros Hf. destruct (I_bound _ _ I Hf) as [H1 H2]. split; [|exact H2].
    pose proof (nval_dmove k (clk s) (dict s)). lia.
  - intros Hf Hw c k0 l p b Hp. rewrite dget_dmove. apply (I_A _ _ I Hf Hw _ _ _ _ _ Hp).
  - intros Hf Hw c k0 l t0 Hp. rewrite dget_dmove. apply (I_B _ _ I Hf Hw _ _ _ _ Hp).
Qed.

(* ---------- leaf 7: a lock operation by a caller suspended in acquire() that stays there ---------- *)
Lemma inv_lock_only cf s c k l t0 o :
  Inv cf s -> phase s c = CLockWait k l t0 -> op_tid o = c ->
  engaged (fst (Lock.step (locks s l) o)) c ->
  Inv cf (set_lock s l (fst (Lock.step (locks s l) o))).
Proof.
  intros I Hp Ho He.
  assert (HL : LP cf (upd (locks s) l (fst (Lock.step (locks s l) o))) (phase s) (nlock s) (lkey s)).
  { apply LP_ext with (ph := upd (phase s) c (phase s c)).
    - intros c0. destruct (Nat.eq_dec c0 c) as [->|N]; [now rewrite upd_same|now rewrite upd_other].
    - apply LP_update; [apply (I_lp _ _ I)| | | | | | | |].
      + apply LockProofs.step_inv, (L_inv _ _ _ _ _ (I_lp _ _ I)).
      + intros c' N. apply (LP_step_other _ _ _ _ _ l o (I_lp _ _ I)). congruence.
      + rewrite Hp. cbn. intros k0 l0 [= _ <-]. reflexivity.
      + intros _. rewrite Hp. cbn. eauto.
      + rewrite Hp. intros k0 l0 t1 [= _ <- _]. auto.
      + rewrite Hp. discriminate.
      + apply (L_ref _ _ _ _ _ (I_lp _ _ I) c).
      + intros _. apply (L_ncall _ _ _ _ _ (I_lp _ _ I)). congruence. }
  destruct I. constructor; sm; assumption.
Qed.

(* ---------- leaf 8: an idle caller enters `async with lock` of the entry it has just looked up ---------- *)
Lemma inv_mark cf s c k l :
  Inv cf s -> phase s c = CIdle -> c < ncall cf -> dget k (dict s) = Some (EPlace l) ->
  l < nlock s -> lkey s l = k ->
  engaged (fst (Lock.step (locks s l) (Lock.AcqBegin c))) c ->
  Inv cf (set_lock (set_phase s c (CLockWait k l (now s))) l (fst (Lock.step (locks s l) (Lock.AcqBegin c)))).
Proof.
  intros I Hp Hc Hd Hl Hk He. constructor; sm.
  - apply LP_update; [apply (I_lp _ _ I)| | | | | | | |].
    + apply LockProofs.step_inv, (L_inv _ _ _ _ _ (I_lp _ _ I)).
    + intros c' N. apply (LP_step_other _ _ _ _ _ l (Lock.AcqBegin c) (I_lp _ _ I)). exact N.
    + rewrite Hp. discriminate.
    + intros _. cbn. eauto.
    + intros k0 l0 t1 [= _ <- _]. auto.
    + discriminate.
    + cbn. intros k0 l0 [= <- <-]. auto.
    + auto.
  - apply (I_nodup _ _ I).
  - apply (I_sorted _ _ I).
  - apply (I_stamp _ _ I).
  - apply (I_place _ _ I).
  - apply (I_vdict _ _ I).
  - intros c0 k0 v b H. updc c0 c H; [discriminate|apply (I_vhit _ _ I _ _ _ _ H)].
  - intros c0 k0 l0 t1 H. updc c0 c H; [injection H as _ _ <-; lia|apply (I_t0 _ _ I _ _ _ _ H)].
  - intros c0 k0 l0 t1 v e dl H Hg. updc c0 c H; [injection H as <- _ _; congruence|].
    apply (I_fresh _ _ I _ _ _ _ _ _ _ H Hg).
  - intros Hf. destruct (I_bound _ _ I Hf) as [H1 H2]. split; [|exact H2].
    pose proof (nrun_upd cf (phase s) c (CLockWait k l (now s)) Hc) as E. rewrite Hp in E. cbn in E. lia.
  - intros Hf Hw c0 k0 l0 p b H. updc c0 c H; [discriminate|apply (I_A _ _ I Hf Hw _ _ _ _ _ H)].
  - intros Hf Hw c0 k0 l0 t1 H. updc c0 c H; [injection H as <- <- _; now left|].
    apply (I_B _ _ I Hf Hw _ _ _ _ H).
Qed.

(* ---------- leaf 9: a caller leaves its call (cancelled while waiting, KeyError, failure, re-read hit) ---------- *)
Lemma LP_out cf s c k l o :
  Inv cf s -> lockref (phase s c) = Some (k, l) -> op_tid o = c ->
  ~ engaged (fst (Lock.step (locks s l) o)) c ->
  LP cf (upd (locks s) l (fst (Lock.step (locks s l) o))) (upd (phase s) c CIdle) (nlock s) (lkey s).
Proof.
  intros I Hp Ho He.
  apply LP_update; [apply (I_lp _ _ I)| | | | | | | |].
  - apply LockProofs.step_inv, (L_inv _ _ _ _ _ (I_lp _ _ I)).
  - intros c' N. apply (LP_step_other _ _ _ _ _ l o (I_lp _ _ I)). congruence.
  - rewrite Hp. intros k0 l0 [= _ <-]. reflexivity.
  - intros H. contradiction.
  - discriminate.
  - discriminate.
  - discriminate.
  - congruence.
Qed.

Lemma inv_out cf s c k l o :
  Inv cf s -> lockref (phase s c) = Some (k, l) -> op_tid o = c ->
  ~ engaged (fst (Lock.step (locks s l) o)) c ->
  Inv cf (set_phase (set_lock s l (fst (Lock.step (locks s l) o))) c CIdle).
Proof.
  intros I Hp Ho He.
  assert (Hc : c < ncall cf) by (apply (L_ncall _ _ _ _ _ (I_lp _ _ I)); destruct (phase s c); cbn in *; congruence).
  constructor; sm.
  - eapply LP_out; eauto.
  - apply (I_nodup _ _ I).
  - apply (I_sorted _ _ I).
  - apply (I_stamp _ _ I).
  - apply (I_place _ _ I).
  - apply (I_vdict _ _ I).
  - intros c0 k0 v b H. updc c0 c H; [discriminate|apply (I_vhit _ _ I _ _ _ _ H)].
  - intros c0 k0 l0 t1 H. updc c0 c H; [discriminate|apply (I_t0 _ _ I _ _ _ _ H)].
  - intros c0 k0 l0 t1 v e dl H. updc c0 c H; [discriminate|apply (I_fresh _ _ I _ _ _ _ _ _ _ H)].
  - intros Hf. destruct (I_bound _ _ I Hf) as [H1 H2]. split; [|exact H2].
    pose proof (nrun_upd cf (phase s) c CIdle Hc) as E. cbn in E. destruct (is_running (phase s c)); lia.
  - intros Hf Hw c0 k0 l0 p b H. updc c0 c H; [discriminate|apply (I_A _ _ I Hf Hw _ _ _ _ _ H)].
  - intros Hf Hw c0 k0 l0 t1 H. updc c0 c H; [discriminate|apply (I_B _ _ I Hf Hw _ _ _ _ H)].
Qed.

(* ---------- leaf 10: the miss bookkeeping (lines 199-203), after which the wrapped function runs ---------- *)
Lemma LP_to_running cf s c k l t0 :
  Inv cf s -> phase s c = CLockWait k l t0 -> In c (Lock.held (locks s l)) ->
  LP cf (locks s) (upd (phase s) c (CInWrapped k l None false)) (nlock s) (lkey s).
Proof.
  intros I Hp Hh. apply LP_phase; [apply (I_lp _ _ I)| | | | |].
  - intros l0 He. destruct (L_eng _ _ _ _ _ (I_lp _ _ I) l0 c He) as [k0 Hk]. rewrite Hp in Hk. cbn in *. eauto.
  - discriminate.
  - intros k0 l0 p b [= _ <- _ _]. exact Hh.
  - cbn. intros k0 l0 [= <- <-]. apply (L_ref _ _ _ _ _ (I_lp _ _ I) c). now rewrite Hp.
  - intros _. apply (L_ncall _ _ _ _ _ (I_lp _ _ I)). congruence.
Qed.

Lemma own_place cf s c k l t0 l' :
  Inv cf s -> phase s c = CLockWait k l t0 -> dget k (dict s) = Some (EPlace l') ->
  f_inflight s = false -> f_waited s = false -> l' = l.
Proof.
  intros I Hp Hd Hf Hw. destruct (I_B _ _ I Hf Hw _ _ _ _ Hp) as [H|(v & e & H)]; congruence.
Qed.

Lemma inv_miss_noevict cf s c k l t0 l' :
  Inv cf s -> phase s c = CLockWait k l t0 -> In c (Lock.held (locks s l)) ->
  dget k (dict s) = Some (EPlace l') -> full cf s = false ->
  Inv cf (mk (dict s) (hits s) (S (misses s)) (currsize s + 1)%Z (locks s) (nlock s)
             (upd (phase s) c (CInWrapped k l None false)) (now s) (clk s) (lkey s) (produced s)
             (f_inflight s) (f_waited s)).
Proof.
  intros I Hp Hh Hd Hfull.
  assert (Hc : c < ncall cf) by (apply (L_ncall _ _ _ _ _ (I_lp _ _ I)); congruence).
  constructor; sm.
  - eapply LP_to_running; eauto.
  - apply (I_nodup _ _ I).
  - apply (I_sorted _ _ I).
  - apply (I_stamp _ _ I).
  - apply (I_place _ _ I).
  - apply (I_vdict _ _ I).
  - intros c0 k0 v b H. updc c0 c H; [discriminate|apply (I_vhit _ _ I _ _ _ _ H)].
  - intros c0 k0 l0 t1 H. updc c0 c H; [discriminate|apply (I_t0 _ _ I _ _ _ _ H)].
  - intros c0 k0 l0 t1 v e dl H. updc c0 c H; [discriminate|apply (I_fresh _ _ I _ _ _ _ _ _ _ H)].
  - intros Hf. destruct (I_bound _ _ I Hf) as [H1 H2].
    pose proof (nrun_upd cf (phase s) c (CInWrapped k l None false) Hc) as E. rewrite Hp in E. cbn in E.
    split; [lia|]. intros m Hm. unfold full in Hfull. rewrite Hm in Hfull. lia.
  - intros Hf Hw c0 k0 l0 p b H. updc c0 c H.
    + injection H as <- <- _ _. rewrite Hd. f_equal. f_equal. eapply own_place; eauto.
    + apply (I_A _ _ I Hf Hw _ _ _ _ _ H).
  - intros Hf Hw c0 k0 l0 t1 H. updc c0 c H; [discriminate|apply (I_B _ _ I Hf Hw _ _ _ _ H)].
Qed.

Lemma inv_miss_evict cf s c k l t0 l' x0 r :
  Inv cf s -> phase s c = CLockWait k l t0 -> In c (Lock.held (locks s l)) ->
  dget k (dict s) = Some (EPlace l') -> dict s = x0 :: r ->
  Inv cf (mk r (hits s) (S (misses s)) (currsize s) (locks s) (nlock s)
             (upd (phase s) c (CInWrapped k l None false)) (now s) (clk s) (lkey s) (produced s)
             (orb (f_inflight s) (is_place (se x0)))
             (orb (f_waited s) (andb (negb (is_place (se x0))) (waited cf s (sk x0))))).
Proof.
  intros I Hp Hh Hd Hdict.
  assert (Hc : c < ncall cf) by (apply (L_ncall _ _ _ _ _ (I_lp _ _ I)); congruence).
  pose proof (I_nodup _ _ I) as Hnd. rewrite Hdict in Hnd, Hd.
  assert (Hsub : forall y, In y r -> In y (dict s)) by (intros y Hy; rewrite Hdict; now right).
  assert (Hflags : orb (f_inflight s) (is_place (se x0)) = false ->
                   orb (f_waited s) (andb (negb (is_place (se x0))) (waited cf s (sk x0))) = false ->
                   f_inflight s = false /\ f_waited s = false /\ is_place (se x0) = false /\
                   waited cf s (sk x0) = false).
  { intros H1 H2. apply orb_false_elim in H1. destruct H1 as [H1 H1']. apply orb_false_elim in H2.
    destruct H2 as [H2 H2']. rewrite H1' in H2'. cbn in H2'. auto. }
  constructor; sm.
  - eapply LP_to_running; eauto.
  - now inversion Hnd.
  - pose proof (I_sorted _ _ I) as H. rewrite Hdict in H. now inversion H.
  - intros y Hy. apply (I_stamp _ _ I), Hsub, Hy.
  - intros y l0 Hy. apply (I_place _ _ I), Hsub, Hy.
  - intros y v e Hy. apply (I_vdict _ _ I), Hsub, Hy.
  - intros c0 k0 v b H. updc c0 c H; [discriminate|apply (I_vhit _ _ I _ _ _ _ H)].
  - intros c0 k0 l0 t1 H. updc c0 c H; [discriminate|apply (I_t0 _ _ I _ _ _ _ H)].
  - intros c0 k0 l0 t1 v e dl H Hg Ht. updc c0 c H; [discriminate|].
    destruct (dget_tl_cases k0 x0 r Hnd) as [E|E]; [|congruence].
    apply (I_fresh _ _ I _ _ _ _ v e dl H); [rewrite Hdict, <- E; exact Hg|exact Ht].
  - intros Hf. apply orb_false_elim in Hf. destruct Hf as [Hf Hpl].
    destruct (I_bound _ _ I Hf) as [H1 H2]. split; [|exact H2].
    pose proof (nrun_upd cf (phase s) c (CInWrapped k l None false) Hc) as E. rewrite Hp in E. cbn in E.
    rewrite Hdict, nval_cons in H1. unfold is_val in H1. rewrite Hpl in H1. cbn in H1. lia.
  - intros Hf Hw. destruct (Hflags Hf Hw) as (Hf0 & Hw0 & Hpl & Hwt).
    intros c0 k0 l0 p b H. updc c0 c H.
    + injection H as <- <- _ _.
      assert (Hne : sk x0 <> k).
      { intros E. rewrite dget_cons, E, Nat.eqb_refl in Hd. injection Hd as Hd. rewrite Hd in Hpl. discriminate. }
      rewrite (dget_tl k x0 r Hne), Hd. f_equal. f_equal.
      eapply own_place; eauto. rewrite Hdict. exact Hd.
    + pose proof (I_A _ _ I Hf0 Hw0 _ _ _ _ _ H) as HA. rewrite Hdict in HA.
      assert (Hne : sk x0 <> k0).
      { intros E. rewrite dget_cons, E, Nat.eqb_refl in HA. injection HA as HA. rewrite HA in Hpl. discriminate. }
      now rewrite (dget_tl k0 x0 r Hne).
  - intros Hf Hw. destruct (Hflags Hf Hw) as (Hf0 & Hw0 & Hpl & Hwt).
    intros c0 k0 l0 t1 H. updc c0 c H; [discriminate|].
    assert (Hne : sk x0 <> k0).
    { intros E. subst k0. eapply waited_false; [exact Hwt| |exact H].
      apply (L_ncall _ _ _ _ _ (I_lp _ _ I)). congruence. }
    rewrite (dget_tl k0 x0 r Hne), <- Hdict. apply (I_B _ _ I Hf0 Hw0 _ _ _ _ H).
Qed.

(* ---------- leaf 11: the wrapped function returned: store, release, return (lines 205-209, 216) ---------- *)
Lemma inv_store_out cf s c k l v :
  Inv cf s -> phase s c = CInWrapped k l (Some (WRet v)) false ->
  Inv cf (mk (dstore k (EVal v (new_exp cf (now s))) (clk s) (dict s)) (hits s) (misses s) (currsize s)
             (upd (locks s) l (fst (Lock.step (locks s l) (Lock.Release c)))) (nlock s)
             (upd (phase s) c CIdle) (now s) (S (clk s)) (lkey s) ((k, v) :: produced s)
             (f_inflight s) (f_waited s)).
Proof.
  intros I Hp.
  assert (Hc : c < ncall cf) by (apply (L_ncall _ _ _ _ _ (I_lp _ _ I)); congruence).
  pose proof (L_run _ _ _ _ _ (I_lp _ _ I) _ _ _ _ _ Hp) as Hh.
  constructor; sm.
  - apply (LP_out cf s c k l (Lock.Release c) I); [now rewrite Hp|reflexivity|].
    apply release_holder; [apply (L_inv _ _ _ _ _ (I_lp _ _ I))|exact Hh].
  - apply nodup_dstore, (I_nodup _ _ I).
  - apply sorted_dstore; [apply (I_sorted _ _ I)|apply (I_stamp _ _ I)].
  - intros y Hy. apply in_dstore in Hy. destruct Hy as [Hy|(_ & _ & [E|(z & Hz & E)])].
    + pose proof (I_stamp _ _ I y Hy). lia.
    + lia.
    + pose proof (I_stamp _ _ I z Hz). lia.
  - intros y l0 Hy He. apply in_dstore in Hy. destruct Hy as [Hy|(_ & E & _)]; [|congruence].
    apply (I_place _ _ I y l0 Hy He).
  - intros y v0 e Hy He. apply in_dstore in Hy. destruct Hy as [Hy|(E1 & E2 & _)].
    + right. apply (I_vdict _ _ I y v0 e Hy He).
    + left. rewrite E2 in He. injection He as <- _. now rewrite E1.
  - intros c0 k0 v0 b H. updc c0 c H; [discriminate|]. right. apply (I_vhit _ _ I _ _ _ _ H).
  - intros c0 k0 l0 t1 H. updc c0 c H; [discriminate|apply (I_t0 _ _ I _ _ _ _ H)].
  - intros c0 k0 l0 t1 v0 e dl H Hg Ht. updc c0 c H; [discriminate|].
    rewrite dget_dstore in Hg. destruct (Nat.eqb_spec k0 k) as [->|N].
    + injection Hg as _ Hg. unfold new_exp in Hg. rewrite Ht in Hg. injection Hg as <-.
      pose proof (I_t0 _ _ I _ _ _ _ H). lia.
    + apply (I_fresh _ _ I _ _ _ _ _ _ _ H Hg Ht).
  - intros Hf. destruct (I_bound _ _ I Hf) as [H1 H2]. split; [|exact H2].
    pose proof (nrun_upd cf (phase s) c CIdle Hc) as E. rewrite Hp in E. cbn in E.
    pose proof (nval_dstore k (EVal v (new_exp cf (now s))) (clk s) (dict s)). lia.
  - intros Hf Hw c0 k0 l0 p b H. updc c0 c H; [discriminate|].
    pose proof (I_A _ _ I Hf Hw _ _ _ _ _ H) as HA. rewrite dget_dstore.
    destruct (Nat.eqb_spec k0 k) as [->|N]; [|exact HA]. exfalso.
    pose proof (I_A _ _ I Hf Hw _ _ _ _ _ Hp) as HA'. assert (l0 = l) by congruence. subst l0.
    pose proof (L_run _ _ _ _ _ (I_lp _ _ I) _ _ _ _ _ H) as Hh0.
    pose proof (held_unique _ _ _ (L_inv _ _ _ _ _ (I_lp _ _ I) l) Hh0 Hh). contradiction.
  - intros Hf Hw c0 k0 l0 t1 H. updc c0 c H; [discriminate|].
    rewrite dget_dstore. destruct (Nat.eqb_spec k0 k) as [->|N]; [right; eauto|].
    apply (I_B _ _ I Hf Hw _ _ _ _ H).
Qed.

(* ---------- leaf 12: cache_clear() with no call in progress ---------- *)
Lemma all_idle_phase cf s : Inv cf s -> all_idle cf s = true -> forall c, phase s c = CIdle.
Proof.
  intros I H c. unfold all_idle in H. rewrite forallb_forall in H.
  destruct (phase s c) eqn:E; [reflexivity| | | |];
    (assert (Hc : c < ncall cf) by (apply (L_ncall _ _ _ _ _ (I_lp _ _ I)); congruence);
     assert (Hin : In c (seq 0 (ncall cf))) by (apply in_seq; lia);
     specialize (H c Hin); rewrite E in H; discriminate).
Qed.

Lemma inv_clear cf s :
  Inv cf s -> all_idle cf s = true ->
  Inv cf (mk [] 0 0 0%Z (locks s) (nlock s) (phase s) (now s) (clk s) (lkey s) (produced s)
             (f_inflight s) (f_waited s)).
Proof.
  intros I H. pose proof (all_idle_phase cf s I H) as Hid. constructor; sm.
  - apply (I_lp _ _ I).
  - constructor.
  - constructor.
  - intros x [].
  - intros x l [].
  - intros x v e [].
  - apply (I_vhit _ _ I).
  - apply (I_t0 _ _ I).
  - intros c k l t0 v e dl Hp. rewrite Hid in Hp. discriminate.
  - intros _. rewrite nrun_idle by (intros; apply Hid). cbn. split; [lia|]. intros m _. lia.
  - intros _ _ c k l p b Hp. rewrite Hid in Hp. discriminate.
  - intros _ _ c k l t0 Hp. rewrite Hid in Hp. discriminate.
Qed.
