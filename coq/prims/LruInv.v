(* Proofs about the Lru machine, part 2: the structural invariant (Inv1) and its preservation by the building
   blocks of `step`.  The counting invariant (Inv2) is in LruCount.v. *)
From AV Require Import Base Lru LruLockFacts LruDict LruProofs.
From AV Require Lock LockProofs.
From Coq Require Import Sorting.Sorted ZifyBool.

Definition is_bypass (p : cphase) : bool := match p with CBypass _ _ _ => true | _ => false end.

Record Inv1 (cf : cfg) (s : st) : Prop := {
  I_lp : LP cf (locks s) (phase s) (nlock s) (lkey s);
  I_nodup : forall g, NoDup (keys (dicts s g));
  I_sorted : forall g, StronglySorted stamp_lt (dicts s g);
  I_stamp : forall g x, In x (dicts s g) -> ss x < clk s;
  I_place : forall g x l b, In x (dicts s g) -> se x = EPlace l b -> l < nlock s /\ lkey s l = sk x;
  I_vdict : forall g x v e, In x (dicts s g) -> se x = EVal v e -> In (sk x, v) (produced s);
  I_vhit : forall c k v b, phase s c = CHitCk k v b -> In (k, v) (produced s);
  I_t0 : forall c k l t0 g, phase s c = CLockWait k l t0 g -> t0 <= now s;
  I_fresh : forall c k l t0 g v e dl, phase s c = CLockWait k l t0 g ->
              dget k (dicts s g) = Some (EVal v (Some e)) -> ttl cf = Some dl -> t0 + dl <= e;
  I_byp : forall c, is_bypass (phase s c) = true -> is_zero_max cf = true;
  I_nobyp : forall c k l, lockref (phase s c) = Some (k, l) -> is_zero_max cf = false;
  I_gen : f_phantom s = false -> forall c g, dictgen (phase s c) = Some g -> g = cur s;
  I_le : forall c g, dictgen (phase s c) = Some g -> g <= cur s;
  I_A : f_inflight s = false -> f_waited s = false -> forall c k l p b g,
          phase s c = CInWrapped k l p b g -> dget k (dicts s g) = Some (EPlace l true);
  I_B : f_inflight s = false -> f_waited s = false -> forall c k l t0 g,
          phase s c = CLockWait k l t0 g ->
          (exists b, dget k (dicts s g) = Some (EPlace l b)) \/ exists v e, dget k (dicts s g) = Some (EVal v e)
}.

Ltac sm :=
  unfold dict, f_inflight, f_waited, f_uncounted, f_dead, f_phantom, f_bypass2 in *;
  cbn [dicts cur has_dict hits misses currsize locks nlock phase now clk lkey produced fl
       fl_inflight fl_waited fl_uncounted fl_dead fl_phantom fl_bypass2
       fl_or_inflight fl_or_waited fl_or_uncounted fl_or_dead fl_or_phantom fl_or_bypass2
       set_dict set_phase set_lock set_counts bump_clk add_produced set_fl set_has_dict new_lock fst snd] in *.

Ltac updc c0 c Hp :=
  destruct (Nat.eq_dec c0 c) as [->|?]; [rewrite upd_same in Hp | rewrite upd_other in Hp by assumption].

(* case split on a generation against the one that changes *)
Ltac updg g0 g :=
  destruct (Nat.eq_dec g0 g) as [->|?]; [rewrite ?upd_same in * | rewrite ?upd_other in * by assumption].

Lemma init_inv1 cf : Inv1 cf init.
Proof.
  constructor; cbn; try discriminate; try tauto.
  - constructor; cbn.
    + intros l. apply LockProofs.inv_init.
    + intros l c He. exfalso. eapply engaged_init; eauto.
    + discriminate.
    + discriminate.
    + discriminate.
    + congruence.
  - constructor.
  - constructor.
Qed.

(* a state that differs only in components the invariant does not read (hits, misses, has_dict, fl_bypass2) or
   reads monotonically *)
Lemma inv1_same cf s s' :
  Inv1 cf s ->
  (forall g, dicts s' g = dicts s g) -> cur s' = cur s -> locks s' = locks s -> nlock s' = nlock s ->
  (forall c, phase s' c = phase s c) ->
  now s' = now s -> clk s' = clk s -> lkey s' = lkey s -> produced s' = produced s ->
  (f_inflight s' = false -> f_inflight s = false) -> (f_waited s' = false -> f_waited s = false) ->
  (f_phantom s' = false -> f_phantom s = false) ->
  Inv1 cf s'.
Proof.
  intros I E1 E2 E3 E4 E5 E6 E7 E8 E9 F1 F2 F3. destruct I.
  constructor; rewrite ?E2, ?E3, ?E4, ?E6, ?E7, ?E8, ?E9.
  1: { eapply LP_ext; [|eassumption]. exact E5. }
  1: { intros g. rewrite E1. apply I_nodup0. }
  1: { intros g. rewrite E1. apply I_sorted0. }
  1: { intros g. rewrite E1. apply I_stamp0. }
  1: { intros g. rewrite E1. apply I_place0. }
  1: { intros g. rewrite E1. apply I_vdict0. }
  1: { intros c. rewrite E5. apply I_vhit0. }
  1: { intros c. rewrite E5. apply I_t1. }
  1: { intros c k l t0 g. rewrite E5, E1. apply I_fresh0. }
  1: { intros c. rewrite E5. apply I_byp0. }
  1: { intros c. rewrite E5. apply I_nobyp0. }
  1: { intros Hf c. rewrite E5. apply I_gen0. auto. }
  1: { intros c. rewrite E5. apply I_le0. }
  1: { intros Hf Hw c k l p b g. rewrite E5, E1. apply I_A0; auto. }
  intros Hf Hw c k l t0 g. rewrite E5, E1. apply I_B0; auto.
Qed.

Ltac same_of I := apply (inv1_same _ _ _ I); sm; try reflexivity; try (intros H; exact H).

Lemma inv1_counts cf s h m cs : Inv1 cf s -> Inv1 cf (set_counts s h m cs).
Proof. intros I. same_of I. Qed.

Lemma inv1_has_dict cf s : Inv1 cf s -> Inv1 cf (set_has_dict s).
Proof. intros I. same_of I. Qed.

Lemma inv1_fl cf s f :
  Inv1 cf s ->
  (fl_inflight f = false -> f_inflight s = false) -> (fl_waited f = false -> f_waited s = false) ->
  (fl_phantom f = false -> f_phantom s = false) ->
  Inv1 cf (set_fl s f).
Proof. intros I H1 H2 H3. apply (inv1_same _ _ _ I); sm; auto. Qed.

Lemma inv1_add_produced cf s k v : Inv1 cf s -> Inv1 cf (add_produced s k v).
Proof.
  intros I. destruct I. constructor; sm; try assumption.
  - intros g x v0 e Hx He. right. eauto.
  - intros c k0 v0 b Hp. right. eauto.
Qed.

Lemma inv1_tick cf s :
  Inv1 cf s ->
  Inv1 cf (mk (dicts s) (cur s) (has_dict s) (hits s) (misses s) (currsize s) (locks s) (nlock s) (phase s)
              (S (now s)) (clk s) (lkey s) (produced s) (fl s)).
Proof.
  intros I. destruct I. constructor; sm; try assumption.
  intros c k l t0 g Hp. specialize (I_t1 _ _ _ _ _ Hp). lia.
Qed.

(* ---------- leaf 1: the phase of c changes between phases that reference neither a lock nor a dict ---------- *)
Lemma inv1_phase_noref cf s c p' :
  Inv1 cf s -> c < ncall cf -> lockref (phase s c) = None -> lockref p' = None ->
  (forall k v b, p' = CHitCk k v b -> In (k, v) (produced s)) ->
  (is_bypass p' = true -> is_zero_max cf = true) ->
  Inv1 cf (set_phase s c p').
Proof.
  intros I Hc Hold Hnew Hhit Hbyp.
  assert (Hg' : dictgen p' = None) by (destruct p'; cbn in *; congruence).
  constructor; sm.
  - apply LP_phase; [apply (I_lp _ _ I)| | | | |].
    + intros l He. exfalso. eapply LP_idle_not_engaged; [apply (I_lp _ _ I)|exact Hold|exact He].
    + intros; subst; discriminate.
    + intros; subst; discriminate.
    + intros k0 l0 H. congruence.
    + auto.
  - apply (I_nodup _ _ I).
  - apply (I_sorted _ _ I).
  - apply (I_stamp _ _ I).
  - apply (I_place _ _ I).
  - apply (I_vdict _ _ I).
  - intros c0 k v b Hp. updc c0 c Hp; [eauto|apply (I_vhit _ _ I _ _ _ _ Hp)].
  - intros c0 k l t0 g Hp. updc c0 c Hp; [subst; discriminate|apply (I_t0 _ _ I _ _ _ _ _ Hp)].
  - intros c0 k l t0 g v e dl Hp. updc c0 c Hp; [subst; discriminate|apply (I_fresh _ _ I _ _ _ _ _ _ _ _ Hp)].
  - intros c0 Hp. updc c0 c Hp; [auto|apply (I_byp _ _ I c0 Hp)].
  - intros c0 k l Hp. updc c0 c Hp; [congruence|apply (I_nobyp _ _ I c0 k l Hp)].
  - intros Hf c0 g Hp. updc c0 c Hp; [congruence|apply (I_gen _ _ I Hf c0 g Hp)].
  - intros c0 g Hp. updc c0 c Hp; [congruence|apply (I_le _ _ I c0 g Hp)].
  - intros Hf Hw c0 k l p b g Hp. updc c0 c Hp; [subst; discriminate|apply (I_A _ _ I Hf Hw _ _ _ _ _ _ Hp)].
  - intros Hf Hw c0 k l t0 g Hp. updc c0 c Hp; [subst; discriminate|apply (I_B _ _ I Hf Hw _ _ _ _ _ Hp)].
Qed.

(* ---------- leaf 2: pend / canc of a running caller change ---------- *)
Lemma inv1_phase_running cf s c k l p b g p2 b2 :
  Inv1 cf s -> phase s c = CInWrapped k l p b g -> Inv1 cf (set_phase s c (CInWrapped k l p2 b2 g)).
Proof.
  intros I Hp0.
  assert (Hc : c < ncall cf) by (apply (L_ncall _ _ _ _ _ (I_lp _ _ I)); congruence).
  constructor; sm.
  - apply LP_phase; [apply (I_lp _ _ I)| | | | |].
    + intros l0 He. destruct (L_eng _ _ _ _ _ (I_lp _ _ I) l0 c He) as [k0 Hk]. rewrite Hp0 in Hk. cbn in *. eauto.
    + discriminate.
    + intros k0 l0 p0 b0 g0 [= -> -> _ _ _]. apply (L_run _ _ _ _ _ (I_lp _ _ I) _ _ _ _ _ _ Hp0).
    + intros k0 l0 [= <- <-]. apply (L_ref _ _ _ _ _ (I_lp _ _ I) c). now rewrite Hp0.
    + auto.
  - apply (I_nodup _ _ I).
  - apply (I_sorted _ _ I).
  - apply (I_stamp _ _ I).
  - apply (I_place _ _ I).
  - apply (I_vdict _ _ I).
  - intros c0 k0 v b0 Hp. updc c0 c Hp; [discriminate|apply (I_vhit _ _ I _ _ _ _ Hp)].
  - intros c0 k0 l0 t0 g0 Hp. updc c0 c Hp; [discriminate|apply (I_t0 _ _ I _ _ _ _ _ Hp)].
  - intros c0 k0 l0 t0 g0 v e dl Hp. updc c0 c Hp; [discriminate|apply (I_fresh _ _ I _ _ _ _ _ _ _ _ Hp)].
  - intros c0 Hp. updc c0 c Hp; [discriminate|apply (I_byp _ _ I c0 Hp)].
  - intros c0 k0 l0 Hp. updc c0 c Hp; [|apply (I_nobyp _ _ I c0 k0 l0 Hp)].
    apply (I_nobyp _ _ I c k l). now rewrite Hp0.
  - intros Hf c0 g0 Hp. updc c0 c Hp; [|apply (I_gen _ _ I Hf c0 g0 Hp)].
    apply (I_gen _ _ I Hf c). rewrite Hp0. exact Hp.
  - intros c0 g0 Hp. updc c0 c Hp; [|apply (I_le _ _ I c0 g0 Hp)].
    apply (I_le _ _ I c). rewrite Hp0. exact Hp.
  - intros Hf Hw c0 k0 l0 p0 b0 g0 Hp. updc c0 c Hp.
    + injection Hp as <- <- _ _ <-. apply (I_A _ _ I Hf Hw _ _ _ _ _ _ Hp0).
    + apply (I_A _ _ I Hf Hw _ _ _ _ _ _ Hp).
  - intros Hf Hw c0 k0 l0 t0 g0 Hp. updc c0 c Hp; [discriminate|apply (I_B _ _ I Hf Hw _ _ _ _ _ Hp)].
Qed.

(* ---------- helper facts ---------- *)
Lemma waited_false cf s k g c l t0 :
  waited cf s k g = false -> c < ncall cf -> phase s c = CLockWait k l t0 g -> False.
Proof.
  unfold waited. intros H Hc Hp.
  assert (E : existsb (fun c0 => waits_for k g (phase s c0)) (seq 0 (ncall cf)) = true).
  { apply existsb_exists. exists c. split; [apply in_seq; lia|]. rewrite Hp. cbn. now rewrite !Nat.eqb_refl. }
  congruence.
Qed.

Lemma referenced_false cf s l c k :
  referenced cf s l = false -> c < ncall cf -> lockref (phase s c) = Some (k, l) -> False.
Proof.
  unfold referenced. intros H Hc Hp.
  assert (E : existsb (fun c0 => refs l (phase s c0)) (seq 0 (ncall cf)) = true).
  { apply existsb_exists. exists c. split; [apply in_seq; lia|].
    destruct (phase s c); cbn in *; try discriminate; injection Hp as _ ->; apply Nat.eqb_refl. }
  congruence.
Qed.

Lemma sorted_dmove k st d :
  StronglySorted stamp_lt d -> (forall y, In y d -> ss y < st) -> StronglySorted stamp_lt (dmove k st d).
Proof.
  intros Hs Hb. unfold dmove. destruct (dfind k d) as [x|]; [|exact Hs].
  apply sorted_app_last; [now apply sorted_filter|].
  intros y Hy. apply in_dremove in Hy. cbn. apply Hb, Hy.
Qed.

Lemma sorted_dstore k e st d :
  StronglySorted stamp_lt d -> (forall y, In y d -> ss y < st) -> StronglySorted stamp_lt (dstore k e st d).
Proof.
  intros Hs Hb. unfold dstore. destruct (dfind k d) as [x|]; [now apply sorted_dset_in|].
  apply sorted_app_last; [exact Hs|]. intros y Hy. cbn. now apply Hb.
Qed.

(* the dict-local part of the invariant for one generation *)
Record DI (s : st) (d : list slot) : Prop := {
  D_nodup : NoDup (keys d);
  D_sorted : StronglySorted stamp_lt d;
  D_stamp : forall x, In x d -> ss x < clk s;
  D_place : forall x l b, In x d -> se x = EPlace l b -> l < nlock s /\ lkey s l = sk x;
  D_vdict : forall x v e, In x d -> se x = EVal v e -> In (sk x, v) (produced s)
}.

Lemma DI_of cf s g : Inv1 cf s -> DI s (dicts s g).
Proof.
  intros I. constructor; [apply (I_nodup _ _ I)|apply (I_sorted _ _ I)|apply (I_stamp _ _ I g)|
                          apply (I_place _ _ I g)|apply (I_vdict _ _ I g)].
Qed.

(* ---------- leaf 4: a placeholder for a key that is not in the current dict ---------- *)
Lemma inv1_install cf s k :
  Inv1 cf s -> dfind k (dict s) = None ->
  Inv1 cf (mk (upd (dicts s) (cur s) (dict s ++ [mkslot k (EPlace (nlock s) false) (clk s)])) (cur s) (has_dict s)
              (hits s) (misses s) (currsize s)
              (upd (locks s) (nlock s) (Lock.init (negb (ackpt cf)))) (S (nlock s)) (phase s) (now s)
              (S (clk s)) (upd (lkey s) (nlock s) k) (produced s) (fl s)).
Proof.
  intros I Hnone. pose proof (dget_none_find _ _ Hnone) as Hg. unfold dict in *. constructor; sm.
  - apply LP_newlock, (I_lp _ _ I).
  - intros g. updg g (cur s); [|apply (I_nodup _ _ I)].
    apply nodup_app_one; [apply (I_nodup _ _ I)|now apply dfind_none_keys].
  - intros g. updg g (cur s); [|apply (I_sorted _ _ I)].
    apply sorted_app_last; [apply (I_sorted _ _ I)|]. intros y Hy. cbn. apply (I_stamp _ _ I _ _ Hy).
  - intros g x Hx. updg g (cur s); [|pose proof (I_stamp _ _ I _ _ Hx); lia].
    apply in_app_or in Hx. destruct Hx as [Hx|[<-|[]]]; [|cbn; lia].
    pose proof (I_stamp _ _ I _ x Hx). lia.
  - intros g x l b Hx He.
    assert (Hold : forall g0, In x (dicts s g0) -> l < S (nlock s) /\ upd (lkey s) (nlock s) k l = sk x).
    { intros g0 H0. destruct (I_place _ _ I g0 x l b H0 He) as [H1 H2]. split; [lia|]. rewrite upd_other; [exact H2|lia]. }
    updg g (cur s); [|eauto]. apply in_app_or in Hx. destruct Hx as [Hx|[<-|[]]]; [eauto|].
    cbn in *. injection He as <- _. split; [lia|apply upd_same].
  - intros g x v e Hx He. updg g (cur s); [|apply (I_vdict _ _ I _ x v e Hx He)].
    apply in_app_or in Hx. destruct Hx as [Hx|[<-|[]]]; [|discriminate].
    apply (I_vdict _ _ I _ x v e Hx He).
  - apply (I_vhit _ _ I).
  - apply (I_t0 _ _ I).
  - intros c k0 l t0 g v e dl Hp Hd. updg g (cur s); [|apply (I_fresh _ _ I _ _ _ _ _ _ _ _ Hp Hd)].
    rewrite dget_app in Hd.
    destruct (dget k0 (dicts s (cur s))) eqn:E; [injection Hd as ->; apply (I_fresh _ _ I _ _ _ _ _ _ _ _ Hp E)|].
    destruct (Nat.eqb k k0); discriminate.
  - apply (I_byp _ _ I).
  - apply (I_nobyp _ _ I).
  - apply (I_gen _ _ I).
  - apply (I_le _ _ I).
  - intros Hf Hw c k0 l p b g Hp. pose proof (I_A _ _ I Hf Hw _ _ _ _ _ _ Hp) as HA.
    updg g (cur s); [|exact HA]. rewrite dget_app, HA. reflexivity.
  - intros Hf Hw c k0 l t0 g Hp. pose proof (I_B _ _ I Hf Hw _ _ _ _ _ Hp) as HB.
    updg g (cur s); [|exact HB]. rewrite dget_app.
    destruct HB as [[b H]|(v & e & H)]; rewrite H; eauto.
Qed.

(* ---------- leaf 5: an expired value of the current dict is replaced by a placeholder ---------- *)
Lemma inv1_expire cf s k x v exp :
  Inv1 cf s -> dfind k (dict s) = Some x -> se x = EVal v exp ->
  Inv1 cf (mk (upd (dicts s) (cur s) (dset_in k (EPlace (nlock s) false) (dict s))) (cur s) (has_dict s)
              (hits s) (misses s) (currsize s - 1)%Z
              (upd (locks s) (nlock s) (Lock.init (negb (ackpt cf)))) (S (nlock s)) (phase s) (now s)
              (clk s) (upd (lkey s) (nlock s) k) (produced s)
              (fl_or_waited (fl s) (waited cf s k (cur s)))).
Proof.
  intros I Hfind Hse. unfold dict in *. pose proof (dget_find _ _ _ Hfind) as Hg. rewrite Hse in Hg.
  constructor; sm.
  - apply LP_newlock, (I_lp _ _ I).
  - intros g. updg g (cur s); [|apply (I_nodup _ _ I)]. rewrite keys_dset_in. apply (I_nodup _ _ I).
  - intros g. updg g (cur s); [|apply (I_sorted _ _ I)]. apply sorted_dset_in, (I_sorted _ _ I).
  - intros g y Hy. updg g (cur s); [|apply (I_stamp _ _ I _ _ Hy)].
    apply in_dset_in in Hy. destruct Hy as [Hy|(z & Hz & _ & ->)]; [apply (I_stamp _ _ I _ _ Hy)|].
    cbn. apply (I_stamp _ _ I _ _ Hz).
  - intros g y l b Hy He.
    assert (Hold : forall g0, In y (dicts s g0) -> l < S (nlock s) /\ upd (lkey s) (nlock s) k l = sk y).
    { intros g0 H0. destruct (I_place _ _ I g0 y l b H0 He) as [H1 H2]. split; [lia|]. rewrite upd_other; [exact H2|lia]. }
    updg g (cur s); [|eauto]. apply in_dset_in in Hy. destruct Hy as [Hy|(z & Hz & Hk & ->)]; [eauto|].
    cbn in *. injection He as <- _. split; [lia|apply upd_same].
  - intros g y v0 e Hy He. updg g (cur s); [|apply (I_vdict _ _ I _ y v0 e Hy He)].
    apply in_dset_in in Hy. destruct Hy as [Hy|(z & Hz & Hk & ->)]; [|discriminate].
    apply (I_vdict _ _ I _ y v0 e Hy He).
  - apply (I_vhit _ _ I).
  - apply (I_t0 _ _ I).
  - intros c k0 l t0 g v0 e dl Hp Hd. updg g (cur s); [|apply (I_fresh _ _ I _ _ _ _ _ _ _ _ Hp Hd)].
    rewrite dget_dset_in in Hd.
    destruct (Nat.eqb k0 k); [rewrite Hg in Hd; discriminate|]. apply (I_fresh _ _ I _ _ _ _ _ _ _ _ Hp Hd).
  - apply (I_byp _ _ I).
  - apply (I_nobyp _ _ I).
  - apply (I_gen _ _ I).
  - apply (I_le _ _ I).
  - intros Hf Hw c k0 l p b g Hp. apply orb_false_elim in Hw. destruct Hw as [Hw1 Hw2].
    pose proof (I_A _ _ I Hf Hw1 _ _ _ _ _ _ Hp) as HA. updg g (cur s); [|exact HA].
    rewrite dget_dset_in. destruct (Nat.eqb_spec k0 k) as [->|N]; [congruence|exact HA].
  - intros Hf Hw c k0 l t0 g Hp. apply orb_false_elim in Hw. destruct Hw as [Hw1 Hw2].
    pose proof (I_B _ _ I Hf Hw1 _ _ _ _ _ Hp) as HB. updg g (cur s); [|exact HB].
    rewrite dget_dset_in. destruct (Nat.eqb_spec k0 k) as [->|N]; [|exact HB].
    exfalso. eapply waited_false; [exact Hw2| |exact Hp].
    apply (L_ncall _ _ _ _ _ (I_lp _ _ I)). congruence.
Qed.

(* ---------- leaf 6: move_to_end in dict g ---------- *)
Lemma inv1_touch cf s g k h m :
  Inv1 cf s ->
  Inv1 cf (mk (upd (dicts s) g (dmove k (clk s) (dicts s g))) (cur s) (has_dict s) h m (currsize s) (locks s)
              (nlock s) (phase s) (now s) (S (clk s)) (lkey s) (produced s) (fl s)).
Proof.
  intros I. constructor; sm.
  - apply (I_lp _ _ I).
  - intros g0. updg g0 g; [|apply (I_nodup _ _ I)]. apply nodup_dmove, (I_nodup _ _ I).
  - intros g0. updg g0 g; [|apply (I_sorted _ _ I)].
    apply sorted_dmove; [apply (I_sorted _ _ I)|apply (I_stamp _ _ I g)].
  - intros g0 y Hy. updg g0 g; [|pose proof (I_stamp _ _ I _ _ Hy); lia].
    apply in_dmove in Hy. destruct Hy as [Hy|(z & Hz & _ & ->)]; [|cbn; lia].
    pose proof (I_stamp _ _ I _ y Hy). lia.
  - intros g0 y l b Hy He. updg g0 g; [|apply (I_place _ _ I _ y l b Hy He)].
    apply in_dmove in Hy. destruct Hy as [Hy|(z & Hz & Hk & ->)].
    + apply (I_place _ _ I _ y l b Hy He).
    + cbn in *. rewrite <- Hk. apply (I_place _ _ I _ z l b Hz He).
  - intros g0 y v e Hy He. updg g0 g; [|apply (I_vdict _ _ I _ y v e Hy He)].
    apply in_dmove in Hy. destruct Hy as [Hy|(z & Hz & Hk & ->)].
    + apply (I_vdict _ _ I _ y v e Hy He).
    + cbn in *. rewrite <- Hk. apply (I_vdict _ _ I _ z v e Hz He).
  - apply (I_vhit _ _ I).
  - apply (I_t0 _ _ I).
  - intros c k0 l t0 g0 v e dl Hp Hd. updg g0 g; [rewrite dget_dmove in Hd|];
      apply (I_fresh _ _ I _ _ _ _ _ _ _ _ Hp Hd).
  - apply (I_byp _ _ I).
  - apply (I_nobyp _ _ I).
  - apply (I_gen _ _ I).
  - apply (I_le _ _ I).
  - intros Hf Hw c k0 l p b g0 Hp. updg g0 g; [rewrite dget_dmove|]; apply (I_A _ _ I Hf Hw _ _ _ _ _ _ Hp).
  - intros Hf Hw c k0 l t0 g0 Hp. updg g0 g; [rewrite dget_dmove|]; apply (I_B _ _ I Hf Hw _ _ _ _ _ Hp).
Qed.

(* ---------- leaf 7: a lock operation by a caller suspended in acquire() that stays there ---------- *)
Lemma LP_lock_only cf s c k l t0 g o :
  Inv1 cf s -> phase s c = CLockWait k l t0 g -> op_tid o = c ->
  engaged (fst (Lock.step (locks s l) o)) c ->
  LP cf (upd (locks s) l (fst (Lock.step (locks s l) o))) (phase s) (nlock s) (lkey s).
Proof.
  intros I Hp Ho He.
  apply LP_ext with (ph := upd (phase s) c (phase s c)).
  - intros c0. destruct (Nat.eq_dec c0 c) as [->|N]; [now rewrite upd_same|now rewrite upd_other].
  - apply LP_update; [apply (I_lp _ _ I)| | | | | | | |].
    + apply LockProofs.step_inv, (L_inv _ _ _ _ _ (I_lp _ _ I)).
    + intros c' N. apply (LP_step_other _ _ _ _ _ l o (I_lp _ _ I)). congruence.
    + rewrite Hp. cbn. intros k0 l0 [= _ <-]. reflexivity.
    + intros _. rewrite Hp. cbn. eauto.
    + rewrite Hp. intros k0 l0 t1 g1 [= _ <- _ _]. auto.
    + rewrite Hp. discriminate.
    + apply (L_ref _ _ _ _ _ (I_lp _ _ I) c).
    + intros _. apply (L_ncall _ _ _ _ _ (I_lp _ _ I)). congruence.
Qed.

Lemma inv1_lock_only cf s c k l t0 g o :
  Inv1 cf s -> phase s c = CLockWait k l t0 g -> op_tid o = c ->
  engaged (fst (Lock.step (locks s l) o)) c ->
  Inv1 cf (set_lock s l (fst (Lock.step (locks s l) o))).
Proof.
  intros I Hp Ho He. pose proof (LP_lock_only cf s c k l t0 g o I Hp Ho He) as HL.
  destruct I. constructor; sm; assumption.
Qed.

(* ---------- leaf 8: an idle caller enters `async with lock` of the entry it has just looked up ---------- *)
Lemma inv1_mark cf s c k l b0 :
  Inv1 cf s -> phase s c = CIdle -> c < ncall cf -> dget k (dict s) = Some (EPlace l b0) ->
  l < nlock s -> lkey s l = k -> is_zero_max cf = false ->
  engaged (fst (Lock.step (locks s l) (Lock.AcqBegin c))) c ->
  Inv1 cf (set_lock (set_phase s c (CLockWait k l (now s) (cur s))) l
                    (fst (Lock.step (locks s l) (Lock.AcqBegin c)))).
Proof.
  intros I Hp Hc Hd Hl Hk Hz He. unfold dict in *. constructor; sm.
  - apply LP_update; [apply (I_lp _ _ I)| | | | | | | |].
    + apply LockProofs.step_inv, (L_inv _ _ _ _ _ (I_lp _ _ I)).
    + intros c' N. apply (LP_step_other _ _ _ _ _ l (Lock.AcqBegin c) (I_lp _ _ I)). exact N.
    + rewrite Hp. discriminate.
    + intros _. cbn. eauto.
    + intros k0 l0 t1 g1 [= _ <- _ _]. auto.
    + discriminate.
    + cbn. intros k0 l0 [= <- <-]. auto.
    + auto.
  - apply (I_nodup _ _ I).
  - apply (I_sorted _ _ I).
  - apply (I_stamp _ _ I).
  - apply (I_place _ _ I).
  - apply (I_vdict _ _ I).
  - intros c0 k0 v b H. updc c0 c H; [discriminate|apply (I_vhit _ _ I _ _ _ _ H)].
  - intros c0 k0 l0 t1 g1 H. updc c0 c H; [injection H as _ _ <- _; lia|apply (I_t0 _ _ I _ _ _ _ _ H)].
  - intros c0 k0 l0 t1 g1 v e dl H Hg. updc c0 c H; [injection H as <- _ _ <-; congruence|].
    apply (I_fresh _ _ I _ _ _ _ _ _ _ _ H Hg).
  - intros c0 H. updc c0 c H; [discriminate|apply (I_byp _ _ I c0 H)].
  - intros c0 k0 l0 H. updc c0 c H; [exact Hz|apply (I_nobyp _ _ I c0 k0 l0 H)].
  - intros Hf c0 g1 H. updc c0 c H; [cbn in H; congruence|apply (I_gen _ _ I Hf c0 g1 H)].
  - intros c0 g1 H. updc c0 c H; [cbn in H; injection H as <-; lia|apply (I_le _ _ I c0 g1 H)].
  - intros Hf Hw c0 k0 l0 p b g1 H. updc c0 c H; [discriminate|apply (I_A _ _ I Hf Hw _ _ _ _ _ _ H)].
  - intros Hf Hw c0 k0 l0 t1 g1 H. updc c0 c H; [injection H as <- <- _ <-; left; eauto|].
    apply (I_B _ _ I Hf Hw _ _ _ _ _ H).
Qed.

(* ---------- leaf 9: a caller leaves its call (cancelled while waiting, KeyError, failure, re-read hit) ---------- *)
Lemma LP_out cf s c k l o :
  Inv1 cf s -> lockref (phase s c) = Some (k, l) -> op_tid o = c ->
  ~ engaged (fst (Lock.step (locks s l) o)) c ->
  LP cf (upd (locks s) l (fst (Lock.step (locks s l) o))) (upd (phase s) c CIdle) (nlock s) (lkey s).
Proof.
  intros I Hp Ho He.
  apply LP_update; [apply (I_lp _ _ I)| | | | | | | |].
  - apply LockProofs.step_inv, (L_inv _ _ _ _ _ (I_lp _ _ I)).
  - intros c' N. apply (LP_step_other _ _ _ _ _ l o (I_lp _ _ I)). congruence.
  - rewrite Hp. intros k0 l0 [= _ <-]. reflexivity.
  - intros H. contradiction.
  - discriminate.
  - discriminate.
  - discriminate.
  - congruence.
Qed.

Lemma inv1_out cf s c k l o :
  Inv1 cf s -> lockref (phase s c) = Some (k, l) -> op_tid o = c ->
  ~ engaged (fst (Lock.step (locks s l) o)) c ->
  Inv1 cf (set_phase (set_lock s l (fst (Lock.step (locks s l) o))) c CIdle).
Proof.
  intros I Hp Ho He.
  constructor; sm.
  - eapply LP_out; eauto.
  - apply (I_nodup _ _ I).
  - apply (I_sorted _ _ I).
  - apply (I_stamp _ _ I).
  - apply (I_place _ _ I).
  - apply (I_vdict _ _ I).
  - intros c0 k0 v b H. updc c0 c H; [discriminate|apply (I_vhit _ _ I _ _ _ _ H)].
  - intros c0 k0 l0 t1 g1 H. updc c0 c H; [discriminate|apply (I_t0 _ _ I _ _ _ _ _ H)].
  - intros c0 k0 l0 t1 g1 v e dl H. updc c0 c H; [discriminate|apply (I_fresh _ _ I _ _ _ _ _ _ _ _ H)].
  - intros c0 H. updc c0 c H; [discriminate|apply (I_byp _ _ I c0 H)].
  - intros c0 k0 l0 H. updc c0 c H; [discriminate|apply (I_nobyp _ _ I c0 k0 l0 H)].
  - intros Hf c0 g1 H. updc c0 c H; [discriminate|apply (I_gen _ _ I Hf c0 g1 H)].
  - intros c0 g1 H. updc c0 c H; [discriminate|apply (I_le _ _ I c0 g1 H)].
  - intros Hf Hw c0 k0 l0 p b g1 H. updc c0 c H; [discriminate|apply (I_A _ _ I Hf Hw _ _ _ _ _ _ H)].
  - intros Hf Hw c0 k0 l0 t1 g1 H. updc c0 c H; [discriminate|apply (I_B _ _ I Hf Hw _ _ _ _ _ H)].
Qed.

(* ---------- leaf 10: the miss bookkeeping (lines 199-203), after which the wrapped function runs ---------- *)
Lemma LP_to_running cf s c k l t0 g :
  Inv1 cf s -> phase s c = CLockWait k l t0 g -> In c (Lock.held (locks s l)) ->
  LP cf (locks s) (upd (phase s) c (CInWrapped k l None false g)) (nlock s) (lkey s).
Proof.
  intros I Hp Hh. apply LP_phase; [apply (I_lp _ _ I)| | | | |].
  - intros l0 He. destruct (L_eng _ _ _ _ _ (I_lp _ _ I) l0 c He) as [k0 Hk]. rewrite Hp in Hk. cbn in *. eauto.
  - discriminate.
  - intros k0 l0 p b g0 [= _ <- _ _ _]. exact Hh.
  - cbn. intros k0 l0 [= <- <-]. apply (L_ref _ _ _ _ _ (I_lp _ _ I) c). now rewrite Hp.
  - intros _. apply (L_ncall _ _ _ _ _ (I_lp _ _ I)). congruence.
Qed.

Lemma own_place cf s c k l t0 g l' b' :
  Inv1 cf s -> phase s c = CLockWait k l t0 g -> dget k (dicts s g) = Some (EPlace l' b') ->
  f_inflight s = false -> f_waited s = false -> l' = l.
Proof.
  intros I Hp Hd Hf Hw. destruct (I_B _ _ I Hf Hw _ _ _ _ _ Hp) as [[b H]|(v & e & H)]; congruence.
Qed.

(* the dict-local part is kept by the ghost mark *)
Lemma DI_dmark s k d : DI s d -> DI s (dmark k d).
Proof.
  intros [H1 H2 H3 H4 H5]. constructor.
  - now rewrite keys_dmark.
  - now apply sorted_dmark.
  - intros x Hx. apply in_dmark in Hx. destruct Hx as [Hx|(y & z & l & b & Hy & _ & _ & _ & ->)]; [auto|cbn; auto].
  - intros x l b Hx He. apply in_dmark in Hx.
    destruct Hx as [Hx|(y & z & l0 & b0 & Hy & Hz & Hk & Hse & ->)]; [eauto|].
    cbn in *. injection He as <- _. rewrite <- Hk. eauto.
  - intros x v e Hx He. apply in_dmark in Hx.
    destruct Hx as [Hx|(y & z & l0 & b0 & Hy & Hz & Hk & Hse & ->)]; [eauto|discriminate].
Qed.

Lemma DI_tl s x r : DI s (x :: r) -> DI s r.
Proof.
  intros [H1 H2 H3 H4 H5]. constructor.
  - now inversion H1.
  - now inversion H2.
  - intros y Hy. apply H3. now right.
  - intros y l b Hy. apply H4. now right.
  - intros y v e Hy. apply H5. now right.
Qed.

Lemma inv1_miss_noevict cf s c k l t0 g l' b' cs :
  Inv1 cf s -> phase s c = CLockWait k l t0 g -> In c (Lock.held (locks s l)) ->
  dget k (dicts s g) = Some (EPlace l' b') ->
  Inv1 cf (mk (upd (dicts s) g (dmark k (dicts s g))) (cur s) (has_dict s) (hits s) (S (misses s)) cs (locks s)
              (nlock s) (upd (phase s) c (CInWrapped k l None false g)) (now s) (clk s) (lkey s) (produced s)
              (fl s)).
Proof.
  intros I Hp Hh Hd.
  pose proof (DI_dmark s k _ (DI_of cf s g I)) as HD.
  constructor; sm.
  - eapply LP_to_running; eauto.
  - intros g0. updg g0 g; [apply (D_nodup _ _ HD)|apply (I_nodup _ _ I)].
  - intros g0. updg g0 g; [apply (D_sorted _ _ HD)|apply (I_sorted _ _ I)].
  - intros g0 x Hx. updg g0 g; [apply (D_stamp _ _ HD _ Hx)|apply (I_stamp _ _ I _ _ Hx)].
  - intros g0 x l0 b Hx. updg g0 g; [apply (D_place _ _ HD _ _ _ Hx)|apply (I_place _ _ I _ _ _ _ Hx)].
  - intros g0 x v e Hx. updg g0 g; [apply (D_vdict _ _ HD _ _ _ Hx)|apply (I_vdict _ _ I _ _ _ _ Hx)].
  - intros c0 k0 v b H. updc c0 c H; [discriminate|apply (I_vhit _ _ I _ _ _ _ H)].
  - intros c0 k0 l0 t1 g1 H. updc c0 c H; [discriminate|apply (I_t0 _ _ I _ _ _ _ _ H)].
  - intros c0 k0 l0 t1 g1 v e dl H Hg Ht. updc c0 c H; [discriminate|].
    apply (I_fresh _ _ I _ _ _ _ _ v e dl H); [|exact Ht].
    updg g1 g; [|exact Hg]. rewrite dget_dmark in Hg. destruct (Nat.eqb_spec k0 k) as [->|N]; [|exact Hg].
    rewrite Hd in Hg. discriminate.
  - intros c0 H. updc c0 c H; [discriminate|apply (I_byp _ _ I c0 H)].
  - intros c0 k0 l0 H. updc c0 c H; [|apply (I_nobyp _ _ I c0 k0 l0 H)].
    apply (I_nobyp _ _ I c k l). now rewrite Hp.
  - intros Hf c0 g1 H. updc c0 c H; [|apply (I_gen _ _ I Hf c0 g1 H)].
    apply (I_gen _ _ I Hf c). rewrite Hp. exact H.
  - intros c0 g1 H. updc c0 c H; [|apply (I_le _ _ I c0 g1 H)].
    apply (I_le _ _ I c). rewrite Hp. exact H.
  - intros Hf Hw c0 k0 l0 p b g1 H. updc c0 c H.
    + injection H as <- <- _ _ <-. rewrite upd_same, dget_dmark, Nat.eqb_refl, Hd. f_equal. f_equal.
      eapply own_place; eauto.
    + pose proof (I_A _ _ I Hf Hw _ _ _ _ _ _ H) as HA. updg g1 g; [|exact HA].
      rewrite dget_dmark. destruct (Nat.eqb_spec k0 k) as [->|N]; [|exact HA]. rewrite HA. reflexivity.
  - intros Hf Hw c0 k0 l0 t1 g1 H. updc c0 c H; [discriminate|].
    pose proof (I_B _ _ I Hf Hw _ _ _ _ _ H) as HB. updg g1 g; [|exact HB].
    rewrite dget_dmark. destruct (Nat.eqb_spec k0 k) as [->|N]; [|exact HB].
    destruct HB as [[b H']|(v & e & H')]; rewrite H'; eauto.
Qed.

(* what the flags say about the evicted head when they stay false *)
Lemma evict_flags_false cf s g x0 :
  fl_inflight (evict_flags cf s g x0) = false -> fl_waited (evict_flags cf s g x0) = false ->
  f_inflight s = false /\ f_waited s = false /\
  match se x0 with
  | EPlace l b => referenced cf s l = false
  | EVal _ _ => waited cf s (sk x0) g = false
  end.
Proof.
  unfold evict_flags, f_inflight, f_waited. destruct (se x0) as [l b|v e].
  - destruct (referenced cf s l); cbn; intros H1 H2.
    + apply orb_false_elim in H1. destruct H1. discriminate.
    + auto.
  - cbn. intros H1 H2. apply orb_false_elim in H2. tauto.
Qed.

Lemma inv1_miss_evict cf s c k l t0 g l' b' x0 r :
  Inv1 cf s -> phase s c = CLockWait k l t0 g -> In c (Lock.held (locks s l)) ->
  dget k (dicts s g) = Some (EPlace l' b') -> dicts s g = x0 :: r ->
  Inv1 cf (mk (upd (dicts s) g (dmark k r)) (cur s) (has_dict s) (hits s) (S (misses s)) (currsize s) (locks s)
              (nlock s) (upd (phase s) c (CInWrapped k l None false g)) (now s) (clk s) (lkey s) (produced s)
              (evict_flags cf s g x0)).
Proof.
  intros I Hp Hh Hd Hdict.
  assert (Hc : c < ncall cf) by (apply (L_ncall _ _ _ _ _ (I_lp _ _ I)); congruence).
  pose proof (DI_of cf s g I) as HD0. rewrite Hdict in HD0, Hd.
  pose proof (DI_dmark s k _ (DI_tl s x0 r HD0)) as HD.
  pose proof (D_nodup _ _ HD0) as Hnd.
  assert (Hph : fl_phantom (evict_flags cf s g x0) = fl_phantom (fl s)).
  { unfold evict_flags. destruct (se x0); [destruct (referenced cf s l0)|]; reflexivity. }
  constructor; sm.
  - eapply LP_to_running; eauto.
  - intros g0. updg g0 g; [apply (D_nodup _ _ HD)|apply (I_nodup _ _ I)].
  - intros g0. updg g0 g; [apply (D_sorted _ _ HD)|apply (I_sorted _ _ I)].
  - intros g0 x Hx. updg g0 g; [apply (D_stamp _ _ HD _ Hx)|apply (I_stamp _ _ I _ _ Hx)].
  - intros g0 x l0 b Hx. updg g0 g; [apply (D_place _ _ HD _ _ _ Hx)|apply (I_place _ _ I _ _ _ _ Hx)].
  - intros g0 x v e Hx. updg g0 g; [apply (D_vdict _ _ HD _ _ _ Hx)|apply (I_vdict _ _ I _ _ _ _ Hx)].
  - intros c0 k0 v b H. updc c0 c H; [discriminate|apply (I_vhit _ _ I _ _ _ _ H)].
  - intros c0 k0 l0 t1 g1 H. updc c0 c H; [discriminate|apply (I_t0 _ _ I _ _ _ _ _ H)].
  - intros c0 k0 l0 t1 g1 v e dl H Hg Ht. updc c0 c H; [discriminate|].
    updg g1 g; [|apply (I_fresh _ _ I _ _ _ _ _ v e dl H Hg Ht)].
    rewrite dget_dmark in Hg.
    assert (Hg' : dget k0 r = Some (EVal v (Some e))).
    { destruct (Nat.eqb_spec k0 k) as [->|N]; [|exact Hg]. destruct (dget k r) as [[l1 b1|v1 e1]|]; congruence. }
    destruct (dget_tl_cases k0 x0 r Hnd) as [E|E]; [|congruence].
    apply (I_fresh _ _ I _ _ _ _ _ v e dl H); [rewrite Hdict, <- E; exact Hg'|exact Ht].
  - intros c0 H. updc c0 c H; [discriminate|apply (I_byp _ _ I c0 H)].
  - intros c0 k0 l0 H. updc c0 c H; [|apply (I_nobyp _ _ I c0 k0 l0 H)].
    apply (I_nobyp _ _ I c k l). now rewrite Hp.
  - rewrite Hph. intros Hf c0 g1 H. updc c0 c H; [|apply (I_gen _ _ I Hf c0 g1 H)].
    apply (I_gen _ _ I Hf c). rewrite Hp. exact H.
  - intros c0 g1 H. updc c0 c H; [|apply (I_le _ _ I c0 g1 H)].
    apply (I_le _ _ I c). rewrite Hp. exact H.
  - intros Hf Hw. destruct (evict_flags_false cf s g x0 Hf Hw) as (Hf0 & Hw0 & Hx0).
    intros c0 k0 l0 p b g1 H. updc c0 c H.
    + injection H as <- <- _ _ <-. rewrite upd_same.
      assert (Hne : sk x0 <> k).
      { intros E. rewrite dget_cons, E, Nat.eqb_refl in Hd. injection Hd as Hd. rewrite Hd in Hx0.
        eapply referenced_false; [exact Hx0|exact Hc|]. rewrite Hp. cbn. f_equal. f_equal.
        symmetry. eapply own_place; eauto. rewrite Hdict, dget_cons, E, Nat.eqb_refl, Hd. reflexivity. }
      rewrite dget_dmark, Nat.eqb_refl, (dget_tl k x0 r Hne), Hd. f_equal. f_equal.
      eapply own_place; eauto. rewrite Hdict. exact Hd.
    + pose proof (I_A _ _ I Hf0 Hw0 _ _ _ _ _ _ H) as HA. updg g1 g; [|exact HA]. rewrite Hdict in HA.
      assert (Hne : sk x0 <> k0).
      { intros E. rewrite dget_cons, E, Nat.eqb_refl in HA. injection HA as HA. rewrite HA in Hx0.
        eapply (referenced_false cf s _ c0); [exact Hx0| |].
        - apply (L_ncall _ _ _ _ _ (I_lp _ _ I)). congruence.
        - rewrite H. reflexivity. }
      rewrite dget_dmark. destruct (Nat.eqb_spec k0 k) as [->|N]; rewrite (dget_tl _ x0 r Hne), HA; reflexivity.
  - intros Hf Hw. destruct (evict_flags_false cf s g x0 Hf Hw) as (Hf0 & Hw0 & Hx0).
    intros c0 k0 l0 t1 g1 H. updc c0 c H; [discriminate|].
    pose proof (I_B _ _ I Hf0 Hw0 _ _ _ _ _ H) as HB. updg g1 g; [|exact HB]. rewrite Hdict in HB.
    assert (Hc0 : c0 < ncall cf) by (apply (L_ncall _ _ _ _ _ (I_lp _ _ I)); congruence).
    assert (Hne : sk x0 <> k0).
    { intros E. rewrite dget_cons, E, Nat.eqb_refl in HB. destruct HB as [[b HB]|(v & e & HB)]; injection HB as HB;
        rewrite HB in Hx0.
      - eapply referenced_false; [exact Hx0|exact Hc0|]. rewrite H. reflexivity.
      - subst k0. eapply waited_false; [exact Hx0|exact Hc0|exact H]. }
    rewrite dget_dmark.
    destruct (Nat.eqb_spec k0 k) as [->|N]; rewrite (dget_tl _ x0 r Hne);
      destruct HB as [[b HB]|(v & e & HB)]; rewrite HB; eauto.
Qed.

(* ---------- leaf 11: the wrapped function returned: store, release, return (lines 205-209, 216) ---------- *)
Lemma inv1_store_out cf s c k l v g :
  Inv1 cf s -> phase s c = CInWrapped k l (Some (WRet v)) false g ->
  Inv1 cf (mk (upd (dicts s) g (dstore k (EVal v (new_exp cf (now s))) (clk s) (dicts s g))) (cur s) (has_dict s)
              (hits s) (misses s) (currsize s)
              (upd (locks s) l (fst (Lock.step (locks s l) (Lock.Release c)))) (nlock s)
              (upd (phase s) c CIdle) (now s) (S (clk s)) (lkey s) ((k, v) :: produced s) (fl s)).
Proof.
  intros I Hp.
  pose proof (L_run _ _ _ _ _ (I_lp _ _ I) _ _ _ _ _ _ Hp) as Hh.
  constructor; sm.
  - apply (LP_out cf s c k l (Lock.Release c) I); [now rewrite Hp|reflexivity|].
    apply release_holder; [apply (L_inv _ _ _ _ _ (I_lp _ _ I))|exact Hh].
  - intros g0. updg g0 g; [|apply (I_nodup _ _ I)]. apply nodup_dstore, (I_nodup _ _ I).
  - intros g0. updg g0 g; [|apply (I_sorted _ _ I)].
    apply sorted_dstore; [apply (I_sorted _ _ I)|apply (I_stamp _ _ I g)].
  - intros g0 y Hy. updg g0 g; [|pose proof (I_stamp _ _ I _ _ Hy); lia].
    apply in_dstore in Hy. destruct Hy as [Hy|(_ & _ & [E|(z & Hz & E)])].
    + pose proof (I_stamp _ _ I _ y Hy). lia.
    + lia.
    + pose proof (I_stamp _ _ I _ z Hz). lia.
  - intros g0 y l0 b Hy He. updg g0 g; [|apply (I_place _ _ I _ y l0 b Hy He)].
    apply in_dstore in Hy. destruct Hy as [Hy|(_ & E & _)]; [|congruence].
    apply (I_place _ _ I _ y l0 b Hy He).
  - intros g0 y v0 e Hy He. updg g0 g; [|right; apply (I_vdict _ _ I _ y v0 e Hy He)].
    apply in_dstore in Hy. destruct Hy as [Hy|(E1 & E2 & _)].
    + right. apply (I_vdict _ _ I _ y v0 e Hy He).
    + left. rewrite E2 in He. injection He as <- _. now rewrite E1.
  - intros c0 k0 v0 b H. updc c0 c H; [discriminate|]. right. apply (I_vhit _ _ I _ _ _ _ H).
  - intros c0 k0 l0 t1 g1 H. updc c0 c H; [discriminate|apply (I_t0 _ _ I _ _ _ _ _ H)].
  - intros c0 k0 l0 t1 g1 v0 e dl H Hg Ht. updc c0 c H; [discriminate|].
    updg g1 g; [|apply (I_fresh _ _ I _ _ _ _ _ _ _ _ H Hg Ht)].
    rewrite dget_dstore in Hg. destruct (Nat.eqb_spec k0 k) as [->|N].
    + injection Hg as _ Hg. unfold new_exp in Hg. rewrite Ht in Hg. injection Hg as <-.
      pose proof (I_t0 _ _ I _ _ _ _ _ H). lia.
    + apply (I_fresh _ _ I _ _ _ _ _ _ _ _ H Hg Ht).
  - intros c0 H. updc c0 c H; [discriminate|apply (I_byp _ _ I c0 H)].
  - intros c0 k0 l0 H. updc c0 c H; [discriminate|apply (I_nobyp _ _ I c0 k0 l0 H)].
  - intros Hf c0 g1 H. updc c0 c H; [discriminate|apply (I_gen _ _ I Hf c0 g1 H)].
  - intros c0 g1 H. updc c0 c H; [discriminate|apply (I_le _ _ I c0 g1 H)].
  - intros Hf Hw c0 k0 l0 p b g1 H. updc c0 c H; [discriminate|].
    pose proof (I_A _ _ I Hf Hw _ _ _ _ _ _ H) as HA. updg g1 g; [|exact HA]. rewrite dget_dstore.
    destruct (Nat.eqb_spec k0 k) as [->|N]; [|exact HA]. exfalso.
    pose proof (I_A _ _ I Hf Hw _ _ _ _ _ _ Hp) as HA'. assert (l0 = l) by congruence. subst l0.
    pose proof (L_run _ _ _ _ _ (I_lp _ _ I) _ _ _ _ _ _ H) as Hh0.
    pose proof (held_unique _ _ _ (L_inv _ _ _ _ _ (I_lp _ _ I) l) Hh0 Hh). contradiction.
  - intros Hf Hw c0 k0 l0 t1 g1 H. updc c0 c H; [discriminate|].
    pose proof (I_B _ _ I Hf Hw _ _ _ _ _ H) as HB. updg g1 g; [|exact HB].
    rewrite dget_dstore. destruct (Nat.eqb_spec k0 k) as [->|N]; [right; eauto|exact HB].
Qed.

(* ---------- leaf 12: cache_clear(), a new event loop ---------- *)
Lemma all_idle_phase cf s : Inv1 cf s -> all_idle cf s = true -> forall c, phase s c = CIdle.
Proof.
  intros I H c. unfold all_idle in H. rewrite forallb_forall in H.
  destruct (phase s c) eqn:E; [reflexivity| | | | |];
    (assert (Hc : c < ncall cf) by (apply (L_ncall _ _ _ _ _ (I_lp _ _ I)); congruence);
     assert (Hin : In c (seq 0 (ncall cf))) by (apply in_seq; lia);
     specialize (H c Hin); rewrite E in H; discriminate).
Qed.

(* a fresh, empty current dict; the flag b must be set unless nobody is inside a call *)
Lemma inv1_newgen cf s hd h m cs b :
  Inv1 cf s -> (b = false -> all_idle cf s = true) ->
  Inv1 cf (mk (upd (dicts s) (S (cur s)) []) (S (cur s)) hd h m cs (locks s) (nlock s) (phase s) (now s) (clk s)
              (lkey s) (produced s) (fl_or_phantom (fl s) b)).
Proof.
  intros I Hb. constructor; sm.
  - apply (I_lp _ _ I).
  - intros g. updg g (S (cur s)); [constructor|apply (I_nodup _ _ I)].
  - intros g. updg g (S (cur s)); [constructor|apply (I_sorted _ _ I)].
  - intros g x Hx. updg g (S (cur s)); [contradiction|apply (I_stamp _ _ I _ _ Hx)].
  - intros g x l b0 Hx. updg g (S (cur s)); [contradiction|apply (I_place _ _ I _ _ _ _ Hx)].
  - intros g x v e Hx. updg g (S (cur s)); [contradiction|apply (I_vdict _ _ I _ _ _ _ Hx)].
  - apply (I_vhit _ _ I).
  - apply (I_t0 _ _ I).
  - intros c k l t0 g v e dl Hp Hd. updg g (S (cur s)); [discriminate|apply (I_fresh _ _ I _ _ _ _ _ _ _ _ Hp Hd)].
  - apply (I_byp _ _ I).
  - apply (I_nobyp _ _ I).
  - intros Hf c g Hp. apply orb_false_elim in Hf. destruct Hf as [_ Hf].
    rewrite (all_idle_phase cf s I (Hb Hf) c) in Hp. discriminate.
  - intros c g Hp. pose proof (I_le _ _ I c g Hp). lia.
  - intros Hf Hw c k l p b0 g Hp. pose proof (I_A _ _ I Hf Hw _ _ _ _ _ _ Hp) as HA.
    assert (g <= cur s) by (apply (I_le _ _ I c); now rewrite Hp).
    rewrite upd_other by lia. exact HA.
  - intros Hf Hw c k l t0 g Hp. pose proof (I_B _ _ I Hf Hw _ _ _ _ _ Hp) as HB.
    assert (g <= cur s) by (apply (I_le _ _ I c); now rewrite Hp).
    rewrite upd_other by lia. exact HB.
Qed.
